package ldiff

import (
	"context"
	"fmt"
	"math/rand"
	"os"
	"strconv"
	"sync"
	"testing"

	"github.com/cespare/xxhash"

	"github.com/anyproto/any-sync/commonspace/headsync"

	"verifharness/vfutil"
)

var ctxBg = context.Background()

func remoteForTypeCheck(rem index) headsync.RemoteDiff {
	return headsync.NewRemoteDiff("space", &hsClient{rem.AsDiff()})
}

// randCase describes one randomly generated case completely (it is its own replay object).
type randCase struct {
	Kind   string `json:"kind"` // "c08" | "c07"
	Df     int    `json:"df"`
	Th     int    `json:"th"`
	Seed   int64  `json:"seed"`
	N      int    `json:"n"`      // size of the id universe
	Skew   int    `json:"skew"`   // > 0: half of the ids share this many leading hash bits (deep splitting)
	Ops    int    `json:"ops"`    // c08: number of operations after the initial fill
	Batch  int    `json:"batch"`  // maximal number of elements per Set call
	Every  int    `json:"every"`  // c08: compare with a fresh index every so many operations
	Legacy bool   `json:"legacy"` // c07: the remote is a legacy peer with a non-canonical index
	RDf    int    `json:"rdf"`    // c07: divide factor of the remote index (0 = same as the requester's)
	RTh    int    `json:"rth"`    // c07: threshold of the remote index (0 = same as the requester's)
}

// remoteTuning: the two sides of a diff are tuned independently
func (c randCase) remoteTuning() (df, th int) {
	df, th = c.Df, c.Th
	if c.RDf > 0 {
		df = c.RDf
	}
	if c.RTh > 0 {
		th = c.RTh
	}
	return
}

func (c randCase) tuningClass() string {
	df, th := c.remoteTuning()
	switch {
	case df == c.Df && th == c.Th:
		return "same-tuning"
	case df == c.Df:
		return "mixed-th"
	}
	return "mixed-df"
}

func (c randCase) String() string {
	rdf, rth := c.remoteTuning()
	return fmt.Sprintf("%s df=%d th=%d remote(df=%d th=%d) n=%d skew=%d ops=%d batch=%d legacy=%v seed=%d", c.Kind, c.Df, c.Th, rdf, rth, c.N, c.Skew, c.Ops, c.Batch, c.Legacy, c.Seed)
}

// universe returns n distinct ids; with skew > 0 every second one has a hash whose leading skew bits
// equal those of a seed-chosen prefix, so that its ranges have to be divided deep down.
func universe(c randCase, rnd *rand.Rand) []string {
	ids := make([]string, 0, c.N)
	var prefix uint64
	if c.Skew > 0 {
		prefix = rnd.Uint64() >> (64 - uint(c.Skew))
	}
	ctr := 0
	sp := []byte(fmt.Sprintf("s%d-", c.Seed))
	var buf []byte
	for len(ids) < c.N {
		if c.Skew > 0 && len(ids)%2 == 1 {
			for {
				ctr++
				buf = strconv.AppendInt(append(buf[:0], sp...), int64(ctr), 10)
				if xxhash.Sum64(buf)>>(64-uint(c.Skew)) == prefix {
					ids = append(ids, string(buf))
					break
				}
			}
			continue
		}
		ctr++
		ids = append(ids, fmt.Sprintf("u%d-%d", c.Seed, ctr))
	}
	return ids
}

func sizeClass(n int) string {
	switch {
	case n <= 8:
		return "tiny"
	case n <= 100:
		return "small"
	case n <= 2000:
		return "medium"
	}
	return "large"
}

// rangesToCheck: the materialised ranges of both indexes, one level below them, and random ranges.
func rangesToCheck(x, f index, df int, rnd *rand.Rand, limit int) []tuple {
	seen := map[tuple]bool{}
	var ts []tuple
	add := func(t tuple) {
		if !seen[t] {
			seen[t] = true
			ts = append(ts, t)
		}
	}
	for _, ix := range []index{x, f} {
		paths, _ := materialised(ix, df, 48)
		for _, p := range paths {
			t := tupleOf(p, df)
			add(t)
			if t.To-t.From >= uint64(df)*2 {
				for _, k := range kids(t, df) {
					add(k)
				}
			}
		}
	}
	if len(ts) > limit {
		rnd.Shuffle(len(ts), func(i, j int) { ts[i], ts[j] = ts[j], ts[i] })
		ts = ts[:limit]
	}
	for i := 0; i < 24; i++ {
		a, b := rnd.Uint64(), rnd.Uint64()
		if i%2 == 0 {
			b = a + uint64(rnd.Int63n(1<<uint(10+rnd.Intn(50))))
		}
		if a > b {
			a, b = b, a
		}
		add(tuple{a, b})
	}
	return ts
}

func checkFreshRandom(x index, df, th int, rnd *rand.Rand) (string, string) {
	f := freshLike(x, df, th)
	if x.Hash() != f.Hash() {
		return "hash", fmt.Sprintf("Hash()=%s, a freshly filled index with the same %d elements has %s", x.Hash(), len(f.Elements()), f.Hash())
	}
	ts := rangesToCheck(x, f, df, rnd, 3000)
	plain := make([]rreq, len(ts))
	for i, t := range ts {
		plain[i] = rreq{t, false}
	}
	ax, af := x.Ranges(plain), f.Ranges(plain)
	var withEls []rreq
	big := 0
	for i, t := range ts {
		if w := compareAnswers(ax[i], af[i]); w != "" {
			return "range-" + w, fmt.Sprintf("Ranges([%d,%d]) differs from the fresh index in %s (count %d vs %d)", t.From, t.To, w, ax[i].Count, af[i].Count)
		}
		// element lists: every small range, a few large ones (a large list is compared once, not per level)
		if af[i].Count <= 512 {
			withEls = append(withEls, rreq{t, true})
		} else if big < 4 {
			big++
			withEls = append(withEls, rreq{t, true})
		}
	}
	for len(withEls) > 0 {
		n := min(len(withEls), 256)
		ex, ef := x.Ranges(withEls[:n]), f.Ranges(withEls[:n])
		for i := range ex {
			if w := compareAnswers(ex[i], ef[i]); w != "" {
				return "range-els-" + w, fmt.Sprintf("Ranges([%d,%d],Elements) differs from the fresh index in %s", withEls[i].From, withEls[i].To, w)
			}
		}
		withEls = withEls[n:]
	}
	return "", ""
}

// contents tracks what an index should hold, with a deterministic (seed-driven) choice of present ids.
type contents struct {
	m    map[string]string
	list []string
	pos  map[string]int
}

func newContents() *contents { return &contents{m: map[string]string{}, pos: map[string]int{}} }
func (c *contents) put(id, head string) {
	if _, ok := c.m[id]; !ok {
		c.pos[id] = len(c.list)
		c.list = append(c.list, id)
	}
	c.m[id] = head
}
func (c *contents) del(id string) {
	i, ok := c.pos[id]
	if !ok {
		return
	}
	last := c.list[len(c.list)-1]
	c.list[i] = last
	c.pos[last] = i
	c.list = c.list[:len(c.list)-1]
	delete(c.pos, id)
	delete(c.m, id)
}
func (c *contents) pick(rnd *rand.Rand) string {
	if len(c.list) == 0 {
		return ""
	}
	return c.list[rnd.Intn(len(c.list))]
}

func randHead(rnd *rand.Rand) string { return fmt.Sprintf("h%06d", rnd.Intn(1000000)) }

// history applies nOps random operations to x over the id universe and calls onOp after each.
func history(x index, ids []string, present *contents, rnd *rand.Rand, nOps, batch int, onOp func(op string, i int) bool) {
	for i := 0; i < nOps; i++ {
		var op string
		switch k := rnd.Intn(10); {
		case k < 3: // new ids (as far as any are left), possibly several
			op = "SetNew"
			var els []el
			n := 1 + rnd.Intn(batch)
			for t := 0; t < n*4 && len(els) < n; t++ {
				id := ids[rnd.Intn(len(ids))]
				if _, ok := present.m[id]; !ok {
					h := randHead(rnd)
					els = append(els, el{id, h})
					present.put(id, h)
				}
			}
			if len(els) == 0 {
				continue
			}
			if len(els) > 1 {
				op = "SetMany"
			}
			x.Set(els...)
		case k < 5: // existing ids with new (or the same) heads
			op = "SetUpdate"
			var els []el
			n := 1 + rnd.Intn(batch)
			for t := 0; t < n; t++ {
				id := present.pick(rnd)
				if id == "" {
					break
				}
				h := present.m[id]
				if rnd.Intn(4) > 0 {
					h = randHead(rnd)
				}
				els = append(els, el{id, h})
				present.put(id, h)
			}
			if len(els) == 0 {
				continue
			}
			x.Set(els...)
		case k < 6: // mixed batch with duplicates of an id
			op = "SetMany"
			var els []el
			n := 2 + rnd.Intn(batch)
			for len(els) < n {
				id := ids[rnd.Intn(len(ids))]
				if len(els) > 0 && rnd.Intn(3) == 0 {
					id = els[rnd.Intn(len(els))].Id
				}
				els = append(els, el{id, randHead(rnd)})
			}
			for _, e := range els {
				present.put(e.Id, e.Head)
			}
			x.Set(els...)
		case k < 9: // remove a present id
			op = "RemoveId"
			id := present.pick(rnd)
			if id == "" {
				continue
			}
			present.del(id)
			if err := x.RemoveId(id); err != nil {
				panic(fmt.Sprintf("harness: RemoveId(%s) of a present id: %v", id, err))
			}
		default:
			op = "RemoveMissing"
			id := ids[rnd.Intn(len(ids))]
			if _, ok := present.m[id]; ok {
				id = id + "-absent"
			}
			_ = x.RemoveId(id)
		}
		if onOp != nil && !onOp(op, i) {
			return
		}
	}
}

func fillInBatches(x index, els []el, present *contents, rnd *rand.Rand, batch int) {
	rnd.Shuffle(len(els), func(i, j int) { els[i], els[j] = els[j], els[i] })
	for len(els) > 0 {
		n := 1 + rnd.Intn(batch)
		if n > len(els) {
			n = len(els)
		}
		x.Set(els[:n]...)
		for _, e := range els[:n] {
			present.put(e.Id, e.Head)
		}
		els = els[n:]
	}
}

func runRandomCase(j *judge, c randCase) {
	switch c.Kind {
	case "c08":
		runRandomC08(j, c)
	case "c07":
		runRandomC07(j, c)
	default:
		panic("harness: unknown random case kind " + c.Kind)
	}
}

func isHarnessPanic(p any) bool {
	s, ok := p.(string)
	return ok && len(s) >= 8 && s[:8] == "harness:"
}

// C08 on a large index: random history, compared with a freshly filled index along the way.
func runRandomC08(j *judge, c randCase) {
	rnd := rand.New(rand.NewSource(c.Seed))
	ids := universe(c, rnd)
	x := newReal(c.Df, c.Th)
	present := newContents()
	replay := replayObj{Kind: "random", Random: &c}
	defer func() {
		if p := recover(); p != nil {
			if isHarnessPanic(p) {
				panic(p)
			}
			j.violate(j.property, "panic/random-history", fmt.Sprintf("%v: index operation panicked: %v", c, p), replay)
		}
	}()
	var first []el
	for _, id := range ids {
		if rnd.Float64() < 0.6 {
			first = append(first, el{id, randHead(rnd)})
		}
	}
	fillInBatches(x, first, present, rnd, c.Batch*8)
	failed := false
	var prev snapshot
	check := func(op string) {
		j.rep.Case(fmt.Sprintf("c08r/%s/df%d/th%d/%s/skew%d", op, c.Df, c.Th, sizeClass(c.N), c.Skew))
		cur := snapshot{x.Hash(), mustJSON(x.Elements())}
		if prev.hash == cur.hash && prev.els != cur.els {
			failed = true
			j.violate("C08", "hash-unchanged-by-content-change/"+op, fmt.Sprintf("%v: %s changed the contents but Hash() is still %s", c, op, cur.hash), replay)
		}
		prev = cur
		if what, desc := checkFreshRandom(x, c.Df, c.Th, rnd); what != "" {
			failed = true
			j.violate("C08", "fresh-mismatch/"+op+"/"+what, fmt.Sprintf("%v: after %s the index differs from a freshly filled one: %s", c, op, desc), replay)
		}
	}
	check("Fill")
	if failed {
		return
	}
	history(x, ids, present, rnd, c.Ops, c.Batch, func(op string, i int) bool {
		if c.Every <= 1 || (i+1)%c.Every == 0 || i == c.Ops-1 {
			if c.Every > 1 {
				op = "History"
			}
			check(op)
		}
		return !failed
	})
	if len(x.Elements()) != len(present.m) {
		j.rep.DriftNote("%v: Elements() has %d entries, expected %d", c, len(x.Elements()), len(present.m))
	}
}

// C07 on large sets: two random sets with overlap / changed heads, every variant and transport.
func runRandomC07(j *judge, c randCase) {
	rnd := rand.New(rand.NewSource(c.Seed))
	ids := universe(c, rnd)
	loc := newReal(c.Df, c.Th)
	var rem index
	remoteKind := "current"
	rdf, rth := c.remoteTuning()
	if c.Legacy {
		rem = newLegacy(rdf, rth)
		remoteKind = "legacy"
	} else {
		rem = newReal(rdf, rth)
	}
	replay := replayObj{Kind: "random", Random: &c}
	func() {
		defer func() {
			if p := recover(); p != nil {
				if isHarnessPanic(p) {
					panic(p)
				}
				j.violate(j.property, "panic/random-history", fmt.Sprintf("%v: index operation panicked: %v", c, p), replay)
			}
		}()
		// shape of the difference: mostly in sync, or wildly different
		same := []float64{0.95, 0.5, 0.0, 0.999}[rnd.Intn(4)]
		lp, rp := newContents(), newContents()
		var le, re []el
		for _, id := range ids {
			h := randHead(rnd)
			switch r := rnd.Float64(); {
			case r < same:
				le, re = append(le, el{id, h}), append(re, el{id, h})
			case r < same+(1-same)*0.3:
				le, re = append(le, el{id, h}), append(re, el{id, randHead(rnd)})
			case r < same+(1-same)*0.6:
				le = append(le, el{id, h})
			case r < same+(1-same)*0.9:
				re = append(re, el{id, h})
			}
		}
		fillInBatches(loc, le, lp, rnd, c.Batch*8)
		fillInBatches(rem, re, rp, rnd, c.Batch*8)
		// some history on both sides (this is what makes a legacy remote non-canonical)
		history(loc, ids, lp, rnd, c.Ops, c.Batch, nil)
		history(rem, ids, rp, rnd, c.Ops, c.Batch, nil)
	}()
	want := expectedDiff(loc.Elements(), rem.Elements())
	for _, variant := range []string{"Diff", "CompareDiff"} {
		for _, tr := range transports {
			run := runDiff(loc, rem, variant, tr)
			j.rep.Case(fmt.Sprintf("c07r/%s/%s/%s/df%d/th%d/%s/%s/skew%d", variant, tr, remoteKind, c.Df, c.Th, c.tuningClass(), sizeClass(c.N), c.Skew))
			if cls := judgeDiff(run, want); cls != "" {
				j.violate("C07", fmt.Sprintf("diff-inexact/%s/%s/%s/remote-%s", variant, tr, cls, remoteKind),
					fmt.Sprintf("%v: %s over %s: local %d / remote %d elements, got new=%d changed=%d theirs=%d removed=%d in %d rounds (err=%q panic=%q), expected new=%d ours=%d theirs=%d removed=%d",
						c, variant, tr, len(loc.Elements()), len(rem.Elements()), len(run.Got.New), len(run.Got.Ours), len(run.Got.Theirs), len(run.Got.Removed), len(run.Rounds), run.Err, run.Panic,
						len(want.New), len(want.Ours), len(want.Theirs), len(want.Removed)), replay)
			}
		}
	}
	if !c.Legacy {
		needs, err := remoteForTypeCheck(rem).DiffTypeCheck(ctxBg, loc.d)
		equal := len(want.New)+len(want.Removed)+len(want.Ours)+len(want.Theirs) == 0
		if err == nil && equal && needs && c.tuningClass() == "same-tuning" {
			j.violate("C08", "typecheck/equal-contents-need-sync", fmt.Sprintf("%v: equal contents, different advertised hashes", c), replay)
		}
		if err == nil && !equal && !needs {
			j.violate("C07", "typecheck/different-contents-in-sync", fmt.Sprintf("%v: different contents, equal advertised hashes", c), replay)
		}
	}
}

var paramPairs = [][2]int{{2, 1}, {2, 2}, {2, 3}, {3, 1}, {3, 2}, {3, 4}, {4, 1}, {4, 3}, {5, 2}, {5, 4}, {7, 3}, {8, 8}, {16, 4}, {16, 64}, {32, 16}, {32, 256}, {64, 8}, {64, 64}}

func randomCases(kind string, seed int64, thorough bool) []randCase {
	var cs []randCase
	rnd := rand.New(rand.NewSource(seed*7919 + int64(len(kind))))
	n := 0
	add := func(c randCase) {
		n++
		c.Kind = kind
		c.Seed = seed*100000 + int64(n)
		if kind == "c07" {
			// the remote is tuned on its own: same as the requester, another threshold, or another pair altogether
			switch rnd.Intn(4) {
			case 1:
				c.RTh = []int{1, 2, 3, 4, 8, 16, 64, 256}[rnd.Intn(8)]
			case 2, 3:
				p := paramPairs[rnd.Intn(len(paramPairs))]
				c.RDf, c.RTh = p[0], p[1]
			}
		}
		cs = append(cs, c)
	}
	reps := 1
	if thorough {
		reps = 3
	}
	for r := 0; r < reps; r++ {
		for pi, p := range paramPairs {
			// small sets, every operation checked
			add(randCase{Df: p[0], Th: p[1], N: 4 + rnd.Intn(28), Ops: 40, Batch: 3, Every: 1, Legacy: rnd.Intn(2) == 0})
			add(randCase{Df: p[0], Th: p[1], N: 10 + rnd.Intn(60), Skew: 6 + rnd.Intn(7), Ops: 40, Batch: 4, Every: 1, Legacy: rnd.Intn(2) == 0})
			// medium sets (quick: every other parameter pair)
			if thorough || (pi+int(seed))%2 == 0 {
				add(randCase{Df: p[0], Th: p[1], N: 200 + rnd.Intn(1800), Skew: []int{0, 8, 11}[rnd.Intn(3)], Ops: 60, Batch: 16, Every: 10, Legacy: rnd.Intn(2) == 0})
			}
		}
	}
	// large sets
	big := [][3]int{{32, 256, 10000}, {2, 1, 2000}}
	if thorough {
		big = [][3]int{{32, 256, 50000}, {2, 1, 12000}, {3, 2, 20000}, {8, 8, 50000}, {16, 64, 30000}, {64, 8, 30000}, {5, 4, 25000}}
	}
	for _, b := range big {
		for _, skew := range []int{0, 10} {
			for _, leg := range []bool{false, true} {
				if kind == "c08" && leg {
					continue
				}
				add(randCase{Df: b[0], Th: b[1], N: b[2], Skew: skew, Ops: 200, Batch: 64, Every: 50, Legacy: leg})
			}
		}
	}
	return cs
}

func testRandom(t *testing.T, kind string) {
	prop := os.Getenv("VERIF_PROPERTY")
	rep := vfutil.NewReport(prop)
	defer func() {
		if p := recover(); p != nil {
			rep.Save(false)
			panic(p)
		}
	}()
	if err := checkArithmetic(); err != nil {
		rep.Save(false)
		t.Fatalf("harness arithmetic: %v", err)
	}
	j := &judge{rep: rep, property: prop}
	cs := randomCases(kind, vfutil.Seed(), vfutil.Thorough())
	maxN := 0
	// the cases are independent: run them on a few workers (every case is deterministic in its seed)
	var wg sync.WaitGroup
	var pmu sync.Mutex
	var harnessPanic any
	next := make(chan randCase)
	for w := 0; w < 6; w++ {
		wg.Add(1)
		go func() {
			defer wg.Done()
			for c := range next {
				func() {
					defer func() {
						if p := recover(); p != nil {
							pmu.Lock()
							harnessPanic = p
							pmu.Unlock()
						}
					}()
					runRandomCase(j, c)
					rep.AddReplayed(1)
				}()
			}
		}()
	}
	for i, c := range cs {
		if c.N > maxN {
			maxN = c.N
		}
		if i < 2 {
			rep.Sample(map[string]any{"random_case": c})
		}
		next <- c
	}
	close(next)
	wg.Wait()
	if harnessPanic != nil {
		panic(harnessPanic)
	}
	rep.SetExtra(kind+"_random_cases", len(cs))
	rep.SetExtra(kind+"_largest_universe", maxN)
	rep.SetExtra("sibling_property_failures", j.other)
	rep.Save(true)
	if rep.NumViolations() > 0 {
		t.Fail()
	}
}

func TestRandomC08(t *testing.T) { testRandom(t, "c08") }
func TestRandomC07(t *testing.T) { testRandom(t, "c07") }
