package ldiff

import (
	"bytes"
	"encoding/json"
	"errors"
	"fmt"
	"os"
	"sort"
	"strings"
	"sync"
	"testing"

	rl "github.com/anyproto/any-sync/app/ldiff"

	"verifharness/vfutil"
)

// ---- behaviours emitted by LdiffGen.tla ----

// bpar: the tuning of one index (each peer has its own): threshold and exponent (df = Df^Lg)
type bpar struct {
	Th int `json:"th"`
	Lg int `json:"lg"`
}
type bcfg struct {
	Df     int              `json:"df"` // base divide factor of the model (digits of the paths)
	D      int              `json:"d"`
	Par    map[string]bpar  `json:"par"`
	Ids    map[string][]int `json:"ids"`
	Peers  []string         `json:"peers"`
	Legacy []string         `json:"legacy"`
}

// tuning returns the real (divideFactor, compareThreshold) of a peer
func (c bcfg) tuning(peer string) (df, th int) {
	p := c.Par[peer]
	df = 1
	for i := 0; i < max(p.Lg, 1); i++ {
		df *= c.Df
	}
	return df, max(p.Th, 1)
}

func (c bcfg) String() string {
	s := fmt.Sprintf("base df=%d", c.Df)
	for _, p := range c.Peers {
		df, th := c.tuning(p)
		s += fmt.Sprintf(" %s:(df=%d,th=%d)", p, df, th)
	}
	return s
}

// mixed says whether the two peers are tuned differently
func (c bcfg) mixed() string {
	if len(c.Peers) < 2 {
		return "single"
	}
	d0, t0 := c.tuning(c.Peers[0])
	d1, t1 := c.tuning(c.Peers[1])
	if d0 == d1 && t0 == t1 {
		return "same-tuning"
	}
	if d0 == d1 {
		return "mixed-th"
	}
	return "mixed-df"
}
type bproj struct {
	Mat [][]int `json:"mat"`
	Cnt []int   `json:"cnt"`
	Cls []int   `json:"cls"`
	Nil []bool  `json:"nil"`
	Els [][]any `json:"els"`
	Ovf bool    `json:"ovf"` // legacy index left the modelled depth: no prediction from here on
}
type breq struct {
	P  []int `json:"p"`
	El bool  `json:"el"`
}
type bdiff struct {
	Has     bool     `json:"has"`
	Ok      bool     `json:"ok"`
	New     []string `json:"new"`
	Ours    []string `json:"ours"`
	Theirs  []string `json:"theirs"`
	Removed []string `json:"removed"`
	Once    bool     `json:"once"`
	Asked   [][]breq `json:"asked"`
	EqTop   bool     `json:"eqTop"`
}
type bstep struct {
	Op   string  `json:"op"`
	Peer string  `json:"peer"`
	Els  [][]any `json:"els"`
	Id   string  `json:"id"`
	St   *bproj  `json:"st,omitempty"`
	Diff *bdiff  `json:"diff,omitempty"`
}
type behaviour struct {
	Spec  string  `json:"spec"`
	Cfg   bcfg    `json:"cfg"`
	Steps []bstep `json:"steps"`
}

// a replayable violation: the operations up to and including the failing step
type replayObj struct {
	Kind      string     `json:"kind"`
	Behaviour *behaviour `json:"behaviour,omitempty"`
	Random    *randCase  `json:"random,omitempty"`
	File      string     `json:"file,omitempty"`   // kind "trace": <universe>_<cur|leg>
	Events    []string   `json:"events,omitempty"` // kind "trace": the recorded lines of the failing run
	Case      *dmCase    `json:"case,omitempty"`   // kind "diffmanager"
}

// traceToBehaviour turns the recorded lines of one run (Reset ... failing line) into a behaviour
// so that a violation found by trace validation can be re-executed on the current tree.
func traceToBehaviour(ro replayObj) (*behaviour, error) {
	var u *universeDef
	for i := range universes {
		if strings.HasPrefix(ro.File, universes[i].Name+"_") {
			u = &universes[i]
		}
	}
	if u == nil {
		return nil, fmt.Errorf("unknown trace universe %q", ro.File)
	}
	b := &behaviour{Spec: "LdiffTrace", Cfg: bcfg{Df: u.Df, D: u.D, Par: map[string]bpar{}, Ids: u.Ids, Peers: []string{"L", "R"}}}
	if strings.HasSuffix(ro.File, "_leg") {
		b.Cfg.Legacy = []string{"R"}
	}
	for _, line := range ro.Events {
		var e struct {
			Ev   string          `json:"ev"`
			Par  map[string]bpar `json:"par"`
			Peer string  `json:"peer"`
			Els  [][]any `json:"els"`
			Id   string  `json:"id"`
		}
		if err := json.Unmarshal([]byte(line), &e); err != nil {
			return nil, err
		}
		switch e.Ev {
		case "Reset":
			b.Cfg.Par = e.Par
			b.Steps = nil
		case "Set":
			b.Steps = append(b.Steps, bstep{Op: "SetMany", Peer: e.Peer, Els: e.Els})
		case "Remove":
			b.Steps = append(b.Steps, bstep{Op: "RemoveId", Peer: e.Peer, Id: e.Id})
		}
	}
	return b, nil
}

func headStr(h int) string { return fmt.Sprintf("h%d", h) }

func modelEl(e []any) (string, int) {
	id, _ := e[0].(string)
	switch v := e[1].(type) {
	case float64:
		return id, int(v)
	case json.Number:
		n, _ := v.Int64()
		return id, int(n)
	}
	return id, 0
}

func stripped(b *behaviour, upto int) *behaviour {
	nb := &behaviour{Spec: b.Spec, Cfg: b.Cfg}
	for i := 0; i <= upto && i < len(b.Steps); i++ {
		s := b.Steps[i]
		nb.Steps = append(nb.Steps, bstep{Op: s.Op, Peer: s.Peer, Els: s.Els, Id: s.Id})
	}
	return nb
}

var mined = map[string]string{}

func realId(name string, path []int, df int) string {
	k := fmt.Sprintf("%d/%s/%s", df, name, pathKey(path))
	if id, ok := mined[k]; ok {
		return id
	}
	id := mineId(name, path, df)
	mined[k] = id
	return id
}

// world is one execution of a behaviour on real indexes
type world struct {
	cfg      bcfg
	ids      map[string]string // model id -> real id
	names    map[string]string // real id -> model id
	peers    map[string]index
	paths    [][]int // every path of length 0..D+1
	tuples   []tuple
	tupleIdx map[tuple]int
	stale    map[string]bool // peer -> its index already differed from a fresh one before this step
	outOfModel int
	prev       map[string]snapshot
}

type snapshot struct{ hash, els string }

func newWorld(cfg bcfg) *world {
	w := &world{cfg: cfg, ids: map[string]string{}, names: map[string]string{}, peers: map[string]index{}, tupleIdx: map[tuple]int{}, stale: map[string]bool{}, prev: map[string]snapshot{}}
	for name, p := range cfg.Ids {
		id := realId(name, p, cfg.Df)
		w.ids[name] = id
		w.names[id] = name
	}
	leg := map[string]bool{}
	for _, p := range cfg.Legacy {
		leg[p] = true
	}
	for _, p := range cfg.Peers {
		df, th := cfg.tuning(p)
		if leg[p] {
			w.peers[p] = newLegacy(df, th)
		} else {
			w.peers[p] = newReal(df, th)
		}
	}
	w.paths = allPaths(cfg.Df, cfg.D+1)
	for i, p := range w.paths {
		t := tupleOf(p, cfg.Df)
		w.tuples = append(w.tuples, t)
		w.tupleIdx[t] = i
	}
	return w
}

func (w *world) els(in [][]any) []el {
	res := make([]el, 0, len(in))
	for _, e := range in {
		id, h := modelEl(e)
		res = append(res, el{w.ids[id], headStr(h)})
	}
	return res
}

// projected real state of an index in model terms
type proj struct {
	Mat [][]int  `json:"mat"`
	Cnt []int    `json:"cnt"`
	Cls []int    `json:"cls"`
	Nil []bool   `json:"nil"`
	Els [][2]any `json:"els"`
}

func (w *world) project(x index) proj {
	reqs := make([]rreq, len(w.tuples))
	for i, t := range w.tuples {
		reqs[i] = rreq{t, false}
	}
	ans := x.Ranges(reqs)
	var p proj
	p.Mat, p.Cnt, p.Cls, p.Nil, p.Els = [][]int{}, []int{}, []int{}, []bool{}, [][2]any{}
	var hashes [][]byte
	for i, a := range ans {
		if a.HasElements {
			continue
		}
		p.Mat = append(p.Mat, w.paths[i])
		p.Cnt = append(p.Cnt, a.Count)
		p.Nil = append(p.Nil, len(a.Hash) == 0)
		cls := len(hashes) + 1
		for j, h := range hashes {
			if bytes.Equal(h, a.Hash) {
				cls = j + 1
				break
			}
		}
		hashes = append(hashes, a.Hash)
		p.Cls = append(p.Cls, cls)
	}
	for _, e := range x.Elements() {
		var h int
		fmt.Sscanf(e.Head, "h%d", &h)
		p.Els = append(p.Els, [2]any{w.names[e.Id], h})
	}
	return p
}

// sameProj compares the real projection with the one the specification predicts (order-insensitive).
func sameProj(real proj, exp *bproj) string {
	type row struct {
		cnt int
		cls int
		nl  bool
	}
	rm := map[string]row{}
	for i, p := range real.Mat {
		rm[pathKey(p)] = row{real.Cnt[i], real.Cls[i], real.Nil[i]}
	}
	em := map[string]row{}
	for i, p := range exp.Mat {
		em[pathKey(p)] = row{exp.Cnt[i], exp.Cls[i], exp.Nil[i]}
	}
	if len(rm) != len(em) {
		return fmt.Sprintf("materialised ranges: real %v, spec %v", keysOf(rm), keysOf(em))
	}
	for k, r := range rm {
		e, ok := em[k]
		if !ok {
			return fmt.Sprintf("range %q materialised in the real index only (real %v, spec %v)", k, keysOf(rm), keysOf(em))
		}
		if r.cnt != e.cnt {
			return fmt.Sprintf("counter of range %q: real %d, spec %d", k, r.cnt, e.cnt)
		}
		if r.nl != e.nl {
			return fmt.Sprintf("nil hash of range %q: real %v, spec %v", k, r.nl, e.nl)
		}
	}
	// hash equality classes: same partition
	for i, p := range real.Mat {
		for j, q := range real.Mat {
			if j <= i {
				continue
			}
			re := real.Cls[i] == real.Cls[j]
			ee := em[pathKey(p)].cls == em[pathKey(q)].cls
			if re != ee {
				return fmt.Sprintf("hash equality of ranges %q and %q: real %v, spec %v", pathKey(p), pathKey(q), re, ee)
			}
		}
	}
	re := map[string]int{}
	for _, e := range real.Els {
		re[e[0].(string)] = e[1].(int)
	}
	if len(re) != len(exp.Els) {
		return fmt.Sprintf("elements: real %v, spec %v", real.Els, exp.Els)
	}
	for _, e := range exp.Els {
		id, h := modelEl(e)
		if re[id] != h {
			return fmt.Sprintf("elements: real %v, spec %v", real.Els, exp.Els)
		}
	}
	return ""
}

func keysOf[T any](m map[string]T) []string {
	r := make([]string, 0, len(m))
	for k := range m {
		r = append(r, k)
	}
	sort.Strings(r)
	return r
}

func (w *world) modelNames(ids []string) []string {
	res := make([]string, 0, len(ids))
	for _, id := range ids {
		if n, ok := w.names[id]; ok {
			res = append(res, n)
		} else {
			res = append(res, id)
		}
	}
	sort.Strings(res)
	return res
}

func sameStrings(a, b []string) bool {
	a, b = sorted(a), sorted(b)
	if len(a) != len(b) {
		return false
	}
	for i := range a {
		if a[i] != b[i] {
			return false
		}
	}
	return true
}

// askedKey renders the requests of one round in model terms ("?" for a range outside the model tree)
func (w *world) askedKey(round []rreq) []string {
	res := make([]string, 0, len(round))
	for _, r := range round {
		k := "?"
		if i, ok := w.tupleIdx[r.tuple]; ok {
			k = pathKey(w.paths[i])
		}
		if r.Elements {
			k += "+els"
		}
		res = append(res, k)
	}
	sort.Strings(res)
	return res
}

func specAskedKey(round []breq) []string {
	res := make([]string, 0, len(round))
	for _, r := range round {
		k := pathKey(r.P)
		if r.El {
			k += "+els"
		}
		res = append(res, k)
	}
	sort.Strings(res)
	return res
}

type judge struct {
	rep      *vfutil.Report
	property string
	mu       sync.Mutex
	other    int
}

// violate reports a failed predicate of property prop; predicates of the sibling property are only
// counted (each check reports its own property).
func (j *judge) violate(prop, key, desc string, replay any) {
	if prop == j.property || j.property == "" {
		j.rep.Violate(key, desc, replay)
		return
	}
	j.mu.Lock()
	j.other++
	j.mu.Unlock()
}

// runBehaviour executes one behaviour; returns the number of steps executed.
func runBehaviour(j *judge, b *behaviour, check bool) int {
	rep := j.rep
	w := newWorld(b.Cfg)
	remoteKind := "current"
	for _, p := range b.Cfg.Legacy {
		if p != "L" {
			remoteKind = "legacy"
		}
	}
	drifted := false
	for si, s := range b.Steps {
		x := w.peers[s.Peer]
		if x == nil {
			panic("unknown peer " + s.Peer)
		}
		replay := func() any { return replayObj{Kind: "behaviour", Behaviour: stripped(b, si)} }
		// ---- execute the operation on the real index
		var opErr error
		panicked := func() (p any) {
			defer func() { p = recover() }()
			switch s.Op {
			case "SetNew", "SetUpdate", "SetMany":
				x.Set(w.els(s.Els)...)
			case "RemoveId", "RemoveMissing":
				opErr = x.RemoveId(w.ids[s.Id])
			default:
				panic("harness: unknown op " + s.Op)
			}
			return nil
		}()
		if panicked != nil {
			if str, ok := panicked.(string); ok && strings.HasPrefix(str, "harness:") {
				panic(str)
			}
			if !x.IsLegacy() {
				// an index that cannot be built fails either property: reported by whichever check runs
				j.violate(j.property, "panic/"+s.Op, fmt.Sprintf("%s panicked: %v", s.Op, panicked), replay())
			}
			return si
		}
		if !x.IsLegacy() {
			if s.Op == "RemoveId" && opErr != nil && b.Spec != "LdiffTrace" {
				rep.DriftNote("RemoveId of a present id returned %v", opErr)
			}
			if s.Op == "RemoveMissing" && !errors.Is(opErr, rl.ErrElementNotFound) {
				rep.DriftNote("RemoveId of a missing id returned %v", opErr)
			}
		}
		// ---- spec <-> code: projected state
		if s.St != nil && s.St.Ovf {
			drifted = true // not drift: the specification says it no longer describes this legacy index
			w.outOfModel++
		}
		if s.St != nil && !drifted {
			if d := sameProj(w.project(x), s.St); d != "" {
				drifted = true
				rep.DriftNote("step %d %s(%s %v) peer %s %v: %s", si+1, s.Op, s.Id, s.Els, s.Peer, b.Cfg, d)
			}
		}
		if !check {
			continue
		}
		// ---- C08: the acting index answers like a freshly filled one
		if !x.IsLegacy() {
			pdf, pth := b.Cfg.tuning(s.Peer)
			rep.Case(fmt.Sprintf("c08/%s/df%d/th%d", s.Op, pdf, pth))
			what, desc := checkFresh(x, pdf, pth, w.tuples)
			// blame the operation that takes the index from canonical to non-canonical only
			if what != "" && !w.stale[s.Peer] {
				j.violate("C08", "fresh-mismatch/"+s.Op+"/"+what,
					fmt.Sprintf("after %s (step %d, df=%d th=%d) the index differs from a freshly filled one: %s", s.Op, si+1, pdf, pth, desc), replay())
			}
			w.stale[s.Peer] = what != ""
			// ... and the advertised hash tells different contents apart (what DiffTypeCheck relies on)
			cur := snapshot{x.Hash(), mustJSON(x.Elements())}
			if prev, ok := w.prev[s.Peer]; ok && prev.hash == cur.hash && prev.els != cur.els {
				j.violate("C08", "hash-unchanged-by-content-change/"+s.Op,
					fmt.Sprintf("%s (step %d, df=%d th=%d) changed the contents from %s to %s but Hash() is still %s", s.Op, si+1, pdf, pth, prev.els, cur.els, cur.hash), replay())
			}
			w.prev[s.Peer] = cur
		}
		// ---- C07: every diff variant over every transport
		loc, okL := w.peers["L"].(*realIndex)
		var rem index
		for name, p := range w.peers {
			if name != "L" {
				rem = p
			}
		}
		if !okL || rem == nil {
			continue
		}
		want := expectedDiff(loc.Elements(), rem.Elements())
		for _, variant := range []string{"Diff", "CompareDiff"} {
			for _, tr := range transports {
				run := runDiff(loc, rem, variant, tr)
				rep.Case(fmt.Sprintf("c07/%s/%s/%s/%s/n%d-r%d-c%d", variant, tr, remoteKind, b.Cfg.mixed(), min(len(want.New), 2), min(len(want.Removed), 2), min(len(want.Ours)+len(want.Theirs), 2)))
				if cls := judgeDiff(run, want); cls != "" {
					j.violate("C07", fmt.Sprintf("diff-inexact/%s/%s/%s/remote-%s", variant, tr, cls, remoteKind),
						fmt.Sprintf("%s over %s (%v, step %d): local %v remote %v: got new=%v changed=%v theirs=%v removed=%v err=%q panic=%q, expected new=%v ours=%v theirs=%v removed=%v",
							variant, tr, b.Cfg, si+1, w.modelEls(loc), w.modelEls(rem), w.modelNames(run.Got.New), w.modelNames(run.Got.Ours), w.modelNames(run.Got.Theirs),
							w.modelNames(run.Got.Removed), run.Err, run.Panic, w.modelNames(want.New), w.modelNames(want.Ours), w.modelNames(want.Theirs), w.modelNames(want.Removed)), replay())
				}
				// spec <-> code: rounds and result as the specification predicts them
				if s.Diff != nil && s.Diff.Has && s.Diff.Ok && !drifted {
					if d := w.compareWithSpecDiff(run, s.Diff); d != "" {
						drifted = true
						rep.DriftNote("step %d %s/%s %v: %s", si+1, variant, tr, b.Cfg, d)
					}
				}
			}
		}
		// DiffTypeCheck (headsync): the top-hash short cut says "in sync" iff the contents are equal
		if !rem.IsLegacy() {
			needs, err := remoteForTypeCheck(rem).DiffTypeCheck(ctxBg, loc.d)
			equal := len(want.New)+len(want.Removed)+len(want.Ours)+len(want.Theirs) == 0
			switch {
			case err != nil:
				rep.DriftNote("DiffTypeCheck error %v", err)
			case equal && needs && b.Cfg.mixed() == "same-tuning": // differently tuned peers legitimately advertise different hashes
				j.violate("C08", "typecheck/equal-contents-need-sync", fmt.Sprintf("two indexes with equal contents advertise different hashes (%s vs %s) after step %d", loc.Hash(), rem.Hash(), si+1), replay())
			case !equal && !needs:
				j.violate("C07", "typecheck/different-contents-in-sync", fmt.Sprintf("indexes with different contents advertise the same hash %s", loc.Hash()), replay())
			}
			if s.Diff != nil && s.Diff.Has && !drifted && s.Diff.EqTop == needs && err == nil {
				drifted = true
				rep.DriftNote("step %d: DiffTypeCheck needsSync=%v, spec top hashes equal=%v", si+1, needs, s.Diff.EqTop)
			}
		}
	}
	if w.outOfModel > 0 {
		rep.AddExtra("behaviours_leaving_model_depth", 1)
	}
	return len(b.Steps)
}

func (w *world) modelEls(x index) [][2]any { return w.project(x).Els }

func (w *world) compareWithSpecDiff(run diffRun, d *bdiff) string {
	if run.Err != "" || run.Panic != "" {
		return fmt.Sprintf("diff failed (%s%s), spec predicts a result", run.Err, run.Panic)
	}
	if !sameStrings(w.modelNames(run.Got.New), d.New) || !sameStrings(w.modelNames(run.Got.Removed), d.Removed) {
		return fmt.Sprintf("new/removed: real %v/%v spec %v/%v", w.modelNames(run.Got.New), w.modelNames(run.Got.Removed), d.New, d.Removed)
	}
	if run.Variant == "Diff" {
		if !sameStrings(w.modelNames(run.Got.Ours), append(append([]string{}, d.Ours...), d.Theirs...)) {
			return fmt.Sprintf("changed: real %v spec %v+%v", w.modelNames(run.Got.Ours), d.Ours, d.Theirs)
		}
	} else if !sameStrings(w.modelNames(run.Got.Ours), d.Ours) || !sameStrings(w.modelNames(run.Got.Theirs), d.Theirs) {
		return fmt.Sprintf("ours/theirs: real %v/%v spec %v/%v", w.modelNames(run.Got.Ours), w.modelNames(run.Got.Theirs), d.Ours, d.Theirs)
	}
	if len(run.Rounds) != len(d.Asked) {
		return fmt.Sprintf("rounds: real %d spec %d", len(run.Rounds), len(d.Asked))
	}
	for i := range run.Rounds {
		if !sameStrings(w.askedKey(run.Rounds[i]), specAskedKey(d.Asked[i])) {
			return fmt.Sprintf("requests of round %d: real %v spec %v", i+1, w.askedKey(run.Rounds[i]), specAskedKey(d.Asked[i]))
		}
	}
	return ""
}

func loadBehaviours(t *testing.T) []behaviour {
	dirs := os.Getenv("VERIF_BEHAVIOURS") // one or more directories, separated by ':'
	if dirs == "" {
		t.Fatal("VERIF_BEHAVIOURS not set")
	}
	var all []behaviour
	for _, dir := range strings.Split(dirs, ":") {
		bs, err := vfutil.LoadJSONFiles[behaviour](dir)
		if err != nil {
			t.Fatal(err)
		}
		all = append(all, bs...)
	}
	return all
}

// TestReplay executes TLC-emitted behaviours (or the replay object of a reported violation).
func TestReplay(t *testing.T) {
	prop := os.Getenv("VERIF_PROPERTY")
	rep := vfutil.NewReport(prop)
	defer func() {
		if p := recover(); p != nil {
			rep.Save(false)
			panic(p)
		}
	}()
	if err := checkArithmetic(); err != nil {
		rep.Save(false)
		t.Fatalf("harness arithmetic: %v", err)
	}
	j := &judge{rep: rep, property: prop}
	if raw, ok := vfutil.ReplayFile(); ok {
		var ro replayObj
		if err := json.Unmarshal(raw, &ro); err != nil {
			t.Fatal(err)
		}
		switch ro.Kind {
		case "behaviour":
			rep.AddSteps(runBehaviour(j, ro.Behaviour, true))
			rep.AddReplayed(1)
		case "random":
			runRandomCase(j, *ro.Random)
			rep.AddReplayed(1)
		case "diffmanager":
			runDiffManagerCase(j, *ro.Case)
			rep.AddReplayed(1)
		case "trace":
			b, err := traceToBehaviour(ro)
			if err != nil {
				t.Fatal(err)
			}
			rep.AddSteps(runBehaviour(j, b, true))
			rep.AddReplayed(1)
		default:
			t.Fatalf("unknown replay kind %q", ro.Kind)
		}
		rep.Save(true)
		if rep.NumViolations() > 0 {
			t.Fail()
		}
		return
	}
	bs := loadBehaviours(t)
	for i := range bs {
		rep.AddSteps(runBehaviour(j, &bs[i], true))
		rep.AddReplayed(1)
		if i < 2 {
			rep.Sample(map[string]any{"behaviour": stripped(&bs[i], len(bs[i].Steps))})
		}
	}
	rep.SetExtra("tuple_samples_checked", tuplesChecked)
	rep.SetExtra("sibling_property_failures", j.other)
	rep.Save(true)
	if rep.NumViolations() > 0 {
		t.Fail()
	}
}
