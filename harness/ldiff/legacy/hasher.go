package legacy

import (
	"encoding/hex"

	"github.com/zeebo/blake3"
)

type Hasher struct {
	hasher *blake3.Hasher
}

func (h *Hasher) HashId(id string) string {
	h.hasher.Reset()
	h.hasher.WriteString(id)
	return hex.EncodeToString(h.hasher.Sum(nil))
}

func NewHasher() *Hasher {
	return &Hasher{hashersPool.Get().(*blake3.Hasher)}
}

func ReleaseHasher(hasher *Hasher) {
	hashersPool.Put(hasher.hasher)
}
