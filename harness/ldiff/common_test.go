// Package ldiff binds spec/ldiff/Ldiff.tla to the real app/ldiff index and its two wire adapters
// (properties C07 and C08).
//
//	TestReplay     : behaviours emitted by TLC (LdiffGen) are executed step by step on real
//	                 ldiff.New(df, th) indexes (ids are real strings whose xxhash lies in the range the
//	                 model path denotes); after every step the projected real state is compared with
//	                 the state the specification predicts (drift) and the property oracles are evaluated.
//	TestRandomC08  : random operation histories on large indexes, many (df, threshold) pairs.
//	TestRandomC07  : random pairs of large sets (incl. skewed hash prefixes), all transports, legacy remote.
//	TestRecord     : random histories recorded as NDJSON traces for LdiffTrace.tla.
//
// Oracles (the only sources of a VIOLATION):
//
//	C08  after every step the history-built index answers Hash() and Ranges(...) exactly like an index
//	     freshly filled with the same elements in one Set call.
//	C07  Diff / CompareDiff of a real requester against a remote (real or legacy index; in process,
//	     through headsync.HandleRangeRequest+NewRemoteDiff, through keyvalue.HandleRangeRequest+
//	     NewRemoteDiff, with real protobuf encoding in between) report exactly the set-theoretic
//	     difference of Elements(), each id once, and terminate.
package ldiff

import (
	"bytes"
	"context"
	"encoding/hex"
	"encoding/json"
	"fmt"
	"math"
	"os"
	"sort"
	"strconv"
	"strings"
	"sync"

	"github.com/cespare/xxhash"

	rl "github.com/anyproto/any-sync/app/ldiff"
	"github.com/anyproto/any-sync/commonspace/headsync"
	"github.com/anyproto/any-sync/commonspace/object/keyvalue"
	"github.com/anyproto/any-sync/commonspace/spacesyncproto"

	"verifharness/ldiff/legacy"
)

// ---------------------------------------------------------------------------------------------
// range arithmetic: transcription of genTupleRanges, validated against the dump of the real one
// ---------------------------------------------------------------------------------------------

type tuple struct{ From, To uint64 }

var top = tuple{0, math.MaxUint64}

// kids is the harness's transcription of app/ldiff genTupleRanges. It is never trusted blindly:
// loadTuples compares it with the answers of the real function (overlay dump) on every sample.
func kids(t tuple, df int) []tuple {
	d := uint64(df)
	per := (t.To - t.From) / d
	align := ((t.To-t.From)%d + 1) % d
	if align == 0 {
		per++
	}
	res := make([]tuple, 0, df)
	j := t.From
	for i := 0; i < df; i++ {
		if i == df-1 {
			per += align
		}
		res = append(res, tuple{j, j + per - 1})
		j += per
	}
	return res
}

type tupleSample struct {
	From string      `json:"from"`
	To   string      `json:"to"`
	Df   int         `json:"df"`
	Kids [][2]string `json:"kids"`
}

var tuplesOnce sync.Once
var tuplesErr error
var tuplesChecked int

// checkArithmetic loads the dump written by harness/inpkg/ldiff (real genTupleRanges) and makes sure
// kids() agrees on every sample. A disagreement means the repository changed its range arithmetic
// and this harness has to follow: the machinery is broken (exit 2), it is not a violation.
func checkArithmetic() error {
	tuplesOnce.Do(func() {
		p := os.Getenv("VERIF_TUPLES")
		if p == "" {
			tuplesErr = fmt.Errorf("VERIF_TUPLES not set (dump of the real genTupleRanges)")
			return
		}
		b, err := os.ReadFile(p)
		if err != nil {
			tuplesErr = err
			return
		}
		var d struct {
			Samples []tupleSample `json:"samples"`
		}
		if err := json.Unmarshal(b, &d); err != nil {
			tuplesErr = err
			return
		}
		for _, s := range d.Samples {
			f, _ := strconv.ParseUint(s.From, 10, 64)
			t, _ := strconv.ParseUint(s.To, 10, 64)
			mine := kids(tuple{f, t}, s.Df)
			if len(mine) != len(s.Kids) {
				tuplesErr = fmt.Errorf("range arithmetic differs from the real genTupleRanges for %v df=%d", s, s.Df)
				return
			}
			for i, k := range s.Kids {
				kf, _ := strconv.ParseUint(k[0], 10, 64)
				kt, _ := strconv.ParseUint(k[1], 10, 64)
				if mine[i].From != kf || mine[i].To != kt {
					tuplesErr = fmt.Errorf("range arithmetic differs from the real genTupleRanges for [%s,%s] df=%d child %d", s.From, s.To, s.Df, i)
					return
				}
			}
			tuplesChecked++
		}
		if tuplesChecked < 100 {
			tuplesErr = fmt.Errorf("tuple dump too small (%d samples)", tuplesChecked)
		}
	})
	return tuplesErr
}

// tupleOf returns the range a model path denotes.
func tupleOf(path []int, df int) tuple {
	t := top
	for _, d := range path {
		t = kids(t, df)[d]
	}
	return t
}

func pathKey(p []int) string {
	var sb strings.Builder
	for i, d := range p {
		if i > 0 {
			sb.WriteByte('.')
		}
		sb.WriteString(strconv.Itoa(d))
	}
	return sb.String()
}

// pathOfHash descends depth levels from the top range.
func pathOfHash(h uint64, df, depth int) []int {
	t := top
	p := make([]int, 0, depth)
	for l := 0; l < depth; l++ {
		ks := kids(t, df)
		for i, k := range ks {
			if h >= k.From && h <= k.To {
				p = append(p, i)
				t = k
				break
			}
		}
	}
	return p
}

// allPaths: every path of length 0..depth
func allPaths(df, depth int) [][]int {
	res := [][]int{{}}
	prev := [][]int{{}}
	for l := 0; l < depth; l++ {
		var next [][]int
		for _, p := range prev {
			for d := 0; d < df; d++ {
				q := append(append([]int{}, p...), d)
				next = append(next, q)
			}
		}
		res = append(res, next...)
		prev = next
	}
	return res
}

// mineId finds a real id whose xxhash lies in the range of the model path (brute force).
func mineId(name string, path []int, df int) string {
	t := tupleOf(path, df)
	for n := 0; ; n++ {
		id := fmt.Sprintf("%s-%d", name, n)
		h := xxhash.Sum64([]byte(id))
		if h >= t.From && h <= t.To {
			return id
		}
	}
}

// ---------------------------------------------------------------------------------------------
// indexes under test
// ---------------------------------------------------------------------------------------------

type el struct {
	Id   string `json:"id"`
	Head string `json:"head"`
}

type rreq struct {
	tuple
	Elements bool
}

type rres struct {
	Hash        []byte
	Elements    []el
	HasElements bool // the answer carries an element list (possibly empty): the range was scanned
	Count       int
}

// index is what the harness needs from an index: the real one (code under test) or the legacy one.
type index interface {
	Set(els ...el)
	RemoveId(id string) error
	Elements() []el
	Hash() string
	Ranges(rs []rreq) []rres
	Remote() rl.Remote // in-process remote
	AsDiff() rl.Diff   // for the wire handlers (only Ranges / DiffType are used by them)
	IsLegacy() bool
}

type realIndex struct{ d rl.Diff }

func newReal(df, th int) *realIndex { return &realIndex{rl.New(df, th)} }
func (x *realIndex) Set(els ...el) {
	in := make([]rl.Element, len(els))
	for i, e := range els {
		in[i] = rl.Element{Id: e.Id, Head: e.Head}
	}
	x.d.Set(in...)
}
func (x *realIndex) RemoveId(id string) error { return x.d.RemoveId(id) }
func (x *realIndex) Elements() []el {
	src := x.d.Elements()
	res := make([]el, len(src))
	for i, e := range src {
		res[i] = el{e.Id, e.Head}
	}
	return res
}
func (x *realIndex) Hash() string { return x.d.Hash() }
func (x *realIndex) Ranges(rs []rreq) []rres {
	in := make([]rl.Range, len(rs))
	for i, r := range rs {
		in[i] = rl.Range{From: r.From, To: r.To, Elements: r.Elements}
	}
	out, err := x.d.Ranges(context.Background(), in, nil)
	if err != nil {
		panic(err)
	}
	res := make([]rres, len(out))
	for i, o := range out {
		res[i] = rres{Hash: append([]byte(nil), o.Hash...), Count: o.Count, HasElements: o.Elements != nil}
		for _, e := range o.Elements {
			res[i].Elements = append(res[i].Elements, el{e.Id, e.Head})
		}
	}
	return res
}
func (x *realIndex) Remote() rl.Remote { return x.d }
func (x *realIndex) AsDiff() rl.Diff   { return x.d }
func (x *realIndex) IsLegacy() bool    { return false }

type legacyIndex struct{ d legacy.Diff }

func newLegacy(df, th int) *legacyIndex { return &legacyIndex{legacy.New(df, th)} }
func (x *legacyIndex) Set(els ...el) {
	in := make([]legacy.Element, len(els))
	for i, e := range els {
		in[i] = legacy.Element{Id: e.Id, Head: e.Head}
	}
	x.d.Set(in...)
}
func (x *legacyIndex) RemoveId(id string) error { return x.d.RemoveId(id) }
func (x *legacyIndex) Elements() []el {
	src := x.d.Elements()
	res := make([]el, len(src))
	for i, e := range src {
		res[i] = el{e.Id, e.Head}
	}
	return res
}
func (x *legacyIndex) Hash() string { return x.d.Hash() }
func (x *legacyIndex) Ranges(rs []rreq) []rres {
	in := make([]legacy.Range, len(rs))
	for i, r := range rs {
		in[i] = legacy.Range{From: r.From, To: r.To, Elements: r.Elements}
	}
	out, err := x.d.Ranges(context.Background(), in, nil)
	if err != nil {
		panic(err)
	}
	res := make([]rres, len(out))
	for i, o := range out {
		res[i] = rres{Hash: append([]byte(nil), o.Hash...), Count: o.Count, HasElements: o.Elements != nil}
		for _, e := range o.Elements {
			res[i].Elements = append(res[i].Elements, el{e.Id, e.Head})
		}
	}
	return res
}
func (x *legacyIndex) Remote() rl.Remote { return &legacyAsDiff{x: x} }
func (x *legacyIndex) AsDiff() rl.Diff   { return &legacyAsDiff{x: x} }
func (x *legacyIndex) IsLegacy() bool    { return true }

// legacyAsDiff presents the legacy index with the types of the current package. The wire handlers
// only call Ranges and DiffType; every other method of the embedded nil interface would panic.
type embeddedDiff = rl.Diff

type legacyAsDiff struct {
	embeddedDiff
	x *legacyIndex
}

func (a *legacyAsDiff) Ranges(ctx context.Context, ranges []rl.Range, resBuf []rl.RangeResult) ([]rl.RangeResult, error) {
	in := make([]legacy.Range, len(ranges))
	for i, r := range ranges {
		in[i] = legacy.Range{From: r.From, To: r.To, Elements: r.Elements, Limit: r.Limit}
	}
	out, err := a.x.d.Ranges(ctx, in, nil)
	if err != nil {
		return nil, err
	}
	res := resBuf[:0]
	for _, o := range out {
		rr := rl.RangeResult{Hash: o.Hash, Count: o.Count}
		if o.Elements != nil {
			rr.Elements = make([]rl.Element, 0, len(o.Elements))
			for _, e := range o.Elements {
				rr.Elements = append(rr.Elements, rl.Element{Id: e.Id, Head: e.Head})
			}
		}
		res = append(res, rr)
	}
	return res, nil
}
func (a *legacyAsDiff) DiffType() spacesyncproto.DiffType { return spacesyncproto.DiffType_V3 }

// ---------------------------------------------------------------------------------------------
// transports: how the requester reaches the remote index
// ---------------------------------------------------------------------------------------------

// recorder wraps a remote and records the ranges of every round (one Ranges call = one round).
type recorder struct {
	inner  rl.Remote
	rounds [][]rreq
	limit  int
}

func (r *recorder) Ranges(ctx context.Context, ranges []rl.Range, resBuf []rl.RangeResult) ([]rl.RangeResult, error) {
	round := make([]rreq, len(ranges))
	for i, x := range ranges {
		round[i] = rreq{tuple{x.From, x.To}, x.Elements}
	}
	r.rounds = append(r.rounds, round)
	if r.limit > 0 && len(r.rounds) > r.limit {
		return nil, fmt.Errorf("verif: more than %d rounds", r.limit)
	}
	return r.inner.Ranges(ctx, ranges, resBuf)
}

type hsClient struct{ d rl.Diff }

// HeadSync is the loop-back "network": the request and the response really go through the
// protobuf encoding, the server side is the repository's HandleRangeRequest.
func (c *hsClient) HeadSync(ctx context.Context, in *spacesyncproto.HeadSyncRequest) (*spacesyncproto.HeadSyncResponse, error) {
	b, err := in.MarshalVT()
	if err != nil {
		return nil, err
	}
	req := &spacesyncproto.HeadSyncRequest{}
	if err := req.UnmarshalVT(b); err != nil {
		return nil, err
	}
	resp, err := headsync.HandleRangeRequest(ctx, c.d, req)
	if err != nil {
		return nil, err
	}
	b, err = resp.MarshalVT()
	if err != nil {
		return nil, err
	}
	out := &spacesyncproto.HeadSyncResponse{}
	if err := out.UnmarshalVT(b); err != nil {
		return nil, err
	}
	return out, nil
}

type kvClient struct{ d rl.Diff }

func (c *kvClient) StoreDiff(ctx context.Context, in *spacesyncproto.StoreDiffRequest) (*spacesyncproto.StoreDiffResponse, error) {
	b, err := in.MarshalVT()
	if err != nil {
		return nil, err
	}
	req := &spacesyncproto.StoreDiffRequest{}
	if err := req.UnmarshalVT(b); err != nil {
		return nil, err
	}
	resp, err := keyvalue.HandleRangeRequest(ctx, c.d, req)
	if err != nil {
		return nil, err
	}
	b, err = resp.MarshalVT()
	if err != nil {
		return nil, err
	}
	out := &spacesyncproto.StoreDiffResponse{}
	if err := out.UnmarshalVT(b); err != nil {
		return nil, err
	}
	return out, nil
}

var transports = []string{"inproc", "headsync", "keyvalue"}

func remoteFor(transport string, remote index) rl.Remote {
	switch transport {
	case "inproc":
		return remote.Remote()
	case "headsync":
		return headsync.NewRemoteDiff("space", &hsClient{remote.AsDiff()})
	case "keyvalue":
		return keyvalue.NewRemoteDiff("space", &kvClient{remote.AsDiff()})
	}
	panic(transport)
}

// ---------------------------------------------------------------------------------------------
// C07 oracle
// ---------------------------------------------------------------------------------------------

type diffResult struct {
	New, Ours, Theirs, Removed []string // Ours+Theirs = changed for the plain Diff
}

func sorted(s []string) []string {
	r := append([]string{}, s...)
	sort.Strings(r)
	return r
}

// expectedDiff is the set-theoretic difference the property demands.
func expectedDiff(local, remote []el) diffResult {
	lm := map[string]string{}
	for _, e := range local {
		lm[e.Id] = e.Head
	}
	rm := map[string]string{}
	for _, e := range remote {
		rm[e.Id] = e.Head
	}
	var res diffResult
	for id, h := range lm {
		rh, ok := rm[id]
		switch {
		case !ok:
			res.Removed = append(res.Removed, id)
		case rh > h:
			res.Theirs = append(res.Theirs, id)
		case rh < h:
			res.Ours = append(res.Ours, id)
		}
	}
	for id := range rm {
		if _, ok := lm[id]; !ok {
			res.New = append(res.New, id)
		}
	}
	res.New, res.Ours, res.Theirs, res.Removed = sorted(res.New), sorted(res.Ours), sorted(res.Theirs), sorted(res.Removed)
	return res
}

// classify compares a reported list with the expected set; "" = exact.
func classify(name string, got, want []string) string {
	seen := map[string]int{}
	for _, g := range got {
		seen[g]++
	}
	w := map[string]bool{}
	for _, x := range want {
		w[x] = true
	}
	for id, n := range seen {
		if !w[id] {
			return "spurious-" + name
		}
		if n > 1 {
			return "duplicate-" + name
		}
	}
	for _, x := range want {
		if seen[x] == 0 {
			return "missed-" + name
		}
	}
	return ""
}

type diffRun struct {
	Variant   string `json:"variant"`   // "Diff" | "CompareDiff"
	Transport string `json:"transport"` // inproc | headsync | keyvalue
	Rounds    [][]rreq
	Got       diffResult
	Err       string
	Panic     string
}

const maxRounds = 80 // 64-bit hashes cannot be subdivided more often; beyond = does not terminate

// runDiff runs one variant over one transport from the (real) requester against the remote index.
func runDiff(local *realIndex, remote index, variant, transport string) (run diffRun) {
	run.Variant, run.Transport = variant, transport
	rec := &recorder{inner: remoteFor(transport, remote), limit: maxRounds}
	defer func() {
		run.Rounds = rec.rounds
		if p := recover(); p != nil {
			run.Panic = fmt.Sprint(p)
		}
	}()
	ctx := context.Background()
	if variant == "Diff" {
		n, c, r, err := local.d.Diff(ctx, rec)
		if err != nil {
			run.Err = err.Error()
		}
		run.Got = diffResult{New: n, Ours: c, Removed: r}
	} else {
		n, o, t, r, err := local.d.(rl.CompareDiff).CompareDiff(ctx, rec)
		if err != nil {
			run.Err = err.Error()
		}
		run.Got = diffResult{New: n, Ours: o, Theirs: t, Removed: r}
	}
	return
}

// judgeDiff evaluates the C07 predicate on one run; returns "" or the violation class.
func judgeDiff(run diffRun, want diffResult) string {
	if run.Panic != "" {
		return "panic"
	}
	if run.Err != "" {
		if strings.Contains(run.Err, "verif: more than") {
			return "no-termination"
		}
		return "error"
	}
	if c := classify("new", run.Got.New, want.New); c != "" {
		return c
	}
	if c := classify("removed", run.Got.Removed, want.Removed); c != "" {
		return c
	}
	if run.Variant == "Diff" {
		wc := append(append([]string{}, want.Ours...), want.Theirs...)
		return classify("changed", run.Got.Ours, wc)
	}
	if c := classify("ours", run.Got.Ours, want.Ours); c != "" {
		return c
	}
	return classify("theirs", run.Got.Theirs, want.Theirs)
}

// ---------------------------------------------------------------------------------------------
// projection of an index through its exported API (Ranges) and the C08 oracle
// ---------------------------------------------------------------------------------------------

// answers of an index for a list of ranges, both without and with Elements
type probe struct {
	Plain, WithEls []rres
}

func probeIndex(x index, ts []tuple) probe {
	a := make([]rreq, len(ts))
	b := make([]rreq, len(ts))
	for i, t := range ts {
		a[i] = rreq{t, false}
		b[i] = rreq{t, true}
	}
	return probe{x.Ranges(a), x.Ranges(b)}
}

func sameEls(a, b []el) bool {
	if len(a) != len(b) {
		return false
	}
	for i := range a {
		if a[i] != b[i] {
			return false
		}
	}
	return true
}

// compareAnswers is the C08 predicate on range answers: "" or what differs.
func compareAnswers(a, b rres) string {
	if a.HasElements != b.HasElements {
		return "materialised" // one index keeps a hash for the range, the other scans it
	}
	if !bytes.Equal(a.Hash, b.Hash) {
		return "hash"
	}
	if a.Count != b.Count {
		return "count"
	}
	if !sameEls(a.Elements, b.Elements) {
		return "elements"
	}
	return ""
}

// freshLike builds a new index with the same parameters holding exactly the elements of x,
// filled in one Set call (what a restarted peer does in FillDiff).
func freshLike(x index, df, th int) index {
	var f index
	if x.IsLegacy() {
		f = newLegacy(df, th)
	} else {
		f = newReal(df, th)
	}
	if els := x.Elements(); len(els) > 0 {
		f.Set(els...)
	}
	return f
}

// checkFresh evaluates C08 for index x against a freshly filled one over the given ranges.
// Returns "" or "<what>" plus a description.
func checkFresh(x index, df, th int, ts []tuple) (string, string) {
	f := freshLike(x, df, th)
	if x.Hash() != f.Hash() {
		return "hash", fmt.Sprintf("Hash()=%s, a freshly filled index with the same %d elements has %s", x.Hash(), len(f.Elements()), f.Hash())
	}
	px, pf := probeIndex(x, ts), probeIndex(f, ts)
	for i, t := range ts {
		if w := compareAnswers(px.Plain[i], pf.Plain[i]); w != "" {
			return "range-" + w, fmt.Sprintf("Ranges([%d,%d]) = {hash %s count %d els %v}, fresh index: {hash %s count %d els %v}", t.From, t.To,
				hex.EncodeToString(px.Plain[i].Hash), px.Plain[i].Count, px.Plain[i].HasElements, hex.EncodeToString(pf.Plain[i].Hash), pf.Plain[i].Count, pf.Plain[i].HasElements)
		}
		if w := compareAnswers(px.WithEls[i], pf.WithEls[i]); w != "" {
			return "range-els-" + w, fmt.Sprintf("Ranges([%d,%d],Elements) differs from the fresh index in %s", t.From, t.To, w)
		}
	}
	return "", ""
}

// materialised walks the range tree of an index through Ranges(): a range is materialised iff the
// answer to a plain query carries no element list. Returns the materialised ranges below (and
// including) the top, exploring children of every materialised range down to maxDepth.
func materialised(x index, df, maxDepth int) (paths [][]int, res []rres) {
	type item struct {
		p []int
		t tuple
	}
	level := []item{{[]int{}, top}}
	for d := 0; d <= maxDepth && len(level) > 0; d++ {
		reqs := make([]rreq, len(level))
		for i, it := range level {
			reqs[i] = rreq{it.t, false}
		}
		ans := x.Ranges(reqs)
		var next []item
		for i, it := range level {
			if ans[i].HasElements {
				continue
			}
			paths = append(paths, it.p)
			res = append(res, ans[i])
			if d < maxDepth {
				for k, kt := range kids(it.t, df) {
					next = append(next, item{append(append([]int{}, it.p...), k), kt})
				}
			}
		}
		level = next
	}
	return
}

func mustJSON(v any) string {
	b, _ := json.Marshal(v)
	return string(b)
}
