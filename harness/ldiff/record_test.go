package ldiff

import (
	"fmt"
	"math/rand"
	"os"
	"path/filepath"
	"testing"

	"verifharness/vfutil"
)

// the id universes of spec/ldiff/LdiffMC.tla (id -> path of its hash); TestRecord logs model names
type universeDef struct {
	Name    string
	Df      int
	D       int
	Ids     map[string][]int
	MixedDf bool // indexes may also use Df^2 (the model has LGs = {1, 2} for this universe)
}

var universes = []universeDef{
	{Name: "u2", Df: 2, D: 3, Ids: map[string][]int{"a": {0, 0, 0}, "b": {0, 0, 1}, "c": {0, 1, 0}, "d": {1, 0, 0}, "e": {1, 1, 0}, "f": {1, 1, 1}}},
	{Name: "u3", Df: 3, D: 3, Ids: map[string][]int{"a": {0, 0, 0}, "b": {0, 0, 1}, "c": {0, 0, 2}, "d": {0, 1, 0}, "e": {0, 2, 2}, "f": {2, 1, 0}}},
	{Name: "u4", Df: 2, D: 4, MixedDf: true, Ids: map[string][]int{"a": {0, 0, 0, 0}, "b": {0, 0, 0, 1}, "c": {0, 0, 1, 0}, "d": {0, 1, 0, 0}, "e": {1, 0, 0, 0}}},
}

type traceReq struct {
	P  []int `json:"p"`
	El bool  `json:"el"`
}

type traceEvent = map[string]any

func (w *world) names2(ids []string) []string {
	res := make([]string, 0, len(ids))
	for _, id := range ids {
		if n, ok := w.names[id]; ok {
			res = append(res, n)
		} else {
			res = append(res, "?"+id)
		}
	}
	return res
}

// TestRecord: random histories on real indexes written as NDJSON for LdiffTrace.tla.
// One file per (universe, remote kind): <dir>/<universe>_<cur|leg>.ndjson
func TestRecord(t *testing.T) {
	prop := os.Getenv("VERIF_PROPERTY")
	rep := vfutil.NewReport(prop)
	defer func() {
		if p := recover(); p != nil {
			rep.Save(false)
			panic(p)
		}
	}()
	if err := checkArithmetic(); err != nil {
		rep.Save(false)
		t.Fatalf("harness arithmetic: %v", err)
	}
	dir := os.Getenv("VERIF_TRACE_DIR")
	if dir == "" {
		t.Fatal("VERIF_TRACE_DIR not set")
	}
	runs := vfutil.EnvInt("VERIF_RUNS", 20)
	corrupt := os.Getenv("VERIF_CORRUPT") // binding self-test: falsify one logged field
	rnd := rand.New(rand.NewSource(vfutil.Seed()*31 + 7))
	events := 0
	for _, u := range universes {
		for _, kind := range []string{"cur", "leg"} {
			tw := vfutil.NewTraceWriter(filepath.Join(dir, u.Name+"_"+kind+".ndjson"))
			for r := 0; r < runs; r++ {
				if corrupt != "" && r == runs/2 {
					corruptPending = true // stays pending until an event of the right kind has been falsified
				}
				events += recordRun(tw, rep, u, kind == "leg", rnd, corrupt)
				rep.AddReplayed(1)
			}
			tw.Close()
		}
	}
	rep.SetExtra("trace_events", events)
	rep.Save(true)
	if rep.NumViolations() > 0 {
		t.Fail()
	}
}

// guarded runs an operation of the code under test; a panic inside it is returned, not propagated
func guarded(f func()) (p any) {
	defer func() { p = recover() }()
	f()
	return nil
}

var corruptPending bool

func recordRun(tw *vfutil.TraceWriter, rep *vfutil.Report, u universeDef, legacyRemote bool, rnd *rand.Rand, corrupt string) int {
	// every index gets its own threshold; in the depth-4 universe also its own divide factor (2 or 4)
	cfg := bcfg{Df: u.Df, D: u.D, Par: map[string]bpar{}, Ids: u.Ids, Peers: []string{"L", "R"}}
	for _, p := range cfg.Peers {
		par := bpar{Th: 1 + rnd.Intn(3), Lg: 1}
		if u.MixedDf && rnd.Intn(2) == 0 {
			par.Lg = 2
		}
		cfg.Par[p] = par
	}
	if legacyRemote {
		cfg.Legacy = []string{"R"}
	}
	w := newWorld(cfg)
	names := keysOf(u.Ids)
	n := 0
	emit := func(e traceEvent) {
		tw.Emit(e)
		n++
	}
	emit(traceEvent{"ev": "Reset", "par": cfg.Par, "st": map[string]proj{"L": w.project(w.peers["L"]), "R": w.project(w.peers["R"])}})
	steps := 10 + rnd.Intn(10)
	for s := 0; s < steps; s++ {
		peer := []string{"L", "R"}[rnd.Intn(2)]
		x := w.peers[peer]
		switch k := rnd.Intn(10); {
		case k < 6:
			cnt := 1
			if rnd.Intn(3) == 0 {
				cnt = 2 + rnd.Intn(2)
			}
			var mels [][2]any
			var els []el
			for i := 0; i < cnt; i++ {
				id := names[rnd.Intn(len(names))]
				if i > 0 && rnd.Intn(3) == 0 {
					id = mels[rnd.Intn(len(mels))][0].(string)
				}
				h := 1 + rnd.Intn(2)
				mels = append(mels, [2]any{id, h})
				els = append(els, el{w.ids[id], headStr(h)})
			}
			if p := guarded(func() { x.Set(els...) }); p != nil {
				rep.Violate("panic/Set", fmt.Sprintf("Set(%v) panicked while recording (%v): %v", mels, cfg, p), nil)
				return n
			}
			rep.Case(fmt.Sprintf("trace/%s/Set%d/df%d", peer, min(cnt, 2), u.Df))
			st := w.project(x)
			if corruptPending && corrupt == "count" {
				st.Cnt[0]++ // binding self-test: the logged top counter is falsified
				corruptPending = false
			}
			emit(traceEvent{"ev": "Set", "peer": peer, "els": mels, "st": st})
		default:
			id := names[rnd.Intn(len(names))]
			var err error
			if p := guarded(func() { err = x.RemoveId(w.ids[id]) }); p != nil {
				rep.Violate("panic/RemoveId", fmt.Sprintf("RemoveId(%s) panicked while recording (%v): %v", id, cfg, p), nil)
				return n
			}
			found := err == nil
			rep.Case(fmt.Sprintf("trace/%s/Remove-%v/df%d", peer, found, u.Df))
			emit(traceEvent{"ev": "Remove", "peer": peer, "id": id, "found": found, "st": w.project(x)})
		}
		if rnd.Intn(2) == 0 {
			variant := []string{"Diff", "CompareDiff"}[rnd.Intn(2)]
			tr := transports[rnd.Intn(len(transports))]
			run := runDiff(w.peers["L"].(*realIndex), w.peers["R"], variant, tr)
			asked := [][]traceReq{}
			for _, round := range run.Rounds {
				rr := []traceReq{}
				for _, q := range round {
					p := []int{-1}
					if i, ok := w.tupleIdx[q.tuple]; ok {
						p = w.paths[i]
					}
					rr = append(rr, traceReq{P: p, El: q.Elements})
				}
				asked = append(asked, rr)
			}
			removed := w.names2(run.Got.Removed)
			if corruptPending && corrupt == "diff" && len(removed) > 0 {
				removed = removed[1:] // binding self-test: one reported id is dropped from the log
				corruptPending = false
			}
			ev := traceEvent{"ev": "Diff", "variant": variant, "transport": tr, "err": run.Err + run.Panic,
				"new": w.names2(run.Got.New), "ours": w.names2(run.Got.Ours), "theirs": w.names2(run.Got.Theirs), "removed": removed,
				"asked": asked}
			rep.Case(fmt.Sprintf("trace/Diff/%s/%s/df%d/%s", variant, tr, u.Df, cfg.mixed()))
			emit(ev)
		}
	}
	return n
}
