package ldiff

import (
	"context"
	"fmt"
	"math/rand"
	"os"
	"sort"
	"testing"

	rl "github.com/anyproto/any-sync/app/ldiff"
	"github.com/anyproto/any-sync/app/logger"
	"github.com/anyproto/any-sync/commonspace/deletionstate"
	"github.com/anyproto/any-sync/commonspace/headsync"
	"github.com/anyproto/any-sync/commonspace/headsync/headstorage"
	"github.com/anyproto/any-sync/commonspace/headsync/statestorage"
	"github.com/anyproto/any-sync/commonspace/object/acl/list"
	"github.com/anyproto/any-sync/commonspace/object/acl/syncacl"
	"github.com/anyproto/any-sync/commonspace/spacestorage"

	"verifharness/vfutil"
)

// C08 at the place where the index is used: headsync.DiffManager keeps the index up to date with
// UpdateHeads (one Set / RemoveId per stored head change) and persists Hash() as the space hash;
// after a restart FillDiff rebuilds the index from the head storage in one Set call and persists the
// hash again. The property demands that both hashes are the same for the same stored heads.

type fakeHeads struct {
	headstorage.HeadStorage
	entries map[string]headstorage.HeadsEntry
}

func (f *fakeHeads) IterateEntries(ctx context.Context, opts headstorage.IterOpts, iter headstorage.EntryIterator) error {
	ids := make([]string, 0, len(f.entries))
	for id := range f.entries {
		ids = append(ids, id)
	}
	sort.Strings(ids)
	for _, id := range ids {
		e := f.entries[id]
		if (e.DeletedStatus != headstorage.DeletedStatusNotDeleted) != opts.Deleted {
			continue
		}
		if cont, err := iter(e); err != nil || !cont {
			return err
		}
	}
	return nil
}

type fakeState struct {
	statestorage.StateStorage
	hash string
	sets int
}

func (f *fakeState) SetHash(ctx context.Context, hash string) error {
	f.hash = hash
	f.sets++
	return nil
}

type fakeSpaceStorage struct {
	spacestorage.SpaceStorage
	hs *fakeHeads
	ss *fakeState
}

func (f *fakeSpaceStorage) HeadStorage() headstorage.HeadStorage    { return f.hs }
func (f *fakeSpaceStorage) StateStorage() statestorage.StateStorage { return f.ss }

type fakeAcl struct{ syncacl.SyncAcl }

func (fakeAcl) Id() string            { return "acl" }
func (fakeAcl) Head() *list.AclRecord { return &list.AclRecord{Id: "aclhead"} }

// fakeDeletion: like the real deletion state it knows every object that is queued for deletion or
// already deleted (deletionstate.Add puts an id there before the head storage entry becomes Queued).
type fakeDeletion struct {
	deletionstate.ObjectDeletionState
	known map[string]bool
}

func (f *fakeDeletion) Exists(id string) bool { return f.known[id] }

func newManager(df, th int, hs *fakeHeads, del *fakeDeletion) (*headsync.DiffManager, *fakeState, rl.Diff) {
	ss := &fakeState{}
	d := rl.New(df, th)
	dm := headsync.NewDiffManager(d, &fakeSpaceStorage{hs: hs, ss: ss}, fakeAcl{}, logger.NewNamed("verif.ldiff"), context.Background(), del)
	return dm, ss, d
}

// liveEls: the (id, heads) pairs of the objects that are not deleted, in id order
func liveEls(hs *fakeHeads) [][]string {
	var res [][]string
	_ = hs.IterateEntries(ctxBg, headstorage.IterOpts{}, func(e headstorage.HeadsEntry) (bool, error) {
		res = append(res, append([]string{e.Id}, e.Heads...))
		return true, nil
	})
	return res
}

type dmCase struct {
	Df   int   `json:"df"`
	Th   int   `json:"th"`
	N    int   `json:"n"`
	Ops  int   `json:"ops"`
	Seed int64 `json:"seed"`
}

func runDiffManagerCase(j *judge, c dmCase) {
	rnd := rand.New(rand.NewSource(c.Seed))
	hs := &fakeHeads{entries: map[string]headstorage.HeadsEntry{}}
	del := &fakeDeletion{known: map[string]bool{}}
	live, ss, _ := newManager(c.Df, c.Th, hs, del)
	replay := map[string]any{"kind": "diffmanager", "case": c}
	ids := make([]string, c.N)
	for i := range ids {
		ids[i] = fmt.Sprintf("obj-%d-%d", c.Seed, i)
	}
	if err := live.FillDiff(ctxBg); err != nil {
		panic("harness: FillDiff: " + err.Error())
	}
	stale := false
	prevHash, prevEls := "", ""
	for op := 0; op < c.Ops; op++ {
		id := ids[rnd.Intn(len(ids))]
		old, existed := hs.entries[id]
		var kind string
		e := headstorage.HeadsEntry{Id: id}
		newHeads := func() []string {
			var hs []string
			for h, n := 0, 1+rnd.Intn(3); h < n; h++ {
				hs = append(hs, fmt.Sprintf("%s-head-%d", id, rnd.Intn(1000)))
			}
			return hs
		}
		switch {
		case existed && old.DeletedStatus == headstorage.DeletedStatusDeleted:
			continue // deleted objects stay deleted
		case existed && old.DeletedStatus == headstorage.DeletedStatusQueued:
			// the deleter has not run yet: it finishes now, or a late head update for the object arrives first
			e = old
			if rnd.Intn(2) == 0 {
				kind = "delete-finished"
				e.DeletedStatus = headstorage.DeletedStatusDeleted
			} else {
				kind = "heads-change-while-queued"
				e.Heads = newHeads()
			}
		case existed && rnd.Intn(5) == 0:
			// deletion in two steps (queued by the deletion state, later deleted) or at once
			e = old
			del.known[id] = true
			if rnd.Intn(3) > 0 {
				kind = "delete-queued"
				e.DeletedStatus = headstorage.DeletedStatusQueued
			} else {
				kind = "delete"
				e.DeletedStatus = headstorage.DeletedStatusDeleted
			}
		default:
			kind = "new-object"
			if existed {
				kind = "heads-change"
			}
			n := 1 + rnd.Intn(3)
			for h := 0; h < n; h++ {
				e.Heads = append(e.Heads, fmt.Sprintf("%s-head-%d", id, rnd.Intn(1000)))
			}
			if existed && rnd.Intn(4) == 0 {
				kind = "heads-unchanged"
				e.Heads = old.Heads
			}
		}
		hs.entries[id] = e // the head storage is written first, then the observer (UpdateHeads) runs
		func() {
			defer func() {
				if p := recover(); p != nil {
					j.violate(j.property, "panic/diffmanager-"+kind, fmt.Sprintf("%+v: UpdateHeads panicked: %v", c, p), replay)
					stale = true
				}
			}()
			live.UpdateHeads(e)
		}()
		// restart: a new manager over the same head storage
		fresh, fss, _ := newManager(c.Df, c.Th, hs, del)
		if p := guarded(func() {
			if err := fresh.FillDiff(ctxBg); err != nil {
				panic("harness: FillDiff: " + err.Error())
			}
		}); p != nil {
			if isHarnessPanic(p) {
				panic(p)
			}
			j.violate(j.property, "panic/diffmanager-filldiff", fmt.Sprintf("%+v: FillDiff over %d objects panicked: %v", c, len(hs.entries), p), replay)
			return
		}
		if stale && ss.hash == "" {
			return // UpdateHeads panicked before anything was persisted
		}
		j.rep.Case(fmt.Sprintf("dm/%s/df%d/th%d", kind, c.Df, c.Th))
		differs := ss.hash != fss.hash
		if differs && !stale {
			j.violate("C08", "diffmanager/space-hash-differs-after-restart/"+kind,
				fmt.Sprintf("%+v: after UpdateHeads(%s) of %d objects the persisted space hash is %s, after a restart (FillDiff over the same heads) it is %s",
					c, kind, len(hs.entries), ss.hash, fss.hash), replay)
		}
		stale = differs
		if cur := mustJSON(liveEls(hs)); ss.hash == prevHash && cur != prevEls && prevEls != "" && kind != "heads-unchanged" {
			j.violate("C08", "diffmanager/space-hash-unchanged-by-content-change/"+kind,
				fmt.Sprintf("%+v: UpdateHeads(%s) changed the stored heads but the persisted space hash is still %s", c, kind, ss.hash), replay)
		} else {
			prevEls = cur
		}
		prevHash = ss.hash
		if !sameStrings(live.AllIds(), fresh.AllIds()) {
			j.rep.DriftNote("%+v: live and restarted manager hold different ids", c)
		}
	}
}

func diffManagerCases(seed int64, thorough bool) []dmCase {
	var cs []dmCase
	n := 0
	for _, p := range paramPairs {
		for _, size := range []int{6, 40, 400} {
			if !thorough && size == 400 && p[0] > 4 {
				continue
			}
			n++
			cs = append(cs, dmCase{Df: p[0], Th: p[1], N: size, Ops: 4 * size, Seed: seed*1000 + int64(n)})
		}
	}
	if thorough {
		cs = append(cs, dmCase{Df: 32, Th: 256, N: 4000, Ops: 3000, Seed: seed*1000 + 999})
	}
	return cs
}

// TestDiffManager: C08 through headsync.DiffManager (UpdateHeads history vs. FillDiff after a restart).
func TestDiffManager(t *testing.T) {
	prop := os.Getenv("VERIF_PROPERTY")
	rep := vfutil.NewReport(prop)
	defer func() {
		if p := recover(); p != nil {
			rep.Save(false)
			panic(p)
		}
	}()
	j := &judge{rep: rep, property: prop}
	cs := diffManagerCases(vfutil.Seed(), vfutil.Thorough())
	for i, c := range cs {
		runDiffManagerCase(j, c)
		rep.AddReplayed(1)
		if i == 0 {
			rep.Sample(map[string]any{"diffmanager_case": c})
		}
	}
	rep.SetExtra("diffmanager_cases", len(cs))
	rep.Save(true)
	if rep.NumViolations() > 0 {
		t.Fail()
	}
}
