// Package treesync binds spec/treesync/TreeSync.tla to the real synctree.SyncTree (property C01).
//
// A world is N real SyncTrees of one object (real spacestorage on any-store temp databases, real
// ACL built from that storage, signed changes, the verifying BuildObjectTree path). Every
// replica is wired to a harness SyncClient (embedding the exported synctree.NewRequestFactory)
// that captures every Broadcast / QueueRequest / SendTreeRequest / response send as wire bytes
// and puts them into the world's network bag. The driver (replay of TLC behaviours, or the
// seeded random simulator) decides the fate of every message.
//
// Everything goes through exported API:
//
//	synctree.PutSyncTree / BuildSyncTreeOrGetRemote, SyncTree.AddContent, HandleHeadUpdate,
//	HandleStreamRequest, HandleResponse, SyncWithPeer, objectmessages.HeadUpdate.SetProtoMessage,
//	objectmessages.NewByteRequest, response.Response.SetProtoMessage.
package treesync

import (
	"context"
	"crypto/rand"
	"errors"
	"fmt"
	"os"
	"path/filepath"
	"sort"
	"strings"
	"time"

	anystore "github.com/anyproto/any-store"
	"google.golang.org/protobuf/proto"
	"storj.io/drpc"

	"github.com/anyproto/any-sync/commonspace/object/accountdata"
	"github.com/anyproto/any-sync/commonspace/object/acl/list"
	"github.com/anyproto/any-sync/commonspace/object/acl/recordverifier"
	"github.com/anyproto/any-sync/commonspace/object/tree/objecttree"
	"github.com/anyproto/any-sync/commonspace/object/tree/synctree"
	"github.com/anyproto/any-sync/commonspace/object/tree/synctree/response"
	"github.com/anyproto/any-sync/commonspace/object/tree/treechangeproto"
	"github.com/anyproto/any-sync/commonspace/object/tree/treestorage"
	"github.com/anyproto/any-sync/commonspace/spacepayloads"
	"github.com/anyproto/any-sync/commonspace/spacestorage"
	"github.com/anyproto/any-sync/commonspace/spacesyncproto"
	"github.com/anyproto/any-sync/commonspace/sync/objectsync/objectmessages"
	"github.com/anyproto/any-sync/commonspace/sync/syncdeps"
	"github.com/anyproto/any-sync/commonspace/syncstatus"
	"github.com/anyproto/any-sync/net/peer"
	"github.com/anyproto/any-sync/util/crypto"
)

var bg = context.Background()

// ---------------------------------------------------------------------------------------------
// slots: one any-store database + space storage + ACL per replica position, shared by all the
// behaviours of one test process (every behaviour creates a fresh object tree in the space).

type slot struct {
	name  string
	db    anystore.DB
	store spacestorage.SpaceStorage
	acl   list.AclList
}

type slotPool struct {
	dir     string
	keys    *accountdata.AccountKeys
	payload spacestorage.SpaceStorageCreatePayload
	spaceId string
	slots   []*slot
}

func newSlotPool(dir string) (*slotPool, error) {
	keys, err := accountdata.NewRandom()
	if err != nil {
		return nil, err
	}
	masterKey, _, err := crypto.GenerateRandomEd25519KeyPair()
	if err != nil {
		return nil, err
	}
	metaKey, _, err := crypto.GenerateRandomEd25519KeyPair()
	if err != nil {
		return nil, err
	}
	payload, err := spacepayloads.StoragePayloadForSpaceCreate(spacepayloads.SpaceCreatePayload{
		SigningKey:     keys.SignKey,
		SpaceType:      "verif.treesync",
		ReplicationKey: 7,
		MasterKey:      masterKey,
		ReadKey:        crypto.NewAES(),
		MetadataKey:    metaKey,
		Metadata:       []byte("verif"),
	})
	if err != nil {
		return nil, err
	}
	return &slotPool{dir: dir, keys: keys, payload: payload, spaceId: payload.SpaceHeaderWithId.Id}, nil
}

func (p *slotPool) get(i int) (*slot, error) {
	for len(p.slots) <= i {
		k := len(p.slots)
		path := filepath.Join(p.dir, fmt.Sprintf("slot%d", k))
		if err := os.MkdirAll(path, 0o755); err != nil {
			return nil, err
		}
		db, err := anystore.Open(bg, filepath.Join(path, "store.db"), &anystore.Config{
			SQLiteConnectionOptions: map[string]string{"synchronous": "off"},
		})
		if err != nil {
			return nil, err
		}
		st, err := spacestorage.Create(bg, db, p.payload)
		if err != nil {
			return nil, err
		}
		aclSt, err := st.AclStorage()
		if err != nil {
			return nil, err
		}
		acl, err := list.BuildAclListWithIdentity(p.keys, aclSt, recordverifier.NewValidateFull())
		if err != nil {
			return nil, err
		}
		p.slots = append(p.slots, &slot{name: fmt.Sprintf("r%d", k+1), db: db, store: st, acl: acl})
	}
	return p.slots[i], nil
}

func (p *slotPool) close() {
	for _, s := range p.slots {
		_ = s.db.Close()
	}
}

// ---------------------------------------------------------------------------------------------
// messages

const (
	kHeadUpdate = "HeadUpdate"
	kRequest    = "Request"
	kResponse   = "Response"
)

// msg is one wire message in flight. Bytes is the marshalled spacesyncproto.ObjectSyncMessage;
// Heads / Changes / Path are its projection in model names (sorted sets; Path keeps its order,
// first element = sender's in-memory root, last = tree root).
type msg struct {
	Seq     int      `json:"-"`
	Kind    string   `json:"k"`
	From    string   `json:"from"`
	To      string   `json:"to"`
	Heads   []string `json:"heads"`
	Changes []string `json:"changes"`
	Path    []string `json:"path"`
	Bytes   []byte   `json:"-"`
	// Stream groups the responses of one request (same value, increasing Idx) so that the
	// simulator can model a truncated stream.
	Stream int `json:"-"`
	Idx    int `json:"-"`
}

func (m *msg) key() string {
	return m.Kind + "|" + m.From + ">" + m.To + "|h=" + strings.Join(m.Heads, ",") + "|c=" + strings.Join(m.Changes, ",") + "|p=" + strings.Join(m.Path, ",")
}

func (m *msg) clone() *msg {
	c := *m
	return &c
}

// ---------------------------------------------------------------------------------------------
// world

type changeInfo struct {
	Prev   []string `json:"prev"`
	Snap   string   `json:"snap"`
	IsSnap bool     `json:"isSnap"`
}

type world struct {
	pool     *slotPool
	reps     []*replica
	byName   map[string]*replica
	treeId   string
	rootRaw  *treechangeproto.RawTreeChangeWithId
	net      []*msg
	seq      int
	streams  int
	names    map[string]string     // real id -> model name
	real     map[string]string     // model name -> real id
	universe map[string]changeInfo // model name -> structure (from the real change)
	nextId   int
	emitted  []*msg // emissions of the current step
	// violations of the send-time oracle found inside SyncClient callbacks during the current step
	sendViolations []string
	pathViolations []string
	panics         []string
	rankMisses     int // mined id rank could not be realised (not an error, only counted)
	handlerErrs    []string
	dataSize       func() int
	// observation cache: a step changes the state of the acting replica only
	obsCache map[string]*obs
	dirty    map[string]bool
}

func (w *world) touch(r *replica) {
	if w.dirty == nil {
		w.dirty = map[string]bool{}
	}
	w.dirty[r.name] = true
}

// observeCached re-observes a replica only if a step touched it since the last observation.
func (w *world) observeCached(r *replica) (*obs, error) {
	if w.obsCache == nil {
		w.obsCache = map[string]*obs{}
	}
	if o, ok := w.obsCache[r.name]; ok && !w.dirty[r.name] {
		return o, nil
	}
	o, err := w.observe(r)
	if err != nil {
		return nil, err
	}
	w.obsCache[r.name] = o
	delete(w.dirty, r.name)
	return o, nil
}

type replica struct {
	w      *world
	name   string
	slot   *slot
	tree   synctree.SyncTree
	client *harnessClient
	// onWrite is called (once) right before the next tree-storage write of this replica
	onWrite func()
}

func newWorld(pool *slotPool, n int, present []bool) (*world, error) {
	w := &world{pool: pool, byName: map[string]*replica{}, names: map[string]string{}, real: map[string]string{},
		universe: map[string]changeInfo{}}
	seed := make([]byte, 32)
	_, _ = rand.Read(seed)
	s0, err := pool.get(0)
	if err != nil {
		return nil, err
	}
	root, err := objecttree.CreateObjectTreeRoot(objecttree.ObjectTreeCreatePayload{
		PrivKey:     pool.keys.SignKey,
		ChangeType:  "verif.tree",
		SpaceId:     pool.spaceId,
		IsEncrypted: true,
		Seed:        seed,
		Timestamp:   time.Now().Unix(),
	}, s0.acl)
	if err != nil {
		return nil, err
	}
	w.rootRaw = root
	w.treeId = root.Id
	w.name(root.Id)
	w.universe["c0"] = changeInfo{Prev: []string{}, Snap: "", IsSnap: true}
	for i := 0; i < n; i++ {
		sl, err := pool.get(i)
		if err != nil {
			return nil, err
		}
		r := &replica{w: w, name: sl.name, slot: sl}
		r.client = &harnessClient{RequestFactory: synctree.NewRequestFactory(pool.spaceId), r: r}
		w.reps = append(w.reps, r)
		w.byName[r.name] = r
		if present == nil || present[i] {
			t, err := synctree.PutSyncTree(bg, treestorage.TreeStorageCreatePayload{
				RootRawChange: root,
				Heads:         []string{root.Id},
			}, r.deps())
			if err != nil {
				return nil, fmt.Errorf("PutSyncTree %s: %w", r.name, err)
			}
			r.tree = t
		}
	}
	w.emitted = nil // a freshly put root-only tree broadcasts nothing; be robust anyway
	w.net = nil
	return w, nil
}

// hookSpaceStorage hands out tree storages whose writes can be observed by the harness: the
// "context cancelled while the handler is writing" fate cancels the delivery context right before
// the first storage write of the call.
type hookSpaceStorage struct {
	spacestorage.SpaceStorage
	r *replica
}

func (h *hookSpaceStorage) wrap(st objecttree.Storage, err error) (objecttree.Storage, error) {
	if err != nil {
		return st, err
	}
	return &hookStorage{Storage: st, r: h.r}, nil
}

func (h *hookSpaceStorage) TreeStorage(ctx context.Context, id string) (objecttree.Storage, error) {
	return h.wrap(h.SpaceStorage.TreeStorage(ctx, id))
}

func (h *hookSpaceStorage) CreateTreeStorage(ctx context.Context, payload treestorage.TreeStorageCreatePayload) (objecttree.Storage, error) {
	return h.wrap(h.SpaceStorage.CreateTreeStorage(ctx, payload))
}

func (h *hookSpaceStorage) CreateStorageWithDeferredCreation(ctx context.Context, payload treestorage.TreeStorageCreatePayload) (objecttree.Storage, error) {
	return h.wrap(h.SpaceStorage.CreateStorageWithDeferredCreation(ctx, payload))
}

type hookStorage struct {
	objecttree.Storage
	r *replica
}

func (h *hookStorage) AddAll(ctx context.Context, changes []objecttree.StorageChange, heads []string, commonSnapshot string) error {
	if f := h.r.onWrite; f != nil {
		h.r.onWrite = nil
		f()
	}
	return h.Storage.AddAll(ctx, changes, heads, commonSnapshot)
}

func (r *replica) deps() synctree.BuildDeps {
	return synctree.BuildDeps{
		SpaceId:         r.w.pool.spaceId,
		SyncClient:      r.client,
		AclList:         r.slot.acl,
		SpaceStorage:    &hookSpaceStorage{SpaceStorage: r.slot.store, r: r},
		OnClose:         func(id string) {},
		SyncStatus:      syncstatus.NewNoOpSyncStatus(),
		BuildObjectTree: objecttree.BuildObjectTree,
	}
}

// name maps a real change id to its model name (c0, c1, ... in order of first appearance).
func (w *world) name(realId string) string {
	if n, ok := w.names[realId]; ok {
		return n
	}
	n := fmt.Sprintf("c%d", w.nextId)
	w.nextId++
	w.names[realId] = n
	w.real[n] = realId
	return n
}

func (w *world) nameSet(ids []string) []string {
	res := make([]string, 0, len(ids))
	for _, id := range ids {
		res = append(res, w.name(id))
	}
	sort.Strings(res)
	return res
}

func (w *world) nameSeq(ids []string) []string {
	res := make([]string, 0, len(ids))
	for _, id := range ids {
		res = append(res, w.name(id))
	}
	return res
}

// ---------------------------------------------------------------------------------------------
// the harness SyncClient: captures everything the tree sends

type harnessClient struct {
	synctree.RequestFactory
	r *replica
}

func (c *harnessClient) Broadcast(ctx context.Context, hu *objectmessages.HeadUpdate) error {
	w := c.r.w
	for _, dst := range w.reps {
		if dst == c.r {
			continue
		}
		cp := hu.Copy().(*objectmessages.HeadUpdate)
		cp.SetPeerId(dst.name)
		pm, err := cp.ProtoMessage()
		if err != nil {
			return err
		}
		sm := pm.(*spacesyncproto.ObjectSyncMessage)
		b, err := sm.MarshalVT()
		if err != nil {
			return err
		}
		m, err := w.project(kHeadUpdate, c.r.name, dst.name, b)
		if err != nil {
			return err
		}
		w.emit(c.r, m)
	}
	return nil
}

func (c *harnessClient) QueueRequest(ctx context.Context, req syncdeps.Request) error {
	return c.r.w.emitRequest(c.r, req)
}

// SendTreeRequest is the synchronous request used to fetch a tree the replica does not have:
// the request is handed to the destination's stream handler and the responses are fed to the
// collector in order (this is what requestManager.SendRequest does over a drpc stream).
func (c *harnessClient) SendTreeRequest(ctx context.Context, req syncdeps.Request, collector syncdeps.ResponseCollector) error {
	w := c.r.w
	m, err := w.requestMsg(c.r, req)
	if err != nil {
		return err
	}
	w.emit(c.r, m)
	dst := w.byName[m.To]
	if dst == nil || dst.tree == nil {
		return treechangeproto.ErrGetTree
	}
	resps, err := w.handleRequest(dst, m)
	// responses travel back on the same stream: hand them to the collector in order
	called := false
	for _, rm := range resps {
		resp := collector.NewResponse()
		sm := &spacesyncproto.ObjectSyncMessage{}
		if uerr := sm.UnmarshalVT(rm.Bytes); uerr != nil {
			return uerr
		}
		if uerr := resp.(*response.Response).SetProtoMessage(sm); uerr != nil {
			return uerr
		}
		if cerr := collector.CollectResponse(ctx, dst.name, w.treeId, resp); cerr != nil {
			return cerr
		}
		called = true
	}
	if err != nil {
		return err
	}
	if !called {
		return errors.New("empty response stream")
	}
	return nil
}

func (w *world) emit(from *replica, m *msg) {
	w.seq++
	m.Seq = w.seq
	w.emitted = append(w.emitted, m)
	// send-time oracle: everything a message advertises is held (stored) by the sender now, and the
	// snapshot path it advertises is the path of its current in-memory root (first element = root,
	// last = tree root): the receiver chooses the common snapshot from it
	if from.tree != nil {
		if len(m.Path) > 0 {
			cur := w.name(from.tree.Root().Id)
			// the whole chain, read from the storage (not through SnapshotPath(), which is under test)
			var chain []string
			for id := from.tree.Root().Id; id != "" && len(chain) < 10000; {
				chain = append(chain, w.name(id))
				sc, gerr := from.tree.Storage().Get(bg, id)
				if gerr != nil {
					break
				}
				id = sc.SnapshotId
			}
			if m.Path[0] != cur || m.Path[len(m.Path)-1] != "c0" || strings.Join(m.Path, ",") != strings.Join(chain, ",") {
				w.pathViolations = append(w.pathViolations,
					fmt.Sprintf("%s sends %s to %s with snapshot path %v while its in-memory root is %s (heads=%v)",
						from.name, m.Kind, m.To, m.Path, cur, m.Heads))
			}
		}
		st := from.tree.Storage()
		for _, set := range [][]string{m.Heads, m.Changes, m.Path} {
			for _, n := range set {
				ok, err := st.Has(bg, w.real[n])
				if err != nil || !ok {
					w.sendViolations = append(w.sendViolations,
						fmt.Sprintf("%s sends %s to %s advertising %s which it does not hold (heads=%v changes=%v path=%v)",
							from.name, m.Kind, m.To, n, m.Heads, m.Changes, m.Path))
				}
			}
		}
	}
}

func (w *world) requestMsg(from *replica, req syncdeps.Request) (*msg, error) {
	or, ok := req.(*objectmessages.Request)
	if !ok {
		return nil, fmt.Errorf("unexpected request type %T", req)
	}
	pm, err := or.Proto()
	if err != nil {
		return nil, err
	}
	b, err := pm.(*spacesyncproto.ObjectSyncMessage).MarshalVT()
	if err != nil {
		return nil, err
	}
	return w.project(kRequest, from.name, req.PeerId(), b)
}

func (w *world) emitRequest(from *replica, req syncdeps.Request) error {
	m, err := w.requestMsg(from, req)
	if err != nil {
		return err
	}
	w.emit(from, m)
	return nil
}

// project decodes wire bytes into the model-level view of a message.
func (w *world) project(kind, from, to string, b []byte) (*msg, error) {
	sm := &spacesyncproto.ObjectSyncMessage{}
	if err := sm.UnmarshalVT(b); err != nil {
		return nil, err
	}
	tm := &treechangeproto.TreeSyncMessage{}
	if err := tm.UnmarshalVT(sm.Payload); err != nil {
		return nil, err
	}
	m := &msg{Kind: kind, From: from, To: to, Bytes: b}
	var heads, path []string
	var changes []*treechangeproto.RawTreeChangeWithId
	switch kind {
	case kHeadUpdate:
		hu := tm.GetContent().GetHeadUpdate()
		if hu == nil {
			return nil, errors.New("not a head update")
		}
		heads, path, changes = hu.Heads, hu.SnapshotPath, hu.Changes
	case kRequest:
		rq := tm.GetContent().GetFullSyncRequest()
		if rq == nil {
			return nil, errors.New("not a full sync request")
		}
		heads, path = rq.Heads, rq.SnapshotPath
	case kResponse:
		rs := tm.GetContent().GetFullSyncResponse()
		if rs == nil {
			return nil, errors.New("not a full sync response")
		}
		heads, path, changes = rs.Heads, rs.SnapshotPath, rs.Changes
	}
	m.Heads = w.nameSet(heads)
	m.Path = w.nameSeq(path)
	ids := make([]string, 0, len(changes))
	for _, c := range changes {
		ids = append(ids, c.Id)
	}
	m.Changes = w.nameSet(ids)
	return m, nil
}

// ---------------------------------------------------------------------------------------------
// steps (one per spec action). Each returns the messages emitted during the step (also appended
// to w.net unless stated otherwise) and the error the real entry point returned.

type stepResult struct {
	Emitted []*msg
	Err     error
	NewId   string // AddContent: model name of the created change
}

func (w *world) begin() {
	w.emitted = nil
	w.sendViolations = nil
	w.pathViolations = nil
}

func (w *world) end(err error) stepResult {
	res := stepResult{Emitted: w.emitted, Err: err}
	w.net = append(w.net, w.emitted...)
	w.emitted = nil
	return res
}

func (w *world) addContent(r *replica, snapshot bool) stepResult {
	return w.addContentRanked(r, snapshot, "", "", false)
}

// addContentRanked creates the change so that its real id lies strictly between the real ids lo
// and hi ("" = unbounded) in lexical order: the payload is varied until the id of the prepared
// change (ObjectTree.PrepareChange, nothing is added) has the wanted rank ("mining"), then the very
// same content is added. Mined changes are unencrypted so that the bytes are deterministic.
func (w *world) addContentRanked(r *replica, snapshot bool, lo, hi string, mine bool) stepResult {
	w.begin()
	w.touch(r)
	size := 16
	if w.dataSize != nil {
		size = w.dataSize()
	}
	data := make([]byte, size)
	_, _ = rand.Read(data[:min(16, size)])
	content := objecttree.SignableChangeContent{
		Data:              data,
		Key:               w.pool.keys.SignKey,
		IsSnapshot:        snapshot,
		ShouldBeEncrypted: !mine,
		DataType:          "verif",
		Timestamp:         time.Now().Unix(),
	}
	r.tree.Lock()
	mined := ""
	if mine {
		for try := 0; try < 200000; try++ {
			_, _ = rand.Read(content.Data[:min(16, size)])
			raw, perr := r.tree.PrepareChange(content)
			if perr != nil {
				r.tree.Unlock()
				return w.end(perr)
			}
			if (lo == "" || raw.Id > lo) && (hi == "" || raw.Id < hi) {
				mined = raw.Id
				break
			}
		}
		if mined == "" {
			w.rankMisses++
		}
	}
	res, err := r.tree.AddContent(bg, content)
	r.tree.Unlock()
	if err == nil && mined != "" && (len(res.Added) != 1 || res.Added[0].Id != mined) {
		w.rankMisses++
	}
	sr := w.end(err)
	if err == nil && len(res.Added) == 1 {
		a := res.Added[0]
		sr.NewId = w.name(a.Id)
		w.universe[sr.NewId] = changeInfo{Prev: w.nameSet(a.PrevIds), Snap: w.name(a.SnapshotId), IsSnap: snapshot}
	}
	return sr
}

func (w *world) syncWithPeer(r *replica, p *replica) stepResult {
	w.begin()
	w.touch(r)
	err := r.tree.SyncWithPeer(bg, fakePeer{id: p.name})
	return w.end(err)
}

// fetchTree: a replica that does not hold the object builds it from peer p
// (BuildSyncTreeOrGetRemote -> new-tree request -> response stream -> validated tree -> broadcast).
func (w *world) fetchTree(r *replica, p *replica) stepResult {
	w.begin()
	w.touch(r)
	w.touch(p)
	ctx := peer.CtxWithPeerId(bg, p.name)
	t, err := synctree.BuildSyncTreeOrGetRemote(ctx, w.treeId, r.deps())
	if err == nil {
		r.tree = t
	}
	// the request and the responses of the synchronous exchange are consumed, not in flight
	var keep []*msg
	for _, m := range w.emitted {
		if m.Kind == kHeadUpdate || (m.Kind == kRequest && !(m.From == r.name && len(m.Heads) == 0)) {
			keep = append(keep, m)
		}
	}
	res := stepResult{Emitted: w.emitted, Err: err}
	w.net = append(w.net, keep...)
	w.emitted = nil
	return res
}

// handleRequest runs the real stream handler of dst on request m; the responses are returned
// (and recorded as emissions), the counter-request (if any) is recorded as an emission.
func (w *world) handleRequest(dst *replica, m *msg) ([]*msg, error) {
	sm := &spacesyncproto.ObjectSyncMessage{}
	if err := sm.UnmarshalVT(m.Bytes); err != nil {
		return nil, err
	}
	rq := objectmessages.NewByteRequest(m.From, sm.SpaceId, sm.ObjectId, sm.Payload)
	w.streams++
	stream := w.streams
	var resps []*msg
	send := func(resp proto.Message) error {
		osm, ok := resp.(*spacesyncproto.ObjectSyncMessage)
		if !ok {
			return fmt.Errorf("unexpected response type %T", resp)
		}
		b, err := osm.MarshalVT()
		if err != nil {
			return err
		}
		rm, err := w.project(kResponse, dst.name, m.From, b)
		if err != nil {
			return err
		}
		rm.Stream, rm.Idx = stream, len(resps)
		resps = append(resps, rm)
		w.emit(dst, rm)
		return nil
	}
	ctx := peer.CtxWithPeerId(bg, m.From)
	back, err := dst.tree.HandleStreamRequest(ctx, rq, nopUpdater{}, send)
	if back != nil {
		if e := w.emitRequest(dst, back); e != nil && err == nil {
			err = e
		}
	}
	return resps, err
}

// deliver hands message m to its destination's real handler. A panic inside the code under test
// is caught and recorded (a replica that crashes on a sync message does not converge).
func (w *world) deliver(m *msg) (sr stepResult) {
	defer func() {
		if r := recover(); r != nil {
			w.panics = append(w.panics, fmt.Sprintf("%s panicked in the handler of %s: %v", m.To, m.key(), r))
			sr = w.end(fmt.Errorf("panic: %v", r))
		}
	}()
	return w.deliver0(m, "")
}

// deliverCancelled hands m to the real handler with a context that is dead: mode "before" =
// cancelled before the call, "onwrite" = cancelled right before the handler's first storage write
// (a stream that is closed / a deadline that passes while the message is being applied).
func (w *world) deliverCancelled(m *msg, mode string) (sr stepResult) {
	defer func() {
		if r := recover(); r != nil {
			w.panics = append(w.panics, fmt.Sprintf("%s panicked in the handler of %s (context cancelled %s): %v", m.To, m.key(), mode, r))
			sr = w.end(fmt.Errorf("panic: %v", r))
		}
	}()
	return w.deliver0(m, mode)
}

func (w *world) deliver0(m *msg, cancelMode string) stepResult {
	w.begin()
	dst := w.byName[m.To]
	if dst == nil || dst.tree == nil {
		return w.end(errNoTree)
	}
	w.touch(dst)
	ctx := peer.CtxWithPeerId(bg, m.From)
	if cancelMode != "" {
		cctx, cancel := context.WithCancel(ctx)
		defer cancel()
		if cancelMode == "before" {
			cancel()
		} else {
			dst.onWrite = cancel
			defer func() { dst.onWrite = nil }()
		}
		ctx = cctx
	}
	var err error
	switch m.Kind {
	case kHeadUpdate:
		sm := &spacesyncproto.ObjectSyncMessage{}
		if err = sm.UnmarshalVT(m.Bytes); err != nil {
			break
		}
		hu := &objectmessages.HeadUpdate{}
		if err = hu.SetProtoMessage(sm); err != nil {
			break
		}
		var req syncdeps.Request
		req, err = dst.tree.HandleHeadUpdate(ctx, syncstatus.NewNoOpSyncStatus(), drpc.Message(hu))
		if err == nil && req != nil {
			// syncService.handleIncomingMessage queues the returned request
			err = w.emitRequest(dst, req)
		}
	case kRequest:
		_, err = w.handleRequest(dst, m)
	case kResponse:
		sm := &spacesyncproto.ObjectSyncMessage{}
		if err = sm.UnmarshalVT(m.Bytes); err != nil {
			break
		}
		resp := &response.Response{}
		if err = resp.SetProtoMessage(sm); err != nil {
			break
		}
		err = dst.tree.HandleResponse(ctx, m.From, w.treeId, resp)
	}
	return w.end(err)
}

var errNoTree = errors.New("destination does not hold the tree")

// removeFromNet removes one in-flight message (by identity).
func (w *world) removeFromNet(m *msg) bool {
	for i, x := range w.net {
		if x == m {
			w.net = append(w.net[:i], w.net[i+1:]...)
			return true
		}
	}
	return false
}

// findInNet returns an in-flight message with the given projection key.
func (w *world) findInNet(key string) *msg {
	for _, x := range w.net {
		if x.key() == key {
			return x
		}
	}
	return nil
}

type nopUpdater struct{}

func (nopUpdater) UpdateQueueSize(size uint64, msgType int, add bool) {}

type fakePeer struct {
	peer.Peer
	id string
}

func (f fakePeer) Id() string { return f.id }

// ---------------------------------------------------------------------------------------------
// observation and the property predicates of C01 on real observations

type obs struct {
	Present  bool     `json:"present"`
	Heads    []string `json:"heads"`    // ObjectTree.Heads() (memory)
	Stored   []string `json:"stored"`   // ids in Storage.GetAfterOrder("")
	Root     string   `json:"root"`     // in-memory root
	Attached []string `json:"attached"` // in-memory attached set
	DurHeads []string `json:"-"`        // HeadStorage entry
	DurSnap  string   `json:"-"`
	prev     map[string][]string
	snap     map[string]string
}

func (w *world) observe(r *replica) (*obs, error) {
	o := &obs{prev: map[string][]string{}, snap: map[string]string{}}
	if r.tree == nil {
		o.Heads, o.Stored, o.Attached = []string{}, []string{}, []string{}
		return o, nil
	}
	o.Present = true
	r.tree.Lock()
	defer r.tree.Unlock()
	o.Heads = w.nameSet(r.tree.Heads())
	o.Root = w.name(r.tree.Root().Id)
	o.Attached = []string{}
	err := r.tree.IterateRoot(nil, func(c *objecttree.Change) bool {
		o.Attached = append(o.Attached, w.name(c.Id))
		return true
	})
	if err != nil {
		return nil, err
	}
	sort.Strings(o.Attached)
	o.Stored = []string{}
	err = r.tree.Storage().GetAfterOrder(bg, "", func(ctx context.Context, sc objecttree.StorageChange) (bool, error) {
		n := w.name(sc.Id)
		o.Stored = append(o.Stored, n)
		o.prev[n] = w.nameSet(sc.PrevIds)
		if sc.SnapshotId != "" {
			o.snap[n] = w.name(sc.SnapshotId)
		}
		return true, nil
	})
	if err != nil {
		return nil, err
	}
	sort.Strings(o.Stored)
	e, err := r.slot.store.HeadStorage().GetEntry(bg, w.treeId)
	if err != nil {
		return nil, err
	}
	o.DurHeads = w.nameSet(e.Heads)
	o.DurSnap = w.name(e.CommonSnapshot)
	return o, nil
}

func contains(s []string, x string) bool {
	i := sort.SearchStrings(s, x)
	return i < len(s) && s[i] == x
}

func eqSet(a, b []string) bool {
	if len(a) != len(b) {
		return false
	}
	for i := range a {
		if a[i] != b[i] {
			return false
		}
	}
	return true
}

// checkClosure evaluates AncestorClosed on one replica's real observation. It returns a
// violation key + description, or "".
func checkClosure(r string, o *obs) (string, string) {
	if !o.Present {
		return "", ""
	}
	// storage: parents and snapshot base of every stored change are stored
	for _, c := range o.Stored {
		for _, p := range o.prev[c] {
			if !contains(o.Stored, p) {
				return "closure-storage-parent", fmt.Sprintf("%s stores %s without its parent %s (stored=%v)", r, c, p, o.Stored)
			}
		}
		if s, ok := o.snap[c]; ok && !contains(o.Stored, s) {
			return "closure-storage-snapshot", fmt.Sprintf("%s stores %s without its snapshot base %s (stored=%v)", r, c, s, o.Stored)
		}
	}
	// heads are exactly the maximal stored changes
	hasChild := map[string]bool{}
	for _, c := range o.Stored {
		for _, p := range o.prev[c] {
			hasChild[p] = true
		}
	}
	var max []string
	for _, c := range o.Stored {
		if !hasChild[c] {
			max = append(max, c)
		}
	}
	sort.Strings(max)
	if !eqSet(max, o.Heads) {
		return "heads-not-maximal", fmt.Sprintf("%s: Heads()=%v but the maximal stored changes are %v (stored=%v)", r, o.Heads, max, o.Stored)
	}
	if !eqSet(o.DurHeads, o.Heads) {
		return "heads-durable-differ", fmt.Sprintf("%s: head storage entry %v differs from Heads() %v", r, o.DurHeads, o.Heads)
	}
	// memory: attached is a sub-DAG of the stored set hanging from the root
	if !contains(o.Attached, o.Root) {
		return "memory-root-not-attached", fmt.Sprintf("%s: root %s is not attached (%v)", r, o.Root, o.Attached)
	}
	for _, c := range o.Attached {
		if !contains(o.Stored, c) {
			return "memory-attached-not-stored", fmt.Sprintf("%s: %s is attached in memory but not stored (stored=%v)", r, c, o.Stored)
		}
		if c == o.Root {
			continue
		}
		for _, p := range o.prev[c] {
			if !contains(o.Attached, p) {
				return "closure-memory-parent", fmt.Sprintf("%s: %s is attached without its parent %s (root=%s attached=%v)", r, c, p, o.Root, o.Attached)
			}
		}
		if s, ok := o.snap[c]; ok && !contains(o.Attached, s) {
			return "closure-memory-snapshot", fmt.Sprintf("%s: %s is attached without its snapshot base %s (root=%s attached=%v)", r, c, s, o.Root, o.Attached)
		}
	}
	for _, h := range o.Heads {
		if !contains(o.Attached, h) {
			return "memory-head-not-attached", fmt.Sprintf("%s: head %s is not attached (root=%s attached=%v)", r, h, o.Root, o.Attached)
		}
	}
	return "", ""
}

// checkConverged evaluates Converged on the observations of all replicas.
func checkConverged(os []*obs, names []string) (string, string) {
	var first *obs
	var fn string
	for i, o := range os {
		if !o.Present {
			continue
		}
		if first == nil {
			first, fn = o, names[i]
			continue
		}
		if !eqSet(first.Heads, o.Heads) {
			return "not-converged-heads", fmt.Sprintf("after drain + pairwise anti-entropy %s has heads %v but %s has %v", fn, first.Heads, names[i], o.Heads)
		}
		if !eqSet(first.Stored, o.Stored) {
			return "not-converged-stored", fmt.Sprintf("after drain + pairwise anti-entropy %s stores %v but %s stores %v", fn, first.Stored, names[i], o.Stored)
		}
	}
	return "", ""
}
