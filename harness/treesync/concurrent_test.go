package treesync

import (
	"fmt"
	"math/rand"
	"strings"
	"testing"

	"verifharness/vfutil"
)

// Concurrent edits with partial delivery, then anti-entropy only. Three replicas edit once each,
// concurrently; every subset of the six head updates is delivered (everything else - also what the
// deliveries themselves emit - is lost), then phase 2 runs. The family is closed under permuting
// (replica, change) pairs, so whatever the lexical order of the three real ids is, every shape of
// multi-head sets ({a,c} vs {b,c} sharing the largest / the smallest / the middle id, ...) occurs:
// code that compares head sets in an order-dependent way is exercised by construction, without
// choosing ids. Variants: one of the edits is a snapshot; a second round of edits on top.

type concurrentCase struct {
	Mask   int   `json:"mask"`   // bit k: k-th initial head update (in emission order) is delivered
	Snap   int   `json:"snap"`   // 0: no snapshot, i: the edit of replica i is a snapshot
	Second bool  `json:"second"` // a second round of concurrent edits (same mask) after the first
	Seed   int64 `json:"seed"`
}

func runConcurrent(pool *slotPool, c concurrentCase, rep *vfutil.Report) bool {
	rng := rand.New(rand.NewSource(c.Seed*7919 + int64(c.Mask)*31 + int64(c.Snap)))
	w, err := newWorld(pool, 3, nil)
	if err != nil {
		panic(err)
	}
	replay := func() any { return replayObj{Kind: "concurrent", Concurrent: &c} }
	rounds := 1
	if c.Second {
		rounds = 2
	}
	for round := 0; round < rounds; round++ {
		var initial []*msg
		for i, r := range w.reps {
			sr := w.addContent(r, c.Snap == i+1 && round == 0)
			if sr.Err != nil {
				panic(sr.Err)
			}
			initial = append(initial, sr.Emitted...)
		}
		what := fmt.Sprintf("concurrent edits, delivery mask %06b, round %d", c.Mask, round)
		if _, ok := checkAll(w, rep, what, replay); !ok {
			return false
		}
		for k, m := range initial {
			if c.Mask&(1<<k) == 0 {
				continue
			}
			w.removeFromNet(m)
			w.deliver(m)
			if _, ok := checkAll(w, rep, what+": deliver "+m.key(), replay); !ok {
				return false
			}
		}
		w.net = nil // everything else is lost
	}
	return finish(w, rng, rep, false, replay, nil)
}

func TestConcurrent(t *testing.T) {
	rep := vfutil.NewReport("C01")
	defer func() {
		if r := recover(); r != nil {
			rep.Save(false)
			panic(r)
		}
	}()
	dir := vfutil.Scratch("treesync-concurrent")
	pool, err := newSlotPool(dir)
	if err != nil {
		t.Fatal(err)
	}
	defer pool.close()
	seed := vfutil.Seed()
	var cases []concurrentCase
	for mask := 0; mask < 64; mask++ {
		cases = append(cases, concurrentCase{Mask: mask, Seed: seed})
	}
	if vfutil.Thorough() {
		for snap := 1; snap <= 3; snap++ {
			for mask := 0; mask < 64; mask++ {
				cases = append(cases, concurrentCase{Mask: mask, Snap: snap, Seed: seed})
			}
		}
		for mask := 0; mask < 64; mask++ {
			cases = append(cases, concurrentCase{Mask: mask, Second: true, Seed: seed})
		}
	} else {
		rng := rand.New(rand.NewSource(seed))
		for i := 0; i < 24; i++ {
			cases = append(cases, concurrentCase{Mask: rng.Intn(64), Snap: rng.Intn(4), Second: rng.Intn(2) == 0, Seed: seed})
		}
	}
	for _, c := range cases {
		runConcurrent(pool, c, rep)
		rep.Case(fmt.Sprintf("concurrent:%06b:s%d:%v", c.Mask, c.Snap, c.Second))
		rep.AddReplayed(1)
		if violationCount >= 4 {
			break
		}
	}
	rep.Sample(map[string]any{"concurrent": cases[len(cases)/3], "what": strings.TrimSpace("3 concurrent edits, subset of head updates delivered, rest lost, then anti-entropy")})
	rep.Save(true)
	if rep.NumViolations() > 0 {
		t.Fail()
	}
}
