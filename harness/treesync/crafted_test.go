package treesync

import (
	"fmt"
	"sort"
	"strings"
	"testing"
	"time"

	"github.com/anyproto/any-sync/commonspace/object/tree/objecttree"
	"github.com/anyproto/any-sync/commonspace/object/tree/treechangeproto"
	"github.com/anyproto/any-sync/commonspace/spacesyncproto"
	"github.com/anyproto/any-sync/util/crypto"

	"verifharness/vfutil"
)

// Crafted inputs (C01 quantifies over inputs as well): a correctly signed change, written by an
// account that may write, whose parents the receiver holds but whose snapshot base is not what an
// honest AddContent would cite (unknown id / a snapshot below the receiver's root / a plain
// change). Whatever the receiver does with it, it must never hold a change without its parents
// and its snapshot base - in storage and in memory (AncestorClosed). This is where the
// snapshot-base condition of Tree.canAttachOrRemove is load-bearing: honest histories never need it
// (spec: Dev_NoSnapshotCondition has the same state space).

type craftedCase struct {
	Base string   `json:"base"`
	Prev []string `json:"prev"`
	Snap string   `json:"snap"` // model name, or "unknown"
	Path []string `json:"path"`
}

// injectCrafted builds the change and puts a head update announcing it on the wire from -> to.
func (w *world) injectCrafted(from, to *replica, prev []string, snap string, path []string) (*msg, error) {
	realPrev := make([]string, 0, len(prev))
	for _, p := range prev {
		realPrev = append(realPrev, w.real[p])
	}
	sort.Strings(realPrev)
	realSnap, ok := w.real[snap]
	if !ok {
		// a well-formed id that no replica of this object knows: the id of another object
		realSnap = w.pool.payload.SpaceSettingsWithId.Id
	}
	cb := objecttree.NewChangeBuilder(crypto.NewKeyStorage(), w.rootRaw)
	to.slot.acl.RLock()
	aclHead := to.slot.acl.Head().Id
	to.slot.acl.RUnlock()
	_, raw, err := cb.Build(objecttree.BuilderContent{
		TreeHeadIds:    realPrev,
		AclHeadId:      aclHead,
		SnapshotBaseId: realSnap,
		Unencrypted:    true,
		PrivKey:        w.pool.keys.SignKey,
		Content:        []byte("crafted"),
		Timestamp:      time.Now().Unix(),
		DataType:       "verif",
	})
	if err != nil {
		return nil, err
	}
	realPath := make([]string, 0, len(path))
	for _, p := range path {
		realPath = append(realPath, w.real[p])
	}
	tm := treechangeproto.WrapHeadUpdate(&treechangeproto.TreeHeadUpdate{
		Heads:        []string{raw.Id},
		Changes:      []*treechangeproto.RawTreeChangeWithId{raw},
		SnapshotPath: realPath,
	}, w.rootRaw)
	payload, err := tm.MarshalVT()
	if err != nil {
		return nil, err
	}
	sm := &spacesyncproto.ObjectSyncMessage{SpaceId: w.pool.spaceId, Payload: payload, ObjectId: w.treeId}
	b, err := sm.MarshalVT()
	if err != nil {
		return nil, err
	}
	m, err := w.project(kHeadUpdate, from.name, to.name, b)
	if err != nil {
		return nil, err
	}
	w.universe[w.name(raw.Id)] = changeInfo{Prev: prev, Snap: snap}
	w.net = append(w.net, m)
	return m, nil
}

// honest base histories; the crafted change is sent to r2
func craftedBase(pool *slotPool, base string) (*world, error) {
	w, err := newWorld(pool, 2, nil)
	if err != nil {
		return nil, err
	}
	r1, r2 := w.reps[0], w.reps[1]
	flush := func() {
		for len(w.net) > 0 {
			m := w.net[0]
			w.removeFromNet(m)
			w.deliver(m)
		}
	}
	switch base {
	case "plain": // c1 - c2, root c0 everywhere
		w.addContent(r1, false)
		w.addContent(r1, false)
		flush()
	case "snapshot": // c1 - s2 - c3: root s2 everywhere
		w.addContent(r1, false)
		w.addContent(r1, true)
		w.addContent(r1, false)
		flush()
	case "concurrent": // c1 (r1) || s2 (r2): root c0, heads {c1, s2}
		w.addContent(r1, false)
		w.addContent(r2, true)
		flush()
	case "deep": // c1 - s2 - c3 - s4 - c5: root s4
		w.addContent(r1, false)
		w.addContent(r1, true)
		w.addContent(r1, false)
		w.addContent(r1, true)
		w.addContent(r1, false)
		flush()
	default:
		return nil, fmt.Errorf("unknown base %s", base)
	}
	return w, nil
}

func runCrafted(pool *slotPool, c craftedCase, rep *vfutil.Report) {
	w, err := craftedBase(pool, c.Base)
	if err != nil {
		panic(err)
	}
	r1, r2 := w.reps[0], w.reps[1]
	replay := func() any { return replayObj{Kind: "crafted", Crafted: &c} }
	m, err := w.injectCrafted(r1, r2, c.Prev, c.Snap, c.Path)
	if err != nil {
		panic(err)
	}
	what := fmt.Sprintf("crafted change prev=%v snapshot base=%s announced with path %v on base %q", c.Prev, c.Snap, c.Path, c.Base)
	w.removeFromNet(m)
	w.deliver(m)
	if _, ok := checkAll(w, rep, what, replay); !ok {
		return
	}
	// whatever r2 emitted goes on: nobody may end up holding a change without its ancestors
	for i := 0; len(w.net) > 0 && i < 200; i++ {
		x := w.net[0]
		w.removeFromNet(x)
		w.deliver(x)
		if _, ok := checkAll(w, rep, what+"; then deliver "+x.key(), replay); !ok {
			return
		}
	}
}

func craftedCases(pool *slotPool) []craftedCase {
	var res []craftedCase
	for _, base := range []string{"plain", "snapshot", "concurrent", "deep"} {
		w, err := craftedBase(pool, base)
		if err != nil {
			panic(err)
		}
		o, err := w.observe(w.reps[1])
		if err != nil {
			panic(err)
		}
		// parents: the heads, or any single stored change
		prevs := [][]string{o.Heads}
		for _, s := range o.Stored {
			if len(o.Heads) != 1 || o.Heads[0] != s {
				prevs = append(prevs, []string{s})
			}
		}
		var ownPath []string
		for s := o.Root; ; s = o.snap[s] {
			ownPath = append(ownPath, s)
			if s == "c0" {
				break
			}
		}
		paths := [][]string{ownPath}
		if len(ownPath) > 1 {
			paths = append(paths, []string{"c0"})
		}
		for _, prev := range prevs {
			for _, snap := range append(append([]string{}, o.Stored...), "unknown") {
				if eqSet(prev, o.Heads) && snap == o.Root {
					continue // what an honest AddContent produces
				}
				for _, path := range paths {
					res = append(res, craftedCase{Base: base, Prev: prev, Snap: snap, Path: path})
				}
			}
		}
	}
	return res
}

// TestCrafted enumerates the crafted-snapshot-base inputs on four honest base histories.
func TestCrafted(t *testing.T) {
	rep := vfutil.NewReport("C01")
	defer func() {
		if r := recover(); r != nil {
			rep.Save(false)
			panic(r)
		}
	}()
	dir := vfutil.Scratch("treesync-crafted")
	pool, err := newSlotPool(dir)
	if err != nil {
		t.Fatal(err)
	}
	defer pool.close()
	cases := craftedCases(pool)
	for _, c := range cases {
		runCrafted(pool, c, rep)
		rep.Case("crafted:" + c.Base + ":" + strings.Join(c.Prev, ",") + ":" + c.Snap + ":" + strings.Join(c.Path, ","))
		rep.AddReplayed(1)
		if violationCount >= 8 {
			break
		}
	}
	if len(cases) > 0 {
		rep.Sample(map[string]any{"crafted": cases[len(cases)/2]})
	}
	rep.Save(true)
	if rep.NumViolations() > 0 {
		t.Fail()
	}
}
