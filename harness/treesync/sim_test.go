package treesync

import (
	"fmt"
	"math/rand"
	"os"
	"sort"
	"testing"

	"verifharness/vfutil"
)

// simParams identifies one run of the seeded random simulator (it is also the replay object of
// a violation found by it).
type simParams struct {
	Seed     int64 `json:"seed"`
	Run      int   `json:"run"`
	N        int   `json:"n"`        // replicas
	Edits    int   `json:"edits"`    // local AddContent calls in phase 1
	Lossless bool  `json:"lossless"` // no drop / truncation: must converge without anti-entropy
	Big      bool  `json:"big"`      // large payloads: response streams have several batches
	Absent   bool  `json:"absent"`   // the last replica starts without the object and fetches it later
	DropPct  int   `json:"dropPct"`  // per-step probability (percent) of losing a message (0 = default 8)
	SnapPct  int   `json:"snapPct"`  // share of snapshots among the edits (0 = default 20)
	// Partition: r1 receives nothing during phase 1 (every message to it is lost) while the others go
	// on (with quiet periods and snapshots) - it has to catch up across snapshots in phase 2
	Partition bool `json:"partition"`
	// Concurrent: phase 1 consists of rounds in which every replica edits once, concurrently; each of
	// the resulting head updates is delivered with probability 0.4, everything else (also what the
	// deliveries emit) is lost - multi-head sets that only anti-entropy can repair
	Concurrent bool `json:"concurrent"`
	// LongLived > 0: r1 makes one edit and is then cut off (everything to and from it is lost) while
	// r2 makes that many snapshot edits in a row (a long snapshot chain, r1 far behind); then phase 2
	LongLived int `json:"longLived"`
}

// one line of the recorded trace (spec/treesync/TreeSyncTrace.tla)
type batch struct {
	Changes []string `json:"changes"`
	Heads   []string `json:"heads"`
}
type tev struct {
	Ev   string      `json:"ev"`
	Run  int         `json:"run"`
	N    int         `json:"n,omitempty"`
	Abs  []string    `json:"absent"`
	R    string      `json:"r,omitempty"`
	P    string      `json:"p,omitempty"`
	Snap bool        `json:"snap"`
	Id   string      `json:"id,omitempty"`
	Mode string      `json:"mode,omitempty"`
	Ch   *changeInfo `json:"ch,omitempty"`
	M    *msg        `json:"m,omitempty"`
	Bs   []batch     `json:"bs"`
	Emit []*msg      `json:"emit"`
	St   *obs        `json:"st,omitempty"`
	Err  string      `json:"err,omitempty"`
	Sim  *simParams  `json:"sim,omitempty"` // Reset: parameters of the run (replay object)
}

func deliverEv(kind string) string {
	switch kind {
	case kHeadUpdate:
		return "DeliverHeadUpdate"
	case kRequest:
		return "DeliverRequest"
	default:
		return "DeliverResponse"
	}
}

func batchesOf(ms []*msg) []batch {
	var rs []*msg
	for _, m := range ms {
		if m.Kind == kResponse {
			rs = append(rs, m)
		}
	}
	sort.Slice(rs, func(i, j int) bool { return rs[i].Idx < rs[j].Idx })
	res := []batch{}
	for _, m := range rs {
		if len(m.Changes) == 0 {
			continue // the empty response of the equal/superset-heads branch is not a batch
		}
		res = append(res, batch{Changes: m.Changes, Heads: m.Heads})
	}
	return res
}

func nonNil(ms []*msg) []*msg {
	if ms == nil {
		return []*msg{}
	}
	return ms
}

// runSim executes one simulator run; returns false if a violation was reported.
func runSim(pool *slotPool, p simParams, rep *vfutil.Report, tw *vfutil.TraceWriter) bool {
	rng := rand.New(rand.NewSource(p.Seed*1000003 + int64(p.Run)))
	var present []bool
	absent := []string{}
	if p.Absent {
		present = make([]bool, p.N)
		for i := range present {
			present[i] = i < p.N-1
		}
		absent = append(absent, fmt.Sprintf("r%d", p.N))
	}
	w, err := newWorld(pool, p.N, present)
	if err != nil {
		panic(err)
	}
	if p.Big {
		w.dataSize = func() int { return 300*1024 + rng.Intn(200*1024) }
	}
	replay := func() any { return replayObj{Kind: "sim", Sim: &p} }
	emit := func(e tev) {
		if tw == nil {
			return
		}
		e.Run = p.Run
		if e.Bs == nil {
			e.Bs = []batch{}
		}
		e.Emit = nonNil(e.Emit)
		if e.Abs == nil {
			e.Abs = []string{}
		}
		tw.Emit(e)
	}
	emit(tev{Ev: "Reset", N: p.N, Sim: &p, Abs: absent})
	stateOf := func(r *replica) *obs {
		o, err := w.observeCached(r)
		if err != nil {
			panic(err)
		}
		return o
	}
	handlerErrs := 0
	holders := func() []*replica {
		var res []*replica
		for _, r := range w.reps {
			if r.tree != nil {
				res = append(res, r)
			}
		}
		return res
	}
	// the replica without the object fetches it from a random holder
	fetch := func() bool {
		for _, r := range w.reps {
			if r.tree == nil {
				hs := holders()
				q := hs[rng.Intn(len(hs))]
				sr := w.fetchTree(r, q)
				if sr.Err != nil {
					panic(fmt.Sprintf("FetchTree: %v", sr.Err))
				}
				var hu []*msg
				for _, m := range sr.Emitted {
					if m.Kind == kHeadUpdate {
						hu = append(hu, m)
					}
				}
				emit(tev{Ev: "FetchTree", R: r.name, P: q.name, Emit: hu, St: stateOf(r)})
				return true
			}
		}
		return false
	}
	logDeliver := func(m *msg, sr stepResult) {
		if sr.Err == errNoTree {
			emit(tev{Ev: "DeliverNoTree", M: m})
			return
		}
		e := tev{Ev: deliverEv(m.Kind), M: m, Emit: sr.Emitted, St: stateOf(w.byName[m.To])}
		if m.Kind == kRequest {
			e.Bs = batchesOf(sr.Emitted)
		}
		if sr.Err != nil {
			e.Err = sr.Err.Error()
			handlerErrs++
		}
		emit(e)
	}
	edits := p.Edits
	steps := 0
	dropPct, snapPct := p.DropPct, p.SnapPct
	if dropPct == 0 {
		dropPct = 8
	}
	if snapPct == 0 {
		snapPct = 20
	}
	if p.LongLived > 0 {
		dropAll := func() {
			for _, m := range append([]*msg{}, w.net...) {
				if m.To == "r1" || m.From == "r1" {
					w.removeFromNet(m)
					emit(tev{Ev: "Drop", M: m})
				}
			}
		}
		add := func(r *replica, snap bool) bool {
			sr := w.addContent(r, snap)
			if sr.Err != nil {
				panic(fmt.Sprintf("AddContent: %v", sr.Err))
			}
			ci := w.universe[sr.NewId]
			emit(tev{Ev: "AddContent", R: r.name, Snap: snap, Id: sr.NewId, Ch: &ci, Emit: sr.Emitted, St: stateOf(r)})
			_, ok := checkAll(w, rep, "long-lived tree: AddContent "+r.name, replay)
			rep.AddSteps(1)
			return ok
		}
		if !add(w.reps[0], false) {
			return false
		}
		dropAll()
		for i := 0; i < p.LongLived; i++ {
			if !add(w.reps[1], true) {
				return false
			}
			dropAll()
			// the others follow (sometimes late)
			for len(w.net) > 0 && rng.Intn(3) != 0 {
				m := w.net[rng.Intn(len(w.net))]
				w.removeFromNet(m)
				sr := w.deliver(m)
				logDeliver(m, sr)
				dropAll()
				if _, ok := checkAll(w, rep, "long-lived tree: deliver "+m.key(), replay); !ok {
					return false
				}
				rep.AddSteps(1)
			}
		}
		edits = 0
	}
	if p.Concurrent {
		for round := 0; round < 2+rng.Intn(3); round++ {
			for _, r := range holders() {
				snap := rng.Intn(100) < snapPct/2
				sr := w.addContent(r, snap)
				if sr.Err != nil {
					panic(fmt.Sprintf("AddContent: %v", sr.Err))
				}
				ci := w.universe[sr.NewId]
				emit(tev{Ev: "AddContent", R: r.name, Snap: snap, Id: sr.NewId, Ch: &ci, Emit: sr.Emitted, St: stateOf(r)})
			}
			initial := append([]*msg{}, w.net...)
			for _, m := range initial {
				w.removeFromNet(m)
				if rng.Intn(100) < 40 {
					sr := w.deliver(m)
					logDeliver(m, sr)
				} else {
					emit(tev{Ev: "Drop", M: m})
				}
				if _, ok := checkAll(w, rep, "concurrent round: "+m.key(), replay); !ok {
					return false
				}
				rep.AddSteps(1)
			}
			for _, m := range append([]*msg{}, w.net...) {
				w.removeFromNet(m)
				emit(tev{Ev: "Drop", M: m})
			}
		}
		edits = 0
	}
	for edits > 0 || (len(w.net) > 0 && rng.Intn(4) != 0) {
		steps++
		if steps > 40*p.Edits+200 {
			break
		}
		x := rng.Intn(100)
		what := ""
		if p.Partition {
			for _, m := range append([]*msg{}, w.net...) {
				if m.To == "r1" {
					w.removeFromNet(m)
					emit(tev{Ev: "Drop", M: m})
				}
			}
		}
		if !p.Lossless && len(w.net) > 0 && dropPct > 8 && rng.Intn(100) < dropPct-8 {
			// heavy-loss profile: additional losses
			m := w.net[rng.Intn(len(w.net))]
			w.removeFromNet(m)
			emit(tev{Ev: "Drop", M: m})
			continue
		}
		switch {
		case p.Absent && x >= 97 && fetch():
			what = "FetchTree"
		case ((x >= 94 && x < 97) || (p.Partition && x >= 86 && x < 94)) && len(w.net) > 0 && len(w.net) < 40:
			// a quiet period: everything in flight is delivered, so that the next edits sit on a
			// single head and snapshots move the roots forward
			for i := 0; len(w.net) > 0 && i < 150; i++ {
				m := w.net[rng.Intn(len(w.net))]
				w.removeFromNet(m)
				sr := w.deliver(m)
				logDeliver(m, sr)
				if _, ok := checkAll(w, rep, "quiet period: deliver "+m.key(), replay); !ok {
					return false
				}
				rep.AddSteps(1)
			}
			what = "quiet period"
		case edits > 0 && (x < 30 || len(w.net) == 0):
			hs := holders()
			if p.Partition {
				hs = hs[1:] // the isolated replica is passive: the others' roots move past what it holds
			}
			r := hs[rng.Intn(len(hs))]
			snap := rng.Intn(100) < snapPct
			sr := w.addContent(r, snap)
			if sr.Err != nil {
				panic(fmt.Sprintf("AddContent: %v", sr.Err))
			}
			edits--
			ci := w.universe[sr.NewId]
			emit(tev{Ev: "AddContent", R: r.name, Snap: snap, Id: sr.NewId, Ch: &ci, Emit: sr.Emitted, St: stateOf(r)})
			what = "AddContent " + r.name
		case len(w.net) == 0:
			continue
		case x >= 64 && x < 70 && !p.Lossless:
			// fate: delivered under a context that is (or becomes, at the first storage write) dead
			var cand []*msg
			for _, m := range w.net {
				if (m.Kind == kHeadUpdate || m.Kind == kResponse) && len(m.Changes) > 0 && w.byName[m.To].tree != nil {
					cand = append(cand, m)
				}
			}
			if len(cand) == 0 {
				continue
			}
			m := cand[rng.Intn(len(cand))]
			mode := []string{"before", "onwrite"}[rng.Intn(2)]
			w.removeFromNet(m)
			dst := w.byName[m.To]
			sr := w.deliverCancelled(m, mode)
			emit(tev{Ev: "DeliverCancelled", M: m, Mode: mode, Emit: sr.Emitted, St: stateOf(dst)})
			what = "deliver with cancelled context (" + mode + ") " + m.key()
			if _, ok := checkAll(w, rep, what, replay); !ok {
				return false
			}
			if edits > 0 && rng.Intn(10) < 6 {
				// ... and the replica goes on editing on top of whatever the failed call left behind
				snap := rng.Intn(100) < snapPct
				ar := w.addContent(dst, snap)
				if ar.Err != nil {
					panic(fmt.Sprintf("AddContent: %v", ar.Err))
				}
				edits--
				ci := w.universe[ar.NewId]
				emit(tev{Ev: "AddContent", R: dst.name, Snap: snap, Id: ar.NewId, Ch: &ci, Emit: ar.Emitted, St: stateOf(dst)})
				what += "; then AddContent " + dst.name
			}
		case x < 70:
			m := w.net[rng.Intn(len(w.net))]
			w.removeFromNet(m)
			sr := w.deliver(m)
			logDeliver(m, sr)
			what = "deliver " + m.key()
		case x < 78 && !p.Lossless:
			m := w.net[rng.Intn(len(w.net))]
			w.removeFromNet(m)
			emit(tev{Ev: "Drop", M: m})
			what = "drop"
		case x < 82 && !p.Lossless:
			// a response stream breaks: this batch and all later ones of the same stream are lost
			var cand []*msg
			for _, m := range w.net {
				if m.Kind == kResponse {
					cand = append(cand, m)
				}
			}
			if len(cand) == 0 {
				continue
			}
			m := cand[rng.Intn(len(cand))]
			for _, o := range append([]*msg{}, w.net...) {
				if o.Kind == kResponse && o.Stream == m.Stream && o.Idx >= m.Idx {
					w.removeFromNet(o)
					emit(tev{Ev: "Drop", M: o})
				}
			}
			what = "truncate"
		case x < 90:
			m := w.net[rng.Intn(len(w.net))]
			w.net = append(w.net, m.clone())
			emit(tev{Ev: "Dup", M: m})
			what = "dup"
		default:
			i, j := rng.Intn(p.N), rng.Intn(p.N)
			if i == j || w.reps[i].tree == nil || w.reps[j].tree == nil {
				continue
			}
			sr := w.syncWithPeer(w.reps[i], w.reps[j])
			emit(tev{Ev: "SyncWithPeer", R: w.reps[i].name, P: w.reps[j].name, Emit: sr.Emitted, St: stateOf(w.reps[i])})
			what = "SyncWithPeer"
		}
		if _, ok := checkAll(w, rep, what, replay); !ok {
			return false
		}
		rep.AddSteps(1)
	}
	emit(tev{Ev: "EnterPhase2"})
	if os.Getenv("VERIF_DEBUG") != "" {
		for _, r := range w.reps {
			o := stateOf(r)
			fmt.Fprintf(os.Stderr, "run %d %+v end of phase 1: %s root=%s heads=%v stored=%d attached=%d inflight=%d\n", p.Run, p, r.name, o.Root, o.Heads, len(o.Stored), len(o.Attached), len(w.net))
		}
	}
	if fetch() {
		if _, ok := checkAll(w, rep, "FetchTree", replay); !ok {
			return false
		}
	}
	ok := finish(w, rng, rep, p.Lossless && !p.Absent, replay, func(ev string, m *msg, sr stepResult, r, q *replica) {
		rep.AddSteps(1)
		if ev == "deliver" {
			logDeliver(m, sr)
		} else {
			emit(tev{Ev: "SyncWithPeer", R: r.name, P: q.name, Emit: sr.Emitted, St: stateOf(r)})
		}
	})
	rep.AddExtra("handler_errors", handlerErrs)
	return ok
}

// TestRecord: the seeded random simulator on 3-5 real replicas; every step is evaluated by the
// Go oracles and written as a trace line for TreeSyncTrace.tla (one file per replica count).
func TestRecord(t *testing.T) {
	rep := vfutil.NewReport("C01")
	defer func() {
		if r := recover(); r != nil {
			rep.Save(false)
			panic(r)
		}
	}()
	dir := vfutil.Scratch("treesync-record")
	pool, err := newSlotPool(dir)
	if err != nil {
		t.Fatal(err)
	}
	defer pool.close()
	runs := vfutil.EnvInt("VERIF_RUNS", 30)
	out := os.Getenv("VERIF_TRACE_OUT") // prefix; files <prefix>-n<k>.ndjson
	maxN := vfutil.EnvInt("VERIF_MAX_N", 5)
	traceRuns := vfutil.EnvInt("VERIF_TRACE_RUNS", runs)
	writers := map[int]*vfutil.TraceWriter{}
	seed := vfutil.Seed()
	rng := rand.New(rand.NewSource(seed))
	events := 0
	bad := 0
	for run := 0; run < runs; run++ {
		// profiles by run number (the first six - the quick tier - cover every special profile once)
		p := simParams{Seed: seed, Run: run, N: 3 + rng.Intn(maxN-2), Edits: 10 + rng.Intn(16)}
		switch run % 10 {
		case 0: // heavy loss, many snapshots, few replicas: replicas fall behind snapshots
			p.N, p.DropPct, p.SnapPct = 3, 30, 40
		case 1, 7:
			p.Lossless = true
		case 2:
			p.Absent = true
		case 3:
			p.Concurrent, p.N = true, min(3+rng.Intn(2), maxN)
		case 4: // long-lived tree, stale replica
			p.LongLived, p.N = []int{20, 40, 5}[(run/10)%3], 3
		case 5:
			p.Big, p.Edits, p.N = true, 6+rng.Intn(5), 3
		case 6:
			p.Partition, p.SnapPct = true, 35
		}
		var tw *vfutil.TraceWriter
		if out != "" && run < traceRuns {
			tw = writers[p.N]
			if tw == nil {
				tw = vfutil.NewTraceWriter(fmt.Sprintf("%s-n%d.ndjson", out, p.N))
				writers[p.N] = tw
			}
		}
		ok := runSim(pool, p, rep, tw)
		if !ok {
			bad++
		}
		rep.Case(fmt.Sprintf("n%d-e%d-l%v-b%v-a%v-p%v-d%d", p.N, p.Edits, p.Lossless, p.Big, p.Absent, p.Partition || p.Concurrent || p.LongLived > 0, p.DropPct))
		rep.AddReplayed(1)
		if run < 2 {
			rep.Sample(map[string]any{"sim": p, "ok": ok})
		}
		if bad >= 2 {
			break
		}
	}
	for n, tw := range writers {
		events += tw.Len()
		rep.SetExtra(fmt.Sprintf("trace_events_n%d", n), tw.Len())
		tw.Close()
	}
	rep.SetExtra("trace_events", events)
	rep.Save(true)
	if rep.NumViolations() > 0 {
		t.Fail()
	}
}
