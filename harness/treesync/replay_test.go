package treesync

import (
	"encoding/json"
	"fmt"
	"math/rand"
	"os"
	"sort"
	"strings"
	"testing"

	"go.uber.org/zap"

	"github.com/anyproto/any-sync/app/logger"

	"verifharness/vfutil"
)

func TestMain(m *testing.M) {
	logger.SetDefault(zap.NewNop())
	logger.SetNamedLevels(nil)
	os.Exit(m.Run())
}

// ---------------------------------------------------------------------------------------------
// behaviours written by TLC (spec/treesync/TreeSyncGen.tla)

type jmsg struct {
	K       string   `json:"k"`
	From    string   `json:"from"`
	To      string   `json:"to"`
	Heads   []string `json:"heads"`
	Changes []string `json:"changes"`
	Path    []string `json:"path"`
}

func (j *jmsg) key() string {
	h := append([]string{}, j.Heads...)
	c := append([]string{}, j.Changes...)
	sort.Strings(h)
	sort.Strings(c)
	m := msg{Kind: j.K, From: j.From, To: j.To, Heads: h, Changes: c, Path: j.Path}
	return m.key()
}

type jlast struct {
	Act  string `json:"act"`
	R    string `json:"r"`
	P    string `json:"p"`
	Snap bool   `json:"snap"`
	Id   string `json:"id"`
	Mode string `json:"mode"`
	M    *jmsg  `json:"m"`
	Emit []jmsg `json:"emit"`
}

type jobs struct {
	Heads    []string `json:"heads"`
	Stored   []string `json:"stored"`
	Root     string   `json:"root"`
	Attached []string `json:"attached"`
}

type jstep struct {
	Last jlast           `json:"last"`
	St   map[string]jobs `json:"st"`
	Rank []string        `json:"rank"` // all ids in ascending lexical order after the step
}

type behaviour struct {
	Spec      string   `json:"spec"`
	Replicas  []string `json:"replicas"`
	Absent    []string `json:"absent,omitempty"`
	Steps     []jstep  `json:"steps"`
	Quiescent bool     `json:"quiescent"`
	Mine      bool     `json:"mine,omitempty"` // realise the id order of the behaviour by mining real ids
	Name      string   `json:"name,omitempty"`
}

type replayObj struct {
	Kind       string          `json:"kind"` // "behaviour" | "sim" | "crafted"
	Behaviour  *behaviour      `json:"behaviour,omitempty"`
	Sim        *simParams      `json:"sim,omitempty"`
	Crafted    *craftedCase    `json:"crafted,omitempty"`
	Concurrent *concurrentCase `json:"concurrent,omitempty"`
}

// violationCount counts every reported violation (the report keeps one per key)
var violationCount int

func violate(rep *vfutil.Report, key, desc string, replay any) {
	violationCount++
	rep.Violate(key, desc, replay)
}

func sorted(s []string) []string {
	c := append([]string{}, s...)
	sort.Strings(c)
	return c
}

func emitKeys(ms []*msg) []string {
	res := make([]string, 0, len(ms))
	for _, m := range ms {
		res = append(res, m.key())
	}
	sort.Strings(res)
	return res
}

// checkAll evaluates the per-step property predicates (closure, heads maximal, advertised held)
// on every replica; the first failing predicate is reported.
func checkAll(w *world, rep *vfutil.Report, what string, replay func() any) ([]*obs, bool) {
	ok := true
	if len(w.sendViolations) > 0 {
		violate(rep, "advertise-not-held", w.sendViolations[0]+" ["+what+"]", replay())
		ok = false
	}
	if len(w.pathViolations) > 0 {
		violate(rep, "advertise-path-not-current", w.pathViolations[0]+" ["+what+"]", replay())
		ok = false
	}
	if len(w.panics) > 0 {
		violate(rep, "handler-panic", w.panics[0]+" ["+what+"]", replay())
		w.panics = nil
		return nil, false
	}
	os := make([]*obs, len(w.reps))
	for i, r := range w.reps {
		o, err := w.observeCached(r)
		if err != nil {
			panic(fmt.Sprintf("observe %s: %v", r.name, err))
		}
		os[i] = o
		if k, d := checkClosure(r.name, o); k != "" {
			violate(rep, k, d+" ["+what+"]", replay())
			ok = false
		}
	}
	return os, ok
}

func repNames(w *world) []string {
	res := make([]string, len(w.reps))
	for i, r := range w.reps {
		res[i] = r.name
	}
	return res
}

// finish drives a world to quiescence the way phase 2 of the spec does: reliable delivery of
// everything in flight (random order), then pairwise SyncWithPeer while two replicas differ.
// It evaluates the per-step predicates after every step and Converged at the end.
// lossless: no message was lost so far - then the replicas must already agree when the
// network has drained, before any anti-entropy exchange (the follow-up full-sync requests of
// HandleHeadUpdate exist for exactly that).
func finish(w *world, rng *rand.Rand, rep *vfutil.Report, lossless bool, replay func() any, log func(ev string, m *msg, sr stepResult, r, p *replica)) bool {
	steps := 0
	// generous bound (measured: a run of 5 replicas / 25 changes needs a few hundred deliveries in
	// phase 2); a sync that spins or storms grows without bound, so any finite limit catches it
	limit := 6000 + 20*len(w.net)
	defer func() {
		if cur, _ := rep.Extra["max_phase2_deliveries"].(int); steps > cur {
			rep.SetExtra("max_phase2_deliveries", steps)
		}
	}()
	drain := func() bool {
		for len(w.net) > 0 {
			steps++
			if steps > limit || len(w.net) > 8000 {
				violate(rep, "sync-does-not-terminate", fmt.Sprintf("reliable delivery did not drain the network within %d deliveries (%d in flight)", steps-1, len(w.net)), replay())
				return false
			}
			m := w.net[rng.Intn(len(w.net))]
			w.removeFromNet(m)
			sr := w.deliver(m)
			if log != nil {
				log("deliver", m, sr, nil, nil)
			}
			if _, ok := checkAll(w, rep, "finish: deliver "+m.key(), replay); !ok {
				return false
			}
		}
		return true
	}
	if !drain() {
		return false
	}
	if lossless {
		os, _ := checkAll(w, rep, "finish", replay)
		if k, d := checkConverged(os, repNames(w)); k != "" {
			violate(rep, k+"-lossless", "no message was lost, the network has drained, no anti-entropy needed: "+d, replay())
			return false
		}
	}
	// pairwise anti-entropy in isolation: nothing is in flight; for a pair that differs run
	// SyncWithPeer and deliver only the traffic between the two (everything addressed to or coming
	// from third replicas is withheld). When that traffic has died out the two must hold the same
	// heads and changes - a third replica must not be needed to repair a pair ("every pair has
	// completed an anti-entropy exchange").
	pairDrain := func(a, b *replica) bool {
		for {
			var cand []*msg
			for _, m := range w.net {
				if (m.From == a.name && m.To == b.name) || (m.From == b.name && m.To == a.name) {
					cand = append(cand, m)
				}
			}
			if len(cand) == 0 {
				return true
			}
			steps++
			if steps > limit || len(w.net) > 8000 {
				violate(rep, "sync-does-not-terminate", fmt.Sprintf("the exchange between %s and %s did not die out within %d deliveries (%d in flight)", a.name, b.name, steps-1, len(w.net)), replay())
				return false
			}
			m := cand[rng.Intn(len(cand))]
			w.removeFromNet(m)
			sr := w.deliver(m)
			if log != nil {
				log("deliver", m, sr, nil, nil)
			}
			if _, ok := checkAll(w, rep, "finish: pairwise "+m.key(), replay); !ok {
				return false
			}
		}
	}
	for round := 0; round < 2*len(w.reps)*len(w.reps); round++ {
		os, ok := checkAll(w, rep, "finish", replay)
		if !ok {
			return false
		}
		var pairs [][2]int
		for i := range w.reps {
			for j := range w.reps {
				if i != j && os[i].Present && os[j].Present && !eqSet(os[i].Heads, os[j].Heads) {
					pairs = append(pairs, [2]int{i, j})
				}
			}
		}
		if len(pairs) == 0 {
			break
		}
		pr := pairs[rng.Intn(len(pairs))]
		a, b := w.reps[pr[0]], w.reps[pr[1]]
		sr := w.syncWithPeer(a, b)
		if log != nil {
			log("SyncWithPeer", nil, sr, a, b)
		}
		if !pairDrain(a, b) {
			return false
		}
		os, ok = checkAll(w, rep, "finish: pairwise", replay)
		if !ok {
			return false
		}
		if k, d := checkConverged([]*obs{os[pr[0]], os[pr[1]]}, []string{a.name, b.name}); k != "" {
			violate(rep, "pair-"+k, fmt.Sprintf("SyncWithPeer(%s, %s) with reliable delivery between the two (nothing else delivered) has died out: ", a.name, b.name)+d, replay())
			return false
		}
		if !drain() {
			return false
		}
	}
	for round := 0; round < 6*len(w.reps)*len(w.reps); round++ {
		os, ok := checkAll(w, rep, "finish", replay)
		if !ok {
			return false
		}
		// pick a pair that differs
		var pairs [][2]int
		for i := range w.reps {
			for j := range w.reps {
				if i != j && os[i].Present && os[j].Present && !eqSet(os[i].Heads, os[j].Heads) {
					pairs = append(pairs, [2]int{i, j})
				}
			}
		}
		if len(pairs) == 0 {
			if k, d := checkConverged(os, repNames(w)); k != "" {
				violate(rep, k, d, replay())
				return false
			}
			return true
		}
		pr := pairs[rng.Intn(len(pairs))]
		sr := w.syncWithPeer(w.reps[pr[0]], w.reps[pr[1]])
		if log != nil {
			log("SyncWithPeer", nil, sr, w.reps[pr[0]], w.reps[pr[1]])
		}
		if !drain() {
			return false
		}
	}
	os, _ := checkAll(w, rep, "finish", replay)
	k, d := checkConverged(os, repNames(w))
	if k == "" {
		return true
	}
	violate(rep, k, d+" (pairwise anti-entropy repeated "+fmt.Sprint(6*len(w.reps)*len(w.reps))+" times)", replay())
	return false
}

// runBehaviour replays one TLC behaviour on real SyncTrees: one harness call per spec action.
func runBehaviour(pool *slotPool, b *behaviour, rep *vfutil.Report, rng *rand.Rand) {
	n := len(b.Replicas)
	present := make([]bool, n)
	for i := 0; i < n; i++ {
		present[i] = true
		for _, a := range b.Absent {
			if a == fmt.Sprintf("r%d", i+1) {
				present[i] = false
			}
		}
	}
	w, err := newWorld(pool, n, present)
	if err != nil {
		panic(err)
	}
	replay := func() any { return replayObj{Kind: "behaviour", Behaviour: b} }
	var sig []string
	lossless := true
	drifted := false
	defer func() {
		rep.Case(strings.Join(sig, " "))
		rep.AddReplayed(1)
	}()
	drift := func(i int, format string, a ...any) {
		if !drifted {
			rep.DriftNote("behaviour %s step %d (%s): %s", b.Name, i, b.Steps[i].Last.Act, fmt.Sprintf(format, a...))
		}
		drifted = true
	}
	for i, st := range b.Steps {
		l := st.Last
		var sr stepResult
		what := fmt.Sprintf("step %d %s", i, l.Act)
		switch l.Act {
		case "AddContent":
			lo, hi := "", ""
			if b.Mine {
				for k, id := range st.Rank {
					if id == l.Id {
						if k > 0 {
							lo = w.real[st.Rank[k-1]]
						}
						if k+1 < len(st.Rank) {
							hi = w.real[st.Rank[k+1]]
						}
						sig = append(sig, fmt.Sprintf("#%d", k))
					}
				}
			}
			sr = w.addContentRanked(w.byName[l.R], l.Snap, lo, hi, b.Mine)
			sig = append(sig, "A"+l.R[1:]+map[bool]string{true: "s", false: ""}[l.Snap])
			if sr.Err != nil {
				drift(i, "AddContent failed: %v", sr.Err)
			} else if sr.NewId != l.Id {
				drift(i, "new change named %s, spec says %s", sr.NewId, l.Id)
			}
		case "DeliverHeadUpdate", "DeliverRequest", "DeliverResponse", "DeliverNoTree", "Drop", "Dup", "DeliverCancelled":
			m := w.findInNet(l.M.key())
			if m == nil {
				drift(i, "message %s is not in flight in the real network (%v)", l.M.key(), emitKeys(w.net))
				break
			}
			sig = append(sig, l.Act[:3]+l.Act[len(l.Act)-2:]+l.M.To[1:])
			switch l.Act {
			case "Drop":
				w.removeFromNet(m)
				lossless = false
			case "Dup":
				w.net = append(w.net, m.clone())
			case "DeliverNoTree":
				w.removeFromNet(m)
				lossless = false
			case "DeliverCancelled":
				// the real handler runs under a dead context: it must fail without any effect
				w.removeFromNet(m)
				sr = w.deliverCancelled(m, l.Mode)
				lossless = false
			default:
				w.removeFromNet(m)
				sr = w.deliver(m)
				if sr.Err != nil {
					drift(i, "handler returned %v", sr.Err)
				}
			}
		case "SyncWithPeer":
			sr = w.syncWithPeer(w.byName[l.R], w.byName[l.P])
			sig = append(sig, "S"+l.R[1:]+l.P[1:])
		case "FetchTree":
			sr = w.fetchTree(w.byName[l.R], w.byName[l.P])
			sig = append(sig, "F"+l.R[1:]+l.P[1:])
			if sr.Err != nil {
				drift(i, "FetchTree failed: %v", sr.Err)
			}
		case "EnterPhase2":
			sig = append(sig, "|")
		default:
			panic("unknown action " + l.Act)
		}
		if drifted {
			break
		}
		// property predicates on the real observations
		os, ok := checkAll(w, rep, what, replay)
		if !ok {
			return
		}
		// conformance: emissions and projected state as the spec predicts
		var want []string
		for _, e := range l.Emit {
			want = append(want, e.key())
		}
		sort.Strings(want)
		got := emitKeys(sr.Emitted)
		if l.Act == "FetchTree" {
			// the synchronous request/response exchange is internal to the spec action
			got = got[:0]
			for _, m := range sr.Emitted {
				if m.Kind == kHeadUpdate {
					got = append(got, m.key())
				}
			}
			sort.Strings(got)
		}
		if strings.Join(want, " ; ") != strings.Join(got, " ; ") {
			drift(i, "emissions differ: real %v, spec %v", got, want)
			break
		}
		for ri, r := range w.reps {
			o, s := os[ri], st.St[r.name]
			if !eqSet(o.Heads, sorted(s.Heads)) || !eqSet(o.Stored, sorted(s.Stored)) || (o.Present && (o.Root != s.Root || !eqSet(o.Attached, sorted(s.Attached)))) {
				drift(i, "state of %s differs: real heads=%v stored=%v root=%s attached=%v, spec heads=%v stored=%v root=%s attached=%v",
					r.name, o.Heads, o.Stored, o.Root, o.Attached, sorted(s.Heads), sorted(s.Stored), s.Root, sorted(s.Attached))
				break
			}
		}
		if drifted {
			break
		}
		rep.AddSteps(1)
	}
	if !drifted && b.Quiescent {
		// the spec says: terminal - nothing in flight and all replicas agree
		os, _ := checkAll(w, rep, "terminal", replay)
		if len(w.net) != 0 {
			drift(len(b.Steps)-1, "spec is quiescent but %d messages are in flight", len(w.net))
		} else if k, d := checkConverged(os, repNames(w)); k != "" {
			violate(rep, k, "at the terminal state of a replayed behaviour: "+d, replay())
			return
		}
	}
	// whatever happened, finish the run with the harness' own reliable schedule and check convergence
	finish(w, rng, rep, lossless, replay, nil)
	if w.rankMisses > 0 {
		rep.AddExtra("id_rank_not_realised", w.rankMisses)
	}
	if len(b.Steps) > 8 {
		rep.Sample(map[string]any{"behaviour": b.Name, "actions": strings.Join(sig, " "), "drifted": drifted})
	}
}

// TestReplay: every behaviour in $VERIF_BEHAVIOURS (or the replay object of a reported
// violation) is executed on real SyncTrees.
func TestReplay(t *testing.T) {
	rep := vfutil.NewReport("C01")
	defer func() {
		if r := recover(); r != nil {
			rep.Save(false)
			panic(r)
		}
	}()
	dir := vfutil.Scratch("treesync-replay")
	pool, err := newSlotPool(dir)
	if err != nil {
		t.Fatal(err)
	}
	defer pool.close()
	rng := vfutil.Rand()
	if raw, ok := vfutil.ReplayFile(); ok {
		var ro replayObj
		if err := json.Unmarshal(raw, &ro); err != nil {
			t.Fatal(err)
		}
		switch ro.Kind {
		case "behaviour":
			runBehaviour(pool, ro.Behaviour, rep, rng)
		case "sim":
			runSim(pool, *ro.Sim, rep, nil)
		case "crafted":
			runCrafted(pool, *ro.Crafted, rep)
		case "concurrent":
			runConcurrent(pool, *ro.Concurrent, rep)
		default:
			t.Fatalf("unknown replay kind %q", ro.Kind)
		}
		rep.Save(true)
		if rep.NumViolations() > 0 {
			t.Fail()
		}
		return
	}
	bdir := os.Getenv("VERIF_BEHAVIOURS")
	entries, err := os.ReadDir(bdir)
	if err != nil {
		t.Fatal(err)
	}
	max := vfutil.EnvInt("VERIF_MAX_BEHAVIOURS", 1<<30)
	trivial := 0
	seen := map[string]bool{}
	for _, e := range entries {
		if !strings.HasSuffix(e.Name(), ".json") {
			continue
		}
		raw, err := os.ReadFile(bdir + "/" + e.Name())
		if err != nil {
			t.Fatal(err)
		}
		var b behaviour
		if err := json.Unmarshal(raw, &b); err != nil {
			t.Fatalf("%s: %v", e.Name(), err)
		}
		b.Name = e.Name()
		adds := 0
		var h strings.Builder
		for _, s := range b.Steps {
			if s.Last.Act == "AddContent" || s.Last.Act == "FetchTree" {
				adds++
			}
			h.WriteString(s.Last.Act)
			h.WriteString(s.Last.R + s.Last.P)
			if s.Last.M != nil {
				h.WriteString(s.Last.M.key())
			}
			h.WriteString(";")
		}
		if adds == 0 || seen[h.String()] {
			trivial++
			continue
		}
		seen[h.String()] = true
		if int(rep.Replayed) >= max {
			break
		}
		sort.Strings(b.Replicas)
		runBehaviour(pool, &b, rep, rng)
		if violationCount >= 3 {
			break // enough evidence; every further violating behaviour costs a full drain
		}
	}
	rep.SetExtra("behaviours_skipped_trivial_or_duplicate", trivial)
	rep.Save(true)
	if rep.NumViolations() > 0 {
		t.Fail()
	}
}
