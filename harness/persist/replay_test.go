// Replay of Persist.tla behaviours on the real storage stack (property C10).
//
// A behaviour (written by TLC from spec/persist/PersistGen.tla) is a list of steps: operations with
// the fate of one storage call (ok | error at call k | crash before call k), opens, reopens and
// changes made by other replicas. Every step is executed on real objects (spacestorage, objecttree
// storage, deferred storage, ObjectTree, AclList) whose any-store database is the proxy.
//
// Property predicates evaluated on real observations (violations):
//   Atomic / ErrMeansPre / OkMeansPost  durable state after a failed op = state before it; after a
//                                       crash image = before or after; an injected storage error is
//                                       never reported as success
//   durable consistency                 absState.durable(): HeadsNameStored, ParentsAndBaseStored,
//                                       OrderRespectsCausality, AclHeadIsLastRecord, SpaceAllOrNothing
//   ReopenValid                         spacestorage.New, BuildAclListWithIdentity, TreeStorage,
//                                       BuildObjectTree succeed on crash images / final states and
//                                       give the recorded heads
//   LiveAgreesWithDisk                  live tree heads / ACL head = stored heads after every op
//   RetrySucceeds                       the re-issued operation returns nil
// Conformance with the spec (drift, never a violation): recorded call sequence = program of the
// spec, durable and live state = the spec's projection.
package persist

import (
	"encoding/json"
	"errors"
	"fmt"
	"os"
	"path/filepath"
	"sort"
	"strings"
	"sync"
	"testing"

	"go.uber.org/zap"

	"github.com/anyproto/any-sync/app/logger"
	"github.com/anyproto/any-sync/commonspace/object/acl/list"
	"github.com/anyproto/any-sync/commonspace/object/acl/list/listtest"
	"github.com/anyproto/any-sync/commonspace/object/acl/recordverifier"
	"github.com/anyproto/any-sync/commonspace/object/tree/objecttree"
	"github.com/anyproto/any-sync/commonspace/object/tree/treechangeproto"
	"github.com/anyproto/any-sync/commonspace/object/tree/treestorage"
	"github.com/anyproto/any-sync/commonspace/spacestorage"
	"github.com/anyproto/any-sync/consensus/consensusproto"
	"github.com/anyproto/any-sync/util/crypto"

	"verifharness/vfutil"
)

// ---------------------------------------------------------------- behaviour format (PersistGen.tla)

type headE struct {
	On bool  `json:"on"`
	Hs []int `json:"hs"`
	Cs int   `json:"cs"`
}
type diskProj struct {
	Space   bool    `json:"space"`
	Schema  int     `json:"schema"`
	Heads   []headE `json:"heads"`
	Stored  []int   `json:"stored"`
	Acl     []int   `json:"acl"`
	AclHead int     `json:"aclHead"`
}
type treeProj struct {
	St   string `json:"st"`
	Hs   []int  `json:"hs"`
	Root int    `json:"root"`
	Def  string `json:"def"`
}
type memProj struct {
	Space  bool       `json:"space"`
	Acl    int        `json:"acl"`
	Known  []int      `json:"known"`
	Tr     []treeProj `json:"tr"`
	Obs    [][]int    `json:"obs"`
	ObsAcl int        `json:"obsAcl"`
}
type step struct {
	A     string   `json:"a"` // op | open | deferred | author | reopen
	Kind  string   `json:"kind"`
	T     int      `json:"t"`
	Snap  bool     `json:"snap"`
	New   []int    `json:"new"`
	Set   []int    `json:"set"`
	I     int      `json:"i"`
	Lo    int      `json:"lo"`    // ACL adds: first record of the payload
	More  int      `json:"more"`  // records of the payload after I
	Batch bool     `json:"batch"` // AddRawRecords (false: AddRawRecord)
	Cont  bool     `json:"cont"`  // the next record of a batch: part of the call of the step before
	Done  int      `json:"done,omitempty"` // (merged batch step) records written completely before the fault
	Prog  []string `json:"prog"`
	Fat   int      `json:"fat"`
	Fate  string   `json:"fate"`
	Res   string   `json:"res"`
	Retry bool     `json:"retry"`
	Disk  diskProj `json:"disk"`
	Mem   memProj  `json:"mem"`
	// NoProj: a behaviour written by the harness itself (large batches): no spec projections to compare with
	NoProj bool `json:"noproj,omitempty"`
}
type changeProj struct {
	Id   int   `json:"id"`
	Tree int   `json:"tree"`
	Prev []int `json:"prev"`
	Base int   `json:"base"`
	Snap bool  `json:"snap"`
	Loc  bool  `json:"loc"`
	Acl  int   `json:"acl"`
}
type behaviour struct {
	Steps   []step       `json:"steps"`
	Changes []changeProj `json:"changes"`
	NT      int          `json:"nt"`
	name    string
}

// ---------------------------------------------------------------- shared world extras

type worldX struct {
	*world
	mu      sync.Mutex
	roots   map[int]*treechangeproto.RawTreeChangeWithId // tree number -> root
	aclRecs []*consensusproto.RawRecordWithId            // index i-1 = ACL record i (1 = root)
	built   map[string]*treechangeproto.RawTreeChangeWithId
	aclOf   map[string]int // change id -> index of the ACL head it names
}

func newWorldX(dir string, nTrees, nAcl int) (*worldX, error) {
	w, err := newWorld(dir)
	if err != nil {
		return nil, err
	}
	x := &worldX{world: w, roots: map[int]*treechangeproto.RawTreeChangeWithId{}, built: map[string]*treechangeproto.RawTreeChangeWithId{}, aclOf: map[string]int{}}
	aclRoot := &consensusproto.RawRecordWithId{Payload: w.payload.AclWithId.Payload, Id: w.payload.AclWithId.Id}
	st, err := list.NewInMemoryStorage(aclRoot.Id, []*consensusproto.RawRecordWithId{aclRoot})
	if err != nil {
		return nil, err
	}
	acl, err := list.BuildAclListWithIdentity(w.keys, st, recordverifier.NewValidateFull())
	if err != nil {
		return nil, err
	}
	x.roots[1] = w.payload.SpaceSettingsWithId
	x.aclOf[x.roots[1].Id] = 1
	for t := 2; t <= nTrees; t++ {
		root, err := objecttree.CreateObjectTreeRoot(objecttree.ObjectTreeCreatePayload{
			PrivKey: w.keys.SignKey, ChangeType: "verif.tree", SpaceId: w.spaceId,
			Seed: []byte(fmt.Sprintf("tree-%d", t)), Timestamp: 1700000000}, acl)
		if err != nil {
			return nil, err
		}
		x.roots[t] = root
		x.aclOf[root.Id] = 1
	}
	x.aclRecs = []*consensusproto.RawRecordWithId{aclRoot}
	for i := 0; i < nAcl; i++ {
		inv, err := acl.RecordBuilder().BuildInvite()
		if err != nil {
			return nil, err
		}
		rec := listtest.WrapAclRecord(inv.InviteRec)
		if err = acl.AddRawRecord(rec); err != nil {
			return nil, err
		}
		x.aclRecs = append(x.aclRecs, rec)
	}
	return x, nil
}

func (w *worldX) aclIndex(id string) int {
	for i, r := range w.aclRecs {
		if r.Id == id {
			return i + 1
		}
	}
	return 0
}

// authorChange builds (deterministically, cached) the signed change another replica would create.
func (w *worldX) authorChange(tree int, prev []string, base string, snap bool, aclIdx int) (*treechangeproto.RawTreeChangeWithId, error) {
	w.mu.Lock()
	defer w.mu.Unlock()
	prev = sortedCopy(prev)
	key := fmt.Sprintf("%d|%s|%s|%v|%d", tree, strings.Join(prev, ","), base, snap, aclIdx)
	if c, ok := w.built[key]; ok {
		return c, nil
	}
	if aclIdx < 1 || aclIdx > len(w.aclRecs) {
		return nil, fmt.Errorf("acl index %d out of range", aclIdx)
	}
	cb := objecttree.NewChangeBuilder(crypto.NewKeyStorage(), w.roots[tree])
	_, raw, err := cb.Build(objecttree.BuilderContent{
		TreeHeadIds: prev, AclHeadId: w.aclRecs[aclIdx-1].Id, SnapshotBaseId: base, IsSnapshot: snap, Unencrypted: true,
		PrivKey: w.keys.SignKey, Content: []byte("R"), Timestamp: 1700000002, DataType: "verif"})
	if err != nil {
		return nil, err
	}
	w.built[key] = raw
	w.aclOf[raw.Id] = aclIdx
	return raw, nil
}

func (w *worldX) noteLocal(id string, aclIdx int) {
	w.mu.Lock()
	w.aclOf[id] = aclIdx
	w.mu.Unlock()
}

// ---------------------------------------------------------------- runner

type runner struct {
	w    *worldX
	b    *behaviour
	rep  *vfutil.Report
	base string
	gen  int
	px   *proxyDB
	r    *replica
	// spec id <-> real change
	real   map[int]*treechangeproto.RawTreeChangeWithId
	specOf map[string]int
	treeNo map[string]int // real root id -> tree number
	// live tree bookkeeping
	deferred map[int]bool // deferred storage not created yet (as far as the harness knows)
	deleted  map[int]bool // Delete returned nil
	stepNo   int
	failed   bool
	lastSeq  []string // storage calls of the last operation (without rollbacks)
}

func (x *runner) replayObj() any {
	return map[string]any{"behaviour": x.b, "failed_at_step": x.stepNo, "name": x.b.name}
}

func (x *runner) violate(key, format string, a ...any) {
	x.rep.Violate(key, fmt.Sprintf(format, a...)+fmt.Sprintf(" [behaviour %s step %d]", x.b.name, x.stepNo), x.replayObj())
	if !strings.HasPrefix(key, "ObserverSawUncommitted:") {
		x.failed = true // objects in a state the property forbids: the rest of the behaviour is not executed
	}
}

var (
	driftMu    sync.Mutex
	driftKinds = map[string]int{}
)

func (x *runner) drift(format string, a ...any) {
	x.rep.DriftNote("%s step %d: %s", x.b.name, x.stepNo, fmt.Sprintf(format, a...))
	driftMu.Lock()
	driftKinds[format]++
	driftMu.Unlock()
}

func (x *runner) openDB(path string) error {
	px, err := openProxy(ctx, path)
	if err != nil {
		return err
	}
	px.aclId = x.w.payload.AclWithId.Id
	x.px = px
	x.r = &replica{w: x.w.world, db: px, px: px, trees: map[string]objecttree.ObjectTree{}}
	x.deferred, x.deleted = map[int]bool{}, map[int]bool{}
	return nil
}

func (x *runner) mapChange(id int, raw *treechangeproto.RawTreeChangeWithId) {
	if old, ok := x.real[id]; ok && old.Id != raw.Id {
		x.drift("spec change %d maps to two real ids", id)
	}
	x.real[id] = raw
	x.specOf[raw.Id] = id
}

func (x *runner) ids(spec []int) []string {
	res := make([]string, 0, len(spec))
	for _, i := range spec {
		if c, ok := x.real[i]; ok {
			res = append(res, c.Id)
		} else {
			res = append(res, fmt.Sprintf("?%d", i))
		}
	}
	sort.Strings(res)
	return res
}

func (x *runner) specIds(real []string) []int {
	res := make([]int, 0, len(real))
	for _, r := range real {
		if i, ok := x.specOf[r]; ok {
			res = append(res, i)
		} else {
			res = append(res, -1)
		}
	}
	sort.Ints(res)
	return res
}

// compress shortens runs of equal calls ("insert:changes x64").
func compress(seq []string) []string {
	var res []string
	for i := 0; i < len(seq); {
		j := i
		for j < len(seq) && seq[j] == seq[i] {
			j++
		}
		if j-i > 2 {
			res = append(res, fmt.Sprintf("%s x%d", seq[i], j-i))
		} else {
			res = append(res, seq[i:j]...)
		}
		i = j
	}
	return res
}

func callName(c storageCall) string {
	if c.Coll != "" {
		return c.Op + ":" + c.Coll
	}
	return c.Op
}

func opLabel(s step, x *runner) string {
	l := s.Kind
	if s.Kind == "local" && s.Snap {
		l = "local-snapshot"
	}
	if s.Kind == "localv" && s.Snap {
		l = "localv-snapshot"
	}
	if s.Kind == "acl" && s.Batch {
		l = fmt.Sprintf("acl-batch%d", s.I+s.More-s.Lo+1)
	}
	if s.Kind == "remote" && len(s.Set) > 8 {
		l += "-large" // a long batch in one AddRawChanges (see large_test.go)
	}
	if (s.Kind == "local" || s.Kind == "remote") && x.deferred[s.T] {
		l += "-deferred"
	}
	if s.Retry {
		l += "-retry"
	}
	return l
}

// run executes the behaviour; an error means the harness itself could not proceed (exit 2).
func (x *runner) run() error {
	x.real, x.specOf, x.treeNo = map[int]*treechangeproto.RawTreeChangeWithId{}, map[string]int{}, map[string]int{}
	for t := 1; t <= x.b.NT; t++ {
		x.mapChange(t, x.w.roots[t])
		x.treeNo[x.w.roots[t].Id] = t
	}
	dir := filepath.Join(x.base, "g0")
	if err := os.MkdirAll(dir, 0o755); err != nil {
		return err
	}
	if err := x.openDB(filepath.Join(dir, "db")); err != nil {
		return err
	}
	defer func() {
		if x.px != nil {
			_ = x.px.DB.Close()
		}
	}()
	steps := mergeBatches(x.b.Steps)
	for i, s := range steps {
		x.stepNo = i + 1
		var err error
		switch s.A {
		case "author":
			err = x.stepAuthor(s)
		case "open":
			err = x.stepOpen(s)
		case "deferred":
			err = x.stepDeferred(s)
		case "reopen":
			err = x.stepReopen(s)
		case "op":
			err = x.stepOp(s)
		default:
			err = fmt.Errorf("unknown step %q", s.A)
		}
		if err != nil {
			return fmt.Errorf("%s step %d (%s %s): %w", x.b.name, i+1, s.A, s.Kind, err)
		}
		x.rep.AddSteps(1)
	}
	// the final durable state must reopen
	return x.checkReopen("final", nil)
}

// mergeBatches: AddRawRecords is one call of the code but one spec operation per record (each record has a
// transaction of its own); the steps of one call are merged into one step whose program is the concatenation,
// whose fault point is counted from the first call, and whose projections are those after the last record that
// was (or was to be) written. Done = records written completely before the fault.
func mergeBatches(in []step) []step {
	var out []step
	for i := 0; i < len(in); i++ {
		s := in[i]
		if !(s.A == "op" && s.Kind == "acl" && s.Batch && !s.Cont) {
			out = append(out, s)
			continue
		}
		m := s
		m.Prog = append([]string{}, s.Prog...)
		for i+1 < len(in) && in[i+1].A == "op" && in[i+1].Kind == "acl" && in[i+1].Cont {
			n := in[i+1]
			if n.Fate != "ok" {
				m.Fat, m.Fate = len(m.Prog)+n.Fat, n.Fate
			}
			m.Prog = append(m.Prog, n.Prog...)
			m.Res, m.Disk, m.Mem = n.Res, n.Disk, n.Mem
			m.Done++
			i++
		}
		out = append(out, m)
	}
	return out
}

func (x *runner) stepAuthor(s step) error {
	c := x.b.Changes[s.New[0]-1]
	raw, err := x.w.authorChange(c.Tree, x.ids(c.Prev), x.real[c.Base].Id, c.Snap, c.Acl)
	if err != nil {
		return err
	}
	x.mapChange(c.Id, raw)
	return nil
}

func (x *runner) stepOpen(s step) error {
	if x.r.ss == nil {
		return errors.New("open without space")
	}
	_, err := x.r.openTree(x.w.roots[s.T].Id)
	if err != nil {
		// the spec says the stored tree can be opened: ReopenValid on the real state
		x.violate("ReopenValid:open-tree", "stored tree %d cannot be opened: %v", s.T, err)
		return errAbandon
	}
	x.compareMem(s)
	return nil
}

func (x *runner) stepDeferred(s step) error {
	root := x.w.roots[s.T]
	st, err := x.r.ss.CreateStorageWithDeferredCreation(ctx, treestorage.TreeStorageCreatePayload{RootRawChange: root, Heads: []string{root.Id}})
	if err != nil {
		return err
	}
	t, err := objecttree.BuildObjectTree(st, x.r.acl)
	if err != nil {
		return err
	}
	x.r.trees[root.Id] = t
	x.deferred[s.T] = true
	x.compareMem(s)
	return nil
}

func (x *runner) stepReopen(s step) error {
	ss, err := spacestorage.New(ctx, x.w.spaceId, x.px)
	if err != nil {
		x.violate("ReopenValid:space", "spacestorage.New fails after a crash: %v", err)
		return errAbandon
	}
	x.r.ss = ss
	if err = x.r.buildAcl(); err != nil {
		x.violate("ReopenValid:acl", "BuildAclListWithIdentity fails after a crash: %v", err)
		return errAbandon
	}
	if st, err := readState(x.px.DB); err == nil {
		x.r.attachObserver(st)
	}
	x.compareMem(s)
	return nil
}

var errAbandon = errors.New("behaviour abandoned after a violation")
var errRejected = errors.New("verif: validator rejects the change")

// stepOp runs one operation with its fault plan and evaluates the oracles.
func (x *runner) stepOp(s step) error {
	pre, err := readState(x.px.DB)
	if err != nil {
		return err
	}
	label := opLabel(s, x)
	errAt, snapDir, snapAt := 0, "", 0
	switch s.Fate {
	case "error":
		errAt = s.Fat
	case "crash":
		snapDir, snapAt = filepath.Join(x.base, fmt.Sprintf("img%d", x.gen+1)), s.Fat
	}
	var tree objecttree.ObjectTree
	if s.T > 0 && s.Kind != "space" && s.Kind != "create" {
		tree = x.r.trees[x.w.roots[s.T].Id]
		if tree == nil {
			return fmt.Errorf("tree %d is not open", s.T)
		}
	}
	// prepare inputs outside the armed section (reads only)
	var do func() error
	switch s.Kind {
	case "space":
		do = func() error {
			ss, err := spacestorage.Create(ctx, x.px, x.w.payload)
			if err != nil {
				return err
			}
			x.r.ss = ss
			return nil
		}
	case "create":
		do = func() error {
			st, err := x.r.ss.CreateTreeStorage(ctx, treestorage.TreeStorageCreatePayload{RootRawChange: x.w.roots[s.T],
				Changes: []*treechangeproto.RawTreeChangeWithId{x.w.roots[s.T]}, Heads: []string{x.w.roots[s.T].Id}})
			if err != nil {
				return err
			}
			x.px.end() // BuildObjectTree only reads
			t, err := objecttree.BuildObjectTree(st, x.r.acl)
			if err != nil {
				return fmt.Errorf("build after create: %w", err)
			}
			x.r.trees[x.w.roots[s.T].Id] = t
			return nil
		}
	case "local":
		content := x.r.content("L", s.Snap)
		tree.Lock()
		raw, perr := tree.PrepareChange(content)
		tree.Unlock()
		if perr != nil {
			return fmt.Errorf("prepare: %w", perr)
		}
		x.mapChange(s.New[0], raw)
		x.r.acl.RLock()
		liveAcl := x.w.aclIndex(x.r.acl.Head().Id)
		x.r.acl.RUnlock()
		x.w.noteLocal(raw.Id, liveAcl)
		if want := x.b.Changes[s.New[0]-1].Acl; want != liveAcl {
			x.drift("local change names ACL record %d, spec %d", liveAcl, want)
		}
		do = func() error {
			tree.Lock()
			defer tree.Unlock()
			res, err := tree.AddContent(ctx, content)
			if err == nil && (len(res.Added) != 1 || res.Added[0].Id != raw.Id) {
				x.drift("AddContent produced another change than PrepareChange")
			}
			return err
		}
	case "localv":
		// AddContentWithValidator whose validator rejects: nothing may change, in storage or in memory
		content := x.r.content("L", s.Snap)
		do = func() error {
			tree.Lock()
			defer tree.Unlock()
			_, err := tree.AddContentWithValidator(ctx, content, func(objecttree.StorageChange) error { return errRejected })
			return err
		}
	case "remote":
		set := append([]int{}, s.Set...)
		sort.Ints(set)
		var raws []*treechangeproto.RawTreeChangeWithId
		inSet := map[int]bool{}
		for _, i := range set {
			c, ok := x.real[i]
			if !ok {
				return fmt.Errorf("change %d was never built", i)
			}
			raws = append(raws, &treechangeproto.RawTreeChangeWithId{Id: c.Id, RawChange: append([]byte{}, c.RawChange...)})
			inSet[i] = true
		}
		var heads []string
		for _, i := range set {
			isHead := true
			for _, j := range set {
				for _, p := range x.b.Changes[j-1].Prev {
					if p == i {
						isHead = false
					}
				}
			}
			if isHead {
				heads = append(heads, x.real[i].Id)
			}
		}
		do = func() error {
			tree.Lock()
			defer tree.Unlock()
			_, err := tree.AddRawChanges(ctx, objecttree.RawChangesPayload{NewHeads: heads, RawChanges: raws})
			return err
		}
	case "acl":
		if s.Batch {
			// AddRawRecords with the records Lo..I+More (a re-issued batch is the same payload)
			var recs []*consensusproto.RawRecordWithId
			for i := s.Lo; i <= s.I+s.More; i++ {
				rec := x.w.aclRecs[i-1]
				recs = append(recs, &consensusproto.RawRecordWithId{Id: rec.Id, Payload: append([]byte{}, rec.Payload...)})
			}
			do = func() error {
				x.r.acl.Lock()
				defer x.r.acl.Unlock()
				return x.r.acl.AddRawRecords(recs)
			}
			break
		}
		rec := x.w.aclRecs[s.I-1]
		do = func() error { return x.r.addAcl(&consensusproto.RawRecordWithId{Id: rec.Id, Payload: append([]byte{}, rec.Payload...)}) }
	case "delete":
		do = func() error {
			tree.Lock()
			defer tree.Unlock()
			return tree.Delete()
		}
	default:
		return fmt.Errorf("unknown op kind %q", s.Kind)
	}

	x.px.begin(errAt, snapDir, snapAt)
	opErr := func() (err error) {
		defer func() {
			if r := recover(); r != nil {
				err = fmt.Errorf("panic: %v", r)
				x.violate("panic:"+label, "operation panicked: %v", r)
			}
		}()
		return do()
	}()
	hit := x.px.errHit
	calls := x.px.end()
	if x.px.snapErr != nil {
		return x.px.snapErr
	}
	if s.Kind == "space" && opErr == nil {
		if err := x.r.buildAcl(); err != nil {
			x.violate("ReopenValid:acl-after-create", "ACL of a freshly created space does not build: %v", err)
			return errAbandon
		}
		if st, err := readState(x.px.DB); err == nil {
			x.r.attachObserver(st)
		}
	}
	var seq []string
	for _, c := range calls {
		if c.Op != "rollback" && c.Op != "rollbacksp" {
			seq = append(seq, callName(c))
		}
	}
	x.lastSeq = seq
	if len(s.Prog) > 40 {
		x.rep.Case(fmt.Sprintf("%s|%s@%d|batch of %d", label, s.Fate, s.Fat, len(s.Set)))
	} else {
		x.rep.Case(fmt.Sprintf("%s|%s@%d|%v", label, s.Fate, s.Fat, s.Prog))
	}
	faultCall := "none"
	if s.Fat > 0 && s.Fat <= len(s.Prog) {
		faultCall = s.Prog[s.Fat-1]
	}
	if s.Fat > 0 && s.Fat <= len(seq) {
		faultCall = seq[s.Fat-1]
	}
	where := fmt.Sprintf("%s:%s@%s", label, s.Fate, faultCall)

	if s.Kind == "space" && opErr != nil {
		// A failed spacestorage.Create leaves the any-store handle unusable: any-store keeps the
		// collections created inside the rolled-back transaction in its open-collection cache
		// ("no such table" on the next use; see TestSpaceRetrySameHandle). Callers discard the
		// handle of a database whose space could not be created, and so does the replay.
		path := x.px.path
		_ = x.px.DB.Close()
		if err := x.openDB(path); err != nil {
			return err
		}
	}
	cur, err := readState(x.px.DB)
	if err != nil {
		return err
	}

	// ---- conformance of the call sequence (code -> spec)
	want := s.Prog
	if s.Fate == "error" && s.Res == "injected" && s.Fat <= len(want) {
		want = want[:s.Fat]
	}
	if strings.Join(seq, " ") != strings.Join(want, " ") {
		x.drift("%s: storage calls %v, spec program %v", label, compress(seq), compress(want))
	}
	if s.Fate == "error" && !hit {
		x.drift("%s: fault point %d never reached (calls %v)", label, s.Fat, seq)
	}

	// ---- property predicates on the real observations
	if hit && opErr == nil {
		x.violate("error-swallowed:"+where, "storage call %d (%s) returned an error but the operation reported success (durable state %s)",
			s.Fat, faultCall, map[bool]string{true: "unchanged", false: "changed"}[cur.key() == pre.key()])
	}
	if opErr != nil && !s.Batch && cur.key() != pre.key() {
		x.violate("Atomic:failed-op-changed-disk:"+where, "operation failed (%v) but the durable state changed: %s", opErr, diffState(pre, cur, x))
	}
	if opErr != nil && s.Batch {
		// a batch is written record by record: all-or-nothing per record, the records before the failing one stay
		if d := batchAtomic(pre, cur, s.Done, s.Done); d != "" {
			x.violate("Atomic:failed-op-changed-disk:"+where, "AddRawRecords failed (%v) at its record %d: %s", opErr, s.Done+1, d)
		}
	}
	if opErr != nil && !hit && !errors.Is(opErr, errInjected) && !errors.Is(opErr, errRejected) {
		if s.Retry {
			x.violate("RetrySucceeds:"+label, "re-issued operation is refused: %v", opErr)
		} else if s.Res != "refused" {
			x.drift("%s: unexpected error %v", label, opErr)
		}
	}
	if s.Retry && opErr == nil && s.Fate == "ok" && s.Res == "ok" {
		// the retried input must now be durable
		x.checkPersisted(s, cur, label)
	}
	if p, d := cur.durable(); p != "" {
		x.violate(p+":"+where, "durable state after the operation: %s", d)
	}
	if s.Kind == "delete" && opErr == nil {
		x.deleted[s.T] = true
	}
	if (s.Kind == "local" || s.Kind == "remote") && opErr == nil {
		x.deferred[s.T] = false
	}
	if s.Fate == "crash" {
		return x.crash(s, pre, cur, snapDir, where, len(calls))
	}
	x.checkLive(s, cur, where, opErr)
	if d := x.r.observerAgrees(cur); d != "" {
		// one key: the cause is one call site (UpdateEntry notifies inside the caller's transaction)
		x.violate("ObserverSawUncommitted:headstorage.UpdateEntry", "after %s: %s", where, d)
	}
	x.compareDisk(s, cur)
	x.compareMem(s)
	if (opErr == nil) != (s.Res == "ok") {
		x.drift("%s: result %v, spec %s", label, opErr, s.Res)
	}
	x.rep.Sample(map[string]any{"op": label, "fate": s.Fate, "at": s.Fat, "calls": seq, "err": fmt.Sprint(opErr)})
	return nil
}

func diffState(a, b *absState, x *runner) string {
	parts := diffParts(a, b)
	if len(parts) > 8 {
		added, removed := 0, 0
		var other []string
		for _, p := range parts {
			switch {
			case strings.HasPrefix(p, "+change"):
				added++
			case strings.HasPrefix(p, "-change"):
				removed++
			default:
				other = append(other, p)
			}
		}
		parts = append(other, fmt.Sprintf("+%d changes, -%d changes", added, removed))
	}
	return strings.Join(parts, "; ")
}

func diffParts(a, b *absState) []string {
	var parts []string
	for id, h := range b.Heads {
		if fmt.Sprint(a.Heads[id]) != fmt.Sprint(h) {
			parts = append(parts, fmt.Sprintf("heads[%s] %v -> %v", short(id), shorts(a.Heads[id].Heads), shorts(h.Heads)))
		}
	}
	for id := range b.Changes {
		if _, ok := a.Changes[id]; !ok {
			parts = append(parts, "+change "+short(id))
		}
	}
	for id := range a.Changes {
		if _, ok := b.Changes[id]; !ok {
			parts = append(parts, "-change "+short(id))
		}
	}
	if len(a.Acl) != len(b.Acl) {
		parts = append(parts, fmt.Sprintf("acl records %d -> %d", len(a.Acl), len(b.Acl)))
	}
	if a.Space != b.Space || fmt.Sprint(a.Colls) != fmt.Sprint(b.Colls) {
		parts = append(parts, fmt.Sprintf("space %q colls %v -> %q %v", short(a.Space), a.Colls, short(b.Space), b.Colls))
	}
	sort.Strings(parts)
	return parts
}

// batchAtomic: after a batch add that wrote `min`..`max` records completely, the durable state is the state
// before plus exactly that many ACL records (the heads entry follows, checked by durable()), nothing else changed.
func batchAtomic(pre, cur *absState, min, max int) string {
	if n := len(cur.Acl) - len(pre.Acl); n < min || n > max {
		return fmt.Sprintf("%d ACL records were added, expected %d..%d", n, min, max)
	}
	p := *pre
	p.Acl = cur.Acl
	p.Heads = map[string]absHeads{}
	for k, v := range pre.Heads {
		p.Heads[k] = v
	}
	p.Heads[cur.AclId] = cur.Heads[cur.AclId]
	if p.key() != cur.key() {
		return "the durable state changed outside the ACL log: " + strings.Join(diffParts(pre, cur), "; ")
	}
	return ""
}

// checkPersisted: after a successful retry the input is durable.
func (x *runner) checkPersisted(s step, cur *absState, label string) {
	switch s.Kind {
	case "local", "remote":
		ids := s.New
		for _, i := range ids {
			if c, ok := x.real[i]; ok {
				if _, stored := cur.Changes[c.Id]; !stored {
					x.violate("RetrySucceeds:not-persisted:"+label, "retry returned nil but change %d is not stored", i)
				}
			}
		}
	case "acl":
		id := x.w.aclRecs[s.I+s.More-1].Id // the last record of the payload
		found := false
		for _, r := range cur.Acl {
			found = found || r.Id == id
		}
		if !found {
			x.violate("RetrySucceeds:not-persisted:"+label, "retry returned nil but ACL record %d is not stored", s.I)
		}
	case "delete":
		for _, c := range cur.Changes {
			if c.Tree == x.w.roots[s.T].Id {
				x.violate("RetrySucceeds:not-persisted:"+label, "Delete retry returned nil but the tree's changes are still stored")
				break
			}
		}
	}
}

// checkLive: LiveAgreesWithDisk on the real live objects.
func (x *runner) checkLive(s step, cur *absState, where string, opErr error) {
	failedDelete := 0
	if s.Kind == "delete" && opErr != nil {
		failedDelete = s.T
	}
	for _, v := range liveAgrees(x.r, x.w, cur, x.treeNo, x.deferred, x.deleted, failedDelete) {
		x.violate("LiveAgreesWithDisk:"+v[0]+":"+where, "%s", v[1])
	}
}

// liveAgrees compares every live object with the durable state; it returns (object, description) pairs.
func liveAgrees(r *replica, w *worldX, cur *absState, treeNo map[string]int, deferred, deleted map[int]bool, failedDelete int) (res [][2]string) {
	if r.acl != nil && cur.Space != "" {
		r.acl.RLock()
		head := r.acl.Head().Id
		r.acl.RUnlock()
		stored := ""
		if h := cur.Heads[cur.AclId].Heads; len(h) == 1 {
			stored = h[0]
		}
		if head != stored {
			res = append(res, [2]string{"acl", fmt.Sprintf("live ACL head %s, stored head %s", short(head), short(stored))})
		}
		// the whole list, not only its head: records, HasHead and IsAfter answer from what is stored
		storedIds := map[string]bool{}
		var storedSeq []string
		for _, rec := range cur.Acl {
			storedIds[rec.Id] = true
			storedSeq = append(storedSeq, rec.Id)
		}
		r.acl.RLock()
		var liveSeq []string
		for _, rec := range r.acl.Records() {
			liveSeq = append(liveSeq, rec.Id)
		}
		if strings.Join(liveSeq, ",") != strings.Join(storedSeq, ",") {
			res = append(res, [2]string{"acl-records", fmt.Sprintf("live ACL records %v, stored records %v", shorts(liveSeq), shorts(storedSeq))})
		}
		for i, rec := range w.aclRecs {
			if r.acl.HasHead(rec.Id) != storedIds[rec.Id] {
				res = append(res, [2]string{"acl-hashead", fmt.Sprintf("HasHead(record %d) = %v, stored = %v", i+1, r.acl.HasHead(rec.Id), storedIds[rec.Id])})
				break
			}
			if after, err := r.acl.IsAfter(rec.Id, w.aclRecs[0].Id); (err == nil && after) != storedIds[rec.Id] {
				res = append(res, [2]string{"acl-isafter", fmt.Sprintf("IsAfter(record %d, root) = %v/%v, stored = %v", i+1, after, err, storedIds[rec.Id])})
				break
			}
		}
		r.acl.RUnlock()
	}
	for rootId, t := range r.trees {
		n := treeNo[rootId]
		if deleted[n] {
			continue
		}
		stored := 0
		for _, c := range cur.Changes {
			if c.Tree == rootId {
				stored++
			}
		}
		if deferred[n] && stored == 0 {
			continue // storage not created yet: nothing to agree with
		}
		t.Lock()
		heads := sortedCopy(t.Heads())
		usable := t.HasChanges(heads...)
		t.Unlock()
		if failedDelete == n && !usable {
			res = append(res, [2]string{"deleted-flag", "Delete failed, storage is intact, but the live tree is marked deleted"})
			continue
		}
		h, ok := cur.Heads[rootId]
		if !ok || stored == 0 {
			res = append(res, [2]string{"tree", fmt.Sprintf("live tree %d has heads %v but nothing is stored", n, shorts(heads))})
			continue
		}
		if strings.Join(heads, ",") != strings.Join(sortedCopy(h.Heads), ",") {
			res = append(res, [2]string{"tree", fmt.Sprintf("live tree %d heads %v, stored heads %v", n, shorts(heads), shorts(h.Heads))})
		}
	}
	return
}

// crash: the behaviour goes on from the crash image.
func (x *runner) crash(s step, pre, post *absState, snapDir, where string, nCalls int) error {
	img := filepath.Join(snapDir, fmt.Sprintf("%03d", s.Fat))
	if _, err := os.Stat(img); err != nil {
		x.drift("crash point %d beyond the %d calls of the operation", s.Fat, nCalls)
		return errAbandon
	}
	_ = x.px.DB.Close()
	x.gen++
	if err := x.openDB(filepath.Join(img, "db")); err != nil {
		x.violate("ReopenValid:db:"+where, "crash image does not open: %v", err)
		x.px = nil
		return errAbandon
	}
	st, err := readState(x.px.DB)
	if err != nil {
		return err
	}
	if s.Batch {
		if d := batchAtomic(pre, st, s.Done, s.Done+1); d != "" {
			x.violate("Atomic:"+where, "crash image of a batch add at its record %d: %s", s.Done+1, d)
		}
	} else if st.key() != pre.key() && st.key() != post.key() {
		x.violate("Atomic:"+where, "crash image is neither the state before nor after the operation: vs before: %s | vs after: %s",
			diffState(pre, st, x), diffState(st, post, x))
	}
	if p, d := st.durable(); p != "" {
		x.violate(p+":"+where, "crash image: %s", d)
	}
	x.compareDisk(s, st)
	return x.checkReopen(where, st)
}

// checkReopen: every real constructor works on the durable state and yields the recorded heads.
func (x *runner) checkReopen(where string, st *absState) error {
	var err error
	if st == nil {
		if st, err = readState(x.px.DB); err != nil {
			return err
		}
	}
	if st.Space == "" {
		return nil
	}
	// a second handle on a copy, so that the behaviour's own database is left alone
	cp := filepath.Join(x.base, fmt.Sprintf("reopen%d-%d", x.gen, x.stepNo))
	if err = copyDir(filepath.Dir(x.px.path), cp); err != nil {
		return err
	}
	db, err := openProxy(ctx, filepath.Join(cp, "db"))
	if err != nil {
		x.violate("ReopenValid:db:"+where, "database does not open: %v", err)
		return nil
	}
	defer db.DB.Close()
	db.aclId = x.w.payload.AclWithId.Id
	ss, err := spacestorage.New(ctx, x.w.spaceId, db)
	if err != nil {
		x.violate("ReopenValid:space:"+where, "spacestorage.New: %v", err)
		return nil
	}
	aclSt, _ := ss.AclStorage()
	acl, err := list.BuildAclListWithIdentity(x.w.keys, aclSt, recordverifier.NewValidateFull())
	if err != nil {
		x.violate("ReopenValid:acl:"+where, "BuildAclListWithIdentity: %v", err)
		return nil
	}
	if h := st.Heads[st.AclId].Heads; len(h) != 1 || acl.Head().Id != h[0] {
		x.violate("ReopenValid:acl-head:"+where, "reopened ACL head %s, stored %v", short(acl.Head().Id), shorts(h))
	}
	for id, h := range st.Heads {
		if id == st.AclId {
			continue
		}
		if _, stored := st.Changes[id]; !stored {
			continue // deleted tree
		}
		ts, err := ss.TreeStorage(ctx, id)
		if err != nil {
			x.violate("ReopenValid:tree-storage:"+where, "TreeStorage(%d): %v", x.treeNo[id], err)
			continue
		}
		t, err := objecttree.BuildObjectTree(ts, acl)
		if err != nil {
			x.violate("ReopenValid:tree:"+where, "BuildObjectTree(%d): %v", x.treeNo[id], err)
			continue
		}
		if strings.Join(sortedCopy(t.Heads()), ",") != strings.Join(sortedCopy(h.Heads), ",") {
			x.violate("ReopenValid:tree-heads:"+where, "reopened tree %d heads %v, stored %v", x.treeNo[id], shorts(t.Heads()), shorts(h.Heads))
		}
	}
	return nil
}

// ---- conformance with the spec's projections (drift only)

func (x *runner) compareDisk(s step, cur *absState) {
	if s.NoProj {
		return
	}
	d := s.Disk
	if d.Space != (cur.Space != "") {
		x.drift("disk.space %v, spec %v", cur.Space != "", d.Space)
		return
	}
	var stored []string
	for id := range cur.Changes {
		stored = append(stored, id)
	}
	if got, want := fmt.Sprint(x.specIds(stored)), fmt.Sprint(sortedInts(d.Stored)); got != want {
		x.drift("stored changes %s, spec %s", got, want)
	}
	for t := 1; t <= x.b.NT; t++ {
		h, ok := cur.Heads[x.w.roots[t].Id]
		e := d.Heads[t-1]
		if ok != e.On {
			x.drift("heads entry of tree %d present=%v, spec %v", t, ok, e.On)
			continue
		}
		if !ok {
			continue
		}
		if got, want := fmt.Sprint(x.specIds(h.Heads)), fmt.Sprint(sortedInts(e.Hs)); got != want {
			x.drift("stored heads of tree %d %s, spec %s", t, got, want)
		}
		if x.specOf[h.CS] != e.Cs {
			x.drift("stored common snapshot of tree %d is %d, spec %d", t, x.specOf[h.CS], e.Cs)
		}
	}
	if len(cur.Acl) != len(d.Acl) {
		x.drift("%d acl records stored, spec %d", len(cur.Acl), len(d.Acl))
	}
	if cur.Space != "" {
		if h := cur.Heads[cur.AclId].Heads; len(h) != 1 || x.w.aclIndex(h[0]) != d.AclHead {
			x.drift("stored acl head %v, spec %d", shorts(h), d.AclHead)
		}
	}
}

func sortedInts(a []int) []int {
	c := append([]int{}, a...)
	sort.Ints(c)
	return c
}

func (x *runner) compareMem(s step) {
	if s.NoProj {
		return
	}
	m := s.Mem
	if x.r.acl != nil && m.Acl > 0 {
		x.r.acl.RLock()
		got := x.w.aclIndex(x.r.acl.Head().Id)
		x.r.acl.RUnlock()
		if got != m.Acl {
			x.drift("live ACL head is record %d, spec %d", got, m.Acl)
		}
		var known []int
		x.r.acl.RLock()
		for i, rec := range x.w.aclRecs {
			if x.r.acl.HasHead(rec.Id) {
				known = append(known, i+1)
			}
		}
		x.r.acl.RUnlock()
		if fmt.Sprint(known) != fmt.Sprint(sortedInts(m.Known)) {
			x.drift("live ACL index knows records %v, spec %v", known, m.Known)
		}
	}
	if x.r.obs != nil && m.Space {
		x.r.obs.mu.Lock()
		for t := 1; t <= x.b.NT && t <= len(m.Obs); t++ {
			if got, want := fmt.Sprint(x.specIds(x.r.obs.last[x.w.roots[t].Id])), fmt.Sprint(sortedInts(m.Obs[t-1])); got != want {
				x.drift("observers know heads %s of tree %d, spec %s", got, t, want)
			}
		}
		if h := x.r.obs.last[x.w.payload.AclWithId.Id]; len(h) != 1 || x.w.aclIndex(h[0]) != m.ObsAcl {
			x.drift("observers know ACL head %v, spec %d", shorts(h), m.ObsAcl)
		}
		x.r.obs.mu.Unlock()
	}
	for t := 1; t <= x.b.NT && t <= len(m.Tr); t++ {
		live := x.r.trees[x.w.roots[t].Id]
		tp := m.Tr[t-1]
		if (live != nil) != (tp.St == "open" || tp.St == "deleted") {
			x.drift("tree %d live=%v, spec state %s", t, live != nil, tp.St)
			continue
		}
		if live == nil || tp.St != "open" {
			continue
		}
		live.Lock()
		heads := x.specIds(live.Heads())
		root := 0
		if r := live.Root(); r != nil {
			root = x.specOf[r.Id]
		}
		live.Unlock()
		if fmt.Sprint(heads) != fmt.Sprint(sortedInts(tp.Hs)) {
			x.drift("live heads of tree %d %v, spec %v", t, heads, tp.Hs)
		}
		if root != tp.Root {
			x.drift("live root of tree %d is %d, spec %d", t, root, tp.Root)
		}
	}
}

// ---------------------------------------------------------------- test entry

func loadBehaviours(t *testing.T) []*behaviour {
	if raw, ok := vfutil.ReplayFile(); ok {
		var w struct {
			Behaviour *behaviour `json:"behaviour"`
			Name      string     `json:"name"`
		}
		if err := json.Unmarshal(raw, &w); err != nil || w.Behaviour == nil {
			t.Fatalf("replay file: %v", err)
		}
		w.Behaviour.name = w.Name
		return []*behaviour{w.Behaviour}
	}
	// VERIF_BEHAVIOURS: one or more directories (':'-separated); VERIF_MAX_BEHAVIOURS: the sample size per
	// directory (':'-separated, the last one is used for the remaining directories; 0 = everything)
	var res []*behaviour
	dirs := strings.Split(os.Getenv("VERIF_BEHAVIOURS"), string(os.PathListSeparator))
	limits := strings.Split(os.Getenv("VERIF_MAX_BEHAVIOURS"), string(os.PathListSeparator))
	for i, dir := range dirs {
		limit := 0
		if l := limits[min(i, len(limits)-1)]; l != "" {
			fmt.Sscan(l, &limit)
		}
		res = append(res, loadDir(t, dir, limit)...)
	}
	return res
}

func loadFile(t *testing.T, tag, n string) *behaviour {
	b, err := os.ReadFile(n)
	if err != nil {
		t.Fatal(err)
	}
	bh := &behaviour{}
	if err = json.Unmarshal(b, bh); err != nil {
		t.Fatalf("%s: %v", n, err)
	}
	bh.name = tag + "/" + strings.TrimSuffix(filepath.Base(n), ".json")
	return bh
}

func loadDir(t *testing.T, dir string, limit int) []*behaviour {
	names, err := filepath.Glob(filepath.Join(dir, "*.json"))
	if err != nil || len(names) == 0 {
		t.Fatalf("no behaviours in %q (%v)", dir, err)
	}
	sort.Strings(names)
	tag := filepath.Base(dir)
	var res []*behaviour
	if limit <= 0 || len(names) <= limit {
		for _, n := range names {
			res = append(res, loadFile(t, tag, n))
		}
		return res
	}
	// a seeded sample that first covers every class of the focus step (the last one: operation kind,
	// program, fault point, fate, retry, and the operation before it), then fills up at random.
	// Two passes, so that a large directory is never held in memory.
	keys := make([]string, len(names))
	for i, n := range names {
		bh := loadFile(t, tag, n)
		f := bh.Steps[len(bh.Steps)-1]
		k := fmt.Sprintf("%s|%v|%v|%d|%s|%v|%d", f.Kind, f.Snap, f.Prog, f.Fat, f.Fate, f.Retry, len(f.New))
		// what a fault broke shows in the next operation: the class also names the operation before
		for j := len(bh.Steps) - 2; j >= 0; j-- {
			if p := bh.Steps[j]; p.A == "op" {
				k += fmt.Sprintf("|after %s %v %d %s %d", p.Kind, p.Snap, p.Fat, p.Fate, len(p.Prog))
				break
			}
		}
		keys[i] = k
	}
	order := vfutil.Rand().Perm(len(names))
	seen := map[string]bool{}
	var pick, rest []int
	for _, i := range order {
		if !seen[keys[i]] && len(pick) < limit {
			seen[keys[i]] = true
			pick = append(pick, i)
		} else {
			rest = append(rest, i)
		}
	}
	for _, i := range rest {
		if len(pick) >= limit {
			break
		}
		pick = append(pick, i)
	}
	sort.Ints(pick)
	for _, i := range pick {
		res = append(res, loadFile(t, tag, names[i]))
	}
	return res
}

// scratchDir: the databases of the replay live on tmpfs when there is one (thousands of short-lived
// SQLite databases; fsync on a disk dominates the run time otherwise). Removed when the test ends.
func scratchDir() string {
	if os.Getenv("VERIF_PERSIST_ONDISK") == "" {
		if st, err := os.Stat("/dev/shm"); err == nil && st.IsDir() {
			if d, err := os.MkdirTemp("/dev/shm", "verif-persist-"); err == nil {
				return d
			}
		}
	}
	return vfutil.Scratch("persist-replay")
}

func TestReplay(t *testing.T) {
	logger.SetDefault(zap.NewNop())
	rep := vfutil.NewReport("C10")
	complete := false
	defer func() { rep.Save(complete) }()
	bs := loadBehaviours(t)
	base := scratchDir()
	defer os.RemoveAll(base)
	maxNT, maxAcl := 3, 1
	for _, b := range bs {
		if b.NT > maxNT {
			maxNT = b.NT
		}
		for _, s := range b.Steps {
			if s.I+s.More-1 > maxAcl {
				maxAcl = s.I + s.More - 1
			}
		}
	}
	w, err := newWorldX(filepath.Join(base, "world"), maxNT, maxAcl)
	if err != nil {
		t.Fatal(err)
	}
	workers := vfutil.EnvInt("VERIF_WORKERS", 12)
	var (
		wg     sync.WaitGroup
		mu     sync.Mutex
		broken []string
	)
	jobs := make(chan int)
	for k := 0; k < workers; k++ {
		wg.Add(1)
		go func() {
			defer wg.Done()
			for i := range jobs {
				b := bs[i]
				dir := filepath.Join(base, fmt.Sprintf("b%06d", i))
				x := &runner{w: w, b: b, rep: rep, base: dir}
				if os.Getenv("VERIF_DEBUG") != "" {
					fmt.Fprintln(os.Stderr, "behaviour", b.name)
				}
				err := func() (err error) {
					defer func() {
						if r := recover(); r != nil {
							err = fmt.Errorf("harness panic: %v", r)
						}
					}()
					return x.run()
				}()
				// after a violation the objects may be unusable (e.g. a wiped tree): whatever goes wrong
				// in the rest of that behaviour is not the harness being broken
				if err != nil && !errors.Is(err, errAbandon) && !x.failed {
					mu.Lock()
					broken = append(broken, err.Error())
					mu.Unlock()
				}
				rep.AddReplayed(1)
				_ = os.RemoveAll(dir)
			}
		}()
	}
	for i := range bs {
		jobs <- i
	}
	close(jobs)
	wg.Wait()
	if _, replaying := vfutil.ReplayFile(); !replaying && os.Getenv("VERIF_SKIP_LARGE") == "" {
		if err := largeBatches(rep, w, base, workers); err != nil {
			t.Fatal(err)
		}
	}
	if _, replaying := vfutil.ReplayFile(); !replaying && os.Getenv("VERIF_SKIP_SAMEHANDLE") == "" {
		if err := spaceRetrySameHandle(rep, w.world, base); err != nil {
			t.Fatal(err)
		}
	}
	rep.SetExtra("behaviours", len(bs))
	driftMu.Lock()
	if len(driftKinds) > 0 {
		rep.SetExtra("drift_kinds", driftKinds)
	}
	driftMu.Unlock()
	if len(broken) > 0 {
		sort.Strings(broken)
		if len(broken) > 10 {
			broken = broken[:10]
		}
		t.Fatalf("harness could not execute %d behaviours, e.g.:\n%s", len(broken), strings.Join(broken, "\n"))
	}
	complete = true
}
