// Batch size is part of the explored space (seeded change C10-m2: AddAll writing more than 64 changes in
// several transactions). Persist.tla's programs are parametric in the number of inserts; the model checker
// only reaches batches of 1-2 changes, so the large ones are driven here: one AddRawChanges with a chain of
// 1, 2, 65, 130 (thorough: 300) changes on an eagerly created tree storage and on a deferred one, first
// without a fault (the recorded call sequence must be the spec's program for that size: ONE begin ... ONE
// commit), then once per selected boundary and fate - every boundary for the small batches; for the large ones
// every call that is not a change insert (each begin / savepoint / heads upsert / commit / release the code
// issues) and sampled inserts - with all oracles of the replay (crash image in {pre, post}, durable
// consistency, reopen, live = stored, retry).
package persist

import (
	"fmt"
	"os"
	"path/filepath"
	"sort"
	"strconv"
	"strings"
	"sync"

	"verifharness/vfutil"
)

var spaceProg = []string{"begin", "mkcoll:changes", "mkindex:changes", "mkcoll:state", "insert:state", "mkcoll:heads",
	"mkindex:heads", "mkindex:heads", "mkindex:heads", "mkcoll:acl", "mkindex:acl", "insert:acl", "upsert:heads",
	"insert:changes", "upsert:heads", "commit"}

// addProg is AddProg of Persist.tla for n new changes.
func addProg(n int, deferred bool) []string {
	var p []string
	if deferred {
		p = append(p, "begin", "insert:changes", "upsert:heads", "sp")
	} else {
		p = append(p, "begin")
	}
	for i := 0; i < n; i++ {
		p = append(p, "insert:changes")
	}
	if deferred {
		return append(p, "upsert:heads", "release", "commit")
	}
	return append(p, "upsert:heads", "commit")
}

func largeBehaviour(n int, deferred bool, fat int, fate string) *behaviour {
	const nt, tree = 3, 2
	b := &behaviour{NT: nt}
	for t := 1; t <= nt; t++ {
		b.Changes = append(b.Changes, changeProj{Id: t, Tree: t, Snap: true, Acl: 1})
	}
	var set []int
	for i := 0; i < n; i++ {
		id := nt + 1 + i
		prev := id - 1
		if i == 0 {
			prev = tree
		}
		b.Changes = append(b.Changes, changeProj{Id: id, Tree: tree, Prev: []int{prev}, Base: tree, Acl: 1})
		set = append(set, id)
	}
	ok := func(s step) step { s.Fate, s.Res, s.NoProj = "ok", "ok", true; return s }
	b.Steps = append(b.Steps, ok(step{A: "op", Kind: "space", T: 1, Prog: spaceProg}))
	if deferred {
		b.Steps = append(b.Steps, ok(step{A: "deferred", T: tree}))
	} else {
		b.Steps = append(b.Steps, ok(step{A: "op", Kind: "create", T: tree, Prog: []string{"begin", "insert:changes", "upsert:heads", "commit"}}))
	}
	for _, id := range set {
		b.Steps = append(b.Steps, ok(step{A: "author", T: tree, New: []int{id}}))
	}
	add := step{A: "op", Kind: "remote", T: tree, Set: set, New: set, Prog: addProg(n, deferred), Fat: fat, Fate: fate, NoProj: true}
	switch fate {
	case "ok":
		add.Res = "ok"
	case "error":
		add.Res = "injected"
	case "crash":
		add.Res = "crash"
	}
	b.Steps = append(b.Steps, add)
	if fate == "error" {
		// the caller re-issues the same payload
		b.Steps = append(b.Steps, ok(step{A: "op", Kind: "remote", T: tree, Set: set, New: set, Prog: addProg(n, deferred), Retry: true}))
	}
	kind := "eager"
	if deferred {
		kind = "deferred"
	}
	b.name = fmt.Sprintf("large/%s-%d-%s@%d", kind, n, fate, fat)
	return b
}

// boundaries: every call of a small batch; for a large one every call that is not an insert of a change plus
// the inserts next to the multiples of 64 (where a per-transaction limit would cut), the first, the last and
// every 50th.
func boundaries(seq []string) []int {
	var res []int
	ins := 0
	for i, c := range seq {
		k := i + 1
		if len(seq) <= 12 || c != "insert:changes" {
			res = append(res, k)
			continue
		}
		ins++
		if m := ins % 64; ins == 1 || i == len(seq)-3 || ins%50 == 0 || m == 63 || m == 0 || m == 1 || m == 2 {
			res = append(res, k)
		}
	}
	return res
}

func largeBatches(rep *vfutil.Report, w *worldX, base string, workers int) error {
	sizes := []int{1, 2, 65, 130}
	if vfutil.Thorough() {
		sizes = append(sizes, 300)
	}
	if v := os.Getenv("VERIF_LARGE_SIZES"); v != "" {
		sizes = nil
		for _, f := range strings.Split(v, ",") {
			if n, err := strconv.Atoi(f); err == nil {
				sizes = append(sizes, n)
			}
		}
	}
	var (
		mu     sync.Mutex
		broken []string
		n      int
	)
	runOne := func(b *behaviour) *runner {
		mu.Lock()
		n++
		dir := filepath.Join(base, fmt.Sprintf("large%05d", n))
		mu.Unlock()
		x := &runner{w: w, b: b, rep: rep, base: dir}
		err := func() (err error) {
			defer func() {
				if r := recover(); r != nil {
					err = fmt.Errorf("harness panic: %v", r)
				}
			}()
			return x.run()
		}()
		if err != nil && err != errAbandon && !strings.Contains(err.Error(), errAbandon.Error()) && !x.failed {
			mu.Lock()
			broken = append(broken, err.Error())
			mu.Unlock()
		}
		rep.AddReplayed(1)
		_ = os.RemoveAll(dir)
		return x
	}
	var jobs []*behaviour
	for _, size := range sizes {
		for _, deferred := range []bool{false, true} {
			// 1. without a fault: records the call sequence the code really issues for this size (compared with
			//    the spec's program by the runner: a second transaction is reported as drift here and, below,
			//    exposed to a crash / an error at each of its calls)
			x := runOne(largeBehaviour(size, deferred, 0, "ok"))
			for _, k := range boundaries(x.lastSeq) {
				jobs = append(jobs, largeBehaviour(size, deferred, k, "error"), largeBehaviour(size, deferred, k, "crash"))
			}
		}
	}
	sort.Slice(jobs, func(i, j int) bool { return len(jobs[i].Changes) > len(jobs[j].Changes) })
	ch := make(chan *behaviour)
	var wg sync.WaitGroup
	for k := 0; k < workers; k++ {
		wg.Add(1)
		go func() {
			defer wg.Done()
			for b := range ch {
				runOne(b)
			}
		}()
	}
	for _, b := range jobs {
		ch <- b
	}
	close(ch)
	wg.Wait()
	rep.SetExtra("large_batch_cases", len(jobs)+2*len(sizes))
	if len(broken) > 0 {
		sort.Strings(broken)
		return fmt.Errorf("large batches: harness could not execute %d cases, e.g. %s", len(broken), broken[0])
	}
	return nil
}
