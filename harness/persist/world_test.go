// Real-object fixture for C10: one account, one space payload, "author" replicas on plain
// any-store databases that produce signed changes / ACL records, and the replica under test
// whose database is the proxy.
package persist

import (
	"context"
	"fmt"
	"os"
	"path/filepath"
	"sort"
	"strings"
	"sync"

	anystore "github.com/anyproto/any-store"

	"github.com/anyproto/any-sync/commonspace/headsync/headstorage"
	"github.com/anyproto/any-sync/commonspace/object/accountdata"
	"github.com/anyproto/any-sync/commonspace/object/acl/list"
	"github.com/anyproto/any-sync/commonspace/object/acl/list/listtest"
	"github.com/anyproto/any-sync/commonspace/object/acl/recordverifier"
	"github.com/anyproto/any-sync/commonspace/object/tree/objecttree"
	"github.com/anyproto/any-sync/commonspace/object/tree/treechangeproto"
	"github.com/anyproto/any-sync/commonspace/object/tree/treestorage"
	"github.com/anyproto/any-sync/commonspace/spacepayloads"
	"github.com/anyproto/any-sync/commonspace/spacestorage"
	"github.com/anyproto/any-sync/consensus/consensusproto"
	"github.com/anyproto/any-sync/util/crypto"
)

var ctx = context.Background()

type world struct {
	keys    *accountdata.AccountKeys
	payload spacestorage.SpaceStorageCreatePayload
	spaceId string
	dir     string
	nAuthor int
}

func newWorld(dir string) (*world, error) {
	keys, err := accountdata.NewRandom()
	if err != nil {
		return nil, err
	}
	master, _, err := crypto.GenerateRandomEd25519KeyPair()
	if err != nil {
		return nil, err
	}
	meta, _, err := crypto.GenerateRandomEd25519KeyPair()
	if err != nil {
		return nil, err
	}
	readKey, err := crypto.NewRandomAES()
	if err != nil {
		return nil, err
	}
	pl, err := spacepayloads.StoragePayloadForSpaceCreate(spacepayloads.SpaceCreatePayload{
		SigningKey:     keys.SignKey,
		SpaceType:      "verif.space",
		ReplicationKey: 7,
		SpacePayload:   []byte("verif"),
		MasterKey:      master,
		ReadKey:        readKey,
		MetadataKey:    meta,
		Metadata:       []byte("owner"),
	})
	if err != nil {
		return nil, err
	}
	return &world{keys: keys, payload: pl, spaceId: pl.SpaceHeaderWithId.Id, dir: dir}, nil
}

// replica is a real space (storage + ACL + trees) on one database.
// headObs is what a head-storage observer (head sync's diff) has been told.
type headObs struct {
	mu   sync.Mutex
	last map[string][]string
}

func (o *headObs) OnUpdate(e headstorage.HeadsEntry) {
	o.mu.Lock()
	o.last[e.Id] = sortedCopy(e.Heads)
	o.mu.Unlock()
}

// attachObserver: like head sync at start-up, the observer first reads what is stored.
func (r *replica) attachObserver(st *absState) {
	r.obs = &headObs{last: map[string][]string{}}
	for id, h := range st.Heads {
		r.obs.last[id] = sortedCopy(h.Heads)
	}
	r.ss.HeadStorage().AddObserver(r.obs)
}

// observerAgrees: every head set the observers were told is the stored one.
func (r *replica) observerAgrees(cur *absState) string {
	if r.obs == nil {
		return ""
	}
	r.obs.mu.Lock()
	defer r.obs.mu.Unlock()
	for id, told := range r.obs.last {
		if stored := sortedCopy(cur.Heads[id].Heads); strings.Join(told, ",") != strings.Join(stored, ",") {
			return fmt.Sprintf("observers were told heads %v of %s, stored heads are %v", shorts(told), short(id), shorts(stored))
		}
	}
	return ""
}

type replica struct {
	obs   *headObs
	w     *world
	path  string
	db    anystore.DB
	px    *proxyDB // nil for author replicas
	ss    spacestorage.SpaceStorage
	acl   list.AclList
	trees map[string]objecttree.ObjectTree
}

func (w *world) newAuthor() (*replica, error) {
	w.nAuthor++
	path := filepath.Join(w.dir, fmt.Sprintf("author%d", w.nAuthor))
	if err := os.MkdirAll(path, 0o755); err != nil {
		return nil, err
	}
	db, err := anystore.Open(ctx, filepath.Join(path, "db"), nil)
	if err != nil {
		return nil, err
	}
	r := &replica{w: w, path: path, db: db, trees: map[string]objecttree.ObjectTree{}}
	if r.ss, err = spacestorage.Create(ctx, db, w.payload); err != nil {
		return nil, err
	}
	return r, r.buildAcl()
}

func (r *replica) buildAcl() error {
	st, err := r.ss.AclStorage()
	if err != nil {
		return err
	}
	r.acl, err = list.BuildAclListWithIdentity(r.w.keys, st, recordverifier.NewValidateFull())
	return err
}

func (r *replica) close() {
	if r.db != nil {
		_ = r.db.Close()
	}
}

// newRoot builds a signed tree root (seed makes distinct trees).
func (r *replica) newRoot(seed string) (*treechangeproto.RawTreeChangeWithId, error) {
	return objecttree.CreateObjectTreeRoot(objecttree.ObjectTreeCreatePayload{
		PrivKey:     r.w.keys.SignKey,
		ChangeType:  "verif.tree",
		SpaceId:     r.w.spaceId,
		IsEncrypted: false,
		Seed:        []byte(seed),
		Timestamp:   1700000000,
	}, r.acl)
}

func (r *replica) createTree(root *treechangeproto.RawTreeChangeWithId) (objecttree.ObjectTree, error) {
	st, err := r.ss.CreateTreeStorage(ctx, treestorage.TreeStorageCreatePayload{
		RootRawChange: root, Changes: []*treechangeproto.RawTreeChangeWithId{root}, Heads: []string{root.Id}})
	if err != nil {
		return nil, err
	}
	t, err := objecttree.BuildObjectTree(st, r.acl)
	if err != nil {
		return nil, err
	}
	r.trees[root.Id] = t
	return t, nil
}

func (r *replica) openTree(id string) (objecttree.ObjectTree, error) {
	st, err := r.ss.TreeStorage(ctx, id)
	if err != nil {
		return nil, err
	}
	t, err := objecttree.BuildObjectTree(st, r.acl)
	if err != nil {
		return nil, err
	}
	r.trees[id] = t
	return t, nil
}

func (r *replica) content(data string, snapshot bool) objecttree.SignableChangeContent {
	return objecttree.SignableChangeContent{Data: []byte(data), Key: r.w.keys.SignKey, IsSnapshot: snapshot,
		ShouldBeEncrypted: false, Timestamp: 1700000001, DataType: "verif"}
}

func (r *replica) addLocal(t objecttree.ObjectTree, data string, snapshot bool) (objecttree.AddResult, error) {
	t.Lock()
	defer t.Unlock()
	return t.AddContent(ctx, r.content(data, snapshot))
}

func (r *replica) addRemote(t objecttree.ObjectTree, heads []string, raw []*treechangeproto.RawTreeChangeWithId) (objecttree.AddResult, error) {
	t.Lock()
	defer t.Unlock()
	return t.AddRawChanges(ctx, objecttree.RawChangesPayload{NewHeads: heads, RawChanges: raw})
}

// nextAclRecord builds (does not add) a valid ACL record on top of the replica's current ACL head.
func (r *replica) nextAclRecord() (*consensusproto.RawRecordWithId, error) {
	r.acl.RLock()
	defer r.acl.RUnlock()
	inv, err := r.acl.RecordBuilder().BuildInvite()
	if err != nil {
		return nil, err
	}
	return listtest.WrapAclRecord(inv.InviteRec), nil
}

func (r *replica) addAcl(rec *consensusproto.RawRecordWithId) error {
	r.acl.Lock()
	defer r.acl.Unlock()
	return r.acl.AddRawRecord(rec)
}

func sortedCopy(s []string) []string {
	c := append([]string{}, s...)
	sort.Strings(c)
	return c
}
