// Abstract durable state of a space database (the `disk` variable of Persist.tla), read straight
// from the any-store collections - not through the code under test - plus the property's
// durable-consistency predicates on it.
package persist

import (
	"encoding/json"
	"errors"
	"fmt"
	"sort"

	anystore "github.com/anyproto/any-store"
	"github.com/anyproto/any-store/anyenc"
)

type absChange struct {
	Id   string   `json:"id"`
	Tree string   `json:"tree"`
	Prev []string `json:"prev"`
	Base string   `json:"base"` // snapshot the change is based on ("" for a root)
	Ord  string   `json:"ord"`
}

type absHeads struct {
	Heads   []string `json:"heads"`
	CS      string   `json:"cs"`
	Deleted int      `json:"deleted"`
}

type absRec struct {
	Id   string `json:"id"`
	Prev string `json:"prev"`
	Ord  int    `json:"ord"`
}

type absState struct {
	Colls   []string             `json:"colls"`
	Space   string               `json:"space"` // state doc: space id ("" = no state doc)
	AclId   string               `json:"aclId"`
	SetId   string               `json:"settingsId"`
	Heads   map[string]absHeads  `json:"heads"`
	Changes map[string]absChange `json:"changes"`
	Acl     []absRec             `json:"acl"` // sorted by order
}

func (s *absState) key() string {
	b, _ := json.Marshal(s)
	return string(b)
}

func strArr(v *anyenc.Value, key string) []string {
	arr := v.GetArray(key)
	res := make([]string, 0, len(arr))
	for _, a := range arr {
		b, _ := a.StringBytes()
		res = append(res, string(b))
	}
	sort.Strings(res)
	return res
}

func eachDoc(db anystore.DB, coll string, f func(v *anyenc.Value)) error {
	c, err := db.OpenCollection(ctx, coll)
	if err != nil {
		if errors.Is(err, anystore.ErrCollectionNotFound) {
			return nil
		}
		return err
	}
	it, err := c.Find(nil).Iter(ctx)
	if err != nil {
		return err
	}
	defer it.Close()
	for it.Next() {
		d, err := it.Doc()
		if err != nil {
			return err
		}
		f(d.Value())
	}
	return it.Err()
}

// readState reads the abstract durable state through a plain any-store handle.
func readState(db anystore.DB) (*absState, error) {
	st := &absState{Heads: map[string]absHeads{}, Changes: map[string]absChange{}, Acl: []absRec{}}
	names, err := db.GetCollectionNames(ctx)
	if err != nil {
		return nil, err
	}
	if err = eachDoc(db, "state", func(v *anyenc.Value) {
		st.Space, st.AclId, st.SetId = v.GetString("id"), v.GetString("a"), v.GetString("s")
	}); err != nil {
		return nil, err
	}
	aclColl := ""
	for _, n := range names {
		switch n {
		case "changes", "heads", "state":
			st.Colls = append(st.Colls, n)
		default:
			st.Colls = append(st.Colls, "acl")
			aclColl = n
		}
	}
	sort.Strings(st.Colls)
	if err = eachDoc(db, "heads", func(v *anyenc.Value) {
		st.Heads[v.GetString("id")] = absHeads{Heads: strArr(v, "h"), CS: v.GetString("s"), Deleted: v.GetInt("d")}
	}); err != nil {
		return nil, err
	}
	if err = eachDoc(db, "changes", func(v *anyenc.Value) {
		id := v.GetString("id")
		st.Changes[id] = absChange{Id: id, Tree: v.GetString("t"), Prev: strArr(v, "p"), Base: v.GetString("i"), Ord: v.GetString("o")}
	}); err != nil {
		return nil, err
	}
	if aclColl != "" {
		if st.AclId != "" && aclColl != st.AclId {
			return nil, fmt.Errorf("unexpected collection %q", aclColl)
		}
		if err = eachDoc(db, aclColl, func(v *anyenc.Value) {
			st.Acl = append(st.Acl, absRec{Id: v.GetString("id"), Prev: v.GetString("p"), Ord: v.GetInt("o")})
		}); err != nil {
			return nil, err
		}
		sort.Slice(st.Acl, func(i, j int) bool { return st.Acl[i].Ord < st.Acl[j].Ord })
	}
	return st, nil
}

// durable evaluates the property's durable-consistency predicates; it returns (predicate, detail)
// of the first one that fails, or "".
func (s *absState) durable() (string, string) {
	if s.Space == "" {
		// no space: nothing else may exist (space creation is all-or-nothing)
		if len(s.Heads) != 0 || len(s.Changes) != 0 || len(s.Acl) != 0 {
			return "SpaceAllOrNothing", fmt.Sprintf("no state document but %d heads entries, %d changes, %d acl records", len(s.Heads), len(s.Changes), len(s.Acl))
		}
		return "", ""
	}
	// the space's own objects exist
	if _, ok := s.Heads[s.SetId]; !ok {
		return "SpaceAllOrNothing", "state document without settings tree heads entry"
	}
	if _, ok := s.Heads[s.AclId]; !ok {
		return "SpaceAllOrNothing", "state document without acl heads entry"
	}
	byTree := map[string][]absChange{}
	for _, c := range s.Changes {
		byTree[c.Tree] = append(byTree[c.Tree], c)
	}
	for id, h := range s.Heads {
		if id == s.AclId {
			continue
		}
		if len(byTree[id]) == 0 && h.Deleted == 0 {
			// a tree whose changes were deleted keeps its heads entry only while marked deleted;
			// storage.Delete alone (no status) leaves the entry: reported by HeadsNameStored below
		}
		for _, hd := range h.Heads {
			c, ok := s.Changes[hd]
			if !ok || c.Tree != id {
				if len(byTree[id]) == 0 {
					continue // deleted tree: entry without changes is the post-state of Delete
				}
				return "HeadsNameStored", fmt.Sprintf("tree %s: head %s is not a stored change", short(id), short(hd))
			}
		}
		if len(byTree[id]) > 0 {
			if len(h.Heads) == 0 {
				return "HeadsNameStored", fmt.Sprintf("tree %s: empty heads", short(id))
			}
			if c, ok := s.Changes[h.CS]; !ok || c.Tree != id {
				return "HeadsNameStored", fmt.Sprintf("tree %s: common snapshot %s is not stored", short(id), short(h.CS))
			}
		}
	}
	for t, cs := range byTree {
		if _, ok := s.Heads[t]; !ok {
			return "HeadsNameStored", fmt.Sprintf("tree %s: %d stored changes but no heads entry", short(t), len(cs))
		}
		ords := map[string]string{}
		for _, c := range cs {
			if prev, dup := ords[c.Ord]; dup {
				return "OrderRespectsCausality", fmt.Sprintf("tree %s: changes %s and %s share order id", short(t), short(prev), short(c.Id))
			}
			ords[c.Ord] = c.Id
			if c.Id == t {
				continue
			}
			if len(c.Prev) == 0 {
				return "ParentsAndBaseStored", fmt.Sprintf("tree %s: non-root change %s has no parents", short(t), short(c.Id))
			}
			for _, p := range c.Prev {
				pc, ok := s.Changes[p]
				if !ok || pc.Tree != t {
					return "ParentsAndBaseStored", fmt.Sprintf("tree %s: parent %s of stored change %s is missing", short(t), short(p), short(c.Id))
				}
				if !(pc.Ord < c.Ord) {
					return "OrderRespectsCausality", fmt.Sprintf("tree %s: change %s (order %q) is not after its parent %s (order %q)", short(t), short(c.Id), c.Ord, short(p), pc.Ord)
				}
			}
			bc, ok := s.Changes[c.Base]
			if !ok || bc.Tree != t {
				return "ParentsAndBaseStored", fmt.Sprintf("tree %s: snapshot base %s of stored change %s is missing", short(t), short(c.Base), short(c.Id))
			}
		}
	}
	// ACL: a chain root..head with orders 1..n, heads entry = last record
	if len(s.Acl) == 0 {
		return "AclHeadIsLastRecord", "no acl records"
	}
	for i, r := range s.Acl {
		if r.Ord != i+1 {
			return "AclHeadIsLastRecord", fmt.Sprintf("acl record %s has order %d at position %d", short(r.Id), r.Ord, i+1)
		}
		if i == 0 && (r.Id != s.AclId || r.Prev != "") {
			return "AclHeadIsLastRecord", "first acl record is not the root"
		}
		if i > 0 && r.Prev != s.Acl[i-1].Id {
			return "AclHeadIsLastRecord", fmt.Sprintf("acl record %s (order %d) does not follow its predecessor", short(r.Id), r.Ord)
		}
	}
	ah := s.Heads[s.AclId]
	if len(ah.Heads) != 1 || ah.Heads[0] != s.Acl[len(s.Acl)-1].Id {
		return "AclHeadIsLastRecord", fmt.Sprintf("acl heads entry %v is not the last stored record %s", shorts(ah.Heads), short(s.Acl[len(s.Acl)-1].Id))
	}
	return "", ""
}

func short(id string) string {
	if len(id) > 8 {
		return id[len(id)-8:]
	}
	return id
}

func shorts(ids []string) []string {
	r := make([]string, len(ids))
	for i, x := range ids {
		r[i] = short(x)
	}
	return r
}
