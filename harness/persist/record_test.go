// Random driver that records a trace of the real storage stack for PersistTrace.tla (code -> spec).
//
// Beyond the model-checked bounds: 3 trees, up to 9 changes, 3 ACL records, several faults per run.
// One NDJSON line per spec step (see PersistTrace.tla). The driver only follows the protocol of the
// spec (an operation that failed with an injected error is re-issued with the same input; after a
// crash the database is reopened); everything logged is an observation of the real code: the names
// of the storage calls as the proxy saw them, the result, the durable state read from the
// collections and the state of the live objects.
package persist

import (
	"fmt"
	"math/rand"
	"os"
	"path/filepath"
	"sort"
	"testing"

	"go.uber.org/zap"

	"github.com/anyproto/any-sync/app/logger"
	"github.com/anyproto/any-sync/commonspace/object/tree/objecttree"
	"github.com/anyproto/any-sync/commonspace/object/tree/treechangeproto"
	"github.com/anyproto/any-sync/commonspace/object/tree/treestorage"
	"github.com/anyproto/any-sync/commonspace/spacestorage"
	"github.com/anyproto/any-sync/consensus/consensusproto"

	"verifharness/vfutil"
)

const (
	recNT     = 3
	recMaxId  = 9
	recMaxAcl = 3
)

type uchange struct {
	id   int
	tree int
	prev []int
	base int
	snap bool
	loc  bool
	acl  int
	raw  *treechangeproto.RawTreeChangeWithId
}

type recorder struct {
	w    *worldX
	rnd  *rand.Rand
	tw   *vfutil.TraceWriter
	rep  *vfutil.Report
	base string
	run  int
	gen  int

	px  *proxyDB
	r   *replica
	u   map[int]*uchange // universe by spec id
	ids map[string]int   // real id -> spec id
	nxt int
	// live tree bookkeeping
	deferred map[int]bool
	deleted  map[int]bool
	faults   int
	plan     *[2]int      // fixed fault plan (error at, crash at) instead of a random one
	failed   bool         // a live object disagrees with storage: the rest of the run may not be executable
	pending  func() error // re-issue of the operation that failed
}

func (c *recorder) ev(m map[string]any) { c.tw.Emit(m) }

func (c *recorder) chain(id int) map[int]bool {
	res := map[int]bool{}
	for id != 0 {
		if c.u[id].snap {
			res[id] = true
		}
		id = c.u[id].base
	}
	return res
}

func (c *recorder) csnap(heads []int) int {
	best := 0
	first := c.chain(heads[0])
	for s := range first {
		ok := true
		for _, h := range heads[1:] {
			ok = ok && c.chain(h)[s]
		}
		if ok && s > best {
			best = s
		}
	}
	return best
}

func (c *recorder) anc(a, b int) bool {
	if a == b {
		return true
	}
	for _, p := range c.u[b].prev {
		if c.anc(a, p) {
			return true
		}
	}
	return false
}

func (c *recorder) ofTree(t int) []int {
	var res []int
	for id, ch := range c.u {
		if ch.tree == t {
			res = append(res, id)
		}
	}
	sort.Ints(res)
	return res
}

func (c *recorder) openDB(path string) error {
	px, err := openProxy(ctx, path)
	if err != nil {
		return err
	}
	px.aclId = c.w.payload.AclWithId.Id
	c.px = px
	c.r = &replica{w: c.w.world, db: px, px: px, trees: map[string]objecttree.ObjectTree{}}
	c.deferred, c.deleted = map[int]bool{}, map[int]bool{}
	return nil
}

func (c *recorder) specIds(real []string) []int {
	res := make([]int, 0, len(real))
	for _, r := range real {
		res = append(res, c.ids[r])
	}
	sort.Ints(res)
	return res
}

// projections of the real durable / live state in spec ids
func (c *recorder) projections() (map[string]any, map[string]any, *absState, error) {
	st, err := readState(c.px.DB)
	if err != nil {
		return nil, nil, nil, err
	}
	heads := make([]map[string]any, recNT)
	for t := 1; t <= recNT; t++ {
		h, ok := st.Heads[c.w.roots[t].Id]
		heads[t-1] = map[string]any{"on": ok, "hs": c.specIds(h.Heads), "cs": c.ids[h.CS]}
	}
	var stored []string
	for id := range st.Changes {
		stored = append(stored, id)
	}
	acl := []int{}
	for _, r := range st.Acl {
		acl = append(acl, c.w.aclIndex(r.Id))
	}
	aclHead := 0
	if st.Space != "" {
		if h := st.Heads[st.AclId].Heads; len(h) == 1 {
			aclHead = c.w.aclIndex(h[0])
		}
	}
	disk := map[string]any{"space": st.Space != "", "heads": heads, "stored": c.specIds(stored), "acl": acl, "aclHead": aclHead}
	memAcl := 0
	if c.r.acl != nil {
		c.r.acl.RLock()
		memAcl = c.w.aclIndex(c.r.acl.Head().Id)
		c.r.acl.RUnlock()
	}
	tr := make([]map[string]any, recNT)
	for t := 1; t <= recNT; t++ {
		live := c.r.trees[c.w.roots[t].Id]
		switch {
		case live == nil:
			tr[t-1] = map[string]any{"st": "closed", "hs": []int{}, "root": 0}
		case c.deleted[t]:
			tr[t-1] = map[string]any{"st": "deleted", "hs": []int{}, "root": 0}
		default:
			live.Lock()
			root := 0
			if r := live.Root(); r != nil {
				root = c.ids[r.Id]
			}
			tr[t-1] = map[string]any{"st": "open", "hs": c.specIds(live.Heads()), "root": root}
			live.Unlock()
		}
	}
	obs := make([][]int, recNT)
	obsAcl := 0
	for t := range obs {
		obs[t] = []int{}
	}
	if c.r.obs != nil {
		c.r.obs.mu.Lock()
		for t := 1; t <= recNT; t++ {
			obs[t-1] = c.specIds(c.r.obs.last[c.w.roots[t].Id])
		}
		if h := c.r.obs.last[c.w.payload.AclWithId.Id]; len(h) == 1 {
			obsAcl = c.w.aclIndex(h[0])
		}
		c.r.obs.mu.Unlock()
	}
	known := []int{}
	if c.r.acl != nil {
		c.r.acl.RLock()
		for i, rec := range c.w.aclRecs {
			if c.r.acl.HasHead(rec.Id) {
				known = append(known, i+1)
			}
		}
		c.r.acl.RUnlock()
	}
	mem := map[string]any{"space": c.r.ss != nil, "acl": memAcl, "known": known, "tr": tr, "obs": obs, "obsAcl": obsAcl}
	return disk, mem, st, nil
}

// execute runs one operation with an optional fault and logs start / calls / end.
func (c *recorder) execute(start map[string]any, do func() error, reissue func() error) error {
	errAt, crashAt := 0, 0
	if c.plan != nil {
		errAt, crashAt = c.plan[0], c.plan[1]
	} else if c.faults < 3 && c.rnd.Intn(3) == 0 {
		k := 1 + c.rnd.Intn(9)
		if c.rnd.Intn(2) == 0 {
			errAt = k
		} else {
			crashAt = k
		}
	}
	start["ev"] = "start"
	c.ev(start)
	pre, err := readState(c.px.DB)
	if err != nil {
		return err
	}
	snapDir := ""
	if crashAt > 0 {
		snapDir = filepath.Join(c.base, fmt.Sprintf("r%d-img%d", c.run, c.gen+1))
	}
	c.px.begin(errAt, snapDir, crashAt)
	opErr := do()
	hit := c.px.errHit
	crashed := len(c.px.snapped) > 0
	calls := c.px.end()
	if c.px.snapErr != nil {
		return c.px.snapErr
	}
	n := 0
	committed := false
	for _, cl := range calls {
		if cl.Op == "rollback" || cl.Op == "rollbacksp" {
			continue
		}
		n++
		if batch, _ := start["batch"].(bool); batch && committed && cl.Op == "begin" {
			// AddRawRecords goes on with its next record: one spec operation per record
			cont := map[string]any{}
			for k, v := range start {
				cont[k] = v
			}
			cont["cont"] = true
			c.ev(cont)
			committed = false
		}
		if cl.Op == "commit" {
			committed = true
		}
		if crashed && n == crashAt {
			break
		}
		fate := "ok"
		if hit && n == errAt {
			fate = "error"
		}
		c.ev(map[string]any{"ev": "call", "name": callName(cl), "fate": fate})
	}
	kind := start["kind"].(string)
	c.rep.Case(fmt.Sprintf("%s|err%d|crash%d", kind, errAt*b2i(hit), crashAt*b2i(crashed)))
	if crashed {
		c.faults++
		c.ev(map[string]any{"ev": "crash"})
		_ = c.px.DB.Close()
		c.gen++
		if err := c.openDB(filepath.Join(snapDir, fmt.Sprintf("%03d", crashAt), "db")); err != nil {
			return err
		}
		c.pending = nil
		disk, mem, st, err := c.projections()
		if err != nil {
			return err
		}
		c.ev(map[string]any{"ev": "end", "res": "crash", "disk": disk, "mem": mem})
		if p, d := st.durable(); p != "" {
			c.rep.Violate(p+":record:crash:"+kind, "crash image: "+d, map[string]any{"recorded_run": c.run, "seed": vfutil.Seed(), "op": start})
		}
		if st.Space != "" {
			ss, err := spacestorage.New(ctx, c.w.spaceId, c.px)
			if err != nil {
				c.rep.Violate("ReopenValid:space:record", "spacestorage.New fails on a crash image: "+err.Error(), nil)
				return errAbandon
			}
			c.r.ss = ss
			if err = c.r.buildAcl(); err != nil {
				c.rep.Violate("ReopenValid:acl:record", "BuildAclListWithIdentity fails on a crash image: "+err.Error(), nil)
				return errAbandon
			}
			c.r.attachObserver(st)
			c.ev(map[string]any{"ev": "reopen"})
		}
		return nil
	}
	if hit {
		c.faults++
	}
	if kind == "space" && opErr != nil {
		path := c.px.path
		_ = c.px.DB.Close()
		if err := c.openDB(path); err != nil {
			return err
		}
	}
	if kind == "space" && opErr == nil {
		if err := c.r.buildAcl(); err != nil {
			return err
		}
		if st, err := readState(c.px.DB); err == nil {
			c.r.attachObserver(st)
		}
	}
	res := "ok"
	switch {
	case opErr != nil && hit:
		res = "injected"
		c.pending = reissue
	case opErr != nil:
		res = "refused"
	}
	disk, mem, cur, err := c.projections()
	if err != nil {
		return err
	}
	c.ev(map[string]any{"ev": "end", "res": res, "disk": disk, "mem": mem, "err": fmt.Sprint(opErr)})
	// the property predicates on what was observed (the trace spec sees the same observations)
	where := fmt.Sprintf("record:%s", kind)
	if batch, _ := start["batch"].(bool); batch {
		where += "-batch"
	}
	replay := map[string]any{"recorded_run": c.run, "seed": vfutil.Seed(), "op": start}
	if hit && opErr == nil {
		c.rep.Violate("error-swallowed:"+where, "an injected storage error was reported as success", replay)
	}
	if batch, _ := start["batch"].(bool); batch {
		// AddRawRecords: all-or-nothing per record - the records committed before the failing one stay
		done := 0
		for _, cl := range calls {
			if cl.Op == "commit" {
				done++
			}
		}
		if hit && done > 0 && calls[len(calls)-1].Op == "commit" {
			done-- // the failing call was this commit (recorded, not performed)
		}
		if opErr != nil {
			if d := batchAtomic(pre, cur, done, done); d != "" {
				c.rep.Violate("Atomic:failed-op-changed-disk:"+where, fmt.Sprintf("AddRawRecords failed (%v): %s", opErr, d), replay)
			}
		}
	} else if opErr != nil && cur.key() != pre.key() {
		c.rep.Violate("Atomic:failed-op-changed-disk:"+where, fmt.Sprintf("operation failed (%v) but the durable state changed", opErr), replay)
	}
	if p, d := cur.durable(); p != "" {
		c.rep.Violate(p+":"+where, "durable state after the operation: "+d, replay)
	}
	treeNo := map[string]int{}
	for t := 1; t <= recNT; t++ {
		treeNo[c.w.roots[t].Id] = t
	}
	failedDelete := 0
	if kind == "delete" && opErr != nil {
		failedDelete = start["t"].(int)
	}
	disagree := liveAgrees(c.r, c.w, cur, treeNo, c.deferred, c.deleted, failedDelete)
	for _, v := range disagree {
		c.rep.Violate("LiveAgreesWithDisk:"+v[0]+":"+where, v[1], replay)
	}
	if len(disagree) > 0 {
		c.failed = true
	}
	if d := c.r.observerAgrees(cur); d != "" {
		c.rep.Violate("ObserverSawUncommitted:headstorage.UpdateEntry", "after "+where+": "+d, replay)
	}
	if retry, _ := start["retry"].(bool); retry && opErr != nil && !hit {
		c.rep.Violate("RetrySucceeds:"+where, fmt.Sprintf("re-issued operation is refused: %v", opErr), replay)
	}
	return nil
}

func b2i(b bool) int {
	if b {
		return 1
	}
	return 0
}

func (c *recorder) liveTrees(usable bool) []int {
	var res []int
	for t := 1; t <= recNT; t++ {
		if c.r.trees[c.w.roots[t].Id] != nil && !c.deleted[t] {
			res = append(res, t)
		}
	}
	return res
}

// one random step; returns false when nothing was possible
func (c *recorder) step() (bool, error) {
	if c.pending != nil {
		p := c.pending
		c.pending = nil
		return true, p()
	}
	st, err := readState(c.px.DB)
	if err != nil {
		return false, err
	}
	if c.r.ss == nil {
		if st.Space != "" {
			return false, fmt.Errorf("space on disk but no live storage")
		}
		return true, c.opSpace(false)
	}
	type cand func() error
	var cands []cand
	for t := 2; t <= recNT; t++ {
		t := t
		_, on := st.Heads[c.w.roots[t].Id]
		if c.r.trees[c.w.roots[t].Id] == nil && !on {
			cands = append(cands, func() error { return c.opCreate(t, false) }, func() error { return c.openDeferred(t) })
		}
	}
	for t := 1; t <= recNT; t++ {
		t := t
		root := c.w.roots[t].Id
		_, on := st.Heads[root]
		_, rootStored := st.Changes[root]
		if c.r.trees[root] == nil && on && rootStored {
			cands = append(cands, func() error { return c.openTree(t) }, func() error { return c.openTree(t) })
		}
		if c.nxt <= recMaxId {
			cands = append(cands, func() error { return c.author(t) })
		}
	}
	for _, t := range c.liveTrees(true) {
		t := t
		if c.nxt <= recMaxId {
			cands = append(cands, func() error { return c.opLocal(t, c.rnd.Intn(3) == 0, false) }, func() error { return c.opLocal(t, false, false) })
		}
		if c.rnd.Intn(5) == 0 {
			cands = append(cands, func() error { return c.opLocalRejected(t, c.rnd.Intn(2) == 0) })
		}
		if len(c.ofTree(t)) > 1 {
			cands = append(cands, func() error { return c.opRemote(t, nil, false) }, func() error { return c.opRemote(t, nil, false) })
		}
		if t != 1 && !c.deferred[t] && c.rnd.Intn(4) == 0 {
			cands = append(cands, func() error { return c.opDelete(t, false) })
		}
	}
	if c.r.acl != nil {
		c.r.acl.RLock()
		idx := c.w.aclIndex(c.r.acl.Head().Id)
		c.r.acl.RUnlock()
		if idx < recMaxAcl+1 {
			cands = append(cands, func() error { return c.opAcl(idx+1, false) })
			n := 1 + c.rnd.Intn(recMaxAcl+1-idx)
			cands = append(cands, func() error { return c.opAclBatch(idx+1, idx+n, false) })
		}
	}
	if len(cands) == 0 {
		return false, nil
	}
	return true, cands[c.rnd.Intn(len(cands))]()
}

func (c *recorder) opSpace(retry bool) error {
	return c.execute(map[string]any{"kind": "space", "t": 1, "snap": false, "set": []int{}, "i": 0, "lo": 0, "hi": 0, "batch": false, "cont": false, "retry": retry, "id": 0},
		func() error {
			ss, err := spacestorage.Create(ctx, c.px, c.w.payload)
			if err == nil {
				c.r.ss = ss
			}
			return err
		}, func() error { return c.opSpace(true) })
}

func (c *recorder) opCreate(t int, retry bool) error {
	return c.execute(map[string]any{"kind": "create", "t": t, "snap": false, "set": []int{}, "i": 0, "lo": 0, "hi": 0, "batch": false, "cont": false, "retry": retry, "id": 0},
		func() error {
			root := c.w.roots[t]
			st, err := c.r.ss.CreateTreeStorage(ctx, treestorage.TreeStorageCreatePayload{RootRawChange: root,
				Changes: []*treechangeproto.RawTreeChangeWithId{root}, Heads: []string{root.Id}})
			if err != nil {
				return err
			}
			c.px.end()
			tr, err := objecttree.BuildObjectTree(st, c.r.acl)
			if err != nil {
				return fmt.Errorf("build after create: %w", err)
			}
			c.r.trees[root.Id] = tr
			return nil
		}, func() error { return c.opCreate(t, true) })
}

func (c *recorder) openDeferred(t int) error {
	root := c.w.roots[t]
	st, err := c.r.ss.CreateStorageWithDeferredCreation(ctx, treestorage.TreeStorageCreatePayload{RootRawChange: root, Heads: []string{root.Id}})
	if err != nil {
		return err
	}
	tr, err := objecttree.BuildObjectTree(st, c.r.acl)
	if err != nil {
		return err
	}
	c.r.trees[root.Id] = tr
	c.deferred[t] = true
	c.ev(map[string]any{"ev": "deferred", "t": t})
	return nil
}

func (c *recorder) openTree(t int) error {
	if _, err := c.r.openTree(c.w.roots[t].Id); err != nil {
		c.rep.Violate("ReopenValid:open-tree:record", fmt.Sprintf("stored tree %d cannot be opened: %v", t, err), nil)
		return errAbandon
	}
	c.ev(map[string]any{"ev": "open", "t": t})
	return nil
}

func (c *recorder) author(t int) error {
	all := c.ofTree(t)
	var prev []int
	a := all[c.rnd.Intn(len(all))]
	prev = []int{a}
	if c.rnd.Intn(3) == 0 {
		b := all[c.rnd.Intn(len(all))]
		if !c.anc(a, b) && !c.anc(b, a) {
			prev = append(prev, b)
		}
	}
	sort.Ints(prev)
	snap := c.rnd.Intn(4) == 0
	base := c.csnap(prev)
	acl := 1
	var realPrev []string
	for _, p := range prev {
		if c.u[p].acl > acl {
			acl = c.u[p].acl
		}
		realPrev = append(realPrev, c.u[p].raw.Id)
	}
	raw, err := c.w.authorChange(t, realPrev, c.u[base].raw.Id, snap, acl)
	if err != nil {
		return err
	}
	if _, exists := c.ids[raw.Id]; exists {
		return nil // the same change exists already (spec: Existing # {}): nothing happens
	}
	id := c.nxt
	c.nxt++
	c.u[id] = &uchange{id: id, tree: t, prev: prev, base: base, snap: snap, acl: acl, raw: raw}
	c.ids[raw.Id] = id
	c.ev(map[string]any{"ev": "author", "t": t, "snap": snap, "prev": prev, "id": id})
	return nil
}

func (c *recorder) opLocal(t int, snap, retry bool) error {
	tree := c.r.trees[c.w.roots[t].Id]
	content := c.r.content("L", snap)
	tree.Lock()
	raw, err := tree.PrepareChange(content)
	heads := c.specIds(tree.Heads())
	root := c.ids[tree.Root().Id]
	tree.Unlock()
	if err != nil {
		return err
	}
	id, known := c.ids[raw.Id]
	if !known {
		id = c.nxt
		c.nxt++
		c.r.acl.RLock()
		acl := c.w.aclIndex(c.r.acl.Head().Id)
		c.r.acl.RUnlock()
		c.u[id] = &uchange{id: id, tree: t, prev: heads, base: root, snap: snap, loc: true, acl: acl, raw: raw}
		c.ids[raw.Id] = id
	}
	return c.execute(map[string]any{"kind": "local", "t": t, "snap": snap, "set": []int{}, "i": 0, "lo": 0, "hi": 0, "batch": false, "cont": false, "retry": retry, "id": id},
		func() error {
			tree.Lock()
			defer tree.Unlock()
			_, err := tree.AddContent(ctx, content)
			if err == nil {
				c.deferred[t] = false
			}
			return err
		}, func() error { return c.opLocal(t, snap, true) })
}

func (c *recorder) opLocalRejected(t int, snap bool) error {
	tree := c.r.trees[c.w.roots[t].Id]
	content := c.r.content("L", snap)
	return c.execute(map[string]any{"kind": "localv", "t": t, "snap": snap, "set": []int{}, "i": 0, "lo": 0, "hi": 0, "batch": false, "cont": false, "retry": false, "id": 0},
		func() error {
			tree.Lock()
			defer tree.Unlock()
			_, err := tree.AddContentWithValidator(ctx, content, func(objecttree.StorageChange) error { return errRejected })
			return err
		}, nil)
}

func (c *recorder) opRemote(t int, set []int, retry bool) error {
	tree := c.r.trees[c.w.roots[t].Id]
	if set == nil {
		all := c.ofTree(t)
		target := all[1+c.rnd.Intn(len(all)-1)]
		for _, id := range all {
			if id != t && c.anc(id, target) {
				set = append(set, id)
			}
		}
	}
	var raws []*treechangeproto.RawTreeChangeWithId
	var heads []string
	for _, i := range set {
		ch := c.u[i]
		raws = append(raws, &treechangeproto.RawTreeChangeWithId{Id: ch.raw.Id, RawChange: append([]byte{}, ch.raw.RawChange...)})
		isHead := true
		for _, j := range set {
			for _, p := range c.u[j].prev {
				isHead = isHead && p != i
			}
		}
		if isHead {
			heads = append(heads, ch.raw.Id)
		}
	}
	return c.execute(map[string]any{"kind": "remote", "t": t, "snap": false, "set": set, "i": 0, "lo": 0, "hi": 0, "batch": false, "cont": false, "retry": retry, "id": 0},
		func() error {
			tree.Lock()
			defer tree.Unlock()
			_, err := tree.AddRawChanges(ctx, objecttree.RawChangesPayload{NewHeads: heads, RawChanges: raws})
			if err == nil {
				c.deferred[t] = false
			}
			return err
		}, func() error { return c.opRemote(t, set, true) })
}

// opAclBatch: AddRawRecords with the records lo..hi (a re-issued batch is the same payload).
func (c *recorder) opAclBatch(lo, hi int, retry bool) error {
	var recs []*consensusproto.RawRecordWithId
	for i := lo; i <= hi; i++ {
		rec := c.w.aclRecs[i-1]
		recs = append(recs, &consensusproto.RawRecordWithId{Id: rec.Id, Payload: append([]byte{}, rec.Payload...)})
	}
	return c.execute(map[string]any{"kind": "acl", "t": 0, "snap": false, "set": []int{}, "i": hi, "lo": lo, "hi": hi, "batch": true,
		"cont": false, "retry": retry, "id": 0},
		func() error {
			c.r.acl.Lock()
			defer c.r.acl.Unlock()
			return c.r.acl.AddRawRecords(recs)
		}, func() error { return c.opAclBatch(lo, hi, true) })
}

func (c *recorder) opAcl(i int, retry bool) error {
	rec := c.w.aclRecs[i-1]
	return c.execute(map[string]any{"kind": "acl", "t": 0, "snap": false, "set": []int{}, "i": i, "lo": i, "hi": i, "batch": false, "cont": false,
		"retry": retry, "id": 0},
		func() error {
			return c.r.addAcl(&consensusproto.RawRecordWithId{Id: rec.Id, Payload: append([]byte{}, rec.Payload...)})
		}, func() error { return c.opAcl(i, true) })
}

func (c *recorder) opDelete(t int, retry bool) error {
	tree := c.r.trees[c.w.roots[t].Id]
	return c.execute(map[string]any{"kind": "delete", "t": t, "snap": false, "set": []int{}, "i": 0, "lo": 0, "hi": 0, "batch": false, "cont": false, "retry": retry, "id": 0},
		func() error {
			tree.Lock()
			defer tree.Unlock()
			err := tree.Delete()
			if err == nil {
				c.deleted[t] = true
			}
			return err
		}, func() error { return c.opDelete(t, true) })
}

func TestRecord(t *testing.T) {
	logger.SetDefault(zap.NewNop())
	rep := vfutil.NewReport("C10")
	complete := false
	defer func() { rep.Save(complete) }()
	base := scratchDir()
	defer os.RemoveAll(base)
	path := os.Getenv("VERIF_TRACE_OUT")
	if path == "" {
		path = filepath.Join(t.TempDir(), "trace.ndjson")
	}
	tw := vfutil.NewTraceWriter(path)
	defer tw.Close()
	w, err := newWorldX(filepath.Join(base, "world"), recNT, recMaxAcl)
	if err != nil {
		t.Fatal(err)
	}
	rnd := vfutil.Rand()
	runs := vfutil.EnvInt("VERIF_RUNS", 30)
	for run := 0; run < runs; run++ {
		c := &recorder{w: w, rnd: rnd, tw: tw, rep: rep, base: base, run: run, u: map[int]*uchange{}, ids: map[string]int{}, nxt: recNT + 1}
		for tr := 1; tr <= recNT; tr++ {
			c.u[tr] = &uchange{id: tr, tree: tr, snap: true, acl: 1, raw: w.roots[tr]}
			c.ids[w.roots[tr].Id] = tr
		}
		dir := filepath.Join(base, fmt.Sprintf("r%d", run))
		if err = os.MkdirAll(dir, 0o755); err != nil {
			t.Fatal(err)
		}
		if err = c.openDB(filepath.Join(dir, "db")); err != nil {
			t.Fatal(err)
		}
		c.ev(map[string]any{"ev": "reset"})
		steps := 10 + rnd.Intn(14)
		for s := 0; s < steps || c.pending != nil; s++ {
			ok, err := func() (ok bool, err error) {
				defer func() {
					if r := recover(); r != nil {
						err = fmt.Errorf("panic: %v", r)
					}
				}()
				return c.step()
			}()
			if err == errAbandon || (err != nil && c.failed) {
				break
			}
			if err != nil {
				t.Fatalf("run %d step %d: %v", run, s, err)
			}
			if !ok {
				break
			}
			rep.AddSteps(1)
		}
		_ = c.px.DB.Close()
		rep.AddReplayed(1)
	}
	rep.SetExtra("trace_events", tw.Len())
	// a second log for PersistTrace with a larger id space: one AddRawChanges with a long chain (batch size is
	// part of the explored space), without a fault, with an error at the commit, with a crash at the heads update
	if lp := os.Getenv("VERIF_TRACE_OUT_LARGE"); lp != "" {
		n := vfutil.EnvInt("VERIF_RECORD_LARGE", 65)
		ltw := vfutil.NewTraceWriter(lp)
		defer ltw.Close()
		for v, plan := range [][2]int{{0, 0}, {n + 3, 0}, {0, n + 2}, {n / 2, 0}} {
			c := &recorder{w: w, rnd: rnd, tw: ltw, rep: rep, base: base, run: runs + v, u: map[int]*uchange{}, ids: map[string]int{}, nxt: recNT + 1}
			for tr := 1; tr <= recNT; tr++ {
				c.u[tr] = &uchange{id: tr, tree: tr, snap: true, acl: 1, raw: w.roots[tr]}
				c.ids[w.roots[tr].Id] = tr
			}
			dir := filepath.Join(base, fmt.Sprintf("rl%d", v))
			if err = os.MkdirAll(dir, 0o755); err != nil {
				t.Fatal(err)
			}
			if err = c.openDB(filepath.Join(dir, "db")); err != nil {
				t.Fatal(err)
			}
			c.ev(map[string]any{"ev": "reset"})
			none := [2]int{0, 0}
			c.plan = &none
			steps := []func() error{func() error { return c.opSpace(false) }, func() error { return c.opCreate(2, false) }}
			for i := 0; i < n; i++ {
				steps = append(steps, func() error { return c.authorChain(2) })
			}
			for _, st := range steps {
				if err = st(); err != nil {
					t.Fatalf("large run %d: %v", v, err)
				}
			}
			p := plan
			c.plan = &p
			var set []int
			for _, id := range c.ofTree(2) {
				if id != 2 {
					set = append(set, id)
				}
			}
			if err = c.opRemote(2, set, false); err != nil && err != errAbandon {
				t.Fatalf("large run %d: %v", v, err)
			}
			c.plan = &none
			if c.pending != nil { // the caller re-issues the payload after the injected error
				pnd := c.pending
				c.pending = nil
				if err = pnd(); err != nil && err != errAbandon {
					t.Fatalf("large run %d retry: %v", v, err)
				}
			}
			_ = c.px.DB.Close()
			rep.AddReplayed(1)
		}
		rep.SetExtra("trace_events_large", ltw.Len())
	}
	complete = true
}

// authorChain appends one change to the chain of tree t (another replica's change on top of the newest one).
func (c *recorder) authorChain(t int) error {
	all := c.ofTree(t)
	prev := []int{all[len(all)-1]}
	raw, err := c.w.authorChange(t, []string{c.u[prev[0]].raw.Id}, c.u[t].raw.Id, false, 1)
	if err != nil {
		return err
	}
	id := c.nxt
	c.nxt++
	c.u[id] = &uchange{id: id, tree: t, prev: prev, base: t, acl: 1, raw: raw}
	c.ids[raw.Id] = id
	c.ev(map[string]any{"ev": "author", "t": t, "snap": false, "prev": prev, "id": id})
	return nil
}
