package persist

import (
	"context"
	"fmt"
	"os"
	"path/filepath"
	"testing"

	"github.com/anyproto/any-sync/commonspace/object/acl/recordverifier"
	"github.com/anyproto/any-sync/commonspace/object/tree/objecttree"
	"github.com/anyproto/any-sync/commonspace/object/tree/treechangeproto"
	"github.com/anyproto/any-sync/commonspace/object/tree/treestorage"
	"github.com/anyproto/any-sync/commonspace/spacestorage"
)

func TestProbe(t *testing.T) {
	if os.Getenv("VERIF_PROBE") == "" {
		t.Skip()
	}
	dir := t.TempDir()
	w, err := newWorld(dir)
	if err != nil {
		t.Fatal(err)
	}
	a1, err := w.newAuthor()
	if err != nil {
		t.Fatal(err)
	}
	a2, err := w.newAuthor()
	if err != nil {
		t.Fatal(err)
	}
	sp := filepath.Join(dir, "subject")
	os.MkdirAll(sp, 0o755)
	px, err := openProxy(ctx, filepath.Join(sp, "db"))
	if err != nil {
		t.Fatal(err)
	}
	px.aclId = w.payload.AclWithId.Id
	show := func(name string, err error) {
		calls := px.end()
		fmt.Printf("%-28s err=%v\n   %v\n", name, err, calls)
		st, serr := readState(px.DB)
		if serr != nil {
			t.Fatal(serr)
		}
		p, d := st.durable()
		fmt.Printf("   durable: %s %s; heads=%d changes=%d acl=%d colls=%v\n", p, d, len(st.Heads), len(st.Changes), len(st.Acl), st.Colls)
	}
	px.begin(0, "", 0)
	ss, err := spacestorage.Create(ctx, px, w.payload)
	show("space create", err)
	s := &replica{w: w, db: px, px: px, ss: ss, trees: map[string]objecttree.ObjectTree{}}
	if err = s.buildAcl(); err != nil {
		t.Fatal(err)
	}
	root, _ := a1.newRoot("t1")
	px.begin(0, "", 0)
	tr, err := s.createTree(root)
	show("tree create eager", err)

	at1, _ := a1.createTree(root)
	at2, _ := a2.createTree(root)

	px.begin(0, "", 0)
	_, err = s.addLocal(tr, "l1", false)
	show("local add", err)

	all := func(tr objecttree.ObjectTree) (res []*treechangeproto.RawTreeChangeWithId) {
		tr.Storage().GetAfterOrder(ctx, "", func(_ context.Context, ch objecttree.StorageChange) (bool, error) {
			res = append(res, &treechangeproto.RawTreeChangeWithId{Id: ch.Id, RawChange: append([]byte{}, ch.RawChange...)})
			return true, nil
		})
		return
	}
	_, err = a1.addRemote(at1, tr.Heads(), all(tr))
	if err != nil {
		t.Fatal(err)
	}
	r1, err := a1.addLocal(at1, "a1", false)
	if err != nil {
		t.Fatal(err)
	}
	r2, _ := a1.addLocal(at1, "a2", false)
	px.begin(0, "", 0)
	_, err = s.addRemote(tr, r2.Heads, append(r1.RawChanges(), r2.RawChanges()...))
	show("remote add (2 changes)", err)

	px.begin(0, "", 0)
	_, err = s.addLocal(tr, "snap", true)
	show("snapshot add (local)", err)

	// author 2 only has root: adds b1 based on root -> for the subject (root = snapshot) a rebuild
	rb, err := a2.addLocal(at2, "b1", false)
	if err != nil {
		t.Fatal(err)
	}
	px.begin(0, "", 0)
	res, err := s.addRemote(tr, rb.Heads, rb.RawChanges())
	show(fmt.Sprintf("remote add rebuild mode=%v", res.Mode), err)

	// remote snapshot
	_, err = a1.addRemote(at1, tr.Heads(), all(tr))
	if err != nil {
		t.Fatal(err)
	}
	rs, err := a1.addLocal(at1, "snap2", true)
	if err != nil {
		t.Fatal(err)
	}
	px.begin(0, "", 0)
	res, err = s.addRemote(tr, rs.Heads, rs.RawChanges())
	show(fmt.Sprintf("remote snapshot add mode=%v", res.Mode), err)

	// acl
	rec, err := a1.nextAclRecord()
	if err != nil {
		t.Fatal(err)
	}
	px.begin(0, "", 0)
	err = s.addAcl(rec)
	show("acl add", err)

	// deferred
	root2, _ := a1.newRoot("t2")
	at3, _ := a1.createTree(root2)
	d1, _ := a1.addLocal(at3, "d1", false)
	px.begin(0, "", 0)
	dt, err := objecttree.ValidateRawTreeDefault(treestorage.TreeStorageCreatePayload{RootRawChange: root2,
		Changes: append([]*treechangeproto.RawTreeChangeWithId{root2}, d1.RawChanges()...), Heads: d1.Heads}, s.ss, s.acl)
	show("deferred create + add", err)
	_ = dt
	root3, _ := a1.newRoot("t3")
	px.begin(0, "", 0)
	_, err = objecttree.ValidateRawTreeDefault(treestorage.TreeStorageCreatePayload{RootRawChange: root3,
		Changes: []*treechangeproto.RawTreeChangeWithId{root3}, Heads: []string{root3.Id}}, s.ss, s.acl)
	show("deferred create root only", err)

	px.begin(0, "", 0)
	err = tr.Delete()
	show("delete", err)
	_ = recordverifier.NewValidateFull
}
