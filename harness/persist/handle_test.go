package persist

import (
	"fmt"
	"os"
	"path/filepath"

	"github.com/anyproto/any-sync/commonspace/spacestorage"

	"verifharness/vfutil"
)

// spaceRetrySameHandle: spacestorage.Create fails at boundary k (every k), the caller calls it
// again with the same input on the SAME any-store handle. The property asks that the same input is
// accepted again. (The replay gives the retry a fresh handle, see stepOp; this is the only place
// where the handle is kept.) Runs at the end of TestReplay.
func spaceRetrySameHandle(rep *vfutil.Report, w *world, base string) error {
	for k := 1; k <= 16; k++ {
		dir := filepath.Join(base, "samehandle", string(rune('a'+k)))
		if err := os.MkdirAll(dir, 0o755); err != nil {
			return err
		}
		px, err := openProxy(ctx, filepath.Join(dir, "db"))
		if err != nil {
			return err
		}
		px.aclId = w.payload.AclWithId.Id
		px.begin(k, "", 0)
		create := func() (err error) {
			defer func() {
				if r := recover(); r != nil {
					err = fmt.Errorf("panic: %v", r)
					rep.Violate("panic:space", fmt.Sprintf("spacestorage.Create panicked with a storage fault at boundary %d: %v", k, r), map[string]any{"samehandle": k})
				}
			}()
			_, err = spacestorage.Create(ctx, px, w.payload)
			return
		}
		err1 := create()
		calls := px.end()
		rep.Case("space-create-retry-same-handle")
		if !px.errHit {
			_ = px.DB.Close()
			continue
		}
		call := callName(calls[k-1])
		if err1 == nil {
			rep.Violate("error-swallowed:space:error@"+call, "spacestorage.Create reported success although storage call "+call+" failed", map[string]any{"samehandle": k})
		}
		px.begin(0, "", 0)
		err2 := create()
		px.end()
		if err2 != nil {
			// one key for all k: the cause is the same (collections created inside the rolled-back
			// transaction stay in any-store's open-collection cache)
			rep.Violate("RetrySucceeds:space-create:same-db-handle",
				"spacestorage.Create fails at "+call+", is rolled back, and the same call on the same any-store handle then fails with: "+err2.Error(),
				map[string]any{"samehandle": k, "call": call})
		}
		_ = px.DB.Close()
	}
	return nil
}
