// Proxy any-store database for property C10.
//
// proxyDB / proxyColl / proxyQuery / proxyTx wrap the real any-store objects (all of them
// exported interfaces; WriteTx has unexported methods and is wrapped by embedding). Every
// *mutating* storage call gets a sequence number inside the operation under test ("call
// boundary"). At boundary k the proxy can
//   - return an injected error instead of performing the call (a failing Commit rolls the real
//     transaction back first: a failed commit persists nothing), or
//   - copy the database directory as it is at that moment (crash image: db, db-wal, db-shm are
//     copied while the write transaction is open, no checkpoint).
// The transaction context handed to the code under test is the real one (ctx values are opaque),
// so nested WriteTx calls become real savepoints.
package persist

import (
	"context"
	"errors"
	"fmt"
	"io"
	"os"
	"path/filepath"
	"strings"
	"sync"

	anystore "github.com/anyproto/any-store"
	"github.com/anyproto/any-store/anyenc"
	"github.com/anyproto/any-store/query"
)

var errInjected = errors.New("verif: injected storage error")

// storageCall is one numbered storage call of an operation.
type storageCall struct {
	N     int    `json:"n"`
	Op    string `json:"op"`    // begin sp commit release rollback rollbacksp mkcoll mkindex insert upsert update delete
	Coll  string `json:"coll"`  // changes | heads | state | acl | "" (transaction calls)
	Depth int    `json:"depth"` // transaction nesting depth *before* the call
	Docs  int    `json:"docs,omitempty"`
}

func (c storageCall) String() string {
	s := c.Op
	if c.Coll != "" {
		s += ":" + c.Coll
	}
	return fmt.Sprintf("%s@%d", s, c.Depth)
}

type proxyDB struct {
	anystore.DB
	path string

	mu      sync.Mutex
	armed   bool          // number calls only while an operation is running
	calls   []storageCall // calls of the current operation
	errAt   int           // boundary whose call fails (0 = none)
	errHit  bool
	snapDir string // crash images snapDir/k = directory as found *before* call k (empty = none)
	snapAt  int    // only this boundary (0 = every boundary)
	snapped []int
	snapErr error
	depth   int
	aclId   string
	colls   map[string]*proxyColl
	// reads can fail too (extension beyond the property's quantifier): readErrAt-th read fails
	reads     int
	readErrAt int
}

func openProxy(ctx context.Context, path string) (*proxyDB, error) {
	db, err := anystore.Open(ctx, path, nil)
	if err != nil {
		return nil, err
	}
	return &proxyDB{DB: db, path: path, colls: map[string]*proxyColl{}}, nil
}

// begin arms the proxy for one operation.
func (p *proxyDB) begin(errAt int, snapDir string, snapAt int) {
	p.mu.Lock()
	defer p.mu.Unlock()
	p.armed, p.calls, p.errAt, p.errHit, p.snapDir, p.snapped, p.snapAt = true, nil, errAt, false, snapDir, nil, snapAt
	p.reads, p.readErrAt = 0, 0
}

// end disarms and returns the recorded calls.
func (p *proxyDB) end() []storageCall {
	p.mu.Lock()
	defer p.mu.Unlock()
	p.armed = false
	p.errAt = 0
	p.snapDir = ""
	return p.calls
}

func (p *proxyDB) kind(coll string) string {
	switch coll {
	case "changes", "heads", "state":
		return coll
	}
	if coll == p.aclId || strings.HasPrefix(coll, "bafy") {
		return "acl"
	}
	return coll
}

// boundary numbers a mutating call; it returns (inject error?, call number).
func (p *proxyDB) boundary(op, coll string, docs int) bool {
	p.mu.Lock()
	defer p.mu.Unlock()
	if !p.armed {
		return false
	}
	n := len(p.calls) + 1
	p.calls = append(p.calls, storageCall{N: n, Op: op, Coll: p.kind(coll), Depth: p.depth, Docs: docs})
	if op == "rollback" || op == "rollbacksp" {
		return false // rollbacks are recorded, never faulted
	}
	if p.snapDir != "" && (p.snapAt == 0 || p.snapAt == n) {
		// the database is the file p.path plus its -wal / -shm siblings: copy the directory
		if err := copyDir(filepath.Dir(p.path), filepath.Join(p.snapDir, fmt.Sprintf("%03d", n))); err != nil {
			p.snapErr = fmt.Errorf("crash image %d: %w", n, err)
		} else {
			p.snapped = append(p.snapped, n)
		}
	}
	if p.errAt == n {
		p.errHit = true
		return true
	}
	return false
}

func copyDir(src, dst string) error {
	if err := os.MkdirAll(dst, 0o755); err != nil {
		return err
	}
	ents, err := os.ReadDir(src)
	if err != nil {
		return err
	}
	for _, e := range ents {
		if e.IsDir() {
			if err := copyDir(filepath.Join(src, e.Name()), filepath.Join(dst, e.Name())); err != nil {
				return err
			}
			continue
		}
		if err := copyFile(filepath.Join(src, e.Name()), filepath.Join(dst, e.Name())); err != nil {
			return err
		}
	}
	return nil
}

func copyFile(src, dst string) error {
	in, err := os.Open(src)
	if err != nil {
		return err
	}
	defer in.Close()
	out, err := os.Create(dst)
	if err != nil {
		return err
	}
	if _, err = io.Copy(out, in); err != nil {
		out.Close()
		return err
	}
	return out.Close()
}

// ---------------------------------------------------------------- DB

func (p *proxyDB) WriteTx(ctx context.Context) (anystore.WriteTx, error) {
	p.mu.Lock()
	d := p.depth
	p.mu.Unlock()
	op := "begin"
	if d > 0 {
		op = "sp"
	}
	if p.boundary(op, "", 0) {
		return nil, errInjected
	}
	tx, err := p.DB.WriteTx(ctx)
	if err != nil {
		return nil, err
	}
	p.mu.Lock()
	p.depth++
	p.mu.Unlock()
	return &proxyTx{WriteTx: tx, p: p, nested: d > 0}, nil
}

func (p *proxyDB) wrap(c anystore.Collection) anystore.Collection {
	p.mu.Lock()
	defer p.mu.Unlock()
	if pc, ok := p.colls[c.Name()]; ok && pc.Collection == c {
		return pc
	}
	pc := &proxyColl{Collection: c, p: p}
	p.colls[c.Name()] = pc
	return pc
}

func (p *proxyDB) exists(ctx context.Context, name string) (bool, error) {
	_, err := p.DB.OpenCollection(ctx, name)
	if err == nil {
		return true, nil
	}
	if errors.Is(err, anystore.ErrCollectionNotFound) {
		return false, nil
	}
	return false, err
}

func (p *proxyDB) Collection(ctx context.Context, name string) (anystore.Collection, error) {
	ok, err := p.exists(ctx, name)
	if err != nil {
		return nil, err
	}
	if !ok {
		if p.boundary("mkcoll", name, 0) {
			return nil, errInjected
		}
	}
	c, err := p.DB.Collection(ctx, name)
	if err != nil {
		return nil, err
	}
	return p.wrap(c), nil
}

func (p *proxyDB) CreateCollection(ctx context.Context, name string) (anystore.Collection, error) {
	if p.boundary("mkcoll", name, 0) {
		return nil, errInjected
	}
	c, err := p.DB.CreateCollection(ctx, name)
	if err != nil {
		return nil, err
	}
	return p.wrap(c), nil
}

func (p *proxyDB) OpenCollection(ctx context.Context, name string) (anystore.Collection, error) {
	c, err := p.DB.OpenCollection(ctx, name)
	if err != nil {
		return nil, err
	}
	return p.wrap(c), nil
}

// ---------------------------------------------------------------- transactions

type proxyTx struct {
	anystore.WriteTx
	p      *proxyDB
	nested bool
	done   bool
}

func (t *proxyTx) finish() bool {
	t.p.mu.Lock()
	defer t.p.mu.Unlock()
	if t.done {
		return false
	}
	t.done = true
	t.p.depth--
	return true
}

func (t *proxyTx) Commit() error {
	if t.done {
		return t.WriteTx.Commit()
	}
	op := "commit"
	if t.nested {
		op = "release"
	}
	if t.p.boundary(op, "", 0) {
		t.finish()
		_ = t.WriteTx.Rollback() // a failed commit persists nothing
		return errInjected
	}
	t.finish()
	return t.WriteTx.Commit()
}

func (t *proxyTx) Rollback() error {
	if t.done {
		return t.WriteTx.Rollback()
	}
	op := "rollback"
	if t.nested {
		op = "rollbacksp"
	}
	t.p.boundary(op, "", 0)
	t.finish()
	return t.WriteTx.Rollback()
}

// ---------------------------------------------------------------- collections

type proxyColl struct {
	anystore.Collection
	p *proxyDB
}

func (c *proxyColl) Insert(ctx context.Context, docs ...*anyenc.Value) error {
	if c.p.boundary("insert", c.Name(), len(docs)) {
		return errInjected
	}
	return c.Collection.Insert(ctx, docs...)
}

func (c *proxyColl) UpdateOne(ctx context.Context, doc *anyenc.Value) error {
	if c.p.boundary("update", c.Name(), 1) {
		return errInjected
	}
	return c.Collection.UpdateOne(ctx, doc)
}

func (c *proxyColl) UpdateId(ctx context.Context, id any, mod query.Modifier) (anystore.ModifyResult, error) {
	if c.p.boundary("update", c.Name(), 1) {
		return anystore.ModifyResult{}, errInjected
	}
	return c.Collection.UpdateId(ctx, id, mod)
}

func (c *proxyColl) UpsertOne(ctx context.Context, doc *anyenc.Value) error {
	if c.p.boundary("upsert", c.Name(), 1) {
		return errInjected
	}
	return c.Collection.UpsertOne(ctx, doc)
}

func (c *proxyColl) UpsertId(ctx context.Context, id any, mod query.Modifier) (anystore.ModifyResult, error) {
	if c.p.boundary("upsert", c.Name(), 1) {
		return anystore.ModifyResult{}, errInjected
	}
	return c.Collection.UpsertId(ctx, id, mod)
}

func (c *proxyColl) DeleteId(ctx context.Context, id any) error {
	if c.p.boundary("delete", c.Name(), 1) {
		return errInjected
	}
	return c.Collection.DeleteId(ctx, id)
}

func indexName(info anystore.IndexInfo) string {
	if info.Name != "" {
		return info.Name
	}
	return strings.Join(info.Fields, ",")
}

func (c *proxyColl) creates(info []anystore.IndexInfo) bool {
	have := map[string]bool{}
	for _, ix := range c.Collection.GetIndexes() {
		have[indexName(ix.Info())] = true
	}
	for _, i := range info {
		if !have[indexName(i)] {
			return true
		}
	}
	return false
}

func (c *proxyColl) EnsureIndex(ctx context.Context, info ...anystore.IndexInfo) error {
	if c.creates(info) {
		if c.p.boundary("mkindex", c.Name(), len(info)) {
			return errInjected
		}
	}
	return c.Collection.EnsureIndex(ctx, info...)
}

func (c *proxyColl) CreateIndex(ctx context.Context, info ...anystore.IndexInfo) error {
	if c.p.boundary("mkindex", c.Name(), len(info)) {
		return errInjected
	}
	return c.Collection.CreateIndex(ctx, info...)
}

func (c *proxyColl) Drop(ctx context.Context) error {
	if c.p.boundary("drop", c.Name(), 0) {
		return errInjected
	}
	return c.Collection.Drop(ctx)
}

func (c *proxyColl) WriteTx(ctx context.Context) (anystore.WriteTx, error) { return c.p.WriteTx(ctx) }

func (c *proxyColl) Find(filter any) anystore.Query {
	return &proxyQuery{Query: c.Collection.Find(filter), c: c}
}

// Close must not close the shared real collection handle of the proxy's cache.
func (c *proxyColl) Close() error { return nil }

type proxyQuery struct {
	anystore.Query
	c *proxyColl
}

// acl/list/storage.go getWithQuery passes a Query object as the *filter* of a second Find; any-store
// turns an unknown filter type into JSON, and the real *collQuery (no exported fields) becomes "{}"
// (= match everything). The proxy must look the same.
func (q *proxyQuery) MarshalJSON() ([]byte, error) { return []byte("{}"), nil }

func (q *proxyQuery) Limit(l uint) anystore.Query   { q.Query = q.Query.Limit(l); return q }
func (q *proxyQuery) Offset(o uint) anystore.Query  { q.Query = q.Query.Offset(o); return q }
func (q *proxyQuery) Sort(s ...any) anystore.Query  { q.Query = q.Query.Sort(s...); return q }
func (q *proxyQuery) IndexHint(h ...anystore.IndexHint) anystore.Query {
	q.Query = q.Query.IndexHint(h...)
	return q
}

func (q *proxyQuery) Delete(ctx context.Context) (anystore.ModifyResult, error) {
	if q.c.p.boundary("delete", q.c.Name(), 0) {
		return anystore.ModifyResult{}, errInjected
	}
	return q.Query.Delete(ctx)
}

func (q *proxyQuery) Update(ctx context.Context, modifier any) (anystore.ModifyResult, error) {
	if q.c.p.boundary("update", q.c.Name(), 0) {
		return anystore.ModifyResult{}, errInjected
	}
	return q.Query.Update(ctx, modifier)
}
