// Package spaceh binds spec/space/SpaceBind.tla to the real space payload constructors and validators
// (property C13).
//
//	TestCases    : every case TLC emitted (two valid spaces, one mutation, entry point) is rendered to real
//	               bytes with the real constructors and real signatures, run through the real
//	               ValidateSpaceStorageCreatePayload / ValidateSpaceHeader, and judged by an independent
//	               oracle (content ids and signatures recomputed, all parts name one space).  Verdict, failing
//	               stage and elementary facts are compared with what the specification predicts (drift).
//	TestSweep    : single-byte mutations of every part of every constructor's payload, with and without
//	               recomputed content id, classified to the field they fall in; judged by the same oracle and
//	               recorded as a trace that SpaceBindTrace.tla validates.
//	TestOneToOne : both parties of a 1-1 space derive identical ids, roots and keys; a third party does not.
//	TestReplay   : re-executes the replay object of a reported violation.
package spaceh

import (
	"bytes"
	"crypto/ed25519"
	"encoding/base64"
	"encoding/json"
	"errors"
	"fmt"
	"math/rand"
	"os"
	"reflect"
	"sort"
	"strconv"
	"strings"
	"testing"

	"github.com/ipfs/go-cid"
	mbase "github.com/multiformats/go-multibase"
	mh "github.com/multiformats/go-multihash"
	"google.golang.org/protobuf/encoding/protowire"

	"github.com/anyproto/any-sync/commonspace/object/accountdata"
	"github.com/anyproto/any-sync/commonspace/object/acl/aclrecordproto"
	"github.com/anyproto/any-sync/commonspace/object/acl/list"
	"github.com/anyproto/any-sync/commonspace/object/acl/recordverifier"
	"github.com/anyproto/any-sync/commonspace/object/tree/objecttree"
	"github.com/anyproto/any-sync/commonspace/object/tree/treechangeproto"
	"github.com/anyproto/any-sync/commonspace/spacepayloads"
	"github.com/anyproto/any-sync/commonspace/spacestorage"
	"github.com/anyproto/any-sync/commonspace/spacesyncproto"
	"github.com/anyproto/any-sync/consensus/consensusproto"
	"github.com/anyproto/any-sync/util/crypto"

	"verifharness/vfutil"
)

/* ------------------------------------------------------------------ payload representation */

type part struct {
	Id  string `json:"id"`
	Raw []byte `json:"raw"`
}

type payload struct {
	Hdr part `json:"hdr"`
	Acl part `json:"acl"`
	Set part `json:"set"`
}

func (p payload) clone() payload {
	c := p
	c.Hdr.Raw = append([]byte(nil), p.Hdr.Raw...)
	c.Acl.Raw = append([]byte(nil), p.Acl.Raw...)
	c.Set.Raw = append([]byte(nil), p.Set.Raw...)
	return c
}

func (p payload) equal(q payload) bool {
	return p.Hdr.Id == q.Hdr.Id && p.Acl.Id == q.Acl.Id && p.Set.Id == q.Set.Id &&
		bytes.Equal(p.Hdr.Raw, q.Hdr.Raw) && bytes.Equal(p.Acl.Raw, q.Acl.Raw) && bytes.Equal(p.Set.Raw, q.Set.Raw)
}

func (p *payload) part(name string) *part {
	switch name {
	case "hdr":
		return &p.Hdr
	case "acl":
		return &p.Acl
	}
	return &p.Set
}

func fromReal(sp spacestorage.SpaceStorageCreatePayload) payload {
	return payload{
		Hdr: part{sp.SpaceHeaderWithId.Id, sp.SpaceHeaderWithId.RawHeader},
		Acl: part{sp.AclWithId.Id, sp.AclWithId.Payload},
		Set: part{sp.SpaceSettingsWithId.Id, sp.SpaceSettingsWithId.RawChange},
	}
}

func (p payload) real() spacestorage.SpaceStorageCreatePayload {
	return spacestorage.SpaceStorageCreatePayload{
		AclWithId:           &consensusproto.RawRecordWithId{Payload: p.Acl.Raw, Id: p.Acl.Id},
		SpaceHeaderWithId:   &spacesyncproto.RawSpaceHeaderWithId{RawHeader: p.Hdr.Raw, Id: p.Hdr.Id},
		SpaceSettingsWithId: &treechangeproto.RawTreeChangeWithId{RawChange: p.Set.Raw, Id: p.Set.Id},
	}
}

// vt is implemented by all protobuf messages used here
type vt interface {
	MarshalVT() ([]byte, error)
	UnmarshalVT([]byte) error
}

func must[T any](v T, err error) T {
	if err != nil {
		panic(fmt.Sprintf("harness: %v", err))
	}
	return v
}

func newL1(pn string) vt {
	switch pn {
	case "hdr":
		return &spacesyncproto.RawSpaceHeader{}
	case "acl":
		return &consensusproto.RawRecord{}
	}
	return &treechangeproto.RawTreeChange{}
}

func newL2(pn string) vt {
	switch pn {
	case "hdr":
		return &spacesyncproto.SpaceHeader{}
	case "acl":
		return &aclrecordproto.AclRoot{}
	}
	return &treechangeproto.RootChange{}
}

// body / signature fields of the envelope (level 1) message
func l1Body(pn string) string {
	if pn == "hdr" {
		return "SpaceHeader"
	}
	return "Payload"
}

func field(m any, name string) reflect.Value { return reflect.ValueOf(m).Elem().FieldByName(name) }

// exported protobuf fields of a message, in declaration order
func pbFields(m any) []string {
	t := reflect.TypeOf(m).Elem()
	var res []string
	for i := 0; i < t.NumField(); i++ {
		if f := t.Field(i); f.IsExported() && f.Tag.Get("protobuf") != "" {
			res = append(res, f.Name)
		}
	}
	return res
}

// spec field class of a real level-2 field
func classOf(pn, f string) string {
	switch pn {
	case "hdr":
		switch f {
		case "Identity":
			return "identity"
		case "SpaceType":
			return "type"
		case "ReplicationKey":
			return "repKey"
		case "SpaceHeaderPayload":
			return "hpayload"
		case "AclPayload":
			return "aclPayload"
		case "SettingPayload":
			return "settingPayload"
		case "FileprotoVersion":
			return "fproto"
		case "Version":
			return "version"
		}
	case "acl":
		switch f {
		case "Identity":
			return "identity"
		case "MasterKey":
			return "masterKey"
		case "SpaceId":
			return "spaceId"
		case "IdentitySignature":
			return "identitySig"
		case "OneToOneInfo":
			return "o2o"
		}
	case "set":
		switch f {
		case "AclHeadId":
			return "aclHeadId"
		case "SpaceId":
			return "spaceId"
		case "ChangeType":
			return "changeType"
		case "Identity":
			return "identity"
		}
	}
	return "content"
}

/* ------------------------------------------------------------------ independent oracle */

func cidOf(data []byte) string {
	h, err := mh.Sum(data, mh.SHA2_256, -1)
	if err != nil {
		panic(err)
	}
	return cid.NewCidV1(0x71, h).String() // dag-cbor, as cidutil does
}

// verify an ed25519 signature given the marshalled (protobuf) public key, with the standard library
func verifyProtoKey(keyProto, msg, sig []byte) (raw []byte, wellFormed, ok bool) {
	pk, err := crypto.UnmarshalEd25519PublicKeyProto(keyProto)
	if err != nil {
		return nil, false, false
	}
	raw, err = pk.Raw()
	if err != nil || len(raw) != ed25519.PublicKeySize {
		return nil, false, false
	}
	return raw, true, ed25519.Verify(ed25519.PublicKey(raw), msg, sig)
}

type facts struct {
	HdrCid    bool `json:"hdrCid"`
	HdrSig    bool `json:"hdrSig"`
	HdrSuffix bool `json:"hdrSuffix"`
	AclCid    bool `json:"aclCid"`
	AclSig    bool `json:"aclSig"`
	AclMaster bool `json:"aclMaster"`
	SetCid    bool `json:"setCid"`
	SetSig    bool `json:"setSig"`
	EmbedAcl  bool `json:"embedAcl"`
	EmbedSet  bool `json:"embedSet"`
	NameAcl   bool `json:"nameAcl"`
	NameSet   bool `json:"nameSet"`
	AclHead   bool `json:"aclHead"`
	V1        bool `json:"v1"`
	// decodability (not facts of the specification)
	HdrDec bool `json:"-"`
	AclDec bool `json:"-"`
	SetDec bool `json:"-"`
}

func (f facts) asMap() map[string]bool {
	return map[string]bool{"hdrCid": f.HdrCid, "hdrSig": f.HdrSig, "hdrSuffix": f.HdrSuffix, "aclCid": f.AclCid, "aclSig": f.AclSig,
		"aclMaster": f.AclMaster, "setCid": f.SetCid, "setSig": f.SetSig, "embedAcl": f.EmbedAcl, "embedSet": f.EmbedSet,
		"nameAcl": f.NameAcl, "nameSet": f.NameSet, "aclHead": f.AclHead, "v1": f.V1}
}

// computeFacts recomputes every content id and signature of a payload and the cross references between
// its parts, using go-cid / multihash / crypto/ed25519 directly
func computeFacts(p payload) facts {
	var f facts
	// header
	sep := strings.Index(p.Hdr.Id, ".")
	f.HdrCid = sep >= 0 && p.Hdr.Id[:sep] == cidOf(p.Hdr.Raw)
	var rh spacesyncproto.RawSpaceHeader
	var h spacesyncproto.SpaceHeader
	if rh.UnmarshalVT(p.Hdr.Raw) == nil && h.UnmarshalVT(rh.SpaceHeader) == nil {
		f.HdrDec = true
		_, _, f.HdrSig = verifyProtoKey(h.Identity, rh.SpaceHeader, rh.Signature)
		f.HdrSuffix = sep >= 0 && p.Hdr.Id[sep+1:] == strconv.FormatUint(h.ReplicationKey, 36)
		f.V1 = h.Version == spacesyncproto.SpaceHeaderVersion_SpaceHeaderVersion1
		f.EmbedAcl = bytes.Equal(h.AclPayload, p.Acl.Raw)
		f.EmbedSet = bytes.Equal(h.SettingPayload, p.Set.Raw)
	}
	// acl root
	f.AclCid = p.Acl.Id == cidOf(p.Acl.Raw)
	var rr consensusproto.RawRecord
	var root aclrecordproto.AclRoot
	if rr.UnmarshalVT(p.Acl.Raw) == nil && root.UnmarshalVT(rr.Payload) == nil {
		f.AclDec = true
		var rawId []byte
		rawId, _, f.AclSig = verifyProtoKey(root.Identity, rr.Payload, rr.Signature)
		if rawId != nil {
			_, _, f.AclMaster = verifyProtoKey(root.MasterKey, rawId, root.IdentitySignature)
		}
		f.NameAcl = root.SpaceId == p.Hdr.Id
	}
	// settings root
	f.SetCid = p.Set.Id == cidOf(p.Set.Raw)
	var rc treechangeproto.RawTreeChange
	var ch treechangeproto.RootChange
	if rc.UnmarshalVT(p.Set.Raw) == nil && ch.UnmarshalVT(rc.Payload) == nil {
		f.SetDec = true
		_, _, f.SetSig = verifyProtoKey(ch.Identity, rc.Payload, rc.Signature)
		f.NameSet = ch.SpaceId == p.Hdr.Id
		f.AclHead = ch.AclHeadId == p.Acl.Id
	}
	return f
}

// bound: all signatures and content ids verify and all parts name the same space (C13).
// Returns the first fact that fails.
func bound(f facts) (bool, string) {
	m := f.asMap()
	names := []string{"hdrCid", "hdrSig", "hdrSuffix", "aclCid", "aclSig", "aclMaster", "setCid", "setSig", "aclHead"}
	if f.V1 {
		names = append(names, "embedAcl", "embedSet")
	} else {
		names = append(names, "nameAcl", "nameSet")
	}
	for _, n := range names {
		if !m[n] {
			return false, n
		}
	}
	return true, ""
}

func headerAuthentic(f facts) (bool, string) {
	for _, n := range []string{"hdrCid", "hdrSig", "hdrSuffix"} {
		if !f.asMap()[n] {
			return false, n
		}
	}
	return true, ""
}

/* ------------------------------------------------------------------ real validators */

type verdict struct {
	Accepted bool   `json:"accepted"`
	Stage    string `json:"stage"` // coarse: ok | hdr_cid | hdr | embed | acl_cid | roots | panic
	Err      string `json:"err"`
}

func safely(f func() error) (err error, panicked any) {
	defer func() {
		if r := recover(); r != nil {
			panicked = r
		}
	}()
	return f(), nil
}

func validatePayload(p payload) verdict {
	rp := p.real()
	err, pn := safely(func() error { return spacepayloads.ValidateSpaceStorageCreatePayload(rp) })
	if pn != nil {
		return verdict{false, "panic", fmt.Sprint(pn)}
	}
	if err == nil {
		return verdict{true, "ok", ""}
	}
	// which stage rejects (exported header validator with and without the roots)
	_, e1 := spacepayloads.ValidateSpaceHeader(rp.SpaceHeaderWithId, nil, nil, nil)
	if e1 != nil {
		if errors.Is(e1, objecttree.ErrIncorrectCid) {
			return verdict{false, "hdr_cid", err.Error()}
		}
		return verdict{false, "hdr", err.Error()}
	}
	if _, e2 := spacepayloads.ValidateSpaceHeader(rp.SpaceHeaderWithId, nil, rp.AclWithId.Payload, rp.SpaceSettingsWithId.RawChange); e2 != nil {
		return verdict{false, "embed", err.Error()}
	}
	if errors.Is(err, objecttree.ErrIncorrectCid) {
		return verdict{false, "acl_cid", err.Error()}
	}
	return verdict{false, "roots", err.Error()}
}

func validateHeader(p payload, identity crypto.PubKey) verdict {
	rp := p.real()
	var err error
	_, pn := safely(func() error { _, err = spacepayloads.ValidateSpaceHeader(rp.SpaceHeaderWithId, identity, nil, nil); return err })
	if pn != nil {
		return verdict{false, "panic", fmt.Sprint(pn)}
	}
	if err == nil {
		return verdict{true, "ok", ""}
	}
	if errors.Is(err, objecttree.ErrIncorrectCid) {
		return verdict{false, "hdr_cid", err.Error()}
	}
	if errors.Is(err, spacepayloads.ErrIncorrectIdentity) {
		return verdict{false, "hdr_identity", err.Error()}
	}
	return verdict{false, "hdr", err.Error()}
}

// coarse stage of a specification outcome
func coarse(specVerdict string, entry string) string {
	switch {
	case specVerdict == "ok":
		return "ok"
	case specVerdict == "hdr_cid":
		return "hdr_cid"
	case specVerdict == "hdr_identity" && entry == "header":
		return "hdr_identity"
	case strings.HasPrefix(specVerdict, "hdr_embed"):
		return "embed"
	case strings.HasPrefix(specVerdict, "hdr_"):
		return "hdr"
	case specVerdict == "acl_cid":
		return "acl_cid"
	}
	return "roots"
}

/* ------------------------------------------------------------------ valid spaces */

type owner struct {
	name   string
	sign   crypto.PrivKey
	master crypto.PrivKey
}

func newOwner(name string) *owner {
	s, _, err := crypto.GenerateRandomEd25519KeyPair()
	if err != nil {
		panic(err)
	}
	m, _, err := crypto.GenerateRandomEd25519KeyPair()
	if err != nil {
		panic(err)
	}
	return &owner{name, s, m}
}

type world struct {
	a, b, c, mallory *owner
	third            crypto.PrivKey // signs bad identity signatures
}

func newWorld() *world {
	w := &world{a: newOwner("a"), b: newOwner("b"), c: newOwner("c"), mallory: newOwner("m")}
	w.third, _, _ = crypto.GenerateRandomEd25519KeyPair()
	return w
}

type space struct {
	ctor string
	p    payload
	sign crypto.PrivKey // key that signed the parts (owner key, or the shared key of a 1-1 space)
}

func (w *world) build(ctor string, x, y *owner, n string, rnd *rand.Rand) space {
	var sp spacestorage.SpaceStorageCreatePayload
	var err error
	sign := x.sign
	typ := "T" + n
	userPayload := []byte("payload")
	switch ctor {
	case "createV0", "createV1":
		meta, _, _ := crypto.GenerateRandomEd25519KeyPair()
		cp := spacepayloads.SpaceCreatePayload{SigningKey: x.sign, SpaceType: typ, ReplicationKey: rnd.Uint64()>>uint(rnd.Intn(40)) + 1,
			SpacePayload: userPayload, MasterKey: x.master, ReadKey: crypto.NewAES(), MetadataKey: meta, Metadata: []byte("metadata")}
		if rnd.Intn(2) == 0 {
			cp.Options = &aclrecordproto.AclSpaceOptions{DeleteRestricted: true}
		}
		if ctor == "createV0" {
			sp, err = spacepayloads.StoragePayloadForSpaceCreate(cp)
		} else {
			sp, err = spacepayloads.StoragePayloadForSpaceCreateV1(cp)
		}
	case "deriveV0", "deriveV1":
		dp := spacepayloads.SpaceDerivePayload{SigningKey: x.sign, MasterKey: x.master, SpaceType: typ, SpacePayload: userPayload}
		if ctor == "deriveV0" {
			sp, err = spacepayloads.StoragePayloadForSpaceDerive(dp)
		} else {
			sp, err = spacepayloads.StoragePayloadForSpaceDeriveV1(dp)
		}
	case "o2o", "o2oAny":
		t := spacepayloads.SpaceTypeOneToOne
		if ctor == "o2oAny" {
			t = spacepayloads.SpaceTypeOneToOneAny
		}
		sp, err = spacepayloads.StoragePayloadForOneToOneSpaceWithType(x.sign, y.sign.GetPublic(), t)
		if err == nil {
			sign, err = crypto.GenerateSharedKey(x.sign, y.sign.GetPublic(), crypto.AnysyncOneToOneSpacePath)
		}
	default:
		panic("unknown constructor " + ctor)
	}
	if err != nil {
		panic(fmt.Sprintf("harness: constructor %s failed: %v", ctor, err))
	}
	return space{ctor, fromReal(sp), sign}
}

func isO2O(ctor string) bool { return ctor == "o2o" || ctor == "o2oAny" }
func isV1(ctor string) bool  { return ctor != "createV0" && ctor != "deriveV0" }

func (w *world) spaceA(ctor string, rnd *rand.Rand) space { return w.build(ctor, w.a, w.b, "1", rnd) }
func (w *world) spaceB(ctor string, same bool, rnd *rand.Rand) space {
	if same {
		return w.build(ctor, w.a, w.b, "2", rnd)
	}
	if isO2O(ctor) {
		return w.build(ctor, w.a, w.c, "2", rnd)
	}
	return w.build(ctor, w.b, w.c, "2", rnd)
}

/* ------------------------------------------------------------------ (re)assembling parts */

// decoded part: envelope (level 1) and body (level 2)
type decoded struct {
	l1, l2 vt
}

func decode(pn string, raw []byte) (d decoded, err error) {
	d.l1, d.l2 = newL1(pn), newL2(pn)
	if err = d.l1.UnmarshalVT(raw); err != nil {
		return
	}
	err = d.l2.UnmarshalVT(field(d.l1, l1Body(pn)).Bytes())
	return
}

// assemble: body -> envelope (signature kept as it is) -> raw bytes (+ extra bytes appended to the envelope)
func assemble(pn string, d decoded, bodyChanged bool, extra []byte) []byte {
	if bodyChanged {
		field(d.l1, l1Body(pn)).SetBytes(must(d.l2.MarshalVT()))
	}
	return append(must(d.l1.MarshalVT()), extra...)
}

func headerId(raw []byte, keepSuffix string) string {
	var rh spacesyncproto.RawSpaceHeader
	var h spacesyncproto.SpaceHeader
	if rh.UnmarshalVT(raw) == nil && h.UnmarshalVT(rh.SpaceHeader) == nil {
		return cidOf(raw) + "." + strconv.FormatUint(h.ReplicationKey, 36)
	}
	return cidOf(raw) + "." + keepSuffix
}

// rehash: the adversary recomputes every public derivation of the part
func rehash(pn string, pt *part) {
	if pn == "hdr" {
		suffix := ""
		if i := strings.Index(pt.Id, "."); i >= 0 {
			suffix = pt.Id[i+1:]
		}
		pt.Id = headerId(pt.Raw, suffix)
	} else {
		pt.Id = cidOf(pt.Raw)
	}
}

// sign a body with a key and wrap it: a freshly, validly signed part
func signedPart(pn string, body vt, key crypto.PrivKey) part {
	b := must(body.MarshalVT())
	sig := must(key.Sign(b))
	l1 := newL1(pn)
	field(l1, l1Body(pn)).SetBytes(b)
	field(l1, "Signature").SetBytes(sig)
	raw := must(l1.MarshalVT())
	pt := part{Raw: raw}
	rehash(pn, &pt)
	return pt
}

/* ------------------------------------------------------------------ other spellings of the same value */

// respellNum: other spellings of a base-36 number (what strconv.ParseUint would read as the same value)
func respellNum(s string) []string {
	res := []string{"0" + s}
	for i, c := range s {
		if c >= 'a' && c <= 'z' {
			res = append(res, s[:i]+strings.ToUpper(string(c))+s[i+1:])
			break
		}
	}
	return res
}

// respellCid: the same content id in other multibase encodings
func respellCid(s string) []string {
	var res []string
	c, err := cid.Decode(s)
	if err != nil {
		return nil
	}
	for _, b := range []mbase.Encoding{mbase.Base32Upper, mbase.Base58BTC, mbase.Base16} {
		if v, err := c.StringOfBase(b); err == nil && v != s {
			if d, err := cid.Decode(v); err == nil && d.Equals(c) {
				res = append(res, v)
			}
		}
	}
	return res
}

// respellId: other spellings of a whole space id "<cid>.<base36>"
func respellId(id string) []string {
	i := strings.Index(id, ".")
	if i < 0 {
		return nil
	}
	var res []string
	for _, v := range respellNum(id[i+1:]) {
		res = append(res, id[:i]+"."+v)
	}
	for _, v := range respellCid(id[:i])[:1] {
		res = append(res, v+"."+id[i+1:])
	}
	return res
}

func longVarint(v uint64) []byte {
	b := protowire.AppendVarint(nil, v)
	b[len(b)-1] |= 0x80
	return append(b, 0x00) // one more (empty) 7-bit group: same value, not minimal
}

// respellField re-encodes field num of a marshalled message so that it decodes to the same message:
// a non-minimal varint (value or length); an absent scalar field is written explicitly with its zero value
func respellField(msg []byte, num protowire.Number, isBytes, explicitZero bool) ([]byte, bool) {
	var out []byte
	done := false
	for b := msg; len(b) > 0; {
		n, typ, tl := protowire.ConsumeTag(b)
		if tl < 0 {
			return nil, false
		}
		vl := protowire.ConsumeFieldValue(n, typ, b[tl:])
		if vl < 0 {
			return nil, false
		}
		if n == num && !done {
			switch typ {
			case protowire.VarintType:
				v, _ := protowire.ConsumeVarint(b[tl:])
				if protowire.SizeVarint(v) >= 10 {
					return nil, false // a 10-byte varint has no longer spelling
				}
				out = append(append(out, b[:tl]...), longVarint(v)...)
				done = true
			case protowire.BytesType:
				v, _ := protowire.ConsumeBytes(b[tl:])
				out = append(append(append(out, b[:tl]...), longVarint(uint64(len(v)))...), v...)
				done = true
			default:
				out = append(out, b[:tl+vl]...)
			}
		} else {
			out = append(out, b[:tl+vl]...)
		}
		b = b[tl+vl:]
	}
	if !done {
		if !explicitZero {
			return nil, false
		}
		if isBytes {
			out = protowire.AppendVarint(protowire.AppendTag(out, num, protowire.BytesType), 0)
		} else {
			out = protowire.AppendVarint(protowire.AppendTag(out, num, protowire.VarintType), 0)
		}
	}
	return out, true
}

// protobuf field number and kind of a struct field, from its tag `protobuf:"bytes,1,opt,..."`
func pbNumber(m any, name string) (num protowire.Number, isBytes bool, isMessage bool) {
	f, _ := reflect.TypeOf(m).Elem().FieldByName(name)
	parts := strings.Split(f.Tag.Get("protobuf"), ",")
	n, _ := strconv.Atoi(parts[1])
	return protowire.Number(n), parts[0] == "bytes", f.Type.Kind() == reflect.Ptr || (f.Type.Kind() == reflect.Slice && f.Type.Elem().Kind() != reflect.Uint8)
}

func sameFields(a, b vt) bool {
	for _, f := range pbFields(a) {
		x, y := field(a, f), field(b, f)
		if x.Kind() == reflect.Slice && x.Len() == 0 && y.Len() == 0 {
			continue
		}
		if !reflect.DeepEqual(x.Interface(), y.Interface()) {
			return false
		}
	}
	return true
}

/* ------------------------------------------------------------------ field mutations */

func flip(b []byte) []byte {
	if len(b) == 0 {
		return []byte{0x2a}
	}
	r := append([]byte(nil), b...)
	r[len(r)/2] ^= 0x55
	return r
}

var keyFields = map[string]bool{"identity": true, "masterKey": true}

// alter one real level-2 field "somehow" (how = alt | junk); returns false if the field cannot be altered
func alterField(w *world, pn string, m vt, f string, how string) bool {
	v := field(m, f)
	cls := classOf(pn, f)
	switch v.Kind() {
	case reflect.Slice: // []byte
		if keyFields[cls] {
			if how == "junk" {
				v.SetBytes(v.Bytes()[:len(v.Bytes())/2])
			} else {
				v.SetBytes(must(w.mallory.sign.GetPublic().Marshall()))
			}
			return true
		}
		v.SetBytes(flip(v.Bytes()))
	case reflect.String:
		s := v.String()
		if len(s) > 10 { // ids: change one character, keep the shape
			b := []byte(s)
			i := len(b) / 2
			if b[i] == 'a' {
				b[i] = 'b'
			} else {
				b[i] = 'a'
			}
			v.SetString(string(b))
		} else {
			v.SetString(s + "x")
		}
	case reflect.Int64:
		v.SetInt(v.Int() + 1)
	case reflect.Uint64:
		v.SetUint(v.Uint() + 1)
	case reflect.Int32: // enums
		if cls == "version" {
			v.SetInt(1 - v.Int())
		} else {
			v.SetInt(7)
		}
	case reflect.Bool:
		v.SetBool(!v.Bool())
	case reflect.Ptr:
		switch f {
		case "OneToOneInfo":
			if v.IsNil() {
				v.Set(reflect.ValueOf(&aclrecordproto.AclOneToOneInfo{Owner: []byte{1}}))
			} else {
				info := v.Interface().(*aclrecordproto.AclOneToOneInfo)
				v.Set(reflect.ValueOf(&aclrecordproto.AclOneToOneInfo{Owner: flip(info.Owner), Writers: info.Writers}))
			}
		case "Options":
			if v.IsNil() {
				v.Set(reflect.ValueOf(&aclrecordproto.AclSpaceOptions{DeleteRestricted: true}))
			} else {
				v.Set(reflect.Zero(v.Type()))
			}
		default:
			return false
		}
	default:
		return false
	}
	return true
}

type mutSpec struct {
	Class  string   `json:"class"`
	Part   string   `json:"part"`
	Field  string   `json:"field"`
	How    string   `json:"how"`
	Rehash bool     `json:"rehash"`
	FromB  []string `json:"fromB"`
	Kind   string   `json:"kind"`
}

func (m mutSpec) key() string {
	switch m.Class {
	case "field", "id":
		r := ""
		if m.Rehash {
			r = "+rehash"
		}
		return fmt.Sprintf("%s:%s.%s/%s%s", m.Class, m.Part, m.Field, m.How, r)
	case "splice":
		s := append([]string(nil), m.FromB...)
		sort.Strings(s)
		return "splice:" + strings.Join(s, "+")
	case "forge":
		return "forge:" + m.Kind
	}
	return m.Class
}

// short: classifier used in violation keys (no "how" / "rehash": one key per mutated field)
func (m mutSpec) short() string {
	switch m.Class {
	case "field", "id":
		return fmt.Sprintf("%s:%s.%s", m.Class, m.Part, m.Field)
	case "splice":
		return "splice"
	case "forge":
		return "forge:" + m.Kind
	}
	return m.Class
}

// a rendered mutation: the mutated payload and the real field it touched
type rendered struct {
	p     payload
	label string
}

// render applies a specification-level mutation to A's real payload; a field class expands to every
// real field of that class
func render(w *world, A, B space, m mutSpec) []rendered {
	switch m.Class {
	case "none":
		return []rendered{{A.p.clone(), ""}}
	case "field":
		return renderField(w, A, B, m)
	case "id":
		p := A.p.clone()
		pt, ot := p.part(m.Part), B.p.part(m.Part)
		if m.Part == "hdr" {
			ci, oi := strings.Index(pt.Id, "."), strings.Index(ot.Id, ".")
			cidA, sufA, cidB, sufB := pt.Id[:ci], pt.Id[ci+1:], ot.Id[:oi], ot.Id[oi+1:]
			if m.How == "respell" {
				var res []rendered
				vars := respellNum(sufA)
				if m.Field == "cid" {
					vars = respellCid(cidA)
				}
				for _, v := range vars {
					q := A.p.clone()
					if m.Field == "cid" {
						q.Hdr.Id = v + "." + sufA
					} else {
						q.Hdr.Id = cidA + "." + v
					}
					res = append(res, rendered{q, m.Field + ":" + v[:min(len(v), 8)]})
				}
				return res
			}
			switch {
			case m.How == "nodot":
				pt.Id = cidA + sufA
			case m.Field == "cid" && m.How == "other":
				pt.Id = cidB + "." + sufA
			case m.Field == "cid":
				pt.Id = alterString(cidA) + "." + sufA
			case m.How == "other":
				pt.Id = cidA + "." + sufB
			default:
				pt.Id = cidA + "." + sufA + "1"
			}
		} else if m.How == "respell" {
			var res []rendered
			for _, v := range respellCid(pt.Id) {
				q := A.p.clone()
				q.part(m.Part).Id = v
				res = append(res, rendered{q, "id:" + v[:8]})
			}
			return res
		} else if m.How == "other" {
			pt.Id = ot.Id
		} else {
			pt.Id = alterString(pt.Id)
		}
		return []rendered{{p, m.Field}}
	case "splice":
		p := A.p.clone()
		for _, c := range m.FromB {
			pn, what := c[:3], c[4:]
			if what == "id" {
				p.part(pn).Id = B.p.part(pn).Id
			} else {
				p.part(pn).Raw = append([]byte(nil), B.p.part(pn).Raw...)
			}
		}
		return []rendered{{p, ""}}
	case "forge":
		if strings.Contains(m.Kind, "respell") {
			return []rendered{{forge(w, A, m.Kind, 0), m.Kind + "/0"}, {forge(w, A, m.Kind, 1), m.Kind + "/1"}}
		}
		return []rendered{{forge(w, A, m.Kind, 0), m.Kind}}
	}
	panic("unknown mutation class " + m.Class)
}

func alterString(s string) string {
	b := []byte(s)
	i := len(b) / 2
	if b[i] == 'a' {
		b[i] = 'b'
	} else {
		b[i] = 'a'
	}
	return string(b)
}

func renderField(w *world, A, B space, m mutSpec) []rendered {
	var res []rendered
	pn := m.Part
	orig := A.p.part(pn)
	finish := func(raw []byte, label string) {
		p := A.p.clone()
		p.part(pn).Raw = raw
		if m.Rehash {
			rehash(pn, p.part(pn))
		}
		res = append(res, rendered{p, label})
	}
	switch m.Field {
	case "sig":
		d := must(decode(pn, orig.Raw))
		if m.How == "other" {
			o := must(decode(pn, B.p.part(pn).Raw))
			field(d.l1, "Signature").SetBytes(field(o.l1, "Signature").Bytes())
		} else {
			field(d.l1, "Signature").SetBytes(flip(field(d.l1, "Signature").Bytes()))
		}
		finish(assemble(pn, d, false, nil), "Signature")
		return res
	case "extra":
		if m.How == "respell" {
			// the envelope re-encoded: non-minimal length of the body field
			if raw, ok := respellField(orig.Raw, 1, true, false); ok {
				if d, err := decode(pn, raw); err == nil && sameFields(d.l1, must(decode(pn, orig.Raw)).l1) {
					finish(raw, "envelope-length")
				}
			}
			return res
		}
		// an unknown field appended to the envelope ...
		d := must(decode(pn, orig.Raw))
		finish(assemble(pn, d, false, []byte{0x78, 0x01}), "unknown-field-15")
		// ... and, for the ACL record, the acceptor fields nobody signs
		if pn == "acl" {
			for _, f := range []string{"AcceptorIdentity", "AcceptorSignature", "AcceptorTimestamp"} {
				d := must(decode(pn, orig.Raw))
				if f == "AcceptorTimestamp" {
					field(d.l1, f).SetInt(12345)
				} else {
					field(d.l1, f).SetBytes([]byte("acceptor"))
				}
				finish(assemble(pn, d, false, nil), f)
			}
		}
		return res
	}
	for _, f := range pbFields(newL2(pn)) {
		if classOf(pn, f) != m.Field {
			continue
		}
		d := must(decode(pn, orig.Raw))
		if m.How == "respell" {
			// the signed body re-encoded so that it decodes to the same message
			num, isBytes, isMsg := pbNumber(d.l2, f)
			body, ok := respellField(field(d.l1, l1Body(pn)).Bytes(), num, isBytes, !isMsg)
			if !ok {
				continue
			}
			l2 := newL2(pn)
			if l2.UnmarshalVT(body) != nil || !sameFields(l2, d.l2) {
				panic("harness: re-encoded " + pn + "." + f + " does not decode to the same message")
			}
			field(d.l1, l1Body(pn)).SetBytes(body)
			finish(assemble(pn, d, false, nil), f)
			continue
		}
		switch m.How {
		case "other":
			o := must(decode(pn, B.p.part(pn).Raw))
			field(d.l2, f).Set(field(o.l2, f))
		default:
			if !alterField(w, pn, d.l2, f, m.How) {
				continue
			}
		}
		finish(assemble(pn, d, true, nil), f)
	}
	return res
}

// forge: parts freshly and validly signed by Mallory / by the owner himself that name A's ids
func forge(w *world, A space, kind string, variant int) payload {
	p := A.p.clone()
	who := w.mallory.sign
	if strings.Contains(kind, "owner") {
		who = A.sign
	}
	whoPub := must(who.GetPublic().Marshall())
	whoRaw := must(who.GetPublic().Raw())
	if kind == "hdr-owner-junkinfo" {
		d := must(decode("hdr", A.p.Hdr.Raw))
		h := d.l2.(*spacesyncproto.SpaceHeader)
		h.SpaceHeaderPayload = []byte{0xff, 0xff, 0xff} // does not unmarshal as AclOneToOneInfo
		p.Hdr = signedPart("hdr", h, who)
		return p
	}
	aclOnly := kind == "acl-other" || kind == "acl-other-badmaster" || kind == "acl-other-junkmaster"
	if aclOnly || strings.HasPrefix(kind, "both-") {
		d := must(decode("acl", A.p.Acl.Raw))
		root := d.l2.(*aclrecordproto.AclRoot)
		root.Identity = whoPub
		root.MasterKey = whoPub
		root.Timestamp += 4242
		root.IdentitySignature = must(who.Sign(whoRaw))
		if kind == "both-other-aclrespellspace" {
			root.SpaceId = respellId(A.p.Hdr.Id)[variant%2]
		}
		if kind == "both-other-wrongspace" || kind == "both-other-aclwrongspace" {
			root.SpaceId = alterString(A.p.Hdr.Id)
		}
		switch {
		case strings.HasSuffix(kind, "badmaster"):
			root.IdentitySignature = must(w.third.Sign(whoRaw))
		case strings.HasSuffix(kind, "junkmaster"):
			root.MasterKey = whoPub[:len(whoPub)/2]
		}
		p.Acl = signedPart("acl", root, who)
		if kind == "both-other-badaclsig" {
			// the record's own signature does not verify (envelope re-assembled, id recomputed)
			e := must(decode("acl", p.Acl.Raw))
			field(e.l1, "Signature").SetBytes(flip(field(e.l1, "Signature").Bytes()))
			p.Acl.Raw = assemble("acl", e, false, nil)
			rehash("acl", &p.Acl)
		}
	}
	if !aclOnly {
		d := must(decode("set", A.p.Set.Raw))
		ch := d.l2.(*treechangeproto.RootChange)
		ch.Identity = whoPub
		ch.Timestamp += 4242
		ch.Seed = []byte("forged")
		if strings.HasSuffix(kind, "wrongspace") && kind != "both-other-aclwrongspace" {
			ch.SpaceId = alterString(A.p.Hdr.Id)
		}
		if strings.HasSuffix(kind, "respellspace") && kind != "both-other-aclrespellspace" {
			ch.SpaceId = respellId(A.p.Hdr.Id)[variant%2]
		}
		switch {
		case strings.HasSuffix(kind, "respellhead"):
			ch.AclHeadId = respellCid(p.Acl.Id)[variant%2]
		case strings.HasSuffix(kind, "wronghead"):
			ch.AclHeadId = alterString(ch.AclHeadId)
		default:
			ch.AclHeadId = p.Acl.Id
		}
		p.Set = signedPart("set", ch, who)
	}
	return p
}

/* ------------------------------------------------------------------ judging one rendered case */

type caseSpec struct {
	Ca    string  `json:"ca"`
	Cb    string  `json:"cb"`
	Same  bool    `json:"same"`
	Entry string  `json:"entry"`
	Ident string  `json:"ident"`
	Mut   mutSpec `json:"mut"`
}

type tlcCase struct {
	Cs          caseSpec        `json:"cs"`
	Verdict     string          `json:"verdict"`
	Facts       map[string]bool `json:"facts"`
	Bound       bool            `json:"bound"`
	Original    bool            `json:"original"`
	Observation bool            `json:"observation"`
}

func ctorKind(c string) string {
	switch {
	case isO2O(c):
		return "o2o"
	case isV1(c):
		return "v1"
	}
	return "v0"
}

// judge evaluates the property predicates on one real payload and the real verdict.
// observation: the specification lists the case as an accepted non-original construction outside the quantifier.
func judge(rep *vfutil.Report, cs caseSpec, label string, A, B space, p payload, v verdict, f facts, observation bool, replay any, ident ...crypto.PubKey) {
	what := fmt.Sprintf("%s %s (%s)", cs.Ca, cs.Mut.key(), label)
	ck := ctorKind(cs.Ca) + "/" + cs.Mut.short()
	if v.Stage == "panic" {
		rep.Violate("validator-panic/"+ck, "validator panicked on "+what+": "+v.Err, replay)
		return
	}
	if !v.Accepted {
		return
	}
	if cs.Entry == "header" {
		if ok, why := headerAuthentic(f); !ok {
			rep.Violate("header-accept-unauthentic/"+why+"/"+ck, fmt.Sprintf("ValidateSpaceHeader accepted %s although %s does not hold", what, why), replay)
		}
		// ... and belongs to the identity it was validated for, unless it is a 1-1 header
		if len(ident) == 1 && ident[0] != nil {
			var rh spacesyncproto.RawSpaceHeader
			var h spacesyncproto.SpaceHeader
			if rh.UnmarshalVT(p.Hdr.Raw) == nil && h.UnmarshalVT(rh.SpaceHeader) == nil && !spacepayloads.IsOneToOneType(h.SpaceType) {
				if want, _ := ident[0].Marshall(); !bytes.Equal(want, h.Identity) {
					rep.Violate("header-accept-foreign-identity/"+ck, "ValidateSpaceHeader accepted a header signed by another identity than the one given: "+what, replay)
				}
			}
		}
		return
	}
	if ok, why := bound(f); !ok {
		rep.Violate("accept-unbound/"+why+"/"+ck, fmt.Sprintf("payload accepted although %s does not hold: %s", why, what), replay)
		return
	}
	if !p.equal(A.p) && !p.equal(B.p) && !observation {
		rep.Violate("accept-mutated/"+ck, "a mutated payload was accepted: "+what, replay)
	}
}

func b64(b []byte) string { return base64.StdEncoding.EncodeToString(b) }

/* ------------------------------------------------------------------ TestCases: replay of the TLC cases */

type serviceCase struct {
	Key         string `json:"key"`
	HdrId       string `json:"hdrId"`
	HdrRaw      string `json:"hdrRaw"`
	AclId       string `json:"aclId"`
	AclRaw      string `json:"aclRaw"`
	SetId       string `json:"setId"`
	SetRaw      string `json:"setRaw"`
	Direct      bool   `json:"direct"`      // verdict of the validator called directly
	Bound       bool   `json:"bound"`       // oracle
	Why         string `json:"why"`         // first failing fact
	Original    bool   `json:"original"`    // payload is one of the valid spaces, untouched
	Observation bool   `json:"observation"` // accepted non-original construction outside the quantifier
}

type pairKey struct {
	ca, cb string
	same   bool
}

func runCases(t *testing.T, rep *vfutil.Report, cases []tlcCase, svcOut *json.Encoder) {
	rnd := vfutil.Rand()
	w := newWorld()
	spacesA := map[string]space{}
	spacesB := map[pairKey]space{}
	skipped := 0
	for _, tc := range cases {
		cs := tc.Cs
		A, ok := spacesA[cs.Ca]
		if !ok {
			A = w.spaceA(cs.Ca, rnd)
			spacesA[cs.Ca] = A
		}
		pk := pairKey{cs.Ca, cs.Cb, cs.Same}
		B, ok := spacesB[pk]
		if !ok {
			B = w.spaceB(cs.Cb, cs.Same, rnd)
			spacesB[pk] = B
		}
		var ident crypto.PubKey
		switch cs.Ident {
		case "owner":
			ident = A.sign.GetPublic()
		case "other":
			ident = w.mallory.sign.GetPublic()
		}
		rs := render(w, A, B, cs.Mut)
		rep.AddReplayed(1)
		for _, r := range rs {
			noop := r.p.equal(A.p)
			if noop && cs.Mut.Class != "none" && !tc.Original {
				// the real values coincide although the symbolic ones differ (e.g. equal timestamps): not a mutation
				skipped++
				continue
			}
			rep.Case(fmt.Sprintf("%s/%s/%s/%s/%s", cs.Ca, cs.Entry, cs.Ident, cs.Mut.key(), r.label))
			if cs.Mut.How == "respell" || strings.Contains(cs.Mut.Kind, "respell") {
				rep.AddExtra("respelled_cases", 1)
			}
			rep.AddSteps(1)
			f := computeFacts(r.p)
			var v verdict
			if cs.Entry == "header" {
				v = validateHeader(r.p, ident)
			} else {
				v = validatePayload(r.p)
			}
			replay := map[string]any{"case": tc, "label": r.label}
			judge(rep, cs, r.label, A, B, r.p, v, f, tc.Observation, replay, ident)
			// conformance with the specification (drift, never a violation)
			if v.Accepted != (tc.Verdict == "ok") {
				rep.DriftNote("%s %s %s %s: real accepted=%v (%s), spec verdict %s", cs.Ca, cs.Entry, cs.Mut.key(), r.label, v.Accepted, v.Err, tc.Verdict)
			} else if cs := coarse(tc.Verdict, cs.Entry); cs != v.Stage {
				rep.DriftNote("%s %s %s: real stage %s (%s), spec %s (%s)", tc.Cs.Ca, tc.Cs.Mut.key(), r.label, v.Stage, v.Err, cs, tc.Verdict)
			}
			if cs.Entry == "payload" {
				fm := f.asMap()
				for k, want := range tc.Facts {
					if got, ok := fm[k]; ok && got != want {
						rep.DriftNote("%s %s %s: fact %s is %v on the real bytes, spec %v", cs.Ca, cs.Mut.key(), r.label, k, got, want)
						break
					}
				}
				if svcOut != nil {
					ok, why := bound(f)
					_ = svcOut.Encode(serviceCase{Key: ctorKind(cs.Ca) + "/" + cs.Mut.short(), HdrId: r.p.Hdr.Id, HdrRaw: b64(r.p.Hdr.Raw), AclId: r.p.Acl.Id, AclRaw: b64(r.p.Acl.Raw),
						SetId: r.p.Set.Id, SetRaw: b64(r.p.Set.Raw), Direct: v.Accepted, Bound: ok, Why: why,
						Original: r.p.equal(A.p) || r.p.equal(B.p), Observation: tc.Observation})
				}
			}
			rep.Sample(map[string]any{"case": cs, "real_field": r.label, "accepted": v.Accepted, "stage": v.Stage, "facts": f.asMap()})
		}
	}
	rep.SetExtra("skipped_coinciding_values", skipped)
}

func TestCases(t *testing.T) {
	rep := vfutil.NewReport("C13")
	defer func() { rep.Save(!t.Failed() || rep.NumViolations() > 0) }()
	cases, err := vfutil.LoadJSONFiles[tlcCase](os.Getenv("VERIF_BEHAVIOURS"))
	if err != nil {
		t.Fatal(err)
	}
	if len(cases) == 0 {
		t.Fatal("no cases")
	}
	var enc *json.Encoder
	if out := os.Getenv("VERIF_SERVICE_CASES"); out != "" {
		fh, err := os.Create(out)
		if err != nil {
			t.Fatal(err)
		}
		defer fh.Close()
		enc = json.NewEncoder(fh)
	}
	runCases(t, rep, cases, enc)
	rep.SetExtra("tlc_cases", len(cases))
}

/* ------------------------------------------------------------------ TestSweep: single-byte mutations */

// classify a byte mutation of a part by its semantic effect: which single field of the decoded part
// changed.  Returns the spec field class, or "undecodable" / "multi" / "noop-encoding".
func classify(pn string, orig, mut []byte) (class string, realField string) {
	o := must(decode(pn, orig))
	l1 := newL1(pn)
	if l1.UnmarshalVT(mut) != nil {
		return "undecodable", "envelope"
	}
	var changed []string
	for _, f := range pbFields(l1) {
		if !reflect.DeepEqual(field(l1, f).Interface(), field(o.l1, f).Interface()) {
			changed = append(changed, f)
		}
	}
	if len(changed) == 0 {
		if bytes.Equal(must(l1.MarshalVT()), must(o.l1.MarshalVT())) && !bytes.Equal(mut, orig) {
			// same known fields: an unknown field appeared or the encoding is not canonical
			return "noop-encoding", "envelope"
		}
		return "noop-encoding", "envelope"
	}
	if len(changed) > 1 {
		return "multi", strings.Join(changed, "+")
	}
	if changed[0] == "Signature" {
		return "sig", "Signature"
	}
	if changed[0] != l1Body(pn) {
		return "extra", changed[0]
	}
	l2 := newL2(pn)
	if l2.UnmarshalVT(field(l1, l1Body(pn)).Bytes()) != nil {
		return "undecodable", "body"
	}
	changed = changed[:0]
	for _, f := range pbFields(l2) {
		if !reflect.DeepEqual(field(l2, f).Interface(), field(o.l2, f).Interface()) {
			changed = append(changed, f)
		}
	}
	switch len(changed) {
	case 0:
		return "noop-encoding", "body"
	case 1:
		return classOf(pn, changed[0]), changed[0]
	}
	return "multi", strings.Join(changed, "+")
}

type sweepReplay struct {
	Sweep  bool   `json:"sweep"`
	Ctor   string `json:"ctor"`
	Part   string `json:"part"`
	Offset int    `json:"offset"`
	Mask   int    `json:"mask"`
	Rehash bool   `json:"rehash"`
	Class  string `json:"class"`
}

func sweep(rep *vfutil.Report, w *world, A space, pn string, offsets []int, masks []byte, tw *vfutil.TraceWriter, only *sweepReplay) {
	orig := A.p.part(pn).Raw
	for _, off := range offsets {
		for _, mask := range masks {
			for _, rh := range []bool{false, true} {
				p := A.p.clone()
				pt := p.part(pn)
				pt.Raw[off] ^= mask
				cls, rf := classify(pn, orig, pt.Raw)
				if only != nil && (only.Class != cls || only.Rehash != rh) {
					continue
				}
				if rh {
					rehash(pn, pt)
				}
				rep.Case(fmt.Sprintf("sweep/%s/%s/%s/%v", A.ctor, pn, cls+":"+rf, rh))
				rep.AddSteps(1)
				f := computeFacts(p)
				v := validatePayload(p)
				how := "alt"
				m := mutSpec{Class: "field", Part: pn, Field: cls, How: how, Rehash: rh}
				cs := caseSpec{Ca: A.ctor, Cb: A.ctor, Entry: "payload", Ident: "nil", Mut: m}
				// accepted non-original constructions outside the quantifier: envelope / encoding changes with
				// recomputed id on a part whose id nothing refers to (v1 header, v0 settings root)
				obs := rh && (cls == "noop-encoding" || cls == "extra") && ((pn == "hdr" && isV1(A.ctor)) || (pn == "set" && !isV1(A.ctor)))
				replay := sweepReplay{true, A.ctor, pn, off, int(mask), rh, cls}
				judge(rep, cs, fmt.Sprintf("byte %d ^ %#x: %s", off, mask, rf), A, A, p, v, f, obs, replay)
				if !rh && v.Accepted {
					rep.Violate(fmt.Sprintf("accept-byte-mutation/%s/%s.%s", ctorKind(A.ctor), pn, cls),
						fmt.Sprintf("%s: %s with byte %d of the raw part ^ %#x (%s) and unchanged ids was accepted", A.ctor, pn, off, mask, rf), replay)
				}
				if tw != nil {
					tw.Emit(map[string]any{"ev": "Obs", "ca": A.ctor, "part": pn, "field": cls, "rehash": rh, "offset": off,
						"accepted": v.Accepted, "stage": v.Stage, "facts": f.asMap(),
						"dec": map[string]bool{"hdr": f.HdrDec, "acl": f.AclDec, "set": f.SetDec}})
				}
			}
		}
	}
}

var allCtors = []string{"createV0", "createV1", "deriveV0", "deriveV1", "o2o", "o2oAny"}

func TestSweep(t *testing.T) {
	rep := vfutil.NewReport("C13")
	defer func() { rep.Save(!t.Failed() || rep.NumViolations() > 0) }()
	rnd := vfutil.Rand()
	w := newWorld()
	var tw *vfutil.TraceWriter
	if out := os.Getenv("VERIF_TRACE_OUT"); out != "" {
		tw = vfutil.NewTraceWriter(out)
		defer tw.Close()
	}
	per := vfutil.EnvInt("VERIF_SWEEP_OFFSETS", 120) // offsets per part; 0 = all
	nmasks := vfutil.EnvInt("VERIF_SWEEP_MASKS", 1)
	total := 0
	for _, ctor := range allCtors {
		A := w.spaceA(ctor, rnd)
		if v := validatePayload(A.p); !v.Accepted {
			t.Fatalf("harness: valid %s payload rejected: %s", ctor, v.Err)
		}
		for _, pn := range []string{"hdr", "acl", "set"} {
			n := len(A.p.part(pn).Raw)
			var offsets []int
			if per == 0 || per >= n {
				for i := 0; i < n; i++ {
					offsets = append(offsets, i)
				}
			} else {
				// always the first bytes (envelope tag / length), the rest sampled
				seen := map[int]bool{}
				for i := 0; i < 6 && i < n; i++ {
					offsets = append(offsets, i)
					seen[i] = true
				}
				for len(offsets) < per {
					if i := rnd.Intn(n); !seen[i] {
						seen[i] = true
						offsets = append(offsets, i)
					}
				}
				sort.Ints(offsets)
			}
			masks := []byte{byte(1 << uint(rnd.Intn(8)))}
			for len(masks) < nmasks {
				masks = append(masks, []byte{0xff, 0x80, 0x01, 0x55}[len(masks)%4])
			}
			sweep(rep, w, A, pn, offsets, masks, tw, nil)
			total += len(offsets) * len(masks) * 2
		}
		rep.AddReplayed(1)
	}
	rep.SetExtra("sweep_mutations", total)
	if tw != nil {
		rep.SetExtra("trace_events", tw.Len())
	}
}

/* ------------------------------------------------------------------ TestOneToOne */

type aclView struct {
	readKey, metaPub, metaPriv []byte
	perms                      map[string]int
	err                        string
}

func viewOf(t *testing.T, me crypto.PrivKey, root part, others ...crypto.PubKey) aclView {
	peerKey, _, _ := crypto.GenerateRandomEd25519KeyPair()
	keys := accountdata.New(peerKey, me)
	st, err := list.NewInMemoryStorage(root.Id, []*consensusproto.RawRecordWithId{{Payload: root.Raw, Id: root.Id}})
	if err != nil {
		t.Fatal(err)
	}
	var v aclView
	var l list.AclList
	_, pn := safely(func() error { l, err = list.BuildAclListWithIdentity(keys, st, recordverifier.NewValidateFull()); return err })
	if pn != nil {
		v.err = fmt.Sprint("panic: ", pn)
		return v
	}
	if err != nil {
		v.err = err.Error()
		return v
	}
	s := l.AclState()
	if rk, err := s.CurrentReadKey(); err == nil && rk != nil {
		v.readKey, _ = rk.Raw()
	}
	if mk, err := s.CurrentMetadataKey(); err == nil && mk != nil {
		v.metaPub, _ = mk.Raw()
	}
	if mk, err := s.FirstMetadataKey(); err == nil && mk != nil {
		v.metaPriv, _ = mk.Raw()
	}
	v.perms = map[string]int{}
	for _, o := range append(others, me.GetPublic()) {
		v.perms[o.Account()] = int(s.Permissions(o))
	}
	return v
}

func TestOneToOne(t *testing.T) {
	rep := vfutil.NewReport("C13")
	defer func() { rep.Save(!t.Failed() || rep.NumViolations() > 0) }()
	n := vfutil.EnvInt("VERIF_O2O_PAIRS", 100)
	types := []string{spacepayloads.SpaceTypeOneToOne, spacepayloads.SpaceTypeOneToOneAny}
	if raw, ok := vfutil.ReplayFile(); ok {
		_ = raw
		n = 50
	}
	for i := 0; i < n; i++ {
		a, _, _ := crypto.GenerateRandomEd25519KeyPair()
		b, _, _ := crypto.GenerateRandomEd25519KeyPair()
		c, _, _ := crypto.GenerateRandomEd25519KeyPair()
		typ := types[i%2]
		mk := func(x crypto.PrivKey, y crypto.PubKey, tp string) payload {
			sp, err := spacepayloads.StoragePayloadForOneToOneSpaceWithType(x, y, tp)
			if err != nil {
				t.Fatalf("harness: 1-1 constructor failed: %v", err)
			}
			return fromReal(sp)
		}
		ab, ba := mk(a, b.GetPublic(), typ), mk(b, a.GetPublic(), typ)
		rep.Case("o2o/" + typ)
		rep.AddReplayed(1)
		replay := map[string]any{"o2o": true, "type": typ}
		// symmetric, component-wise
		for _, cmp := range []struct {
			name string
			same bool
		}{{"space-id", ab.Hdr.Id == ba.Hdr.Id}, {"header", bytes.Equal(ab.Hdr.Raw, ba.Hdr.Raw)}, {"acl-root-id", ab.Acl.Id == ba.Acl.Id},
			{"acl-root", bytes.Equal(ab.Acl.Raw, ba.Acl.Raw)}, {"settings-root-id", ab.Set.Id == ba.Set.Id}, {"settings-root", bytes.Equal(ab.Set.Raw, ba.Set.Raw)}} {
			if !cmp.same {
				rep.Violate("o2o-asymmetric/"+cmp.name, fmt.Sprintf("the two parties of a %s space derive a different %s", typ, cmp.name), replay)
			}
		}
		if v := validatePayload(ab); !v.Accepted {
			rep.DriftNote("valid 1-1 payload rejected: %s", v.Err)
		}
		if ok, why := bound(computeFacts(ab)); !ok {
			rep.Violate("o2o-unbound/"+why, "a 1-1 payload built by the real constructor is not bound: "+why, replay)
		}
		// both parties derive the same read / metadata keys, and are writers; the shared key is the owner
		va, vb := viewOf(t, a, ab.Acl, b.GetPublic()), viewOf(t, b, ba.Acl, a.GetPublic())
		if va.err != "" || vb.err != "" {
			rep.Violate("o2o-party-cannot-build-acl", fmt.Sprintf("a party cannot build the ACL of its own 1-1 space: %q / %q", va.err, vb.err), replay)
		} else {
			if len(va.readKey) == 0 || !bytes.Equal(va.readKey, vb.readKey) {
				rep.Violate("o2o-asymmetric/read-key", "the two parties derive different (or no) read keys", replay)
			}
			if len(va.metaPub) == 0 || !bytes.Equal(va.metaPub, vb.metaPub) || !bytes.Equal(va.metaPriv, vb.metaPriv) {
				rep.Violate("o2o-asymmetric/metadata-key", "the two parties derive different (or no) metadata keys", replay)
			}
			if va.perms[a.GetPublic().Account()] != va.perms[b.GetPublic().Account()] || va.perms[a.GetPublic().Account()] != vb.perms[a.GetPublic().Account()] ||
				va.perms[a.GetPublic().Account()] == int(list.AclPermissionsNone) {
				rep.Violate("o2o-asymmetric/permissions", fmt.Sprintf("parties see different permissions: %v / %v", va.perms, vb.perms), replay)
			}
		}
		// no other key pair derives them
		for _, other := range []payload{mk(a, c.GetPublic(), typ), mk(c, a.GetPublic(), typ), mk(c, b.GetPublic(), typ), mk(b, c.GetPublic(), typ)} {
			if other.Hdr.Id == ab.Hdr.Id || other.Acl.Id == ab.Acl.Id || other.Set.Id == ab.Set.Id {
				rep.Violate("o2o-third-party-derives-same", "a pair involving a third key derives the same space id / ACL root / settings root", replay)
			}
		}
		vc := viewOf(t, c, ab.Acl)
		if len(vc.readKey) != 0 && bytes.Equal(vc.readKey, va.readKey) || len(vc.metaPriv) != 0 && bytes.Equal(vc.metaPriv, va.metaPriv) {
			rep.Violate("o2o-third-party-derives-keys", "a third key derives the read / metadata key of the 1-1 space", replay)
		}
		vac := viewOf(t, a, mk(a, c.GetPublic(), typ).Acl)
		if len(vac.readKey) != 0 && bytes.Equal(vac.readKey, va.readKey) {
			rep.Violate("o2o-key-reuse", "the 1-1 spaces (a,b) and (a,c) share a read key", replay)
		}
		// the two 1-1 types derive distinct spaces
		if ot := mk(a, b.GetPublic(), types[(i+1)%2]); ot.Hdr.Id == ab.Hdr.Id {
			rep.Violate("o2o-types-collide", "anytype.onetoone and any.onetoone derive the same space id", replay)
		}
		// shared key agreement itself, on every derivation path used
		for _, path := range []string{crypto.AnysyncOneToOneSpacePath, crypto.AnysyncMetadataOneToOnePath} {
			k1, e1 := crypto.GenerateSharedKey(a, b.GetPublic(), path)
			k2, e2 := crypto.GenerateSharedKey(b, a.GetPublic(), path)
			k3, e3 := crypto.GenerateSharedKey(c, b.GetPublic(), path)
			if e1 != nil || e2 != nil || e3 != nil {
				rep.Violate("o2o-shared-key-error", fmt.Sprintf("GenerateSharedKey failed: %v %v %v", e1, e2, e3), replay)
				continue
			}
			if !k1.GetPublic().Equals(k2.GetPublic()) {
				rep.Violate("o2o-asymmetric/shared-key", "GenerateSharedKey(a,B) != GenerateSharedKey(b,A) on "+path, replay)
			}
			if k1.GetPublic().Equals(k3.GetPublic()) {
				rep.Violate("o2o-third-party-derives-keys", "GenerateSharedKey(c,B) = GenerateSharedKey(a,B)", replay)
			}
		}
		if i == 0 {
			rep.Sample(map[string]any{"o2o_type": typ, "space_id": ab.Hdr.Id, "acl_root": ab.Acl.Id, "settings_root": ab.Set.Id,
				"read_key_equal": bytes.Equal(va.readKey, vb.readKey), "third_party_read_key": len(vc.readKey) != 0})
		}
	}
}

/* ------------------------------------------------------------------ TestReplay */

func TestReplay(t *testing.T) {
	rep := vfutil.NewReport("C13")
	defer func() { rep.Save(!t.Failed() || rep.NumViolations() > 0) }()
	raw, ok := vfutil.ReplayFile()
	if !ok {
		t.Skip("no replay file")
	}
	var probe struct {
		Sweep bool     `json:"sweep"`
		O2O   bool     `json:"o2o"`
		Case  *tlcCase `json:"case"`
	}
	if err := json.Unmarshal(raw, &probe); err != nil {
		t.Fatal(err)
	}
	switch {
	case probe.Case != nil:
		runCases(t, rep, []tlcCase{*probe.Case}, nil)
	case probe.Sweep:
		var sr sweepReplay
		_ = json.Unmarshal(raw, &sr)
		w := newWorld()
		A := w.spaceA(sr.Ctor, vfutil.Rand())
		n := len(A.p.part(sr.Part).Raw)
		offsets := make([]int, n)
		for i := range offsets {
			offsets[i] = i
		}
		sweep(rep, w, A, sr.Part, offsets, []byte{byte(sr.Mask)}, nil, &sr)
	default:
		t.Skip("replay objects of the one-to-one part are re-run by TestOneToOne")
	}
}
