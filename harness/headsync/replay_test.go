package headsync

import (
	"encoding/json"
	"fmt"
	"os"
	"path/filepath"
	"sort"
	"strings"
	"sync"
	"sync/atomic"
	"testing"

	"github.com/anyproto/any-sync/commonspace/headsync/headstorage"

	"verifharness/vfutil"
)

// ---- the behaviours TLC emits (spec/headsync/HeadSyncGen.tla) ----

type mEntry struct {
	Has bool     `json:"has"`
	Hd  []string `json:"hd"`
	Del string   `json:"del"`
}
type mRound struct {
	St   string `json:"st"`
	Cur  string `json:"cur"`
	Nreq int    `json:"nreq"`
}
type mObs struct {
	Idx    map[string]map[string][]string `json:"idx"`
	Store  map[string]map[string]mEntry   `json:"store"`
	Online map[string]bool                `json:"online"`
	Pendn  map[string]int                 `json:"pendn"`
	Rnd    map[string]mRound              `json:"rnd"`
	Tasks  []task                         `json:"tasks"`
	Space  map[string]bool                `json:"space"`
}
type mOut struct {
	Res      string   `json:"res"`
	Missing  []string `json:"missing"`
	Existing []string `json:"existing"`
	Acl      bool     `json:"acl"`
	Kv       bool     `json:"kv"`
	Nreq     int      `json:"nreq"`
	Effect   bool     `json:"effect"`
	U        *struct {
		Id  string   `json:"id"`
		Hd  []string `json:"hd"`
		Del string   `json:"del"`
	} `json:"u"`
}
type mStep struct {
	A   string `json:"a"`
	P   string `json:"p"`
	Q   string `json:"q"`
	I   string `json:"i"`
	C   string `json:"c"`
	Out mOut   `json:"out"`
	Obs mObs   `json:"obs"`
}
type behaviour struct {
	Spec    string              `json:"spec"`
	Peers   []string            `json:"peers"`
	PeerSeq map[string][]string `json:"peerseq"`
	Trees   []string            `json:"trees"`
	Acl     []string            `json:"acl"`
	Kv      []string            `json:"kv"`
	Changes []string            `json:"changes"`
	NoSpace []string            `json:"nospace"`
	Steps   []mStep             `json:"steps"`
	// replays carry the original file name
	Name string `json:"name,omitempty"`
}

func first(s []string) string {
	if len(s) == 0 {
		return ""
	}
	return s[0]
}

func idxText(h []string) string {
	if len(h) == 1 && h[0] == absentMark {
		return absentMark
	}
	return strings.Join(sorted(h), "+")
}

// runBehaviour replays one behaviour on a fresh world. Returns the number of steps executed.
func runBehaviour(j *judge, b *behaviour) int {
	w := newWorld(b.Peers, b.PeerSeq, first(b.Acl), first(b.Kv), b.NoSpace...)
	defer w.close()
	j.stop = false
	j.tag = fmt.Sprintf("p%d/t%d/a%d/k%d/s%d", len(b.Peers), len(b.Trees), len(b.Acl), len(b.Kv), len(b.NoSpace))
	ids := append(append(append([]string{}, b.Trees...), b.Acl...), b.Kv...)
	done := 0
	for k, s := range b.Steps {
		if j.stop {
			break
		}
		key := j.tag + "/" + s.A
		at := fmt.Sprintf("step %d %s(%s,%s,%s,%s)", k+1, s.A, s.P, s.Q, s.I, s.C)
		switch s.A {
		case "Create":
			w.create(s.P, s.I)
		case "Edit":
			w.edit(s.P, s.I, s.C)
		case "Delete":
			w.delete(s.P, s.I)
		case "DeleteFinish":
			w.deleteFinish(s.P, s.I)
		case "Flip":
			w.flip(s.P)
		case "Restart":
			w.restart(j, s.P)
		case "RestartEdit":
			w.restartEdit(j, s.P, s.I, s.C)
		case "IndexApply":
			u := w.indexApply(j, s.P)
			key += "/" + updKind(u)
			if s.Out.U != nil && !j.stop {
				del := statusName(u.DeletedStatus)
				if u.Id != s.Out.U.Id || del != s.Out.U.Del || (del == "none" && !sameSet(w.setOf(u.Id, u.Heads), s.Out.U.Hd)) {
					j.drift("%s: the oldest notification is {%s %v %s}, the specification says {%s %v %s}", at, u.Id, u.Heads, del, s.Out.U.Id, s.Out.U.Hd, s.Out.U.Del)
				}
			}
		case "RoundBegin":
			w.roundBegin(s.P)
		case "RoundCheck":
			res := w.roundCheck(j, s.P)
			key += "/" + res
			if res != s.Out.Res && !j.stop {
				j.drift("%s: type check ended with %q, the specification says %q", at, res, s.Out.Res)
			}
		case "RoundPush":
			res := w.roundPush(j, s.P)
			key += "/" + res
			if res != s.Out.Res && !j.stop {
				j.drift("%s: push ended with %q, the specification says %q", at, res, s.Out.Res)
			}
		case "RoundDiff":
			res, reqs := w.roundDiff(j, s.P)
			key += fmt.Sprintf("/%s/r%d", res, reqs)
			if res != s.Out.Res && !j.stop {
				j.drift("%s: diff ended with %q, the specification says %q", at, res, s.Out.Res)
			}
		case "RoundApply":
			o := w.roundApply(j, s.P)
			key += fmt.Sprintf("/m%d/e%d/%v/%v/n%d", min(len(o.Missing), 2), min(len(o.Existing), 2), o.Acl, o.Kv, min(o.Nreq, 2))
			if !j.stop && (!sameSet(o.Missing, s.Out.Missing) || !sameSet(o.Existing, s.Out.Existing) || o.Acl != s.Out.Acl || o.Kv != s.Out.Kv) {
				j.drift("%s: SyncAll(existing %v, missing %v) acl %v kv %v, the specification says existing %v missing %v acl %v kv %v",
					at, o.Existing, o.Missing, o.Acl, o.Kv, s.Out.Existing, s.Out.Missing, s.Out.Acl, s.Out.Kv)
			}
		case "TreeSync":
			eff := w.treeSync(task{F: s.P, T: s.Q, I: s.I, K: s.C})
			key += fmt.Sprintf("/%s/%v", s.C, eff)
			if eff != s.Out.Effect {
				j.drift("%s: effect %v, the specification says %v", at, eff, s.Out.Effect)
			}
		default:
			hpanic("unknown action %q", s.A)
		}
		j.rep.Case(key)
		done++
		if !j.stop {
			w.compare(j, at, ids, &s.Obs)
		}
	}
	if !j.stop {
		w.settle(j)
		j.rep.Case(j.tag + "/settle")
	}
	return done
}

// compare: the projected state the specification predicts against what the real component shows
func (w *world) compare(j *judge, at string, ids []string, o *mObs) {
	for _, p := range w.order {
		n := w.nodes[p]
		if o.Space != nil && n.hasSpace() != o.Space[p] {
			j.drift("%s: %s holds the space: %v, the specification says %v", at, p, n.hasSpace(), o.Space[p])
			return
		}
		v, _ := n.index()
		dec := w.decode(v)
		for _, id := range ids {
			got, ok := dec[id]
			if !ok {
				got = absentMark
			}
			if want := idxText(o.Idx[p][id]); got != want {
				j.drift("%s: index of %s holds %q for %s, the specification says %q", at, p, got, id, want)
				return
			}
		}
		for id := range dec {
			if !contains(ids, id) {
				j.drift("%s: index of %s holds the unknown id %s", at, p, id)
				return
			}
		}
		n.mu.Lock()
		held := len(n.held)
		n.mu.Unlock()
		if held != o.Pendn[p] {
			j.drift("%s: %d notifications are queued at %s, the specification says %d", at, held, p, o.Pendn[p])
			return
		}
		rs := n.roundState()
		if m := o.Rnd[p]; rs.St != m.St || rs.Cur != m.Cur || (rs.St != "idle" && rs.Nreq != m.Nreq) {
			j.drift("%s: round of %s is at %+v, the specification says %+v", at, p, rs, m)
			return
		}
		for _, id := range ids {
			m := o.Store[p][id]
			e, ok := n.entry(id)
			del := "none"
			var hd []string
			if ok {
				del = statusName(e.DeletedStatus)
				hd = w.setOf(id, e.Heads)
			}
			has := n.has(id)
			if del != m.Del || has != m.Has || (has && !sameSet(hd, m.Hd)) {
				j.drift("%s: store of %s holds {has %v heads %v %s} for %s, the specification says %+v", at, p, has, hd, del, id, m)
				return
			}
		}
	}
	want := map[task]bool{}
	for _, t := range o.Tasks {
		want[t] = true
	}
	if len(want) != len(w.tasks) {
		j.drift("%s: jobs %v, the specification says %v", at, w.tasks, o.Tasks)
		return
	}
	for t := range want {
		if !w.tasks[t] {
			j.drift("%s: jobs %v, the specification says %v", at, w.tasks, o.Tasks)
			return
		}
	}
}

func loadBehaviours() (res []*behaviour) {
	for _, dir := range strings.Split(os.Getenv("VERIF_BEHAVIOURS"), ":") {
		if dir == "" {
			continue
		}
		names, _ := filepath.Glob(filepath.Join(dir, "*.json"))
		sort.Strings(names)
		for _, nm := range names {
			raw, err := os.ReadFile(nm)
			if err != nil {
				hpanic("%v", err)
			}
			b := new(behaviour)
			if err := json.Unmarshal(raw, b); err != nil {
				hpanic("%s: %v", nm, err)
			}
			b.Name = filepath.Base(filepath.Dir(nm)) + "/" + filepath.Base(nm)
			res = append(res, b)
		}
	}
	return
}

func finish(t *testing.T, rep *vfutil.Report) {
	if p := recover(); p != nil {
		rep.Save(false)
		panic(p)
	}
	rep.Save(true)
	if rep.NumViolations() > 0 {
		t.Fail()
	}
}

// TestReplay: behaviours generated by TLC from HeadSyncGen (or the replay object of a reported
// violation) are executed step by step on real components.
func TestReplay(t *testing.T) {
	rep := vfutil.NewReport(os.Getenv("VERIF_PROPERTY"))
	defer finish(t, rep)
	if raw, ok := vfutil.ReplayFile(); ok {
		var r struct {
			Kind      string          `json:"kind"`
			Behaviour *behaviour      `json:"behaviour"`
			Scenario  string          `json:"scenario"`
			Random    json.RawMessage `json:"random"`
		}
		if err := json.Unmarshal(raw, &r); err != nil {
			hpanic("replay object: %v", err)
		}
		switch r.Kind {
		case "behaviour":
			j := &judge{rep: rep, replay: map[string]any{"kind": "behaviour", "behaviour": r.Behaviour}}
			runBehaviour(j, r.Behaviour)
			rep.AddReplayed(1)
		case "scenario":
			runScenarios(rep, r.Scenario)
		case "random":
			var c randCase
			if err := json.Unmarshal(r.Random, &c); err != nil {
				hpanic("replay object: %v", err)
			}
			runRandom(rep, c, nil)
		default:
			hpanic("unknown replay kind %q", r.Kind)
		}
		return
	}
	bs := loadBehaviours()
	if len(bs) == 0 {
		hpanic("no behaviours in VERIF_BEHAVIOURS")
	}
	var steps atomic.Int64
	var wg sync.WaitGroup
	var perr atomic.Value
	ch := make(chan *behaviour)
	for wk := 0; wk < vfutil.EnvInt("VERIF_PAR", 6); wk++ {
		wg.Add(1)
		go func() {
			defer wg.Done()
			defer func() {
				if p := recover(); p != nil {
					perr.CompareAndSwap(nil, fmt.Sprint(p))
					for range ch {
					}
				}
			}()
			for b := range ch {
				j := &judge{rep: rep, replay: map[string]any{"kind": "behaviour", "behaviour": b}}
				steps.Add(int64(runBehaviour(j, b)))
				rep.AddReplayed(1)
			}
		}()
	}
	for _, b := range bs {
		ch <- b
	}
	close(ch)
	wg.Wait()
	if e := perr.Load(); e != nil {
		panic(e)
	}
	b0 := bs[0]
	rep.Sample(map[string]any{"behaviour": b0.Name, "steps": len(b0.Steps), "first": fmt.Sprintf("%s(%s,%s)", b0.Steps[0].A, b0.Steps[0].P, b0.Steps[0].I)})
	rep.AddSteps(int(steps.Load()))
	rep.SetExtra("behaviours", len(bs))
	runScenarios(rep, "")
}

var _ = headstorage.DeletedStatusDeleted
