// Package headsync binds spec/headsync/HeadSync.tla to the real commonspace/headsync component.
//
// Every node of the world runs the REAL headsync component (headsync.New(): headSync, diffSyncer,
// DiffManager, headUpdater, a real ldiff index) over a REAL head storage and state storage in a
// temporary any-store database and the REAL deletion state. Fakes are only what the component talks
// to: the peer manager and peers (their drpc.Conn loops the HeadSync rpc back into the remote node's
// real HeadSync.HandleRangeRequest through the real generated client, i.e. through NewRemoteDiff and
// the wire adapter), the tree syncer (its implementation lives outside the repository), the acl and
// key-value services (only Id / SyncWithPeer are used), credential provider, node configuration.
//
// The driver is sequential: a round runs in its own goroutine and parks at gates (every HeadSync
// request, the first deletionState.Filter of applyDiff); each spec action releases exactly one gate
// and waits for the next one, so the interleavings of the specification are reproduced exactly and
// without timing.
package headsync

import (
	"context"
	"encoding/hex"
	"errors"
	"fmt"
	"math"
	"net"
	"os"
	"path/filepath"
	"sort"
	"strings"
	"sync"
	"sync/atomic"
	"time"

	anystore "github.com/anyproto/any-store"
	"storj.io/drpc"

	"github.com/anyproto/any-sync/app"
	"github.com/anyproto/any-sync/app/ldiff"
	"github.com/anyproto/any-sync/commonspace/config"
	"github.com/anyproto/any-sync/commonspace/credentialprovider"
	"github.com/anyproto/any-sync/commonspace/deletionstate"
	"github.com/anyproto/any-sync/commonspace/headsync"
	"github.com/anyproto/any-sync/commonspace/headsync/headstorage"
	"github.com/anyproto/any-sync/commonspace/headsync/statestorage"
	"github.com/anyproto/any-sync/commonspace/object/acl/list"
	"github.com/anyproto/any-sync/commonspace/object/acl/syncacl"
	"github.com/anyproto/any-sync/commonspace/object/keyvalue/keyvaluestorage"
	"github.com/anyproto/any-sync/commonspace/object/keyvalue/kvinterfaces"
	"github.com/anyproto/any-sync/commonspace/object/tree/objecttree"
	"github.com/anyproto/any-sync/commonspace/object/treesyncer"
	"github.com/anyproto/any-sync/commonspace/peermanager"
	"github.com/anyproto/any-sync/commonspace/spacestate"
	"github.com/anyproto/any-sync/commonspace/spacestorage"
	"github.com/anyproto/any-sync/commonspace/spacesyncproto"
	"github.com/anyproto/any-sync/net/peer"
	"github.com/anyproto/any-sync/nodeconf"
)

var ctxBg = context.Background()

const (
	spaceId     = "verif-space"
	settingsId  = "verif-settings"
	fencePrefix = "~fence-"
	absentMark  = "~"
	watchdog    = 300 * time.Second // converts a genuine hang into a report; never an oracle
)

type harnessPanic string

func hpanic(format string, a ...any) { panic(harnessPanic(fmt.Sprintf("harness: "+format, a...))) }

// ---------------------------------------------------------------------------------- world

type task struct {
	F string `json:"f"`
	T string `json:"t"`
	I string `json:"i"`
	K string `json:"k"`
}

type world struct {
	mu      sync.Mutex
	dir     string
	nodes   map[string]*node
	order   []string
	peerSeq map[string][]string
	aclId   string
	kvId    string
	tasks   map[task]bool
	// registry of every heads value ever written: element head (as the index stores it) -> canonical text
	headText map[string]string
	// when set, the space does not exist on these peers yet (ErrSpaceMissing path)
	log []string
}

func newWorld(peers []string, peerSeq map[string][]string, aclId, kvId string, noSpace ...string) *world {
	w := &world{dir: mkScratch(), nodes: map[string]*node{}, peerSeq: peerSeq, aclId: aclId, kvId: kvId,
		tasks: map[task]bool{}, headText: map[string]string{}}
	w.order = append(w.order, peers...)
	sort.Strings(w.order)
	for _, p := range w.order {
		w.nodes[p] = newNode(w, p, !contains(noSpace, p))
	}
	for _, p := range w.order {
		if w.nodes[p].space {
			w.nodes[p].start()
		}
	}
	return w
}

func mkScratch() string {
	base := os.Getenv("VERIF_SCRATCH")
	if base == "" {
		base = os.TempDir()
	}
	d, err := os.MkdirTemp(base, "hsw")
	if err != nil {
		panic(err)
	}
	return d
}

func (w *world) close() {
	// whatever is still parked fails its request (everybody offline), then the components and the stores go
	for _, p := range w.order {
		n := w.nodes[p]
		n.mu.Lock()
		n.online = false
		n.mu.Unlock()
	}
	for _, p := range w.order {
		w.nodes[p].abortRound()
	}
	for _, p := range w.order {
		w.nodes[p].stop()
	}
	for _, p := range w.order {
		_ = w.nodes[p].db.Close()
	}
	_ = os.RemoveAll(w.dir)
}

func (w *world) special(id string) bool { return id != "" && (id == w.aclId || id == w.kvId) }

// ---------------------------------------------------------------------------------- heads encoding

// headsOf encodes a change set of object id as the heads array the respective storage would write:
// a tree has one head per change (root only: [id]); the acl list has one head (its last record);
// the key-value store has one head (the hash of its own index).
func (w *world) headsOf(id string, set []string) []string {
	s := append([]string(nil), set...)
	sort.Strings(s)
	switch {
	case id == w.kvId && id != "":
		return []string{"kvh:" + strings.Join(s, "+")}
	case id == w.aclId && id != "":
		if len(s) == 0 {
			return []string{id}
		}
		return []string{id + "/" + strings.Join(s, "+")}
	default:
		if len(s) == 0 {
			return []string{id}
		}
		res := make([]string, len(s))
		for k, c := range s {
			res[k] = id + "/" + c
		}
		return res
	}
}

func (w *world) setOf(id string, heads []string) []string {
	res := []string{}
	switch {
	case id == w.kvId && id != "":
		if len(heads) == 1 && strings.HasPrefix(heads[0], "kvh:") && len(heads[0]) > 4 {
			res = strings.Split(heads[0][4:], "+")
		}
	case id == w.aclId && id != "":
		if len(heads) == 1 && strings.HasPrefix(heads[0], id+"/") {
			res = strings.Split(heads[0][len(id)+1:], "+")
		}
	default:
		for _, h := range heads {
			if strings.HasPrefix(h, id+"/") {
				res = append(res, h[len(id)+1:])
			}
		}
	}
	sort.Strings(res)
	return res
}

func elemHead(heads []string) string {
	h := ldiff.NewHasher()
	defer ldiff.ReleaseHasher(h)
	return h.HashId(strings.Join(heads, ""))
}

func (w *world) register(id string, heads []string) {
	w.mu.Lock()
	w.headText[id+"\x00"+elemHead(heads)] = strings.Join(w.setOf(id, heads), "+")
	w.mu.Unlock()
}

// ---------------------------------------------------------------------------------- node

type gate struct {
	kind string // "req" | "push" | "filter" | "done"
	conn *fakeConn
	rel  chan struct{}
	err  error
}

type syncAllCall struct {
	Peer     string   `json:"peer"`
	Existing []string `json:"existing"`
	Missing  []string `json:"missing"`
	Tomb     []string `json:"tomb"` // ids of the two lists that the real deletion state knows at the time of the call
}

type node struct {
	w    *world
	id   string
	db   anystore.DB
	hst  *headStoreWrap
	real headstorage.HeadStorage
	ss   statestorage.StateStorage

	mu       sync.Mutex
	online   bool
	space    bool // the node holds the space (the component is running)
	pushReqs []string
	subs     []string
	fillHook func() // runs once, right after FillDiff has read the head storage
	armed    bool
	held     []headstorage.HeadsEntry
	fenceN   int
	fenceCh  chan string
	startup  chan struct{}
	calls    []syncAllCall
	aclSyncs []string
	kvSyncs  []string
	acquires []string
	keep     int
	pushes   int

	app *app.App
	hs  headsync.HeadSync
	del *delWrap

	gates       chan gate
	parked      *gate
	running     bool
	filterArmed atomic.Bool
	connSeq     int
	lastConn    *fakeConn
	pendingDiff *diffExpect // what the exchange of the current sub-round must have found (from the real indexes)
}

type diffExpect struct {
	New, Chg, Rem []string
	Diffed        bool            // a Diff was run (the hashes differed)
	Torn          bool            // the indexes changed between the request rounds of the Diff
	Either        map[string]bool // torn: ids that differed before or after, or were touched in between
}

func newNode(w *world, id string, space bool) *node {
	n := &node{w: w, id: id, online: true, space: space}
	db, err := anystore.Open(ctxBg, filepath.Join(w.dir, id+".db"), nil)
	if err != nil {
		hpanic("open db: %v", err)
	}
	n.db = db
	n.real, err = headstorage.New(ctxBg, db)
	if err != nil {
		hpanic("headstorage: %v", err)
	}
	n.ss, err = statestorage.Create(ctxBg, statestorage.State{SpaceId: spaceId, SettingsId: settingsId, AclId: w.aclId, SpaceHeader: []byte("hdr")}, db)
	if err != nil {
		hpanic("statestorage: %v", err)
	}
	n.hst = &headStoreWrap{HeadStorage: n.real, n: n}
	n.real.AddObserver(n.hst)
	if space {
		n.seed()
	}
	return n
}

// seed: the acl list and the key-value store exist before the space is opened
func (n *node) seed() {
	if n.w.aclId != "" {
		n.write(n.w.aclId, n.w.headsOf(n.w.aclId, nil), false)
	}
	if n.w.kvId != "" {
		n.write(n.w.kvId, n.w.headsOf(n.w.kvId, nil), false)
	}
	n.mu.Lock()
	n.held = nil
	n.mu.Unlock()
}

// receivePush: what the SpacePush handler of the remote side does as far as this component is concerned -
// the space is created from the pushed header, acl root and settings root, and opened
func (n *node) receivePush() {
	n.seed()
	n.start()
	n.mu.Lock()
	n.space = true
	n.mu.Unlock()
}

func (n *node) hasSpace() bool { n.mu.Lock(); defer n.mu.Unlock(); return n.space }

// write stores heads the way the tree / acl / key-value storages do (UpdateEntry; the observers are
// notified by the real head storage when the entry was modified).
func (n *node) write(id string, heads []string, tree bool) {
	n.w.register(id, heads)
	up := headstorage.HeadsUpdate{Id: id, Heads: heads}
	if tree {
		cs := id
		der := false
		up.CommonSnapshot = &cs
		up.IsDerived = &der
	}
	if err := n.real.UpdateEntry(ctxBg, up); err != nil {
		hpanic("UpdateEntry: %v", err)
	}
}

func (n *node) entry(id string) (headstorage.HeadsEntry, bool) {
	e, err := n.real.GetEntry(ctxBg, id)
	if err != nil {
		if errors.Is(err, anystore.ErrDocNotFound) {
			return headstorage.HeadsEntry{}, false
		}
		hpanic("GetEntry: %v", err)
	}
	return e, true
}

func (n *node) isOnline() bool { n.mu.Lock(); defer n.mu.Unlock(); return n.online }

// start opens the space: new app with a new headsync component and a new deletion state over the
// same database.
func (n *node) start() {
	n.mu.Lock()
	n.armed = false
	n.held = nil
	n.startup = make(chan struct{})
	n.fenceCh = make(chan string, 16)
	n.mu.Unlock()
	n.hst.resetObservers()
	n.del = &delWrap{ObjectDeletionState: deletionstate.New(), n: n}
	n.gates = make(chan gate)
	n.parked = nil
	a := new(app.App)
	a.Register(&spacestate.SpaceState{SpaceId: spaceId}).
		Register(fakeConfig{}).
		Register(&fakeAcl{n: n}).
		Register(&fakeKv{n: n}).
		Register(fakeNodeConf{}).
		Register(&fakeSpaceStorage{n: n}).
		Register(&fakePeerManager{n: n}).
		Register(fakeCred{}).
		Register(&fakeTreeSyncer{n: n}).
		Register(n.del)
	n.hs = headsync.New()
	a.Register(n.hs)
	if err := a.Start(ctxBg); err != nil {
		hpanic("app start: %v", err)
	}
	n.app = a
	// headSync.Run starts the periodic loop, whose first call runs immediately: wait until that
	// (empty) round is over, then let the peer manager hand out peers
	select {
	case <-n.startup:
	case <-time.After(watchdog):
		hpanic("startup round of %s did not finish", n.id)
	}
	n.mu.Lock()
	n.armed = true
	n.mu.Unlock()
}

func (n *node) stop() {
	if n.app == nil {
		return
	}
	if err := n.app.Close(ctxBg); err != nil {
		hpanic("app close: %v", err)
	}
	n.app = nil
}

// ---------------------------------------------------------------------------------- fakes

type fakeConfig struct{}

func (fakeConfig) Init(*app.App) error     { return nil }
func (fakeConfig) Name() string            { return "config" }
func (fakeConfig) GetSpace() config.Config { return config.Config{SyncPeriod: 0} }

type fakeNodeConf struct{ nodeconf.NodeConf }

func (fakeNodeConf) Init(*app.App) error { return nil }
func (fakeNodeConf) Name() string        { return nodeconf.CName }

type fakeCred struct{}

func (fakeCred) Init(*app.App) error { return nil }
func (fakeCred) Name() string        { return credentialprovider.CName }
func (fakeCred) GetCredential(context.Context, *spacesyncproto.RawSpaceHeaderWithId) ([]byte, error) {
	return []byte("cred"), nil
}

type fakeAcl struct {
	syncacl.SyncAcl
	n *node
}

func (f *fakeAcl) Init(*app.App) error       { return nil }
func (f *fakeAcl) Name() string              { return syncacl.CName }
func (f *fakeAcl) Run(context.Context) error { return nil }
func (f *fakeAcl) Close(context.Context) error {
	return nil
}
func (f *fakeAcl) Id() string {
	if f.n.w.aclId == "" {
		return "~no-acl"
	}
	return f.n.w.aclId
}
func (f *fakeAcl) Head() *list.AclRecord { return &list.AclRecord{Id: "aclhead"} }
func (f *fakeAcl) SyncWithPeer(ctx context.Context, p peer.Peer) error {
	f.n.mu.Lock()
	f.n.aclSyncs = append(f.n.aclSyncs, p.Id())
	f.n.mu.Unlock()
	return nil
}

type fakeKvStore struct {
	keyvaluestorage.Storage
	id string
}

func (f fakeKvStore) Id() string { return f.id }

type fakeKv struct {
	kvinterfaces.KeyValueService
	n *node
}

func (f *fakeKv) Init(*app.App) error         { return nil }
func (f *fakeKv) Name() string                { return kvinterfaces.CName }
func (f *fakeKv) Run(context.Context) error   { return nil }
func (f *fakeKv) Close(context.Context) error { return nil }
func (f *fakeKv) DefaultStore() keyvaluestorage.Storage {
	if f.n.w.kvId == "" {
		return fakeKvStore{id: "~no-kv"}
	}
	return fakeKvStore{id: f.n.w.kvId}
}
func (f *fakeKv) SyncWithPeer(p peer.Peer) error {
	f.n.mu.Lock()
	f.n.kvSyncs = append(f.n.kvSyncs, p.Id())
	f.n.mu.Unlock()
	return nil
}

type fakeSpaceStorage struct {
	spacestorage.SpaceStorage
	n *node
}

func (f *fakeSpaceStorage) Init(*app.App) error                     { return nil }
func (f *fakeSpaceStorage) Name() string                            { return spacestorage.CName }
func (f *fakeSpaceStorage) Run(context.Context) error               { return nil }
func (f *fakeSpaceStorage) Close(context.Context) error             { return nil }
func (f *fakeSpaceStorage) Id() string                              { return spaceId }
func (f *fakeSpaceStorage) HeadStorage() headstorage.HeadStorage    { return f.n.hst }
func (f *fakeSpaceStorage) StateStorage() statestorage.StateStorage { return f.n.ss }
func (f *fakeSpaceStorage) AnyStore() anystore.DB                   { return f.n.db }

// what sendPushSpaceRequest reads: the acl root and the settings root
type fakeAclStorage struct {
	list.Storage
	id string
}

func (f fakeAclStorage) Root(context.Context) (list.StorageRecord, error) {
	return list.StorageRecord{RawRecord: []byte("acl-root-of-" + f.id), Id: f.id}, nil
}

type fakeTreeStorage struct {
	objecttree.Storage
	id string
}

func (f fakeTreeStorage) Root(context.Context) (objecttree.StorageChange, error) {
	return objecttree.StorageChange{RawChange: []byte("root-of-" + f.id), Id: f.id}, nil
}
func (f *fakeSpaceStorage) AclStorage() (list.Storage, error) {
	id := f.n.w.aclId
	if id == "" {
		id = "~no-acl"
	}
	return fakeAclStorage{id: id}, nil
}
func (f *fakeSpaceStorage) TreeStorage(ctx context.Context, id string) (objecttree.Storage, error) {
	return fakeTreeStorage{id: id}, nil
}

// headStoreWrap is the real head storage; it only takes the place of the observer list so that the
// driver decides when a notification reaches the headUpdater queue (the spec's IndexApply).
type headStoreWrap struct {
	headstorage.HeadStorage
	n   *node
	omu sync.Mutex
	obs []headstorage.Observer
}

func (h *headStoreWrap) AddObserver(o headstorage.Observer) {
	h.omu.Lock()
	h.obs = append(h.obs, o)
	h.omu.Unlock()
}
func (h *headStoreWrap) resetObservers() { h.omu.Lock(); h.obs = nil; h.omu.Unlock() }
func (h *headStoreWrap) OnUpdate(e headstorage.HeadsEntry) {
	h.omu.Lock()
	subscribed := len(h.obs) > 0
	h.omu.Unlock()
	if !subscribed {
		return // nobody has called AddObserver (yet): the real head storage would notify nobody
	}
	h.n.mu.Lock()
	h.n.held = append(h.n.held, e)
	h.n.mu.Unlock()
}

// IterateEntries of the live entries is FillDiff's read; the hook lets a write land right after it
func (h *headStoreWrap) IterateEntries(ctx context.Context, opts headstorage.IterOpts, it headstorage.EntryIterator) error {
	err := h.HeadStorage.IterateEntries(ctx, opts, it)
	if !opts.Deleted {
		h.n.mu.Lock()
		hook := h.n.fillHook
		h.n.fillHook = nil
		h.n.mu.Unlock()
		if hook != nil {
			hook()
		}
	}
	return err
}
func (h *headStoreWrap) deliver(e headstorage.HeadsEntry) {
	h.omu.Lock()
	obs := append([]headstorage.Observer(nil), h.obs...)
	h.omu.Unlock()
	for _, o := range obs {
		o.OnUpdate(e)
	}
}

// delWrap is the real deletion state plus two probes: ids with the fence prefix count as tombstoned
// (the fence update that follows every delivered notification is dropped by UpdateHeads and tells the
// driver that the queue is empty), and the first Filter of a sub-round parks at a gate.
type delWrap struct {
	deletionstate.ObjectDeletionState
	n *node
}

func (d *delWrap) Run(ctx context.Context) error {
	return d.ObjectDeletionState.(app.ComponentRunnable).Run(ctx)
}
func (d *delWrap) Close(ctx context.Context) error {
	return d.ObjectDeletionState.(app.ComponentRunnable).Close(ctx)
}
func (d *delWrap) Exists(id string) bool {
	if strings.HasPrefix(id, fencePrefix) {
		d.n.fenceCh <- id
		return true
	}
	return d.ObjectDeletionState.Exists(id)
}
func (d *delWrap) Filter(ids []string) []string {
	if d.n.filterArmed.CompareAndSwap(true, false) {
		g := gate{kind: "filter", rel: make(chan struct{})}
		d.n.gates <- g
		<-g.rel
	}
	return d.ObjectDeletionState.Filter(ids)
}

type fakeTreeSyncer struct{ n *node }

func (f *fakeTreeSyncer) Init(*app.App) error         { return nil }
func (f *fakeTreeSyncer) Name() string                { return treesyncer.CName }
func (f *fakeTreeSyncer) Run(context.Context) error   { return nil }
func (f *fakeTreeSyncer) Close(context.Context) error { return nil }
func (f *fakeTreeSyncer) StartSync()                  {}
func (f *fakeTreeSyncer) StopSync()                   {}
func (f *fakeTreeSyncer) ShouldSync(string) bool      { return true }
func (f *fakeTreeSyncer) SyncAll(ctx context.Context, p peer.Peer, existing, missing []string) error {
	c := syncAllCall{Peer: p.Id(), Existing: append([]string{}, existing...), Missing: append([]string{}, missing...), Tomb: []string{}}
	for _, id := range append(append([]string{}, existing...), missing...) {
		if f.n.del.ObjectDeletionState.Exists(id) {
			c.Tomb = append(c.Tomb, id)
		}
	}
	f.n.mu.Lock()
	f.n.calls = append(f.n.calls, c)
	f.n.mu.Unlock()
	return nil
}

type fakePeerManager struct {
	peermanager.PeerManager
	n *node
}

func (f *fakePeerManager) Init(*app.App) error { return nil }
func (f *fakePeerManager) Name() string        { return peermanager.CName }
func (f *fakePeerManager) GetResponsiblePeers(ctx context.Context) ([]peer.Peer, error) {
	f.n.mu.Lock()
	armed := f.n.armed
	f.n.mu.Unlock()
	if !armed {
		return nil, nil
	}
	var res []peer.Peer
	for _, q := range f.n.w.peerSeq[f.n.id] {
		res = append(res, &fakePeer{n: f.n, target: q})
	}
	return res, nil
}
func (f *fakePeerManager) KeepAlive(ctx context.Context) {
	f.n.mu.Lock()
	armed := f.n.armed
	f.n.keep++
	st := f.n.startup
	f.n.mu.Unlock()
	if !armed {
		select {
		case <-st:
		default:
			close(st)
		}
	}
}
func (f *fakePeerManager) SendMessage(ctx context.Context, peerId string, msg drpc.Message) error {
	f.n.mu.Lock()
	f.n.subs = append(f.n.subs, peerId)
	f.n.mu.Unlock()
	return nil
}

type fakePeer struct {
	peer.Peer
	n      *node
	target string
}

func (p *fakePeer) Id() string { return p.target }
func (p *fakePeer) AcquireDrpcConn(ctx context.Context) (drpc.Conn, error) {
	t := p.n.w.nodes[p.target]
	p.n.mu.Lock()
	defer p.n.mu.Unlock()
	if !t.isOnline() {
		p.n.acquires = append(p.n.acquires, p.target+":fail")
		return nil, fmt.Errorf("verif: peer %s offline: %w", p.target, net.ErrClosed)
	}
	p.n.acquires = append(p.n.acquires, p.target+":ok")
	p.n.connSeq++
	p.n.filterArmed.Store(true)
	p.n.lastConn = &fakeConn{n: p.n, target: t, seq: p.n.connSeq}
	return p.n.lastConn, nil
}
func (p *fakePeer) ReleaseDrpcConn(ctx context.Context, conn drpc.Conn) {}

// fakeConn loops the HeadSync rpc back into the remote node's real component, through the real
// generated client and its encoding (so the request and the response really go through the wire
// format that NewRemoteDiff / HandleRangeRequest translate to and from).
type fakeConn struct {
	n      *node
	target *node
	seq    int
	nreq   int
	ranges []int // number of ranges of every request
	failed bool
}

func (c *fakeConn) Close() error            { return nil }
func (c *fakeConn) Closed() <-chan struct{} { return make(chan struct{}) }
func (c *fakeConn) NewStream(ctx context.Context, rpc string, enc drpc.Encoding) (drpc.Stream, error) {
	return nil, errors.New("verif: streams are not part of the head-sync round")
}
func (c *fakeConn) Invoke(ctx context.Context, rpc string, enc drpc.Encoding, in, out drpc.Message) error {
	if rpc == "/spacesync.SpaceSync/SpacePush" {
		return c.push(ctx, enc, in, out)
	}
	if rpc != "/spacesync.SpaceSync/HeadSync" {
		return fmt.Errorf("verif: unexpected rpc %s", rpc)
	}
	g := gate{kind: "req", conn: c, rel: make(chan struct{})}
	c.n.gates <- g
	<-g.rel
	if !c.target.isOnline() {
		c.failed = true
		return fmt.Errorf("verif: peer %s went offline: %w", c.target.id, net.ErrClosed)
	}
	if !c.target.hasSpace() {
		return spacesyncproto.ErrSpaceMissing
	}
	b, err := enc.Marshal(in)
	if err != nil {
		return err
	}
	req := new(spacesyncproto.HeadSyncRequest)
	if err = enc.Unmarshal(b, req); err != nil {
		return err
	}
	c.nreq++
	c.ranges = append(c.ranges, len(req.Ranges))
	resp, err := c.target.hs.HandleRangeRequest(ctx, req)
	if err != nil {
		return err
	}
	b, err = enc.Marshal(resp)
	if err != nil {
		return err
	}
	return enc.Unmarshal(b, out)
}

func (c *fakeConn) push(ctx context.Context, enc drpc.Encoding, in, out drpc.Message) error {
	g := gate{kind: "push", conn: c, rel: make(chan struct{})}
	c.n.gates <- g
	<-g.rel
	if !c.target.isOnline() {
		c.failed = true
		return fmt.Errorf("verif: peer %s went offline: %w", c.target.id, net.ErrClosed)
	}
	b, err := enc.Marshal(in)
	if err != nil {
		return err
	}
	req := new(spacesyncproto.SpacePushRequest)
	if err = enc.Unmarshal(b, req); err != nil {
		return err
	}
	pl := req.GetPayload()
	c.n.mu.Lock()
	c.n.pushReqs = append(c.n.pushReqs, fmt.Sprintf("%s|%s|%s|%s", pl.GetSpaceHeader().GetId(), pl.GetAclPayloadId(), pl.GetSpaceSettingsPayloadId(), req.GetCredential()))
	c.n.mu.Unlock()
	if c.target.hasSpace() {
		return spacesyncproto.ErrSpaceExists
	}
	c.target.receivePush()
	b, err = enc.Marshal(&spacesyncproto.SpacePushResponse{})
	if err != nil {
		return err
	}
	return enc.Unmarshal(b, out)
}

// ---------------------------------------------------------------------------------- observations

type idxView map[string]string // id -> element head as stored in the index

// index reads the real index of the node: the full range with elements, through the component's API.
func (n *node) index() (idxView, []byte) {
	if !n.hasSpace() {
		return idxView{}, nil
	}
	resp, err := n.hs.HandleRangeRequest(ctxBg, &spacesyncproto.HeadSyncRequest{
		SpaceId: spaceId, DiffType: spacesyncproto.DiffType_V3,
		Ranges: []*spacesyncproto.HeadSyncRange{{From: 0, To: math.MaxUint64, Elements: true, Limit: math.MaxUint32}},
	})
	if err != nil || len(resp.Results) != 1 {
		hpanic("index read: %v", err)
	}
	v := idxView{}
	for _, e := range resp.Results[0].Elements {
		v[e.Id] = e.Head
	}
	return v, resp.Results[0].Hash
}

// topHash: what a requester sees in answer to the type check
func (n *node) topHash() []byte {
	resp, err := n.hs.HandleRangeRequest(ctxBg, &spacesyncproto.HeadSyncRequest{
		SpaceId: spaceId, DiffType: spacesyncproto.DiffType_V3,
		Ranges: []*spacesyncproto.HeadSyncRange{{From: 0, To: math.MaxUint64}},
	})
	if err != nil || len(resp.Results) != 1 {
		hpanic("hash read: %v", err)
	}
	return resp.Results[0].Hash
}

func (n *node) persistedHash() string {
	st, err := n.ss.GetState(ctxBg)
	if err != nil {
		hpanic("GetState: %v", err)
	}
	return st.NewHash
}

// decode turns the real index into the spec's representation (id -> "c1+c2" | "" for a bare root)
func (w *world) decode(v idxView) map[string]string {
	res := map[string]string{}
	w.mu.Lock()
	defer w.mu.Unlock()
	for id, h := range v {
		t, ok := w.headText[id+"\x00"+h]
		if !ok {
			t = "?" + hex.EncodeToString([]byte(h))
		}
		res[id] = t
	}
	return res
}

func (n *node) tomb(id string) bool {
	return n.del != nil && n.del.ObjectDeletionState.Exists(id)
}

// has: the object (its tree storage) exists here
func (n *node) has(id string) bool {
	e, ok := n.entry(id)
	return ok && len(e.Heads) > 0 && e.DeletedStatus != headstorage.DeletedStatusDeleted
}

// view: what the drained index must show for the stored entries (IdxFollowsStore)
func (n *node) storeView() idxView {
	v := idxView{}
	err := n.real.IterateEntries(ctxBg, headstorage.IterOpts{}, func(e headstorage.HeadsEntry) (bool, error) {
		if len(e.Heads) == 0 {
			return true, nil
		}
		bare := len(e.Heads) == 1 && e.Heads[0] == e.Id
		if bare && e.Id != n.w.aclId {
			return true, nil
		}
		v[e.Id] = elemHead(e.Heads)
		return true, nil
	})
	if err != nil {
		hpanic("IterateEntries: %v", err)
	}
	return v
}

func sameView(a, b idxView) bool {
	if len(a) != len(b) {
		return false
	}
	for k, x := range a {
		if y, ok := b[k]; !ok || x != y {
			return false
		}
	}
	return true
}

func diffViews(a, b idxView) (newIds, chg, rem []string) {
	for id, h := range b {
		if x, ok := a[id]; !ok {
			newIds = append(newIds, id)
		} else if x != h {
			chg = append(chg, id)
		}
	}
	for id := range a {
		if _, ok := b[id]; !ok {
			rem = append(rem, id)
		}
	}
	sort.Strings(newIds)
	sort.Strings(chg)
	sort.Strings(rem)
	return
}

func sorted(s []string) []string {
	r := append([]string{}, s...)
	sort.Strings(r)
	return r
}

func sameSet(a, b []string) bool {
	a, b = sorted(a), sorted(b)
	if len(a) != len(b) {
		return false
	}
	for i := range a {
		if a[i] != b[i] {
			return false
		}
	}
	return true
}

func minus(a []string, drop func(string) bool) []string {
	res := []string{}
	for _, x := range a {
		if !drop(x) {
			res = append(res, x)
		}
	}
	return res
}

// ---------------------------------------------------------------------------------- driver steps

// waitGate waits for the round goroutine of n to park (or finish)
func (n *node) waitGate() *gate {
	select {
	case g := <-n.gates:
		n.parked = &g
		if g.kind == "done" {
			n.parked = nil
		}
		return &g
	case <-time.After(watchdog):
		hpanic("round of %s neither parked nor finished", n.id)
	}
	return nil
}

func (n *node) release() {
	if n.parked == nil {
		hpanic("release without a parked gate on %s", n.id)
	}
	g := n.parked
	n.parked = nil
	close(g.rel)
}

type roundState struct {
	St   string
	Cur  string
	Nreq int
}

// state of the round as the gates show it
func (n *node) roundState() roundState {
	g := n.parked
	switch {
	case g == nil:
		return roundState{St: "idle", Cur: "-"}
	case g.kind == "push":
		return roundState{St: "push", Cur: g.conn.target.id}
	case g.kind == "req" && g.conn.nreq == 0:
		return roundState{St: "check", Cur: g.conn.target.id}
	case g.kind == "req":
		return roundState{St: "diff", Cur: g.conn.target.id, Nreq: 1}
	default:
		c := n.lastConn
		nr := c.nreq
		if nr > 2 {
			nr = 2
		}
		return roundState{St: "apply", Cur: c.target.id, Nreq: nr}
	}
}
