package headsync

import (
	"fmt"

	"verifharness/vfutil"
)

// Crafted interleavings (each is also a behaviour of HeadSync.tla; they make sure that the windows the
// properties are about are exercised in every run, whatever the random generators produce).

type scenario struct {
	name    string
	run     func(w *world, j *judge)
	noSpace []string
}

func expect(j *judge, ok bool, key, format string, a ...any) {
	if !ok && !j.stop {
		j.violate(key, fmt.Sprintf(format, a...))
	}
}

var scenarios = []scenario{
	{"delete-between-diff-and-apply", func(w *world, j *judge) {
		// p2 holds o1, p1 does not; the deletion of o1 reaches p1 after the diff found it
		w.create("p2", "o1")
		w.edit("p2", "o1", "c1")
		w.drain(j)
		w.roundBegin("p1")
		w.roundCheck(j, "p1")
		w.roundDiff(j, "p1")
		w.delete("p1", "o1")
		o := w.roundApply(j, "p1")
		expect(j, len(o.Missing) == 0, "round/deleted-id-requested/missing", "o1 was deleted at p1 before applyDiff, SyncAll missing = %v", o.Missing)
	}, nil},
	{"late-notification-after-tombstone", func(w *world, j *judge) {
		// the notification of a change is still queued when the deletion arrives
		w.create("p1", "o1")
		w.drain(j)
		w.edit("p1", "o1", "c1")
		w.delete("p1", "o1")
		w.indexApply(j, "p1") // the change: must not index a tombstoned object
		w.indexApply(j, "p1") // the status change
		w.deleteFinish("p1", "o1")
		w.drain(j)
	}, nil},
	{"tombstoned-peer-is-not-asked-again", func(w *world, j *judge) {
		// both hold o1, p1 deletes it: p1's round sees it as new and must not request it; p2's round pushes it, nothing happens
		w.create("p1", "o1")
		w.edit("p1", "o1", "c1")
		w.create("p2", "o1")
		w.edit("p2", "o1", "c1")
		w.drain(j)
		w.delete("p1", "o1")
		w.drain(j)
		w.fullRound(j, "p1")
		w.fullRound(j, "p2")
		w.runTasks(j)
		v, _ := w.nodes["p1"].index()
		_, in := v["o1"]
		expect(j, !in, "index/tombstoned-id-indexed/round", "o1 is deleted at p1 but back in its index after the rounds")
	}, nil},
	{"changed-id-tombstoned-with-queued-notification", func(w *world, j *judge) {
		// both index o1 with different heads; the deletion reaches p1 but its notification is still queued,
		// so p1's index still holds o1 and the diff reports it as changed: the filter must drop it
		w.create("p1", "o1")
		w.edit("p1", "o1", "c1")
		w.create("p2", "o1")
		w.edit("p2", "o1", "c2")
		w.drain(j)
		w.delete("p1", "o1")
		w.roundBegin("p1")
		w.roundCheck(j, "p1")
		w.roundDiff(j, "p1")
		o := w.roundApply(j, "p1")
		expect(j, !contains(o.Existing, "o1"), "round/deleted-id-requested/existing", "o1 is deleted at p1 (notification still queued), SyncAll existing = %v", o.Existing)
	}, nil},
	{"offline-between-check-and-diff", func(w *world, j *judge) {
		w.create("p2", "o1")
		w.edit("p2", "o1", "c1")
		w.drain(j)
		w.roundBegin("p1")
		w.roundCheck(j, "p1")
		w.flip("p2")
		res, _ := w.roundDiff(j, "p1")
		expect(j, res == "fail", "round/offline-peer-synced/diff", "diff against an offline peer ended with %q", res)
		w.flip("p2")
	}, nil},
	{"restart-with-queued-notifications", func(w *world, j *judge) {
		w.create("p1", "o1")
		w.edit("p1", "o1", "c1")
		w.edit("p1", "o1", "c2")
		w.restart(j, "p1") // the queue is lost, FillDiff must see the stored heads
	}, nil},
	{"equal-indexes-one-request", func(w *world, j *judge) {
		for _, p := range []string{"p1", "p2"} {
			w.create(p, "o1")
			w.edit(p, "o1", "c1")
			w.edit(p, "acl", "c1")
		}
		w.drain(j)
		w.roundBegin("p1")
		res := w.roundCheck(j, "p1")
		expect(j, res == "equal", "round/equal-index-more-traffic", "equal indexes, type check ended with %q", res)
		if res == "equal" {
			w.roundApply(j, "p1")
		}
	}, nil},
	{"acl-and-kv-routed", func(w *world, j *judge) {
		w.edit("p1", "acl", "c1")
		w.edit("p2", "kv", "c1")
		w.create("p1", "o1")
		w.edit("p1", "o1", "c1")
		w.drain(j)
		w.roundBegin("p1")
		w.roundCheck(j, "p1")
		w.roundDiff(j, "p1")
		o := w.roundApply(j, "p1")
		expect(j, o.Acl && o.Kv, "round/difference-not-handed-over/acl", "acl and key-value heads differ, acl sync %v kv sync %v", o.Acl, o.Kv)
	}, nil},
	{"edit-during-round-is-synced-by-next-round", func(w *world, j *judge) {
		// NoLostUpdate: the change is made (and its notification queued) while the round is parked after the diff
		w.create("p1", "o1")
		w.edit("p1", "o1", "c1")
		w.create("p2", "o1")
		w.edit("p2", "o1", "c1")
		w.drain(j)
		w.roundBegin("p1")
		w.roundCheck(j, "p1") // equal
		w.edit("p1", "o1", "c2")
		w.roundApply(j, "p1")
		w.drain(j)
		w.fullRound(j, "p1")
		w.runTasks(j)
		ok, bad := w.converged("p1", "p2")
		expect(j, ok, "converge/edit-during-round-lost", "a change made during a round is not synced by the next round: %s", bad)
	}, nil},
	{"change-while-the-space-is-opened", func(w *world, j *judge) {
		w.create("p1", "o1")
		w.edit("p1", "o1", "c1")
		w.drain(j)
		w.restartEdit(j, "p1", "o1", "c2")
		w.drain(j)
	}, nil},
	{"space-missing-push-then-upload", func(w *world, j *judge) {
		// p2 does not hold the space: the round pushes it and uploads the trees in the same round
		w.create("p1", "o1")
		w.edit("p1", "o1", "c1")
		w.edit("p1", "acl", "c1")
		w.drain(j)
		w.roundBegin("p1")
		res := w.roundCheck(j, "p1")
		expect(j, res == "missing", "round/space-missing-not-pushed", "type check against a peer without the space ended with %q", res)
		if res != "missing" {
			return
		}
		w.roundPush(j, "p1")
		if j.stop {
			return
		}
		w.roundCheck(j, "p1")
		w.roundDiff(j, "p1")
		o := w.roundApply(j, "p1")
		expect(j, contains(o.Existing, "o1") && o.Acl, "round/difference-not-handed-over/existing", "after the push the trees must be uploaded in the same round: existing %v acl %v", o.Existing, o.Acl)
	}, []string{"p2"}},
	{"push-to-peer-that-goes-offline", func(w *world, j *judge) {
		w.create("p1", "o1")
		w.edit("p1", "o1", "c1")
		w.drain(j)
		w.roundBegin("p1")
		w.roundCheck(j, "p1")
		w.flip("p2")
		w.roundPush(j, "p1")
		w.flip("p2")
	}, []string{"p2"}},
}

func runScenarios(rep *vfutil.Report, only string) {
	for _, sc := range scenarios {
		if only != "" && sc.name != only {
			continue
		}
		j := &judge{rep: rep, replay: map[string]any{"kind": "scenario", "scenario": sc.name}, tag: "scenario/" + sc.name}
		w := newWorld([]string{"p1", "p2"}, peerSeqAll([]string{"p1", "p2"}), "acl", "kv", sc.noSpace...)
		func() {
			defer w.close()
			sc.run(w, j)
			if !j.stop {
				w.settle(j)
			}
		}()
		rep.Case("scenario/" + sc.name)
		rep.AddReplayed(1)
	}
}
