package headsync

import "verifharness/vfutil"

type randCase struct {
	Seed int64 `json:"seed"`
}

func runRandom(rep *vfutil.Report, c randCase, tw *vfutil.TraceWriter) {}

func runScenarios(rep *vfutil.Report, only string) {}
