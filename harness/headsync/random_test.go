package headsync

import (
	"encoding/hex"
	"encoding/json"
	"fmt"
	"math/rand"
	"os"
	"path/filepath"
	"sort"
	"strings"
	"testing"

	"github.com/anyproto/any-sync/commonspace/headsync/headstorage"

	"verifharness/vfutil"
)

// Random executions on real components. Two uses:
//   - large spaces (hundreds to thousands of objects, so that the ldiff index is split and ranges are
//     really exchanged through HandleRangeRequest / NewRemoteDiff), judged by the Go oracles of
//     steps_test.go;
//   - small spaces, recorded step by step (action, arguments, what the code handed out, the observed
//     post-state) into an NDJSON trace that spec/headsync/HeadSyncTrace.tla validates.

type randCase struct {
	Seed    int64 `json:"seed"`
	Peers   int   `json:"peers"`
	N       int   `json:"n"`       // tree ids
	Prefill int   `json:"prefill"` // objects written before the nodes start (FillDiff path), percent
	Ops     int   `json:"ops"`
	Acl     bool  `json:"acl"`
	Kv      bool  `json:"kv"`
	Bulk    bool  `json:"bulk"` // large space: bulk edits and bulk draining between the rounds
	NoSpace bool  `json:"nospace"` // p2 does not hold the space at the start (ErrSpaceMissing -> SpacePush)
}

var changeNames = []string{"c1", "c2", "c3", "c4"}

type obsEntry struct {
	Has bool     `json:"has"`
	Hd  []string `json:"hd"`
	Del string   `json:"del"`
}
type obsRound struct {
	St   string `json:"st"`
	Cur  string `json:"cur"`
	Nreq int    `json:"nreq"`
}
type obsState struct {
	Idx    map[string]map[string][]string `json:"idx"`
	Store  map[string]map[string]obsEntry `json:"store"`
	Online map[string]bool                `json:"online"`
	Pendn  map[string]int                 `json:"pendn"`
	Rnd    map[string]obsRound            `json:"rnd"`
	Tasks  []task                         `json:"tasks"`
	Hashok map[string]bool                `json:"hashok"`
	Space  map[string]bool                `json:"space"`
}
type traceLine struct {
	A   string         `json:"a"`
	P   string         `json:"p"`
	Q   string         `json:"q"`
	I   string         `json:"i"`
	C   string         `json:"c"`
	Out map[string]any `json:"out"`
	Obs *obsState      `json:"obs,omitempty"`
	Sim *randCase      `json:"sim,omitempty"`
}

// observe: the projection of the real state that the specification talks about
func (w *world) observe(ids []string) *obsState {
	o := &obsState{Idx: map[string]map[string][]string{}, Store: map[string]map[string]obsEntry{}, Online: map[string]bool{},
		Pendn: map[string]int{}, Rnd: map[string]obsRound{}, Tasks: []task{}, Hashok: map[string]bool{}, Space: map[string]bool{}}
	for _, p := range w.order {
		n := w.nodes[p]
		v, top := n.index()
		o.Space[p] = n.hasSpace()
		o.Hashok[p] = !n.hasSpace() || n.persistedHash() == hex.EncodeToString(top)
		dec := w.decode(v)
		o.Idx[p] = map[string][]string{}
		o.Store[p] = map[string]obsEntry{}
		for _, id := range ids {
			t, ok := dec[id]
			switch {
			case !ok:
				o.Idx[p][id] = []string{absentMark}
			case t == "":
				o.Idx[p][id] = []string{}
			default:
				o.Idx[p][id] = strings.Split(t, "+")
			}
			e, ok := n.entry(id)
			oe := obsEntry{Del: "none", Hd: []string{}}
			if ok {
				oe.Del = statusName(e.DeletedStatus)
				oe.Hd = w.setOf(id, e.Heads)
			}
			oe.Has = n.has(id)
			o.Store[p][id] = oe
		}
		for id := range dec {
			if !contains(ids, id) {
				o.Idx[p][id] = []string{"?"}
			}
		}
		n.mu.Lock()
		o.Pendn[p] = len(n.held)
		o.Online[p] = n.online
		n.mu.Unlock()
		rs := n.roundState()
		o.Rnd[p] = obsRound{St: rs.St, Cur: rs.Cur, Nreq: rs.Nreq}
	}
	for t := range w.tasks {
		o.Tasks = append(o.Tasks, t)
	}
	sort.Slice(o.Tasks, func(a, b int) bool { return fmt.Sprint(o.Tasks[a]) < fmt.Sprint(o.Tasks[b]) })
	return o
}

type randRun struct {
	w     *world
	j     *judge
	c     randCase
	rnd   *rand.Rand
	trees []string
	ids   []string
	tw    *vfutil.TraceWriter
	steps int
}

func (r *randRun) emit(a, p, q, i, c string, out map[string]any) {
	r.steps++
	if r.tw == nil {
		return
	}
	if out == nil {
		out = map[string]any{"x": 0}
	}
	r.tw.Emit(traceLine{A: a, P: p, Q: q, I: i, C: c, Out: out, Obs: r.w.observe(r.ids)})
}

func (r *randRun) pick(s []string) string { return s[r.rnd.Intn(len(s))] }

// one random enabled action of the specification
func (r *randRun) step() {
	w, j := r.w, r.j
	p := r.pick(w.order)
	n := w.nodes[p]
	tag := fmt.Sprintf("rand/p%d/n%d/", r.c.Peers, sizeClass(r.c.N))
	if !n.hasSpace() {
		if r.rnd.Intn(4) == 0 {
			w.flip(p)
			r.emit("Flip", p, "-", "", "", nil)
		}
		return
	}
	switch x := r.rnd.Intn(100); {
	case x < 14: // local change
		id := r.pick(r.ids)
		if !n.has(id) || n.tomb(id) {
			if !w.special(id) && !n.tomb(id) {
				w.create(p, id)
				r.emit("Create", p, "-", id, "", nil)
				j.rep.Case(tag + "Create")
			}
			return
		}
		e, _ := n.entry(id)
		have := w.setOf(id, e.Heads)
		var free []string
		for _, c := range changeNames {
			if !contains(have, c) {
				free = append(free, c)
			}
		}
		if len(free) == 0 {
			return
		}
		c := r.pick(free)
		w.edit(p, id, c)
		r.emit("Edit", p, "-", id, c, nil)
		j.rep.Case(tag + "Edit")
	case x < 18: // a deletion arrives / the deleter finishes
		id := r.pick(r.trees)
		e, ok := n.entry(id)
		switch {
		case ok && e.DeletedStatus == headstorage.DeletedStatusQueued:
			w.deleteFinish(p, id)
			r.emit("DeleteFinish", p, "-", id, "", nil)
			j.rep.Case(tag + "DeleteFinish")
		case !n.tomb(id) && r.deletedIds() < 1+r.c.N/10 || r.deletedSomewhere(id) && !n.tomb(id):
			w.delete(p, id)
			r.emit("Delete", p, "-", id, "", nil)
			j.rep.Case(tag + "Delete")
		}
	case x < 21:
		w.flip(p)
		r.emit("Flip", p, "-", "", "", nil)
		j.rep.Case(tag + "Flip")
	case x < 24:
		if n.running {
			return
		}
		if id := r.pick(r.ids); r.rnd.Intn(2) == 0 && n.has(id) && !n.tomb(id) {
			e, _ := n.entry(id)
			have := w.setOf(id, e.Heads)
			for _, c := range changeNames {
				if !contains(have, c) {
					w.restartEdit(j, p, id, c)
					r.emit("RestartEdit", p, "-", id, c, nil)
					j.rep.Case(tag + "RestartEdit")
					return
				}
			}
		}
		w.restart(j, p)
		r.emit("Restart", p, "-", "", "", nil)
		j.rep.Case(tag + "Restart")
	case x < 50: // index
		n.mu.Lock()
		k := len(n.held)
		n.mu.Unlock()
		if k == 0 {
			return
		}
		if r.c.Bulk {
			w.drainBulk(j, p)
			j.rep.Case(tag + "DrainBulk")
			return
		}
		u := w.indexApply(j, p)
		r.emit("IndexApply", p, "-", u.Id, "", map[string]any{"u": map[string]any{"id": u.Id, "hd": w.setOf(u.Id, u.Heads), "del": statusName(u.DeletedStatus)}})
		j.rep.Case(tag + "IndexApply/" + updKind(u))
	case x < 82: // round
		switch st := n.roundState(); st.St {
		case "idle":
			w.roundBegin(p)
			r.emit("RoundBegin", p, "-", "", "", nil)
			j.rep.Case(tag + "RoundBegin")
		case "check":
			res := w.roundCheck(j, p)
			r.emit("RoundCheck", p, st.Cur, "", "", map[string]any{"res": res})
			j.rep.Case(tag + "RoundCheck/" + res)
		case "push":
			res := w.roundPush(j, p)
			r.emit("RoundPush", p, st.Cur, "", "", map[string]any{"res": res})
			j.rep.Case(tag + "RoundPush/" + res)
		case "diff":
			if r.c.Bulk && r.tw == nil && r.rnd.Intn(2) == 0 {
				// the head updaters of both sides go on working between the request rounds
				q := st.Cur
				res, reqs := w.roundDiffTorn(j, p, func() {
					for _, x := range []string{p, q} {
						for k := 0; k < 1+r.rnd.Intn(6); k++ {
							nx := w.nodes[x]
							if id := r.pick(r.trees); nx.hasSpace() && nx.has(id) && !nx.tomb(id) {
								e, _ := nx.entry(id)
								for _, c := range changeNames {
									if !contains(w.setOf(id, e.Heads), c) {
										w.edit(x, id, c)
										break
									}
								}
							}
						}
						if w.nodes[x].hasSpace() {
							w.drainBulk(j, x)
						}
					}
				})
				j.rep.Case(fmt.Sprintf("%sRoundDiffTorn/%s/r%d", tag, res, min(reqs, 4)))
				return
			}
			res, reqs := w.roundDiff(j, p)
			r.emit("RoundDiff", p, st.Cur, "", "", map[string]any{"res": res, "reqs": reqs})
			j.rep.Case(fmt.Sprintf("%sRoundDiff/%s/r%d", tag, res, min(reqs, 4)))
		case "apply":
			o := w.roundApply(j, p)
			tombHit := []string{}
			if o.Called {
				tombHit = n.calls[len(n.calls)-1].Tomb
			}
			r.emit("RoundApply", p, st.Cur, "", "", map[string]any{"missing": nn(o.Missing), "existing": nn(o.Existing), "acl": o.Acl, "kv": o.Kv,
				"nreq": min(o.Nreq, 2), "tombhit": nn(tombHit)})
			j.rep.Case(fmt.Sprintf("%sRoundApply/m%d/e%d/n%d", tag, min(len(o.Missing), 2), min(len(o.Existing), 2), min(o.Nreq, 2)))
		}
	default: // tree syncer jobs
		if len(w.tasks) == 0 {
			return
		}
		var ts []task
		for t := range w.tasks {
			ts = append(ts, t)
		}
		sort.Slice(ts, func(a, b int) bool { return fmt.Sprint(ts[a]) < fmt.Sprint(ts[b]) })
		k := 1
		if r.c.Bulk {
			k = 1 + r.rnd.Intn(len(ts))
		}
		r.rnd.Shuffle(len(ts), func(a, b int) { ts[a], ts[b] = ts[b], ts[a] })
		for _, t := range ts[:k] {
			eff := w.treeSync(t)
			r.emit("TreeSync", t.F, t.T, t.I, t.K, map[string]any{"effect": eff})
			j.rep.Case(fmt.Sprintf("%sTreeSync/%s/%v", tag, t.K, eff))
		}
	}
}

func nn(s []string) []string {
	if s == nil {
		return []string{}
	}
	return s
}

func sizeClass(n int) int {
	switch {
	case n <= 256:
		return 0
	case n <= 8192:
		return 1
	default:
		return 2
	}
}

func (r *randRun) deletedIds() int {
	k := 0
	for _, id := range r.trees {
		if r.deletedSomewhere(id) {
			k++
		}
	}
	return k
}
func (r *randRun) deletedSomewhere(id string) bool {
	for _, p := range r.w.order {
		if r.w.nodes[p].tomb(id) {
			return true
		}
	}
	return false
}

// drainBulk delivers every held notification of p and waits once
func (w *world) drainBulk(j *judge, p string) {
	n := w.nodes[p]
	n.mu.Lock()
	held := n.held
	n.held = nil
	n.mu.Unlock()
	for _, u := range held {
		n.hst.deliver(u)
	}
	if !w.fence(j, n) {
		return
	}
	w.checkQuiescent(j, n, "drain")
}

func peerSeqAll(peers []string) map[string][]string {
	ps := map[string][]string{}
	for _, p := range peers {
		for _, q := range peers {
			if q != p {
				ps[p] = append(ps[p], q)
			}
		}
	}
	return ps
}

func runRandom(rep *vfutil.Report, c randCase, tw *vfutil.TraceWriter) {
	peers := []string{"p1", "p2", "p3"}[:c.Peers]
	acl, kv := "", ""
	if c.Acl {
		acl = "acl"
	}
	if c.Kv {
		kv = "kv"
	}
	rnd := rand.New(rand.NewSource(c.Seed))
	r := &randRun{c: c, rnd: rnd, tw: tw}
	for k := 0; k < c.N; k++ {
		r.trees = append(r.trees, fmt.Sprintf("o%05d", k))
	}
	r.ids = append([]string{}, r.trees...)
	if c.Acl {
		r.ids = append(r.ids, acl)
	}
	if c.Kv {
		r.ids = append(r.ids, kv)
	}
	j := &judge{rep: rep, replay: map[string]any{"kind": "random", "random": c}, tag: fmt.Sprintf("rand/p%d/n%d", c.Peers, c.N)}
	r.j = j
	var noSpace []string
	if c.NoSpace {
		noSpace = []string{"p2"}
	}
	w := newWorld(peers, peerSeqAll(peers), acl, kv, noSpace...)
	defer w.close()
	r.w = w
	if tw != nil {
		tw.Emit(traceLine{A: "Reset", P: "-", Q: "-", Out: map[string]any{"x": 0}, Sim: &c, Obs: w.observe(r.ids)})
	}
	// prefill: objects that are in the head storage before the space is opened (FillDiff), with
	// different contents on the peers
	if c.Bulk {
		for _, p := range w.order {
			n := w.nodes[p]
			if !n.hasSpace() {
				continue
			}
			n.stop()
			for _, id := range r.trees {
				if rnd.Intn(100) >= c.Prefill {
					continue
				}
				var set []string
				for _, ch := range changeNames {
					if rnd.Intn(3) == 0 {
						set = append(set, ch)
					}
				}
				n.write(id, w.headsOf(id, set), true)
			}
			n.start()
			w.checkQuiescent(j, n, "open")
		}
	}
	for k := 0; k < c.Ops && !j.stop; k++ {
		r.step()
	}
	if !j.stop {
		w.settle(j)
		j.rep.Case(j.tag + "/settle")
	}
	rep.AddSteps(r.steps)
}

func randomCases(seed int64, thorough bool) (cs []randCase) {
	k := int64(0)
	add := func(c randCase) { k++; c.Seed = seed*1000 + k; cs = append(cs, c) }
	for rep := 0; rep < vfutil.Tier(1, 6); rep++ {
		add(randCase{Peers: 2, N: 40, Prefill: 60, Ops: 150, Acl: true, Kv: true, Bulk: true})
		add(randCase{Peers: 3, N: 60, Prefill: 50, Ops: 200, Acl: true, Bulk: true})
		add(randCase{Peers: 2 + rep%2, N: 30, Prefill: 70, Ops: 120, Acl: true, Kv: true, Bulk: true, NoSpace: true})
	}
	// the index is split (more than 256 elements): the diff takes several request rounds
	add(randCase{Peers: 2, N: 700, Prefill: 70, Ops: 120, Acl: true, Kv: true, Bulk: true})
	if thorough {
		add(randCase{Peers: 3, N: 1500, Prefill: 60, Ops: 120, Bulk: true})
		add(randCase{Peers: 2, N: 3000, Prefill: 80, Ops: 150, Acl: true, Kv: true, Bulk: true})
		// more than 256 elements per first-level bucket: a third level of ranges
		add(randCase{Peers: 2, N: 12000, Prefill: 85, Ops: 80, Bulk: true})
	}
	return
}

// TestRandom: large random executions judged by the Go oracles.
func TestRandom(t *testing.T) {
	rep := vfutil.NewReport(os.Getenv("VERIF_PROPERTY"))
	defer finish(t, rep)
	cs := randomCases(vfutil.Seed(), vfutil.Thorough())
	for _, c := range cs {
		runRandom(rep, c, nil)
		rep.AddReplayed(1)
	}
	rep.Sample(map[string]any{"random_case": cs[0]})
	rep.SetExtra("random_cases", len(cs))
	rep.SetExtra("diff_max_request_rounds", statMaxReqs)
	rep.SetExtra("diff_max_ranges_per_request", statMaxRange)
	rep.SetExtra("diffs_with_range_exchange", statMulti)
	if statMaxReqs < 2 {
		hpanic("no diff of the large cases exchanged ranges (max %d request rounds)", statMaxReqs)
	}
}

// TestRecord: small random executions recorded for HeadSyncTrace.tla. One file per configuration,
// many runs per file (separated by Reset lines); the constants of each file go to <file>.consts.json.
func TestRecord(t *testing.T) {
	rep := vfutil.NewReport(os.Getenv("VERIF_PROPERTY"))
	defer finish(t, rep)
	dir := os.Getenv("VERIF_TRACE_DIR")
	if dir == "" {
		hpanic("VERIF_TRACE_DIR not set")
	}
	runs := vfutil.EnvInt("VERIF_RUNS", 4)
	corrupt := os.Getenv("VERIF_CORRUPT")
	confs := []randCase{
		{Peers: 2, N: 3, Ops: 70, Acl: true, Kv: true},
		{Peers: 3, N: 4, Ops: 90, Acl: true},
		{Peers: 2, N: 12, Ops: 120},
		{Peers: 2, N: 3, Ops: 70, Acl: true, NoSpace: true},
	}
	events := 0
	for ci, c := range confs {
		name := fmt.Sprintf("t%d", ci)
		path := filepath.Join(dir, name+".ndjson")
		tw := vfutil.NewTraceWriter(path)
		for k := 0; k < runs; k++ {
			c.Seed = vfutil.Seed()*1000 + int64(ci*100+k)
			runRandom(rep, c, tw)
			rep.AddReplayed(1)
		}
		events += tw.Len()
		tw.Close()
		if corrupt != "" && ci == 0 {
			corruptTrace(path, corrupt) // the self-test validates the first file only
		}
		consts := map[string]any{"peers": []string{"p1", "p2", "p3"}[:c.Peers], "trees": treeIds(c.N), "acl": c.Acl, "kv": c.Kv, "changes": changeNames, "nospace": c.NoSpace}
		b, _ := json.Marshal(consts)
		if err := os.WriteFile(filepath.Join(dir, name+".consts.json"), b, 0o644); err != nil {
			hpanic("%v", err)
		}
	}
	rep.SetExtra("trace_events", events)
}

func treeIds(n int) (res []string) {
	for k := 0; k < n; k++ {
		res = append(res, fmt.Sprintf("o%05d", k))
	}
	return
}

// corruptTrace falsifies one logged observation (binding self-test): an index entry that the
// component really holds is logged as absent.
func corruptTrace(path, what string) {
	raw, err := os.ReadFile(path)
	if err != nil {
		hpanic("%v", err)
	}
	lines := strings.Split(strings.TrimSpace(string(raw)), "\n")
	done := false
	for off := 0; off < len(lines) && !done; off++ {
		k := (len(lines)/2 + off) % len(lines)
		var l traceLine
		if json.Unmarshal([]byte(lines[k]), &l) != nil || l.Obs == nil || l.A == "Reset" {
			continue
		}
		for p, m := range l.Obs.Idx {
			for id, h := range m {
				if !(len(h) == 1 && h[0] == absentMark) {
					l.Obs.Idx[p][id] = []string{absentMark}
					done = true
					break
				}
			}
			if done {
				break
			}
		}
		if done {
			b, _ := json.Marshal(l)
			lines[k] = string(b)
		}
	}
	if !done {
		hpanic("nothing to corrupt in %s", path)
	}
	if err := os.WriteFile(path, []byte(strings.Join(lines, "\n")+"\n"), 0o644); err != nil {
		hpanic("%v", err)
	}
}
