package headsync

import (
	"encoding/hex"
	"fmt"
	"sort"
	"strings"
	"sync"
	"time"

	"github.com/anyproto/any-sync/commonspace/headsync/headstorage"

	"verifharness/vfutil"
)

// judge collects verdicts: violations are property predicates that failed on observations of the
// real component; drift is a disagreement between the specification's prediction and the code
// without a failed predicate.
type judge struct {
	rep    *vfutil.Report
	replay any
	tag    string // configuration of the current behaviour (for case keys)
	stop   bool   // the current behaviour cannot be followed any further
}

func (j *judge) violate(key, desc string) {
	j.rep.Violate(key, desc, j.replay)
	j.stop = true
}
func (j *judge) drift(format string, a ...any) {
	j.rep.DriftNote(j.tag+": "+format, a...)
	j.stop = true
}

// ---------------------------------------------------------------------------------- environment

func (w *world) create(p, id string) {
	w.nodes[p].write(id, w.headsOf(id, nil), true)
}

func (w *world) edit(p, id, c string) {
	n := w.nodes[p]
	e, ok := n.entry(id)
	if !ok {
		hpanic("edit of unknown object %s at %s", id, p)
	}
	set := append(w.setOf(id, e.Heads), c)
	n.write(id, w.headsOf(id, set), !w.special(id))
}

// deletion arrives (settings object): the real deletion state queues the id
func (w *world) delete(p, id string) {
	w.nodes[p].del.Add(map[string]struct{}{id: {}})
}

// the deleter is done with the object: the real deletion state marks it deleted
func (w *world) deleteFinish(p, id string) {
	if err := w.nodes[p].del.Delete(id); err != nil {
		hpanic("deletionState.Delete: %v", err)
	}
}

func (w *world) flip(p string) {
	n := w.nodes[p]
	n.mu.Lock()
	n.online = !n.online
	n.mu.Unlock()
}

func (w *world) restart(j *judge, p string) {
	n := w.nodes[p]
	if n.running {
		hpanic("restart of %s during its round", p)
	}
	n.stop()
	for t := range w.tasks {
		if t.F == p {
			delete(w.tasks, t)
		}
	}
	n.start()
	w.checkQuiescent(j, n, "restart")
}

// restartEdit: the space is opened again and a local change lands right after FillDiff has read the head
// storage (NoLostUpdate across start-up: headSync.Run must have subscribed before)
func (w *world) restartEdit(j *judge, p, id, c string) {
	n := w.nodes[p]
	if n.running {
		hpanic("restart of %s during its round", p)
	}
	n.stop()
	for t := range w.tasks {
		if t.F == p {
			delete(w.tasks, t)
		}
	}
	n.mu.Lock()
	n.fillHook = func() { w.edit(p, id, c) }
	n.mu.Unlock()
	n.start()
	n.mu.Lock()
	pending := n.fillHook != nil
	n.fillHook = nil
	held := len(n.held)
	n.mu.Unlock()
	if pending {
		hpanic("FillDiff of %s did not read the head storage", p)
	}
	if held == 0 {
		// the change was announced to nobody: it can reach the index only by the next change of the same object
		v, _ := n.index()
		e, _ := n.entry(id)
		if v[id] != elemHead(e.Heads) {
			j.violate("index/not-following-store/lost/restart-edit", fmt.Sprintf("node %s: the change %s of %s made while the space was being opened is neither in the index nor announced to the head updater", p, c, id))
			return
		}
	}
	w.checkQuiescent(j, n, "restart-edit")
}

// ---------------------------------------------------------------------------------- index

// indexApply lets the oldest held notification reach the component (diffSyncer.OnUpdate ->
// headUpdater -> DiffManager.UpdateHeads) and waits, by a fence notification, until it is processed.
func (w *world) indexApply(j *judge, p string) (u headstorage.HeadsEntry) {
	n := w.nodes[p]
	n.mu.Lock()
	if len(n.held) == 0 {
		n.mu.Unlock()
		hpanic("indexApply on an empty queue of %s", p)
	}
	u = n.held[0]
	n.held = n.held[1:]
	n.mu.Unlock()
	before, _ := n.index()
	n.hst.deliver(u)
	if !w.fence(j, n) {
		return
	}
	after, _ := n.index()
	// TombstoneKept: a tombstoned object never enters the index (again), whatever notification arrives
	for id, h := range after {
		if old, ok := before[id]; (!ok || old != h) && n.tomb(id) {
			j.violate("index/tombstoned-id-indexed/"+statusName(u.DeletedStatus),
				fmt.Sprintf("node %s: the notification %s (status %d, heads %v) put id %s into the index although the deletion state holds a tombstone for it",
					p, u.Id, u.DeletedStatus, u.Heads, id))
		}
	}
	w.checkQuiescent(j, n, "apply/"+updKind(u))
	return
}

func statusName(s headstorage.DeletedStatus) string {
	return [...]string{"none", "queued", "deleted"}[int(s)%3]
}
func updKind(u headstorage.HeadsEntry) string {
	k := statusName(u.DeletedStatus)
	if len(u.Heads) == 1 && u.Heads[0] == u.Id {
		k += "-bare"
	}
	return k
}

// fence: a notification for a fresh id that the deletion-state probe reports as tombstoned; when
// UpdateHeads asks about it, everything delivered before is processed.
func (w *world) fence(j *judge, n *node) bool {
	n.fenceN++
	id := fmt.Sprintf("%s%s-%d", fencePrefix, n.id, n.fenceN)
	n.hst.deliver(headstorage.HeadsEntry{Id: id, Heads: []string{"f"}})
	deadline := time.After(watchdog)
	tick := time.NewTicker(200 * time.Millisecond)
	defer tick.Stop()
	for {
		select {
		case got := <-n.fenceCh:
			if got == id {
				return true
			}
		case <-tick.C:
			// the only way past the probe: UpdateHeads did not consult the deletion state
			for _, x := range n.hs.AllIds() {
				if x == id {
					j.violate("index/update-indexed-without-deletion-check",
						fmt.Sprintf("node %s: a head notification for id %s, which the deletion state reports as deleted, was put into the index", n.id, id))
					return false
				}
			}
		case <-deadline:
			hpanic("fence %s was never processed", id)
		}
	}
}

// checkQuiescent evaluates HashPersisted always and IdxFollowsStore when nothing is queued.
func (w *world) checkQuiescent(j *judge, n *node, what string) {
	if !n.hasSpace() {
		return
	}
	v, top := n.index()
	if ph := n.persistedHash(); ph != hex.EncodeToString(top) {
		j.violate("hash/persisted-hash-stale/"+what,
			fmt.Sprintf("node %s after %s: the persisted space hash is %s, the index answers %s", n.id, what, ph, hex.EncodeToString(top)))
	}
	n.mu.Lock()
	empty := len(n.held) == 0
	n.mu.Unlock()
	if !empty {
		return
	}
	sv := n.storeView()
	// tombstones are not part of the view
	for id := range sv {
		if n.tomb(id) {
			delete(sv, id)
		}
	}
	if !sameView(v, sv) {
		nw, ch, rm := diffViews(sv, v)
		kind := "stale"
		if len(nw) > 0 {
			kind = "extra"
		} else if len(rm) > 0 {
			kind = "lost"
		}
		j.violate("index/not-following-store/"+kind+"/"+what,
			fmt.Sprintf("node %s after %s with an empty update queue: index and head storage disagree: only in index %v, different heads %v, only in storage %v",
				n.id, what, trunc(nw), trunc(ch), trunc(rm)))
	}
}

func trunc(s []string) []string {
	if len(s) > 8 {
		return append(append([]string{}, s[:8]...), fmt.Sprintf("... %d more", len(s)-8))
	}
	return s
}

// ---------------------------------------------------------------------------------- round

func (w *world) roundBegin(p string) {
	n := w.nodes[p]
	if n.running {
		hpanic("round of %s already running", p)
	}
	n.running = true
	n.pendingDiff = nil
	hs := n.hs
	gates := n.gates
	go func() {
		err := hs.DiffSync(ctxBg)
		gates <- gate{kind: "done", err: err}
	}()
	w.waitRound(n)
}

func (w *world) waitRound(n *node) *gate {
	g := n.waitGate()
	if g.kind == "done" {
		n.running = false
		n.pendingDiff = nil
	}
	return g
}

// nextPeer: the responsible peer Sync must turn to after it is done with q (the first online one after q)
func (w *world) nextPeer(p, q string) string {
	seq := w.peerSeq[p]
	for k, x := range seq {
		if x == q {
			for _, y := range seq[k+1:] {
				if w.nodes[y].isOnline() {
					return y
				}
			}
		}
	}
	return ""
}

// FailureIsolated: whatever happened with q, the round goes on with the next responsible peer
func (w *world) checkAdvance(j *judge, n *node, q, want, what string) {
	rs := n.roundState()
	got := ""
	if rs.St != "idle" {
		got = rs.Cur
	}
	if rs.St == "apply" || rs.St == "diff" || rs.St == "push" {
		return // still with q
	}
	if got != want && !j.stop {
		j.violate("round/responsible-peer-skipped/"+what, fmt.Sprintf("node %s: after %s with peer %s the round must turn to %q, it turned to %q", n.id, what, q, want, got))
	}
}

// roundCheck releases the type-check request. res: "fail" | "equal" | "differs"
func (w *world) roundCheck(j *judge, p string) (res string) {
	n := w.nodes[p]
	g := n.parked
	if g == nil || g.kind != "req" || g.conn.nreq != 0 {
		hpanic("roundCheck: %s is not parked at a type-check request", p)
	}
	q := g.conn.target
	on := q.isOnline()
	sp := q.hasSpace()
	vp, _ := n.index()
	vq, _ := q.index()
	calls := len(n.calls)
	next := w.nextPeer(p, q.id)
	n.release()
	ng := w.waitRound(n)
	if !on {
		defer w.checkAdvance(j, n, q.id, next, "failed-check")
	}
	switch {
	case ng.kind == "push" && ng.conn == g.conn:
		res = "missing"
	case ng.kind == "filter":
		res = "equal"
		n.pendingDiff = &diffExpect{}
	case ng.kind == "req" && ng.conn == g.conn:
		res = "differs"
	default:
		res = "fail"
	}
	if !on {
		if res != "fail" || len(n.calls) != calls {
			j.violate("round/offline-peer-synced/check", fmt.Sprintf("node %s: the request to offline peer %s failed but the round went on with it (%s)", p, q.id, res))
		}
		return
	}
	if res == "fail" {
		j.violate("round/exchange-abandoned/check", fmt.Sprintf("node %s: peer %s is online and answered the type check, but the round dropped the exchange", p, q.id))
		return
	}
	if !sp {
		if res != "missing" {
			j.violate("round/space-missing-not-pushed", fmt.Sprintf("node %s: peer %s does not hold the space, the type check ended with %q instead of a SpacePush", p, q.id, res))
		}
		return
	}
	eq := sameView(vp, vq)
	if eq && res != "equal" {
		// EqualHashMeansNoTraffic
		j.violate("round/equal-index-more-traffic", fmt.Sprintf("node %s and %s hold equal indexes (%d ids) but the type check of the round ended with %q", p, q.id, len(vp), res))
	}
	if !eq && res == "equal" {
		nw, ch, rm := diffViews(vp, vq)
		j.violate("round/difference-not-noticed", fmt.Sprintf("node %s and %s hold different indexes (new %v changed %v removed %v) but the type check found them equal", p, q.id, trunc(nw), trunc(ch), trunc(rm)))
	}
	return
}

// roundPush releases the SpacePush request of onDiffError. res: "ok" | "fail"
func (w *world) roundPush(j *judge, p string) (res string) {
	n := w.nodes[p]
	g := n.parked
	if g == nil || g.kind != "push" {
		hpanic("roundPush: %s is not parked at a SpacePush", p)
	}
	q := g.conn.target
	on := q.isOnline()
	next := w.nextPeer(p, q.id)
	nsub := len(n.subs)
	n.release()
	ng := w.waitRound(n)
	if !on {
		res = "fail"
		w.checkAdvance(j, n, q.id, next, "failed-push")
		return
	}
	res = "ok"
	// PushGivesSpace: the peer holds the space now and the exchange starts again on the same connection
	if !q.hasSpace() {
		j.violate("round/push-did-not-create-space", fmt.Sprintf("node %s pushed the space to %s, which still does not hold it", p, q.id))
		return
	}
	if !(ng.kind == "req" && ng.conn == g.conn && g.conn.nreq == 0) {
		j.violate("round/push-not-followed-by-diff", fmt.Sprintf("node %s pushed the space to %s but did not diff with it again in the same round (the trees would wait for the next period)", p, q.id))
		return
	}
	if len(n.subs) != nsub+1 || n.subs[len(n.subs)-1] != q.id {
		j.drift("node %s: no subscription message to %s after the push", p, q.id)
	}
	want := fmt.Sprintf("%s|%s|%s|cred", spaceId, func() string {
		if w.aclId == "" {
			return "~no-acl"
		}
		return w.aclId
	}(), settingsId)
	if got := n.pushReqs[len(n.pushReqs)-1]; got != want && !j.stop {
		j.drift("node %s pushed %q, expected %q", p, got, want)
	}
	return
}

// roundDiff releases the range requests of ldiff.Diff until the round parks at applyDiff
func (w *world) roundDiff(j *judge, p string) (res string, reqs int) {
	return w.roundDiffTorn(j, p, nil)
}

// roundDiffTorn: between the request rounds of one Diff, `between` changes the indexes of both sides (the
// headUpdater goes on working while a round is running). The result cannot be exact then; what still must
// hold is judged in roundApply (torn): nothing tombstoned, no acl / key-value id, no id twice, and nothing
// that was equal on both sides before and after.
func (w *world) roundDiffTorn(j *judge, p string, between func()) (res string, reqs int) {
	n := w.nodes[p]
	g := n.parked
	if g == nil || g.kind != "req" || g.conn.nreq == 0 {
		hpanic("roundDiff: %s is not parked at a diff request", p)
	}
	c := g.conn
	q := c.target
	on := q.isOnline()
	vp, _ := n.index()
	vq, _ := q.index()
	calls := len(n.calls)
	next := w.nextPeer(p, q.id)
	if !on {
		defer func() { w.checkAdvance(j, n, q.id, next, "failed-diff") }()
	}
	torn := false
	for {
		n.release()
		ng := w.waitRound(n)
		if ng.kind == "req" && ng.conn == c {
			if between != nil {
				between()
				torn = true
			}
			continue
		}
		if ng.kind == "filter" {
			res = "ok"
		} else {
			res = "fail"
		}
		break
	}
	reqs = c.nreq - 1
	noteReqs(reqs, c.ranges)
	if !on {
		if res != "fail" || len(n.calls) != calls {
			j.violate("round/offline-peer-synced/diff", fmt.Sprintf("node %s: the diff with offline peer %s failed but the round went on with it", p, q.id))
		}
		return
	}
	if res == "fail" {
		// every request was answered: the differences must reach applyDiff
		j.violate("round/exchange-abandoned/diff", fmt.Sprintf("node %s: peer %s is online and answered all %d range requests, but the round ended the exchange without applyDiff", p, q.id, reqs))
		return
	}
	if res == "ok" {
		nw, ch, rm := diffViews(vp, vq)
		n.pendingDiff = &diffExpect{New: nw, Chg: ch, Rem: rm, Diffed: true}
		if torn {
			vp2, _ := n.index()
			vq2, _ := q.index()
			nw2, ch2, rm2 := diffViews(vp2, vq2)
			n.pendingDiff.Torn = true
			n.pendingDiff.Either = map[string]bool{}
			for _, l := range [][]string{nw, ch, rm, nw2, ch2, rm2} {
				for _, id := range l {
					n.pendingDiff.Either[id] = true
				}
			}
			// ids touched in between may show up whatever their final state
			for id, h := range vp2 {
				if vp[id] != h {
					n.pendingDiff.Either[id] = true
				}
			}
			for id, h := range vq2 {
				if vq[id] != h {
					n.pendingDiff.Either[id] = true
				}
			}
			for id := range vp {
				if _, ok := vp2[id]; !ok {
					n.pendingDiff.Either[id] = true
				}
			}
			for id := range vq {
				if _, ok := vq2[id]; !ok {
					n.pendingDiff.Either[id] = true
				}
			}
		}
	}
	return
}

type applyObs struct {
	Missing, Existing []string
	Acl, Kv           bool
	Nreq              int
	Called            bool
}

// roundApply releases applyDiff (deletionState.Filter ... TreeSyncer.SyncAll)
func (w *world) roundApply(j *judge, p string) (o applyObs) {
	n := w.nodes[p]
	g := n.parked
	if g == nil || g.kind != "filter" {
		hpanic("roundApply: %s is not parked at applyDiff", p)
	}
	c := n.lastConn
	q := c.target
	exp := n.pendingDiff
	if exp == nil {
		hpanic("roundApply without a diff expectation")
	}
	n.pendingDiff = nil
	// the deletion state as applyDiff will see it (nothing else runs)
	expMissing := minus(exp.New, n.tomb)
	expExAll := minus(append(append([]string{}, exp.Rem...), exp.Chg...), n.tomb)
	expExisting := minus(expExAll, w.special)
	ncalls, nacl, nkv := len(n.calls), len(n.aclSyncs), len(n.kvSyncs)
	next := w.nextPeer(p, q.id)
	n.release()
	w.waitRound(n)
	w.checkAdvance(j, n, q.id, next, "apply")
	o.Nreq = c.nreq
	if len(n.calls) == ncalls {
		j.violate("round/syncall-not-called", fmt.Sprintf("node %s: applyDiff for peer %s returned without handing anything to the tree syncer", p, q.id))
		return
	}
	call := n.calls[len(n.calls)-1]
	o.Called = true
	o.Missing, o.Existing = sorted(call.Missing), sorted(call.Existing)
	o.Acl, o.Kv = len(n.aclSyncs) > nacl, len(n.kvSyncs) > nkv
	if call.Peer != q.id {
		j.violate("round/wrong-peer", fmt.Sprintf("node %s: diffed with %s but SyncAll names %s", p, q.id, call.Peer))
	}
	// DeletedNeverRequested
	if len(call.Tomb) > 0 {
		kind := "missing"
		for _, id := range call.Existing {
			if id == call.Tomb[0] {
				kind = "existing"
			}
		}
		j.violate("round/deleted-id-requested/"+kind, fmt.Sprintf("node %s: SyncAll(existing %v, missing %v) for peer %s contains ids the deletion state holds tombstones for: %v",
			p, trunc(call.Existing), trunc(call.Missing), q.id, trunc(call.Tomb)))
	}
	// the tree syncer must not get the acl / key-value ids
	for _, id := range append(append([]string{}, call.Existing...), call.Missing...) {
		if w.special(id) {
			j.violate("round/special-id-to-treesyncer", fmt.Sprintf("node %s: SyncAll(existing %v, missing %v) contains the acl / key-value id %s", p, trunc(call.Existing), trunc(call.Missing), id))
		}
	}
	// EqualHashMeansNoTraffic: no diff, no jobs
	if !exp.Diffed && (len(call.Existing) > 0 || len(call.Missing) > 0 || o.Acl || o.Kv) {
		j.violate("round/jobs-after-equal-hash", fmt.Sprintf("node %s: the hashes were equal but SyncAll got existing %v missing %v (acl %v kv %v)", p, trunc(call.Existing), trunc(call.Missing), o.Acl, o.Kv))
	}
	if exp.Torn {
		// the indexes changed while the diff was running: only what cannot be excused
		seen := map[string]bool{}
		for _, id := range append(append([]string{}, call.Existing...), call.Missing...) {
			if seen[id] {
				j.violate("round/id-handed-over-twice", fmt.Sprintf("node %s: id %s occurs twice in SyncAll(existing %v, missing %v)", p, id, trunc(call.Existing), trunc(call.Missing)))
			}
			seen[id] = true
			if !exp.Either[id] {
				j.violate("round/equal-id-handed-over", fmt.Sprintf("node %s: id %s was equal on both sides before and after the diff and untouched in between, but was handed to the tree syncer", p, id))
			}
		}
		w.addJobs(p, q.id, call, o)
		return
	}
	// RoundReducesDifference: every difference that is not tombstoned here is handed to a syncer
	for _, id := range expMissing {
		if !contains(call.Missing, id) {
			j.violate("round/difference-not-handed-over/missing", fmt.Sprintf("node %s: id %s is only in the index of %s and not deleted here, but SyncAll missing is %v", p, id, q.id, trunc(call.Missing)))
			break
		}
	}
	for _, id := range expExisting {
		if !contains(call.Existing, id) {
			j.violate("round/difference-not-handed-over/existing", fmt.Sprintf("node %s: id %s differs from / is absent in the index of %s and is not deleted here, but SyncAll existing is %v", p, id, q.id, trunc(call.Existing)))
			break
		}
	}
	wantAcl, wantKv := w.aclId != "" && contains(expExAll, w.aclId), w.kvId != "" && contains(expExAll, w.kvId)
	if wantAcl && !o.Acl {
		j.violate("round/difference-not-handed-over/acl", fmt.Sprintf("node %s: the acl heads differ from %s but syncAcl.SyncWithPeer was not called", p, q.id))
	}
	if wantKv && !o.Kv {
		j.violate("round/difference-not-handed-over/kv", fmt.Sprintf("node %s: the key-value heads differ from %s but keyValue.SyncWithPeer was not called", p, q.id))
	}
	if !sameSet(call.Missing, expMissing) || !sameSet(call.Existing, expExisting) || o.Acl != wantAcl || o.Kv != wantKv {
		if !j.stop {
			j.drift("node %s: SyncAll(existing %v, missing %v, acl %v, kv %v), the indexes and the deletion state give existing %v missing %v acl %v kv %v",
				p, trunc(o.Existing), trunc(o.Missing), o.Acl, o.Kv, trunc(expExisting), trunc(expMissing), wantAcl, wantKv)
		}
	}
	w.addJobs(p, q.id, call, o)
	return
}

func (w *world) addJobs(p, q string, call syncAllCall, o applyObs) {
	for _, id := range call.Missing {
		w.tasks[task{F: p, T: q, I: id, K: "missing"}] = true
	}
	for _, id := range call.Existing {
		w.tasks[task{F: p, T: q, I: id, K: "existing"}] = true
	}
	if o.Acl {
		w.tasks[task{F: p, T: q, I: w.aclId, K: "acl"}] = true
	}
	if o.Kv {
		w.tasks[task{F: p, T: q, I: w.kvId, K: "kv"}] = true
	}
}

var (
	statMu       sync.Mutex
	statMaxReqs  int // most request rounds of one ldiff.Diff
	statMaxRange int // most ranges in one request
	statMulti    int // diffs that needed more than one request
)

func noteReqs(reqs int, ranges []int) {
	statMu.Lock()
	defer statMu.Unlock()
	if reqs > statMaxReqs {
		statMaxReqs = reqs
	}
	if reqs > 1 {
		statMulti++
	}
	for _, r := range ranges {
		if r > statMaxRange {
			statMaxRange = r
		}
	}
}

func contains(s []string, x string) bool {
	for _, y := range s {
		if y == x {
			return true
		}
	}
	return false
}

// abortRound lets a parked round run to its end (all gates open)
func (n *node) abortRound() {
	for n.running {
		if n.parked != nil {
			n.release()
		}
		g := n.waitGate()
		if g.kind == "done" {
			n.running = false
		}
	}
}

// ---------------------------------------------------------------------------------- tree syncer jobs

// treeSync executes one job the way the specification abstracts the per-object protocols: both
// sides end with the join unless one of them holds a tombstone or the target is offline.
func (w *world) treeSync(t task) (effect bool) {
	if !w.tasks[t] {
		hpanic("treeSync of unknown job %+v", t)
	}
	delete(w.tasks, t)
	p, q := w.nodes[t.F], w.nodes[t.T]
	if !q.isOnline() || !q.hasSpace() || p.tomb(t.I) || q.tomb(t.I) {
		return false
	}
	hp, hq := p.has(t.I), q.has(t.I)
	if !hp && !hq {
		return false
	}
	set := map[string]bool{}
	if hp {
		e, _ := p.entry(t.I)
		for _, c := range w.setOf(t.I, e.Heads) {
			set[c] = true
		}
	}
	if hq {
		e, _ := q.entry(t.I)
		for _, c := range w.setOf(t.I, e.Heads) {
			set[c] = true
		}
	}
	var join []string
	for c := range set {
		join = append(join, c)
	}
	sort.Strings(join)
	heads := w.headsOf(t.I, join)
	p.write(t.I, heads, !w.special(t.I))
	q.write(t.I, heads, !w.special(t.I))
	return true
}

// ---------------------------------------------------------------------------------- settle

func (w *world) drain(j *judge) {
	for _, p := range w.order {
		for {
			n := w.nodes[p]
			n.mu.Lock()
			k := len(n.held)
			n.mu.Unlock()
			if k == 0 || j.stop {
				break
			}
			w.indexApply(j, p)
		}
	}
}

func (w *world) runTasks(j *judge) {
	var ts []task
	for t := range w.tasks {
		ts = append(ts, t)
	}
	sort.Slice(ts, func(a, b int) bool { return fmt.Sprint(ts[a]) < fmt.Sprint(ts[b]) })
	for _, t := range ts {
		w.treeSync(t)
	}
	w.drain(j)
}

// fullRound drives a whole Sync of p, step by step
func (w *world) fullRound(j *judge, p string) (maxReq int) {
	n := w.nodes[p]
	w.roundBegin(p)
	for n.running && !j.stop {
		switch st := n.roundState(); st.St {
		case "check":
			w.roundCheck(j, p)
		case "push":
			w.roundPush(j, p)
		case "diff":
			w.roundDiff(j, p)
		case "apply":
			o := w.roundApply(j, p)
			if o.Nreq > maxReq {
				maxReq = o.Nreq
			}
		default:
			hpanic("fullRound: state %+v", st)
		}
	}
	return
}

func (w *world) converged(p, q string) (bool, string) {
	np, nq := w.nodes[p], w.nodes[q]
	vp, _ := np.index()
	vq, _ := nq.index()
	var bad []string
	ids := map[string]bool{}
	for id := range vp {
		ids[id] = true
	}
	for id := range vq {
		ids[id] = true
	}
	for id := range ids {
		if np.tomb(id) || nq.tomb(id) {
			continue
		}
		a, oka := vp[id]
		b, okb := vq[id]
		if oka != okb || a != b {
			bad = append(bad, id)
		}
	}
	sort.Strings(bad)
	return len(bad) == 0, strings.Join(trunc(bad), ",")
}

// settle: finish what is in flight without further disturbance, then the convergence oracles:
// CleanRoundConverges for two peers (one undisturbed round of the first peer), repeated rounds for more.
func (w *world) settle(j *judge) {
	for _, p := range w.order {
		n := w.nodes[p]
		n.mu.Lock()
		n.online = true
		n.mu.Unlock()
	}
	for _, p := range w.order {
		n := w.nodes[p]
		for n.running && !j.stop {
			switch st := n.roundState(); st.St {
			case "check":
				w.roundCheck(j, p)
			case "push":
				w.roundPush(j, p)
			case "diff":
				w.roundDiff(j, p)
			case "apply":
				w.roundApply(j, p)
			}
		}
	}
	if j.stop {
		return
	}
	w.drain(j)
	w.runTasks(j)
	if j.stop {
		return
	}
	if len(w.order) == 2 {
		p, q := w.order[0], w.order[1]
		if !w.nodes[p].hasSpace() {
			p, q = q, p
		}
		if !w.nodes[p].hasSpace() {
			return
		}
		w.fullRound(j, p)
		w.runTasks(j)
		if j.stop {
			return
		}
		if ok, bad := w.converged(p, q); !ok {
			j.violate("converge/clean-round-not-converged", fmt.Sprintf("after an undisturbed loss-free round of %s with %s (jobs done, queues drained) the indexes still differ on the non-deleted ids %s", p, q, bad))
			return
		}
		// the reverse round finds nothing to do for ids that are deleted on neither side
		if !w.nodes[q].hasSpace() {
			j.violate("round/space-missing-not-pushed", fmt.Sprintf("after a full round of %s its responsible peer %s still does not hold the space", p, q))
			return
		}
		w.fullRound(j, q)
		if n := len(w.tasks); n > 0 && !j.stop {
			for t := range w.tasks {
				if !w.nodes[t.F].tomb(t.I) && !w.nodes[t.T].tomb(t.I) {
					j.violate("converge/jobs-after-convergence", fmt.Sprintf("after convergence the round of %s still produced the job %+v", q, t))
					break
				}
			}
		}
		w.runTasks(j)
		return
	}
	for sweep := 0; sweep < 3 && !j.stop; sweep++ {
		for _, p := range w.order {
			if !w.nodes[p].hasSpace() {
				continue
			}
			w.fullRound(j, p)
			w.runTasks(j)
		}
	}
	for _, p := range w.order {
		for _, q := range w.peerSeq[p] {
			if ok, bad := w.converged(p, q); !ok && !j.stop {
				j.violate("converge/repeated-rounds-not-converged", fmt.Sprintf("after three undisturbed sweeps of rounds %s and %s still differ on the non-deleted ids %s", p, q, bad))
			}
		}
	}
}
