package streampool

import (
	"context"
	"encoding/json"
	"fmt"
	"math/rand"
	"os"
	"path/filepath"
	"sort"
	"sync"
	"testing"

	"github.com/anyproto/any-sync/net/peer"
	sp "github.com/anyproto/any-sync/net/streampool"

	"verifharness/vfutil"
)

// TestStress: free-running executions. Several goroutines call Send / SendById / Broadcast / tag
// changes concurrently while streams deliver, stall forever, are slow or fail, on their own. Nothing
// is scheduled by the harness; the raw `verif` events are written as a trace that
// StreamPoolHookTrace.tla validates (every invariant of the stream part on every recorded state).
// Oracles evaluated here: every API call returns although blocked streams never take a message
// (a caller parked inside the pool is reported with its stack), per stream the messages are written
// in the order they were accepted, what a healthy / slow stream accepted is delivered, the indexes
// are consistent at the end.
func stressRun(rnd *rand.Rand, out *json.Encoder, outMu *sync.Mutex, ops int) (fd0 *finding, key0 string) {
	takeFatals()
	c := newCtl(poolCfg{DialWorkers: 2, DialQSize: 3})
	c.free = true
	defer func() {
		c.shutdown()
		if fd0 == nil {
			fd0 = fatalFinding()
		}
	}()
	c.rawTrace = func(ev *sp.VerifEvent) {
		outMu.Lock()
		_ = out.Encode(ev)
		outMu.Unlock()
	}
	peers := []string{"p1", "p2", "p3"}
	tags := []string{"a", "b", "c"}
	kinds := []string{"healthy", "healthy", "slow", "blocked", "failing"}
	var tick int64
	doTick := func() { c.w.update(func() { tick++ }) }
	var seedMu sync.Mutex
	rint := func(n int) int { seedMu.Lock(); defer seedMu.Unlock(); return rnd.Intn(n) }
	newFake := func(p string) *fakeStream {
		f := newFakeStream(c.w, p, kinds[rint(len(kinds))])
		f.auto = true
		f.slowTick = &tick
		if f.kind == "failing" {
			f.failAfter = rint(4) // 0: the reader fails
		}
		return f
	}
	c.h.autoOpen = func(p string) openResult {
		if rint(4) == 0 {
			return openResult{err: errFake}
		}
		return openResult{st: newFake(p), tags: []string{tags[rint(3)]}, qsize: 1 + rint(3)}
	}
	shapeKey := ""
	nstreams := 2 + rint(3)
	for i := 0; i < nstreams; i++ {
		p := peers[rint(len(peers))]
		f := newFake(p)
		tg := []string{}
		for _, t := range tags {
			if rint(2) == 0 {
				tg = append(tg, t)
			}
		}
		qs := 1 + rint(3)
		shapeKey += fmt.Sprintf("%s/%s/%d/%v;", p, f.kind, qs, tg)
		if err := c.pool.AddStream(f, qs, tg...); err != nil {
			return broken("AddStream: %v", err), shapeKey
		}
	}
	var nmsg int
	var msgMu sync.Mutex
	nextMsg := func() int { msgMu.Lock(); defer msgMu.Unlock(); nmsg++; return nmsg }
	nworkers := 3
	gids := make([]int64, nworkers)
	done := make([]bool, nworkers)
	panics := make([]any, nworkers)
	lastOp := make([]string, nworkers)
	var wg sync.WaitGroup
	started := make(chan struct{}, nworkers)
	for wi := 0; wi < nworkers; wi++ {
		wi := wi
		wg.Add(1)
		go func() {
			defer wg.Done()
			gids[wi] = curGid()
			started <- struct{}{}
			defer func() {
				pv := recover()
				c.w.update(func() { done[wi] = true; panics[wi] = pv })
			}()
			for i := 0; i < ops; i++ {
				op := rint(10)
				var name string
				switch {
				case op < 3:
					name = "Broadcast"
					lastOp[wi] = name
					_ = c.pool.Broadcast(context.Background(), &hmsg{id: nextMsg()}, tags[rint(3)], tags[rint(3)])
				case op < 6:
					name = "SendById"
					lastOp[wi] = name
					_ = c.pool.SendById(context.Background(), &hmsg{id: nextMsg()}, peers[rint(3)])
				case op < 8:
					name = "Send"
					lastOp[wi] = name
					p := peers[rint(3)]
					_ = c.pool.Send(context.Background(), &hmsg{id: nextMsg()}, func(ctx context.Context) ([]peer.Peer, error) {
						return []peer.Peer{&fakePeer{id: p}}, nil
					})
				case op < 9:
					name = "AddTags"
					lastOp[wi] = name
					if ctx := c.ctxOf(uint32(1 + rint(nstreams))); ctx != nil {
						_ = c.pool.AddTagsCtx(ctx, tags[rint(3)])
					}
				default:
					name = "RemoveTags"
					lastOp[wi] = name
					_ = c.pool.RemoveTagsById(uint32(1+rint(nstreams)), tags[rint(3)])
				}
				doTick()
			}
		}()
	}
	for i := 0; i < nworkers; i++ {
		<-started
	}
	// CallerNeverWaits: every caller finishes although the blocked streams never take a message
	for wi := 0; wi < nworkers; wi++ {
		wi := wi
		stack, fd := c.awaitOrHang(gids[wi], "API callers to finish", func() bool { return done[wi] })
		if fd != nil {
			return fd, shapeKey
		}
		if stack != "" {
			return violation("api-blocked-"+lastOp[wi], "%s does not return in a free-running execution with blocked streams; the caller is parked at:\n%s", lastOp[wi], trimStack(stack)), shapeKey
		}
		if panics[wi] != nil {
			return violation("api-panic-"+lastOp[wi], "%s panicked: %v", lastOp[wi], panics[wi]), shapeKey
		}
	}
	wg.Wait()
	// Isolation: what the healthy and slow streams accepted is delivered (ticks let the slow ones go on)
	stack, fd := c.awaitOrHang(-1, "healthy streams to drain", func() bool {
		tick++
		c.w.cond.Broadcast()
		for sid, f := range c.fakes {
			if (f.kind == "healthy" || f.kind == "slow") && !f.closed && len(f.sendOK) < len(c.accepted[sid]) {
				return false
			}
		}
		return true
	})
	if fd != nil {
		return fd, shapeKey
	}
	if stack != "" {
		c.w.mu.Lock()
		desc := ""
		for sid, f := range c.fakes {
			if (f.kind == "healthy" || f.kind == "slow") && len(f.sendOK) < len(c.accepted[sid]) {
				desc += fmt.Sprintf("stream %d (%s) accepted %d, delivered %d; ", sid, f.kind, len(c.accepted[sid]), len(f.sendOK))
			}
		}
		c.w.mu.Unlock()
		return violation("isolation-undelivered", "%sall pool goroutines are parked:\n%s", desc, trimStack(stack)), shapeKey
	}
	// a stream that ended leaves the pool
	stack, fd = c.awaitOrHang(-1, "ended streams to be removed", func() bool {
		for _, f := range c.fakes {
			if f.recvReturned || f.sendReturned > len(f.sendOK) {
				if _, gone := c.removedAt[f.sid]; !gone {
					return false
				}
			}
		}
		return true
	})
	if fd != nil {
		return fd, shapeKey
	}
	if stack != "" {
		return violation("ended-stream-not-removed", "a stream whose read or write loop ended is still in the pool; all pool goroutines are parked:\n%s", trimStack(stack)), shapeKey
	}
	for _, fd := range c.takeAsync() {
		if fd.Key != "target-after-close" { // needs the call order the free-running mode does not track
			return fd, shapeKey
		}
	}
	if fd := c.checkFifoFree(); fd != nil {
		return fd, shapeKey
	}
	vs := c.snapshot()
	if fd := c.checkState(vs); fd != nil {
		return fd, shapeKey
	}
	return c.checkStreamsAPI(vs, tags), shapeKey
}

// checkFifoFree: per stream, MsgSend saw a prefix of the accepted messages, in order; one send at a time.
func (c *ctl) checkFifoFree() *finding {
	c.w.mu.Lock()
	defer c.w.mu.Unlock()
	ids := make([]int, 0, len(c.fakes))
	for id := range c.fakes {
		ids = append(ids, int(id))
	}
	sort.Ints(ids)
	for _, i := range ids {
		id := uint32(i)
		f := c.fakes[id]
		if f.maxInSend > 1 {
			return violation("concurrent-msgsend", "stream %d: %d MsgSend calls were in progress at the same time", id, f.maxInSend)
		}
		acc := c.accepted[id]
		if len(f.sendEntered) > len(acc) {
			return violation("fifo-violated", "stream %d wrote %d messages but accepted %d", id, len(f.sendEntered), len(acc))
		}
		for k := range f.sendEntered {
			if f.sendEntered[k] != acc[k] {
				return violation("fifo-violated", "stream %d: messages accepted in order %v but written in order %v", id, acc, f.sendEntered)
			}
		}
	}
	return nil
}

func TestStress(t *testing.T) {
	rep := vfutil.NewReport("C19")
	defer func() { rep.Save(!t.Failed() || rep.NumViolations() > 0) }()
	path := os.Getenv("VERIF_TRACE_OUT")
	if path == "" {
		path = filepath.Join(t.TempDir(), "hooktrace.ndjson")
	}
	fh, err := os.Create(path)
	if err != nil {
		t.Fatal(err)
	}
	defer fh.Close()
	enc := json.NewEncoder(fh)
	var mu sync.Mutex
	runs := vfutil.EnvInt("VERIF_RUNS", 20)
	ops := vfutil.EnvInt("VERIF_RUN_LEN", 25)
	seed := vfutil.Seed()
	for i := 0; i < runs; i++ {
		rs := seed*7000003 + int64(i)
		if v := vfutil.EnvInt("VERIF_REPLAY_SEED", 0); v != 0 {
			rs = int64(v)
		}
		fd, key := stressRun(rand.New(rand.NewSource(rs)), enc, &mu, ops)
		rep.Case(key)
		rep.AddReplayed(1)
		if rep.NumViolations() >= 1 {
			break
		}
		rep.AddSteps(3 * ops)
		if fd != nil {
			replay := map[string]any{"kind": "stress", "runSeed": rs, "ops": ops, "streams": key}
			switch fd.Kind {
			case "violation":
				rep.Violate(fd.Key, fmt.Sprintf("%s (free-running run seed %d, streams %s)", fd.Desc, rs, key), replay)
			case "drift":
				rep.DriftNote("stress run %d: %s", rs, fd.Desc)
			default:
				t.Fatalf("harness broken in stress run %d: %s", rs, fd.Desc)
			}
		}
	}
}
