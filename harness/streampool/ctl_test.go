package streampool

import (
	"context"
	"fmt"
	"regexp"
	"runtime"
	"sort"
	"strconv"
	"strings"
	"sync"
	"time"

	"github.com/cheggaaa/mb/v3"

	"github.com/anyproto/any-sync/net"
	"github.com/anyproto/any-sync/net/peer"
	sp "github.com/anyproto/any-sync/net/streampool"
)

// finding: what a step of the controller can report.
type finding struct {
	Kind string // "violation" (a property predicate failed on real observations), "drift", "broken"
	Key  string
	Desc string
}

func (f *finding) Error() string { return f.Kind + " " + f.Key + ": " + f.Desc }

func violation(key, format string, a ...any) *finding {
	return &finding{"violation", key, fmt.Sprintf(format, a...)}
}
func drift(format string, a ...any) *finding { return &finding{"drift", "drift", fmt.Sprintf(format, a...)} }
func broken(format string, a ...any) *finding {
	return &finding{"broken", "broken", fmt.Sprintf(format, a...)}
}

// writeGate: the "writeBegin" gate of one message (a call writes to its targets one after another).
type writeGate struct {
	g        gate
	arrivals []uint32 // stream ids in the order stream.write was entered
	gids     []int64  // goroutine executing the respective stream.write
	results  []string // "ok" | "overflow" | "closed" | other error text
}

type callState struct {
	name     string
	op       string
	msg      int
	gid      int64
	done     bool
	err      error
	panicked any
	start    int // logical clock when the targets of the call were (about to be) chosen
}

// ctl drives one real pool.
type ctl struct {
	w      *world
	pool   sp.StreamPool
	poolId uint64
	h      *handler

	// all below under w.mu
	tick      int
	events    []sp.VerifEvent // pool.mu-ordered events and writer events of this pool
	fakes     map[uint32]*fakeStream
	byStream  map[*fakeStream]uint32
	wgates    map[int]*writeGate
	cbGates   map[uint32]*gate // closeBegin
	hookGates map[uint32]*gate
	hookArgs  map[uint32][]string
	hookPeer  map[uint32]string
	hookCalls map[uint32]int
	getGates  map[int]*gate // peer getter, per message
	removedAt map[uint32]int
	removedSeq map[uint32]uint64
	removedTags map[uint32][]string
	accepted  map[uint32][]int
	dropped   map[uint32][]int
	calls     map[string]*callState
	sendCalls map[int]*callState // dial tasks by message
	lastState *sp.VerifState
	async     []*finding // findings raised inside the sink (oracles on events)
	free      bool       // free-running mode: the gates of the sink and of the close hook are open
	rawTrace  func(ev *sp.VerifEvent)
}

var sinkMu sync.Mutex
var sinks = map[uint64]func(ev *sp.VerifEvent){}
var sinkOnce sync.Once

func installSink() {
	sinkOnce.Do(func() {
		sp.VerifSetSink(func(ev *sp.VerifEvent) {
			sinkMu.Lock()
			f := sinks[ev.Pool]
			sinkMu.Unlock()
			if f != nil {
				f(ev)
			}
		})
	})
}

type poolCfg struct {
	DialWorkers int
	DialQSize   int
}

func newCtl(cfg poolCfg) *ctl {
	installSink()
	w := newWorld()
	c := &ctl{w: w, h: newHandler(w), fakes: map[uint32]*fakeStream{}, byStream: map[*fakeStream]uint32{},
		wgates: map[int]*writeGate{}, cbGates: map[uint32]*gate{}, hookGates: map[uint32]*gate{},
		hookArgs: map[uint32][]string{}, hookPeer: map[uint32]string{}, hookCalls: map[uint32]int{},
		getGates: map[int]*gate{}, removedAt: map[uint32]int{}, removedSeq: map[uint32]uint64{}, removedTags: map[uint32][]string{},
		accepted: map[uint32][]int{}, dropped: map[uint32][]int{},
		calls: map[string]*callState{}, sendCalls: map[int]*callState{}}
	if cfg.DialWorkers <= 0 {
		cfg.DialWorkers = 1
	}
	c.pool = sp.NewStreamPool(c.h, sp.StreamConfig{SendQueueSize: 10, DialQueueWorkers: cfg.DialWorkers, DialQueueSize: cfg.DialQSize},
		sp.WithStreamCloseHook(c.closeHook))
	c.poolId = sp.VerifPoolId(c.pool)
	sinkMu.Lock()
	sinks[c.poolId] = c.sink
	sinkMu.Unlock()
	if err := c.pool.Run(context.Background()); err != nil {
		panic(err)
	}
	return c
}

// shutdown opens every gate, so that the goroutines of this pool drain, and closes the pool.
func (c *ctl) shutdown() {
	c.w.update(func() { c.w.dead = true })
	_ = c.pool.Close(context.Background())
	// give the drained goroutines a moment; nothing depends on it
	c.w.await(func() bool {
		for _, f := range c.fakes {
			if f.inSend > 0 {
				return false
			}
		}
		return true
	})
	// let the released goroutines run to their end (close sequences included), so that what they do is
	// still attributed to this pool; bounded, nothing depends on it
	deadline := time.Now().Add(3 * time.Second)
	for time.Now().Before(deadline) && poolBusy() {
		time.Sleep(200 * time.Microsecond)
	}
	sinkMu.Lock()
	delete(sinks, c.poolId)
	sinkMu.Unlock()
}

// poolBusy: some goroutine still executes code of the package under test (other than idle dial workers).
func poolBusy() bool {
	buf := make([]byte, 1<<20)
	n := runtime.Stack(buf, true)
	for _, blk := range strings.Split(string(buf[:n]), "\n\n") {
		if strings.Contains(blk, "github.com/anyproto/any-sync/net/streampool.") && !strings.Contains(blk, "(*ExecPool).sendLoop") {
			return true
		}
	}
	return false
}

func msgId(key string) int {
	if strings.HasPrefix(key, "m") {
		if n, err := strconv.Atoi(key[1:]); err == nil {
			return n
		}
	}
	return -1
}

func writeRes(errText string) string {
	switch errText {
	case "":
		return "ok"
	case mb.ErrOverflowed.Error():
		return "overflow"
	case mb.ErrClosed.Error():
		return "closed"
	}
	return "error:" + errText
}

func (c *ctl) wgate(msg int) *writeGate {
	g := c.wgates[msg]
	if g == nil {
		g = &writeGate{g: gate{w: c.w}}
		c.wgates[msg] = g
	}
	return g
}

// sink receives the verif events of the pool. Events emitted under pool.mu must not block.
func (c *ctl) sink(ev *sp.VerifEvent) {
	if c.rawTrace != nil {
		c.rawTrace(ev)
	}
	switch ev.Ev {
	case "writeBegin":
		id := msgId(ev.Msg)
		gid := curGid()
		c.w.mu.Lock()
		c.tick++
		g := c.wgate(id)
		g.arrivals = append(g.arrivals, ev.StreamId)
		g.gids = append(g.gids, gid)
		// oracle NoTargetAfterClose: a call that chose its targets after the stream left the pool
		if at, gone := c.removedAt[ev.StreamId]; gone {
			var cs *callState
			for _, k := range c.calls {
				if k.msg == id && !k.done {
					cs = k
				}
			}
			if cs == nil {
				cs = c.sendCalls[id]
			}
			if cs != nil && cs.start > at {
				c.async = append(c.async, violation("target-after-close",
					"%s of message m%d started after stream %d had been removed from the pool and still writes to it", cs.op, id, ev.StreamId))
			}
		}
		// the arrival and its registration at the gate become visible together
		if c.free {
			c.w.cond.Broadcast()
			c.w.mu.Unlock()
		} else {
			g.g.waitLocked(g.g.arriveLocked())
		}
	case "write":
		id := msgId(ev.Msg)
		c.w.update(func() {
			c.tick++
			res := writeRes(ev.Err)
			g := c.wgate(id)
			g.results = append(g.results, res)
			if res == "ok" {
				c.accepted[ev.StreamId] = append(c.accepted[ev.StreamId], id)
				// the add happened after "writeBegin" (BeginSeq); only then it is known to follow the removal
				if rs, gone := c.removedSeq[ev.StreamId]; gone && ev.BeginSeq > rs {
					c.async = append(c.async, violation("accept-after-close",
						"stream %d accepted message m%d after it had been removed from the pool", ev.StreamId, id))
				}
			} else {
				c.dropped[ev.StreamId] = append(c.dropped[ev.StreamId], id)
			}
			c.events = append(c.events, *ev)
		})
	case "closeBegin":
		c.w.mu.Lock()
		c.tick++
		g := c.cbGates[ev.StreamId]
		if g == nil {
			g = &gate{w: c.w}
			c.cbGates[ev.StreamId] = g
		}
		c.events = append(c.events, *ev)
		if c.free {
			c.w.cond.Broadcast()
			c.w.mu.Unlock()
		} else {
			g.waitLocked(g.arriveLocked())
		}
	case "addStream":
		c.w.update(func() {
			c.tick++
			if f, ok := ev.RawStrm.(*fakeStream); ok {
				f.sid = ev.StreamId
				f.qcap = ev.QueueCap
				c.fakes[ev.StreamId] = f
				c.byStream[f] = ev.StreamId
			}
			c.lastState = ev.State
			c.events = append(c.events, *ev)
		})
	case "removeStream":
		c.w.update(func() {
			c.tick++
			if _, twice := c.removedAt[ev.StreamId]; twice {
				c.async = append(c.async, violation("removed-twice", "stream %d was removed from the pool twice", ev.StreamId))
			}
			c.removedAt[ev.StreamId] = c.tick
			c.removedSeq[ev.StreamId] = ev.Seq
			c.removedTags[ev.StreamId] = ev.Tags
			c.lastState = ev.State
			c.events = append(c.events, *ev)
		})
	default: // addTags, removeTags, take, sent, sendErr
		c.w.update(func() {
			c.tick++
			if ev.State != nil {
				c.lastState = ev.State
			}
			c.events = append(c.events, *ev)
		})
	}
}

func (c *ctl) closeHook(streamId uint32, peerId string, tags []string) {
	c.w.mu.Lock()
	c.tick++
	c.hookCalls[streamId]++
	c.hookArgs[streamId] = append([]string{}, tags...)
	c.hookPeer[streamId] = peerId
	g := c.hookGates[streamId]
	if g == nil {
		g = &gate{w: c.w}
		c.hookGates[streamId] = g
	}
	if c.free {
		c.w.cond.Broadcast()
		c.w.mu.Unlock()
	} else {
		g.waitLocked(g.arriveLocked())
	}
}

func fatalFinding() *finding {
	if ms := takeFatals(); len(ms) > 0 {
		return violation("fatal-index-miss", "the pool called log.Fatal (its reaction to inconsistent indexes): %s", ms[0])
	}
	return nil
}

// takeAsync returns the findings raised by the event oracles since the last call.
func (c *ctl) takeAsync() []*finding {
	c.w.mu.Lock()
	defer c.w.mu.Unlock()
	r := c.async
	c.async = nil
	for _, m := range takeFatals() {
		r = append(r, violation("fatal-index-miss", "the pool called log.Fatal (its reaction to inconsistent indexes): %s", m))
	}
	return r
}

// ------------------------------------------------------------------ goroutine inspection

var reGoroutine = regexp.MustCompile(`(?m)^goroutine (\d+) \[([^\]]*)\]:$`)

func curGid() int64 {
	buf := make([]byte, 64)
	n := runtime.Stack(buf, false)
	m := reGoroutine.FindSubmatch(append(buf[:n], '\n'))
	if m == nil {
		f := strings.Fields(string(buf[:n]))
		if len(f) > 1 {
			id, _ := strconv.ParseInt(f[1], 10, 64)
			return id
		}
		return -1
	}
	id, _ := strconv.ParseInt(string(m[1]), 10, 64)
	return id
}

// goroutineState returns the scheduler state and the stack text of a goroutine ("" = it is gone).
func goroutineState(gid int64) (state, stack string) {
	buf := make([]byte, 1<<20)
	for {
		n := runtime.Stack(buf, true)
		if n < len(buf) {
			buf = buf[:n]
			break
		}
		buf = make([]byte, 2*len(buf))
	}
	for _, blk := range strings.Split(string(buf), "\n\n") {
		m := reGoroutine.FindStringSubmatch(blk)
		if m == nil {
			continue
		}
		if id, _ := strconv.ParseInt(m[1], 10, 64); id == gid {
			return m[2], blk
		}
	}
	return "", ""
}

func isParked(state string) bool {
	st := strings.Split(state, ",")[0]
	for _, p := range []string{"chan receive", "chan send", "select", "semacquire", "sync.Mutex.Lock", "sync.RWMutex", "sync.Cond.Wait", "sync.WaitGroup.Wait", "sleep"} {
		if strings.HasPrefix(st, p) {
			return true
		}
	}
	return false
}

// poolParked: every goroutine that executes code of the package under test is parked (in the pool
// itself or at a harness gate), i.e. the pool cannot make progress on its own. Returns the stacks of
// those parked inside the pool.
func poolParked() (bool, string) {
	buf := make([]byte, 1<<20)
	for {
		n := runtime.Stack(buf, true)
		if n < len(buf) {
			buf = buf[:n]
			break
		}
		buf = make([]byte, 2*len(buf))
	}
	var inPool []string
	for _, blk := range strings.Split(string(buf), "\n\n") {
		m := reGoroutine.FindStringSubmatch(blk)
		if m == nil || !strings.Contains(blk, "github.com/anyproto/any-sync/net/streampool.") {
			continue
		}
		if !isParked(m[2]) {
			return false, ""
		}
		if blockedInCode(m[2], blk) {
			inPool = append(inPool, trimStack(blk))
		}
	}
	return true, strings.Join(inPool, "\n")
}

// poolQuiet: every goroutine executing code of the package under test waits on a condition variable
// (harness gates), a channel or a select (mb.WaitCond, an opening process): only the harness can wake
// it. A goroutine waiting for a mutex, running or runnable makes the pool not quiet.
func poolQuiet() bool {
	buf := make([]byte, 1<<20)
	for {
		n := runtime.Stack(buf, true)
		if n < len(buf) {
			buf = buf[:n]
			break
		}
		buf = make([]byte, 2*len(buf))
	}
	for _, blk := range strings.Split(string(buf), "\n\n") {
		m := reGoroutine.FindStringSubmatch(blk)
		if m == nil || !strings.Contains(blk, "github.com/anyproto/any-sync/net/streampool.") {
			continue
		}
		st := strings.Split(m[2], ",")[0]
		quiet := false
		for _, p := range []string{"sync.Cond.Wait", "select", "chan receive"} {
			if strings.HasPrefix(st, p) {
				quiet = true
			}
		}
		// waiting for a mutex: transient if it is a lock of the harness (held for a few instructions by a
		// running harness goroutine); if it is a lock inside the pool, its holder is another pool goroutine,
		// which is judged by its own state
		if strings.HasPrefix(st, "sync.Mutex.Lock") || strings.HasPrefix(st, "semacquire") {
			quiet = !mutexWaitInHarness(blk)
		}
		if !quiet {
			return false
		}
	}
	return true
}

// mutexWaitInHarness: the function that called Lock belongs to the harness.
func mutexWaitInHarness(stack string) bool {
	lines := strings.Split(stack, "\n")
	for i := 1; i < len(lines); i += 2 {
		fn := strings.TrimSpace(lines[i])
		if strings.HasPrefix(fn, "sync.") || strings.HasPrefix(fn, "runtime.") || strings.HasPrefix(fn, "internal/") {
			continue
		}
		return strings.HasPrefix(fn, "verifharness/")
	}
	return true
}

// blockedInCode: the goroutine is parked (not runnable), and not inside one of the harness gates.
func blockedInCode(state, stack string) bool {
	if !isParked(state) {
		return false
	}
	for _, own := range []string{"(*gate).enter", "(*fakeStream).MsgSend", "(*fakeStream).MsgRecv", "(*world).await"} {
		if strings.Contains(stack, own) {
			return false
		}
	}
	return true
}

// awaitOrHang waits for cond. If it does not come true it decides, without relying on the clock
// alone, between "the goroutine gid is parked inside the code under test" (returns the stack: a
// genuine hang) and "nothing is known" (returns broken). gid <= 0: only the long timeout applies.
func (c *ctl) awaitOrHang(gid int64, what string, cond func() bool) (hungStack string, f *finding) {
	deadline := time.Now().Add(6 * watchdog)
	parkedSamples := 0
	lastProgress := -1
	for {
		if c.awaitShort(cond, 2*time.Second) {
			return "", nil
		}
		if fd := fatalFinding(); fd != nil {
			return "", fd
		}
		if p := c.progress(); p != lastProgress { // something moved since the last sample: not a hang (yet)
			lastProgress = p
			parkedSamples = 0
		}
		if gid == -1 {
			if all, stack := poolParked(); all {
				parkedSamples++
				if parkedSamples >= 3 {
					return stack, nil
				}
				continue
			}
			parkedSamples = 0
		}
		if gid > 0 {
			state, stack := goroutineState(gid)
			// parked inside the pool, and nobody in the pool is able to run (whoever could wake it waits at a gate)
			if all, _ := poolParked(); all && state != "" && blockedInCode(state, stack) {
				parkedSamples++
				if parkedSamples >= 3 {
					return stack, nil
				}
				continue
			}
			parkedSamples = 0
		}
		if time.Now().After(deadline) {
			return "", broken("timeout waiting for %s", what)
		}
	}
}

// progress: a number that changes whenever the pool or a fake stream did anything observable.
func (c *ctl) progress() int {
	c.w.mu.Lock()
	defer c.w.mu.Unlock()
	n := c.tick
	for _, f := range c.fakes {
		n += len(f.sendEntered) + f.sendReturned + f.recvCalls + f.closeCalls
	}
	for _, cs := range c.calls {
		if cs.done {
			n++
		}
	}
	return n
}

func (c *ctl) awaitShort(cond func() bool, d time.Duration) bool {
	deadline := time.Now().Add(d)
	c.w.mu.Lock()
	defer c.w.mu.Unlock()
	for !cond() {
		if time.Now().After(deadline) {
			return false
		}
		t := time.AfterFunc(100*time.Millisecond, func() { c.w.mu.Lock(); c.w.cond.Broadcast(); c.w.mu.Unlock() })
		c.w.cond.Wait()
		t.Stop()
	}
	return true
}

// await for internal progress of the code under test that the model predicts. If the pool becomes
// quiescent (every pool goroutine parked on something only the harness can cause) without the expected
// progress, the real code took a different step than the model: drift. A timeout is a broken check.
func (c *ctl) await(what string, cond func() bool) *finding {
	deadline := time.Now().Add(6 * watchdog)
	quietN := 0
	for {
		if c.awaitShort(cond, 20*time.Millisecond) {
			return nil
		}
		if fd := fatalFinding(); fd != nil {
			return fd
		}
		quiet := poolQuiet()
		c.w.mu.Lock()
		ok := cond()
		c.w.mu.Unlock()
		if ok {
			return nil
		}
		if quiet {
			quietN++
			if quietN >= 3 {
				return drift("expected %s, but the pool is quiescent without it", what)
			}
		} else {
			quietN = 0
		}
		if time.Now().After(deadline) {
			return broken("timeout waiting for %s", what)
		}
	}
}

// completeClose drives the close sequence of a stream whose read or write loop ended to its end and
// requires that the stream leaves the pool (every index entry and tag removed).
func (c *ctl) completeClose(sid uint32) *finding {
	f := c.fake(sid)
	for i := 0; i < 8; i++ {
		c.w.mu.Lock()
		_, gone := c.removedAt[sid]
		var g *gate
		switch {
		case c.cbGates[sid] != nil && c.cbGates[sid].held():
			g = c.cbGates[sid]
		case f.closeGate1.held():
			g = &f.closeGate1
		case f.closeGate2.held():
			g = &f.closeGate2
		case c.hookGates[sid] != nil && c.hookGates[sid].held():
			g = c.hookGates[sid]
		}
		c.w.mu.Unlock()
		if g == nil {
			if gone {
				return nil
			}
			// nothing to release: either the closer is still on its way, or nobody closes the stream
			fd := c.await(fmt.Sprintf("the close sequence of stream %d to go on", sid), func() bool {
				_, gone := c.removedAt[sid]
				return gone || (c.cbGates[sid] != nil && c.cbGates[sid].held()) || f.closeGate1.held() || f.closeGate2.held() ||
					(c.hookGates[sid] != nil && c.hookGates[sid].held())
			})
			if fd != nil && fd.Kind == "drift" {
				return violation("ended-stream-not-removed", "the read or write loop of stream %d ended, the pool is quiescent and the stream is still in the pool (indexes and tags not cleaned up)", sid)
			}
			if fd != nil {
				return fd
			}
			continue
		}
		g.release(nil)
	}
	c.w.mu.Lock()
	_, gone := c.removedAt[sid]
	c.w.mu.Unlock()
	if !gone {
		return violation("ended-stream-not-removed", "stream %d ended but was not removed from the pool", sid)
	}
	return nil
}

// ended: streams whose read loop or write loop returned with an error.
func (c *ctl) ended() []uint32 {
	c.w.mu.Lock()
	defer c.w.mu.Unlock()
	var res []uint32
	for sid, f := range c.fakes {
		if f.recvReturned || f.sendReturned > len(f.sendOK) {
			res = append(res, sid)
		}
	}
	sort.Slice(res, func(i, j int) bool { return res[i] < res[j] })
	return res
}

// ------------------------------------------------------------------ snapshots and their oracles

type snap struct {
	vs sp.VerifState
}

// guard runs a call that must not wait for anything but pool.mu for a moment. If it parks inside the
// pool (somebody keeps pool.mu while waiting for a peer) that is reported as a blocked API call.
func (c *ctl) guard(name string, fn func()) *finding {
	done := false
	var pv any
	gidCh := make(chan int64, 1)
	go func() {
		gidCh <- curGid()
		func() {
			defer func() { pv = recover() }()
			fn()
		}()
		c.w.update(func() { done = true })
	}()
	gid := <-gidCh
	stack, fd := c.awaitOrHang(gid, name, func() bool { return done })
	if fd != nil {
		return fd
	}
	if stack != "" {
		return violation("api-blocked-"+name, "%s does not return (the pool lock is not released while the writers are held); parked at:\n%s", name, trimStack(stack))
	}
	if pv != nil {
		return violation("api-panic-"+name, "%s panicked: %v", name, pv)
	}
	return nil
}

func (c *ctl) snapshot() sp.VerifState {
	var vs sp.VerifState
	if fd := c.guard("snapshot", func() { vs = sp.VerifSnapshot(c.pool) }); fd != nil {
		c.w.update(func() { c.async = append(c.async, fd) })
		return sp.VerifState{}
	}
	return vs
}

func sidKey(id uint32) string { return strconv.FormatUint(uint64(id), 10) }

// checkState evaluates IndexesConsistent, QueueBounded and NoEntryAfterClose on a real snapshot.
func (c *ctl) checkState(vs sp.VerifState) *finding {
	for p, ids := range vs.ByPeer {
		seen := map[uint32]bool{}
		if len(ids) == 0 {
			return violation("index-inconsistent", "byPeer[%s] is an empty entry", p)
		}
		for _, id := range ids {
			st, ok := vs.Streams[sidKey(id)]
			if !ok {
				return violation("index-inconsistent", "byPeer[%s] lists stream %d which is not in the pool", p, id)
			}
			if st.Peer != p {
				return violation("index-inconsistent", "byPeer[%s] lists stream %d of peer %s", p, id, st.Peer)
			}
			if seen[id] {
				return violation("index-inconsistent", "byPeer[%s] lists stream %d twice", p, id)
			}
			seen[id] = true
		}
	}
	for t, ids := range vs.ByTag {
		seen := map[uint32]bool{}
		if len(ids) == 0 {
			return violation("index-inconsistent", "byTag[%s] is an empty entry", t)
		}
		for _, id := range ids {
			st, ok := vs.Streams[sidKey(id)]
			if !ok {
				return violation("index-inconsistent", "byTag[%s] lists stream %d which is not in the pool", t, id)
			}
			if !contains(st.Tags, t) {
				return violation("index-inconsistent", "byTag[%s] lists stream %d which does not carry the tag (tags %v)", t, id, st.Tags)
			}
			if seen[id] {
				return violation("index-inconsistent", "byTag[%s] lists stream %d twice", t, id)
			}
			seen[id] = true
		}
	}
	for k, st := range vs.Streams {
		id64, _ := strconv.ParseUint(k, 10, 32)
		id := uint32(id64)
		if !containsU(vs.ByPeer[st.Peer], id) {
			return violation("index-inconsistent", "stream %d of peer %s is missing from byPeer", id, st.Peer)
		}
		for _, t := range st.Tags {
			if !containsU(vs.ByTag[t], id) {
				return violation("index-inconsistent", "stream %d carries tag %s but is missing from byTag", id, t)
			}
		}
		if st.QueueLen > st.QueueCap {
			return violation("queue-over-bound", "stream %d buffers %d messages, configured bound %d", id, st.QueueLen, st.QueueCap)
		}
	}
	c.w.mu.Lock()
	defer c.w.mu.Unlock()
	for id := range c.removedAt {
		if _, ok := vs.Streams[sidKey(id)]; ok {
			return violation("entry-after-close", "stream %d is in the pool again after it was removed", id)
		}
	}
	return nil
}

func contains(s []string, x string) bool {
	for _, y := range s {
		if y == x {
			return true
		}
	}
	return false
}
func containsU(s []uint32, x uint32) bool {
	for _, y := range s {
		if y == x {
			return true
		}
	}
	return false
}

// checkStreamsAPI: Streams(tag) returns exactly the streams byTag lists, in order (and does not panic).
func (c *ctl) checkStreamsAPI(vs sp.VerifState, tags []string) (f *finding) {
	defer func() {
		if r := recover(); r != nil {
			f = violation("streams-api-panic", "Streams(%v) panicked: %v", tags, r)
		}
	}()
	for _, t := range tags {
		got := c.pool.Streams(t)
		want := vs.ByTag[t]
		// The snapshot and the API call are two critical sections of pool.mu. In free-running runs a queued dial
		// task or a failing writer may add / remove a stream in between: judge only against a snapshot that was
		// the same before and after the call (stable), otherwise there is nothing to compare.
		stable := false
		for try := 0; try < 50; try++ {
			before := c.snapshot()
			got = c.pool.Streams(t)
			after := c.snapshot()
			if fmt.Sprint(before.ByTag[t]) == fmt.Sprint(after.ByTag[t]) {
				want, stable = after.ByTag[t], true
				break
			}
		}
		if !stable {
			continue
		}
		if len(got) != len(want) {
			return violation("streams-api-mismatch", "Streams(%s) returned %d streams, index lists %v", t, len(got), want)
		}
		c.w.mu.Lock()
		for i, s := range got {
			fs, _ := s.(*fakeStream)
			if fs == nil || c.byStream[fs] != want[i] {
				c.w.mu.Unlock()
				return violation("streams-api-mismatch", "Streams(%s)[%d] is not stream %d", t, i, want[i])
			}
			if _, gone := c.removedAt[want[i]]; gone {
				c.w.mu.Unlock()
				return violation("entry-after-close", "Streams(%s) returns stream %d after its removal", t, want[i])
			}
		}
		c.w.mu.Unlock()
	}
	return nil
}

// checkFifo: per stream the messages entered MsgSend in the order they were accepted, none skipped,
// and never two sends at once.
func (c *ctl) checkFifo() *finding {
	c.w.mu.Lock()
	defer c.w.mu.Unlock()
	ids := make([]int, 0, len(c.fakes))
	for id := range c.fakes {
		ids = append(ids, int(id))
	}
	sort.Ints(ids)
	for _, i := range ids {
		id := uint32(i)
		f := c.fakes[id]
		if f.maxInSend > 1 {
			return violation("concurrent-msgsend", "stream %d: %d MsgSend calls were in progress at the same time", id, f.maxInSend)
		}
		acc := c.accepted[id]
		// a handed-over message can enter MsgSend before its "write" event is recorded; compare the common prefix
		n := len(f.sendEntered)
		if len(acc) < n {
			n = len(acc)
		}
		for k := 0; k < n; k++ {
			if f.sendEntered[k] != acc[k] {
				return violation("fifo-violated", "stream %d: messages accepted in order %v but written in order %v", id, acc, f.sendEntered)
			}
		}
	}
	return nil
}

// ------------------------------------------------------------------ primitives (one per spec action)

func (c *ctl) addStream(peerId string, tags []string, qsize int, kind string) (uint32, *finding) {
	f := newFakeStream(c.w, peerId, kind)
	f.tagsAtCreate = tags
	var err error
	if fd := c.guard("AddStream", func() { err = c.pool.AddStream(f, qsize, append([]string{}, tags...)...) }); fd != nil {
		return 0, fd
	}
	if err != nil {
		return 0, broken("AddStream failed: %v", err)
	}
	var sid uint32
	if fd := c.await("addStream event and hello", func() bool {
		sid = c.byStream[f]
		return sid != 0 && c.h.ctxBySid[sid] != nil
	}); fd != nil {
		return 0, fd
	}
	return sid, nil
}

// startCall runs an API call on its own goroutine.
func (c *ctl) startCall(name, op string, msg int, fn func() error) *callState {
	cs := &callState{name: name, op: op, msg: msg}
	started := make(chan struct{})
	c.w.update(func() {
		c.tick++
		cs.start = c.tick
		c.calls[name] = cs
	})
	go func() {
		cs.gid = curGid()
		close(started)
		var err error
		var pv any
		func() {
			defer func() { pv = recover() }()
			err = fn()
		}()
		c.w.update(func() { cs.err = err; cs.panicked = pv; cs.done = true })
	}()
	<-started
	return cs
}

// awaitCall waits until the call returned or stands at its next write gate. The writers are all held
// (or idle) meanwhile, so a call that parks inside the pool waits for a peer: CallerNeverWaits fails.
func (c *ctl) awaitCall(cs *callState, arrivalsBefore int) (atGate bool, sid uint32, f *finding) {
	g := func() *writeGate { c.w.mu.Lock(); defer c.w.mu.Unlock(); return c.wgate(cs.msg) }()
	stack, fd := c.awaitOrHang(cs.gid, cs.op+" to return", func() bool {
		return cs.done || len(g.arrivals) > arrivalsBefore
	})
	if fd != nil {
		return false, 0, fd
	}
	if stack != "" {
		return false, 0, violation("api-blocked-"+cs.op, "%s did not return while the writers of all streams were held; it is parked at:\n%s", cs.op, trimStack(stack))
	}
	c.w.mu.Lock()
	defer c.w.mu.Unlock()
	if cs.panicked != nil {
		return false, 0, violation("api-panic-"+cs.op, "%s panicked: %v", cs.op, cs.panicked)
	}
	if cs.done {
		return false, 0, nil
	}
	return true, g.arrivals[len(g.arrivals)-1], nil
}

func trimStack(s string) string {
	lines := strings.Split(s, "\n")
	if len(lines) > 14 {
		lines = lines[:14]
	}
	return strings.Join(lines, "\n")
}

type writeObs struct {
	sid      uint32
	res      string
	preLen   int
	preLive  bool
	qcap     int
	writerHeld bool
	removedBefore bool // the stream had left the pool before the write was let through
}

// releaseWrite lets the stream.write that waits at the gate of message msg proceed and returns what
// happened. gid: the goroutine executing the write (a hang there is a violation of CallerNeverWaits).
func (c *ctl) releaseWrite(msg int, gid int64, who string) (writeObs, *finding) {
	var o writeObs
	c.w.mu.Lock()
	g := c.wgate(msg)
	if !g.g.held() {
		c.w.mu.Unlock()
		return o, drift("no write of m%d waits at the gate", msg)
	}
	o.sid = g.arrivals[len(g.arrivals)-1]
	gid = g.gids[len(g.gids)-1]
	nres := len(g.results)
	f := c.fakes[o.sid]
	if f != nil {
		o.writerHeld = f.inSend == 1
		o.qcap = f.qcap
	}
	_, o.removedBefore = c.removedAt[o.sid]
	c.w.mu.Unlock()
	pre := c.snapshot()
	for _, fd := range c.takeAsync() {
		return o, fd
	}
	if st, ok := pre.Streams[sidKey(o.sid)]; ok {
		o.preLive, o.preLen = true, st.QueueLen
	}
	g.g.release(nil)
	stack, fd := c.awaitOrHang(gid, "result of stream.write", func() bool { return len(g.results) > nres })
	if fd != nil {
		return o, fd
	}
	if stack != "" {
		return o, violation("api-blocked-"+who, "stream.write of m%d to stream %d (queue %d/%d, writer held) does not return; parked at:\n%s",
			msg, o.sid, o.preLen, o.qcap, trimStack(stack))
	}
	c.w.mu.Lock()
	o.res = g.results[nres]
	c.w.mu.Unlock()
	return o, nil
}

// judgeWrite: DropBeyondBound / QueueBounded on the real observation of one write. queueClosed: the
// harness has let queue.Close of that stream happen.
func (c *ctl) judgeWrite(o writeObs, msg int, queueClosed bool) *finding {
	switch {
	case o.res == "ok":
		if o.removedBefore {
			return violation("accept-after-close", "stream %d accepted m%d after it had been removed from the pool (the message can never be delivered)", o.sid, msg)
		}
		if queueClosed {
			return violation("accept-after-queue-close", "stream %d accepted m%d although its queue had been closed", o.sid, msg)
		}
		if o.preLive && o.writerHeld && o.preLen >= o.qcap {
			return violation("accept-beyond-bound", "stream %d accepted m%d with %d messages buffered, bound %d", o.sid, msg, o.preLen, o.qcap)
		}
	case o.res == "overflow":
		if o.preLive && o.preLen < o.qcap {
			return violation("drop-below-bound", "stream %d rejected m%d as overflow with only %d of %d messages buffered", o.sid, msg, o.preLen, o.qcap)
		}
	case o.res == "closed":
		if !queueClosed {
			return violation("drop-below-bound", "stream %d rejected m%d as closed although its queue was not closed", o.sid, msg)
		}
	default:
		return violation("write-error", "stream %d: write of m%d failed with %s", o.sid, msg, o.res)
	}
	return nil
}

func (c *ctl) ctxOf(sid uint32) context.Context {
	c.w.mu.Lock()
	defer c.w.mu.Unlock()
	return c.h.ctxBySid[sid]
}

func (c *ctl) fake(sid uint32) *fakeStream {
	c.w.mu.Lock()
	defer c.w.mu.Unlock()
	return c.fakes[sid]
}

// awaitSendEntered: the write loop of sid called MsgSend for the n-th time, with message msg.
func (c *ctl) awaitSendEntered(f *fakeStream, n int, msg int) *finding {
	if fd := c.await(fmt.Sprintf("MsgSend #%d on stream %d", n, f.sid), func() bool { return len(f.sendEntered) >= n }); fd != nil {
		return fd
	}
	c.w.mu.Lock()
	got := f.sendEntered[n-1]
	c.w.mu.Unlock()
	if msg >= 0 && got != msg {
		return violation("fifo-violated", "stream %d: MsgSend #%d carries m%d, accepted order demands m%d", f.sid, n, got, msg)
	}
	return nil
}

// finishSend lets the MsgSend in progress return err (nil = delivered).
func (c *ctl) finishSend(f *fakeStream, err error) *finding {
	var n int
	c.w.update(func() {
		n = len(f.sendEntered)
		if f.sendGate.released < n {
			f.sendGate.released = n
			for len(f.sendGate.val) < n-1 {
				f.sendGate.val = append(f.sendGate.val, nil)
			}
			var v any
			if err != nil {
				v = err
			}
			f.sendGate.val = append(f.sendGate.val, v)
		}
	})
	return c.await("MsgSend to return", func() bool { return f.sendReturned >= n })
}

func (c *ctl) failReader(f *fakeStream) *finding {
	c.w.update(func() { f.recvGate.released++ })
	return c.await("MsgRecv to return", func() bool { return f.recvReturned })
}

func (c *ctl) gateHeld(g func() *gate) func() bool {
	return func() bool { x := g(); return x != nil && x.held() }
}

func (c *ctl) awaitCloseBegin(sid uint32) *finding {
	return c.await(fmt.Sprintf("closeBegin of stream %d", sid), c.gateHeld(func() *gate { return c.cbGates[sid] }))
}

// queueClose: release the closeBegin gate; queue.Close happens and stream.Close is entered.
func (c *ctl) queueClose(sid uint32) *finding {
	var g *gate
	c.w.mu.Lock()
	g = c.cbGates[sid]
	f := c.fakes[sid]
	c.w.mu.Unlock()
	if g == nil || f == nil {
		return drift("stream %d has no closer at the closeBegin gate", sid)
	}
	g.release(nil)
	return c.await("stream.Close to be called", func() bool { return f.closeGate1.held() })
}

// streamClose: the fake counts as closed from now on (held MsgSend / MsgRecv fail).
func (c *ctl) streamClose(sid uint32) *finding {
	f := c.fake(sid)
	f.closeGate1.release(nil)
	return c.await("stream.Close second gate", func() bool { return f.closeGate2.held() })
}

// removeStream: stream.Close returns, pool.removeStream runs, the close hook is entered.
func (c *ctl) removeStream(sid uint32) *finding {
	f := c.fake(sid)
	f.closeGate2.release(nil)
	return c.await("removeStream and close hook", func() bool {
		_, gone := c.removedAt[sid]
		g := c.hookGates[sid]
		return gone && g != nil && g.held()
	})
}

func (c *ctl) closeHookRelease(sid uint32) *finding {
	c.w.mu.Lock()
	g := c.hookGates[sid]
	c.w.mu.Unlock()
	if g == nil {
		return drift("close hook of stream %d was not entered", sid)
	}
	g.release(nil)
	return c.await("close hook to return", func() bool { return g.passed >= 1 })
}

// send: pool.Send never waits: it returns ok or overflow at once.
func (c *ctl) send(name string, msg int, peers []string) (string, *finding) {
	c.w.mu.Lock()
	g := &gate{w: c.w}
	c.getGates[msg] = g
	cs := &callState{name: name, op: "Send", msg: msg}
	c.sendCalls[msg] = cs
	c.w.mu.Unlock()
	getter := func(ctx context.Context) ([]peer.Peer, error) {
		g.enter()
		c.w.update(func() { c.tick++; cs.start = c.tick })
		var ps []peer.Peer
		for _, p := range peers {
			ps = append(ps, &fakePeer{id: p})
		}
		return ps, nil
	}
	call := c.startCall(name, "Send", msg, func() error { return c.pool.Send(context.Background(), &hmsg{id: msg}, getter) })
	stack, fd := c.awaitOrHang(call.gid, "Send to return", func() bool { return call.done })
	if fd != nil {
		return "", fd
	}
	if stack != "" {
		return "", violation("api-blocked-Send", "Send does not return (dial queue full or workers busy); parked at:\n%s", trimStack(stack))
	}
	if call.panicked != nil {
		return "", violation("api-panic-Send", "Send panicked: %v", call.panicked)
	}
	switch {
	case call.err == nil:
		return "ok", nil
	case call.err == mb.ErrOverflowed:
		return "overflow", nil
	}
	return "error:" + call.err.Error(), nil
}

var errUnable = net.ErrUnableToConnect

// drainHealthy - Isolation: with the blocked and failing streams left alone, every message accepted by
// a healthy or slow stream that is still open is written, in the order it was accepted.
func (c *ctl) drainHealthy() *finding {
	// isolation: drain the healthy and slow streams that are still open
	c.w.mu.Lock()
	var sids []int
	for sid := range c.fakes {
		sids = append(sids, int(sid))
	}
	c.w.mu.Unlock()
	sort.Ints(sids)
	for _, s := range sids {
		sid := uint32(s)
		f := c.fake(sid)
		if (f.kind != "healthy" && f.kind != "slow") || f.isClosed() {
			continue
		}
		c.w.mu.Lock()
		_, began := c.cbGates[sid]
		c.w.mu.Unlock()
		if began {
			continue
		}
		for {
			c.w.mu.Lock()
			acc := append([]int{}, c.accepted[sid]...)
			nok := len(f.sendOK)
			c.w.mu.Unlock()
			if nok >= len(acc) {
				break
			}
			stack, fd := c.awaitOrHang(-1, "write loop progress", func() bool { return len(f.sendEntered) > nok })
			if fd != nil {
				return fd
			}
			if stack != "" {
				return violation("isolation-undelivered", "stream %d (%s) accepted %v, only %d were written although its peer takes every message; other streams are blocked. All pool goroutines are parked:\n%s",
					sid, f.kind, acc, nok, trimStack(stack))
			}
			if fd := c.awaitSendEntered(f, nok+1, acc[nok]); fd != nil {
				return fd
			}
			if fd := c.finishSend(f, nil); fd != nil {
				return fd
			}
		}
	}
	return nil
}

// describe lists where the goroutines of the pool stand (held gates), for drift notes.
func (c *ctl) describe() string {
	c.w.mu.Lock()
	defer c.w.mu.Unlock()
	var sb strings.Builder
	for m, g := range c.wgates {
		if g.g.held() {
			fmt.Fprintf(&sb, "write(m%d->s%d) ", m, g.arrivals[len(g.arrivals)-1])
		}
	}
	for m, g := range c.getGates {
		if g.held() {
			fmt.Fprintf(&sb, "getter(m%d) ", m)
		}
	}
	for p, g := range c.h.openGate {
		if g.held() {
			fmt.Fprintf(&sb, "open(%s) ", p)
		}
	}
	for sid, g := range c.cbGates {
		if g.held() {
			fmt.Fprintf(&sb, "closeBegin(s%d) ", sid)
		}
	}
	for sid, g := range c.hookGates {
		if g.held() {
			fmt.Fprintf(&sb, "hook(s%d) ", sid)
		}
	}
	for sid, f := range c.fakes {
		if f.closeGate1.held() {
			fmt.Fprintf(&sb, "close1(s%d) ", sid)
		}
		if f.closeGate2.held() {
			fmt.Fprintf(&sb, "close2(s%d) ", sid)
		}
		if f.sendGate.entered > f.sendReturned {
			fmt.Fprintf(&sb, "msgsend(s%d m%d) ", sid, f.sendEntered[len(f.sendEntered)-1])
		}
	}
	return sb.String()
}

// quiesce waits until no goroutine of the pool can run: all of them wait at a harness gate or inside
// the pool for something only the harness can cause (see poolQuiet).
func (c *ctl) quiesce() *finding {
	deadline := time.Now().Add(6 * watchdog)
	n := 0
	for {
		if poolQuiet() {
			n++
			if n >= 2 {
				return nil
			}
		} else {
			n = 0
		}
		if fd := fatalFinding(); fd != nil {
			return fd
		}
		if time.Now().After(deadline) {
			return broken("the pool does not become quiescent")
		}
		runtime.Gosched()
		time.Sleep(50 * time.Microsecond)
	}
}
