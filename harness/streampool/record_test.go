package streampool

import (
	"context"
	"fmt"
	"math/rand"
	"os"
	"path/filepath"
	"sort"
	"testing"

	sp "github.com/anyproto/any-sync/net/streampool"

	"verifharness/vfutil"
)

// recorder: a randomised driver that steps a real pool through its gates, one specification action
// per command, evaluates the property oracles on the way and logs every command with what it observed
// and the projection of the real pool (StreamPoolTrace.tla validates the log).
type recorder struct {
	c       *ctl
	rnd     *rand.Rand
	tw      *vfutil.TraceWriter
	peers   []string
	tags    []string
	nmsg    int
	maxMsg  int
	maxStr  int
	qclosed map[uint32]bool
	sclosed map[uint32]bool
	rfailed map[uint32]bool // ReaderFail logged
	wexit   map[uint32]bool // write loop ended (logged as WriterFail) or never to be commanded again
	tasks   map[int]bool    // dial tasks whose peer getter has not been released yet
	callers []string
	acts    map[string]int
}

func (r *recorder) quiesce() *finding { return r.c.quiesce() }

func (r *recorder) emit(ev map[string]any) {
	vs := r.c.snapshot()
	ev["st"] = vs
	r.tw.Emit(ev)
	if a, ok := ev["a"].(string); ok {
		r.acts[a]++
	}
}

func (r *recorder) subset(xs []string, min int) []string {
	p := r.rnd.Perm(len(xs))
	n := min + r.rnd.Intn(len(xs)-min+1)
	res := make([]string, 0, n)
	for _, i := range p[:n] {
		res = append(res, xs[i])
	}
	return res
}

type cmd struct {
	name string
	run  func() *finding
}

func (r *recorder) sids() []uint32 {
	r.c.w.mu.Lock()
	defer r.c.w.mu.Unlock()
	var ids []uint32
	for id := range r.c.fakes {
		ids = append(ids, id)
	}
	sort.Slice(ids, func(i, j int) bool { return ids[i] < ids[j] })
	return ids
}

func (r *recorder) held(g *gate) bool {
	if g == nil {
		return false
	}
	r.c.w.mu.Lock()
	defer r.c.w.mu.Unlock()
	return g.held()
}

// afterWrite logs a CallWrite / WorkerWrite with the observed outcome and judges it.
func (r *recorder) doWrite(kind string, who string, cs *callState, msg int) *finding {
	c := r.c
	var gid int64
	op := "dial-worker"
	if cs != nil {
		gid, op = cs.gid, cs.op
	}
	o, fd := c.releaseWrite(msg, gid, op)
	if fd != nil {
		return fd
	}
	if fd := c.judgeWrite(o, msg, r.qclosed[o.sid]); fd != nil {
		return fd
	}
	if fd := r.quiesce(); fd != nil {
		return fd
	}
	ev := map[string]any{"a": kind, "sid": o.sid, "msg": msg, "res": o.res}
	if cs != nil {
		c.w.mu.Lock()
		done, perr, pv := cs.done, cs.err, cs.panicked
		atGate := c.wgate(msg).g.held()
		c.w.mu.Unlock()
		if pv != nil {
			return violation("api-panic-"+cs.op, "%s panicked: %v", cs.op, pv)
		}
		if !done && !atGate {
			stack, fd := c.awaitOrHang(cs.gid, cs.op+" to return", func() bool { return cs.done || c.wgate(msg).g.held() })
			if fd != nil {
				return fd
			}
			if stack != "" {
				return violation("api-blocked-"+cs.op, "%s does not return while all writers are held; parked at:\n%s", cs.op, trimStack(stack))
			}
			c.w.mu.Lock()
			done, perr = cs.done, cs.err
			c.w.mu.Unlock()
		}
		ev["c"] = who
		ev["ret"] = "pending"
		if done {
			ev["ret"] = "ok"
			if perr != nil {
				return violation("api-error-"+cs.op, "%s returned %v", cs.op, perr)
			}
		}
	}
	r.emit(ev)
	return nil
}

func (r *recorder) startCall(name, op string, args []string) *finding {
	c := r.c
	r.nmsg++
	msg := r.nmsg
	var cs *callState
	if op == "SendById" {
		cs = c.startCall(name, op, msg, func() error { return c.pool.SendById(context.Background(), &hmsg{id: msg}, args...) })
	} else {
		cs = c.startCall(name, op, msg, func() error { return c.pool.Broadcast(context.Background(), &hmsg{id: msg}, args...) })
	}
	atGate, _, fd := c.awaitCall(cs, 0)
	if fd != nil {
		return fd
	}
	ret := "pending"
	if !atGate {
		switch {
		case cs.err == nil:
			ret = "ok"
		case cs.err == errUnable:
			ret = "unableToConnect"
		default:
			return violation("api-error-"+op, "%s returned %v", op, cs.err)
		}
	}
	ev := map[string]any{"a": op, "c": name, "msg": msg, "ret": ret}
	if op == "SendById" {
		ev["peers"] = args
	} else {
		ev["tags"] = args
	}
	r.emit(ev)
	return nil
}

// commands enumerates what the driver may do now.
func (r *recorder) commands() []cmd {
	c := r.c
	var cs []cmd
	add := func(name string, weight int, f func() *finding) {
		for i := 0; i < weight; i++ {
			cs = append(cs, cmd{name, f})
		}
	}
	sids := r.sids()
	// idle callers
	var idle []string
	c.w.mu.Lock()
	for _, n := range r.callers {
		if k := c.calls[n]; k == nil || k.done {
			idle = append(idle, n)
		}
	}
	c.w.mu.Unlock()
	if len(idle) > 0 {
		name := idle[r.rnd.Intn(len(idle))]
		if len(sids) < r.maxStr {
			add("AddStream", 3, func() *finding {
				p := r.peers[r.rnd.Intn(len(r.peers))]
				tags := r.subset(r.tags, 0)
				qs := 1 + r.rnd.Intn(3)
				kind := []string{"healthy", "slow", "blocked", "failing"}[r.rnd.Intn(4)]
				sid, fd := c.addStream(p, tags, qs, kind)
				if fd != nil {
					return fd
				}
				if fd := r.quiesce(); fd != nil {
					return fd
				}
				r.emit(map[string]any{"a": "AddStream", "c": name, "sid": sid, "peer": p, "tags": tags, "qsize": qs, "kind": kind})
				return nil
			})
		}
		if r.nmsg < r.maxMsg {
			add("SendById", 4, func() *finding { return r.startCall(name, "SendById", r.subset(r.peers, 1)) })
			add("Broadcast", 4, func() *finding { return r.startCall(name, "Broadcast", r.subset(r.tags, 1)) })
			add("Send", 3, func() *finding {
				r.nmsg++
				msg := r.nmsg
				peers := r.subset(r.peers, 1)
				res, fd := c.send(name, msg, peers)
				if fd != nil {
					return fd
				}
				if res != "ok" && res != "overflow" {
					return violation("api-error-Send", "Send returned %s", res)
				}
				if res == "ok" {
					r.tasks[msg] = true
				}
				if fd := r.quiesce(); fd != nil {
					return fd
				}
				r.emit(map[string]any{"a": "Send", "c": name, "msg": msg, "peers": peers, "res": res})
				return nil
			})
		}
		if len(sids) > 0 {
			sid := sids[r.rnd.Intn(len(sids))]
			add("AddTags", 2, func() *finding {
				tags := r.subset(r.tags, 1)
				var err error
				if fd := c.guard("AddTagsCtx", func() { err = c.pool.AddTagsCtx(c.ctxOf(sid), append([]string{}, tags...)...) }); fd != nil {
					return fd
				}
				ret := "ok"
				if err != nil {
					ret = "notFound"
				}
				r.emit(map[string]any{"a": "AddTags", "c": name, "sid": sid, "tags": tags, "ret": ret})
				return nil
			})
			add("RemoveTags", 2, func() *finding {
				tags := r.subset(r.tags, 1)
				byId := r.rnd.Intn(2) == 0
				var err error
				if fd := c.guard("RemoveTags", func() {
					if byId {
						err = c.pool.RemoveTagsById(sid, append([]string{}, tags...)...)
					} else {
						err = c.pool.RemoveTagsCtx(c.ctxOf(sid), append([]string{}, tags...)...)
					}
				}); fd != nil {
					return fd
				}
				ret := "ok"
				if err != nil {
					ret = "notFound"
				}
				r.emit(map[string]any{"a": "RemoveTags", "c": name, "sid": sid, "tags": tags, "byId": byId, "ret": ret})
				return nil
			})
		}
	}
	// running calls at a write gate
	c.w.mu.Lock()
	var atGate []*callState
	for _, n := range r.callers {
		if k := c.calls[n]; k != nil && !k.done && k.op != "Send" && c.wgate(k.msg).g.held() {
			atGate = append(atGate, k)
		}
	}
	var wmsgs []int
	for m := range c.sendCalls {
		if c.wgate(m).g.held() {
			wmsgs = append(wmsgs, m)
		}
	}
	var getters []int
	for m := range r.tasks {
		if g := c.getGates[m]; g != nil && g.held() {
			getters = append(getters, m)
		}
	}
	var opens []string
	for p, g := range c.h.openGate {
		if g.held() {
			opens = append(opens, p)
		}
	}
	c.w.mu.Unlock()
	sort.Ints(wmsgs)
	sort.Ints(getters)
	sort.Strings(opens)
	for _, k := range atGate {
		k := k
		add("CallWrite", 6, func() *finding { return r.doWrite("CallWrite", k.name, k, k.msg) })
	}
	for _, m := range wmsgs {
		m := m
		add("WorkerWrite", 6, func() *finding { return r.doWrite("WorkerWrite", "", nil, m) })
	}
	for _, m := range getters {
		m := m
		add("WorkerGetStreams", 5, func() *finding {
			c.w.mu.Lock()
			g := c.getGates[m]
			c.w.mu.Unlock()
			delete(r.tasks, m)
			g.release(nil)
			if fd := r.quiesce(); fd != nil {
				return fd
			}
			r.emit(map[string]any{"a": "WorkerGetStreams", "msg": m})
			return nil
		})
	}
	for _, p := range opens {
		p := p
		if len(sids) < r.maxStr {
			add("OpenOk", 4, func() *finding {
				tags := r.subset(r.tags, 0)
				qs := 1 + r.rnd.Intn(3)
				kind := []string{"healthy", "slow", "blocked", "failing"}[r.rnd.Intn(4)]
				f := newFakeStream(c.w, p, kind)
				c.h.gateFor(p).release(openResult{st: f, tags: append([]string{}, tags...), qsize: qs})
				if fd := c.await("stream of the dial to be added", func() bool {
					sid := c.byStream[f]
					return sid != 0 && c.h.ctxBySid[sid] != nil
				}); fd != nil {
					return fd
				}
				if fd := r.quiesce(); fd != nil {
					return fd
				}
				r.emit(map[string]any{"a": "OpenOk", "sid": f.sid, "peer": p, "tags": tags, "qsize": qs, "kind": kind})
				return nil
			})
		}
		add("OpenFail", 2, func() *finding {
			c.h.gateFor(p).release(openResult{err: errFake})
			if fd := r.quiesce(); fd != nil {
				return fd
			}
			r.emit(map[string]any{"a": "OpenFail", "peer": p})
			return nil
		})
	}
	// streams
	for _, sid := range sids {
		sid := sid
		f := c.fake(sid)
		c.w.mu.Lock()
		sending := f.sendGate.entered > f.sendReturned && f.sendGate.entered > 0
		inflight := -1
		if sending {
			inflight = f.sendEntered[len(f.sendEntered)-1]
		}
		cb := c.cbGates[sid]
		stage := 0
		switch {
		case cb != nil && cb.held():
			stage = 1
		case f.closeGate1.held():
			stage = 2
		case f.closeGate2.held():
			stage = 3
		case c.hookGates[sid] != nil && c.hookGates[sid].held():
			stage = 4
		}
		c.w.mu.Unlock()
		kind := f.kind
		if sending && !r.sclosed[sid] {
			if kind != "blocked" {
				w := 5
				if kind == "slow" {
					w = 1
				}
				add("WriterDone", w, func() *finding {
					if fd := c.finishSend(f, nil); fd != nil {
						return fd
					}
					if fd := r.quiesce(); fd != nil {
						return fd
					}
					r.emit(map[string]any{"a": "WriterDone", "sid": sid, "msg": inflight})
					return nil
				})
			}
			if kind == "failing" {
				add("WriterFail", 2, func() *finding {
					c.w.mu.Lock()
					closer := c.cbGates[sid] == nil
					c.w.mu.Unlock()
					if fd := c.finishSend(f, errFake); fd != nil {
						return fd
					}
					if fd := r.quiesce(); fd != nil {
						return fd
					}
					r.wexit[sid] = true
					r.emit(map[string]any{"a": "WriterFail", "sid": sid, "closer": closer})
					return nil
				})
			}
		}
		if !r.rfailed[sid] && !r.sclosed[sid] && (kind == "failing" || kind == "blocked") {
			add("ReaderFail", 1, func() *finding {
				c.w.mu.Lock()
				closer := c.cbGates[sid] == nil
				c.w.mu.Unlock()
				if fd := c.failReader(f); fd != nil {
					return fd
				}
				if fd := r.quiesce(); fd != nil {
					return fd
				}
				r.rfailed[sid] = true
				r.emit(map[string]any{"a": "ReaderFail", "sid": sid, "closer": closer})
				return nil
			})
		}
		switch stage {
		case 1:
			add("QueueClose", 5, func() *finding {
				r.qclosed[sid] = true
				if fd := c.queueClose(sid); fd != nil {
					return fd
				}
				if fd := r.quiesce(); fd != nil {
					return fd
				}
				r.emit(map[string]any{"a": "QueueClose", "sid": sid})
				return nil
			})
		case 2:
			add("StreamClose", 5, func() *finding {
				r.sclosed[sid] = true
				c.w.mu.Lock()
				wasSending := f.sendGate.entered > f.sendReturned
				c.w.mu.Unlock()
				if fd := c.streamClose(sid); fd != nil {
					return fd
				}
				if fd := r.quiesce(); fd != nil {
					return fd
				}
				r.emit(map[string]any{"a": "StreamClose", "sid": sid})
				// the closed stream fails the held MsgSend and MsgRecv: the spec's WriterFail / ReaderFail
				if wasSending {
					r.wexit[sid] = true
					r.emit(map[string]any{"a": "WriterFail", "sid": sid, "closer": false})
				}
				if !r.rfailed[sid] {
					r.rfailed[sid] = true
					r.emit(map[string]any{"a": "ReaderFail", "sid": sid, "closer": false})
				}
				return nil
			})
		case 3:
			add("RemoveStream", 5, func() *finding {
				if fd := c.removeStream(sid); fd != nil {
					return fd
				}
				if fd := r.quiesce(); fd != nil {
					return fd
				}
				c.w.mu.Lock()
				tags := c.removedTags[sid]
				c.w.mu.Unlock()
				r.emit(map[string]any{"a": "RemoveStream", "sid": sid, "tags": tags})
				return nil
			})
		case 4:
			add("CloseHook", 5, func() *finding {
				if fd := c.closeHookRelease(sid); fd != nil {
					return fd
				}
				c.w.mu.Lock()
				n, tags, p, rt := c.hookCalls[sid], c.hookArgs[sid], c.hookPeer[sid], c.removedTags[sid]
				c.w.mu.Unlock()
				if n != 1 {
					return violation("close-hook-count", "close hook of stream %d was called %d times", sid, n)
				}
				if !sameStrings(tags, rt) || p != f.peer {
					return violation("close-hook-args", "close hook of stream %d got peer %s tags %v, the stream had peer %s tags %v when it was removed", sid, p, tags, f.peer, rt)
				}
				if fd := r.quiesce(); fd != nil {
					return fd
				}
				r.emit(map[string]any{"a": "CloseHook", "sid": sid, "peer": p, "tags": tags})
				return nil
			})
		}
	}
	return cs
}

// finishCalls lets every running SendById / Broadcast complete (all writers still held).
func (r *recorder) finishCalls() *finding {
	c := r.c
	for _, n := range r.callers {
		c.w.mu.Lock()
		cs := c.calls[n]
		c.w.mu.Unlock()
		if cs == nil || cs.op == "Send" {
			continue
		}
		for k := 0; k < 64; k++ {
			c.w.mu.Lock()
			done := cs.done
			c.w.mu.Unlock()
			if done {
				break
			}
			before := func() int { c.w.mu.Lock(); defer c.w.mu.Unlock(); return len(c.wgate(cs.msg).arrivals) }()
			o, fd := c.releaseWrite(cs.msg, cs.gid, cs.op)
			if fd != nil {
				return fd
			}
			if fd := c.judgeWrite(o, cs.msg, r.qclosed[o.sid]); fd != nil {
				return fd
			}
			if _, _, fd := c.awaitCall(cs, before); fd != nil {
				return fd
			}
		}
	}
	return nil
}

func (r *recorder) oracles() *finding {
	c := r.c
	for _, fd := range c.takeAsync() {
		return fd
	}
	vs := c.snapshot()
	for _, fd := range c.takeAsync() {
		return fd
	}
	if fd := c.checkState(vs); fd != nil {
		return fd
	}
	if fd := c.checkFifo(); fd != nil {
		return fd
	}
	return c.checkStreamsAPI(vs, r.tags)
}

// recordRun drives one pool for n commands.
func recordRun(rnd *rand.Rand, tw *vfutil.TraceWriter, n int, acts map[string]int) (fd *finding, log []string) {
	takeFatals()
	c := newCtl(poolCfg{DialWorkers: 1, DialQSize: 2})
	defer func() {
		c.shutdown()
		if fd == nil {
			fd = fatalFinding()
		}
	}()
	r := &recorder{c: c, rnd: rnd, tw: tw, peers: []string{"p1", "p2", "p3"}, tags: []string{"a", "b", "c"},
		maxMsg: 50, maxStr: 6, qclosed: map[uint32]bool{}, sclosed: map[uint32]bool{}, rfailed: map[uint32]bool{},
		wexit: map[uint32]bool{}, tasks: map[int]bool{}, callers: []string{"c1", "c2", "c3"}, acts: acts}
	if fd := r.quiesce(); fd != nil {
		return fd, log
	}
	r.emit(map[string]any{"a": "Reset"})
	for i := 0; i < n; i++ {
		cs := r.commands()
		if len(cs) == 0 {
			break
		}
		k := cs[rnd.Intn(len(cs))]
		log = append(log, k.name)
		if fd := k.run(); fd != nil {
			return fd, log
		}
		if fd := r.oracles(); fd != nil {
			return fd, log
		}
	}
	r.emit(map[string]any{"a": "End"})
	// every running call completes while the writers are held; what healthy streams accepted is delivered
	if fd := r.finishCalls(); fd != nil {
		return fd, log
	}
	if fd := c.drainHealthy(); fd != nil {
		return fd, log
	}
	// a stream whose read or write loop ended leaves the pool with every index entry and tag
	for _, sid := range c.ended() {
		if fd := c.completeClose(sid); fd != nil {
			return fd, log
		}
	}
	if fd := r.oracles(); fd != nil {
		return fd, log
	}
	return nil, log
}

func TestRecord(t *testing.T) {
	rep := vfutil.NewReport("C19")
	defer func() { rep.Save(!t.Failed() || rep.NumViolations() > 0) }()
	path := os.Getenv("VERIF_TRACE_OUT")
	if path == "" {
		path = filepath.Join(t.TempDir(), "trace.ndjson")
	}
	tw := vfutil.NewTraceWriter(path)
	defer tw.Close()
	runs := vfutil.EnvInt("VERIF_RUNS", 20)
	length := vfutil.EnvInt("VERIF_RUN_LEN", 80)
	seed := vfutil.Seed()
	acts := map[string]int{}
	for i := 0; i < runs; i++ {
		rs := seed*1000003 + int64(i)
		if v := vfutil.EnvInt("VERIF_REPLAY_SEED", 0); v != 0 {
			rs = int64(v)
		}
		rnd := rand.New(rand.NewSource(rs))
		fd, log := recordRun(rnd, tw, length, acts)
		rep.Case(fmt.Sprintf("%v", log))
		rep.AddReplayed(1)
		if rep.NumViolations() >= 1 {
			break
		}
		rep.AddSteps(len(log))
		if fd != nil {
			replay := map[string]any{"kind": "record", "runSeed": rs, "len": length, "commands": log}
			switch fd.Kind {
			case "violation":
				rep.Violate(fd.Key, fmt.Sprintf("%s (random gated run seed %d after %d commands)", fd.Desc, rs, len(log)), replay)
			case "drift":
				rep.DriftNote("record run %d: %s", rs, fd.Desc)
			default:
				t.Fatalf("harness broken in record run %d after %v: %s", rs, log, fd.Desc)
			}
		}
	}
	rep.SetExtra("trace_events", tw.Len())
	rep.SetExtra("recorded_actions", acts)
	_ = sp.CName
}
