// Package streampool binds spec/streampool/StreamPool.tla to the real net/streampool (property C19).
//
// The pool under test is a real streampool.NewStreamPool; everything around it is owned by the
// harness and commandable: fake drpc.Streams whose MsgSend / MsgRecv / Close block at gates, a
// stream handler whose OpenStream blocks at a gate, a peer getter that blocks at a gate and a close
// hook that blocks at a gate. Together with the `verif` hooks of the package ("writeBegin" and
// "closeBegin" are gates, the other events report what happened under the lock) this lets the
// harness execute exactly one specification action per step.
package streampool

import (
	"context"
	"errors"
	"fmt"
	"runtime"
	"sync"
	"time"

	"go.uber.org/zap"
	"go.uber.org/zap/zapcore"
	"storj.io/drpc"

	"github.com/anyproto/any-sync/app"
	"github.com/anyproto/any-sync/app/logger"
	"github.com/anyproto/any-sync/net/peer"
	sp "github.com/anyproto/any-sync/net/streampool"
	"github.com/anyproto/any-sync/net/streampool/streamhandler"
)

var watchdog = 20 * time.Second

// fatalCore replaces the log output of the repository: everything below Fatal is dropped; log.Fatal
// (the pool's reaction to an index entry that is missing where it must exist) is recorded and ends the
// calling goroutine instead of the test process, so that it can be reported as a violation.
type fatalCore struct{}

var fatalMu sync.Mutex
var fatalLogs []string

func (fatalCore) Enabled(l zapcore.Level) bool         { return l >= zapcore.ErrorLevel }
func (c fatalCore) With([]zapcore.Field) zapcore.Core { return c }
func (c fatalCore) Check(e zapcore.Entry, ce *zapcore.CheckedEntry) *zapcore.CheckedEntry {
	if c.Enabled(e.Level) {
		return ce.AddCore(e, c)
	}
	return ce
}
func (fatalCore) Write(e zapcore.Entry, fs []zapcore.Field) error {
	if e.Level >= zapcore.FatalLevel {
		fatalMu.Lock()
		fatalLogs = append(fatalLogs, e.Message)
		fatalMu.Unlock()
		runtime.Goexit()
	}
	return nil
}
func (fatalCore) Sync() error { return nil }

func takeFatals() []string {
	fatalMu.Lock()
	defer fatalMu.Unlock()
	r := fatalLogs
	fatalLogs = nil
	return r
}

func init() {
	logger.SetDefault(zap.New(fatalCore{}))
	logger.SetNamedLevels([]logger.NamedLevel{{Name: "*", Level: "ERROR"}})
}

// hmsg is the message type sent through the pool.
type hmsg struct{ id int }

func (m *hmsg) VerifKey() string { return fmt.Sprintf("m%d", m.id) }

var errFake = errors.New("fake stream failure")
var errFakeClosed = errors.New("fake stream closed")

// world is the shared, condition-variable protected view of everything the harness observed.
type world struct {
	mu   sync.Mutex
	cond *sync.Cond
	dead bool // set after a watchdog fired: every gate opens so that goroutines can drain
}

func newWorld() *world {
	w := &world{}
	w.cond = sync.NewCond(&w.mu)
	return w
}

// await waits until cond() holds (evaluated under w.mu). It returns false if the watchdog fired.
func (w *world) await(cond func() bool) bool {
	deadline := time.Now().Add(watchdog)
	w.mu.Lock()
	defer w.mu.Unlock()
	for !cond() {
		if time.Now().After(deadline) {
			return false
		}
		t := time.AfterFunc(100*time.Millisecond, func() { w.mu.Lock(); w.cond.Broadcast(); w.mu.Unlock() })
		w.cond.Wait()
		t.Stop()
	}
	return true
}

// update runs f under the lock and wakes every waiter.
func (w *world) update(f func()) {
	w.mu.Lock()
	f()
	w.cond.Broadcast()
	w.mu.Unlock()
}

// gate: a goroutine of the code under test announces itself and blocks until released.
type gate struct {
	w        *world
	entered  int    // number of goroutines that arrived
	released int    // number of releases granted
	passed   int    // number of goroutines that went through
	val      []any  // value handed over with each release
	label    string // for reports
}

func (g *gate) enter() any {
	g.w.mu.Lock()
	my := g.arriveLocked()
	return g.waitLocked(my)
}

// arriveLocked registers the calling goroutine at the gate (w.mu held).
func (g *gate) arriveLocked() int {
	g.entered++
	g.w.cond.Broadcast()
	return g.entered
}

// waitLocked blocks until the my-th arrival is released (w.mu held on entry, released on return).
func (g *gate) waitLocked(my int) any {
	w := g.w
	for g.released < my && !w.dead {
		w.cond.Wait()
	}
	var v any
	if my <= len(g.val) {
		v = g.val[my-1]
	}
	g.passed++
	w.cond.Broadcast()
	w.mu.Unlock()
	return v
}

// release lets the next goroutine through (call with w.mu NOT held).
func (g *gate) release(v any) {
	g.w.update(func() { g.released++; g.val = append(g.val, v) })
}

// held reports (under w.mu) whether a goroutine waits at the gate.
func (g *gate) held() bool { return g.entered > g.released }

// ------------------------------------------------------------------ fake stream

type fakeStream struct {
	w    *world
	ctx  context.Context
	peer string
	kind string
	sid  uint32 // pool stream id, set when the addStream event arrives
	tagsAtCreate []string
	qcap int

	// MsgSend
	sendGate      gate
	sendEntered   []int // message ids in the order MsgSend was entered
	sendReturned  int   // number of MsgSend calls that returned
	sendOK        []int // message ids whose MsgSend returned nil
	inSend        int   // goroutines currently inside MsgSend (must never exceed 1)
	maxInSend     int
	// MsgRecv
	recvCalls    int
	recvGate     gate
	recvReturned bool // a MsgRecv returned an error (the read loop ends)
	// Close
	closeGate1  gate // entered: queue already closed; release = StreamClose
	closeGate2  gate // release = RemoveStream may proceed
	closed      bool
	closeCalls  int
	closeSendN  int

	// free-running mode (stress test): no gates, the stream behaves according to its kind
	auto      bool
	failAfter int // failing: the failAfter-th MsgSend returns an error (0 = the reader fails instead)
	slowTick  *int64
}

func newFakeStream(w *world, peerId, kind string) *fakeStream {
	f := &fakeStream{w: w, peer: peerId, kind: kind}
	f.ctx = peer.CtxWithPeerId(context.Background(), peerId)
	for _, g := range []*gate{&f.sendGate, &f.recvGate, &f.closeGate1, &f.closeGate2} {
		g.w = w
	}
	return f
}

func (f *fakeStream) Context() context.Context { return f.ctx }

func (f *fakeStream) isClosed() bool {
	f.w.mu.Lock()
	defer f.w.mu.Unlock()
	return f.closed || f.closeCalls > 0
}

// MsgSend blocks until the harness decides the outcome; a closed stream fails every send.
func (f *fakeStream) MsgSend(msg drpc.Message, enc drpc.Encoding) error {
	id := -1
	if m, ok := msg.(*hmsg); ok {
		id = m.id
	}
	w := f.w
	w.mu.Lock()
	f.sendEntered = append(f.sendEntered, id)
	f.inSend++
	if f.inSend > f.maxInSend {
		f.maxInSend = f.inSend
	}
	my := len(f.sendEntered)
	f.sendGate.entered = my
	w.cond.Broadcast()
	if f.auto {
		start := int64(0)
		if f.slowTick != nil {
			start = *f.slowTick
		}
		for !f.closed && !w.dead {
			if f.kind == "healthy" || (f.kind == "failing") || (f.kind == "slow" && *f.slowTick >= start+3) {
				break
			}
			w.cond.Wait()
		}
		if f.sendGate.released < my {
			f.sendGate.released = my
			for len(f.sendGate.val) < my {
				f.sendGate.val = append(f.sendGate.val, nil)
			}
			if f.kind == "failing" && f.failAfter > 0 && my >= f.failAfter {
				f.sendGate.val[my-1] = errFake
			}
		}
	}
	for f.sendGate.released < my && !f.closed && !w.dead {
		w.cond.Wait()
	}
	var err error
	if f.closed || w.dead {
		err = errFakeClosed
		if f.sendGate.released < my { // keep the gate counters aligned
			f.sendGate.released = my
		}
	} else if v := f.sendGate.val[my-1]; v != nil {
		err = v.(error)
	}
	if err == nil {
		f.sendOK = append(f.sendOK, id)
	}
	f.inSend--
	f.sendReturned++
	w.cond.Broadcast()
	w.mu.Unlock()
	return err
}

// MsgRecv: the first call delivers a hello message at once (so that the handler sees the stream's
// context), later calls block until the harness fails the reader or the stream is closed.
func (f *fakeStream) MsgRecv(msg drpc.Message, enc drpc.Encoding) error {
	w := f.w
	w.mu.Lock()
	f.recvCalls++
	first := f.recvCalls == 1
	if first {
		w.cond.Broadcast()
		w.mu.Unlock()
		return nil
	}
	w.cond.Broadcast()
	for f.recvGate.released == 0 && !f.closed && !w.dead {
		if f.auto && f.kind == "failing" && f.failAfter == 0 && f.slowTick != nil && *f.slowTick >= 5 {
			break
		}
		w.cond.Wait()
	}
	f.recvReturned = true
	w.cond.Broadcast()
	w.mu.Unlock()
	return errFake
}

func (f *fakeStream) CloseSend() error {
	f.w.update(func() { f.closeSendN++ })
	return nil
}

// Close: gate 1 (the stream is about to be closed), then the stream counts as closed and every
// held MsgSend / MsgRecv fails, then gate 2 (Close returns, removeStream follows).
func (f *fakeStream) Close() error {
	f.w.update(func() { f.closeCalls++ })
	if !f.auto {
		f.closeGate1.enter()
	}
	f.w.update(func() { f.closed = true })
	if !f.auto {
		f.closeGate2.enter()
	}
	return nil
}

// ------------------------------------------------------------------ fake peer

type fakePeer struct {
	peer.Peer // nil: only Id and Context are used by the pool
	id        string
}

func (p *fakePeer) Id() string               { return p.id }
func (p *fakePeer) Context() context.Context { return context.Background() }

// ------------------------------------------------------------------ handler

type openResult struct {
	st    *fakeStream
	tags  []string
	qsize int
	err   error
}

type handler struct {
	w        *world
	ctxBySid map[uint32]context.Context
	handled  int
	openGate map[string]*gate // per peer
	autoOpen func(peerId string) openResult // free-running mode
}

func newHandler(w *world) *handler {
	return &handler{w: w, ctxBySid: map[uint32]context.Context{}, openGate: map[string]*gate{}}
}

func (h *handler) Init(a *app.App) error { return nil }
func (h *handler) Name() string          { return streamhandler.CName }

func (h *handler) gateFor(peerId string) *gate {
	h.w.mu.Lock()
	defer h.w.mu.Unlock()
	g := h.openGate[peerId]
	if g == nil {
		g = &gate{w: h.w, label: "OpenStream " + peerId}
		h.openGate[peerId] = g
	}
	return g
}

func (h *handler) OpenStream(ctx context.Context, p peer.Peer) (drpc.Stream, []string, int, error) {
	if h.autoOpen != nil {
		r := h.autoOpen(p.Id())
		if r.err != nil {
			return nil, nil, 0, r.err
		}
		return r.st, r.tags, r.qsize, nil
	}
	v := h.gateFor(p.Id()).enter()
	r, ok := v.(openResult)
	if !ok {
		return nil, nil, 0, errors.New("dial aborted")
	}
	if r.err != nil {
		return nil, nil, 0, r.err
	}
	return r.st, r.tags, r.qsize, nil
}

func (h *handler) HandleMessage(ctx context.Context, peerId string, msg drpc.Message) error {
	sid, ok := sp.CtxStreamId(ctx)
	h.w.update(func() {
		h.handled++
		if ok {
			h.ctxBySid[sid] = ctx
		}
	})
	return nil
}

func (h *handler) NewReadMessage() drpc.Message { return &hmsg{} }
