package streampool

import (
	"context"
	"encoding/json"
	"fmt"
	"hash/fnv"
	"os"
	"reflect"
	"sort"
	"strings"
	"testing"

	sp "github.com/anyproto/any-sync/net/streampool"

	"verifharness/vfutil"
)

// ---- behaviour emitted by StreamPoolGen.tla

type action struct {
	A      string   `json:"a"`
	C      string   `json:"c"`
	W      string   `json:"w"`
	Sid    uint32   `json:"sid"`
	Peer   string   `json:"peer"`
	Peers  []string `json:"peers"`
	Tags   []string `json:"tags"`
	Tg     []uint32 `json:"tg"`
	QSize  int      `json:"qsize"`
	Kind   string   `json:"kind"`
	Msg    int      `json:"msg"`
	Res    string   `json:"res"`
	Ret    string   `json:"ret"`
	ById   bool     `json:"byId"`
	Closer bool     `json:"closer"`
	Exit   bool     `json:"exit"`
	Fin    bool     `json:"fin"`
	Open   string   `json:"open"`
	Ok     bool     `json:"ok"`
	Worker string   `json:"worker"`
}

type mstream struct {
	Live bool     `json:"live"`
	Peer string   `json:"peer"`
	Tags []string `json:"tags"`
	QLen int      `json:"qlen"`
	QCap int      `json:"qcap"`
	W    string   `json:"w"`
	Infl int      `json:"infl"`
	Cl   string   `json:"cl"`
	Kind string   `json:"kind"`
	R    string   `json:"r"`
	Acc  []int    `json:"acc"`
	NSnt int      `json:"nsnt"`
	Dlv  []int    `json:"dlv"`
}

type mstate struct {
	ByPeer  map[string][]uint32 `json:"byPeer"`
	ByTag   map[string][]uint32 `json:"byTag"`
	Nst     int                 `json:"nst"`
	Streams []mstream           `json:"streams"`
}

type step struct {
	Act action `json:"act"`
	St  mstate `json:"st"`
}

type behaviour struct {
	Cfg struct {
		DialWorkers int `json:"dialWorkers"`
		DialQSize   int `json:"dialQSize"`
	} `json:"cfg"`
	Steps []step `json:"steps"`
	Name  string `json:"name,omitempty"`
}

// runner replays one behaviour.
type runner struct {
	c       *ctl
	b       *behaviour
	qclosed map[uint32]bool // the harness let queue.Close of the stream happen
	sclosed map[uint32]bool
	kinds   map[uint32]string
	tasks   map[string]int // worker -> message of the task it runs
	arr     map[int]int    // dial task (message) -> write-gate arrivals already served
	allTags map[string]bool
}

func (r *runner) callOf(name string) *callState {
	r.c.w.mu.Lock()
	defer r.c.w.mu.Unlock()
	return r.c.calls[name]
}

func (r *runner) arrivals(msg int) int {
	r.c.w.mu.Lock()
	defer r.c.w.mu.Unlock()
	return len(r.c.wgate(msg).arrivals)
}

// afterCallStep: the call must now stand at the gate of `next` or have returned with `ret`.
func (r *runner) afterCallStep(cs *callState, before int, ret string, next uint32) *finding {
	atGate, sid, fd := r.c.awaitCall(cs, before)
	if fd != nil {
		return fd
	}
	switch ret {
	case "pending":
		if !atGate {
			return drift("%s m%d returned (%v), the model expects a write to stream %d", cs.op, cs.msg, cs.err, next)
		}
		if sid != next {
			return drift("%s m%d writes to stream %d, the model expects %d", cs.op, cs.msg, sid, next)
		}
	case "ok":
		if atGate {
			return drift("%s m%d writes to stream %d, the model expects it to return", cs.op, cs.msg, sid)
		}
		if cs.err != nil {
			return drift("%s m%d returned %v, the model expects nil", cs.op, cs.msg, cs.err)
		}
	case "unableToConnect":
		if atGate {
			return drift("%s m%d writes to stream %d, the model expects ErrUnableToConnect", cs.op, cs.msg, sid)
		}
		if cs.err != errUnable {
			return drift("%s m%d returned %v, the model expects ErrUnableToConnect", cs.op, cs.msg, cs.err)
		}
	}
	return nil
}

func nextTarget(tg []uint32, i int) uint32 {
	if i < len(tg) {
		return tg[i]
	}
	return 0
}

func (r *runner) exec(i int) *finding {
	a := r.b.Steps[i].Act
	c := r.c
	switch a.A {
	case "Pad", "WriterWait", "WorkerWait", "OpenEnd":
		return nil
	case "AddStream":
		sid, fd := c.addStream(a.Peer, a.Tags, a.QSize, a.Kind)
		if fd != nil {
			return fd
		}
		r.kinds[sid] = a.Kind
		if sid != a.Sid {
			return drift("AddStream created stream %d, the model expects %d", sid, a.Sid)
		}
	case "SendById":
		before := r.arrivals(a.Msg)
		peers := a.Peers
		cs := c.startCall(a.C, "SendById", a.Msg, func() error {
			return c.pool.SendById(context.Background(), &hmsg{id: a.Msg}, peers...)
		})
		return r.afterCallStep(cs, before, a.Ret, nextTarget(a.Tg, 0))
	case "Broadcast":
		before := r.arrivals(a.Msg)
		tags := a.Tags
		cs := c.startCall(a.C, "Broadcast", a.Msg, func() error {
			return c.pool.Broadcast(context.Background(), &hmsg{id: a.Msg}, tags...)
		})
		return r.afterCallStep(cs, before, a.Ret, nextTarget(a.Tg, 0))
	case "CallWrite":
		cs := r.callOf(a.C)
		if cs == nil || cs.msg != a.Msg {
			return drift("caller %s has no running call for m%d", a.C, a.Msg)
		}
		before := r.arrivals(a.Msg)
		o, fd := c.releaseWrite(a.Msg, cs.gid, cs.op)
		if fd != nil {
			return fd
		}
		if fd := c.judgeWrite(o, a.Msg, r.qclosed[o.sid]); fd != nil {
			return fd
		}
		if o.sid != a.Sid || o.res != a.Res {
			return drift("write of m%d: stream %d result %s, the model expects stream %d result %s", a.Msg, o.sid, o.res, a.Sid, a.Res)
		}
		// next target: unknown from this step alone, the model's next CallWrite names it; only check return / pending
		atGate, sid, fd := c.awaitCall(cs, before)
		if fd != nil {
			return fd
		}
		if (a.Ret == "ok") == atGate {
			return drift("%s m%d: at gate=%v (stream %d), the model expects ret=%s", cs.op, a.Msg, atGate, sid, a.Ret)
		}
		if !atGate && cs.err != nil {
			return drift("%s m%d returned %v", cs.op, a.Msg, cs.err)
		}
	case "AddTags":
		var err error
		if fd := c.guard("AddTagsCtx", func() { err = c.pool.AddTagsCtx(c.ctxOf(a.Sid), append([]string{}, a.Tags...)...) }); fd != nil {
			return fd
		}
		if (err == nil) != (a.Ret == "ok") {
			return drift("AddTagsCtx(stream %d, %v) returned %v, the model expects %s", a.Sid, a.Tags, err, a.Ret)
		}
	case "RemoveTags":
		var err error
		if fd := c.guard("RemoveTags", func() {
			if a.ById {
				err = c.pool.RemoveTagsById(a.Sid, append([]string{}, a.Tags...)...)
			} else {
				err = c.pool.RemoveTagsCtx(c.ctxOf(a.Sid), append([]string{}, a.Tags...)...)
			}
		}); fd != nil {
			return fd
		}
		if (err == nil) != (a.Ret == "ok") {
			return drift("RemoveTags(stream %d, %v, byId=%v) returned %v, the model expects %s", a.Sid, a.Tags, a.ById, err, a.Ret)
		}
	case "WriterTake":
		// observed by the quiescence check (MsgSend entered with the message)
		return nil
	case "WriterDone":
		f := c.fake(a.Sid)
		return c.finishSend(f, nil)
	case "WriterFail":
		f := c.fake(a.Sid)
		if fd := c.finishSend(f, errFake); fd != nil {
			return fd
		}
		if a.Closer {
			return c.awaitCloseBegin(a.Sid)
		}
	case "ReaderFail":
		f := c.fake(a.Sid)
		if fd := c.failReader(f); fd != nil {
			return fd
		}
		if a.Closer {
			return c.awaitCloseBegin(a.Sid)
		}
	case "QueueClose":
		r.qclosed[a.Sid] = true
		return c.queueClose(a.Sid)
	case "StreamClose":
		r.sclosed[a.Sid] = true
		return c.streamClose(a.Sid)
	case "RemoveStream":
		if fd := c.removeStream(a.Sid); fd != nil {
			return fd
		}
		c.w.mu.Lock()
		got := c.removedTags[a.Sid]
		c.w.mu.Unlock()
		if !sameStrings(got, a.Tags) {
			return drift("removeStream(%d) saw tags %v, the model expects %v", a.Sid, got, a.Tags)
		}
	case "CloseHook":
		if fd := c.closeHookRelease(a.Sid); fd != nil {
			return fd
		}
		c.w.mu.Lock()
		n, tags, p, rt := c.hookCalls[a.Sid], c.hookArgs[a.Sid], c.hookPeer[a.Sid], c.removedTags[a.Sid]
		c.w.mu.Unlock()
		if n != 1 {
			return violation("close-hook-count", "close hook of stream %d was called %d times", a.Sid, n)
		}
		if !sameStrings(tags, rt) || p != a.Peer {
			return violation("close-hook-args", "close hook of stream %d got peer %s tags %v, the stream had peer %s tags %v when it was removed", a.Sid, p, tags, a.Peer, rt)
		}
	case "Send":
		res, fd := c.send(a.C, a.Msg, a.Peers)
		if fd != nil {
			return fd
		}
		if res != a.Res {
			return drift("Send m%d returned %s, the model expects %s", a.Msg, res, a.Res)
		}
		if a.Worker != "" && a.Worker != "none" {
			r.tasks[a.Worker] = a.Msg
			return r.awaitGetter(a.Msg)
		}
	case "WorkerTake":
		r.tasks[a.W] = a.Msg
		return r.awaitGetter(a.Msg)
	case "WorkerGetStreams":
		msg := r.tasks[a.W]
		c.w.mu.Lock()
		g := c.getGates[msg]
		first := g != nil && g.held()
		c.w.mu.Unlock()
		if first {
			g.release(nil)
		}
		switch {
		case len(a.Tg) > 0:
			// the worker may already stand at the gate (it went on by itself after its previous write)
			before := r.arr[msg]
			gw := func() *writeGate { c.w.mu.Lock(); defer c.w.mu.Unlock(); return c.wgate(msg) }()
			if fd := c.await("dial worker to reach stream.write", func() bool { return len(gw.arrivals) > before }); fd != nil {
				return fd
			}
			c.w.mu.Lock()
			sid := gw.arrivals[before]
			c.w.mu.Unlock()
			if sid != a.Tg[0] {
				return drift("dial task m%d writes to stream %d, the model expects %d", msg, sid, a.Tg[0])
			}
		case a.Open == "start":
			g := c.h.gateFor(a.Peer)
			return c.await("OpenStream("+a.Peer+")", func() bool { return g.held() })
		}
	case "OpenOk":
		f := newFakeStream(c.w, a.Peer, a.Kind)
		f.tagsAtCreate = a.Tags
		c.h.gateFor(a.Peer).release(openResult{st: f, tags: append([]string{}, a.Tags...), qsize: a.QSize})
		if fd := c.await("stream of the dial to be added", func() bool {
			sid := c.byStream[f]
			return sid != 0 && c.h.ctxBySid[sid] != nil
		}); fd != nil {
			return fd
		}
		r.kinds[f.sid] = a.Kind
		if f.sid != a.Sid {
			return drift("dialled stream got id %d, the model expects %d", f.sid, a.Sid)
		}
	case "OpenFail":
		c.h.gateFor(a.Peer).release(openResult{err: errFake})
	case "WorkerWrite":
		msg := r.tasks[a.W]
		if n := r.arrivals(msg); n > r.arr[msg] {
			r.arr[msg] = n // the arrival being served now
		}
		o, fd := c.releaseWrite(msg, 0, "dial-worker")
		if fd != nil {
			return fd
		}
		if !a.Fin {
			// sendOne goes on to the next cached stream of the peer
			before := r.arr[msg]
			gw := func() *writeGate { c.w.mu.Lock(); defer c.w.mu.Unlock(); return c.wgate(msg) }()
			if fd := c.await("dial worker to reach the next stream.write", func() bool { return len(gw.arrivals) > before }); fd != nil {
				return fd
			}
		}
		if fd := c.judgeWrite(o, msg, r.qclosed[o.sid]); fd != nil {
			return fd
		}
		if o.sid != a.Sid || o.res != a.Res {
			return drift("dial write of m%d: stream %d result %s, the model expects stream %d result %s", msg, o.sid, o.res, a.Sid, a.Res)
		}
	default:
		return broken("unknown action %q", a.A)
	}
	return nil
}

func (r *runner) awaitGetter(msg int) *finding {
	c := r.c
	return c.await(fmt.Sprintf("dial task of m%d to start", msg), func() bool {
		g := c.getGates[msg]
		return g != nil && g.held()
	})
}

func sameStrings(a, b []string) bool {
	if len(a) != len(b) {
		return false
	}
	for i := range a {
		if a[i] != b[i] {
			return false
		}
	}
	return true
}

func sameIds(a, b []uint32) bool {
	if len(a) != len(b) {
		return false
	}
	for i := range a {
		if a[i] != b[i] {
			return false
		}
	}
	return true
}

// settle waits until the real pool reached the quiescent point the model state describes (every
// message the model's write loops hold has entered MsgSend), then evaluates the state oracles on the
// real pool and compares its projection with the model.
func (r *runner) settle(i int) *finding {
	c := r.c
	m := r.b.Steps[i].St
	for _, ms := range m.Streams {
		if ms.W == "idle" { // a write loop is about to re-enter WaitOne: the model's next step; not a quiescent point
			return nil
		}
	}
	for k, ms := range m.Streams {
		sid := uint32(k + 1)
		f := c.fake(sid)
		if f == nil {
			return drift("model stream %d does not exist in the pool", sid)
		}
		if ms.NSnt > 0 {
			want := -1
			if ms.W == "sending" {
				want = ms.Infl
			}
			if fd := c.awaitSendEntered(f, ms.NSnt, want); fd != nil {
				return fd
			}
		}
	}
	for _, fd := range c.takeAsync() {
		return fd
	}
	vs := c.snapshot()
	for _, fd := range c.takeAsync() {
		return fd
	}
	if fd := c.checkState(vs); fd != nil {
		return fd
	}
	if fd := c.checkFifo(); fd != nil {
		return fd
	}
	tags := make([]string, 0, len(r.allTags))
	for t := range r.allTags {
		tags = append(tags, t)
	}
	sort.Strings(tags)
	if fd := c.checkStreamsAPI(vs, tags); fd != nil {
		return fd
	}
	// conformance with the model (drift, not a violation)
	for p, ids := range m.ByPeer {
		if !sameIds(ids, vs.ByPeer[p]) {
			return drift("byPeer[%s] = %v, model %v", p, vs.ByPeer[p], ids)
		}
	}
	for t, ids := range m.ByTag {
		if !sameIds(ids, vs.ByTag[t]) {
			return drift("byTag[%s] = %v, model %v", t, vs.ByTag[t], ids)
		}
	}
	nlive := 0
	for k, ms := range m.Streams {
		sid := uint32(k + 1)
		st, ok := vs.Streams[sidKey(sid)]
		if ok != ms.Live {
			return drift("stream %d in pool=%v, model live=%v", sid, ok, ms.Live)
		}
		if !ok {
			continue
		}
		nlive++
		if !sameStrings(st.Tags, ms.Tags) || st.Peer != ms.Peer {
			return drift("stream %d has peer %s tags %v, model peer %s tags %v", sid, st.Peer, st.Tags, ms.Peer, ms.Tags)
		}
		if st.QueueLen != ms.QLen || st.QueueCap != ms.QCap {
			return drift("stream %d queue %d/%d, model %d/%d", sid, st.QueueLen, st.QueueCap, ms.QLen, ms.QCap)
		}
	}
	if nlive != len(vs.Streams) {
		return drift("pool holds %d streams, model %d", len(vs.Streams), nlive)
	}
	c.w.mu.Lock()
	defer c.w.mu.Unlock()
	for k, ms := range m.Streams {
		sid := uint32(k + 1)
		if !reflect.DeepEqual(nz(c.accepted[sid]), nz(ms.Acc)) {
			return drift("stream %d accepted %v, model %v", sid, c.accepted[sid], ms.Acc)
		}
		if f := c.fakes[sid]; f != nil && !reflect.DeepEqual(nz(f.sendOK), nz(ms.Dlv)) {
			return drift("stream %d delivered %v, model %v", sid, f.sendOK, ms.Dlv)
		}
	}
	return nil
}

func nz(a []int) []int {
	if a == nil {
		return []int{}
	}
	return a
}

// finale: whatever state the behaviour ended in, (1) every running call completes while all writers
// are still held (CallerNeverWaits), (2) with the blocked and failing streams left alone, every
// message accepted by a healthy or slow stream is written, in order (Isolation, FifoPerStream).
func (r *runner) finale() *finding {
	c := r.c
	c.w.mu.Lock()
	var pending []*callState
	for _, cs := range c.calls {
		if !cs.done && cs.op != "Send" {
			pending = append(pending, cs)
		}
	}
	c.w.mu.Unlock()
	sort.Slice(pending, func(i, j int) bool { return pending[i].name < pending[j].name })
	for _, cs := range pending {
		for n := 0; n < 64; n++ {
			c.w.mu.Lock()
			done := cs.done
			c.w.mu.Unlock()
			if done {
				break
			}
			before := r.arrivals(cs.msg)
			o, fd := c.releaseWrite(cs.msg, cs.gid, cs.op)
			if fd != nil {
				return fd
			}
			if fd := c.judgeWrite(o, cs.msg, r.qclosed[o.sid]); fd != nil {
				return fd
			}
			if _, _, fd := c.awaitCall(cs, before); fd != nil {
				return fd
			}
		}
	}
	if fd := c.drainHealthy(); fd != nil {
		return fd
	}
	// a stream that ended leaves the pool, with every index entry and tag
	for _, sid := range c.ended() {
		if fd := c.completeClose(sid); fd != nil {
			return fd
		}
	}
	for _, fd := range c.takeAsync() {
		return fd
	}
	if fd := c.checkFifo(); fd != nil {
		return fd
	}
	vs := c.snapshot()
	for _, fd := range c.takeAsync() {
		return fd
	}
	if fd := c.checkState(vs); fd != nil {
		return fd
	}
	for _, sid := range c.ended() {
		if _, still := vs.Streams[sidKey(sid)]; still {
			return violation("ended-stream-not-removed", "stream %d ended but is still in the pool", sid)
		}
	}
	return nil
}

// runBehaviour executes one behaviour on a fresh real pool.
func runBehaviour(b *behaviour, rep *vfutil.Report) (fd *finding, at int) {
	takeFatals()
	c := newCtl(poolCfg{DialWorkers: b.Cfg.DialWorkers, DialQSize: b.Cfg.DialQSize})
	defer func() {
		c.shutdown()
		if fd == nil {
			if fd = fatalFinding(); fd != nil {
				at = len(b.Steps)
			}
		}
	}()
	r := &runner{c: c, b: b, qclosed: map[uint32]bool{}, sclosed: map[uint32]bool{}, kinds: map[uint32]string{},
		tasks: map[string]int{}, arr: map[int]int{}, allTags: map[string]bool{}}
	for _, s := range b.Steps {
		for _, t := range s.Act.Tags {
			r.allTags[t] = true
		}
	}
	for i := range b.Steps {
		if b.Steps[i].Act.A == "Pad" {
			continue
		}
		fd := r.exec(i)
		if fd == nil && dialStep[b.Steps[i].Act.A] {
			// steps of the dial pool that nothing holds back (a worker joining an opening process, moving on to
			// its next peer, picking the next task) have no observable end: the next step is only taken once
			// every goroutine of the pool has come to rest
			fd = c.quiesce()
		}
		if fd == nil {
			fd = r.settle(i)
		}
		if fd != nil && fd.Kind == "drift" {
			// the real pool left the model's path: note it, give up the guided remainder, but still finish the
			// run on the harness' own schedule and evaluate the property oracles on what the real pool does
			tail := []action{}
			for j := max(0, i-12); j <= i; j++ {
				tail = append(tail, b.Steps[j].Act)
			}
			tj, _ := json.Marshal(tail)
			rep.DriftNote("step %d %s: %s | held: %s | steps: %s", i, b.Steps[i].Act.A, fd.Desc, c.describe(), tj)
			if fd2 := r.finale(); fd2 != nil && fd2.Kind == "violation" {
				return fd2, i
			}
			return nil, -1
		}
		if fd != nil {
			return fd, i
		}
		rep.AddSteps(1)
	}
	if fd := r.finale(); fd != nil {
		return fd, len(b.Steps)
	}
	return nil, -1
}

var dialStep = map[string]bool{"Send": true, "WorkerTake": true, "WorkerGetStreams": true, "WorkerWrite": true,
	"OpenOk": true, "OpenFail": true, "OpenEnd": true}

func shape(b *behaviour) string {
	var sb strings.Builder
	for _, s := range b.Steps {
		if s.Act.A == "Pad" {
			continue
		}
		j, _ := json.Marshal(s.Act)
		sb.Write(j)
	}
	h := fnv.New64a()
	h.Write([]byte(sb.String()))
	return fmt.Sprintf("%x", h.Sum64())
}

func report(rep *vfutil.Report, b *behaviour, fd *finding, at int, t *testing.T) {
	if fd == nil {
		return
	}
	act := "finale"
	if at >= 0 && at < len(b.Steps) {
		j, _ := json.Marshal(b.Steps[at].Act)
		act = string(j)
	}
	switch fd.Kind {
	case "violation":
		rep.Violate(fd.Key, fmt.Sprintf("%s (step %d: %s)", fd.Desc, at, act), b)
	case "drift":
		rep.DriftNote("step %d %s: %s [%s]", at, act, fd.Desc, b.Name)
	default:
		t.Errorf("harness broken at step %d %s: %s [%s]", at, act, fd.Desc, b.Name)
	}
}

func TestReplay(t *testing.T) {
	rep := vfutil.NewReport("C19")
	defer func() { rep.Save(!t.Failed() || rep.NumViolations() > 0) }()
	var bs []behaviour
	if raw, ok := vfutil.ReplayFile(); ok {
		var b behaviour
		if err := json.Unmarshal(raw, &b); err != nil {
			t.Fatal(err)
		}
		if len(b.Steps) == 0 {
			t.Skip("replay object is not a behaviour")
		}
		bs = []behaviour{b}
	} else {
		for _, dir := range strings.Split(os.Getenv("VERIF_BEHAVIOURS"), ":") {
			if dir == "" {
				continue
			}
			part, err := vfutil.LoadJSONFiles[behaviour](dir)
			if err != nil {
				t.Fatal(err)
			}
			bs = append(bs, part...)
		}
	}
	if len(bs) == 0 {
		t.Fatal("no behaviours")
	}
	seen := map[string]bool{}
	acts := map[string]int{}
	for i := range bs {
		b := &bs[i]
		key := shape(b)
		if seen[key] {
			continue
		}
		seen[key] = true
		rep.Case(key)
		rep.AddReplayed(1)
		fd, at := runBehaviour(b, rep)
		report(rep, b, fd, at, t)
		for _, s := range b.Steps {
			acts[s.Act.A]++
		}
		if i < 2 {
			rep.Sample(map[string]any{"behaviour_steps": len(b.Steps), "first_actions": b.Steps[:min(6, len(b.Steps))]})
		}
		if t.Failed() || rep.NumViolations() >= 1 {
			break
		}
	}
	rep.SetExtra("replayed_actions", acts)
	_ = sp.CName
}
