package streampool

import (
	"context"
	"fmt"
	"math/rand"
	"os"
	"path/filepath"
	"runtime"
	"sort"
	"strconv"
	"strings"
	"testing"
	"time"

	"github.com/cheggaaa/mb/v3"

	"github.com/anyproto/any-sync/util/multiqueue"

	"verifharness/vfutil"
)

// Receive side of C19 (util/multiqueue): a real MultiQueue with a gated handler is driven one command
// at a time; the oracles are those of the sending side (Add never waits for a handler, bounded queues
// that drop beyond the bound, per queue FIFO, a stuck handler delays no other thread, the size
// accounting equals what is buffered); the log is validated by MultiQueueTrace.tla.

type mqMsg struct {
	id int
	t  string
}

func (m mqMsg) MsgSize() uint64 { return 1 }

type mqQueue struct {
	id       int
	t        string
	accepted []int
	entered  []int // messages the handler was called with
	returned int
	gateRel  int
	closed   bool // queue.Close was called (CloseThread / Close)
}

type mqCtl struct {
	w       *world
	mq      multiqueue.MultiQueue[mqMsg]
	qsize   int
	balance int64 // updater: adds - removes (message sizes are 1)
	queues  []*mqQueue
	cur     map[string]*mqQueue // thread -> queue currently in the map (harness' mirror)
	byMsg   map[int]*mqQueue
	closed  bool
	maxIn   map[int]int
}

func (c *mqCtl) UpdateQueueSize(size uint64, msgType int, add bool) {
	c.w.update(func() {
		if add {
			c.balance += int64(size)
		} else {
			c.balance -= int64(size)
		}
	})
}

func (c *mqCtl) handle(m mqMsg) {
	w := c.w
	w.mu.Lock()
	q := c.byMsg[m.id]
	if q == nil { // handed over before Add returned: the message belongs to the thread's current queue
		q = c.cur[m.t]
		c.byMsg[m.id] = q
	}
	q.entered = append(q.entered, m.id)
	my := len(q.entered)
	if n := my - q.returned; n > c.maxIn[q.id] {
		c.maxIn[q.id] = n
	}
	w.cond.Broadcast()
	for q.gateRel < my && !w.dead {
		w.cond.Wait()
	}
	q.returned++
	w.cond.Broadcast()
	w.mu.Unlock()
}

func newMqCtl(qsize int) *mqCtl {
	c := &mqCtl{w: newWorld(), qsize: qsize, cur: map[string]*mqQueue{}, byMsg: map[int]*mqQueue{}, maxIn: map[int]int{}}
	c.mq = multiqueue.New[mqMsg](c.handle, c, 0, qsize)
	return c
}

func mqQuiet() bool {
	buf := make([]byte, 1<<20)
	n := runtime.Stack(buf, true)
	for _, blk := range strings.Split(string(buf[:n]), "\n\n") {
		m := reGoroutine.FindStringSubmatch(blk)
		if m == nil || !strings.Contains(blk, "github.com/anyproto/any-sync/util/multiqueue.") {
			continue
		}
		st := strings.Split(m[2], ",")[0]
		quiet := strings.HasPrefix(st, "sync.Cond.Wait") || strings.HasPrefix(st, "select") || strings.HasPrefix(st, "chan receive")
		if strings.HasPrefix(st, "sync.Mutex.Lock") || strings.HasPrefix(st, "semacquire") {
			quiet = !mutexWaitInHarness(blk)
		}
		if !quiet {
			return false
		}
	}
	return true
}

func (c *mqCtl) quiesce() *finding {
	deadline := time.Now().Add(6 * watchdog)
	n := 0
	for {
		if mqQuiet() {
			n++
			if n >= 2 {
				return nil
			}
		} else {
			n = 0
		}
		if time.Now().After(deadline) {
			return broken("the multiqueue does not become quiescent")
		}
		runtime.Gosched()
		time.Sleep(50 * time.Microsecond)
	}
}

// call runs fn on its own goroutine and requires it to return while every handler is held.
func (c *mqCtl) call(op string, fn func() error) (error, *finding) {
	type res struct {
		err error
		pv  any
	}
	done := false
	var r res
	gidCh := make(chan int64, 1)
	go func() {
		gidCh <- curGid()
		var err error
		var pv any
		func() {
			defer func() { pv = recover() }()
			err = fn()
		}()
		c.w.update(func() { r = res{err, pv}; done = true })
	}()
	gid := <-gidCh
	deadline := time.Now().Add(6 * watchdog)
	parked := 0
	for {
		ok := func() bool {
			end := time.Now().Add(time.Second)
			c.w.mu.Lock()
			defer c.w.mu.Unlock()
			for !done {
				if time.Now().After(end) {
					return false
				}
				t := time.AfterFunc(50*time.Millisecond, func() { c.w.mu.Lock(); c.w.cond.Broadcast(); c.w.mu.Unlock() })
				c.w.cond.Wait()
				t.Stop()
			}
			return true
		}()
		if ok {
			break
		}
		state, stack := goroutineState(gid)
		if state != "" && blockedInCode(state, stack) && !strings.Contains(stack, "(*mqCtl).handle") {
			parked++
			if parked >= 3 {
				return nil, violation("mq-api-blocked-"+op, "%s does not return while the handlers are held; parked at:\n%s", op, trimStack(stack))
			}
		} else {
			parked = 0
		}
		if time.Now().After(deadline) {
			return nil, broken("timeout waiting for %s", op)
		}
	}
	if r.pv != nil {
		return nil, violation("mq-api-panic-"+op, "%s panicked: %v", op, r.pv)
	}
	return r.err, nil
}

func (c *mqCtl) observe() map[string]any {
	ids := c.mq.ThreadIds()
	sort.Strings(ids)
	c.w.mu.Lock()
	defer c.w.mu.Unlock()
	handling := map[string]int{}
	for _, q := range c.queues {
		if len(q.entered) > q.returned {
			handling[strconv.Itoa(q.id)] = q.entered[len(q.entered)-1]
		}
	}
	return map[string]any{"threads": ids, "size": c.balance, "handling": handling}
}

// oracles on the real observations
func (c *mqCtl) check() *finding {
	ids := c.mq.ThreadIds()
	c.w.mu.Lock()
	defer c.w.mu.Unlock()
	buffered := 0
	for _, q := range c.queues {
		if c.maxIn[q.id] > 1 {
			return violation("mq-concurrent-handler", "queue %d of thread %s: %d handler calls at the same time", q.id, q.t, c.maxIn[q.id])
		}
		if len(q.entered) > len(q.accepted) {
			return violation("mq-fifo-violated", "queue %d: handler saw %v, accepted %v", q.id, q.entered, q.accepted)
		}
		for k := range q.entered {
			if q.entered[k] != q.accepted[k] {
				return violation("mq-fifo-violated", "queue %d of thread %s: accepted %v, handled in order %v", q.id, q.t, q.accepted, q.entered)
			}
		}
		b := len(q.accepted) - len(q.entered)
		if b > 0 && len(q.entered) == q.returned {
			// quiescent, messages buffered, and the handler of this queue is not running
			return violation("mq-isolation-undelivered", "queue %d of thread %s accepted %v, its handler saw %v and is not running although the multiqueue is quiescent (another thread's handler is stuck)", q.id, q.t, q.accepted, q.entered)
		}
		if b > c.qsize {
			return violation("mq-queue-over-bound", "queue %d of thread %s buffers %d messages, bound %d", q.id, q.t, b, c.qsize)
		}
		buffered += b
	}
	if int(c.balance) != buffered {
		return violation("mq-size-accounting", "the updater's balance is %d, %d messages are buffered", c.balance, buffered)
	}
	if !c.closed {
		want := []string{}
		for t := range c.cur {
			want = append(want, t)
		}
		sort.Strings(want)
		sort.Strings(ids)
		if fmt.Sprint(want) != fmt.Sprint(ids) {
			return drift("ThreadIds() = %v, harness mirror %v", ids, want)
		}
	}
	return nil
}

func mqRun(rnd *rand.Rand, tw *vfutil.TraceWriter, n int, qsize int) (fd *finding, log []string) {
	c := newMqCtl(qsize)
	defer func() {
		c.w.update(func() { c.w.dead = true })
		_ = c.mq.Close()
	}()
	threads := []string{"t1", "t2", "t3"}
	blocked := map[string]bool{"t1": true}
	emit := func(ev map[string]any, withState bool) {
		if withState {
			ev["st"] = c.observe()
		}
		tw.Emit(ev)
	}
	emit(map[string]any{"a": "Reset"}, true)
	nmsg := 0
	for i := 0; i < n; i++ {
		var cmds []string
		cmds = append(cmds, "Add", "Add", "Add", "Add", "CloseThread")
		if rnd.Intn(40) == 0 {
			cmds = append(cmds, "Close")
		}
		c.w.mu.Lock()
		var handling []*mqQueue
		for _, q := range c.queues {
			if len(q.entered) > q.returned && !blocked[q.t] {
				handling = append(handling, q)
			}
		}
		c.w.mu.Unlock()
		for range handling {
			cmds = append(cmds, "HandlerDone", "HandlerDone")
		}
		cmd := cmds[rnd.Intn(len(cmds))]
		log = append(log, cmd)
		switch cmd {
		case "Add":
			t := threads[rnd.Intn(len(threads))]
			nmsg++
			id := nmsg
			// mirror: a new queue is started iff the thread has no entry and the multiqueue is open
			c.w.mu.Lock()
			q := c.cur[t]
			created := false
			if q == nil && !c.closed {
				q = &mqQueue{id: len(c.queues) + 1, t: t}
				c.queues = append(c.queues, q)
				c.cur[t] = q
				created = true
			}
			pre := 0
			handlerHeld := false
			if q != nil {
				pre = len(q.accepted) - len(q.entered)
				handlerHeld = len(q.entered) > q.returned
			}
			c.w.mu.Unlock()
			_ = created
			err, fd := c.call("Add", func() error { return c.mq.Add(context.Background(), t, mqMsg{id: id, t: t}) })
			if fd != nil {
				return fd, log
			}
			if fd := c.quiesce(); fd != nil {
				return fd, log
			}
			switch {
			case err == multiqueue.ErrClosed:
				emit(map[string]any{"a": "Add", "t": t, "msg": id, "ret": "mqClosed"}, true)
				if !c.closed {
					return violation("mq-drop-below-bound", "Add returned ErrClosed although the multiqueue is open"), log
				}
			default:
				res := "ok"
				switch err {
				case nil:
				case mb.ErrOverflowed:
					res = "overflow"
				case mb.ErrClosed:
					res = "closed"
				default:
					return violation("mq-add-error", "Add returned %v", err), log
				}
				if q == nil {
					return drift("Add on a closed multiqueue returned %v", err), log
				}
				c.w.update(func() {
					if res == "ok" {
						q.accepted = append(q.accepted, id)
						c.byMsg[id] = q
					}
				})
				emit(map[string]any{"a": "Add", "t": t, "msg": id, "ret": "pending"}, false)
				emit(map[string]any{"a": "AddPut", "msg": id, "res": res}, true)
				switch {
				case res == "overflow" && pre < c.qsize:
					return violation("mq-drop-below-bound", "Add to thread %s rejected as overflow with %d of %d buffered", t, pre, c.qsize), log
				case res == "ok" && handlerHeld && pre >= c.qsize:
					return violation("mq-accept-beyond-bound", "Add to thread %s accepted with %d buffered, bound %d", t, pre, c.qsize), log
				case res == "closed" && !q.closed:
					return violation("mq-drop-below-bound", "Add to thread %s rejected as closed although its queue is open", t), log
				}
			}
		case "HandlerDone":
			q := handling[rnd.Intn(len(handling))]
			var msg int
			c.w.update(func() { msg = q.entered[len(q.entered)-1]; q.gateRel = len(q.entered) })
			if fd := c.quiesce(); fd != nil {
				return fd, log
			}
			emit(map[string]any{"a": "HandlerDone", "qid": q.id, "msg": msg}, true)
		case "CloseThread":
			t := threads[rnd.Intn(len(threads))]
			err, fd := c.call("CloseThread", func() error { return c.mq.CloseThread(t) })
			if fd != nil {
				return fd, log
			}
			if fd := c.quiesce(); fd != nil {
				return fd, log
			}
			switch err {
			case nil:
				c.w.update(func() {
					if q := c.cur[t]; q != nil {
						q.closed = true
					}
					delete(c.cur, t)
				})
				emit(map[string]any{"a": "CloseThread", "t": t, "ret": "pending"}, false)
				emit(map[string]any{"a": "CtClose"}, true)
			case multiqueue.ErrThreadNotExists:
				emit(map[string]any{"a": "CloseThread", "t": t, "ret": "notExists"}, true)
			case multiqueue.ErrClosed:
				emit(map[string]any{"a": "CloseThread", "t": t, "ret": "mqClosed"}, true)
			default:
				return violation("mq-closethread-error", "CloseThread returned %v", err), log
			}
		case "Close":
			err, fd := c.call("Close", func() error { return c.mq.Close() })
			if fd != nil {
				return fd, log
			}
			if fd := c.quiesce(); fd != nil {
				return fd, log
			}
			if err == multiqueue.ErrClosed {
				emit(map[string]any{"a": "Close", "ret": "mqClosed"}, true)
				break
			}
			var qids []int
			c.w.update(func() {
				c.closed = true
				for _, q := range c.cur {
					q.closed = true
					qids = append(qids, q.id)
				}
			})
			sort.Ints(qids)
			emit(map[string]any{"a": "Close", "ret": "pending"}, false)
			for _, id := range qids {
				emit(map[string]any{"a": "ClClose", "qid": id}, false)
			}
			emit(map[string]any{"a": "ClDone"}, false)
		}
		if fd := c.check(); fd != nil {
			return fd, log
		}
	}
	// Isolation: the handlers of the threads that are not blocked drain their queues
	for {
		c.w.mu.Lock()
		var q *mqQueue
		for _, x := range c.queues {
			if !blocked[x.t] && x.returned < len(x.accepted) {
				q = x
				break
			}
		}
		c.w.mu.Unlock()
		if q == nil {
			break
		}
		want := q.returned + 1
		deadline := time.Now().Add(6 * watchdog)
		for {
			c.w.mu.Lock()
			ok := len(q.entered) >= want
			c.w.mu.Unlock()
			if ok {
				break
			}
			if mqQuiet() && func() bool { c.w.mu.Lock(); defer c.w.mu.Unlock(); return len(q.entered) < want }() {
				if mqQuiet() {
					return violation("mq-isolation-undelivered", "queue %d of thread %s accepted %v, handler saw %v and is idle; thread t1's handler is stuck", q.id, q.t, q.accepted, q.entered), log
				}
			}
			if time.Now().After(deadline) {
				return broken("timeout draining queue %d", q.id), log
			}
			time.Sleep(200 * time.Microsecond)
		}
		var msg int
		c.w.update(func() { msg = q.entered[len(q.entered)-1]; q.gateRel = len(q.entered) })
		if fd := c.quiesce(); fd != nil {
			return fd, log
		}
		emit(map[string]any{"a": "HandlerDone", "qid": q.id, "msg": msg}, true)
	}
	if fd := c.check(); fd != nil {
		return fd, log
	}
	emit(map[string]any{"a": "End"}, false)
	return nil, log
}

func TestMultiQueue(t *testing.T) {
	rep := vfutil.NewReport("C19")
	defer func() { rep.Save(!t.Failed() || rep.NumViolations() > 0) }()
	path := os.Getenv("VERIF_TRACE_OUT")
	if path == "" {
		path = filepath.Join(t.TempDir(), "mq.ndjson")
	}
	tw := vfutil.NewTraceWriter(path)
	defer tw.Close()
	runs := vfutil.EnvInt("VERIF_RUNS", 10)
	length := vfutil.EnvInt("VERIF_RUN_LEN", 60)
	seed := vfutil.Seed()
	for i := 0; i < runs; i++ {
		rs := seed*9000011 + int64(i)
		if v := vfutil.EnvInt("VERIF_REPLAY_SEED", 0); v != 0 {
			rs = int64(v)
		}
		fd, log := mqRun(rand.New(rand.NewSource(rs)), tw, length, 2)
		rep.Case(fmt.Sprint(log))
		rep.AddReplayed(1)
		rep.AddSteps(len(log))
		if fd != nil {
			replay := map[string]any{"kind": "multiqueue", "runSeed": rs, "len": length}
			switch fd.Kind {
			case "violation":
				rep.Violate(fd.Key, fmt.Sprintf("%s (multiqueue run seed %d after %d commands)", fd.Desc, rs, len(log)), replay)
			case "drift":
				rep.DriftNote("multiqueue run %d: %s", rs, fd.Desc)
			default:
				t.Fatalf("harness broken in multiqueue run %d: %s", rs, fd.Desc)
			}
		}
		if rep.NumViolations() >= 1 {
			break
		}
	}
	rep.SetExtra("mq_trace_events", tw.Len())
}
