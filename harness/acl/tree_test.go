package acl

import (
	"bytes"
	"context"
	"errors"
	"fmt"
	"path/filepath"
	"sync/atomic"
	"testing"

	anystore "github.com/anyproto/any-store"

	"github.com/anyproto/any-sync/commonspace/headsync/headstorage"
	"github.com/anyproto/any-sync/commonspace/object/accountdata"
	"github.com/anyproto/any-sync/commonspace/object/acl/list"
	"github.com/anyproto/any-sync/commonspace/object/acl/recordverifier"
	"github.com/anyproto/any-sync/commonspace/object/tree/objecttree"
	"github.com/anyproto/any-sync/commonspace/object/tree/treechangeproto"
	"github.com/anyproto/any-sync/util/crypto"

	"verifharness/vfutil"
)

// TestTree (C05, tree part): content added to an object tree as encrypted is stored only as ciphertext
// under the key generation its ReadKeyId names, decrypts to the original in every current member's view,
// not in a removed member's, and building an encrypted change without a key fails.
//
// The ACL history is made of raw records rendered like everywhere else in this package; every account
// keeps its own AclList (built with its identity) that is fed the accepted raw records.
func TestTree(t *testing.T) {
	rep := vfutil.NewReport("C05")
	complete := false
	defer func() { rep.Save(complete) }()
	ctx := context.Background()
	rounds := vfutil.Tier(2, 8)
	for round := 0; round < rounds; round++ {
		runTreeScenario(t, ctx, rep, round)
	}
	complete = true
	if rep.NumViolations() > 0 {
		t.Fail()
	}
}

// newTreeStorage creates a tree storage; the add-sequence counter is normally set by the space storage
func newTreeStorage(ctx context.Context, root *treechangeproto.RawTreeChangeWithId, store anystore.DB) objecttree.Storage {
	st := must(objecttree.CreateStorage(ctx, root, must(headstorage.New(ctx, store)), store))
	if setter, ok := st.(interface{ SetAddSeq(seq *atomic.Uint64) }); ok {
		setter.SetAddSeq(&atomic.Uint64{})
	}
	return st
}

type member struct {
	name string
	keys *accountdata.AccountKeys
	l    list.AclList
}

func runTreeScenario(t *testing.T, ctx context.Context, rep *vfutil.Report, round int) {
	meta := &Meta{AccSeq: []string{"o", "w", "x", "y"}, InvIds: []string{"i1", "i2"},
		InitPerm: map[string]string{"o": "owner", "w": "none", "x": "none", "y": "none"}}
	w := newWorld(meta)
	c := newChain(w)
	c.enc, c.pathEnc = (round+1)%3, (round+1)%3 // identity spelling of the rendered records, see Chain.spell
	members := map[string]*member{}
	for _, a := range meta.AccSeq {
		var v recordverifier.AcceptorVerifier = recordverifier.NewValidateFull()
		if round%2 == 1 {
			v = nonValidating{}
		}
		members[a] = &member{name: a, keys: w.acc[a], l: must(buildList(w.acc[a], c.raws, v))}
	}
	apply := func(r Rec) {
		rd := c.render(r, false)
		if err := c.commit(r, rd); err != nil {
			panic(fmt.Sprintf("tree scenario: record %s rejected: %v", r, err))
		}
		for _, m := range members {
			if err := m.l.AddRawRecord(rd.withId); err != nil {
				// an account's own view may legitimately fail only if it is no member; members must follow
				if st := c.project(c.l.AclState()); st.Perm[m.name] != "none" {
					rep.Violate("tree:member-view-rejects-record", fmt.Sprintf("the view of member %s rejects the accepted record %s: %v", m.name, r, err), nil)
				}
			}
		}
	}
	one := func(a, k, tg, p, i, q, v string) Rec { return Rec{A: a, Cs: []Content{{K: k, T: tg, P: p, I: i, Q: q, V: v}}} }

	apply(one("o", "AccountsAdd", "w", "writer", "-", "-", "-"))
	// the tree, created by the owner
	dir := t.TempDir()
	openStore := func(name string) anystore.DB {
		db, err := anystore.Open(ctx, filepath.Join(dir, fmt.Sprintf("%s-%d.db", name, round)), nil)
		if err != nil {
			panic(err)
		}
		t.Cleanup(func() { db.Close() })
		return db
	}
	root := must(objecttree.CreateObjectTreeRoot(objecttree.ObjectTreeCreatePayload{PrivKey: w.acc["o"].SignKey, ChangeType: "verif",
		SpaceId: "verif-space", IsEncrypted: true}, members["o"].l))
	storeO := openStore("o")
	stO := newTreeStorage(ctx, root, storeO)
	treeO := must(objecttree.BuildObjectTree(stO, members["o"].l))

	type written struct {
		plain []byte
		gen   int // 1-based generation index at the time of writing
		id    string
	}
	var log []written
	var raws []*treechangeproto.RawTreeChangeWithId
	write := func(author string, tr objecttree.ObjectTree, text string) {
		plain := []byte(fmt.Sprintf("plaintext-%s-%d-%s", text, round, bytes.Repeat([]byte("x"), 8)))
		tr.Lock()
		res, err := tr.AddContent(ctx, objecttree.SignableChangeContent{Data: plain, Key: w.acc[author].SignKey, ShouldBeEncrypted: true, DataType: "verif"})
		tr.Unlock()
		if err != nil {
			panic(fmt.Sprintf("AddContent by %s failed: %v", author, err))
		}
		for _, ch := range res.Added {
			raw := ch.RawTreeChangeWithId()
			raws = append(raws, raw)
			log = append(log, written{plain: plain, gen: len(c.gens), id: raw.Id})
		}
		rep.Case(fmt.Sprintf("tree|write|gen%d", len(c.gens)))
	}
	// oracle on the stored / transmitted bytes
	checkStored := func() {
		treeKey := func(g int) crypto.SymKey {
			rawKey := must(c.gens[g-1].key.Raw())
			return must(crypto.NewKeyDeriver(fmt.Sprintf(crypto.AnysyncTreePath, root.Id)).DeriveKey(rawKey))
		}
		n := 0
		err := stO.GetAfterOrder(ctx, "", func(ctx context.Context, sc objecttree.StorageChange) (bool, error) {
			var wr *written
			for i := range log {
				if log[i].id == sc.Id {
					wr = &log[i]
				}
			}
			if wr == nil {
				return true, nil
			}
			n++
			if bytes.Contains(sc.RawChange, wr.plain) {
				rep.Violate("tree:plaintext-stored", fmt.Sprintf("change %s written as encrypted is stored with its plaintext", sc.Id), nil)
			}
			rawCh := &treechangeproto.RawTreeChange{}
			if err := rawCh.UnmarshalVT(sc.RawChange); err != nil {
				return false, err
			}
			tc := &treechangeproto.TreeChange{}
			if err := tc.UnmarshalVT(rawCh.Payload); err != nil {
				return false, err
			}
			if tc.ReadKeyId != c.gens[wr.gen-1].recId {
				rep.Violate("tree:wrong-read-key-id", fmt.Sprintf("change %s written under generation %d names read key id %s, the generation's record is %s",
					sc.Id, wr.gen, tc.ReadKeyId, c.gens[wr.gen-1].recId), nil)
			}
			for g := 1; g <= len(c.gens); g++ {
				dec, ok := safeDecrypt(treeKey(g).Decrypt, tc.ChangesData)
				opens := ok && bytes.Equal(dec, wr.plain)
				if g == wr.gen && !opens {
					rep.Violate("tree:not-under-named-key", fmt.Sprintf("change %s does not decrypt to the original under the key of generation %d that its ReadKeyId names", sc.Id, g), nil)
				}
				if g != wr.gen && opens {
					rep.Violate("tree:opens-under-other-generation", fmt.Sprintf("change %s (generation %d) opens under the key of generation %d", sc.Id, wr.gen, g), nil)
				}
			}
			rep.Case("tree|stored-bytes")
			return true, nil
		})
		if err != nil {
			panic(err)
		}
		if n != len(log) {
			panic(fmt.Sprintf("stored changes found %d, written %d", n, len(log)))
		}
	}
	// a member's own tree built from the transmitted raw changes: what does it decrypt?
	reads := func(name string) map[string][]byte {
		m := members[name]
		store := openStore(fmt.Sprintf("%s-%d", name, len(raws)))
		st := newTreeStorage(ctx, root, store)
		tr, err := objecttree.BuildObjectTree(st, m.l)
		if err != nil {
			return nil
		}
		got := map[string][]byte{}
		tr.Lock()
		defer tr.Unlock()
		var heads []string
		if len(raws) > 0 {
			heads = []string{raws[len(raws)-1].Id}
		}
		_, err = tr.AddRawChanges(ctx, objecttree.RawChangesPayload{NewHeads: heads, RawChanges: raws})
		_ = err
		_ = tr.IterateRoot(func(ch *objecttree.Change, decrypted []byte) (any, error) {
			got[ch.Id] = append([]byte(nil), decrypted...)
			return nil, nil
		}, func(ch *objecttree.Change) bool { return true })
		return got
	}
	checkReaders := func(tag string) {
		st := c.project(c.l.AclState())
		for _, a := range meta.AccSeq {
			got := reads(a)
			for _, wr := range log {
				opened := bytes.Equal(got[wr.id], wr.plain)
				if st.Perm[a] != "none" && !opened {
					rep.Violate("tree:member-cannot-decrypt:"+st.Perm[a], fmt.Sprintf("[%s] member %s (%s) does not obtain the original of change %s written under generation %d",
						tag, a, st.Perm[a], wr.id, wr.gen), nil)
				}
				if st.Perm[a] == "none" && opened && wr.gen > c.held[a] {
					rep.Violate("tree:nonmember-decrypts", fmt.Sprintf("[%s] %s (no permission, last standing at generation %d) decrypts change %s written under generation %d",
						tag, a, c.held[a], wr.id, wr.gen), nil)
				}
				rep.Case(fmt.Sprintf("tree|read|%s|%v", st.Perm[a], opened))
			}
		}
	}

	write("o", treeO, "gen1")
	checkStored()
	checkReaders("gen1")
	apply(one("o", "ReadKeyChange", "-", "-", "-", "-", "exact")) // stand-alone rotation
	write("o", treeO, "gen2")
	apply(one("o", "AccountsAdd", "x", "reader", "-", "-", "-")) // admitted after a rotation: must unwrap the chain
	checkStored()
	checkReaders("after-add")
	apply(one("o", "AccountRemove", "w", "-", "-", "-", "exact")) // removal rotates
	write("o", treeO, "gen3")
	apply(one("o", "Invite", "-", "writer", "-", "-", "any"))
	apply(one("y", "InviteJoin", "-", "none", "i1", "-", "ok")) // open-invite join
	apply(Rec{A: "o", Cs: []Content{{K: "InviteRevoke", T: "-", P: "-", I: "i1", Q: "-", V: "-"}, {K: "ReadKeyChange", T: "-", P: "-", I: "-", Q: "-", V: "exact"}}})
	write("o", treeO, "gen4")
	checkStored()
	checkReaders("final")
	rep.AddReplayed(1)

	// building an encrypted change without a key fails instead of emitting plaintext
	cb := objecttree.NewChangeBuilder(crypto.NewKeyStorage(), root)
	plain := []byte("must-never-appear-in-a-change")
	ch, rawCh, err := cb.Build(objecttree.BuilderContent{TreeHeadIds: []string{root.Id}, AclHeadId: c.l.Head().Id, SnapshotBaseId: root.Id,
		ReadKeyId: c.gens[len(c.gens)-1].recId, PrivKey: w.acc["o"].SignKey, ReadKey: nil, Unencrypted: false, Content: plain, DataType: "verif", Timestamp: 1})
	rep.Case("tree|build-without-key")
	if !errors.Is(err, objecttree.ErrMissingEncryptKey) {
		leak := rawCh != nil && bytes.Contains(rawCh.RawChange, plain) || ch != nil && bytes.Contains(ch.Data, plain)
		rep.Violate("tree:build-without-key", fmt.Sprintf("Build(Unencrypted=false, ReadKey=nil) returned err=%v instead of ErrMissingEncryptKey (plaintext in the change: %v)", err, leak), nil)
	}
	// a removed member (no current key) cannot add encrypted content, and nothing readable is emitted
	storeW := openStore("w-writer")
	stW := newTreeStorage(ctx, root, storeW)
	if treeW, err := objecttree.BuildObjectTree(stW, members["w"].l); err == nil {
		treeW.Lock()
		res, err := treeW.AddContent(ctx, objecttree.SignableChangeContent{Data: plain, Key: w.acc["w"].SignKey, ShouldBeEncrypted: true, DataType: "verif"})
		treeW.Unlock()
		rep.Case("tree|add-content-without-key")
		if err == nil {
			for _, a := range res.Added {
				if bytes.Contains(a.RawChange, plain) {
					rep.Violate("tree:removed-member-writes-plaintext", "AddContent(ShouldBeEncrypted) by an account without the current key stored the plaintext", nil)
				}
			}
		}
	}
}
