package acl

import (
	"encoding/json"
	"errors"
	"fmt"
	"hash/fnv"
	"math/rand"
	"os"
	"path/filepath"
	"sort"
	"strings"
	"sync"
	"testing"

	"verifharness/vfutil"
)

// replayObj is what a violation carries: enough to re-execute it without TLC.
type replayObj struct {
	AccSeq     []string          `json:"accSeq"`
	InvIds     []string          `json:"invIds"`
	InitPerm   map[string]string `json:"initPerm"`
	InitPrefix []Rec             `json:"initPrefix"`
	Path       []Rec             `json:"path"`
	Edge       *Rec              `json:"edge,omitempty"`
	Alt        bool              `json:"alt,omitempty"`
	Enc        int               `json:"enc,omitempty"`     // identity spelling of the edge (see Chain.spell)
	PathEnc    int               `json:"pathEnc,omitempty"` // identity spelling of the path records
	Check      string            `json:"check"` // "edge" | "keys"
	Cfg        string            `json:"cfg,omitempty"`
}

type harness struct {
	t    *testing.T
	rep  *vfutil.Report
	prop string // C04 | C05
	w    *World
	meta *Meta
	cfg  string
	base *Chain // after the start-state prefix
	mu   sync.Mutex
	cnt  map[string]int
}

func (h *harness) count(k string, n int) {
	h.mu.Lock()
	h.cnt[k] += n
	h.mu.Unlock()
}

func newHarness(t *testing.T, rep *vfutil.Report, prop string, meta *Meta, cfg string) (*harness, error) {
	h := &harness{t: t, rep: rep, prop: prop, meta: meta, cfg: cfg, cnt: map[string]int{}}
	h.w = newWorld(meta)
	c := newChain(h.w)
	for _, r := range meta.InitPrefix {
		rd := c.render(r, false)
		if err := c.commit(r, rd); err != nil {
			return nil, fmt.Errorf("start-state prefix record %s rejected by the real list: %w", r, err)
		}
	}
	h.base = c
	got := c.project(c.l.AclState())
	if d := diffPost(meta.AccSeq, meta.InvIds, &meta.Init.Post, got); d != "" {
		return nil, fmt.Errorf("start state differs: %s", d)
	}
	return h, nil
}

func (h *harness) robj(c *Chain, path []Rec, edge *Rec, alt bool, check string) replayObj {
	return replayObj{AccSeq: h.meta.AccSeq, InvIds: h.meta.InvIds, InitPerm: h.meta.InitPerm, InitPrefix: h.meta.InitPrefix,
		Path: path, Edge: edge, Alt: alt, Enc: c.enc, PathEnc: c.pathEnc, Check: check, Cfg: h.cfg}
}

// walk replays a path of model-accepted records on a fresh fork of the start state.
func (h *harness) walk(path []Rec, enc int) (*Chain, error) {
	c := h.base.fork()
	c.enc, c.pathEnc = enc, enc
	for k, r := range path {
		rd := c.render(r, false)
		if rd.skip != "" {
			return nil, fmt.Errorf("path record %d %s: %s", k, r, rd.skip)
		}
		if err := c.commit(r, rd); err != nil {
			return nil, fmt.Errorf("path record %d %s rejected by the real list: %v", k, r, err)
		}
	}
	return c, nil
}

type verdict struct {
	known bool   // the model's verdict is known
	why   string // "ok" or "<check>/<class>" ; "" = rejected, guard unknown
	post  *Post  // predicted post-state (accepted, if known)
}

// evalEdge submits one record to the real list in the state reached by path and judges the outcome.
func (h *harness) evalEdge(c *Chain, path []Rec, r Rec, alt bool, mv verdict) {
	accs, invs := h.meta.AccSeq, h.meta.InvIds
	rd := c.render(r, alt)
	if rd.skip != "" || strings.HasSuffix(mv.why, "/OutOfModel") {
		h.count("edges_outside_model_bounds", 1)
		return
	}
	post, err := c.validate(rd.raw)
	codeOK := err == nil
	h.rep.Case(fmt.Sprintf("%d|%s|%s", len(path), r.Cs[0].K+"+"+fmt.Sprint(len(r.Cs)), errName(err)))
	h.count("edges", 1)
	violated := false
	if codeOK {
		h.count("edges_accepted_by_code", 1)
		states := append(append([]*Post(nil), rd.mids...), post)
		for k, ct := range r.Cs {
			x, y := states[k], states[k+1]
			if x == nil || y == nil {
				h.rep.DriftNote("[%s] record %s accepted as a whole but its prefix of %d contents was rejected", h.cfg, r, k+1)
				continue
			}
			for _, pf := range contentProps(accs, invs, x, r.A, ct, y) {
				violated = true
				if h.prop == "C04" {
					h.rep.Violate(c04Key(x, r.A, ct, pf), fmt.Sprintf("%s violated on the real ACL: %s. Record %s (content %d) accepted by the fully validating list after %v",
						pf.pred, pf.detail, r, k+1, path), h.robj(c, path, &r, alt, "edge"))
				}
			}
		}
		// C05: a content that introduced a key generation names exactly the principals with standing right after it
		ri := 0
		for k, ct := range r.Cs {
			if ct.K != "AccountRemove" && ct.K != "ReadKeyChange" {
				continue
			}
			rot := rd.rot[ri]
			ri++
			y := states[k+1]
			if y == nil {
				continue
			}
			var expA, expI []string
			for _, a := range accs {
				if y.Perm[a] != "none" {
					expA = append(expA, a)
				}
			}
			for _, i := range invs {
				if liveAny(y, i) {
					expI = append(expI, i)
				}
			}
			if strings.Join(sortedCopy(rot.accounts), ",") != strings.Join(sortedCopy(expA), ",") ||
				strings.Join(sortedCopy(rot.invites), ",") != strings.Join(sortedCopy(expI), ",") {
				violated = true
				if h.prop == "C05" {
					h.rep.Violate("RotationCoversExactlyActive:"+ct.K+":"+ct.V,
						fmt.Sprintf("rotation accepted with ciphertexts for accounts %v invites %v, but the principals with standing after it are %v / %v. Record %s (content %d) after %v",
							sortedCopy(rot.accounts), sortedCopy(rot.invites), expA, expI, r, k+1, path), h.robj(c, path, &r, alt, "edge"))
				}
			}
		}
		// the same record through AddRawRecord on a fork must give the same verdict and state
		f := c.fork()
		rd2 := f.render(r, alt)
		if err2 := f.commit(r, rd2); err2 != nil {
			h.rep.DriftNote("[%s] ValidateRawRecord accepts %s but AddRawRecord rejects it: %v", h.cfg, r, err2)
		} else if d := diffPost(accs, invs, post, f.project(f.l.AclState())); d != "" {
			h.rep.DriftNote("[%s] ValidateRawRecord and AddRawRecord disagree on the state after %s: %s", h.cfg, r, d)
		} else if h.prop == "C05" && ((mv.known && mv.why != "ok") || !mv.known || os.Getenv("VERIF_ACL_KEYS_ON_EDGES") != "") {
			// a record the model does not accept (or cannot judge) but the code does: the key predicates on the log it produces
			if h.checkKeys(f, append(append([]Rec(nil), path...), r), nil) {
				violated = true
			}
		}
	}
	if !mv.known {
		return
	}
	modelOK := mv.why == "ok"
	switch {
	case modelOK && !codeOK:
		h.rep.DriftNote("[%s] model accepts %s after %v, code rejects: %v", h.cfg, r, path, err)
	case !modelOK && codeOK:
		if !violated {
			h.rep.DriftNote("[%s] model rejects %s (%s) after %v, code accepts", h.cfg, r, mv.why, path)
		} else {
			h.count("violating_edges_rejected_by_model", 1)
		}
	case !modelOK && !codeOK:
		if _, class := whyErr(mv.why); class != "" {
			if want, ok := errClass[class]; ok && !errors.Is(err, want) {
				h.rep.DriftNote("[%s] %s after %v: model rejects with %s, code with %q", h.cfg, r, path, mv.why, err)
			}
		}
		if errors.Is(err, errPanic) {
			h.count("panics", 1)
		}
	default:
		if mv.post != nil {
			if d := diffPost(accs, invs, mv.post, post); d != "" {
				h.rep.DriftNote("[%s] state after %s (path %v) differs: %s", h.cfg, r, path, d)
			}
		}
	}
}

func uniq(s []string) []string {
	m := map[string]bool{}
	var r []string
	for _, x := range s {
		if !m[x] {
			m[x] = true
			r = append(r, x)
		}
	}
	return r
}

func rotVariants(r Rec) string {
	var v []string
	for _, c := range r.Cs {
		if c.K == "AccountRemove" || c.K == "ReadKeyChange" {
			v = append(v, c.V)
		}
	}
	return strings.Join(v, "+")
}

func errName(err error) string {
	if err == nil {
		return "ok"
	}
	for n, e := range errClass {
		if errors.Is(err, e) {
			return n
		}
	}
	if errors.Is(err, errPanic) {
		return "panic"
	}
	return "other"
}

type budget struct {
	allDepth    int // states at depth <= allDepth: every record of the alphabet
	randPerSt   int // deeper: seeded random rejected records per state (besides accepted + one per guard vector)
	batchRand   int // random batches (accepted first content + random second content) per state with batch data
	batchAccMax int // accepted batches executed per state (0 = all)
	builderMax  int // C05: records per state also built with the client builder
}

func (h *harness) runState(sf *StateFile, b budget, seed int64) {
	accs, invs := h.meta.AccSeq, h.meta.InvIds
	if !sf.PruneOK {
		h.rep.DriftNote("[%s] %s: candidate pruning of the specification lost an accepted record (PruneSound)", h.cfg, sf.file)
	}
	hs := fnv.New64a()
	hs.Write([]byte(sf.file))
	c, err := h.walk(sf.Path, int(hs.Sum64()%3))
	if err != nil {
		h.rep.DriftNote("[%s] %s: %v", h.cfg, sf.file, err)
		return
	}
	h.rep.AddReplayed(1)
	h.rep.AddSteps(len(sf.Path))
	got := c.project(c.l.AclState())
	if d := diffPost(accs, invs, &sf.S.Post, got); d != "" {
		h.rep.DriftNote("[%s] %s: state after path %v differs: %s", h.cfg, sf.file, sf.Path, d)
		return
	}
	if h.prop == "C05" {
		h.checkKeys(c, sf.Path, &sf.S)
	}
	rng := rand.New(rand.NewSource(seed ^ int64(hs.Sum64())))
	if strings.HasPrefix(h.cfg, "H-") {
		// honest-history states (C05): EVERY record the model accepts here that the client builder can express is
		// built with the acting account's own RecordBuilder, inspected, appended, and the private views are checked
		h.builderPass(c, sf, rng, 0)
		h.rep.Sample(map[string]any{"cfg": h.cfg, "state_file": sf.file, "depth": sf.Depth, "path": fmt.Sprint(sf.Path), "mode": "client builder, all expressible records"})
		return
	}
	h.builderPass(c, sf, rng, b.builderMax)

	accepted := map[string]*AccEdge{}
	for i := range sf.Acc {
		accepted[recKey(sf.Acc[i].Rec)] = &sf.Acc[i]
	}
	n := 0
	// 1. every record the model accepts
	for i := range sf.Acc {
		e := &sf.Acc[i]
		c.enc = n / 2
		h.evalEdge(c, sf.Path, e.Rec, n%2 == 1, verdict{known: true, why: "ok", post: &e.Post})
		n++
	}
	// 2. rejected records
	alpha := h.meta.Alphabet
	if sf.Full && len(sf.Whys) == len(alpha) {
		// the verdict array and the list of accepted records come from the same model evaluation: cross-check
		for k := range alpha {
			if sf.Whys[k] == "ok" {
				if _, ok := accepted[recKey(Rec{A: alpha[k].A, Cs: []Content{alpha[k].C}})]; !ok {
					h.rep.DriftNote("[%s] %s: verdict array says ok for %v but the record is not in the accepted list", h.cfg, sf.file, alpha[k])
				}
			}
		}
		var pick []int
		if sf.Depth <= b.allDepth {
			for k := range alpha {
				if sf.Whys[k] != "ok" {
					pick = append(pick, k)
				}
			}
		} else {
			// one record per guard-outcome vector (failing guard x author role x target role) + random ones
			seen := map[string]bool{}
			var rest []int
			for _, k := range rng.Perm(len(alpha)) {
				if sf.Whys[k] == "ok" {
					continue
				}
				e := alpha[k]
				tp := "-"
				if p, ok := sf.S.Perm[e.C.T]; ok {
					tp = p
				} else if p, ok := sf.S.Perm[e.C.Q]; ok {
					tp = p + "/" + sf.S.Req[e.C.Q]
				}
				// ... x the target's pending request and membership status (an account that asked to leave keeps its
				// permissions: "member" and "active" are different classes) x self/other; for a target in such a
				// transitional state also x the permission argument. The vector is at least as fine as the violation
				// key (kind, author role, target role, target request).
				if _, ok := sf.S.Perm[e.C.T]; ok {
					tp += "/" + sf.S.Req[e.C.T] + "/" + sf.S.Status[e.C.T]
					if e.C.T == e.A {
						tp += "/self"
					}
					if sf.S.Req[e.C.T] != "none" {
						tp += "/" + e.C.P
					}
				}
				vec := sf.Whys[k] + "|" + sf.S.Perm[e.A] + "|" + tp
				if !seen[vec] {
					seen[vec] = true
					pick = append(pick, k)
				} else {
					rest = append(rest, k)
				}
			}
			h.count("guard_vectors", len(seen))
			if len(rest) > b.randPerSt {
				rest = rest[:b.randPerSt]
			}
			pick = append(pick, rest...)
		}
		for _, k := range pick {
			e := alpha[k]
			c.enc = n / 2
		h.evalEdge(c, sf.Path, Rec{A: e.A, Cs: []Content{e.C}}, n%2 == 1, verdict{known: true, why: sf.Whys[k]})
			n++
		}
	} else {
		for j := 0; j < b.randPerSt; j++ {
			e := alpha[rng.Intn(len(alpha))]
			r := Rec{A: e.A, Cs: []Content{e.C}}
			if _, ok := accepted[recKey(r)]; ok {
				continue
			}
			// verdict known only where the candidate pruning cannot have dropped an accepted variant
			c.enc = n / 2
		h.evalEdge(c, sf.Path, r, n%2 == 1, verdict{known: false})
			n++
		}
	}
	// 3. batches
	if sf.Batches {
		accB := map[string]*AccEdge{}
		for i := range sf.AccB {
			accB[recKey(sf.AccB[i].Rec)] = &sf.AccB[i]
		}
		idx := rng.Perm(len(sf.AccB))
		if b.batchAccMax > 0 && len(idx) > b.batchAccMax {
			idx = idx[:b.batchAccMax]
		}
		for _, i := range idx {
			e := &sf.AccB[i]
			c.enc = n / 2
		h.evalEdge(c, sf.Path, e.Rec, n%2 == 1, verdict{known: true, why: "ok", post: &e.Post})
			n++
		}
		// random second contents after an accepted first content: the model rejects unless listed
		for j := 0; j < b.batchRand && len(sf.Acc) > 0; j++ {
			first := sf.Acc[rng.Intn(len(sf.Acc))]
			second := alpha[rng.Intn(len(alpha))].C
			r := Rec{A: first.A, Cs: []Content{first.Cs[0], second}}
			if _, ok := accB[recKey(r)]; ok {
				continue
			}
			c.enc = n / 2
		h.evalEdge(c, sf.Path, r, n%2 == 1, verdict{known: false})
			n++
		}
		// a rejected first content rejects the batch
		for j := 0; j < b.batchRand/4; j++ {
			e1, e2 := alpha[rng.Intn(len(alpha))], alpha[rng.Intn(len(alpha))]
			r := Rec{A: e1.A, Cs: []Content{e1.C, e2.C}}
			if _, ok := accepted[recKey(Rec{A: e1.A, Cs: []Content{e1.C}})]; ok {
				continue
			}
			c.enc = n / 2
		h.evalEdge(c, sf.Path, r, n%2 == 1, verdict{known: false})
			n++
		}
	}
	h.rep.Sample(map[string]any{"cfg": h.cfg, "state_file": sf.file, "depth": sf.Depth, "path": fmt.Sprint(sf.Path), "edges_executed": n})
}

func tierBudget() budget {
	if vfutil.Thorough() {
		return budget{allDepth: vfutil.EnvInt("VERIF_ACL_ALLDEPTH", 1), randPerSt: 60, batchRand: 200, batchAccMax: 1500, builderMax: 6}
	}
	return budget{allDepth: vfutil.EnvInt("VERIF_ACL_ALLDEPTH", 0), randPerSt: 25, batchRand: 80, batchAccMax: 400, builderMax: 4}
}

func property() string {
	if p := os.Getenv("VERIF_PROPERTY"); p == "C05" {
		return "C05"
	}
	return "C04"
}

// TestReplay: the binding of Acl.tla to the real AclList.
func TestReplay(t *testing.T) {
	prop := property()
	rep := vfutil.NewReport(prop)
	complete := false
	defer func() { rep.Save(complete) }()
	if raw, ok := vfutil.ReplayFile(); ok {
		runReplayObject(t, rep, prop, raw)
		complete = true
		if rep.NumViolations() > 0 {
			t.Fail()
		}
		return
	}
	root := os.Getenv("VERIF_BEHAVIOURS")
	if root == "" {
		t.Fatal("VERIF_BEHAVIOURS not set")
	}
	dirs, _ := filepath.Glob(filepath.Join(root, "*", "meta.json"))
	if _, err := os.Stat(filepath.Join(root, "meta.json")); err == nil {
		dirs = append(dirs, filepath.Join(root, "meta.json"))
	}
	sort.Strings(dirs)
	if len(dirs) == 0 {
		t.Fatal("no emitted behaviours under " + root)
	}
	b := tierBudget()
	seed := vfutil.Seed()
	workers := vfutil.EnvInt("VERIF_ACL_WORKERS", 6)
	totals := map[string]int{}
	for _, mf := range dirs {
		dir := filepath.Dir(mf)
		meta, err := loadMeta(dir)
		if err != nil {
			t.Fatal(err)
		}
		states, err := loadStates(dir)
		if err != nil {
			t.Fatal(err)
		}
		h, err := newHarness(t, rep, prop, meta, filepath.Base(dir))
		if err != nil {
			rep.DriftNote("[%s] %v", filepath.Base(dir), err)
			continue
		}
		// the same model state may be emitted by several simulated behaviours: execute it once
		seen := map[string]bool{}
		var todo []*StateFile
		for _, sf := range states {
			k := sf.S.Post.Digest(meta.AccSeq, meta.InvIds) + fmt.Sprint(sf.S.Cf, sf.S.Held, sf.Full, sf.Batches)
			if seen[k] {
				continue
			}
			seen[k] = true
			todo = append(todo, sf)
		}
		var wg sync.WaitGroup
		ch := make(chan *StateFile)
		for i := 0; i < workers; i++ {
			wg.Add(1)
			go func() {
				defer wg.Done()
				for sf := range ch {
					func() {
						defer func() {
							if r := recover(); r != nil {
								// a panic of the harness itself must not look like a verdict
								t.Errorf("harness panic in %s/%s: %v", h.cfg, sf.file, r)
								panic(r)
							}
						}()
						h.runState(sf, b, seed)
					}()
				}
			}()
		}
		for _, sf := range todo {
			ch <- sf
		}
		close(ch)
		wg.Wait()
		for k, v := range h.cnt {
			totals[k] += v
		}
		totals["states"] += len(todo)
	}
	for k, v := range totals {
		rep.SetExtra(k, v)
	}
	complete = true
	if rep.NumViolations() > 0 {
		t.Fail()
	}
}

func runReplayObject(t *testing.T, rep *vfutil.Report, prop string, raw json.RawMessage) {
	var ro replayObj
	if err := json.Unmarshal(raw, &ro); err != nil {
		t.Fatalf("replay object: %v", err)
	}
	meta := &Meta{AccSeq: ro.AccSeq, InvIds: ro.InvIds, InitPerm: ro.InitPerm, InitPrefix: ro.InitPrefix}
	h := &harness{t: t, rep: rep, prop: prop, meta: meta, cfg: ro.Cfg, cnt: map[string]int{}}
	h.w = newWorld(meta)
	c := newChain(h.w)
	for _, r := range meta.InitPrefix {
		rd := c.render(r, false)
		if err := c.commit(r, rd); err != nil {
			t.Fatalf("start-state prefix rejected: %v", err)
		}
	}
	h.base = c
	ch, err := h.walk(ro.Path, ro.PathEnc)
	if err != nil {
		// the path itself is no longer accepted (e.g. the defect has been repaired upstream of the edge)
		t.Logf("replay: %v", err)
		rep.Case("replay-path-rejected")
		return
	}
	rep.AddReplayed(1)
	switch ro.Check {
	case "keys":
		h.checkKeys(ch, ro.Path, nil)
	case "builder":
		if ro.Edge != nil {
			st := ch.project(ch.l.AclState())
			h.builderEdge(ch, ro.Path, st, AccEdge{Rec: *ro.Edge}, false)
			if ro.Edge.Cs[0].K == "RequestAccept" {
				h.builderEdge(ch, ro.Path, st, AccEdge{Rec: *ro.Edge}, true)
			}
		}
	default:
		if ro.Edge != nil {
			ch.enc = ro.Enc
			h.evalEdge(ch, ro.Path, *ro.Edge, ro.Alt, verdict{known: false})
		}
	}
}

// TestCounterexamples executes counterexamples that TLC found in the "as-is" instances of the
// specification (one FIX_* deviation switched off) on the real list: the records before the last one
// are the path, the last record is the edge.  On an unrepaired tree the real list accepts the edge and
// the property predicate fails on the real observations (VIOLATION); on a repaired tree the real list
// refuses the offending record.
func TestCounterexamples(t *testing.T) {
	prop := property()
	rep := vfutil.NewReport(prop)
	complete := false
	defer func() { rep.Save(complete) }()
	root := os.Getenv("VERIF_CEX")
	dirs, _ := filepath.Glob(filepath.Join(root, "*", "cex.json"))
	sort.Strings(dirs)
	refused, reproduced := 0, 0
	for _, cf := range dirs {
		dir := filepath.Dir(cf)
		meta, err := loadMeta(dir)
		if err != nil {
			t.Fatal(err)
		}
		var cex struct {
			Name string `json:"name"`
			Prop string `json:"prop"`
			Path []Rec  `json:"path"`
		}
		b, err := os.ReadFile(cf)
		if err != nil {
			t.Fatal(err)
		}
		if err := json.Unmarshal(b, &cex); err != nil || len(cex.Path) == 0 {
			t.Fatalf("%s: bad counterexample file: %v", cf, err)
		}
		h, err := newHarness(t, rep, prop, meta, "asis-"+cex.Name)
		if err != nil {
			rep.DriftNote("[asis-%s] %v", cex.Name, err)
			continue
		}
		path, edge := cex.Path[:len(cex.Path)-1], cex.Path[len(cex.Path)-1]
		rep.Case("cex|" + cex.Name)
		c, err := h.walk(path, 0)
		if err != nil {
			refused++
			t.Logf("counterexample %s: the real list refuses the path: %v", cex.Name, err)
			rep.Sample(map[string]any{"counterexample": cex.Name, "model_property": cex.Prop, "outcome": "refused by the real list: " + err.Error()})
			continue
		}
		rep.AddReplayed(1)
		rep.AddSteps(len(cex.Path))
		before := rep.NumViolations()
		pre := c.project(c.l.AclState())
		rd := c.render(edge, false)
		_, verr := c.validate(rd.raw)
		h.evalEdge(c, path, edge, false, verdict{known: false})
		out := "accepted, property predicates hold on the real observations"
		if verr != nil {
			refused++
			out = "last record refused by the real list: " + verr.Error()
		} else if rep.NumViolations() > before {
			reproduced++
			out = "reproduced on the real list"
		}
		_ = pre
		rep.Sample(map[string]any{"counterexample": cex.Name, "model_property": cex.Prop, "records": fmt.Sprint(cex.Path), "outcome": out})
	}
	rep.SetExtra("counterexamples", len(dirs))
	rep.SetExtra("counterexamples_refused_by_code", refused)
	rep.SetExtra("counterexamples_reproduced", reproduced)
	complete = true
	if rep.NumViolations() > 0 {
		t.Fail()
	}
}
