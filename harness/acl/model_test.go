// Package acl binds spec/acl/Acl.tla to the real ACL list (commonspace/object/acl/list), properties
// C04 (privilege rules) and C05 (read keys).
//
// TLC (AclGen.tla) emits one JSON file per model state: a witness path of accepted records, the
// model state, every accepted record with its predicted post-state and - for "full" states - the
// verdict (first failing guard) of every record of the alphabet.  The harness replays the path on a
// real, fully validating AclList (recordverifier.NewValidateFull), then renders EVERY selected edge as
// a raw record built directly from protobuf, signed with the author's real key and carrying real key
// ciphertexts, and submits it.  Oracles are the property predicates of Acl.tla evaluated on the real
// pre/post AclState; spec/code disagreement without a predicate failure is drift.
package acl

import (
	"encoding/json"
	"fmt"
	"os"
	"path/filepath"
	"sort"
	"strings"
)

// Content is one AclContentValue of the model alphabet (Acl.tla, operator C).
type Content struct {
	K string `json:"k"` // kind
	T string `json:"t"` // target account or "-"
	P string `json:"p"` // permission or "-"
	I string `json:"i"` // invite id (slot), "bogus" or "-"
	Q string `json:"q"` // account whose pending request is meant, "bogus" or "-"
	V string `json:"v"` // variant
}

func (c Content) String() string {
	return fmt.Sprintf("%s(t=%s,p=%s,i=%s,q=%s,v=%s)", c.K, c.T, c.P, c.I, c.Q, c.V)
}

// Rec is a record: author + contents.
type Rec struct {
	A  string    `json:"a"`
	Cs []Content `json:"cs"`
}

func (r Rec) String() string {
	parts := make([]string, len(r.Cs))
	for i, c := range r.Cs {
		parts[i] = c.String()
	}
	return r.A + ":[" + strings.Join(parts, ";") + "]"
}

type InvState struct {
	St   string `json:"st"`   // unused | live | revoked
	Type string `json:"type"` // req | any | -
	Perm string `json:"perm"`
	// the model also tracks "key" (an EncryptedReadKey is present); the exported API does not show it
}

// Post is the projection of an AclState that model and code are compared on.
type Post struct {
	Ent    map[string]bool     `json:"ent"`
	Perm   map[string]string   `json:"perm"`
	Status map[string]string   `json:"status"`
	Req    map[string]string   `json:"req"`
	Rgen   map[string]int      `json:"rgen"` // key generation (1-based) a pending join request was filed under, else 0
	Inv    map[string]InvState `json:"inv"`
	Opts   string              `json:"opts"`
	Ng     int                 `json:"ng"`
}

func (p *Post) Digest(accSeq, invIds []string) string {
	var b strings.Builder
	for _, a := range accSeq {
		e := "-"
		if p.Ent[a] {
			e = "+"
		}
		fmt.Fprintf(&b, "%s%s:%s/%s/%s@%d ", e, a, p.Perm[a], p.Status[a], p.Req[a], p.Rgen[a])
	}
	for _, i := range invIds {
		iv := p.Inv[i]
		fmt.Fprintf(&b, "%s:%s/%s/%s ", i, iv.St, iv.Type, iv.Perm)
	}
	fmt.Fprintf(&b, "opts=%s ng=%d", p.Opts, p.Ng)
	return b.String()
}

// ModelState is the full model state s of Acl.tla.
type ModelState struct {
	Post
	Cf   [][]string     `json:"cf"`
	Held map[string]int `json:"held"`
	Dbl  bool           `json:"dbl"`
}

func (m *ModelState) UnmarshalJSON(b []byte) error {
	var aux struct {
		Cf   [][]string     `json:"cf"`
		Held map[string]int `json:"held"`
		Dbl  bool           `json:"dbl"`
	}
	if err := json.Unmarshal(b, &m.Post); err != nil {
		return err
	}
	if err := json.Unmarshal(b, &aux); err != nil {
		return err
	}
	m.Cf, m.Held, m.Dbl = aux.Cf, aux.Held, aux.Dbl
	m.Ng = len(m.Cf)
	return nil
}

// Der mirrors Acl.tla Der(x, p, g) (g is 1-based).
func (m *ModelState) Der(p string, g int) bool {
	for h := g; h <= len(m.Cf); h++ {
		for _, q := range m.Cf[h-1] {
			if q == p {
				return true
			}
		}
	}
	return false
}

type AccEdge struct {
	Rec
	Post Post `json:"post"`
}

type StateFile struct {
	Depth   int        `json:"depth"`
	Path    []Rec      `json:"path"`
	S       ModelState `json:"s"`
	Full    bool       `json:"full"`
	Whys    []string   `json:"whys"`
	Acc     []AccEdge  `json:"acc"`
	Batches bool       `json:"batches"`
	AccB    []AccEdge  `json:"accB"`
	PruneOK bool       `json:"pruneOK"`
	file    string
}

type AlphaEntry struct {
	A string  `json:"a"`
	C Content `json:"c"`
}

type Meta struct {
	AccSeq      []string          `json:"accSeq"`
	InvIds      []string          `json:"invIds"`
	InitPerm    map[string]string `json:"initPerm"`
	InitRemoved []string          `json:"initRemoved"`
	InitPrefix  []Rec             `json:"initPrefix"`
	Init        ModelState        `json:"init"`
	Alphabet    []AlphaEntry      `json:"alphabet"`
	Fix         map[string]bool   `json:"fix"`
}

func loadMeta(dir string) (*Meta, error) {
	b, err := os.ReadFile(filepath.Join(dir, "meta.json"))
	if err != nil {
		return nil, err
	}
	m := &Meta{}
	if err := json.Unmarshal(b, m); err != nil {
		return nil, fmt.Errorf("meta.json: %w", err)
	}
	return m, nil
}

func loadStates(dir string) ([]*StateFile, error) {
	names, err := filepath.Glob(filepath.Join(dir, "b*.json"))
	if err != nil {
		return nil, err
	}
	sort.Strings(names)
	res := make([]*StateFile, 0, len(names))
	for _, n := range names {
		b, err := os.ReadFile(n)
		if err != nil {
			return nil, err
		}
		sf := &StateFile{}
		if err := json.Unmarshal(b, sf); err != nil {
			return nil, fmt.Errorf("%s: %w", n, err)
		}
		sf.file = filepath.Base(n)
		res = append(res, sf)
	}
	return res, nil
}

func recKey(r Rec) string { return r.String() }

// whyErr splits "<check id>/<error class>".
func whyErr(why string) (check, class string) {
	if i := strings.IndexByte(why, '/'); i >= 0 {
		return why[:i], why[i+1:]
	}
	return why, ""
}
