package acl

import (
	"fmt"
	"sort"
	"strings"
)

// ---------------------------------------------------------------------------------------------
// C04: the step predicates of Acl.tla (ContentProps), evaluated on REAL pre/post states
// x --(author a, content c)--> y
// ---------------------------------------------------------------------------------------------

func mgr(p string) bool { return p == "owner" || p == "admin" }

func le(p, q string) bool { // AclPermissions.IsLessOrEqual, as the property reads it ("at most the invite's permissions")
	switch p {
	case "none":
		return true
	case "reader":
		return q != "none"
	case "writer":
		return q == "writer" || q == "admin"
	case "admin":
		return q == "admin"
	}
	return false
}

func owners(x *Post, accs []string) []string {
	var r []string
	for _, a := range accs {
		if x.Perm[a] == "owner" {
			r = append(r, a)
		}
	}
	return r
}

func liveAny(x *Post, i string) bool { iv, ok := x.Inv[i]; return ok && iv.St == "live" && iv.Type == "any" }

type predFail struct {
	pred   string
	target string
	detail string
}

// contentProps returns the failed predicates (empty = all hold).
func contentProps(accs, invs []string, x *Post, a string, c Content, y *Post) []predFail {
	var f []predFail
	add := func(pred, t, d string) { f = append(f, predFail{pred, t, d}) }
	pa := x.Perm[a]
	// OneOwner
	if len(owners(x, accs)) == 1 && len(owners(y, accs)) != 1 {
		add("OneOwner", "-", fmt.Sprintf("owners after the record: %v", owners(y, accs)))
	}
	for _, t := range accs {
		// AdminOnlyByOwner (accounts)
		if (x.Perm[t] == "admin") != (y.Perm[t] == "admin") {
			viaAdminInvite := t == a && pa == "none" && c.K == "InviteJoin" && liveAny(x, c.I) && x.Inv[c.I].Perm == "admin"
			if !(pa == "owner" || viaAdminInvite || (t == a && pa == "admin")) {
				add("AdminOnlyByOwner", t, fmt.Sprintf("%s: %s -> %s by %s (%s)", t, x.Perm[t], y.Perm[t], a, pa))
			}
		}
		// GuestNeverRepermissioned
		if x.Perm[t] == "guest" && !(y.Perm[t] == "guest" || y.Perm[t] == "none") {
			add("GuestNeverRepermissioned", t, fmt.Sprintf("guest %s became %s", t, y.Perm[t]))
		}
		// OwnerNeverDemotedOrRemovedByOthers
		if x.Perm[t] == "owner" && y.Perm[t] != "owner" && t != a {
			add("OwnerNeverDemotedOrRemovedByOthers", t, fmt.Sprintf("owner %s became %s by %s", t, y.Perm[t], a))
		}
		// OutsiderOnlyViaLiveInvite
		if x.Perm[t] == "none" && y.Perm[t] != "none" {
			ok := mgr(pa)
			if !ok && t == a && c.K == "InviteJoin" && liveAny(x, c.I) {
				yp := y.Perm[t]
				ok = (yp == "reader" || yp == "writer" || yp == "admin") && le(yp, x.Inv[c.I].Perm)
			}
			if !ok {
				add("OutsiderOnlyViaLiveInvite", t, fmt.Sprintf("%s gained %s through %s by %s (%s)", t, y.Perm[t], c.K, a, pa))
			}
		}
		// MembershipOpsByManagers / MemberOnlyAffectsSelf (other accounts)
		if t != a && !mgr(pa) {
			if x.Perm[t] != y.Perm[t] || x.Status[t] != y.Status[t] || x.Req[t] != y.Req[t] || x.Ent[t] != y.Ent[t] {
				add("MembershipOpsByManagers", t, fmt.Sprintf("%s (%s) changed %s: %s/%s/%s -> %s/%s/%s", a, pa, t,
					x.Perm[t], x.Status[t], x.Req[t], y.Perm[t], y.Status[t], y.Req[t]))
			}
		}
	}
	// Admin-granting invites only by the owner
	for _, i := range invs {
		xa := liveAny(x, i) && x.Inv[i].Perm == "admin"
		ya := liveAny(y, i) && y.Inv[i].Perm == "admin"
		if ya && !xa && pa != "owner" {
			add("AdminOnlyByOwner", i, fmt.Sprintf("Admin invite %s created/raised by %s (%s)", i, a, pa))
		}
	}
	// OwnershipAndOptionsByOwner
	if pa != "owner" {
		if strings.Join(owners(x, accs), ",") != strings.Join(owners(y, accs), ",") {
			add("OwnershipAndOptionsByOwner", "-", fmt.Sprintf("owners %v -> %v by %s (%s)", owners(x, accs), owners(y, accs), a, pa))
		}
		if x.Opts != y.Opts {
			add("OwnershipAndOptionsByOwner", "-", fmt.Sprintf("options %s -> %s by %s (%s)", x.Opts, y.Opts, a, pa))
		}
	}
	// invites, options, rotations by non-managers
	if !mgr(pa) {
		for _, i := range invs {
			if x.Inv[i] != y.Inv[i] {
				add("MembershipOpsByManagers", i, fmt.Sprintf("invite %s changed by %s (%s)", i, a, pa))
			}
		}
		if x.Ng != y.Ng {
			add("MembershipOpsByManagers", "-", fmt.Sprintf("read key rotated by %s (%s)", a, pa))
		}
		// MemberOnlyAffectsSelf: own permission only through an invite join, own request only by request contents
		if x.Perm[a] != y.Perm[a] && !(pa == "none" && c.K == "InviteJoin") {
			add("MemberOnlyAffectsSelf", a, fmt.Sprintf("%s changed its own permission %s -> %s with %s", a, x.Perm[a], y.Perm[a], c.K))
		}
		if x.Req[a] != y.Req[a] && !(c.K == "RequestJoin" || c.K == "RequestRemove" || c.K == "RequestCancel" || c.K == "InviteJoin") {
			add("MemberOnlyAffectsSelf", a, fmt.Sprintf("%s changed its request state with %s", a, c.K))
		}
	}
	return f
}

// violation key: predicate + content kind + roles involved (stable, input-class specific)
func c04Key(x *Post, a string, c Content, pf predFail) string {
	tp, treq := "-", "-"
	if p, ok := x.Perm[pf.target]; ok {
		tp = p
		treq = x.Req[pf.target]
	}
	return fmt.Sprintf("%s:%s:author=%s:target=%s:req=%s", pf.pred, c.K, x.Perm[a], tp, treq)
}

func diffPost(accs, invs []string, m, r *Post) string {
	var d []string
	for _, a := range accs {
		if m.Ent[a] != r.Ent[a] {
			d = append(d, fmt.Sprintf("ent[%s] model=%v code=%v", a, m.Ent[a], r.Ent[a]))
		}
		if m.Perm[a] != r.Perm[a] {
			d = append(d, fmt.Sprintf("perm[%s] model=%s code=%s", a, m.Perm[a], r.Perm[a]))
		}
		if m.Status[a] != r.Status[a] {
			d = append(d, fmt.Sprintf("status[%s] model=%s code=%s", a, m.Status[a], r.Status[a]))
		}
		if m.Req[a] != r.Req[a] {
			d = append(d, fmt.Sprintf("req[%s] model=%s code=%s", a, m.Req[a], r.Req[a]))
		}
		if m.Rgen[a] != r.Rgen[a] {
			d = append(d, fmt.Sprintf("request generation[%s] model=%d code=%d", a, m.Rgen[a], r.Rgen[a]))
		}
	}
	for _, i := range invs {
		if m.Inv[i] != r.Inv[i] {
			d = append(d, fmt.Sprintf("inv[%s] model=%v code=%v", i, m.Inv[i], r.Inv[i]))
		}
	}
	var extra []string
	for k := range r.Ent {
		if strings.HasPrefix(k, "?") {
			extra = append(extra, k)
		}
	}
	for k := range r.Inv {
		if strings.HasPrefix(k, "?") {
			extra = append(extra, k)
		}
	}
	sort.Strings(extra)
	for _, k := range extra {
		d = append(d, "code has unknown entry "+k)
	}
	if m.Opts != r.Opts {
		d = append(d, fmt.Sprintf("opts model=%s code=%s", m.Opts, r.Opts))
	}
	if m.Ng != r.Ng {
		d = append(d, fmt.Sprintf("generations model=%d code=%d", m.Ng, r.Ng))
	}
	return strings.Join(d, "; ")
}
