package acl

import (
	"fmt"
	"strings"

	"github.com/anyproto/any-sync/commonspace/object/accountdata"
	"github.com/anyproto/any-sync/commonspace/object/acl/aclrecordproto"
	"github.com/anyproto/any-sync/commonspace/object/acl/list"
	"github.com/anyproto/any-sync/commonspace/object/acl/recordverifier"
	"github.com/anyproto/any-sync/consensus/consensusproto"
	"github.com/anyproto/any-sync/util/crypto"
)

// ---------------------------------------------------------------------------------------------
// C05: key layer.  For the real log reached by a path:
//   * every account's PRIVATE VIEW is rebuilt from the raw records with that account's keys only
//     (BuildAclListWithIdentity on a fresh in-memory storage), once fully validating and once as an
//     ordinary non-validating client (keep-only-our-keys decoder);  Keys()[generation].ReadKey is
//     compared with the true key of the generation;
//   * independently, a log-level adversary holding one private key (an account's or an invite's)
//     tries every ciphertext of the raw log and unwraps the EncryptedOldReadKey chain.
// Oracles: MembersDeriveAll, RemovedDeriveNoNewer, LiveInvitesHoldCurrent (Acl.tla) on these
// observations; the model's Der(p, g) is compared as drift.
// ---------------------------------------------------------------------------------------------

func safeDecrypt(dec func([]byte) ([]byte, error), ct []byte) (res []byte, ok bool) {
	defer func() {
		if r := recover(); r != nil {
			res, ok = nil, false
		}
	}()
	if len(ct) < 48 {
		return nil, false
	}
	b, err := dec(ct)
	if err != nil {
		return nil, false
	}
	return b, true
}

type logBlobs struct {
	asym [][]byte // every EncryptedReadKey of the log, whoever it is addressed to
	sym  [][]byte // every EncryptedOldReadKey
	// recipients of the rotation contents per record id: identities as marshalled
	rot map[string][]rotRecipients
}

type rotRecipients struct {
	accounts [][]byte
	invites  [][]byte
}

func scanLog(raws []*consensusproto.RawRecordWithId) (*logBlobs, error) {
	lb := &logBlobs{rot: map[string][]rotRecipients{}}
	for i, rw := range raws {
		raw := &consensusproto.RawRecord{}
		if err := raw.UnmarshalVT(rw.Payload); err != nil {
			return nil, err
		}
		if i == 0 {
			root := &aclrecordproto.AclRoot{}
			if err := root.UnmarshalVT(raw.Payload); err != nil {
				return nil, err
			}
			lb.asym = append(lb.asym, root.EncryptedReadKey)
			continue
		}
		rec := &consensusproto.Record{}
		if err := rec.UnmarshalVT(raw.Payload); err != nil {
			return nil, err
		}
		data := &aclrecordproto.AclData{}
		if err := data.UnmarshalVT(rec.Data); err != nil {
			return nil, err
		}
		addRot := func(rk *aclrecordproto.AclReadKeyChange) {
			if rk == nil {
				return
			}
			rr := rotRecipients{}
			for _, k := range rk.AccountKeys {
				lb.asym = append(lb.asym, k.EncryptedReadKey)
				rr.accounts = append(rr.accounts, k.Identity)
			}
			for _, k := range rk.InviteKeys {
				lb.asym = append(lb.asym, k.EncryptedReadKey)
				rr.invites = append(rr.invites, k.Identity)
			}
			if rk.EncryptedOldReadKey != nil {
				lb.sym = append(lb.sym, rk.EncryptedOldReadKey)
			}
			lb.rot[rw.Id] = append(lb.rot[rw.Id], rr)
		}
		for _, c := range data.AclContent {
			switch {
			case c.GetInvite() != nil:
				lb.asym = append(lb.asym, c.GetInvite().EncryptedReadKey)
			case c.GetAccountsAdd() != nil:
				for _, a := range c.GetAccountsAdd().Additions {
					lb.asym = append(lb.asym, a.EncryptedReadKey)
				}
			case c.GetRequestAccept() != nil:
				lb.asym = append(lb.asym, c.GetRequestAccept().EncryptedReadKey)
			case c.GetInviteJoin() != nil:
				lb.asym = append(lb.asym, c.GetInviteJoin().EncryptedReadKey)
			case c.GetReadKeyChange() != nil:
				addRot(c.GetReadKeyChange())
			case c.GetAccountRemove() != nil:
				addRot(c.GetAccountRemove().ReadKeyChange)
			}
		}
	}
	return lb, nil
}

// adversary returns, per generation, whether the holder of priv can obtain its read key from the log.
func adversary(priv crypto.PrivKey, lb *logBlobs, gens []genInfo) []bool {
	var pool []crypto.SymKey
	addKey := func(b []byte) bool {
		k, err := crypto.UnmarshallAESKeyProto(b)
		if err != nil {
			return false
		}
		for _, p := range pool {
			if p.Equals(k) {
				return false
			}
		}
		pool = append(pool, k)
		return true
	}
	for _, ct := range lb.asym {
		if b, ok := safeDecrypt(priv.Decrypt, ct); ok {
			addKey(b)
		}
	}
	for changed := true; changed; {
		changed = false
		for _, k := range pool {
			for _, ct := range lb.sym {
				if b, ok := safeDecrypt(k.Decrypt, ct); ok && addKey(b) {
					changed = true
				}
			}
		}
	}
	has := make([]bool, len(gens))
	for g, gi := range gens {
		for _, k := range pool {
			if k.Equals(gi.key) {
				has[g] = true
			}
		}
	}
	return has
}

type viewResult struct {
	err   error
	has   []bool
	wrong []int // generations for which the view holds a key different from the true one
}

func viewKeys(keys *accountdata.AccountKeys, raws []*consensusproto.RawRecordWithId, v recordverifier.AcceptorVerifier, gens []genInfo) (res viewResult) {
	defer func() {
		if r := recover(); r != nil {
			res.err = fmt.Errorf("panic while building the view: %v", r)
		}
	}()
	l, err := buildList(keys, raws, v)
	if err != nil {
		res.err = err
		return
	}
	ks := l.AclState().Keys()
	res.has = make([]bool, len(gens))
	for g, gi := range gens {
		if k, ok := ks[gi.recId]; ok && k.ReadKey != nil {
			res.has[g] = true
			if !k.ReadKey.Equals(gi.key) {
				res.wrong = append(res.wrong, g+1)
			}
		}
	}
	if cur, err := l.AclState().CurrentReadKey(); err == nil && cur != nil && !cur.Equals(gens[len(gens)-1].key) {
		res.wrong = append(res.wrong, len(gens))
	}
	return
}

func bits(b []bool) string {
	var s strings.Builder
	for _, x := range b {
		if x {
			s.WriteByte('1')
		} else {
			s.WriteByte('0')
		}
	}
	return s.String()
}

// checkKeys evaluates the C05 key-layer predicates on the real log of chain c. ms (optional) is the
// model state to compare derivability with (drift).
func (h *harness) checkKeys(c *Chain, path []Rec, ms *ModelState) (violated bool) {
	if h.prop != "C05" {
		return
	}
	v0 := h.rep.NumViolations()
	c0 := h.violCount()
	defer func() { violated = h.rep.NumViolations() > v0 || h.violCount() > c0 }()
	w := c.w
	st := c.project(c.l.AclState())
	lb, err := scanLog(c.raws)
	if err != nil {
		panic(err)
	}
	n := len(c.gens)
	h.count("key_states", 1)
	role := func(a string) string { return st.Perm[a] + "/" + st.Status[a] }
	for _, a := range w.meta.AccSeq {
		vv := viewKeys(w.acc[a], c.raws, recordverifier.NewValidateFull(), c.gens)
		vn := viewKeys(w.acc[a], c.raws, nonValidating{}, c.gens)
		adv := adversary(w.acc[a].SignKey, lb, c.gens)
		h.count("views_built", 2)
		h.rep.Case(fmt.Sprintf("keys|%d|%s|%s", n, role(a), bits(adv)))
		member := st.Perm[a] != "none"
		// the same raw log, the same private key: the fully decoding and the keep-only-ours client view must hold
		// the same key material
		if vv.err == nil && vn.err == nil && bits(vv.has) != bits(vn.has) {
			h.keyViolate("ViewModesDisagree:"+role(a)+":"+lastKinds(path),
				fmt.Sprintf("%s (%s): the validating view derives generations %s, the plain client view (keep-only-ours decode) %s from the same log (identity spelling %d) after %v",
					a, role(a), bits(vv.has), bits(vn.has), c.pathEnc, path), h.robj(c, path, nil, false, "keys"))
		}
		for mode, v := range map[string]viewResult{"validating": vv, "client": vn} {
			if v.err != nil {
				if member {
					h.keyViolate("MembersDeriveAll:view-build-failed:"+role(a),
						fmt.Sprintf("the %s view of member %s (%s) cannot be built from the accepted log: %v (path %v)", mode, a, role(a), v.err, path),
						h.robj(c, path, nil, false, "keys"))
				} else {
					h.count("nonmember_view_build_failed", 1)
				}
				continue
			}
			if len(v.wrong) > 0 {
				h.keyViolate("WrongKey:"+role(a), fmt.Sprintf("the %s view of %s holds a read key different from the true key for generations %v (path %v)", mode, a, v.wrong, path),
					h.robj(c, path, nil, false, "keys"))
			}
			for g := 0; g < n; g++ {
				if member && !v.has[g] {
					h.keyViolate("MembersDeriveAll:"+role(a)+":"+lastKinds(path),
						fmt.Sprintf("member %s (%s) cannot derive read-key generation %d of %d in its own %s view (derivable: %s) after %v", a, role(a), g+1, n, mode, bits(v.has), path),
						h.robj(c, path, nil, false, "keys"))
					break
				}
				if !member && v.has[g] && g+1 > c.held[a] {
					h.keyViolate("RemovedDeriveNoNewer:"+role(a)+":"+lastKinds(path),
						fmt.Sprintf("%s (%s, last standing at generation %d) derives generation %d in its %s view after %v", a, role(a), c.held[a], g+1, mode, path),
						h.robj(c, path, nil, false, "keys"))
					break
				}
				if v.has[g] && !adv[g] {
					// the view cannot know more than the log gives to the key holder
					h.rep.DriftNote("[%s] view of %s holds generation %d that the log-level derivation does not yield", h.cfg, a, g+1)
				}
			}
			if ms != nil && bits(v.has) != modelBits(ms, a, n) {
				h.rep.DriftNote("[%s] derivable generations of %s (%s, %s view): model %s, code %s after %v", h.cfg, a, role(a), mode, modelBits(ms, a, n), bits(v.has), path)
			}
		}
		// the adversary with the account's private key
		for g := 0; g < n; g++ {
			if !member && adv[g] && g+1 > c.held[a] {
				h.keyViolate("RemovedDeriveNoNewer:log:"+role(a)+":"+lastKinds(path),
					fmt.Sprintf("the log contains a ciphertext chain that gives %s (%s, last standing at generation %d) the key of generation %d after %v", a, role(a), c.held[a], g+1, path),
					h.robj(c, path, nil, false, "keys"))
				break
			}
		}
		if ms != nil && bits(adv) != modelBits(ms, a, n) {
			h.rep.DriftNote("[%s] log-level derivable generations of %s: model %s, code %s after %v", h.cfg, a, modelBits(ms, a, n), bits(adv), path)
		}
	}
	for _, i := range w.meta.InvIds {
		if _, issued := c.invRec[i]; !issued {
			continue
		}
		adv := adversary(w.inv[i], lb, c.gens)
		live := liveAny(st, i)
		h.rep.Case(fmt.Sprintf("keys|%d|invite-%v|%s", n, live, bits(adv)))
		if live && !adv[n-1] {
			h.keyViolate("LiveInvitesHoldCurrent", fmt.Sprintf("the live open invite %s does not give the current read key (derivable %s) after %v", i, bits(adv), path),
				h.robj(c, path, nil, false, "keys"))
		}
		if !live {
			for g := 0; g < n; g++ {
				if adv[g] && g+1 > c.held[i] {
					h.keyViolate("RemovedDeriveNoNewer:invite:"+lastKinds(path),
						fmt.Sprintf("the key of the revoked invite %s (live until generation %d) still opens generation %d after %v", i, c.held[i], g+1, path),
						h.robj(c, path, nil, false, "keys"))
					break
				}
			}
		}
		if ms != nil && bits(adv) != modelBits(ms, i, n) {
			h.rep.DriftNote("[%s] derivable generations of invite %s: model %s, code %s after %v", h.cfg, i, modelBits(ms, i, n), bits(adv), path)
		}
	}
	_ = list.ErrNoReadKey
	return
}

func (h *harness) violCount() int {
	h.mu.Lock()
	defer h.mu.Unlock()
	return h.cnt["key_violations_seen"]
}

func (h *harness) keyViolate(key, desc string, replay any) {
	h.count("key_violations_seen", 1)
	h.rep.Violate(key, desc, replay)
}

func modelBits(ms *ModelState, p string, n int) string {
	b := make([]bool, n)
	for g := 1; g <= n && g <= len(ms.Cf); g++ {
		b[g-1] = ms.Der(p, g)
	}
	return bits(b)
}

// lastKinds: content kinds of the last record of the path (classifies the history for violation keys)
func lastKinds(path []Rec) string {
	if len(path) == 0 {
		return "start"
	}
	var k []string
	for _, c := range path[len(path)-1].Cs {
		k = append(k, c.K)
	}
	return strings.Join(k, "+")
}
