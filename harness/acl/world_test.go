package acl

import (
	"context"
	"crypto/rand"
	"errors"
	"fmt"
	"sort"
	"time"

	"github.com/anyproto/any-sync/commonspace/object/accountdata"
	"github.com/anyproto/any-sync/commonspace/object/acl/aclrecordproto"
	"github.com/anyproto/any-sync/commonspace/object/acl/list"
	"github.com/anyproto/any-sync/commonspace/object/acl/recordverifier"
	"github.com/anyproto/any-sync/consensus/consensusproto"
	"github.com/anyproto/any-sync/util/cidutil"
	"github.com/anyproto/any-sync/util/crypto"
)

// nonValidating is the verifier of an ordinary client: acceptor signatures are not modelled here
// (VerifyAcceptor accepts), content validation is off, the record decoder keeps only our own keys.
type nonValidating struct{}

func (nonValidating) VerifyAcceptor(*consensusproto.RawRecord) error { return nil }
func (nonValidating) ShouldValidate() bool                           { return false }

var permProto = map[string]aclrecordproto.AclUserPermissions{
	"none": aclrecordproto.AclUserPermissions_None, "owner": aclrecordproto.AclUserPermissions_Owner,
	"admin": aclrecordproto.AclUserPermissions_Admin, "writer": aclrecordproto.AclUserPermissions_Writer,
	"reader": aclrecordproto.AclUserPermissions_Reader, "guest": aclrecordproto.AclUserPermissions_Guest,
}

func permName(p list.AclPermissions) string {
	switch aclrecordproto.AclUserPermissions(p) {
	case aclrecordproto.AclUserPermissions_None:
		return "none"
	case aclrecordproto.AclUserPermissions_Owner:
		return "owner"
	case aclrecordproto.AclUserPermissions_Admin:
		return "admin"
	case aclrecordproto.AclUserPermissions_Writer:
		return "writer"
	case aclrecordproto.AclUserPermissions_Reader:
		return "reader"
	case aclrecordproto.AclUserPermissions_Guest:
		return "guest"
	}
	return fmt.Sprintf("perm%d", int(p))
}

var statusName = map[list.AclStatus]string{
	list.StatusNone: "none", list.StatusJoining: "joining", list.StatusActive: "active", list.StatusRemoved: "removed",
	list.StatusDeclined: "declined", list.StatusRemoving: "removing", list.StatusCanceled: "canceled",
}

var errClass = map[string]error{
	"Insuff": list.ErrInsufficientPermissions, "NoAcc": list.ErrNoSuchAccount, "Dup": list.ErrDuplicateAccounts,
	"IsOwner": list.ErrIsOwner, "NoInv": list.ErrNoSuchInvite, "NoReq": list.ErrNoSuchRequest,
	"BadId": list.ErrIncorrectIdentity, "BadSig": list.ErrInvalidSignature, "BadKey": list.ErrIncorrectReadKey,
	"Pending": list.ErrPendingRequest, "NAcc": list.ErrIncorrectNumberOfAccounts, "NotAlone": list.ErrReadKeyChangeNotAlone,
}

// World: the real keys of one harness run and the shared ACL root.
type World struct {
	meta    *Meta
	acc     map[string]*accountdata.AccountKeys
	accPub  map[string][]byte // marshalled identities
	byStore map[string]string // pubkey storage string -> account name
	node    *accountdata.AccountKeys
	inv     map[string]crypto.PrivKey // one key pair per invite id
	invPub  map[string][]byte
	invName map[string]string // storage string of the invite pub key -> invite id
	owner   string
	root    *consensusproto.RawRecordWithId
	rootGen genInfo
}

type genInfo struct {
	recId   string
	key     crypto.SymKey   // the true read key of the generation
	metaKey crypto.PrivKey  // metadata key pair
	encOld  [][]byte        // EncryptedOldReadKey blobs of the rotation contents of that record
}

func must[T any](v T, err error) T {
	if err != nil {
		panic(err)
	}
	return v
}

func newWorld(meta *Meta) *World {
	w := &World{meta: meta, acc: map[string]*accountdata.AccountKeys{}, accPub: map[string][]byte{}, byStore: map[string]string{},
		inv: map[string]crypto.PrivKey{}, invPub: map[string][]byte{}, invName: map[string]string{}}
	for _, a := range meta.AccSeq {
		k := must(accountdata.NewRandom())
		w.acc[a] = k
		w.accPub[a] = must(k.SignKey.GetPublic().Marshall())
		w.byStore[string(k.SignKey.GetPublic().Storage())] = a
		if meta.InitPerm[a] == "owner" && w.owner == "" {
			w.owner = a
		}
	}
	w.node = must(accountdata.NewRandom())
	for _, i := range meta.InvIds {
		priv, pub, err := crypto.GenerateEd25519Key(rand.Reader)
		if err != nil {
			panic(err)
		}
		w.inv[i] = priv
		w.invPub[i] = must(pub.Marshall())
		w.invName[string(pub.Storage())] = i
	}
	// the root record (space creation) is the only record made with the client builder
	master, _, _ := crypto.GenerateRandomEd25519KeyPair()
	metaKey, _, _ := crypto.GenerateRandomEd25519KeyPair()
	readKey := crypto.NewAES()
	b := list.NewAclRecordBuilder("", crypto.NewKeyStorage(), w.acc[w.owner], recordverifier.NewValidateFull())
	w.root = must(b.BuildRoot(list.RootContent{PrivKey: w.acc[w.owner].SignKey, MasterKey: master, SpaceId: "verif-space",
		Change: list.ReadKeyChangePayload{MetadataKey: metaKey, ReadKey: readKey}, Metadata: []byte("owner")}))
	w.rootGen = genInfo{recId: w.root.Id, key: readKey, metaKey: metaKey}
	return w
}

func (w *World) pub(a string) crypto.PubKey { return w.acc[a].SignKey.GetPublic() }

func (w *World) first(in func(string) bool) string {
	for _, a := range w.meta.AccSeq {
		if in(a) {
			return a
		}
	}
	return "-"
}
func (w *World) firstInv(in func(string) bool) string {
	for _, i := range w.meta.InvIds {
		if in(i) {
			return i
		}
	}
	return "-"
}
func (w *World) other(a string) string { return w.first(func(b string) bool { return b != a }) }

// Chain: one real, fully validating AclList plus the bookkeeping that maps model names to real ids.
type Chain struct {
	w        *World
	l        list.AclList
	raws     []*consensusproto.RawRecordWithId
	gens     []genInfo
	invRec   map[string]string // invite id (slot) -> id of the record that created it
	invOf    map[string]string // record id -> invite id
	nextSlot int
	held     map[string]int // principal -> newest generation (1-based) while it had standing / was handed a key
	ts       int64
	enc      int // how identities are spelled in the records this chain renders: see spell
	pathEnc  int // the spelling the path records were rendered with
}

func buildList(keys *accountdata.AccountKeys, raws []*consensusproto.RawRecordWithId, v recordverifier.AcceptorVerifier) (list.AclList, error) {
	st, err := list.NewInMemoryStorage(raws[0].Id, raws)
	if err != nil {
		return nil, err
	}
	return list.BuildAclListWithIdentity(keys, st, v)
}

func newChain(w *World) *Chain {
	c := &Chain{w: w, raws: []*consensusproto.RawRecordWithId{w.root}, gens: []genInfo{w.rootGen},
		invRec: map[string]string{}, invOf: map[string]string{}, held: map[string]int{w.owner: 1}, ts: time.Now().Unix()}
	c.l = must(buildList(w.node, c.raws, recordverifier.NewValidateFull()))
	return c
}

func (c *Chain) fork() *Chain {
	n := &Chain{w: c.w, raws: append([]*consensusproto.RawRecordWithId(nil), c.raws...), gens: append([]genInfo(nil), c.gens...),
		invRec: map[string]string{}, invOf: map[string]string{}, nextSlot: c.nextSlot, held: map[string]int{}, ts: c.ts, enc: c.enc, pathEnc: c.pathEnc}
	for k, v := range c.invRec {
		n.invRec[k] = v
	}
	for k, v := range c.invOf {
		n.invOf[k] = v
	}
	for k, v := range c.held {
		n.held[k] = v
	}
	n.l = must(buildList(c.w.node, n.raws, recordverifier.NewValidateFull()))
	return n
}

// spell returns an identity (a marshalled cryptoproto.Key) in one of three semantically equal protobuf
// encodings: canonical (what PubKey.Marshall writes), with the default-valued key type written explicitly
// (08 00 <canonical>), or followed by a field the schema does not know (<canonical> 78 01). Another client
// implementation or encoder version may emit either; every place that resolves identities through
// KeyStorage.PubKeyFromProto must treat them alike.
func (c *Chain) spell(id []byte) []byte {
	switch c.enc % 3 {
	case 1:
		return append([]byte{0x08, 0x00}, id...)
	case 2:
		return append(append([]byte(nil), id...), 0x78, 0x01)
	}
	return id
}

func (c *Chain) slot() string {
	if c.nextSlot < len(c.w.meta.InvIds) {
		return c.w.meta.InvIds[c.nextSlot]
	}
	return "-"
}

// project maps a real AclState to the model's observable state.
func (c *Chain) project(st *list.AclState) *Post {
	w := c.w
	p := &Post{Ent: map[string]bool{}, Perm: map[string]string{}, Status: map[string]string{}, Req: map[string]string{},
		Rgen: map[string]int{}, Inv: map[string]InvState{}}
	for _, a := range w.meta.AccSeq {
		p.Perm[a], p.Status[a], p.Req[a] = "none", "none", "none"
	}
	for _, as := range st.CurrentAccounts() {
		a, ok := w.byStore[string(as.PubKey.Storage())]
		if !ok {
			p.Ent["?"+as.PubKey.Account()] = true // an account the model does not know: shows up as a mismatch
			continue
		}
		p.Ent[a] = true
		p.Perm[a] = permName(as.Permissions)
		if n, ok := statusName[as.Status]; ok {
			p.Status[a] = n
		} else {
			p.Status[a] = fmt.Sprintf("status%d", int(as.Status))
		}
	}
	for _, a := range w.meta.AccSeq {
		if !p.Ent[a] {
			p.Ent[a] = false
		}
		if rr, err := st.Record(w.pub(a)); err == nil {
			if rr.Type == list.RequestTypeJoin {
				p.Req[a] = "join"
				p.Rgen[a] = -1 // a generation the harness does not know: shows up as a mismatch
				for g, gi := range c.gens {
					if gi.recId == rr.KeyRecordId {
						p.Rgen[a] = g + 1
					}
				}
			} else {
				p.Req[a] = "remove"
			}
		}
	}
	for _, i := range w.meta.InvIds {
		if _, ok := c.invRec[i]; ok {
			p.Inv[i] = InvState{St: "revoked", Type: "-", Perm: "none"}
		} else {
			p.Inv[i] = InvState{St: "unused", Type: "-", Perm: "none"}
		}
	}
	for _, iv := range st.Invites() {
		i, ok := c.invOf[iv.Id]
		if !ok {
			i = c.slot() // created by the record being validated: its id is the id of that record
			if i == "-" {
				i = "?" + iv.Id
			}
		}
		is := InvState{St: "live"}
		if iv.Type == aclrecordproto.AclInviteType_AnyoneCanJoin {
			is.Type, is.Perm = "any", permName(iv.Permissions)
		} else if iv.Type == aclrecordproto.AclInviteType_RequestToJoin {
			is.Type, is.Perm = "req", permName(iv.Permissions) // stored as it came, although only anyone-can-join invites use it
		} else {
			is.Type, is.Perm = fmt.Sprintf("type%d", int(iv.Type)), permName(iv.Permissions)
		}
		p.Inv[i] = is
	}
	// revoked/unused entries of known slots keep Type "-" ; normalise like the model (NoInv / revoked keeps type+perm)
	if o := st.CurrentOptions(); o == nil {
		p.Opts = "unset"
	} else if o.DeleteRestricted {
		p.Opts = "v1"
	} else {
		p.Opts = "v0"
	}
	p.Ng = len(st.Keys())
	return p
}

// ---------------------------------------------------------------------------------------------
// rendering of model records as raw signed records
// ---------------------------------------------------------------------------------------------

type rendered struct {
	raw      *consensusproto.RawRecord
	withId   *consensusproto.RawRecordWithId
	rot      []rotInfo // rotation contents in the record
	keyTo    []keyGift // principals that are handed a key ciphertext by admission contents / invites
	mids     []*Post   // real intermediate states: mids[0] = pre, mids[k] = after content k (from prefix validation); nil if prefix rejected
	skip     string    // non-empty: the edge is outside the model bounds
	newSlot  bool
	contents []*aclrecordproto.AclContentValue
}

type keyGift struct {
	p        string
	afterRot bool // a rotation content precedes it in the same record
}

type rotInfo struct {
	key      crypto.SymKey
	metaKey  crypto.PrivKey
	accounts []string // recipient names (accounts)
	invites  []string // recipient invite ids
	encOld   []byte
}

func bogusId(tag string) string {
	id, _ := cidutil.NewCidFromBytes([]byte("bogus-" + tag))
	return id
}

func (c *Chain) encFor(pub crypto.PubKey, key crypto.SymKey) []byte {
	proto := must(key.Marshall())
	return must(pub.Encrypt(proto))
}

// rotation content: recipients are computed from the real (intermediate) state st
func (c *Chain) renderRotation(st *Post, removed []string, v string, cur crypto.SymKey) (*aclrecordproto.AclReadKeyChange, rotInfo) {
	w := c.w
	isRemoved := func(a string) bool {
		for _, r := range removed {
			if r == a {
				return true
			}
		}
		return false
	}
	var exA, exI []string
	for _, a := range w.meta.AccSeq {
		if st.Perm[a] != "none" && !isRemoved(a) {
			exA = append(exA, a)
		}
	}
	for _, i := range w.meta.InvIds {
		if iv := st.Inv[i]; iv.St == "live" && iv.Type == "any" {
			exI = append(exI, i)
		}
	}
	in := func(s []string, x string) bool {
		for _, y := range s {
			if y == x {
				return true
			}
		}
		return false
	}
	accs, invs := append([]string(nil), exA...), append([]string(nil), exI...)
	switch v {
	case "minus":
		if len(accs) > 0 {
			accs = accs[1:]
		}
	case "plus":
		extra := "-"
		if len(removed) > 0 {
			extra = w.first(func(a string) bool { return isRemoved(a) })
		} else {
			extra = w.first(func(a string) bool { return !in(exA, a) })
		}
		if extra != "-" {
			accs = append(accs, extra)
		}
	case "swap":
		extra := "-"
		if len(removed) > 0 {
			extra = w.first(func(a string) bool { return isRemoved(a) })
		} else {
			extra = w.first(func(a string) bool { return !in(exA, a) })
		}
		if extra != "-" && len(accs) > 0 {
			accs = append(accs[1:], extra)
		}
	case "swapinv":
		if extra := w.firstInv(func(i string) bool { return !in(exI, i) }); extra != "-" && len(invs) > 0 {
			invs = append(invs[1:], extra)
		}
	case "noinv":
		if len(invs) > 0 {
			invs = invs[1:]
		}
	case "plusinv":
		if extra := w.firstInv(func(i string) bool { return !in(exI, i) }); extra != "-" {
			invs = append(invs, extra)
		}
	}
	newKey := crypto.NewAES()
	metaKey, _, _ := crypto.GenerateRandomEd25519KeyPair()
	rk := &aclrecordproto.AclReadKeyChange{MetadataPubKey: must(metaKey.GetPublic().Marshall())}
	for _, a := range accs {
		rk.AccountKeys = append(rk.AccountKeys, &aclrecordproto.AclEncryptedReadKey{Identity: c.spell(w.accPub[a]), EncryptedReadKey: c.encFor(w.pub(a), newKey)})
	}
	for _, i := range invs {
		rk.InviteKeys = append(rk.InviteKeys, &aclrecordproto.AclEncryptedReadKey{Identity: c.spell(w.invPub[i]), EncryptedReadKey: c.encFor(w.inv[i].GetPublic(), newKey)})
	}
	rk.EncryptedMetadataPrivKey = must(newKey.Encrypt(must(metaKey.Marshall())))
	ri := rotInfo{key: newKey, metaKey: metaKey, accounts: accs, invites: invs}
	if v != "noold" {
		rk.EncryptedOldReadKey = must(newKey.Encrypt(must(cur.Marshall())))
		ri.encOld = rk.EncryptedOldReadKey
	}
	return rk, ri
}

func (c *Chain) invId(i string) string {
	if id, ok := c.invRec[i]; ok {
		return id
	}
	return bogusId("invite-" + i)
}

func (c *Chain) reqId(q string) string {
	if _, ok := c.w.acc[q]; ok {
		if rr, err := c.l.AclState().Record(c.w.pub(q)); err == nil {
			return rr.RecordId
		}
	}
	return bogusId("request-" + q)
}

func cv(v interface{}) *aclrecordproto.AclContentValue {
	switch x := v.(type) {
	case *aclrecordproto.AclAccountPermissionChange:
		return &aclrecordproto.AclContentValue{Value: &aclrecordproto.AclContentValue_PermissionChange{PermissionChange: x}}
	case *aclrecordproto.AclAccountPermissionChanges:
		return &aclrecordproto.AclContentValue{Value: &aclrecordproto.AclContentValue_PermissionChanges{PermissionChanges: x}}
	case *aclrecordproto.AclOwnershipChange:
		return &aclrecordproto.AclContentValue{Value: &aclrecordproto.AclContentValue_OwnershipChange{OwnershipChange: x}}
	case *aclrecordproto.AclAccountsAdd:
		return &aclrecordproto.AclContentValue{Value: &aclrecordproto.AclContentValue_AccountsAdd{AccountsAdd: x}}
	case *aclrecordproto.AclAccountRemove:
		return &aclrecordproto.AclContentValue{Value: &aclrecordproto.AclContentValue_AccountRemove{AccountRemove: x}}
	case *aclrecordproto.AclReadKeyChange:
		return &aclrecordproto.AclContentValue{Value: &aclrecordproto.AclContentValue_ReadKeyChange{ReadKeyChange: x}}
	case *aclrecordproto.AclAccountRequestJoin:
		return &aclrecordproto.AclContentValue{Value: &aclrecordproto.AclContentValue_RequestJoin{RequestJoin: x}}
	case *aclrecordproto.AclAccountInviteJoin:
		return &aclrecordproto.AclContentValue{Value: &aclrecordproto.AclContentValue_InviteJoin{InviteJoin: x}}
	case *aclrecordproto.AclAccountRequestAccept:
		return &aclrecordproto.AclContentValue{Value: &aclrecordproto.AclContentValue_RequestAccept{RequestAccept: x}}
	case *aclrecordproto.AclAccountRequestDecline:
		return &aclrecordproto.AclContentValue{Value: &aclrecordproto.AclContentValue_RequestDecline{RequestDecline: x}}
	case *aclrecordproto.AclAccountRequestCancel:
		return &aclrecordproto.AclContentValue{Value: &aclrecordproto.AclContentValue_RequestCancel{RequestCancel: x}}
	case *aclrecordproto.AclAccountRequestRemove:
		return &aclrecordproto.AclContentValue{Value: &aclrecordproto.AclContentValue_AccountRequestRemove{AccountRequestRemove: x}}
	case *aclrecordproto.AclAccountInvite:
		return &aclrecordproto.AclContentValue{Value: &aclrecordproto.AclContentValue_Invite{Invite: x}}
	case *aclrecordproto.AclAccountInviteChange:
		return &aclrecordproto.AclContentValue{Value: &aclrecordproto.AclContentValue_InviteChange{InviteChange: x}}
	case *aclrecordproto.AclAccountInviteRevoke:
		return &aclrecordproto.AclContentValue{Value: &aclrecordproto.AclContentValue_InviteRevoke{InviteRevoke: x}}
	case *aclrecordproto.AclSpaceOptionsChange:
		return &aclrecordproto.AclContentValue{Value: &aclrecordproto.AclContentValue_SpaceOptionsChange{SpaceOptionsChange: x}}
	}
	panic(fmt.Sprintf("unknown content %T", v))
}

func (c *Chain) curMetaPub() crypto.PubKey { return c.gens[len(c.gens)-1].metaKey.GetPublic() }

// renderContent builds one content. st = real state the content will be evaluated in (intermediate
// state inside a batch); ids are resolved in the pre-record state (c.l); cur = the true current read key.
func (c *Chain) renderContent(author string, ct Content, st *Post, cur crypto.SymKey, alt bool, out *rendered) (*aclrecordproto.AclContentValue, crypto.SymKey) {
	w := c.w
	meta := must(c.curMetaPub().Encrypt([]byte("m-" + author)))
	sigFor := func(i string, ident crypto.PubKey, bad bool) []byte {
		signer, ok := w.inv[i]
		if !ok {
			signer = w.inv[w.meta.InvIds[0]]
		}
		if bad {
			signer = w.node.SignKey // not the invite key
		}
		return must(signer.Sign(must(ident.Raw())))
	}
	switch ct.K {
	case "PermChange":
		pc := &aclrecordproto.AclAccountPermissionChange{Identity: c.spell(w.accPub[ct.T]), Permissions: permProto[ct.P]}
		if alt {
			return cv(&aclrecordproto.AclAccountPermissionChanges{Changes: []*aclrecordproto.AclAccountPermissionChange{pc}}), cur
		}
		return cv(pc), cur
	case "OwnerChange":
		return cv(&aclrecordproto.AclOwnershipChange{NewOwnerIdentity: c.spell(w.accPub[ct.T]), OldOwnerPermissions: permProto[ct.P]}), cur
	case "AccountsAdd":
		out.keyTo = append(out.keyTo, keyGift{ct.T, len(out.rot) > 0})
		return cv(&aclrecordproto.AclAccountsAdd{Additions: []*aclrecordproto.AclAccountAdd{{Identity: c.spell(w.accPub[ct.T]),
			Permissions: permProto[ct.P], Metadata: meta, EncryptedReadKey: c.encFor(w.pub(ct.T), cur)}}}), cur
	case "AccountRemove":
		var removed []string
		var ids [][]byte
		if ct.T != "-" {
			removed = []string{ct.T}
			ids = [][]byte{c.spell(w.accPub[ct.T])}
		}
		rk, ri := c.renderRotation(st, removed, ct.V, cur)
		out.rot = append(out.rot, ri)
		return cv(&aclrecordproto.AclAccountRemove{Identities: ids, ReadKeyChange: rk}), ri.key
	case "ReadKeyChange":
		rk, ri := c.renderRotation(st, nil, ct.V, cur)
		out.rot = append(out.rot, ri)
		return cv(rk), ri.key
	case "RequestJoin":
		ident := author
		if ct.V == "badident" {
			ident = w.other(author)
		}
		return cv(&aclrecordproto.AclAccountRequestJoin{InviteIdentity: c.spell(w.accPub[ident]), InviteRecordId: c.invId(ct.I),
			InviteIdentitySignature: sigFor(ct.I, w.pub(ident), ct.V == "badsig"), Metadata: meta}), cur
	case "InviteJoin":
		ident := author
		if ct.V == "badident" {
			ident = w.other(author)
		}
		ij := &aclrecordproto.AclAccountInviteJoin{Identity: c.spell(w.accPub[ident]), InviteRecordId: c.invId(ct.I),
			InviteIdentitySignature: sigFor(ct.I, w.pub(ident), ct.V == "badsig"), Metadata: meta, Permissions: permProto[ct.P]}
		if ct.V != "nokey" {
			// the honest joiner re-encrypts for itself the key it obtained through the invite
			ij.EncryptedReadKey = c.encFor(w.pub(author), cur)
			out.keyTo = append(out.keyTo, keyGift{author, len(out.rot) > 0})
		}
		return cv(ij), cur
	case "RequestAccept":
		ident := ct.Q
		if _, ok := w.acc[ident]; !ok {
			ident = w.meta.AccSeq[0]
		}
		if ct.V == "mismatch" {
			ident = w.other(ident)
		}
		out.keyTo = append(out.keyTo, keyGift{ident, len(out.rot) > 0})
		return cv(&aclrecordproto.AclAccountRequestAccept{Identity: c.spell(w.accPub[ident]), RequestRecordId: c.reqId(ct.Q),
			EncryptedReadKey: c.encFor(w.pub(ident), cur), Permissions: permProto[ct.P]}), cur
	case "RequestDecline":
		return cv(&aclrecordproto.AclAccountRequestDecline{RequestRecordId: c.reqId(ct.Q)}), cur
	case "RequestCancel":
		return cv(&aclrecordproto.AclAccountRequestCancel{RecordId: c.reqId(ct.Q)}), cur
	case "RequestRemove":
		return cv(&aclrecordproto.AclAccountRequestRemove{}), cur
	case "Invite":
		slot := c.slot()
		if slot == "-" {
			out.skip = "no unused invite id left in the model"
			slot = w.meta.InvIds[0]
		}
		out.newSlot = true
		inv := &aclrecordproto.AclAccountInvite{InviteKey: c.spell(w.invPub[slot]), Permissions: permProto[ct.P]}
		if ct.V == "req" || ct.V == "reqkey" {
			inv.InviteType = aclrecordproto.AclInviteType_RequestToJoin
			if ct.V == "reqkey" { // ill-matched: a request-to-join invite that carries a read key ciphertext
				inv.EncryptedReadKey = c.encFor(w.inv[slot].GetPublic(), cur)
				out.keyTo = append(out.keyTo, keyGift{slot, len(out.rot) > 0})
			}
		} else {
			inv.InviteType = aclrecordproto.AclInviteType_AnyoneCanJoin
			if ct.V == "any" {
				inv.EncryptedReadKey = c.encFor(w.inv[slot].GetPublic(), cur)
				out.keyTo = append(out.keyTo, keyGift{slot, len(out.rot) > 0})
			}
		}
		return cv(inv), cur
	case "InviteChange":
		return cv(&aclrecordproto.AclAccountInviteChange{InviteRecordId: c.invId(ct.I), Permissions: permProto[ct.P]}), cur
	case "InviteRevoke":
		return cv(&aclrecordproto.AclAccountInviteRevoke{InviteRecordId: c.invId(ct.I)}), cur
	case "Options":
		return cv(&aclrecordproto.AclSpaceOptionsChange{Options: &aclrecordproto.AclSpaceOptions{DeleteRestricted: ct.V == "v1"}}), cur
	}
	panic("unknown content kind " + ct.K)
}

func (c *Chain) sign(author string, contents []*aclrecordproto.AclContentValue) (*consensusproto.RawRecord, *consensusproto.RawRecordWithId) {
	data := must((&aclrecordproto.AclData{AclContent: contents}).MarshalVT())
	c.ts++
	rec := &consensusproto.Record{PrevId: c.l.Head().Id, Identity: c.spell(c.w.accPub[author]), Data: data, Timestamp: c.ts}
	payload := must(rec.MarshalVT())
	raw := &consensusproto.RawRecord{Payload: payload, Signature: must(c.w.acc[author].SignKey.Sign(payload))}
	rawBytes := must(raw.MarshalVT())
	return raw, &consensusproto.RawRecordWithId{Payload: rawBytes, Id: must(cidutil.NewCidFromBytes(rawBytes))}
}

// validate submits a raw record to the validating list without changing it and returns the verdict and
// the projected state after the record (real observation).
func (c *Chain) validate(raw *consensusproto.RawRecord) (post *Post, err error) {
	defer func() {
		if r := recover(); r != nil {
			err = fmt.Errorf("%w: %v", errPanic, r)
		}
	}()
	err = c.l.ValidateRawRecord(raw, func(st *list.AclState) error {
		post = c.project(st)
		return nil
	})
	return
}

var errPanic = errors.New("panic in the code under test")

// render builds the raw record of a model record in the current real state. alt selects the alternative
// wire encoding of a permission change (PermissionChanges list instead of the deprecated single content).
func (c *Chain) render(r Rec, alt bool) *rendered {
	out := &rendered{}
	pre := c.project(c.l.AclState())
	out.mids = []*Post{pre}
	st := pre
	cur := c.gens[len(c.gens)-1].key
	for k, ct := range r.Cs {
		var content *aclrecordproto.AclContentValue
		content, cur = c.renderContent(r.A, ct, st, cur, alt, out)
		out.contents = append(out.contents, content)
		if k < len(r.Cs)-1 {
			// the state in which the next content is evaluated: observe it by validating the prefix
			rawPrefix, _ := c.sign(r.A, out.contents)
			mid, err := c.validate(rawPrefix)
			if err == nil && mid != nil {
				st = mid
				out.mids = append(out.mids, mid)
			} else {
				out.mids = append(out.mids, nil)
			}
		}
	}
	out.raw, out.withId = c.sign(r.A, out.contents)
	return out
}

// commit appends a record the real list accepted (AddRawRecord) and updates the bookkeeping.
func (c *Chain) commit(r Rec, rd *rendered) error {
	if err := c.l.AddRawRecord(rd.withId); err != nil {
		return err
	}
	c.raws = append(c.raws, rd.withId)
	if len(rd.rot) > 0 {
		last := rd.rot[len(rd.rot)-1]
		g := genInfo{recId: rd.withId.Id, key: last.key, metaKey: last.metaKey}
		for _, ri := range rd.rot {
			if ri.encOld != nil {
				g.encOld = append(g.encOld, ri.encOld)
			}
		}
		c.gens = append(c.gens, g)
	}
	if rd.newSlot {
		// the record created an invite iff the real state lists it now
		for _, iv := range c.l.AclState().Invites() {
			if iv.Id == rd.withId.Id {
				s := c.slot()
				c.invRec[s] = iv.Id
				c.invOf[iv.Id] = s
				c.nextSlot++
				break
			}
		}
	}
	c.updateHeld(rd)
	return nil
}

func (c *Chain) updateHeld(rd *rendered) {
	post := c.project(c.l.AclState())
	n := len(c.gens)
	for _, g := range rd.keyTo {
		// handed the then-current key by this record
		if len(rd.rot) > 0 && !g.afterRot {
			c.held[g.p] = n - 1
		} else {
			c.held[g.p] = n
		}
	}
	for _, a := range c.w.meta.AccSeq {
		if post.Perm[a] != "none" {
			c.held[a] = n
		}
	}
	for _, i := range c.w.meta.InvIds {
		if iv := post.Inv[i]; iv.St == "live" && iv.Type == "any" {
			c.held[i] = n
		}
	}
}

func sortedCopy(s []string) []string {
	r := append([]string(nil), s...)
	sort.Strings(r)
	return r
}

var _ = context.Background
