package acl

import (
	"fmt"
	"math/rand"
	"strings"

	"github.com/anyproto/any-sync/commonspace/object/acl/aclrecordproto"
	"github.com/anyproto/any-sync/commonspace/object/acl/list"
	"github.com/anyproto/any-sync/commonspace/object/acl/recordverifier"
	"github.com/anyproto/any-sync/consensus/consensusproto"
	"github.com/anyproto/any-sync/util/cidutil"
	"github.com/anyproto/any-sync/util/crypto"
)

// builderPass (C05): the membership histories of the property are also driven through the CLIENT
// record builder (AclRecordBuilder of the author's own view) - the code that decides, in production,
// whom a new read key is encrypted for.  For a sample of the records the model accepts in this state
// the record is built by the author's builder and its raw bytes are inspected:
//   - a rotation names exactly the accounts that keep a permission and the open invites that stay live
//     (no ciphertext for a removed account or a revoked invite, none missing);
//   - an admission carries a ciphertext that opens, with the admitted account's private key, to the
//     true current read key;
// then it is added to a fork of the real list and the key predicates are evaluated on every view.
func (h *harness) builderPass(c *Chain, sf *StateFile, rng *rand.Rand, max int) {
	if h.prop != "C05" {
		return
	}
	st := c.project(c.l.AclState())
	var cands []AccEdge
	for _, e := range sf.Acc {
		ct := e.Cs[0]
		switch ct.K {
		case "AccountRemove":
			if ct.T != "-" && ct.V == "exact" {
				cands = append(cands, e)
			}
		case "ReadKeyChange":
			if ct.V == "exact" {
				cands = append(cands, e)
			}
		case "AccountsAdd":
			cands = append(cands, e)
		case "RequestAccept":
			if ct.V == "match" {
				cands = append(cands, e)
			}
		case "InviteJoin":
			if ct.V == "ok" {
				cands = append(cands, e)
			}
		case "InviteRevoke":
			if liveAny(st, ct.I) { // revoke + rotate in one record (BuildBatchRequest)
				cands = append(cands, e)
			}
		case "Invite":
			if (ct.V == "any") || (ct.V == "req" && ct.P == "none") { // BuildInviteAnyone / BuildInvite
				cands = append(cands, e)
			}
		}
	}
	rng.Shuffle(len(cands), func(i, j int) { cands[i], cands[j] = cands[j], cands[i] })
	if max > 0 && len(cands) > max {
		cands = cands[:max]
	}
	for _, e := range cands {
		h.builderEdge(c, sf.Path, st, e, false)
		if e.Cs[0].K == "RequestAccept" {
			// the same approval inside a batch that also removes an account (the approval then carries the NEW key)
			h.builderEdge(c, sf.Path, st, e, true)
		}
	}
}

func (h *harness) builderEdge(c *Chain, path []Rec, st *Post, e AccEdge, withRemoval bool) {
	w := c.w
	a, ct := e.A, e.Cs[0]
	victim := ""
	if withRemoval {
		victim = w.first(func(n string) bool {
			p := st.Perm[n]
			return n != a && n != ct.Q && p != "none" && p != "owner" && (p != "admin" || st.Perm[a] == "owner")
		})
		if victim == "-" {
			return
		}
	}
	av, err := buildList(w.acc[a], c.raws, recordverifier.NewValidateFull())
	if err != nil {
		h.rep.DriftNote("[%s] the view of author %s cannot be built: %v", h.cfg, a, err)
		return
	}
	b := av.RecordBuilder()
	newKey := crypto.NewAES()
	newMeta, _, _ := crypto.GenerateRandomEd25519KeyPair()
	change := list.ReadKeyChangePayload{MetadataKey: newMeta, ReadKey: newKey}
	var raw *consensusproto.RawRecord
	rotates := false
	var removed, revoked, admitted []string
	switch ct.K {
	case "AccountRemove":
		raw, err = b.BuildAccountRemove(list.AccountRemovePayload{Identities: []crypto.PubKey{w.pub(ct.T)}, Change: change})
		rotates, removed = true, []string{ct.T}
	case "ReadKeyChange":
		raw, err = b.BuildReadKeyChange(change)
		rotates = true
	case "AccountsAdd":
		raw, err = b.BuildAccountsAdd(list.AccountsAddPayload{Additions: []list.AccountAdd{{Identity: w.pub(ct.T), Permissions: list.AclPermissions(permProto[ct.P]), Metadata: []byte("m")}}})
		admitted = []string{ct.T}
	case "RequestAccept":
		if withRemoval {
			var res list.BatchResult
			res, err = b.BuildBatchRequest(list.BatchRequestPayload{
				Removals:  list.AccountRemovePayload{Identities: []crypto.PubKey{w.pub(victim)}, Change: change},
				Approvals: []list.RequestAcceptPayload{{RequestRecordId: c.reqId(ct.Q), Permissions: list.AclPermissions(permProto[ct.P])}}})
			raw = res.Rec
			rotates, removed = true, []string{victim}
		} else {
			raw, err = b.BuildRequestAccept(list.RequestAcceptPayload{RequestRecordId: c.reqId(ct.Q), Permissions: list.AclPermissions(permProto[ct.P])})
		}
		admitted = []string{ct.Q}
	case "Invite":
		// the builder draws its own invite key pair: inspect the record only
		var res list.InviteResult
		if ct.V == "any" {
			res, err = b.BuildInviteAnyone(list.AclPermissions(permProto[ct.P]))
		} else {
			res, err = b.BuildInvite()
		}
		h.count("builder_records", 1)
		h.rep.Case("builder|Invite-" + ct.V + "|" + errName(err))
		if err != nil || res.InviteRec == nil {
			h.rep.DriftNote("[%s] the client builder refuses %s after %v: %v", h.cfg, e.Rec, path, err)
			return
		}
		rec := &consensusproto.Record{}
		data := &aclrecordproto.AclData{}
		if e1 := rec.UnmarshalVT(res.InviteRec.Payload); e1 != nil {
			panic(e1)
		}
		if e2 := data.UnmarshalVT(rec.Data); e2 != nil {
			panic(e2)
		}
		for _, cc := range data.AclContent {
			iv := cc.GetInvite()
			if iv == nil {
				continue
			}
			if ct.V == "any" {
				good := false
				if dec, ok := safeDecrypt(res.InviteKey.Decrypt, iv.EncryptedReadKey); ok {
					if k, err := crypto.UnmarshallAESKeyProto(dec); err == nil && k.Equals(c.gens[len(c.gens)-1].key) {
						good = true
					}
				}
				if !good {
					h.keyViolate("builder:invite-key", fmt.Sprintf("the open invite built by the client builder does not give its key holder the current read key (path %v)", path), h.robj(c, path, &e.Rec, false, "builder"))
				}
			} else if len(iv.EncryptedReadKey) != 0 {
				h.keyViolate("builder:request-invite-carries-key", fmt.Sprintf("the request-to-join invite built by the client builder carries a read key ciphertext (path %v)", path), h.robj(c, path, &e.Rec, false, "builder"))
			}
		}
		return
	case "InviteJoin":
		raw, err = b.BuildInviteJoinWithoutApprove(list.InviteJoinPayload{InviteKey: w.inv[ct.I], Permissions: list.AclPermissions(permProto[ct.P]), Metadata: []byte("m")})
		admitted = []string{a}
	case "InviteRevoke":
		var res list.BatchResult
		res, err = b.BuildBatchRequest(list.BatchRequestPayload{InviteRevokes: []string{c.invId(ct.I)}, ReadKeyChange: &change})
		raw = res.Rec
		rotates, revoked = true, []string{ct.I}
	}
	h.count("builder_records", 1)
	h.rep.Case("builder|" + ct.K + "|" + errName(err))
	if raw == nil {
		h.rep.DriftNote("[%s] the client builder refuses %s after %v: %v", h.cfg, e.Rec, path, err)
		return
	}
	// ---- inspect the raw bytes the builder produced (also when its own preflight complained)
	rec := &consensusproto.Record{}
	data := &aclrecordproto.AclData{}
	if e1, e2 := rec.UnmarshalVT(raw.Payload), error(nil); e1 != nil {
		panic(e1)
	} else if e2 = data.UnmarshalVT(rec.Data); e2 != nil {
		panic(e2)
	}
	curKey := c.gens[len(c.gens)-1].key // what the previous-key wrap must contain
	admKey := curKey                   // what an admission must carry: the key current when it is applied
	if withRemoval {
		admKey = newKey
	}
	var encOld [][]byte
	for _, cc := range data.AclContent {
		var rk *aclrecordproto.AclReadKeyChange
		if cc.GetReadKeyChange() != nil {
			rk = cc.GetReadKeyChange()
		} else if cc.GetAccountRemove() != nil {
			rk = cc.GetAccountRemove().ReadKeyChange
		}
		if rk != nil {
			var gotA, gotI, expA, expI []string
			for _, k := range rk.AccountKeys {
				if pk, err := crypto.UnmarshalEd25519PublicKeyProto(k.Identity); err == nil {
					if n, ok := w.byStore[string(pk.Storage())]; ok {
						gotA = append(gotA, n)
						continue
					}
				}
				gotA = append(gotA, "?unknown")
			}
			for _, k := range rk.InviteKeys {
				if pk, err := crypto.UnmarshalEd25519PublicKeyProto(k.Identity); err == nil {
					if n, ok := w.invName[string(pk.Storage())]; ok {
						gotI = append(gotI, n)
						continue
					}
				}
				gotI = append(gotI, "?unknown")
			}
			in := func(s []string, x string) bool {
				for _, y := range s {
					if y == x {
						return true
					}
				}
				return false
			}
			for _, n := range w.meta.AccSeq {
				if st.Perm[n] != "none" && !in(removed, n) {
					expA = append(expA, n)
				}
			}
			for _, i := range w.meta.InvIds {
				if liveAny(st, i) && !in(revoked, i) {
					expI = append(expI, i)
				}
			}
			if strings.Join(sortedCopy(gotA), ",") != strings.Join(sortedCopy(expA), ",") || strings.Join(sortedCopy(gotI), ",") != strings.Join(sortedCopy(expI), ",") {
				what := "extra"
				for _, x := range append(append([]string(nil), expA...), expI...) {
					if !in(gotA, x) && !in(gotI, x) {
						what = "missing"
					}
				}
				h.keyViolate("builder:rotation-recipients:"+ct.K+":"+what,
					fmt.Sprintf("the client builder's %s encrypts the new read key for accounts %v invites %v; the principals that keep standing are %v / %v (removed %v, revoked %v) after %v",
						ct.K, sortedCopy(gotA), sortedCopy(gotI), expA, expI, removed, revoked, path), h.robj(c, path, &e.Rec, false, "builder"))
			}
			if rk.EncryptedOldReadKey != nil {
				encOld = append(encOld, rk.EncryptedOldReadKey)
				if dec, ok := safeDecrypt(newKey.Decrypt, rk.EncryptedOldReadKey); !ok {
					h.keyViolate("builder:old-key-not-wrapped:"+ct.K, fmt.Sprintf("the rotation built for %s does not carry the previous read key under the new one (path %v)", e.Rec, path), h.robj(c, path, &e.Rec, false, "builder"))
				} else if k, err := crypto.UnmarshallAESKeyProto(dec); err != nil || !k.Equals(curKey) {
					h.keyViolate("builder:old-key-not-wrapped:"+ct.K, fmt.Sprintf("the rotation built for %s wraps a key that is not the previous read key (path %v)", e.Rec, path), h.robj(c, path, &e.Rec, false, "builder"))
				}
			}
		}
		var enc []byte
		var to string
		switch {
		case cc.GetAccountsAdd() != nil && len(cc.GetAccountsAdd().Additions) == 1:
			enc, to = cc.GetAccountsAdd().Additions[0].EncryptedReadKey, ct.T
		case cc.GetRequestAccept() != nil:
			enc, to = cc.GetRequestAccept().EncryptedReadKey, ct.Q
		case cc.GetInviteJoin() != nil:
			enc, to = cc.GetInviteJoin().EncryptedReadKey, a
		}
		if to != "" {
			dec, ok := safeDecrypt(w.acc[to].SignKey.Decrypt, enc)
			good := false
			if ok {
				if k, err := crypto.UnmarshallAESKeyProto(dec); err == nil && k.Equals(admKey) {
					good = true
				}
			}
			if !good {
				h.keyViolate("builder:admission-key:"+ct.K+batchTag(withRemoval), fmt.Sprintf("the %s built by the client builder does not give %s the current read key (path %v)", ct.K, to, path), h.robj(c, path, &e.Rec, false, "builder"))
			}
		}
	}
	if err != nil {
		h.rep.DriftNote("[%s] the client builder's preflight refuses %s after %v: %v", h.cfg, e.Rec, path, err)
		return
	}
	// ---- the built record on a fork of the real list, then the key predicates on every view
	rawBytes := must(raw.MarshalVT())
	withId := &consensusproto.RawRecordWithId{Payload: rawBytes, Id: must(cidutil.NewCidFromBytes(rawBytes))}
	f := c.fork()
	if err := f.l.AddRawRecord(withId); err != nil {
		h.rep.DriftNote("[%s] the validating list rejects the record the client builder made for %s after %v: %v", h.cfg, e.Rec, path, err)
		return
	}
	f.raws = append(f.raws, withId)
	if rotates {
		f.gens = append(f.gens, genInfo{recId: withId.Id, key: newKey, metaKey: newMeta, encOld: encOld})
	}
	rd := &rendered{}
	if rotates {
		rd.rot = []rotInfo{{key: newKey}}
	}
	for _, p := range admitted {
		rd.keyTo = append(rd.keyTo, keyGift{p, withRemoval})
	}
	f.updateHeld(rd)
	post := f.project(f.l.AclState())
	// the revoke+rotate batch has no single-content counterpart in the model's list: compare only single ones
	if ct.K != "InviteRevoke" && !withRemoval && e.Post.Perm != nil {
		if d := diffPost(w.meta.AccSeq, w.meta.InvIds, &e.Post, post); d != "" {
			h.rep.DriftNote("[%s] state after the builder-made %s (path %v) differs from the model: %s", h.cfg, e.Rec, path, d)
		}
	}
	h.checkKeys(f, append(append([]Rec(nil), path...), e.Rec), nil)
}

func batchTag(b bool) string {
	if b {
		return ":with-removal"
	}
	return ""
}
