//go:build verif

package ocache

import (
	"fmt"
	"sort"
	"strings"
)

// The C16 predicates, evaluated on what the harness observed of the real cache: the harness-owned
// callbacks (load start/end, Close start/end, TryClose verdict), the results of the operations and
// the add.ok hook (the moment an added object becomes an instance of the cache).

type finding struct{ key, desc string }

const inf = int(^uint(0) >> 1)

type life struct {
	num        int
	id, how    string
	start, end int // sequence numbers: open during [start, end)
	loaded     int // seq of load.end.val / add.ok (0 = never)
	failed     bool
	closes     int // Close calls + TryClose verdicts "yes"
	closers    []int
	byOp       int // operation that created it
}

func lives(events []event) map[int]*life {
	m := map[int]*life{}
	for _, e := range events {
		if e.Inst <= 0 {
			continue
		}
		l := m[e.Inst]
		switch {
		case e.Point == "load.start":
			m[e.Inst] = &life{num: e.Inst, id: e.Id, how: "load", start: e.Seq, end: inf, byOp: e.Op}
		case e.Point == "add.ok":
			m[e.Inst] = &life{num: e.Inst, id: e.Id, how: "add", start: e.Seq, end: inf, loaded: e.Seq, byOp: e.Op}
		case l == nil:
		case e.Point == "load.end.val":
			l.loaded = e.Seq
		case e.Point == "load.end.err":
			l.failed, l.end = true, e.Seq
		case e.Point == "close.start":
			l.closes++
			l.closers = append(l.closers, e.Op)
		case e.Point == "close.end":
			if e.Seq < l.end {
				l.end = e.Seq
			}
		case strings.HasPrefix(e.Point, "tryclose.yes"):
			l.closes++
			l.closers = append(l.closers, e.Op)
			if e.Seq < l.end {
				l.end = e.Seq
			}
		}
	}
	return m
}

// evaluate returns the property violations visible in a finished (or hung) run.
func evaluate(r *run, stuck []*opCtx) []finding {
	events := r.snapshot()
	var out []finding
	add := func(key, f string, a ...any) { out = append(out, finding{key, fmt.Sprintf(f, a...)}) }
	kindOf := func(op int) string {
		if op >= 1 && op <= len(r.ops) {
			return r.ops[op-1].kind
		}
		return "setup"
	}
	lv := lives(events)
	nums := make([]int, 0, len(lv))
	for n := range lv {
		nums = append(nums, n)
	}
	sort.Ints(nums)

	// NoPanic
	for _, op := range r.ops {
		if op.res == "panic" {
			msg := op.panicMsg
			cls := "other"
			switch {
			case strings.Contains(msg, "nil pointer") || strings.Contains(msg, "invalid memory address"):
				cls = "nil-value"
			case strings.Contains(msg, "close of closed channel"):
				cls = "double-chan-close"
			case strings.Contains(msg, "close of nil channel"):
				cls = "nil-chan-close"
			}
			add("panic:"+op.kind+":"+cls, "%s(%s) panicked after %v: %s", op.kind, op.id, op.lastPoint.Load(), msg)
		}
	}
	// blocked forever
	for _, op := range stuck {
		add(fmt.Sprintf("hang:%s:%v", op.kind, op.lastPoint.Load()),
			"%s(%s) never returned although every load / close / try-close had returned; last point %v", op.kind, op.id, op.lastPoint.Load())
	}
	// AtMostOneLive
	for i, a := range nums {
		for _, b := range nums[i+1:] {
			x, y := lv[a], lv[b]
			if x.id == y.id && x.start < y.end && y.start < x.end {
				add("two-live:"+x.how+"+"+y.how+":"+kindOf(y.byOp),
					"instances #%d (%s, open [%d,%s)) and #%d (%s by %s, open [%d,%s)) of id %s are open at the same time",
					x.num, x.how, x.start, seqs(x.end), y.num, y.how, kindOf(y.byOp), y.start, seqs(y.end), x.id)
			}
		}
	}
	// NoDoubleClose
	for _, n := range nums {
		if l := lv[n]; l.closes > 1 {
			ks, seen := []string{}, map[string]bool{}
			for _, c := range l.closers {
				if k := kindOf(c); !seen[k] {
					seen[k] = true
					ks = append(ks, k)
				}
			}
			sort.Strings(ks)
			add("double-close:"+strings.Join(ks, "+"), "instance #%d of id %s was closed %d times (by %v)", l.num, l.id, l.closes, ks)
		}
	}
	// HandedOutLoaded, NoStaleAfterRemove
	removedAt := map[int]int{} // instance -> seq at which the operation that removed it returned
	for _, op := range r.ops {
		if op.retSeq == 0 {
			continue
		}
		removing := op.kind == "GC" || op.kind == "Close" || ((op.kind == "Remove" || op.kind == "RemoveSame" || op.kind == "TryRemove") && (op.res == "ok" || op.res == "okErr"))
		if !removing {
			continue
		}
		for _, n := range nums {
			l := lv[n]
			for _, c := range l.closers {
				if c == op.idx && l.end != inf {
					if s, ok := removedAt[n]; !ok || op.retSeq < s {
						removedAt[n] = op.retSeq
					}
				}
			}
		}
	}
	for _, op := range r.ops {
		if (op.kind != "Get" && op.kind != "Pick") || op.retSeq == 0 || op.res != "ok" {
			continue
		}
		l := lv[op.rv]
		switch {
		case op.rv == 0 || l == nil:
			add("handed-out-nil:"+op.kind, "%s(%s) returned a nil / unknown value without an error", op.kind, op.id)
		case l.loaded == 0 || l.loaded > op.retSeq:
			add("handed-out-unloaded:"+op.kind, "%s(%s) returned instance #%d before its load had finished", op.kind, op.id, op.rv)
		default:
			if s, ok := removedAt[op.rv]; ok && s < op.startSeq {
				add("stale-after-remove:"+op.kind, "%s(%s) started at %d, after the removal of instance #%d had completed at %d, and returned it", op.kind, op.id, op.startSeq, op.rv, s)
			}
		}
	}
	// RemoveSameIdentity
	for _, n := range nums {
		for _, c := range lv[n].closers {
			if kindOf(c) == "RemoveSame" && r.ops[c-1].argNum != n {
				add("removesame-other-instance", "RemoveSame(%s, #%d) closed instance #%d", r.ops[c-1].id, r.ops[c-1].argNum, n)
			}
		}
	}
	// NoneOpenAfterShutdown. The exception the code makes on purpose: cache Close gives up (at its
	// deadline) on an entry another closer holds; if that closer's TryClose then says "no" the
	// instance stays - so an instance that was open when Close gave up on its id is exempt.
	gaveUp := map[string]int{} // id -> seq of the first give-up
	for _, e := range events {
		if e.Point == "setclosing.ctx" && kindOf(e.Op) == "Close" {
			if _, ok := gaveUp[e.Id]; !ok {
				gaveUp[e.Id] = e.Seq
			}
		}
	}
	exempt := map[int]bool{}
	for _, n := range nums {
		// given up while it was open (i.e. in the hands of another closer: Close only waits in
		// setClosing for an entry somebody else is closing)
		if s, ok := gaveUp[lv[n].id]; ok && lv[n].start < s && s < lv[n].end {
			exempt[n] = true
		}
	}
	for _, op := range r.ops {
		if op.kind != "Close" || op.res != "ok" || op.retSeq == 0 {
			continue
		}
		for _, n := range nums {
			l := lv[n]
			if l.end > op.retSeq && (l.start < op.retSeq || len(stuck) == 0) && !exempt[n] {
				when := "was still open when Close returned"
				if l.start > op.retSeq {
					when = "was put into the cache after Close had returned and is never closed"
				} else if l.end == inf {
					when = "was open when Close returned and is never closed"
				}
				add("open-after-shutdown:"+l.how+":"+kindOf(l.byOp), "instance #%d of id %s (%s by %s) %s", l.num, l.id, l.how, kindOf(l.byOp), when)
			}
		}
	}
	return out
}

func seqs(n int) string {
	if n == inf {
		return "inf"
	}
	return fmt.Sprint(n)
}
