//go:build verif

package ocache

import (
	"encoding/json"
	"fmt"
	"math/rand"
	"os"
	"path/filepath"
	"runtime"
	"strings"
	"sync"
	"sync/atomic"
	"testing"
	"time"

	"verifharness/vfutil"
)

// TestRecord: ungated random runs (4-8 goroutines, 2 ids, a few hundred operations each, run
// under -race by the orchestrator). Everything the hooks and the harness-owned callbacks see is
// written as an NDJSON trace for spec/ocache/OCacheTrace.tla; the Go oracles are evaluated on
// every run as well.

type kindW struct {
	kind string
	w    int
}

// operation mixes: "mixed" exercises everything; "churn" makes many goroutines load and evict the
// same id over and over (maximal contention on c.mu around the single-flight placeholder)
var profiles = map[string][]kindW{
	"mixed": {{"Get", 30}, {"Pick", 10}, {"Add", 8}, {"Remove", 12}, {"RemoveSame", 8}, {"TryRemove", 12}, {"GC", 8}},
	"churn": {{"Get", 60}, {"Remove", 22}, {"TryRemove", 10}, {"GC", 4}, {"Pick", 4}},
}

func pickKind(rnd *rand.Rand, kindsW []kindW) string {
	tot := 0
	for _, k := range kindsW {
		tot += k.w
	}
	n := rnd.Intn(tot)
	for _, k := range kindsW {
		if n < k.w {
			return k.kind
		}
		n -= k.w
	}
	return "Get"
}

// events that are not a step of their own in the trace specification
var notRecorded = map[string]bool{"pick.found": true}

type recorded struct {
	run    *run
	stuck  []*opCtx
	events []event
	args   recArgs
}

// recordRun executes one random run and returns its observations.
func recordRun(seed int64, slots, opsPerSlot int, ids []string, withClose bool, profile string) recorded {
	r := newRun(seed)
	r.free.Store(true)
	r.yield = profile != "churn"
	r.loadOutcomes = []string{"val", "val", "val", "val", "val", "err"}
	r.tryVerdicts = []string{"yes", "no", "yes", "no", "yesErr", "noErr"}
	kindsW := profiles[profile]
	if profile == "churn" {
		// failing loads keep the id absent, so that many lookups miss at the same time
		r.loadOutcomes = []string{"val", "err", "err"}
	}
	var (
		wg      sync.WaitGroup
		opsMu   sync.Mutex
		current = make([]*opCtx, slots+1) // slot -> running op (for the canceller)
		done    atomic.Int32
	)
	closer := -1
	if withClose {
		closer = int(seed % int64(slots))
	}
	for s := 1; s <= slots; s++ {
		wg.Add(1)
		go func(slot int) {
			defer wg.Done()
			defer done.Add(1)
			rnd := rand.New(rand.NewSource(seed*1000 + int64(slot)))
			g := goid()
			defer routes.Delete(g)
			var mine []*obj // instances this goroutine got from Get (arguments of RemoveSame)
			n := opsPerSlot/2 + rnd.Intn(opsPerSlot)
			for k := 0; k < n; k++ {
				kind := pickKind(rnd, kindsW)
				if slot-1 == closer && k == n-1 {
					kind = "Close"
				}
				id := ids[rnd.Intn(len(ids))]
				argNum := 0
				var arg *obj
				if kind == "RemoveSame" {
					if len(mine) > 0 && rnd.Intn(4) > 0 {
						arg = mine[rnd.Intn(len(mine))]
						id, argNum = arg.id, arg.num
					} else {
						argNum = -1
					}
				}
				if kind == "GC" || kind == "Close" {
					id = ""
				}
				opsMu.Lock()
				op := r.newOp(kind, id, argNum)
				op.slot = slot
				if arg != nil {
					op.arg = arg
				}
				current[slot] = op
				op.startSeq = r.rec(op, event{Point: "op.start", Id: op.id, Kind: op.kind, Arg: op.argNum})
				opsMu.Unlock()
				routes.Store(g, op)
				op.call()
				opsMu.Lock()
				op.retSeq = r.rec(op, event{Point: "op.ret", Id: op.id, Kind: op.kind, Res: op.res, Inst: op.rv})
				op.returned = true
				opsMu.Unlock()
				if kind == "Get" && op.res == "ok" && op.rv > 0 {
					r.mu.Lock()
					mine = append(mine, r.insts[op.rv-1])
					r.mu.Unlock()
				}
			}
		}(s)
	}
	// canceller: now and then cancels the context of a running operation (event first, then the
	// cancellation, so that every observation of the cancelled context comes later in the log)
	stop := make(chan struct{})
	var cwg sync.WaitGroup
	cwg.Add(1)
	go func() {
		defer cwg.Done()
		rnd := rand.New(rand.NewSource(seed * 7))
		for i := 0; ; i++ {
			select {
			case <-stop:
				return
			default:
			}
			runtime.Gosched()
			if rnd.Intn(40) != 0 {
				continue
			}
			opsMu.Lock()
			if op := current[1+rnd.Intn(slots)]; op != nil && op.retSeq == 0 && !op.cancelled {
				switch op.kind {
				case "Get", "Pick", "Remove", "RemoveSame":
					op.cancelled = true
					r.rec(op, event{Point: "ctx.cancel", Id: op.id})
					op.cancel()
				}
			}
			opsMu.Unlock()
		}
	}()
	finished := make(chan struct{})
	go func() { wg.Wait(); close(finished) }()
	var stuck []*opCtx
	select {
	case <-finished:
	case <-time.After(watchdog):
		opsMu.Lock()
		for s := 1; s <= slots; s++ {
			if op := current[s]; op != nil && op.retSeq == 0 {
				stuck = append(stuck, op)
			}
		}
		for _, op := range r.ops {
			op.cancel()
		}
		opsMu.Unlock()
	}
	close(stop)
	cwg.Wait()
	opsMu.Lock()
	defer opsMu.Unlock()
	return recorded{run: r, stuck: stuck, events: r.snapshot(),
		args: recArgs{Seed: seed, Slots: slots, Ops: opsPerSlot, Ids: ids, WithClose: withClose, Profile: profile}}
}

// toBehaviour turns a recorded run into a gated schedule (replay object of a violation): one
// step per recorded lock section, operations started where the log starts them.
func toBehaviour(rc recorded) behaviour {
	args := rc.args
	b := behaviour{Late: true, Src: "recorded", Rec: &args}
	lastPoint := map[int]string{}
	for _, op := range rc.run.ops {
		id := op.id
		if id == "" {
			id = "-"
		}
		b.Ops = append(b.Ops, opSpec{Kind: op.kind, Id: id, Arg: op.argNum})
	}
	for _, e := range rc.events {
		if e.Op == 0 {
			continue
		}
		prev := lastPoint[e.Op]
		lastPoint[e.Op] = e.Point
		st := stepSpec{O: e.Op, Pc: "*"}
		switch {
		case e.Point == "op.start":
			st.Pc = "Start"
		case e.Point == "ctx.cancel":
			st.Pc = "Cancel"
		case e.Point == "op.ret", e.Point == "gc.victim", e.Point == "close.collect", e.Point == "pick.found":
			continue // not a step of its own
		case e.Point == "pick.miss" && prev == "isclosing":
			continue
		case strings.HasPrefix(e.Point, "load.end."):
			st.C = strings.TrimPrefix(e.Point, "load.end.")
		case strings.HasPrefix(e.Point, "tryclose."):
			st.C = strings.TrimPrefix(e.Point, "tryclose.")
		case strings.HasSuffix(e.Point, ".ctx"):
			st.R = "ErrCtx"
		}
		b.Steps = append(b.Steps, st)
	}
	return b
}

func TestRecord(t *testing.T) {
	rep := vfutil.NewReport("C16")
	defer func() { rep.Save(!t.Failed() || rep.NumViolations() > 0) }()
	path := os.Getenv("VERIF_TRACE_OUT")
	if path == "" {
		path = filepath.Join(t.TempDir(), "trace.ndjson")
	}
	w := vfutil.NewTraceWriter(path)
	defer w.Close()
	runs := vfutil.EnvInt("VERIF_RUNS", 20)
	const slots = 8
	seed := vfutil.Seed()
	rnd := rand.New(rand.NewSource(seed))
	totalOps, hangs := 0, 0
	for k := 0; k < runs; k++ {
		active := 4 + rnd.Intn(5) // 4..8 goroutines
		ids := []string{"a", "b"}
		profile := "mixed"
		if rnd.Intn(4) == 0 {
			ids = []string{"a"}
		}
		if k%2 == 1 {
			profile, ids, active = "churn", []string{"a"}, 8
		}
		perSlot := 12 + rnd.Intn(24)
		if profile == "churn" {
			perSlot = 30 + rnd.Intn(30)
		}
		rc := recordRun(seed*100000+int64(k), active, perSlot, ids, rnd.Intn(3) > 0, profile)
		w.Emit(map[string]any{"ev": "reset", "slots": slots, "run": k})
		if len(rc.stuck) == 0 {
			for _, e := range rc.events {
				if e.Op == 0 || notRecorded[e.Point] {
					continue
				}
				w.Emit(e)
			}
		}
		if dir := os.Getenv("VERIF_RUNS_DIR"); dir != "" {
			// the run as a gated schedule: replay object if trace validation finds a violation in it
			if bts, err := json.Marshal(toBehaviour(rc)); err == nil {
				_ = os.WriteFile(filepath.Join(dir, fmt.Sprintf("run-%d.json", k)), bts, 0o644)
			}
		}
		totalOps += len(rc.run.ops)
		rep.Case(fmt.Sprintf("record|%s|%d goroutines|%d ids", profile, active, len(ids)))
		rep.AddReplayed(1)
		rep.AddSteps(len(rc.events))
		for _, f := range evaluate(rc.run, rc.stuck) {
			rep.Violate(f.key, f.desc+" [recorded random run]", toBehaviour(rc))
			if strings.HasPrefix(f.key, "hang:") {
				hangs++
			}
		}
		if k == 0 {
			rep.Sample(map[string]any{"recorded_run": k, "goroutines": active, "operations": len(rc.run.ops), "events": len(rc.events)})
		}
		if hangs >= 2 {
			break
		}
	}
	rep.SetExtra("trace_events", w.Len())
	rep.SetExtra("recorded_operations", totalOps)
}
