//go:build verif

package ocache

import (
	"bufio"
	"encoding/json"
	"fmt"
	"os"
	"strings"
	"testing"

	"verifharness/vfutil"
)

// A behaviour emitted by TLC from spec/ocache/OCacheGen.tla (converted to JSON by checks/C16.py):
// the configuration (operation multiset, preloaded ids) and a schedule, one entry per spec step.
type opSpec struct {
	Kind string `json:"kind"`
	Id   string `json:"id"`
	Arg  int    `json:"arg"`
}
type stepSpec struct {
	O  int    `json:"o"`  // operation (1-based)
	Pc string `json:"pc"` // control point of the spec = the gate the goroutine is parked at ("Cancel": context cancellation)
	C  string `json:"c"`  // environment choice: load outcome, try-close verdict, map order of GC / Close
	R  string `json:"r"`  // result if the operation returns in this step
	V  int    `json:"v"`  // returned instance
}
type behaviour struct {
	Ops   []opSpec   `json:"ops"`
	Pre   []string   `json:"pre"`
	Steps []stepSpec `json:"steps"`
	End   bool       `json:"end"` // the schedule runs until every operation has returned
	Late  bool       `json:"late,omitempty"` // operations are started by "Start" steps (converted recorded run)
	Src   string     `json:"src,omitempty"`
	Rec   *recArgs   `json:"rec,omitempty"` // recorded run: how to record it again
}

type recArgs struct {
	Seed      int64    `json:"seed"`
	Slots     int      `json:"slots"`
	Ops       int      `json:"ops"`
	Ids       []string `json:"ids"`
	WithClose bool     `json:"withClose"`
	Profile   string   `json:"profile"`
}

func (b behaviour) config() string {
	s := []string{}
	for _, o := range b.Ops {
		s = append(s, fmt.Sprintf("%s.%s.%d", o.Kind, o.Id, o.Arg))
	}
	return strings.Join(s, ",") + "|" + strings.Join(b.Pre, ",")
}

// control point of the spec -> the gate at which the real goroutine waits before that step
var gateOf = map[string]string{
	"G1": "gate:get.lock", "GWC": "gate:waitclose.lock", "GWCw": "gate:waitclose.wait",
	"G3": "cb:load.enter", "G3r": "cb:load.return", "G4": "gate:load.lock", "G4b": "gate:load.close",
	"GWL": "gate:waitload", "PWL": "gate:waitload", "RWL": "gate:waitload",
	"P1": "gate:pick.lock", "A1": "gate:add.lock", "R1": "gate:remove.lock", "RS1": "gate:removesame.lock",
	"RSC": "gate:setclosing.lock", "RSCw": "gate:setclosing.wait",
	"RC": "cb:close.enter", "RCe": "cb:close.return", "RCD": "gate:closeanddelete.lock",
	"T1": "gate:tryremove.lock", "TSC": "gate:setclosing.lock", "T3": "cb:tryclose",
	"TSA": "gate:setactive.lock", "TCD": "gate:closeanddelete.lock",
	"GC1": "gate:gc.lock", "C1": "gate:close.lock",
}

var waitGates = map[string]bool{"gate:waitload": true, "gate:waitclose.wait": true, "gate:setclosing.wait": true}

type outcome struct {
	findings  []finding
	drift     string // spec and code disagree (no property involved)
	mapOrder  bool   // Go's map iteration order differed from the one TLC chose: retry
	steps     int
	freeSteps bool
}

// replayOnce forces the schedule of b on a fresh real cache, then lets the operations finish freely.
// closeDeadlinePlan: does the schedule let the deadline of a cache Close expire (a "Cancel" step of
// a Close operation)? Then the run uses an already expired deadline - unless that Close is woken by
// a close channel before the deadline step (with an expired deadline that select would be a coin
// toss): such a schedule is cut just before the deadline step.
func closeDeadlinePlan(b behaviour) (expired bool, steps []stepSpec) {
	for k, st := range b.Steps {
		if st.Pc != "Cancel" || st.O < 1 || st.O > len(b.Ops) || b.Ops[st.O-1].Kind != "Close" {
			continue
		}
		for _, p := range b.Steps[:k] {
			if p.O == st.O && p.Pc == "RSCw" {
				return false, b.Steps[:k]
			}
		}
		return true, b.Steps
	}
	return false, b.Steps
}

func replayOnce(b behaviour, seed int64) (res outcome) {
	expired, steps := closeDeadlinePlan(b)
	b.Steps = steps
	dl := closeDeadlineNever
	if expired {
		dl = closeDeadlineExpired
	}
	r := newRunDeadline(seed, dl)
	r.loadOutcomes = []string{"val", "err"}
	r.tryVerdicts = []string{"yes", "no"}
	for _, id := range b.Pre {
		if err := r.preload(id); err != nil {
			res.drift = "preload failed: " + err.Error()
			return
		}
	}
	for _, o := range b.Ops {
		id := o.Id
		if id == "-" {
			id = ""
		}
		r.newOp(o.Kind, id, o.Arg)
	}
	// every operation runs to its first gate
	for _, op := range r.ops {
		if b.Late {
			op.returned, op.late = true, true // not started yet
			continue
		}
		op.start()
		if _, hung := r.await(op); hung {
			res.findings = evaluate(r, []*opCtx{op})
			return
		}
	}
	consumedCtx := map[int]bool{}
	var stuck []*opCtx
	drift := func(f string, a ...any) { res.drift = fmt.Sprintf(f, a...) }
	// takeCtx: op is parked at a wait whose channel is not ready and its context is done (cancelled,
	// or the expired deadline of a cache Close): it leaves the wait through the context now - that
	// step has no effect on shared state, so taking it early commutes with the steps in between,
	// whereas later the channel might be ready as well and the select a coin toss. A cache Close
	// goes on to its next entry and may arrive at another such wait: repeat.
	takeCtx := func(k int, op *opCtx) bool {
		for !op.returned && waitGates[op.parkPoint] {
			nxt := -1
			for j := k + 1; j < len(b.Steps); j++ {
				if b.Steps[j].O == op.idx && !consumedCtx[j] {
					nxt = j
					break
				}
			}
			if nxt < 0 || !(b.Steps[nxt].R == "ErrCtx" || b.Steps[nxt].C == "ctx") {
				return true
			}
			want := b.Steps[nxt]
			op.parkPoint = ""
			op.release <- ""
			returned, hung := r.await(op)
			if hung {
				stuck = []*opCtx{op}
				return false
			}
			if returned != (want.R != "") || (returned && op.res != want.R) {
				drift("step %d: %s(%s) left its wait through the context: returned=%v res=%s, spec result %q", nxt, op.kind, op.id, returned, op.res, want.R)
				return false
			}
			consumedCtx[nxt] = true
			if op.kind != "Close" || op.parkPoint != "gate:setclosing.wait" {
				return true
			}
		}
		return true
	}
steps:
	for k, st := range b.Steps {
		if st.O < 1 || st.O > len(r.ops) {
			drift("step %d: no operation %d", k, st.O)
			break
		}
		op := r.ops[st.O-1]
		if st.Pc == "Start" {
			if op.kind == "RemoveSame" && op.argNum > 0 && op.argNum <= len(r.insts) {
				op.arg = r.insts[op.argNum-1]
			}
			op.returned, op.late = false, false
			op.start()
			if _, hung := r.await(op); hung {
				stuck = []*opCtx{op}
				break
			}
			continue
		}
		if st.Pc == "Cancel" {
			if op.kind != "Close" {
				op.cancel()
			} // (the deadline of a cache Close is already expired in this run)
			op.ctxDone = true
			if !op.returned && !op.inSelect && waitGates[op.parkPoint] {
				// blocked in the model: the wake-up by the context has no effect on shared state, so it
				// is taken right away (it would otherwise race with the channel becoming ready)
				nxt := -1
				for j := k + 1; j < len(b.Steps); j++ {
					if b.Steps[j].O == st.O {
						nxt = j
						break
					}
				}
				switch {
				case nxt >= 0 && (b.Steps[nxt].R == "ErrCtx" || b.Steps[nxt].C == "ctx"):
					if !takeCtx(k, op) {
						break steps
					}
				case op.kind == "Close" && expired:
					// the model says Close does not look at its deadline here (it waits for a load without
					// bound): let the real Close block in that wait for real, with the deadline expired,
					// and go on with the schedule; it comes back by itself when the load has finished
					op.parkPoint = ""
					op.inSelect = true
					op.release <- ""
				}
			}
			continue
		}
		if consumedCtx[k] {
			continue
		}
		res.steps++
		want, known := gateOf[st.Pc]
		if st.Pc == "*" {
			want, known = op.parkPoint, true
		}
		if !known {
			drift("step %d: unknown control point %s", k, st.Pc)
			break
		}
		if op.returned && !op.inSelect {
			drift("step %d: spec steps %s(%s) at %s but the real operation has returned %s", k, op.kind, op.id, st.Pc, op.res)
			break
		}
		if !op.inSelect && op.parkPoint != want {
			drift("step %d: spec has %s(%s) at %s (%s) but the real goroutine waits at %s", k, op.kind, op.id, st.Pc, want, op.parkPoint)
			break
		}
		mark := len(r.snapshot())
		if op.inSelect {
			op.inSelect = false // it is inside this wait already and wakes up by itself
		} else {
			op.parkPoint = ""
			op.release <- st.C
		}
		returned, hung := r.await(op)
		if hung {
			// the model takes this step, the code does not come back from it
			stuck = []*opCtx{op}
			break
		}
		if (st.Pc == "GC1" || st.Pc == "C1") && len(st.C) > 1 {
			got := ""
			for _, e := range r.snapshot()[mark:] {
				if e.Op == op.idx && (e.Point == "gc.victim" || e.Point == "close.collect") {
					got += e.Id
				}
			}
			if got != st.C && len(got) == len(st.C) {
				res.mapOrder = true
				break
			}
		}
		if op.ctxDone && op.kind == "Close" && !returned && op.parkPoint == "gate:setclosing.wait" && st.Pc != "*" {
			// arrived at a busy entry with the deadline already expired
			if !takeCtx(k, op) {
				break steps
			}
			continue
		}
		switch {
		case st.Pc == "*":
		case st.R != "" && !returned:
			drift("step %d: spec says %s(%s) returns %s at %s, the real one waits at %s", k, op.kind, op.id, st.R, st.Pc, op.parkPoint)
			break steps
		case st.R == "" && returned:
			drift("step %d: %s(%s) returned %s at %s, spec continues", k, op.kind, op.id, op.res, st.Pc)
			break steps
		case st.R != "" && (op.res != st.R || (op.res == "ok" && (op.kind == "Get" || op.kind == "Pick") && op.rv != st.V)):
			drift("step %d: %s(%s) returned %s #%d, spec %s #%d", k, op.kind, op.id, op.res, op.rv, st.R, st.V)
			break steps
		}
	}
	if stuck == nil {
		stuck = r.finishFree()
	} else {
		for _, op := range r.ops {
			op.cancel()
		}
		r.free.Store(true)
		for _, op := range r.ops {
			if !op.returned && op.parkPoint != "" {
				op.parkPoint = ""
				op.release <- ""
			}
		}
	}
	if res.mapOrder {
		return
	}
	res.findings = evaluate(r, stuck)
	return
}

func loadBehaviours(path string) ([]behaviour, error) {
	f, err := os.Open(path)
	if err != nil {
		return nil, err
	}
	defer f.Close()
	var res []behaviour
	sc := bufio.NewScanner(f)
	sc.Buffer(make([]byte, 1<<20), 1<<24)
	for sc.Scan() {
		if len(sc.Bytes()) == 0 {
			continue
		}
		var b behaviour
		if err := json.Unmarshal(sc.Bytes(), &b); err != nil {
			return nil, err
		}
		res = append(res, b)
	}
	return res, sc.Err()
}

// TestReplay: every behaviour of $VERIF_BEHAVIOURS (NDJSON) - or the replay object of a reported
// violation - is forced on the real cache; the C16 predicates are evaluated on the observations.
func TestReplay(t *testing.T) {
	rep := vfutil.NewReport("C16")
	defer func() { rep.Save(!t.Failed() || rep.NumViolations() > 0) }()
	var bs []behaviour
	repeat := 1
	if raw, ok := vfutil.ReplayFile(); ok {
		var b behaviour
		if err := json.Unmarshal(raw, &b); err != nil {
			t.Fatal(err)
		}
		bs = []behaviour{b}
		repeat = 20 // the tail of a cut schedule runs freely
	} else {
		var err error
		bs, err = loadBehaviours(os.Getenv("VERIF_BEHAVIOURS"))
		if err != nil {
			t.Fatal(err)
		}
	}
	if len(bs) == 0 {
		t.Fatal("no behaviours")
	}
	seed := vfutil.Seed()
	hangs, retries, skipped := 0, 0, 0
	for i, b := range bs {
		for rpt := 0; rpt < repeat; rpt++ {
			var out outcome
			for try := 0; try < 800; try++ {
				out = replayOnce(b, seed+int64(i)*31+int64(try))
				if !out.mapOrder {
					break
				}
				retries++
			}
			if out.mapOrder {
				skipped++
				if skipped <= 3 {
					bts, _ := json.Marshal(b)
					t.Logf("map order never matched: %s", bts)
				}
				continue
			}
			rep.Case(b.config())
			rep.AddReplayed(1)
			rep.AddSteps(out.steps)
			if out.drift != "" {
				rep.DriftNote("%s: %s", b.config(), out.drift)
			}
			for _, f := range out.findings {
				what := " [configuration " + b.config() + "]"
				if b.Late {
					what = " [recorded run re-executed under gates]"
				}
				rep.Violate(f.key, f.desc+what, b)
				if strings.HasPrefix(f.key, "hang:") {
					hangs++
				}
			}
			if i < 3 && rpt == 0 {
				rep.Sample(map[string]any{"config": b.config(), "steps": len(b.Steps), "complete": b.End, "drift": out.drift})
			}
		}
		if hangs >= 3 {
			break // every hang costs a watchdog period
		}
	}
	// the replay object of a violation found in a recorded run: if the gated re-execution does not
	// show it (it needs real concurrency inside what the model treats as one step), record the
	// same random run again
	if len(bs) == 1 && bs[0].Rec != nil && rep.NumViolations() == 0 {
		a := bs[0].Rec
		for k := 0; k < 40 && rep.NumViolations() == 0; k++ {
			rc := recordRun(a.Seed, a.Slots, a.Ops, a.Ids, a.WithClose, a.Profile)
			rep.Case("re-record")
			rep.AddReplayed(1)
			for _, f := range evaluate(rc.run, rc.stuck) {
				rep.Violate(f.key, f.desc+" [recorded random run, recorded again]", bs[0])
			}
		}
	}
	rep.SetExtra("replay_map_order_retries", retries)
	rep.SetExtra("replay_skipped_map_order", skipped)
	if skipped > len(bs)/100+1 {
		t.Fatalf("%d behaviours skipped because the map order never matched", skipped)
	}
}
