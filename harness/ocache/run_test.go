//go:build verif

// Package ocache binds spec/ocache/OCache.tla to the real app/ocache (property C16).
//
// run.go: one execution of a real cache under observation. Every operation runs in its own
// goroutine; the `verif` hooks of app/ocache report the lock sections it passes (emitters) and let
// the harness park it between them (gates); LoadFunc, Object.Close and Object.TryClose are owned by
// the harness and are gates, too. All observations go into one event log ordered by a sequence
// number taken while the reporting goroutine still holds the lock that protects the change.
package ocache

import (
	"bytes"
	"context"
	"errors"
	"fmt"
	"math/rand"
	"runtime"
	"strconv"
	"strings"
	"sync"
	"sync/atomic"
	"time"

	"go.uber.org/zap"

	"github.com/anyproto/any-sync/app/logger"
	"github.com/anyproto/any-sync/app/ocache"
)

// ---------------------------------------------------------------- goroutine routing

func goid() uint64 {
	var buf [64]byte
	n := runtime.Stack(buf[:], false)
	// "goroutine 123 [running]:"
	b := buf[10:n]
	i := bytes.IndexByte(b, ' ')
	id, _ := strconv.ParseUint(string(b[:i]), 10, 64)
	return id
}

var routes sync.Map // goid -> *opCtx

func init() {
	logger.SetDefault(zap.NewNop())
	logger.SetNamedLevels([]logger.NamedLevel{{Name: "*", Level: "fatal"}})
	ocache.SetVerifHook(func(ev ocache.VerifEvent) {
		if v, ok := routes.Load(goid()); ok {
			op := v.(*opCtx)
			op.run.onHook(op, ev)
		}
	})
}

// ---------------------------------------------------------------- events

type event struct {
	Seq   int    `json:"n"`
	Op    int    `json:"op"` // operation (unique per run); 0 = set-up
	Slot  int    `json:"g"`  // goroutine slot that executes the operation (= Op in schedule replay)
	Point string `json:"ev"` // hook point or harness event
	Id    string `json:"id,omitempty"`
	Entry uint64 `json:"e,omitempty"`  // entry serial
	State string `json:"st,omitempty"` // entry state if read under e.mx
	Inst  int    `json:"i,omitempty"`  // harness instance number
	Kind  string `json:"k,omitempty"`  // op.start: kind
	Arg   int    `json:"arg,omitempty"`
	Res   string `json:"res,omitempty"` // op.ret: result
}

var stateNames = map[int]string{
	ocache.VerifStateLoading: "loading", ocache.VerifStateActive: "active",
	ocache.VerifStateClosing: "closing", ocache.VerifStateClosed: "closed",
}

var (
	errLoad = errors.New("harness: load failed")
	errTry  = errors.New("harness: try-close error")
)

// ---------------------------------------------------------------- instances

type obj struct {
	run *run
	id  string
	how string // load | add
	num int    // instance number (0 until it is known to the cache)
}

func (o *obj) Close() error {
	r := o.run
	op := r.cur()
	op.park("cb:close.enter", o.id)
	r.rec(op, event{Point: "close.start", Id: o.id, Inst: o.num})
	op.park("cb:close.return", o.id)
	r.rec(op, event{Point: "close.end", Id: o.id, Inst: o.num})
	return nil
}

func (o *obj) TryClose(time.Duration) (bool, error) {
	r := o.run
	op := r.cur()
	choice := op.park("cb:tryclose", o.id)
	if choice == "" {
		choice = r.pick(r.tryVerdicts)
	}
	r.rec(op, event{Point: "tryclose." + choice, Id: o.id, Inst: o.num})
	var err error
	if strings.HasSuffix(choice, "Err") {
		err = errTry
	}
	return strings.HasPrefix(choice, "yes"), err
}

// ---------------------------------------------------------------- run

type note struct {
	op       *opCtx
	returned bool
}

type run struct {
	mu     sync.Mutex
	events []event
	cache  ocache.OCache
	ops    []*opCtx
	setup  *opCtx
	insts  []*obj
	free   atomic.Bool // parks do not block
	notes  chan note
	rng    *rand.Rand

	loadOutcomes []string
	tryVerdicts  []string
	onEvent      func(event) // optional sink (trace recording)
	yield        bool        // free mode: yield the processor at random gates
	ycnt         atomic.Uint64
}

func (r *run) maybeYield() {
	// cheap deterministic-free jitter: no clock, no lock
	if n := r.ycnt.Add(0x9E3779B97F4A7C15); (n>>33)%3 == 0 {
		runtime.Gosched()
	}
}

// closeDeadlineNever / closeDeadlineExpired: the two close deadlines the harness uses. Cache Close
// derives its closing context with context.WithTimeout(closeTimeout) right after its c.mu section;
// "expired" makes that context done from the start, so the deadline "fires" exactly where the
// schedule lets Close look at it (the knob is injected by overlay: harness/inpkg/ocache).
const (
	closeDeadlineNever   = time.Hour
	closeDeadlineExpired = time.Nanosecond
)

func newRun(seed int64) *run { return newRunDeadline(seed, closeDeadlineNever) }

func newRunDeadline(seed int64, closeTimeout time.Duration) *run {
	defer ocache.VerifSetCloseTimeout(ocache.VerifSetCloseTimeout(closeTimeout))
	r := &run{notes: make(chan note, 64), rng: rand.New(rand.NewSource(seed)),
		loadOutcomes: []string{"val"}, tryVerdicts: []string{"yes", "no"}}
	// ttl < 0: every active entry is expired (GC victims = all active entries); gc period 0: no ticker
	r.cache = ocache.New(r.loadFunc, ocache.WithTTL(-time.Hour), ocache.WithGCPeriod(0), ocache.WithLogger(zap.NewNop().Sugar()))
	r.setup = &opCtx{run: r, idx: 0, kind: "setup", ctx: context.Background(), freepass: true}
	return r
}

func (r *run) pick(from []string) string {
	r.mu.Lock()
	defer r.mu.Unlock()
	return from[r.rng.Intn(len(from))]
}

func (r *run) cur() *opCtx {
	if v, ok := routes.Load(goid()); ok {
		return v.(*opCtx)
	}
	return r.setup
}

func (r *run) rec(op *opCtx, ev event) int { return r.recNew(op, ev, nil) }

func (r *run) recNew(op *opCtx, ev event, nw *obj) int {
	r.mu.Lock()
	ev.Seq = len(r.events) + 1
	ev.Op = op.idx
	ev.Slot = op.slot
	if nw != nil {
		// a new instance gets its number under the same lock as the sequence number
		r.insts = append(r.insts, nw)
		nw.num = len(r.insts)
		ev.Inst = nw.num
	}
	r.events = append(r.events, ev)
	if r.onEvent != nil {
		r.onEvent(ev)
	}
	r.mu.Unlock()
	return ev.Seq
}

func (r *run) onHook(op *opCtx, ev ocache.VerifEvent) {
	if strings.HasPrefix(ev.Point, "gate:") {
		if ev.Point == "gate:load.close" {
			// also the marker of the step "close(e.load)" in recorded traces
			r.rec(op, event{Point: "load.close", Id: ev.Id, Entry: ev.Entry})
		}
		op.park(ev.Point, ev.Id)
		return
	}
	e := event{Point: ev.Point, Id: ev.Id, Entry: ev.Entry}
	if ev.HasState {
		e.State = stateNames[ev.State]
	}
	if ev.Point == "add.ok" && op.arg != nil && op.arg.num == 0 {
		// the added object becomes an instance of the cache here (under c.mu)
		r.recNew(op, e, op.arg)
		return
	}
	r.rec(op, e)
}

func (r *run) loadFunc(ctx context.Context, id string) (ocache.Object, error) {
	op := r.cur()
	op.park("cb:load.enter", id)
	o := &obj{run: r, id: id, how: "load"}
	r.recNew(op, event{Point: "load.start", Id: id}, o)
	choice := op.park("cb:load.return", id)
	if choice == "" {
		choice = r.pick(r.loadOutcomes)
	}
	if choice == "err" {
		r.rec(op, event{Point: "load.end.err", Id: id, Inst: o.num})
		return nil, errLoad
	}
	r.rec(op, event{Point: "load.end.val", Id: id, Inst: o.num})
	return o, nil
}

// ---------------------------------------------------------------- operations

type opCtx struct {
	run      *run
	idx      int // unique operation number in the run
	slot     int // goroutine slot
	kind, id string
	arg      *obj // Add: the object to add; RemoveSame: the value to remove
	argNum   int  // RemoveSame: instance number of arg (-1 foreign)
	ctx      context.Context
	cancel   context.CancelFunc
	freepass bool
	cancelled bool // record mode: the canceller has cancelled ctx (guarded by the recorder's lock)

	release   chan string
	parkPoint string // where the goroutine is parked ("" = running); owned by the scheduler protocol
	parkId    string
	returned  bool
	late      bool // not started yet (converted recorded run)
	ctxDone   bool // its context is done (cancelled / expired close deadline)
	inSelect  bool // released into a blocking wait of the cache without waiting for it to come back
	noted     bool // a park / return note of this operation has already been taken from the channel
	res       string
	rv        int
	panicMsg  string
	startSeq  int
	retSeq    int
	lastPoint atomic.Value // string: last hook/park point reached (diagnostics)
}

// park blocks the calling operation until the scheduler releases it (gated mode).
func (op *opCtx) park(point, id string) string {
	op.lastPoint.Store(point)
	if op.freepass {
		return ""
	}
	if op.run.free.Load() {
		if op.run.yield {
			op.run.maybeYield()
		}
		return ""
	}
	op.parkPoint, op.parkId = point, id
	op.run.notes <- note{op: op}
	return <-op.release
}

func (r *run) newOp(kind, id string, argNum int) *opCtx {
	op := &opCtx{run: r, idx: len(r.ops) + 1, slot: len(r.ops) + 1, kind: kind, id: id, argNum: argNum, release: make(chan string, 1)}
	op.ctx, op.cancel = context.WithCancel(context.Background())
	switch kind {
	case "Add":
		op.arg = &obj{run: r, id: id, how: "add"}
	case "RemoveSame":
		r.mu.Lock()
		if argNum > 0 && argNum <= len(r.insts) {
			op.arg = r.insts[argNum-1]
		}
		r.mu.Unlock()
		if op.arg == nil {
			op.arg = &obj{run: r, id: id, how: "foreign", num: -1}
		}
	}
	r.ops = append(r.ops, op)
	return op
}

func classify(err error) string {
	switch {
	case err == nil:
		return "ok"
	case errors.Is(err, ocache.ErrClosed):
		return "ErrClosed"
	case errors.Is(err, ocache.ErrExists):
		return "ErrExists"
	case errors.Is(err, ocache.ErrNotExists):
		return "ErrNotExists"
	case errors.Is(err, context.Canceled), errors.Is(err, context.DeadlineExceeded):
		return "ErrCtx"
	case errors.Is(err, errLoad):
		return "ErrLoad"
	case errors.Is(err, errTry):
		return "ErrTry"
	}
	return "Err:" + err.Error()
}

// call executes the operation on the real cache and classifies its result like the spec does.
func (op *opCtx) call() {
	r := op.run
	c := r.cache
	defer func() {
		if p := recover(); p != nil {
			op.res = "panic"
			op.panicMsg = fmt.Sprint(p)
		}
	}()
	lookup := func(v ocache.Object, err error) {
		op.res = classify(err)
		if err == nil {
			if o, ok := v.(*obj); ok && o != nil {
				op.rv = o.num
			} else {
				op.rv = 0
			}
		}
	}
	removal := func(ok bool, err error) {
		switch {
		case err == nil && ok:
			op.res = "ok"
		case err == nil:
			op.res = "notok"
		case errors.Is(err, errTry) && ok:
			op.res = "okErr"
		case errors.Is(err, errTry):
			op.res = "notokErr"
		default:
			op.res = classify(err)
		}
	}
	switch op.kind {
	case "Get":
		lookup(c.Get(op.ctx, op.id))
	case "Pick":
		lookup(c.Pick(op.ctx, op.id))
	case "Add":
		op.res = classify(c.Add(op.id, op.arg))
	case "Remove":
		removal(c.Remove(op.ctx, op.id))
	case "RemoveSame":
		removal(c.RemoveSame(op.ctx, op.id, op.arg))
	case "TryRemove":
		removal(c.TryRemove(op.id))
	case "GC":
		c.GC()
		op.res = "ok"
	case "Close":
		op.res = classify(c.Close())
	default:
		panic("harness: unknown operation " + op.kind)
	}
}

// start launches the operation in its own goroutine; in gated mode it parks at its first gate.
func (op *opCtx) start() {
	r := op.run
	go func() {
		g := goid()
		routes.Store(g, op)
		defer routes.Delete(g)
		op.startSeq = r.rec(op, event{Point: "op.start", Id: op.id, Kind: op.kind, Arg: op.argNum})
		op.call()
		e := event{Point: "op.ret", Id: op.id, Kind: op.kind, Res: op.res, Inst: op.rv}
		op.retSeq = r.rec(op, e)
		r.notes <- note{op: op, returned: true}
	}()
}

// runSetup executes f on the calling goroutine as the set-up pseudo operation (never parks).
func (r *run) runSetup(f func()) {
	g := goid()
	routes.Store(g, r.setup)
	defer routes.Delete(g)
	f()
}

// preload loads id through a real Get before the concurrent phase.
func (r *run) preload(id string) error {
	var err error
	r.runSetup(func() {
		save := r.loadOutcomes
		r.loadOutcomes = []string{"val"}
		_, err = r.cache.Get(context.Background(), id)
		r.loadOutcomes = save
	})
	return err
}

const watchdog = 20 * time.Second

// await waits for the next note of op (its next park or its return).
func (r *run) await(op *opCtx) (returned bool, hung bool) {
	if op.noted {
		op.noted = false
		return op.returned, false
	}
	t := time.NewTimer(watchdog)
	defer t.Stop()
	for {
		select {
		case n := <-r.notes:
			if n.returned {
				n.op.returned = true
				n.op.parkPoint = ""
			}
			if n.op == op {
				return n.returned, false
			}
			n.op.noted = true // an operation that blocks for real came back on its own
		case <-t.C:
			return false, true
		}
	}
}

// finishFree switches to free running, releases every parked operation and waits until all
// operations have returned; it returns those that did not (blocked forever inside the cache).
func (r *run) finishFree() (stuck []*opCtx) {
	r.free.Store(true)
	pending := 0
	for _, op := range r.ops {
		if op.late {
			// never started in the forced prefix: run it now
			op.returned, op.late = false, false
			op.start()
		}
		if !op.returned {
			pending++
			if op.inSelect {
				// it runs on its own; if it has parked meanwhile its note was either taken already
				// (noted) or is still in the channel (handled below)
				if op.noted {
					op.noted = false
					op.release <- ""
				}
				continue
			}
			if op.parkPoint != "" {
				op.parkPoint = ""
				op.release <- ""
			}
		}
	}
	t := time.NewTimer(watchdog)
	defer t.Stop()
	for pending > 0 {
		select {
		case n := <-r.notes:
			if n.returned {
				n.op.returned = true
				pending--
			} else {
				// parked just before free mode was switched on
				n.op.release <- ""
			}
		case <-t.C:
			for _, op := range r.ops {
				if !op.returned {
					stuck = append(stuck, op)
				}
			}
			// let blocked context-aware operations go; the others leak with this run
			for _, op := range r.ops {
				op.cancel()
			}
			return stuck
		}
	}
	return nil
}

func (r *run) snapshot() []event {
	r.mu.Lock()
	defer r.mu.Unlock()
	return append([]event(nil), r.events...)
}
