//go:build verif

// X02 - incoming request limiting (util/syncqueues Limit / Guard, commonspace/sync requestManager).
// TestLimitEdges: every transition of the TLC state graph of ReqLimit.tla is executed on a real
// syncqueues.Limit (shortest path to the source state, then the edge); result and Stats() of every id are
// compared with the model after every call.
// TestGateReplay: behaviours of ReqGate.tla are replayed on a real requestManager with a gated handler.
package syncqueues

import (
	"context"
	"encoding/json"
	"errors"
	"fmt"
	"os"
	"sort"
	"testing"
	"time"

	"google.golang.org/protobuf/proto"
	"storj.io/drpc"

	"github.com/anyproto/any-sync/app"
	"github.com/anyproto/any-sync/commonspace/spacesyncproto"
	csync "github.com/anyproto/any-sync/commonspace/sync"
	"github.com/anyproto/any-sync/commonspace/sync/syncdeps"
	sq "github.com/anyproto/any-sync/util/syncqueues"

	"verifharness/vfutil"
)

type mstate struct {
	Tokens     map[string]int `json:"tokens"`
	Total      int            `json:"total"`
	ExTotal    int            `json:"exTotal"`
	Counter    int            `json:"counter"`
	PeerAllow  int            `json:"peerAllow"`
	TotalAllow int            `json:"totalAllow"`
}

func (s mstate) key() string { b, _ := json.Marshal(s); return string(b) }

type lcfg struct {
	PeerStep  []int    `json:"peerStep"`
	TotalStep []int    `json:"totalStep"`
	Excluded  []string `json:"excluded"`
	ExLimit   int      `json:"exLimit"`
}

func (c lcfg) newLimit() *sq.Limit {
	ps := append([]int(nil), c.PeerStep...)
	ts := append([]int(nil), c.TotalStep[:len(c.TotalStep)-1]...) // NewLimit appends the copy of the last step itself
	return sq.NewLimit(ps, ts, append([]string(nil), c.Excluded...), c.ExLimit)
}

func (c lcfg) isEx(p string) bool {
	for _, e := range c.Excluded {
		if e == p {
			return true
		}
	}
	return false
}

type edge struct {
	lcfg
	Pre  mstate `json:"pre"`
	Op   string `json:"op"`
	P    string `json:"p"`
	Res  bool   `json:"res"`
	Post mstate `json:"post"`
}

func expectStats(c lcfg, s mstate, p string) string {
	if c.isEx(p) {
		return fmt.Sprintf("excluded peer: %d/%d, total: %d/%d/%d", s.Tokens[p], c.ExLimit, s.ExTotal, s.Total, s.TotalAllow)
	}
	return fmt.Sprintf("peer: %d/%d, total: %d/%d/%d", s.Tokens[p], s.PeerAllow, s.ExTotal, s.Total, s.TotalAllow)
}

func TestLimitEdges(t *testing.T) {
	rep := vfutil.NewReport("X02")
	defer func() { rep.Save(!t.Failed()) }()
	edges, err := vfutil.LoadJSONFiles[edge](os.Getenv("VERIF_EDGES"))
	if err != nil || len(edges) == 0 {
		t.Fatalf("no edges: %v", err)
	}
	// BFS tree over the model's graph
	out := map[string][]int{}
	for i, e := range edges {
		out[e.Pre.key()] = append(out[e.Pre.key()], i)
	}
	init := mstate{Tokens: map[string]int{}, Counter: 1, PeerAllow: edges[0].PeerStep[0], TotalAllow: edges[0].TotalStep[0]}
	for p := range edges[0].Pre.Tokens {
		init.Tokens[p] = 0
	}
	via := map[string]int{init.key(): -1}
	queue := []string{init.key()}
	for len(queue) > 0 {
		k := queue[0]
		queue = queue[1:]
		for _, i := range out[k] {
			nk := edges[i].Post.key()
			if _, ok := via[nk]; !ok {
				via[nk] = i
				queue = append(queue, nk)
			}
		}
	}
	ids := []string{}
	for p := range init.Tokens {
		ids = append(ids, p)
	}
	sort.Strings(ids)
	for i, e := range edges {
		if _, ok := via[e.Pre.key()]; !ok {
			t.Fatalf("edge %d: source state not reachable in the emitted graph (generator problem)", i)
		}
		var path []int
		for k := e.Pre.key(); via[k] >= 0; k = edges[via[k]].Pre.key() {
			path = append([]int{via[k]}, path...)
		}
		path = append(path, i)
		l := e.newLimit()
		var calls []string
		for _, j := range path {
			st := edges[j]
			calls = append(calls, st.Op+"("+st.P+")")
			if st.Op == "take" {
				if got := l.Take(st.P); got != st.Res {
					rep.Violate(fmt.Sprintf("limit-take:%v-want-%v", got, st.Res),
						fmt.Sprintf("Limit.Take(%s) = %v, the specification says %v after %v", st.P, got, st.Res, calls), map[string]any{"cfg": e.lcfg, "calls": calls})
					break
				}
			} else {
				l.Release(st.P)
			}
			rep.AddSteps(1)
			bad := false
			for _, p := range ids {
				if got, want := l.Stats(p), expectStats(e.lcfg, st.Post, p); got != want {
					rep.Violate("limit-state:"+st.Op, fmt.Sprintf("after %v: Stats(%s) = %q, the specification says %q", calls, p, got, want),
						map[string]any{"cfg": e.lcfg, "calls": calls})
					bad = true
				}
			}
			if bad {
				break
			}
		}
		rep.Case(fmt.Sprintf("%s|%s|%s", e.Pre.key(), e.Op, e.P))
	}
	rep.AddReplayed(len(edges))
	rep.SetExtra("limit_states", len(via))
}

// ---------------------------------------------------------------------------------------------------

type grq struct{ name, peer, obj string }

func (r *grq) PeerId() string                { return r.peer }
func (r *grq) ObjectId() string              { return r.obj }
func (r *grq) Proto() (proto.Message, error) { return nil, nil }
func (r *grq) MsgSize() uint64               { return 10 }

type gatedHandler struct {
	entered chan string
	release map[string]chan bool
}

var errHandler = errors.New("handler failed")

func (h *gatedHandler) Init(a *app.App) error { return nil }
func (h *gatedHandler) Name() string          { return "gated" }
func (h *gatedHandler) HandleHeadUpdate(ctx context.Context, m drpc.Message) (syncdeps.Request, error) {
	return nil, nil
}
func (h *gatedHandler) HandleStreamRequest(ctx context.Context, rq syncdeps.Request, u syncdeps.QueueSizeUpdater, send func(proto.Message) error) (syncdeps.Request, error) {
	n := rq.(*grq).name
	h.entered <- n
	if <-h.release[n] {
		return nil, errHandler
	}
	return nil, nil
}
func (h *gatedHandler) ApplyRequest(ctx context.Context, rq syncdeps.Request, s syncdeps.RequestSender) error {
	return nil
}
func (h *gatedHandler) SendStreamRequest(ctx context.Context, rq syncdeps.Request, receive func(drpc.Stream) error) error {
	return nil
}

type metric struct{ in int64 }

func (m *metric) UpdateQueueSize(size uint64, msgType int, add bool) {
	if msgType != syncdeps.MsgTypeIncomingRequest {
		return
	}
	if add {
		m.in += int64(size)
	} else {
		m.in -= int64(size)
	}
}

type gstep struct {
	Act string `json:"act"`
	R   string `json:"r"`
	Res string `json:"res"`
}

type gbeh struct {
	lcfg
	Hist []gstep           `json:"hist"`
	Peer map[string]string `json:"peer"`
	Obj  map[string]string `json:"obj"`
}

func TestGateReplay(t *testing.T) {
	rep := vfutil.NewReport("X02")
	defer func() { rep.Save(!t.Failed()) }()
	behs, err := vfutil.LoadJSONFiles[gbeh](os.Getenv("VERIF_BEHAVIOURS"))
	if err != nil || len(behs) == 0 {
		t.Fatalf("no behaviours: %v", err)
	}
	for bi, b := range behs {
		h := &gatedHandler{entered: make(chan string), release: map[string]chan bool{}}
		lim := b.newLimit()
		rm := csync.NewRequestManager(h, &metric{}, nil, lim)
		returned := map[string]chan error{}
		tokens := map[string]int{}
		var calls []string
		fail := func(key, desc string) {
			rep.Violate(key, desc, map[string]any{"behaviour": b, "calls": calls})
		}
		ok := true
		for _, s := range b.Hist {
			calls = append(calls, s.Act+"("+s.R+")")
			switch s.Act {
			case "enter":
				rq := &grq{name: s.R, peer: b.Peer[s.R], obj: b.Obj[s.R]}
				h.release[s.R] = make(chan bool, 1)
				ch := make(chan error, 1)
				returned[s.R] = ch
				go func() { ch <- rm.HandleStreamRequest(context.Background(), rq, nil) }()
				got := ""
				select {
				case n := <-h.entered:
					if n != s.R {
						t.Fatalf("harness: unexpected handler entry %s", n)
					}
					got = "in"
					tokens[rq.peer]++
				case err := <-ch:
					switch {
					case errors.Is(err, spacesyncproto.ErrDuplicateRequest):
						got = "dup"
					case errors.Is(err, spacesyncproto.ErrTooManyRequestsFromPeer):
						got = "many"
					default:
						got = fmt.Sprint("returned:", err)
					}
				case <-time.After(20 * time.Second):
					t.Fatalf("harness: request %s neither entered the handler nor returned", s.R)
				}
				if got != s.Res {
					what := "gate-" + got + "-want-" + s.Res
					fail(what, fmt.Sprintf("behaviour %d, %v: request %s (%s,%s) outcome %s, the specification says %s", bi, calls, s.R, rq.peer, rq.obj, got, s.Res))
					ok = false
				}
			case "finish":
				h.release[s.R] <- s.Res == "err"
				select {
				case err := <-returned[s.R]:
					if (s.Res == "err") != errors.Is(err, errHandler) || (s.Res == "ok" && err != nil) {
						fail("gate-finish-result", fmt.Sprintf("behaviour %d: request %s returned %v, expected %s", bi, s.R, err, s.Res))
						ok = false
					}
				case <-time.After(20 * time.Second):
					t.Fatalf("harness: request %s did not return after its handler finished", s.R)
				}
				tokens[b.Peer[s.R]]--
			}
			rep.AddSteps(1)
			if !ok {
				break
			}
			// tokens in use = handlers running (TokensAreHandlers), read from the real limiter
			for p, n := range tokens {
				var have int
				st := lim.Stats(p)
				if b.isEx(p) {
					fmt.Sscanf(st, "excluded peer: %d/", &have)
				} else {
					fmt.Sscanf(st, "peer: %d/", &have)
				}
				if have != n {
					fail("gate-tokens-leak", fmt.Sprintf("behaviour %d, %v: limiter holds %d tokens for %s, %d handlers are running (%s)", bi, calls, have, p, n, st))
					ok = false
				}
			}
			if !ok {
				break
			}
		}
		// let every parked handler go
		for n, ch := range h.release {
			select {
			case ch <- false:
			default:
			}
			_ = n
		}
		rep.Case(fmt.Sprint(calls))
	}
	rep.AddReplayed(len(behs))
}
