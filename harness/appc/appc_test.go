// Package appc binds spec/app/AppContainer.tla to the real app.App (property C20).
//
//	TestReplay : every behaviour TLC emitted (component list, failure point, nesting) is
//	             executed on a real container; the observed call log, Start/Close results and
//	             name resolution must equal the behaviour, and the property predicates are
//	             evaluated on the real observations.
//	TestRecord : random larger configurations are executed and their call logs written as an
//	             NDJSON trace that AppContainerTrace.tla validates.
package appc

import (
	"context"
	"encoding/json"
	"errors"
	"fmt"
	"os"
	"path/filepath"
	"strings"
	"testing"

	"github.com/anyproto/any-sync/app"

	"verifharness/vfutil"
)

type compSpec struct {
	Kind     string `json:"kind"`
	CloseErr bool   `json:"closeErr"`
}
type failSpec struct {
	Kind string `json:"kind"`
	Idx  int    `json:"idx"`
}
type behaviour struct {
	Comps        []compSpec     `json:"comps"`
	Fail         failSpec       `json:"fail"`
	Chain        [][]string     `json:"chain"`
	Late         []int          `json:"late"`
	Log          [][]any        `json:"log"`
	StartErr     string         `json:"startErr"`
	CloseErrs    []int          `json:"closeErrs"`
	Resolve      map[string]int `json:"resolve"`
	ResolveEarly map[string]int `json:"resolveEarly"`
}

type call struct {
	Op string
	I  int
}

type recorder struct{ calls []call }

type plain struct {
	rec     *recorder
	i       int
	name    string
	initErr bool
	level   int
}

func (p *plain) Init(a *app.App) error {
	p.rec.calls = append(p.rec.calls, call{"init", p.i})
	if p.initErr {
		return errors.New("init failure")
	}
	return nil
}
func (p *plain) Name() string { return p.name }

type runnable struct {
	plain
	runErr, closeErr bool
}

func (r *runnable) Run(ctx context.Context) error {
	r.rec.calls = append(r.rec.calls, call{"run", r.i})
	if r.runErr {
		return errors.New("run failure")
	}
	return nil
}
func (r *runnable) Close(ctx context.Context) error {
	r.rec.calls = append(r.rec.calls, call{"close", r.i})
	if r.closeErr {
		return fmt.Errorf("close failure of %s", r.name)
	}
	return nil
}

// build the container under test: lifecycle components c1..cn, preceded by nothing else.
func build(a *app.App, rec *recorder, comps []compSpec, fail failSpec) {
	for i, c := range comps {
		n := i + 1
		p := plain{rec: rec, i: n, name: fmt.Sprintf("c%d", n), initErr: fail.Kind == "init" && fail.Idx == n}
		if c.Kind == "runnable" {
			a.Register(&runnable{plain: p, runErr: fail.Kind == "run" && fail.Idx == n, closeErr: c.CloseErr})
		} else {
			pp := p
			a.Register(&pp)
		}
	}
}

// property predicates of C20 on an observed call log
func checkLog(comps []compSpec, fail failSpec, calls []call, startErr error, closeErr error, closeCalled bool) (string, string) {
	n := len(comps)
	pos := func(op string, i int) int {
		for p, c := range calls {
			if c.Op == op && c.I == i {
				return p
			}
		}
		return -1
	}
	cnt := map[call]int{}
	for _, c := range calls {
		cnt[c]++
		if cnt[c] > 1 {
			return "call-twice", fmt.Sprintf("%s(%d) called twice", c.Op, c.I)
		}
	}
	isRun := func(i int) bool { return comps[i-1].Kind == "runnable" }
	firstRun, firstClose := -1, -1
	for p, c := range calls {
		if c.Op == "run" && firstRun < 0 {
			firstRun = p
		}
		if c.Op == "close" && firstClose < 0 {
			firstClose = p
		}
		if (c.Op == "run" || c.Op == "close") && !isRun(c.I) {
			return "plain-run-or-closed", fmt.Sprintf("%s on plain component %d", c.Op, c.I)
		}
	}
	if firstRun >= 0 {
		for j := 1; j <= n; j++ {
			if p := pos("init", j); p < 0 || p > firstRun {
				return "run-before-all-init", fmt.Sprintf("a component was run before component %d was initialised", j)
			}
		}
	}
	lastInit, lastRun, lastClose := 0, 0, n+1
	for p, c := range calls {
		switch c.Op {
		case "init":
			if c.I != lastInit+1 {
				return "init-order", fmt.Sprintf("init(%d) after init(%d)", c.I, lastInit)
			}
			lastInit = c.I
		case "run":
			if c.I <= lastRun {
				return "run-order", fmt.Sprintf("run(%d) after run(%d)", c.I, lastRun)
			}
			for k := lastRun + 1; k < c.I; k++ {
				if isRun(k) {
					return "run-skipped", fmt.Sprintf("runnable %d skipped before run(%d)", k, c.I)
				}
			}
			lastRun = c.I
		case "close":
			if c.I >= lastClose {
				return "close-order", fmt.Sprintf("close(%d) after close(%d): a component closed before a later one", c.I, lastClose)
			}
			lastClose = c.I
		}
		if firstClose >= 0 && p > firstClose && c.Op != "close" {
			return "call-after-close", fmt.Sprintf("%s(%d) after closing began", c.Op, c.I)
		}
	}
	if fail.Kind != "none" {
		if startErr == nil {
			return "failure-not-reported", "Start returned nil although a component failed"
		}
		for i := 1; i <= n; i++ {
			want := isRun(i) && i <= fail.Idx
			if (pos("close", i) >= 0) != want {
				return "failure-close-set", fmt.Sprintf("after %s failure of %d: close(%d) called=%v want %v", fail.Kind, fail.Idx, i, pos("close", i) >= 0, want)
			}
			if i > fail.Idx && pos("run", i) >= 0 {
				return "run-after-failure", fmt.Sprintf("run(%d) after failure of %d", i, fail.Idx)
			}
			if fail.Kind == "init" && (pos("run", i) >= 0 || (pos("init", i) >= 0) != (i <= fail.Idx)) {
				return "init-failure-continues", fmt.Sprintf("after init failure of %d: init/run of %d", fail.Idx, i)
			}
		}
	} else {
		if startErr != nil {
			return "spurious-start-error", "Start failed without a failing component: " + startErr.Error()
		}
		if closeCalled {
			for i := 1; i <= n; i++ {
				if pos("init", i) < 0 || (pos("run", i) >= 0) != isRun(i) || (pos("close", i) >= 0) != isRun(i) {
					return "clean-shutdown-set", fmt.Sprintf("component %d: init/run/close set wrong after clean start+close", i)
				}
				if comps[i-1].CloseErr && (closeErr == nil || !strings.Contains(closeErr.Error(), fmt.Sprintf("c%d", i))) {
					return "close-error-lost", fmt.Sprintf("close error of component %d not reported", i)
				}
			}
			anyErr := false
			for _, c := range comps {
				anyErr = anyErr || c.CloseErr
			}
			if !anyErr && closeErr != nil {
				return "spurious-close-error", closeErr.Error()
			}
		}
	}
	return "", ""
}

func runReal(comps []compSpec, fail failSpec, parents int) (calls []call, startErr, closeErr error, closed bool, parentCalls int) {
	rec := &recorder{}
	prec := &recorder{}
	root := new(app.App)
	cur := root
	for k := 0; k < parents; k++ {
		// parents hold runnable components that must never be touched by the child's Start/Close
		cur.Register(&runnable{plain: plain{rec: prec, i: 100 + k, name: fmt.Sprintf("p%d", k)}})
		cur = cur.ChildApp()
	}
	build(cur, rec, comps, fail)
	startErr = cur.Start(context.Background())
	if startErr == nil {
		closeErr = cur.Close(context.Background())
		closed = true
	}
	return rec.calls, startErr, closeErr, closed, len(prec.calls)
}

type named struct {
	name  string
	level int
}

func (n *named) Init(a *app.App) error { return nil }
func (n *named) Name() string          { return n.name }

func checkLookup(chain [][]string, late []int, resolve, resolveEarly map[string]int) (string, string) {
	// chain[0] = container under test, chain[k] = k-th parent; level numbers are 1-based.
	// Levels in `late` register their components only after their child container was created.
	isLate := map[int]bool{}
	for _, l := range late {
		isLate[l] = true
	}
	apps := make([]*app.App, len(chain))
	reg := func(k int) {
		for _, nm := range chain[k] {
			apps[k].Register(&named{name: nm, level: k + 1})
		}
	}
	for k := len(chain) - 1; k >= 0; k-- {
		if k == len(chain)-1 {
			apps[k] = new(app.App)
		} else {
			apps[k] = apps[k+1].ChildApp()
		}
		if !isLate[k+1] {
			reg(k)
		}
	}
	// early lookups (before the late levels register): the answer is that of the registrations made so far,
	// and asking must not influence what a later lookup returns
	for nm, want := range resolveEarly {
		got := 0
		if c := apps[0].Component(nm); c != nil {
			got = c.(*named).level
		}
		if got != want {
			return "lookup-order-early", fmt.Sprintf("early Component(%q) resolved at level %d, want %d (chain %v, late %v)", nm, got, want, chain, late)
		}
	}
	for k := len(chain) - 1; k >= 0; k-- {
		if isLate[k+1] {
			reg(k)
		}
	}
	for nm, want := range resolve {
		c := apps[0].Component(nm)
		got := 0
		if c != nil {
			got = c.(*named).level
		}
		if got != want {
			return "lookup-order", fmt.Sprintf("Component(%q) resolved at level %d, want %d (chain %v, late %v)", nm, got, want, chain, late)
		}
		// MustComponent panics exactly when nothing resolves
		panicked := func() (p bool) {
			defer func() { p = recover() != nil }()
			apps[0].MustComponent(nm)
			return
		}()
		if panicked != (want == 0) {
			return "mustcomponent", fmt.Sprintf("MustComponent(%q) panicked=%v, resolve level %d", nm, panicked, want)
		}
	}
	// generic lookup: first component (local first, then parents) implementing the type
	v, err := app.GetComponent[*named](apps[0])
	wantLevel := 0
	for k := range chain {
		if len(chain[k]) > 0 {
			wantLevel = k + 1
			break
		}
	}
	if (err != nil) != (wantLevel == 0) || (err == nil && v.level != wantLevel) {
		return "generic-lookup-order", fmt.Sprintf("GetComponent found level %v err %v, want level %d (chain %v, late %v)", v, err, wantLevel, chain, late)
	}
	// ComponentNames: local names first, then each parent's, nearest first
	var wantNames []string
	for k := range chain {
		wantNames = append(wantNames, chain[k]...)
	}
	if got := apps[0].ComponentNames(); fmt.Sprint(got) != fmt.Sprint(wantNames) && (len(got) > 0 || len(wantNames) > 0) {
		return "component-names", fmt.Sprintf("ComponentNames %v, want %v (chain %v, late %v)", got, wantNames, chain, late)
	}
	return "", ""
}

func logToCalls(l [][]any) []call {
	res := make([]call, 0, len(l))
	for _, e := range l {
		res = append(res, call{e[0].(string), int(e[1].(float64))})
	}
	return res
}

func TestReplay(t *testing.T) {
	rep := vfutil.NewReport("C20")
	defer func() { rep.Save(!t.Failed() || rep.NumViolations() > 0) }()
	var bs []behaviour
	if raw, ok := vfutil.ReplayFile(); ok {
		var b behaviour
		if err := json.Unmarshal(raw, &b); err != nil {
			t.Fatal(err)
		}
		bs = []behaviour{b}
	} else {
		var err error
		bs, err = vfutil.LoadJSONFiles[behaviour](os.Getenv("VERIF_BEHAVIOURS"))
		if err != nil {
			t.Fatal(err)
		}
	}
	if len(bs) == 0 {
		t.Fatal("no behaviours")
	}
	for _, b := range bs {
		key := fmt.Sprintf("%v|%v|%v|%v", b.Comps, b.Fail, b.Chain, b.Late)
		rep.Case(key)
		rep.AddReplayed(1)
		parents := len(b.Chain) - 1
		calls, startErr, closeErr, closed, pcalls := runReal(b.Comps, b.Fail, parents)
		rep.AddSteps(len(calls))
		if k, d := checkLog(b.Comps, b.Fail, calls, startErr, closeErr, closed); k != "" {
			rep.Violate(k, d+fmt.Sprintf(" (observed log %v)", calls), b)
		}
		if pcalls != 0 {
			rep.Violate("parent-touched", "Start/Close of a child container called into parent components", b)
		}
		// conformance with the behaviour predicted by the spec (drift if only the spec disagrees)
		want := logToCalls(b.Log)
		if fmt.Sprint(want) != fmt.Sprint(calls) {
			rep.DriftNote("call log %v differs from spec %v for %s", calls, want, key)
		}
		if (startErr == nil) != (b.StartErr == "none") {
			rep.DriftNote("start error %v, spec %s", startErr, b.StartErr)
		}
		if k, d := checkLookup(b.Chain, b.Late, b.Resolve, b.ResolveEarly); k != "" {
			rep.Violate(k, d, b)
		}
		rep.Sample(map[string]any{"comps": b.Comps, "fail": b.Fail, "chain": b.Chain, "late": b.Late, "observed_log": fmt.Sprint(calls)})
	}
}

// TestRecord: random configurations beyond the model-checked size, recorded as an NDJSON trace.
func TestRecord(t *testing.T) {
	rep := vfutil.NewReport("C20")
	defer func() { rep.Save(!t.Failed() || rep.NumViolations() > 0) }()
	rnd := vfutil.Rand()
	path := os.Getenv("VERIF_TRACE_OUT")
	if path == "" {
		path = filepath.Join(t.TempDir(), "trace.ndjson")
	}
	w := vfutil.NewTraceWriter(path)
	defer w.Close()
	runs := vfutil.EnvInt("VERIF_RUNS", 200)
	for r := 0; r < runs; r++ {
		n := rnd.Intn(9)
		comps := make([]compSpec, n)
		for i := range comps {
			if rnd.Intn(2) == 0 {
				comps[i] = compSpec{Kind: "runnable", CloseErr: rnd.Intn(4) == 0}
			} else {
				comps[i] = compSpec{Kind: "plain"}
			}
		}
		fail := failSpec{Kind: "none"}
		if n > 0 && rnd.Intn(3) > 0 {
			i := rnd.Intn(n) + 1
			if rnd.Intn(2) == 0 {
				fail = failSpec{"init", i}
			} else if comps[i-1].Kind == "runnable" {
				fail = failSpec{"run", i}
			}
		}
		calls, startErr, closeErr, closed, _ := runReal(comps, fail, rnd.Intn(3))
		rep.Case(fmt.Sprintf("%v|%v", comps, fail))
		rep.AddReplayed(1)
		if k, d := checkLog(comps, fail, calls, startErr, closeErr, closed); k != "" {
			rep.Violate(k, d, map[string]any{"comps": comps, "fail": fail})
		}
		w.Emit(map[string]any{"ev": "Config", "comps": comps, "fail": fail})
		emitStart := func() {
			kind := "none"
			if startErr != nil {
				kind = fail.Kind
				if !strings.Contains(startErr.Error(), "can't "+fail.Kind+" service") {
					kind = "other:" + startErr.Error()
				}
			}
			w.Emit(map[string]any{"ev": "StartReturn", "err": kind})
		}
		startDone := false
		for _, c := range calls {
			if c.Op == "close" && !startDone && startErr == nil {
				emitStart()
				startDone = true
			}
			w.Emit(map[string]any{"ev": c.Op, "i": c.I})
		}
		if !startDone {
			emitStart()
		}
		if closed {
			errs := make([]bool, n)
			for i := range comps {
				errs[i] = closeErr != nil && strings.Contains(closeErr.Error(), fmt.Sprintf("'c%d'", i+1))
			}
			w.Emit(map[string]any{"ev": "CloseReturn", "errs": errs})
		}
	}
	rep.SetExtra("trace_events", w.Len())
}
