// Package deletion binds spec/deletion/SettingsLog.tla to the real settings state builder
// (property C15, second half: the deleted ids derived from the settings log only grow and are
// the same whether derived incrementally or from scratch, in whatever order and grouping the
// records arrive). Exported API only.
//
// Every behaviour TLC emitted (authors appending plain / snapshot delete records on real object
// trees with the repository's change factory, authors exchanging records, an observer receiving
// arbitrary batches) is replayed on real signed object trees over any-store. Each replica keeps
// its state exactly as settingsObject does (Update -> Build(tree, state), Rebuild -> Build(tree,
// nil)). After every operation the real incremental state must equal the set the specification
// predicts, equal a from-scratch build of the same tree, and contain the previous state.
package deletion

import (
	"context"
	"encoding/json"
	"fmt"
	"os"
	"path/filepath"
	"sort"
	"strings"
	"sync/atomic"
	"testing"
	"time"

	anystore "github.com/anyproto/any-store"

	"github.com/anyproto/any-sync/commonspace/headsync/headstorage"
	"github.com/anyproto/any-sync/commonspace/object/accountdata"
	"github.com/anyproto/any-sync/commonspace/object/acl/list"
	"github.com/anyproto/any-sync/commonspace/object/tree/objecttree"
	"github.com/anyproto/any-sync/commonspace/object/tree/treechangeproto"
	"github.com/anyproto/any-sync/commonspace/settings/settingsstate"

	"verifharness/vfutil"
)

type logOp struct {
	Op    string   `json:"op"`
	A     string   `json:"a"`
	From  string   `json:"from"`
	Ids   []string `json:"ids"`
	Snap  bool     `json:"snap"`
	Batch []int    `json:"batch"`
	Prev  []int    `json:"prev"`
	Att   []int    `json:"att"`
	Exp   []string `json:"exp"`
}

type replica struct {
	name    string
	db      anystore.DB
	tree    objecttree.ObjectTree
	state   *settingsstate.State
	builder settingsstate.StateBuilder
	addSeq  atomic.Uint64
}

type logEnv struct {
	ctx   context.Context
	keys  *accountdata.AccountKeys
	acl   list.AclList
	dir   string
	caseN int
}

func (e *logEnv) newReplica(name string, root *treechangeproto.RawTreeChangeWithId) (*replica, error) {
	e.caseN++
	db, err := anystore.Open(e.ctx, filepath.Join(e.dir, fmt.Sprintf("r%d-%s.db", e.caseN, name)),
		&anystore.Config{SQLiteConnectionOptions: map[string]string{"synchronous": "off"}})
	if err != nil {
		return nil, err
	}
	coll, err := db.Collection(e.ctx, objecttree.CollName)
	if err != nil {
		return nil, err
	}
	// the index spacestorage creates on the changes collection
	if err = coll.EnsureIndex(e.ctx, anystore.IndexInfo{Fields: []string{objecttree.TreeKey, objecttree.OrderKey}, Unique: true}); err != nil {
		return nil, err
	}
	hs, err := headstorage.New(e.ctx, db)
	if err != nil {
		return nil, err
	}
	st, err := objecttree.CreateStorage(e.ctx, root, hs, db)
	if err != nil {
		return nil, err
	}
	r := &replica{name: name, db: db, builder: settingsstate.NewStateBuilder()}
	if s, ok := st.(interface{ SetAddSeq(*atomic.Uint64) }); ok {
		s.SetAddSeq(&r.addSeq)
	}
	r.tree, err = objecttree.BuildObjectTree(st, e.acl)
	if err != nil {
		return nil, err
	}
	// settingsObject: the initial build calls Rebuild
	if err = r.onMode(objecttree.Rebuild); err != nil {
		return nil, err
	}
	return r, nil
}

// onMode is settingsObject.Update / Rebuild.
func (r *replica) onMode(m objecttree.Mode) (err error) {
	switch m {
	case objecttree.Append:
		r.state, err = r.builder.Build(r.tree, r.state)
	case objecttree.Rebuild:
		r.state = nil
		r.state, err = r.builder.Build(r.tree, nil)
	}
	return
}

func (r *replica) deleted() []string {
	res := make([]string, 0, len(r.state.DeletedIds))
	for id := range r.state.DeletedIds {
		res = append(res, id)
	}
	sort.Strings(res)
	return res
}

func (r *replica) close() { _ = r.tree.Close(); _ = r.db.Close() }

func sortedCopy(s []string) []string {
	c := append([]string(nil), s...)
	sort.Strings(c)
	return c
}

func subset(a, b []string) bool {
	m := map[string]bool{}
	for _, x := range b {
		m[x] = true
	}
	for _, x := range a {
		if !m[x] {
			return false
		}
	}
	return true
}

func opsKey(ops []logOp) string {
	var sb strings.Builder
	for _, o := range ops {
		fmt.Fprintf(&sb, "%s%s%v%v%v;", o.Op, o.A, o.Ids, o.Snap, o.Batch)
	}
	return sb.String()
}

// runLog replays one behaviour. shuffle: batches are handed over in reverse creation order.
func runLog(e *logEnv, ops []logOp, reverse bool, rep *vfutil.Report) error {
	root, err := objecttree.CreateObjectTreeRoot(objecttree.ObjectTreeCreatePayload{
		PrivKey: e.keys.SignKey, ChangeType: "settings", SpaceId: "spaceId", IsEncrypted: false,
		Seed: []byte(fmt.Sprint(e.caseN)), Timestamp: time.Now().Unix(),
	}, e.acl)
	if err != nil {
		return err
	}
	reps := map[string]*replica{}
	get := func(n string) (*replica, error) {
		if r, ok := reps[n]; ok {
			return r, nil
		}
		r, err := e.newReplica(n, root)
		if err == nil {
			reps[n] = r
		}
		return r, err
	}
	defer func() {
		for _, r := range reps {
			r.close()
		}
	}()
	var raws []*treechangeproto.RawTreeChangeWithId // record number - 1 -> raw change
	factory := settingsstate.NewChangeFactory()
	replay := map[string]any{"ops": ops, "reverse": reverse}
	violate := func(key, desc string) { rep.Violate(key, desc, replay) }

	check := func(r *replica, o logOp, before []string, step int) {
		got := r.deleted()
		want := sortedCopy(o.Exp)
		who := "author"
		if strings.HasPrefix(o.Op, "deliver") {
			who = "observer"
		}
		// conformance: the records the specification says are attached are in the real tree
		for n := range raws {
			// (the in-memory tree may have been reduced to its last snapshot: ask the storage)
			has, herr := r.tree.Storage().Has(e.ctx, raws[n].Id)
			if herr != nil {
				rep.DriftNote("storage.Has: %v", herr)
				return
			}
			should := false
			for _, a := range o.Att {
				if a == n+1 {
					should = true
				}
			}
			if has != should {
				rep.DriftNote("step %d (%s %s batch %v reverse %v): record %d attached=%v, specification says %v; ops %s", step, o.Op, o.A, o.Batch, reverse, n+1, has, should, opsKey(ops))
				return
			}
		}
		if strings.Join(got, ",") != strings.Join(want, ",") {
			violate("settings-incremental-differs:"+who+":"+o.Op,
				fmt.Sprintf("step %d (%s %s batch %v): incrementally derived deleted ids %v, union of the attached records %v", step, o.Op, o.A, o.Batch, got, want))
		}
		scratch, err := settingsstate.NewStateBuilder().Build(r.tree, nil)
		if err != nil {
			violate("settings-scratch-build-error", fmt.Sprintf("step %d: from-scratch build failed: %v", step, err))
		} else {
			sc := make([]string, 0, len(scratch.DeletedIds))
			for id := range scratch.DeletedIds {
				sc = append(sc, id)
			}
			sort.Strings(sc)
			if strings.Join(sc, ",") != strings.Join(got, ",") {
				violate("settings-incremental-vs-scratch:"+who+":"+o.Op,
					fmt.Sprintf("step %d (%s %s batch %v): incremental %v, from scratch %v (expected %v)", step, o.Op, o.A, o.Batch, got, sc, want))
			}
		}
		if !subset(before, got) {
			violate("settings-deleted-ids-shrank:"+who+":"+o.Op, fmt.Sprintf("step %d (%s %s): deleted ids went from %v to %v", step, o.Op, o.A, before, got))
		}
	}

	// headUpdates[n]: what the author of record n broadcast when it wrote it (synctree.AddContent ->
	// CreateHeadUpdate): the record, the author's heads and snapshot path at that moment.
	type headUpdate struct {
		heads, path []string
	}
	headUpdates := map[int]headUpdate{}

	// addBatch hands records to the replica as one message with the given announced heads / path.
	addBatch := func(r *replica, batch []int, heads, path []string) error {
		b := append([]int(nil), batch...)
		sort.Ints(b)
		if reverse {
			for i, j := 0, len(b)-1; i < j; i, j = i+1, j-1 {
				b[i], b[j] = b[j], b[i]
			}
		}
		payload := objecttree.RawChangesPayload{NewHeads: heads, SnapshotPath: path}
		for _, n := range b {
			payload.RawChanges = append(payload.RawChanges, raws[n-1])
		}
		r.tree.Lock()
		defer r.tree.Unlock()
		_, err := r.tree.AddRawChangesWithUpdater(e.ctx, payload, func(tree objecttree.ObjectTree, md objecttree.Mode) error {
			return r.onMode(md)
		})
		return err
	}
	senderView := func(name string) (heads, path []string, err error) {
		sr, err := get(name)
		if err != nil {
			return nil, nil, err
		}
		sr.tree.Lock()
		defer sr.tree.Unlock()
		heads = append([]string(nil), sr.tree.Heads()...)
		path, err = sr.tree.SnapshotPath()
		return heads, append([]string(nil), path...), err
	}

	for step, o := range ops {
		switch o.Op {
		case "author":
			r, err := get(o.A)
			if err != nil {
				return err
			}
			before := r.deleted()
			ids := make([]string, 0, len(o.Ids))
			for _, i := range o.Ids {
				ids = append(ids, "obj-"+i)
			}
			data, err := factory.CreateObjectDeleteChange(ids, r.state, o.Snap)
			if err != nil {
				return err
			}
			r.tree.Lock()
			res, err := r.tree.AddContent(e.ctx, objecttree.SignableChangeContent{Data: data, Key: e.keys.SignKey, IsSnapshot: o.Snap,
				// records of different authors must not collapse into one change id
				Timestamp: int64(1700000000 + 10*len(raws) + len(o.A))})
			var hu headUpdate
			if err == nil {
				// settingsObject.addContent
				if res.Mode == objecttree.Rebuild {
					err = r.onMode(objecttree.Rebuild)
				} else {
					err = r.onMode(objecttree.Append)
				}
				hu.heads = append([]string(nil), r.tree.Heads()...)
				var p []string
				p, _ = r.tree.SnapshotPath()
				hu.path = append([]string(nil), p...)
			}
			r.tree.Unlock()
			if err != nil {
				return fmt.Errorf("author %s: %w", o.A, err)
			}
			rc := res.RawChanges()
			if len(rc) != 1 {
				return fmt.Errorf("author op produced %d raw changes", len(rc))
			}
			raws = append(raws, rc[0])
			headUpdates[len(raws)] = hu
			check(r, o, before, step)
		case "sync", "deliverfull":
			name := o.A
			if o.Op == "deliverfull" {
				name = "observer"
			}
			r, err := get(name)
			if err != nil {
				return err
			}
			heads, path, err := senderView(o.From)
			if err != nil {
				return err
			}
			before := r.deleted()
			if err = addBatch(r, o.Batch, heads, path); err != nil {
				return fmt.Errorf("%s %s<-%s: %w", o.Op, name, o.From, err)
			}
			check(r, o, before, step)
		case "syncone", "deliverone":
			name := o.A
			if o.Op == "deliverone" {
				name = "observer"
			}
			r, err := get(name)
			if err != nil {
				return err
			}
			hu := headUpdates[o.Batch[0]]
			before := r.deleted()
			if err = addBatch(r, o.Batch, hu.heads, hu.path); err != nil && os.Getenv("VERIF_DEBUG") != "" {
				fmt.Println(o.Op, o.Batch, "->", err)
			}
			check(r, o, before, step)
		}
		rep.AddSteps(1)
	}
	return nil
}

func fixExp(ops []logOp) {
	for i := range ops {
		for j := range ops[i].Exp {
			ops[i].Exp[j] = "obj-" + ops[i].Exp[j]
		}
	}
}

func TestSettingsLog(t *testing.T) {
	rep := vfutil.NewReport("C15")
	complete := false
	defer func() { rep.Save(complete) }()
	keys, err := accountdata.NewRandom()
	if err != nil {
		t.Fatal(err)
	}
	acl, err := list.NewInMemoryDerivedAcl("spaceId", keys)
	if err != nil {
		t.Fatal(err)
	}
	dir := vfutil.Scratch("settingslog-")
	defer os.RemoveAll(dir)
	e := &logEnv{ctx: context.Background(), keys: keys, acl: acl, dir: dir}

	var behaviours [][]logOp
	if raw, ok := vfutil.ReplayFile(); ok {
		var r struct {
			Ops     []logOp `json:"ops"`
			Reverse bool    `json:"reverse"`
		}
		if err := json.Unmarshal(raw, &r); err != nil || len(r.Ops) == 0 {
			t.Skip("replay object is not a settings-log behaviour")
		}
		// (the stored expectations already carry the obj- prefix)
		if err := runLog(e, r.Ops, r.Reverse, rep); err != nil {
			t.Fatal(err)
		}
		rep.Case("replay")
		complete = true
		return
	}
	behaviours, err = vfutil.LoadJSONFiles[[]logOp](os.Getenv("VERIF_BEHAVIOURS"))
	if err != nil || len(behaviours) == 0 {
		t.Fatalf("no behaviours: %v", err)
	}
	for n, ops := range behaviours {
		fixExp(ops)
		for _, reverse := range []bool{false, true} {
			if err := runLog(e, ops, reverse, rep); err != nil {
				t.Fatalf("behaviour %d: %v", n, err)
			}
			rep.Case(opsKey(ops) + fmt.Sprint(reverse))
			rep.AddReplayed(1)
		}
		if n < 2 {
			rep.Sample(map[string]any{"ops": ops})
		}
	}
	complete = true
}
