// Package nodeconfh binds spec/nodeconf/NodeConf.tla to the real nodeconf service (property C18).
//
//	TestConfigs : every configuration TLC enumerated (all node sets up to 5 nodes with every type
//	              mix, VERIF_CONFS) plus random configurations of up to 12 nodes.  For each one a real
//	              nodeconf.Service is built through the exported constructor for every participant
//	              (each node of the configuration and a client), once with the node list as given and
//	              once with a permuted list padded with irrelevant nodes; many space ids (with / without
//	              suffix, several dots, shared suffixes) are asked from every viewpoint and the property
//	              predicates are evaluated in Go.  A sample of the answers is written as an NDJSON trace
//	              that NodeConfTrace.tla validates (the ring function is taken from the first answer and
//	              every other answer must be consistent with it).
//	TestDynamic : boot from application configuration / local store, configuration update through the
//	              source, restart; answers must come from the configuration currently held.
//	TestReplay  : re-executes the replay object of a reported violation.
package nodeconfh

import (
	"context"
	"encoding/json"
	"fmt"
	"math/rand"
	"os"
	"path/filepath"
	"sort"
	"strconv"
	"strings"
	"sync"
	"testing"
	"time"

	"github.com/anyproto/any-sync/app"
	"github.com/anyproto/any-sync/commonspace/object/accountdata"
	"github.com/anyproto/any-sync/nodeconf"
	"github.com/anyproto/any-sync/testutil/accounttest"

	"verifharness/vfutil"
)

const (
	rf     = nodeconf.ReplicationFactor
	rf2    = nodeconf.FileV2ReplicationFactor
	client = "client"
)

/* ------------------------------------------------------------------ stubs */

type stubConfig struct {
	conf nodeconf.Configuration
}

func (c *stubConfig) Init(a *app.App) error               { return nil }
func (c *stubConfig) Name() string                        { return "config" }
func (c *stubConfig) GetNodeConf() nodeconf.Configuration { return c.conf }

// stubStore is the participant's local store; it survives restarts of the service.
type stubStore struct {
	mu   sync.Mutex
	conf *nodeconf.Configuration
}

func (s *stubStore) Init(a *app.App) error { return nil }
func (s *stubStore) Name() string          { return nodeconf.CNameStore }
func (s *stubStore) GetLast(ctx context.Context, netId string) (nodeconf.Configuration, error) {
	s.mu.Lock()
	defer s.mu.Unlock()
	if s.conf == nil {
		return nodeconf.Configuration{}, nodeconf.ErrConfigurationNotFound
	}
	return cloneConf(*s.conf), nil
}
func (s *stubStore) SaveLast(ctx context.Context, c nodeconf.Configuration) error {
	s.mu.Lock()
	defer s.mu.Unlock()
	cc := cloneConf(c)
	s.conf = &cc
	return nil
}

// stubSource answers "not changed" unless the harness queued a configuration; a queued answer is
// held at a gate until the harness releases it (so that queries before the update are possible).
type stubSource struct {
	mu    sync.Mutex
	next  *nodeconf.Configuration
	gate  chan struct{}
	calls int
}

func (s *stubSource) Init(a *app.App) error { return nil }
func (s *stubSource) Name() string          { return nodeconf.CNameSource }
func (s *stubSource) GetLast(ctx context.Context, currentId string) (nodeconf.Configuration, error) {
	s.mu.Lock()
	s.calls++
	next, gate := s.next, s.gate
	s.next = nil
	s.mu.Unlock()
	if next == nil {
		return nodeconf.Configuration{}, nodeconf.ErrConfigurationNotChanged
	}
	if gate != nil {
		select {
		case <-gate:
		case <-ctx.Done():
			return nodeconf.Configuration{}, ctx.Err()
		}
	}
	return cloneConf(*next), nil
}

type stubChecker struct{}

func (stubChecker) Init(a *app.App) error { return nil }
func (stubChecker) Name() string          { return "verif.versionchecker" }
func (stubChecker) IsNetworkNeedsUpdate(ctx context.Context) (bool, error) {
	return false, nil
}

func cloneConf(c nodeconf.Configuration) nodeconf.Configuration {
	cc := c
	cc.Nodes = make([]nodeconf.Node, len(c.Nodes))
	for i, n := range c.Nodes {
		cc.Nodes[i] = nodeconf.Node{PeerId: n.PeerId, Addresses: append([]string(nil), n.Addresses...), Types: append([]nodeconf.NodeType(nil), n.Types...)}
	}
	return cc
}

// instance = one running real service of one participant
type instance struct {
	p      string // participant (peer id, or "client")
	svc    nodeconf.Service
	a      *app.App
	store  *stubStore
	source *stubSource
	change chan string // ids of configurations applied by updates (observer)
}

func startInstance(p string, appConf nodeconf.Configuration, store *stubStore, source *stubSource) (*instance, error) {
	if store == nil {
		store = &stubStore{}
	}
	if source == nil {
		source = &stubSource{}
	}
	in := &instance{p: p, svc: nodeconf.New(), a: new(app.App), store: store, source: source, change: make(chan string, 16)}
	in.svc.ObserveChanges(func(prev, cur nodeconf.NodeConf) { in.change <- cur.Id() })
	in.a.Register(&stubConfig{conf: cloneConf(appConf)}).
		Register(accounttest.NewWithAcc(&accountdata.AccountKeys{PeerId: p})).
		Register(source).Register(store).Register(stubChecker{}).Register(in.svc)
	if err := in.a.Start(context.Background()); err != nil {
		return nil, err
	}
	return in, nil
}

func (in *instance) close() {
	ctx, cancel := context.WithTimeout(context.Background(), 20*time.Second)
	defer cancel()
	_ = in.a.Close(ctx)
}

/* ------------------------------------------------------------------ configurations */

type nodeSpec struct {
	Id    string   `json:"id"`
	Types []string `json:"types"`
	Addrs []string `json:"addrs,omitempty"`
}

type confSpec struct {
	Id    string     `json:"id"`
	Nodes []nodeSpec `json:"nodes"`
}

func (c confSpec) real() nodeconf.Configuration {
	rc := nodeconf.Configuration{Id: c.Id, NetworkId: "verifnet"}
	for _, n := range c.Nodes {
		rn := nodeconf.Node{PeerId: n.Id, Addresses: append([]string{}, n.Addrs...)}
		if len(rn.Addresses) == 0 {
			rn.Addresses = []string{"127.0.0.1:1"}
		}
		for _, t := range n.Types {
			rn.Types = append(rn.Types, nodeconf.NodeType(t))
		}
		rc.Nodes = append(rc.Nodes, rn)
	}
	return rc
}

// peers listed with type t in at least one of their entries (a peer id may have several entries)
func (c confSpec) withType(t string) []string {
	seen := map[string]bool{}
	var res []string
	for _, n := range c.Nodes {
		if n.has(t) && !seen[n.Id] {
			seen[n.Id] = true
			res = append(res, n.Id)
		}
	}
	sort.Strings(res)
	return res
}

// peer ids of the configuration, each once
func (c confSpec) peers() []string {
	seen := map[string]bool{}
	var res []string
	for _, n := range c.Nodes {
		if !seen[n.Id] {
			seen[n.Id] = true
			res = append(res, n.Id)
		}
	}
	return res
}

// splitRoles: the same configuration with one multi-role peer listed in two entries, the roles split between
// them (e.g. [coordinator] first, [tree] later - the shape of the repository's own fixture)
func splitRoles(c confSpec, rnd *rand.Rand) confSpec {
	var cand []int
	for i, n := range c.Nodes {
		if len(n.Types) >= 2 {
			cand = append(cand, i)
		}
	}
	if len(cand) == 0 {
		return c
	}
	i := cand[rnd.Intn(len(cand))]
	n := c.Nodes[i]
	ts := append([]string{}, n.Types...)
	// a non-ring role first, when there is one
	sort.SliceStable(ts, func(a, b int) bool { return ts[a] != "tree" && ts[a] != "fileV2" && (ts[b] == "tree" || ts[b] == "fileV2") })
	k := 1 + rnd.Intn(len(ts)-1)
	res := confSpec{Id: c.Id}
	res.Nodes = append(res.Nodes, c.Nodes[:i]...)
	res.Nodes = append(res.Nodes, nodeSpec{Id: n.Id, Types: ts[:k], Addrs: n.Addrs})
	res.Nodes = append(res.Nodes, c.Nodes[i+1:]...)
	res.Nodes = append(res.Nodes, nodeSpec{Id: n.Id, Types: ts[k:], Addrs: n.Addrs})
	return res
}

// trace form: peer id -> {t: relevant types of each of its entries (in list order), a: addresses}
func (c confSpec) traceForm() map[string]any {
	ents := map[string][][]string{}
	addrs := map[string][]string{}
	for _, n := range c.Nodes {
		ts := []string{}
		for _, t := range n.Types {
			switch t {
			case "tree", "fileV2":
				ts = append(ts, t)
			case "coordinator":
				ts = append(ts, "coord")
			}
		}
		ents[n.Id] = append(ents[n.Id], ts)
		as := n.Addrs
		if len(as) == 0 {
			as = []string{"127.0.0.1:1"}
		}
		for _, a := range as {
			if !setOf(addrs[n.Id])[a] {
				addrs[n.Id] = append(addrs[n.Id], a)
			}
		}
	}
	m := map[string]any{}
	for id := range ents {
		m[id] = map[string]any{"t": ents[id], "a": addrs[id]}
	}
	return m
}

func (n nodeSpec) has(t string) bool {
	for _, x := range n.Types {
		if x == t {
			return true
		}
	}
	return false
}

// mergeModel: what service.Init does to a stored configuration (mergeCoordinatorAddrs): coordinators of the
// application configuration are merged in; a changed result gets the private id "-1"
func mergeModel(app, stored confSpec) (confSpec, bool) {
	m := confSpec{Id: stored.Id}
	for _, n := range stored.Nodes {
		m.Nodes = append(m.Nodes, nodeSpec{Id: n.Id, Types: append([]string{}, n.Types...), Addrs: append([]string{}, n.Addrs...)})
	}
	changed := false
	for _, an := range app.Nodes {
		if !an.has("coordinator") {
			continue
		}
		found := false
		for i := range m.Nodes {
			if m.Nodes[i].Id == an.Id && m.Nodes[i].has("coordinator") {
				found = true
				have := setOf(m.Nodes[i].Addrs)
				for _, a := range an.Addrs {
					if !have[a] {
						m.Nodes[i].Addrs = append(m.Nodes[i].Addrs, a)
						changed = true
					}
				}
			}
		}
		if !found {
			m.Nodes = append(m.Nodes, an)
			changed = true
		}
	}
	if changed {
		m.Id = "-1"
	}
	return m, changed
}

// variant: same sync / fileV2 sets, other list order, other configuration id, padded with nodes of
// irrelevant types and irrelevant extra types on existing nodes
func variant(c confSpec, rnd *rand.Rand, id string) confSpec {
	v := confSpec{Id: id}
	for _, n := range c.Nodes {
		ts := append([]string(nil), n.Types...)
		if rnd.Intn(3) == 0 || (len(ts) == 1 && ts[0] == "tree" && rnd.Intn(2) == 0) {
			ts = append(ts, "consensus")
		}
		rnd.Shuffle(len(ts), func(i, j int) { ts[i], ts[j] = ts[j], ts[i] })
		v.Nodes = append(v.Nodes, nodeSpec{Id: n.Id, Types: ts})
	}
	for k := rnd.Intn(3); k > 0; k-- {
		v.Nodes = append(v.Nodes, nodeSpec{Id: fmt.Sprintf("pad-%s-%d", id, k), Types: []string{[]string{"file", "consensus", "namingNode"}[rnd.Intn(3)]}})
	}
	v = splitRoles(v, rnd)
	rnd.Shuffle(len(v.Nodes), func(i, j int) { v.Nodes[i], v.Nodes[j] = v.Nodes[j], v.Nodes[i] })
	if len(v.Nodes) > 1 && sameOrder(c, v) {
		v.Nodes[0], v.Nodes[len(v.Nodes)-1] = v.Nodes[len(v.Nodes)-1], v.Nodes[0]
	}
	return v
}

func sameOrder(a, b confSpec) bool {
	if len(a.Nodes) != len(b.Nodes) {
		return false
	}
	for i := range a.Nodes {
		if a.Nodes[i].Id != b.Nodes[i].Id {
			return false
		}
	}
	return true
}

/* ------------------------------------------------------------------ space ids */

func randCid(rnd *rand.Rand) string {
	const al = "abcdefghijklmnopqrstuvwxyz234567"
	b := []byte("bafyrei")
	for i := 0; i < 52; i++ {
		b = append(b, al[rnd.Intn(len(al))])
	}
	return string(b)
}

// idGroup = ids that share one replication key (suffix after the last dot)
type idGroup struct {
	Key string
	Ids []string
}

func genIdGroups(rnd *rand.Rand, n int) []idGroup {
	var gs []idGroup
	for i := 0; i < n; i++ {
		var key string
		switch rnd.Intn(8) {
		case 0:
			key = randCid(rnd) // an id without suffix is its own key
		case 1:
			key = strconv.FormatUint(uint64(rnd.Intn(50)), 36) // small keys: collisions between groups
		default:
			key = strconv.FormatUint(rnd.Uint64(), 36)
		}
		g := idGroup{Key: key, Ids: []string{randCid(rnd) + "." + key}}
		switch rnd.Intn(6) {
		case 0:
			g.Ids = append(g.Ids, key) // no dot at all
		case 1:
			g.Ids = append(g.Ids, randCid(rnd)+"."+key) // other prefix
		case 2:
			g.Ids = append(g.Ids, randCid(rnd)+"."+strconv.FormatUint(rnd.Uint64(), 36)+"."+key) // two dots
		case 3:
			g.Ids = append(g.Ids, "."+key, "a.b.c."+key)
		}
		gs = append(gs, g)
	}
	// fixed edge cases
	gs = append(gs, idGroup{Key: "", Ids: []string{"", ".", "a.", "a.b."}})
	return gs
}

/* ------------------------------------------------------------------ observations and oracles */

type answer struct {
	P         string   `json:"p"`
	Cid       string   `json:"cid"`
	Part      int      `json:"part"`
	Members   []string `json:"members"`
	NodeIds   []string `json:"nodeIds"`
	Resp      bool     `json:"resp"`
	FileV2Ids []string `json:"fileV2Ids"`
}

func ask(in *instance, spaceId string) answer {
	a := answer{P: in.p, Cid: in.svc.Id(), Part: in.svc.Partition(spaceId), Resp: in.svc.IsResponsible(spaceId)}
	a.Members = []string{}
	for _, m := range in.svc.CHash().GetMembers(nodeconf.ReplKey(spaceId)) {
		a.Members = append(a.Members, m.Id())
	}
	a.NodeIds = append([]string{}, in.svc.NodeIds(spaceId)...)
	a.FileV2Ids = append([]string{}, in.svc.FileV2NodeIds(spaceId)...)
	return a
}

func setOf(l []string) map[string]bool {
	m := map[string]bool{}
	for _, x := range l {
		m[x] = true
	}
	return m
}

func sorted(l []string) []string {
	r := append([]string{}, l...)
	sort.Strings(r)
	return r
}

func eqSet(a, b []string) bool {
	return strings.Join(sorted(a), ",") == strings.Join(sorted(b), ",")
}

func subset(a, b []string) bool {
	sb := setOf(b)
	for _, x := range a {
		if !sb[x] {
			return false
		}
	}
	return true
}

func min(a, b int) int {
	if a < b {
		return a
	}
	return b
}

func kind(p string) string {
	if p == client {
		return "client"
	}
	return "node"
}

// responsible set as a participant sees it through the two calls the rest of the system uses
func respSet(a answer) []string {
	r := append([]string{}, a.NodeIds...)
	if a.Resp {
		r = append(r, a.P)
	}
	return sorted(r)
}

// single-answer predicates (C18: size, sync nodes only, self exclusion)
func checkAnswer(a answer, c confSpec) (string, string) {
	sync, fv2 := c.withType("tree"), c.withType("fileV2")
	if len(setOf(a.Members)) != len(a.Members) {
		return "members-duplicate", fmt.Sprintf("responsible set %v lists a node twice", a.Members)
	}
	if !subset(a.Members, sync) {
		return "members-not-sync-node", fmt.Sprintf("responsible set %v contains a node that is not a sync (tree) node %v", a.Members, sync)
	}
	if len(a.Members) != min(rf, len(sync)) {
		return "members-size", fmt.Sprintf("responsible set %v has %d nodes, want min(%d, %d sync nodes)", a.Members, len(a.Members), rf, len(sync))
	}
	if setOf(a.NodeIds)[a.P] {
		return "nodeids-contains-self/" + kind(a.P), fmt.Sprintf("NodeIds of %s lists itself: %v", a.P, a.NodeIds)
	}
	if len(setOf(a.NodeIds)) != len(a.NodeIds) {
		return "nodeids-duplicate", fmt.Sprintf("NodeIds %v lists a node twice", a.NodeIds)
	}
	want := []string{}
	for _, m := range a.Members {
		if m != a.P {
			want = append(want, m)
		}
	}
	if !eqSet(a.NodeIds, want) {
		return "nodeids-not-set-minus-self/" + kind(a.P), fmt.Sprintf("NodeIds of %s = %v, responsible set minus self = %v", a.P, sorted(a.NodeIds), sorted(want))
	}
	if a.Resp != setOf(a.Members)[a.P] {
		return "isresponsible-mismatch/" + kind(a.P), fmt.Sprintf("IsResponsible of %s = %v but responsible set is %v", a.P, a.Resp, sorted(a.Members))
	}
	if len(setOf(a.FileV2Ids)) != len(a.FileV2Ids) || !subset(a.FileV2Ids, fv2) || len(a.FileV2Ids) != min(rf2, len(fv2)) {
		return "filev2-set", fmt.Sprintf("FileV2NodeIds %v is not min(%d,n) distinct fileV2 nodes of %v", a.FileV2Ids, rf2, fv2)
	}
	return "", ""
}

// pairwise predicates (C18: agreement; dependence on suffix and sync-node set only)
func checkPair(a, b answer, rel string) (string, string) {
	if !eqSet(respSet(a), respSet(b)) {
		return "disagree/" + rel + "/" + kind(a.P) + "-" + kind(b.P), fmt.Sprintf("%s and %s compute different responsible nodes: %v vs %v", a.P, b.P, respSet(a), respSet(b))
	}
	if !eqSet(a.Members, b.Members) {
		return "disagree-members/" + rel, fmt.Sprintf("%s and %s: ring members %v vs %v", a.P, b.P, sorted(a.Members), sorted(b.Members))
	}
	if a.Part != b.Part {
		return "disagree-partition/" + rel, fmt.Sprintf("%s and %s: partition %d vs %d", a.P, b.P, a.Part, b.Part)
	}
	if !eqSet(a.FileV2Ids, b.FileV2Ids) {
		return "disagree-filev2/" + rel, fmt.Sprintf("%s and %s: fileV2 nodes %v vs %v", a.P, b.P, sorted(a.FileV2Ids), sorted(b.FileV2Ids))
	}
	return "", ""
}

/* ------------------------------------------------------------------ one epoch = one network configuration */

type epoch struct {
	Conf     confSpec  `json:"conf"`    // as published
	Variant  confSpec  `json:"variant"` // same sync/fileV2 sets: other id, permuted, padded
	Groups   []idGroup `json:"groups"`
	TraceN   int       `json:"traceN"` // number of id groups whose answers go to the trace
	Label    string    `json:"label"`
	traceOut *vfutil.TraceWriter
}

func splitId(id string) []string { return strings.Split(id, ".") }

func (e *epoch) run(rep *vfutil.Report) error {
	participants := append([]string{client}, e.Conf.peers()...)
	var insts []*instance
	defer func() {
		for _, in := range insts {
			in.close()
		}
	}()
	confOf := map[*instance]confSpec{}
	for _, p := range participants {
		for k, c := range []confSpec{e.Conf, e.Variant} {
			if k == 1 && len(e.Variant.Nodes) == 0 && e.Variant.Id == "" {
				continue
			}
			in, err := startInstance(p, c.real(), nil, nil)
			if err != nil {
				return fmt.Errorf("cannot start nodeconf service for %s: %w", p, err)
			}
			insts = append(insts, in)
			confOf[in] = c
		}
	}
	// trace: the instances built from the variant listing are the same participants restarted with the
	// variant as application configuration (phase 2); their events are emitted after phase 1
	var phase [2][]any
	isVariant := map[*instance]int{}
	for _, in := range insts {
		if confOf[in].Id != e.Conf.Id {
			isVariant[in] = 1
		}
	}
	nsync := len(e.Conf.withType("tree"))
	for gi, g := range e.Groups {
		var first *answer
		for _, id := range g.Ids {
			rep.Case(fmt.Sprintf("n%d/sync%d/dots%d/views%d", len(e.Conf.Nodes), nsync, strings.Count(id, "."), len(insts)))
			for _, in := range insts {
				a := ask(in, id)
				rep.AddSteps(1)
				replay := map[string]any{"conf": e.Conf, "variant": e.Variant, "groups": []idGroup{g}}
				if k, d := checkAnswer(a, confOf[in]); k != "" {
					rep.Violate(k, d+fmt.Sprintf(" (space id %q, configuration %s)", id, e.Label), replay)
				}
				if first == nil {
					first = &a
				} else {
					rel := "same-id"
					if id != g.Ids[0] {
						rel = "same-suffix"
					}
					if k, d := checkPair(*first, a, rel); k != "" {
						rep.Violate(k, d+fmt.Sprintf(" (space ids %q / %q, configuration %s)", g.Ids[0], id, e.Label), replay)
					}
				}
				if e.traceOut != nil && gi < e.TraceN {
					phase[isVariant[in]] = append(phase[isVariant[in]], map[string]any{"ev": "Query", "p": a.P, "space": splitId(id), "cid": a.Cid, "part": a.Part,
						"members": a.Members, "nodeIds": a.NodeIds, "resp": a.Resp, "fileV2Ids": a.FileV2Ids,
						"nm": len(a.Members), "nn": len(a.NodeIds), "nf": len(a.FileV2Ids)})
				}
			}
		}
	}
	if e.traceOut != nil {
		confs := map[string]any{e.Conf.Id: e.Conf.traceForm()}
		if e.Variant.Id != "" {
			confs[e.Variant.Id] = e.Variant.traceForm()
		}
		e.traceOut.Emit(map[string]any{"ev": "Net", "kind": "static", "confs": confs})
		for ph := 0; ph < 2; ph++ {
			for _, in := range insts {
				if isVariant[in] != ph {
					continue
				}
				if ph == 1 {
					e.traceOut.Emit(map[string]any{"ev": "Restart", "p": in.p})
				}
				e.traceOut.Emit(map[string]any{"ev": "Boot", "p": in.p, "app": confOf[in].Id})
			}
			for _, ev := range phase[ph] {
				e.traceOut.Emit(ev)
			}
		}
	}
	rep.AddReplayed(1)
	return nil
}

/* ------------------------------------------------------------------ tests */

type tlcConf struct {
	Nodes []nodeSpec `json:"nodes"`
}

func traceWriter(t *testing.T) *vfutil.TraceWriter {
	path := os.Getenv("VERIF_TRACE_OUT")
	if path == "" {
		path = filepath.Join(t.TempDir(), "trace.ndjson")
	}
	return vfutil.NewTraceWriter(path)
}

func randomConf(rnd *rand.Rand, id string, maxNodes int) confSpec {
	n := rnd.Intn(maxNodes + 1)
	c := confSpec{Id: id}
	all := []string{"tree", "fileV2", "file", "consensus", "coordinator", "namingNode", "paymentProcessingNode"}
	for i := 0; i < n; i++ {
		ns := nodeSpec{Id: fmt.Sprintf("12D3KooW%s%d", randCid(rnd)[7:30], i), Types: []string{}}
		if rnd.Intn(4) > 0 {
			ns.Types = append(ns.Types, "tree")
		}
		for _, t := range all[1:] {
			if rnd.Intn(5) == 0 {
				ns.Types = append(ns.Types, t)
			}
		}
		rnd.Shuffle(len(ns.Types), func(i, j int) { ns.Types[i], ns.Types[j] = ns.Types[j], ns.Types[i] })
		c.Nodes = append(c.Nodes, ns)
	}
	return c
}

func TestConfigs(t *testing.T) {
	rep := vfutil.NewReport("C18")
	defer func() { rep.Save(!t.Failed() || rep.NumViolations() > 0) }()
	rnd := vfutil.Rand()
	w := traceWriter(t)
	defer w.Close()
	nIds := vfutil.EnvInt("VERIF_IDS", 60)
	traceN := vfutil.EnvInt("VERIF_TRACE_IDS", 12)
	var epochs []*epoch
	// 1. every configuration TLC enumerated, node names mapped to fresh peer ids
	if dir := os.Getenv("VERIF_CONFS"); dir != "" {
		cs, err := vfutil.LoadJSONFiles[tlcConf](dir)
		if err != nil {
			t.Fatal(err)
		}
		if len(cs) == 0 {
			t.Fatal("no TLC configurations")
		}
		for i, tc := range cs {
			c := confSpec{Id: fmt.Sprintf("tlc%d", i)}
			salt := randCid(rnd)[7:20]
			for _, n := range tc.Nodes {
				c.Nodes = append(c.Nodes, nodeSpec{Id: "12D3KooW" + salt + n.Id, Types: append([]string{}, n.Types...)})
			}
			sort.Slice(c.Nodes, func(i, j int) bool { return c.Nodes[i].Id < c.Nodes[j].Id })
			epochs = append(epochs, &epoch{Conf: c, Variant: variant(c, rnd, c.Id+"v"), Label: fmt.Sprintf("tlc:%v", tc.Nodes)})
		}
		rep.SetExtra("tlc_configurations", len(cs))
	}
	// 2. random configurations of up to 12 nodes
	for i := 0; i < vfutil.EnvInt("VERIF_RANDOM", 20); i++ {
		c := randomConf(rnd, fmt.Sprintf("rnd%d", i), 12)
		epochs = append(epochs, &epoch{Conf: c, Variant: variant(c, rnd, c.Id+"v"), Label: fmt.Sprintf("random:%d nodes/%d sync", len(c.Nodes), len(c.withType("tree")))})
	}
	for i, e := range epochs {
		e.Groups = genIdGroups(rnd, nIds)
		e.TraceN = traceN
		e.traceOut = w
		if err := e.run(rep); err != nil {
			t.Fatal(err)
		}
		if i < 3 {
			rep.Sample(map[string]any{"conf": e.Conf, "variant_nodes": len(e.Variant.Nodes), "id_groups": len(e.Groups), "first_id": e.Groups[0].Ids[0]})
		}
	}
	rep.SetExtra("trace_events", w.Len())
	rep.SetExtra("epochs", len(epochs))
}

// TestBulk: many space ids on a few larger configurations (Go oracles only).
func TestBulk(t *testing.T) {
	rep := vfutil.NewReport("C18")
	defer func() { rep.Save(!t.Failed() || rep.NumViolations() > 0) }()
	rnd := vfutil.Rand()
	nIds := vfutil.EnvInt("VERIF_BULK_IDS", 3000)
	for i := 0; i < vfutil.EnvInt("VERIF_BULK_CONFS", 3); i++ {
		var c confSpec
		for {
			c = randomConf(rnd, fmt.Sprintf("bulk%d", i), 12)
			if len(c.withType("tree")) >= 2+i%4 {
				break
			}
		}
		e := &epoch{Conf: c, Variant: variant(c, rnd, c.Id+"v"), Groups: genIdGroups(rnd, nIds), Label: fmt.Sprintf("bulk:%d nodes/%d sync", len(c.Nodes), len(c.withType("tree")))}
		if err := e.run(rep); err != nil {
			t.Fatal(err)
		}
	}
}

var watchdog = 60 * time.Second

// waitChange waits for the service to apply the configuration its source returned.  The observer fires
// right after the switch; the watchdog only converts "never applied" into a report.
func waitChange(t *testing.T, rep *vfutil.Report, in *instance, want string, replay any) {
	select {
	case got := <-in.change:
		if got != want {
			rep.Violate("dyn-update-applied-other-configuration", fmt.Sprintf("%s was given configuration %s by its source and switched to %s", in.p, want, got), replay)
		}
	case <-time.After(watchdog):
		watchdog = 2 * time.Second // a genuine hang has been seen once: do not wait that long again
		rep.Violate("dyn-update-not-applied", fmt.Sprintf("%s was given configuration %s by its source (and saved it) but keeps answering from %s", in.p, want, in.svc.Id()), replay)
	}
}

// TestDynamic: Boot / Update / Restart.  Sequence per scenario (all recorded in the trace):
// all participants boot on c1; a subset is updated to c2 through the source; one of them is
// restarted with the application configuration still c1 (boots from its store -> c2); after every
// step every participant is asked a few ids.
func TestDynamic(t *testing.T) {
	rep := vfutil.NewReport("C18")
	defer func() { rep.Save(!t.Failed() || rep.NumViolations() > 0) }()
	rnd := vfutil.Rand()
	w := traceWriter(t)
	defer w.Close()
	for sc := 0; sc < vfutil.EnvInt("VERIF_DYN", 6); sc++ {
		c1, c2, class := dynPair(rnd, sc)
		rep.AddExtra("dynamic_"+class, 1)
		runDynamic(t, rep, w, rnd, c1, c2, sc < 2)
	}
	rep.SetExtra("trace_events", w.Len())
}

func runDynamic(t *testing.T, rep *vfutil.Report, w *vfutil.TraceWriter, rnd *rand.Rand, c1, c2 confSpec, sample bool) {
	confs := map[string]confSpec{c1.Id: c1, c2.Id: c2}
	participants := map[string]bool{client: true}
	for _, c := range confs {
		for _, n := range c.Nodes {
			participants[n.Id] = true
		}
	}
	var ps []string
	for p := range participants {
		ps = append(ps, p)
	}
	sort.Strings(ps)
	w.Emit(map[string]any{"ev": "Net", "kind": "dynamic", "c1": c1.Id, "c2": c2.Id, "confs": map[string]any{c1.Id: c1.traceForm(), c2.Id: c2.traceForm()}})
	groups := genIdGroups(rnd, 6)
	insts := map[string]*instance{}
	held := map[*instance]confSpec{} // the configuration (content) each instance is expected to hold
	replay := map[string]any{"dynamic": true, "c1": c1, "c2": c2}
	start := func(p string, app confSpec, store *stubStore, src *stubSource) *instance {
		in, err := startInstance(p, app.real(), store, src)
		if err != nil {
			t.Fatal(err)
		}
		return in
	}
	// every instance asked must agree with every other one whose configuration has the same sync-node and
	// fileV2-node SETS, whatever its history (fresh start, live update, restart from store, coordinator merge)
	askAll := func(stage string, list []*instance) {
		for _, g := range groups {
			bySets := map[string]*answer{}
			for _, id := range g.Ids {
				rep.Case(fmt.Sprintf("dyn/%s/dots%d", stage, strings.Count(id, ".")))
				for _, in := range list {
					a := ask(in, id)
					rep.AddSteps(1)
					c := held[in]
					if a.Cid != c.Id {
						rep.Violate("dyn-holds-wrong-configuration/"+stage, fmt.Sprintf("%s answers from configuration %q after %s, it should hold %q", in.p, a.Cid, stage, c.Id), replay)
						if cc, ok := confs[a.Cid]; ok {
							c = cc
						}
					}
					if k, d := checkAnswer(a, c); k != "" {
						rep.Violate(k, d+fmt.Sprintf(" (dynamic scenario, stage %s, configuration %s)", stage, c.Id), replay)
					}
					key := strings.Join(c.withType("tree"), ",") + "|" + strings.Join(c.withType("fileV2"), ",")
					if f := bySets[key]; f == nil {
						aa := a
						bySets[key] = &aa
					} else if k, d := checkPair(*f, a, "dyn-"+stage); k != "" {
						rep.Violate(k, d+fmt.Sprintf(" (configurations %s / %s with the same sync-node set)", f.Cid, a.Cid), replay)
					}
					w.Emit(map[string]any{"ev": "Query", "p": a.P, "space": splitId(id), "cid": a.Cid, "part": a.Part,
						"members": a.Members, "nodeIds": a.NodeIds, "resp": a.Resp, "fileV2Ids": a.FileV2Ids,
						"nm": len(a.Members), "nn": len(a.NodeIds), "nf": len(a.FileV2Ids)})
				}
			}
		}
	}
	all := func() []*instance {
		var l []*instance
		for _, p := range ps {
			l = append(l, insts[p])
		}
		return l
	}
	// 1. everybody boots on the application configuration c1
	for _, p := range ps {
		insts[p] = start(p, c1, nil, nil)
		held[insts[p]] = c1
		w.Emit(map[string]any{"ev": "Boot", "p": p, "app": c1.Id})
	}
	askAll("boot", all())
	// 2. a subset restarts with a source that has c2 queued behind a gate: still on c1
	var upd []string
	isUpd := map[string]bool{}
	for _, p := range ps {
		if rnd.Intn(2) == 0 {
			upd = append(upd, p)
		}
	}
	if len(upd) == 0 {
		upd = append(upd, ps[rnd.Intn(len(ps))])
	}
	for _, p := range upd {
		isUpd[p] = true
		old := insts[p]
		old.close()
		w.Emit(map[string]any{"ev": "Restart", "p": p})
		rc2 := c2.real()
		insts[p] = start(p, c1, old.store, &stubSource{next: &rc2, gate: make(chan struct{})})
		held[insts[p]] = c1
		w.Emit(map[string]any{"ev": "Boot", "p": p, "app": c1.Id})
	}
	askAll("reboot", all())
	// 3. the live update
	for _, p := range upd {
		close(insts[p].source.gate)
		waitChange(t, rep, insts[p], c2.Id, replay)
		held[insts[p]] = c2
		w.Emit(map[string]any{"ev": "Update", "p": p, "cid": c2.Id})
	}
	askAll("update", all())
	// 4. agreement across histories: witnesses started directly on c2 (in the trace: the same participants
	//    restarted with c2 as application configuration) must answer like the participants that were updated
	var witnesses []*instance
	for _, p := range ps {
		wi := start(p, c2, nil, nil)
		held[wi] = c2
		witnesses = append(witnesses, wi)
		w.Emit(map[string]any{"ev": "Restart", "p": p})
		w.Emit(map[string]any{"ev": "Boot", "p": p, "app": c2.Id})
	}
	var updated []*instance
	for _, p := range upd {
		updated = append(updated, insts[p])
	}
	askAll("fresh-vs-updated", append(append([]*instance{}, witnesses...), updated...))
	for _, wi := range witnesses {
		wi.close()
	}
	for _, p := range ps { // (trace only) the participants that were not updated are still running on c1
		if !isUpd[p] {
			w.Emit(map[string]any{"ev": "Restart", "p": p})
			w.Emit(map[string]any{"ev": "Boot", "p": p, "app": c1.Id})
		}
	}
	// 5. the updated participants restart: application configuration still c1, the store has c2.  Init merges the
	//    coordinators of c1 into the stored c2; if that changes it the participant holds the private configuration "-1"
	merged := 0
	for _, p := range upd {
		old := insts[p]
		old.close()
		w.Emit(map[string]any{"ev": "Restart", "p": p})
		insts[p] = start(p, c1, old.store, nil)
		m, changed := mergeModel(c1, c2)
		held[insts[p]] = m
		if changed {
			merged++
		}
		w.Emit(map[string]any{"ev": "Boot", "p": p, "app": c1.Id})
	}
	askAll("restart", all())
	// 6. ... and once more (the store now holds the merged configuration: nothing changes)
	p := upd[rnd.Intn(len(upd))]
	old := insts[p]
	old.close()
	w.Emit(map[string]any{"ev": "Restart", "p": p})
	insts[p] = start(p, c1, old.store, nil)
	held[insts[p]] = held[old]
	w.Emit(map[string]any{"ev": "Boot", "p": p, "app": c1.Id})
	askAll("restart2", all())
	for _, in := range insts {
		in.close()
	}
	rep.AddReplayed(1)
	rep.AddExtra("dynamic_merged_boots", merged)
	if sample {
		rep.Sample(map[string]any{"dynamic_scenario": map[string]any{"c1": c1, "c2": c2, "updated": upd, "merged_boots": merged}})
	}
}

// dynPair generates the application configuration c1 and a second published configuration c2 of one of the
// classes: role swap (same nodes, same number of sync nodes, types permuted), coordinator lacks an address,
// coordinator missing, arbitrary change (nodes dropped / retyped / added), only irrelevant changes.
// (A coordinator stays a coordinator: Dev_DuplicatePeer.)
func dynPair(rnd *rand.Rand, sc int) (c1, c2 confSpec, class string) {
	class = []string{"role-swap", "coordinator-address", "coordinator-missing", "arbitrary", "irrelevant", "split-entries"}[sc%6]
	id := func(k int) string { return fmt.Sprintf("12D3KooW%sd%dn%d", randCid(rnd)[7:24], sc, k) }
	c1 = confSpec{Id: fmt.Sprintf("d%da", sc)}
	n := rnd.Intn(5) + 2
	for k := 0; k < n; k++ {
		ts := []string{}
		if rnd.Intn(4) > 0 {
			ts = append(ts, "tree")
		}
		if rnd.Intn(3) == 0 {
			ts = append(ts, "fileV2")
		}
		if rnd.Intn(3) == 0 {
			ts = append(ts, "consensus")
		}
		nid := id(k)
		c1.Nodes = append(c1.Nodes, nodeSpec{Id: nid, Types: ts, Addrs: []string{nid + ":443"}})
	}
	// a coordinator (sometimes also a sync node) with two addresses
	if class == "coordinator-address" || class == "coordinator-missing" || rnd.Intn(2) == 0 {
		ts := []string{"coordinator"}
		if rnd.Intn(2) == 0 {
			ts = append(ts, "tree")
		}
		nid := id(n)
		c1.Nodes = append(c1.Nodes, nodeSpec{Id: nid, Types: ts, Addrs: []string{nid + ":443", nid + ":4430"}})
	}
	if class == "role-swap" { // needs a sync node and a node that is not one
		c1.Nodes[0].Types = []string{"tree"}
		c1.Nodes[1].Types = []string{"file"}
	}
	rnd.Shuffle(len(c1.Nodes), func(i, j int) { c1.Nodes[i], c1.Nodes[j] = c1.Nodes[j], c1.Nodes[i] })
	c2 = confSpec{Id: fmt.Sprintf("d%db", sc)}
	clone := func(x nodeSpec) nodeSpec {
		return nodeSpec{Id: x.Id, Types: append([]string{}, x.Types...), Addrs: append([]string{}, x.Addrs...)}
	}
	for _, x := range c1.Nodes {
		c2.Nodes = append(c2.Nodes, clone(x))
	}
	switch class {
	case "role-swap":
		var trees, others []int
		for i, x := range c2.Nodes {
			if x.has("coordinator") {
				continue
			}
			if x.has("tree") {
				trees = append(trees, i)
			} else {
				others = append(others, i)
			}
		}
		i, j := trees[rnd.Intn(len(trees))], others[rnd.Intn(len(others))]
		c2.Nodes[i].Types, c2.Nodes[j].Types = c2.Nodes[j].Types, c2.Nodes[i].Types
	case "coordinator-address":
		for i := range c2.Nodes {
			if c2.Nodes[i].has("coordinator") {
				c2.Nodes[i].Addrs = c2.Nodes[i].Addrs[:1]
			}
		}
	case "coordinator-missing":
		var kept []nodeSpec
		for _, x := range c2.Nodes {
			if !x.has("coordinator") {
				kept = append(kept, x)
			}
		}
		c2.Nodes = kept
	case "arbitrary":
		var res []nodeSpec
		for _, x := range c2.Nodes {
			switch {
			case x.has("coordinator"):
				res = append(res, x)
			case rnd.Intn(4) == 0: // dropped
			case rnd.Intn(3) == 0:
				x.Types = []string{[]string{"tree", "fileV2", "file"}[rnd.Intn(3)]}
				res = append(res, x)
			default:
				res = append(res, x)
			}
		}
		for k := rnd.Intn(3); k > 0; k-- {
			nid := id(100 + k)
			res = append(res, nodeSpec{Id: nid, Types: []string{"tree"}, Addrs: []string{nid + ":443"}})
		}
		c2.Nodes = res
	case "split-entries":
		// a sync node that is also coordinator is listed in two entries ([coordinator] first, [tree] later) in c1;
		// c2 lists the same peers the other way round / in one entry
		nid := id(300)
		c1.Nodes = append([]nodeSpec{{Id: nid, Types: []string{"coordinator"}, Addrs: []string{nid + ":443"}}}, c1.Nodes...)
		c1.Nodes = append(c1.Nodes, nodeSpec{Id: nid, Types: []string{"tree"}, Addrs: []string{nid + ":443"}})
		c2.Nodes = append(c2.Nodes, nodeSpec{Id: nid, Types: []string{"tree", "coordinator"}, Addrs: []string{nid + ":443"}})
		c2 = splitRoles(c2, rnd)
	case "irrelevant":
		for i := range c2.Nodes {
			if !c2.Nodes[i].has("coordinator") && rnd.Intn(2) == 0 {
				c2.Nodes[i].Types = append(c2.Nodes[i].Types, "namingNode")
			}
		}
		nid := id(200)
		c2.Nodes = append(c2.Nodes, nodeSpec{Id: nid, Types: []string{"file"}, Addrs: []string{nid + ":443"}})
	}
	rnd.Shuffle(len(c2.Nodes), func(i, j int) { c2.Nodes[i], c2.Nodes[j] = c2.Nodes[j], c2.Nodes[i] })
	return
}

func TestReplay(t *testing.T) {
	rep := vfutil.NewReport("C18")
	defer func() { rep.Save(!t.Failed() || rep.NumViolations() > 0) }()
	raw, ok := vfutil.ReplayFile()
	if !ok {
		t.Skip("no replay file")
	}
	var probe struct {
		Dynamic bool `json:"dynamic"`
	}
	_ = json.Unmarshal(raw, &probe)
	if probe.Dynamic {
		var d struct {
			C1 confSpec `json:"c1"`
			C2 confSpec `json:"c2"`
		}
		if err := json.Unmarshal(raw, &d); err != nil {
			t.Fatal(err)
		}
		w := traceWriter(t)
		defer w.Close()
		rnd := vfutil.Rand()
		for i := 0; i < 5; i++ {
			runDynamic(t, rep, w, rnd, d.C1, d.C2, false)
		}
		return
	}
	var r struct {
		Conf    confSpec  `json:"conf"`
		Variant confSpec  `json:"variant"`
		Groups  []idGroup `json:"groups"`
	}
	if err := json.Unmarshal(raw, &r); err != nil {
		t.Fatal(err)
	}
	e := &epoch{Conf: r.Conf, Variant: r.Variant, Groups: r.Groups, Label: "replay"}
	if err := e.run(rep); err != nil {
		t.Fatal(err)
	}
}
