package aclchain

// record_test.go: code -> spec. A random driver (not guided by TLC) lets a set of accounts produce
// long histories through the real client builder and the acceptor, moves three replicas of random
// identity / mode / storage through adds, batches, restarts, bootstraps, catch-ups and refusable
// records, evaluates the same oracles as the replay, and records every step with its arguments
// and the projected state the acting list shows afterwards. AclChainTrace.tla then checks that the
// recorded execution is a behaviour of AclChain and evaluates the invariants on the observed states.

import (
	"fmt"
	"math/rand"
	"os"
	"sort"
	"sync"
	"testing"

	"github.com/anyproto/any-sync/consensus/consensusproto"

	"verifharness/vfutil"
)

type traceRec struct {
	mu     sync.Mutex
	events []any
}

// specShape renders a projection the way AclChain.tla represents its abstract state
func specShape(p proj, accounts []string) map[string]any {
	perm := map[string]string{}
	status := map[string]string{}
	for _, a := range append([]string{"o"}, accounts...) {
		if s, ok := p.Status[a]; ok {
			perm[a], status[a] = p.Perm[a], s
		} else {
			perm[a], status[a] = "none", "absent"
		}
	}
	return map[string]any{"perm": perm, "status": status, "invites": p.Invites, "reqs": p.Reqs, "keys": p.Keys, "head": p.Head}
}

func (t *traceRec) emit(e map[string]any) {
	if t == nil {
		return
	}
	t.events = append(t.events, e)
}

func (t *traceRec) begin(x *runner) {
	if t == nil {
		return
	}
	cfg := map[string]any{}
	for n, r := range x.reps {
		cfg[n] = r.cfg
	}
	t.emit(map[string]any{"ev": "Config", "cfg": cfg})
}

func csJSON(cs []content) []content {
	if cs == nil {
		return []content{}
	}
	return cs
}

func (t *traceRec) accept(x *runner, s *step, rec *consensusproto.RawRecordWithId) {
	if t == nil {
		return
	}
	t.emit(map[string]any{"ev": "Accept", "a": s.A, "cs": csJSON(s.Cs), "enc": s.Enc, "st": specShape(x.w.refProj[len(x.w.log)-1], x.b.Accounts)})
}

func (t *traceRec) refused(x *runner, a string, cs []content) {
	if t == nil {
		return
	}
	t.emit(map[string]any{"ev": "Refused", "a": a, "cs": csJSON(cs)})
}

func (t *traceRec) replicaStep(x *runner, s *step, r *replica) {
	if t == nil {
		return
	}
	e := map[string]any{"ev": s.Act, "r": s.R, "st": specShape(x.w.project(r.acl), x.b.Accounts)}
	switch s.Act {
	case "AddBatch":
		e["i"], e["j"] = s.I, s.J
	case "Bootstrap":
		e["p"] = s.P
	case "CatchUp":
		e["p"], e["after"], e["start"] = s.P, s.After, s.Start
	case "Announce":
		e["p"], e["i"], e["start"] = s.P, s.I, s.Start
	case "AddBatchTail":
		a := s.A
		if a == "" {
			a = "o"
		}
		e["i"], e["j"], e["kind"], e["other"], e["a"], e["cs"], e["via"] = s.I, s.J, s.Kind, s.Other, a, csJSON(s.Cs), s.Via
	}
	t.emit(e)
}

func (t *traceRec) migrated(x *runner, s *step, r *replica) {
	if t == nil {
		return
	}
	t.emit(map[string]any{"ev": "MigratedRestart", "r": s.R, "i": s.I, "j": s.J, "st": specShape(x.w.project(r.acl), x.b.Accounts)})
}

func (t *traceRec) buildTampered(x *runner, s *step, r *replica) {
	if t == nil {
		return
	}
	a := s.A
	if a == "" {
		a = "o"
	}
	t.emit(map[string]any{"ev": "BuildTampered", "r": s.R, "k": s.K, "m": s.M, "kind": s.Kind, "other": s.Other, "a": a,
		"cs": csJSON(s.Cs), "st": specShape(x.w.project(r.acl), x.b.Accounts)})
}

func (t *traceRec) tamper(x *runner, s *step, r *replica) {
	if t == nil {
		return
	}
	a := s.A
	if a == "" {
		a = "o"
	}
	t.emit(map[string]any{"ev": "Tamper", "r": s.R, "kind": s.Kind, "other": s.Other, "a": a, "cs": csJSON(s.Cs),
		"st": specShape(x.w.project(r.acl), x.b.Accounts)})
}

// ---------------------------------------------------------------------------------------------
// random driver

var grantPerms = []string{"reader", "writer", "admin"}

func pick[T any](rng *rand.Rand, xs []T) T { return xs[rng.Intn(len(xs))] }

// candidate: one random content an account could try in the current state of the log. The three
// restrictions of AclChain.tla apply: only join requests of accounts without permission are
// accepted, only accounts holding a permission are re-permissioned, nobody is made a guest.
func (x *runner) candidate(rng *rand.Rand, author string, kinds []string) (content, bool) {
	return x.candidateAt(rng, author, kinds, len(x.w.log))
}

// candidateAt: the same for the state after record at
func (x *runner) candidateAt(rng *rand.Rand, author string, kinds []string, at int) (content, bool) {
	p := x.w.refProj[at-1]
	accs := append([]string{"o"}, x.b.Accounts...)
	k := pick(rng, kinds)
	c := content{K: k, Acc: "-", P: "-", T: "-"}
	switch k {
	case "Invite":
		if rng.Intn(2) == 0 {
			c.T, c.P = "req", "none"
		} else {
			c.T, c.P = "any", pick(rng, grantPerms)
		}
	case "InviteRevoke", "InviteChange", "RequestJoin", "InviteJoin":
		if len(p.Invites) == 0 {
			return c, false
		}
		inv := pick(rng, p.Invites)
		if _, ok := x.w.invKeys[inv.Id]; !ok {
			return c, false
		}
		c.Ref = inv.Id
		if k == "InviteChange" {
			c.P = pick(rng, grantPerms)
		}
	case "RequestAccept", "RequestDecline", "RequestCancel":
		if len(p.Reqs) == 0 {
			return c, false
		}
		q := pick(rng, p.Reqs)
		c.Ref = q.Id
		if k == "RequestAccept" {
			if q.Kind != "join" || p.Perm[q.Acc] != "none" {
				return c, false
			}
			c.Acc, c.P = q.Acc, pick(rng, grantPerms)
		}
	case "RequestRemove", "ReadKeyChange", "Options":
	case "AccountRemove":
		c.Acc = pick(rng, accs)
		if c.Acc == author || p.Perm[c.Acc] == "" || p.Perm[c.Acc] == "none" {
			return c, false
		}
	case "PermChange":
		c.Acc, c.P = pick(rng, accs), pick(rng, grantPerms)
		if pp, ok := p.Perm[c.Acc]; !ok || pp == "none" {
			return c, false
		}
	case "AccountsAdd":
		c.Acc, c.P = pick(rng, accs), pick(rng, grantPerms)
		if pp, ok := p.Perm[c.Acc]; ok && pp != "none" {
			return c, false
		}
	case "Ownership":
		c.Acc, c.P = pick(rng, accs), pick(rng, grantPerms)
		if pp, ok := p.Perm[c.Acc]; !ok || pp == "none" {
			return c, false
		}
	}
	return c, true
}

var allKinds = []string{"Invite", "InviteRevoke", "InviteChange", "RequestJoin", "InviteJoin", "RequestAccept", "RequestDecline",
	"RequestCancel", "RequestRemove", "ReadKeyChange", "Options", "AccountRemove", "PermChange", "AccountsAdd", "Ownership"}

var rank = map[string]int{"AccountRemove": 1, "AccountsAdd": 2, "PermChange": 3, "RequestAccept": 4, "RequestDecline": 5,
	"InviteRevoke": 6, "ReadKeyChange": 7, "InviteChange": 8, "Invite": 9}

func batchOk(c1, c2 content) bool {
	r1, r2 := rank[c1.K], rank[c2.K]
	switch {
	case r1 == 0 || r2 == 0 || r1 > r2:
		return false
	case c1.K == "AccountRemove" && c2.K == "AccountRemove", c1.K == "Invite" && c2.K == "Invite":
		return false
	case c1.K == "AccountsAdd", c1.K == "ReadKeyChange":
		return false
	case c2.K == "AccountsAdd" && (c1.K != "AccountRemove" || c1.Acc == c2.Acc):
		return false
	case c2.K == "ReadKeyChange" && c1.K != "RequestDecline" && c1.K != "InviteRevoke":
		return false
	case c1 == c2:
		return false
	case c1.K == "AccountRemove" && c2.K == "Invite" && c2.T == "any":
		return false
	case c1.K == "PermChange" && c2.K == "PermChange" && c1.Acc == c2.Acc:
		// one PermissionChanges content: both entries are validated one after the other as in the
		// model, but keep the generated alphabet to distinct accounts
		return false
	case c2.K == "PermChange" && c1.K == "AccountRemove" && c1.Acc == c2.Acc:
		return false
	}
	return true
}

var batchKinds = []string{"AccountRemove", "AccountsAdd", "PermChange", "RequestAccept", "RequestDecline", "InviteRevoke", "ReadKeyChange", "InviteChange", "Invite"}

// likelyAuthor: mostly an account that may issue the kind, sometimes anybody (to be refused)
func (x *runner) likelyAuthor(rng *rand.Rand, kind string) string {
	p := x.w.refProj[len(x.w.log)-1]
	all := append([]string{"o"}, x.b.Accounts...)
	if rng.Intn(7) == 0 {
		return pick(rng, all)
	}
	var fit []string
	for _, a := range all {
		pp := p.Perm[a]
		switch kind {
		case "Ownership", "Options":
			if pp == "owner" {
				fit = append(fit, a)
			}
		case "RequestJoin", "InviteJoin":
			if pp == "" || pp == "none" {
				fit = append(fit, a)
			}
		case "RequestRemove":
			if pp != "" && pp != "none" && pp != "owner" {
				fit = append(fit, a)
			}
		case "RequestCancel":
			for _, q := range p.Reqs {
				if q.Acc == a {
					fit = append(fit, a)
				}
			}
		default:
			if pp == "owner" || pp == "admin" {
				fit = append(fit, a)
			}
		}
	}
	if len(fit) == 0 {
		return pick(rng, all)
	}
	return pick(rng, fit)
}

func (x *runner) randomAccept(rng *rand.Rand) *step {
	for try := 0; try < 60; try++ {
		k := pick(rng, allKinds)
		a := x.likelyAuthor(rng, k)
		c1, ok := x.candidate(rng, a, []string{k})
		if !ok {
			continue
		}
		if k == "RequestCancel" && rng.Intn(7) != 0 {
			// the requester's own request
			p := x.w.refProj[len(x.w.log)-1]
			for _, q := range p.Reqs {
				if q.Acc == a {
					c1.Ref = q.Id
				}
			}
		}
		cs := []content{c1}
		if rank[c1.K] > 0 && rng.Intn(3) == 0 {
			for t2 := 0; t2 < 10; t2++ {
				c2, ok := x.candidate(rng, a, batchKinds)
				if ok && batchOk(c1, c2) {
					cs = append(cs, c2)
					break
				}
			}
		}
		return &step{Act: "Accept", A: a, Cs: cs, Enc: pick(rng, []string{"canonical", "canonical", "typeSpelled", "unknownField"})}
	}
	return nil
}

func (x *runner) randomStep(rng *rand.Rand) *step {
	w := x.w
	names := make([]string, 0, len(x.reps))
	for n := range x.reps {
		names = append(names, n)
	}
	sort.Strings(names)
	r := x.reps[pick(rng, names)]
	n := len(w.log)
	switch d := rng.Intn(100); {
	case d < 36:
		return x.randomAccept(rng)
	case d < 50:
		if r.applied() < n {
			return &step{Act: "AddOne", R: r.name}
		}
	case d < 58:
		if r.applied() < n {
			i := 1 + rng.Intn(r.applied()+1)
			j := r.applied() + 1 + rng.Intn(n-r.applied())
			if j > i {
				return &step{Act: "AddBatch", R: r.name, I: i, J: j}
			}
		}
	case d < 64:
		return &step{Act: "Restart", R: r.name}
	case d < 68:
		if r.cfg.Storage == "anystore" && r.applied() >= 3 {
			i := 2 + rng.Intn(r.applied()-2)
			j := i + 1 + rng.Intn(r.applied()-i)
			return &step{Act: "MigratedRestart", R: r.name, I: i, J: j}
		}
	case d < 72:
		p := x.reps[pick(rng, names)]
		if r.cfg.Storage == "inmemory" && p != r {
			return &step{Act: "Bootstrap", R: r.name, P: p.name}
		}
	case d < 84:
		p := x.reps[pick(rng, names)]
		if p != r {
			m := r.applied()
			if p.applied() < m {
				m = p.applied()
			}
			after := m
			if rng.Intn(3) == 0 {
				after = 1 + rng.Intn(m)
			}
			return &step{Act: "CatchUp", R: r.name, P: p.name, After: after}
		}
	case d < 90:
		p := x.reps[pick(rng, names)]
		if p != r {
			i := 1 + rng.Intn(p.applied()+1)
			if rng.Intn(2) == 0 && r.applied() < p.applied() {
				i = r.applied() + 1 // the records the receiver is missing
			}
			return &step{Act: "Announce", R: r.name, P: p.name, I: i}
		}
	case d < 97:
		k := pick(rng, []string{"byte", "id", "prevId", "authorSig", "acceptorSig", "nonHeadPrev", "gap", "dup"})
		s := &step{Act: "Tamper", R: r.name, Kind: k, A: "o"}
		switch k {
		case "byte", "id", "authorSig":
			if r.applied() < n {
				return s
			}
		case "acceptorSig":
			if r.applied() < n && r.cfg.Mode == "partial" {
				return s
			}
		case "prevId", "nonHeadPrev":
			if r.applied() < n {
				s.Other = rng.Intn(r.applied())
				return s
			}
		case "gap":
			if r.applied()+2 <= n {
				s.Other = r.applied() + 2 + rng.Intn(n-r.applied()-1)
				return s
			}
		case "dup":
			s.Other = 1 + rng.Intn(r.applied())
			return s
		}
	case d < 99:
		if cs, a, ok := x.randomBad(rng, r.applied()); ok {
			return &step{Act: "Tamper", R: r.name, Kind: "unaccepted", A: a, Cs: cs}
		}
	default:
	}
	// a list built from a log with a refusable record in place k
	if rng.Intn(4) == 0 {
		k := 1 + rng.Intn(n+1)
		if k >= 2 && rng.Intn(3) == 0 {
			if cs, a, ok := x.randomBad(rng, k-1); ok {
				return &step{Act: "BuildTampered", R: r.name, K: k, M: k, Kind: "unaccepted", A: a, Cs: cs}
			}
		}
		kind := pick(rng, []string{"byte", "id", "prevId", "authorSig", "acceptorSig", "nonHeadPrev"})
		if k == 1 {
			kind = "byte"
		}
		if k <= n && (kind != "acceptorSig" || r.cfg.Mode == "partial") {
			s := &step{Act: "BuildTampered", R: r.name, K: k, M: k + rng.Intn(n-k+1), Kind: kind, A: "o"}
			if kind == "prevId" || kind == "nonHeadPrev" {
				if k < 2 {
					return nil
				}
				s.Other = rng.Intn(k - 1)
			}
			return s
		}
		return nil
	}
	// a batch of accepted records with a refusable tail
	if r.applied() < n && rng.Intn(3) > 0 {
		i := 1 + rng.Intn(r.applied()+1)
		j := r.applied() + 1 + rng.Intn(n-r.applied())
		via := pick(rng, []string{"direct", "headUpdate", "response"})
		if rng.Intn(2) == 0 {
			if cs, a, ok := x.randomBad(rng, j); ok {
				return &step{Act: "AddBatchTail", R: r.name, I: i, J: j, Kind: "unaccepted", A: a, Cs: cs, Via: via}
			}
		}
		k := pick(rng, []string{"byte", "id", "prevId", "authorSig", "acceptorSig", "nonHeadPrev", "gap"})
		s := &step{Act: "AddBatchTail", R: r.name, I: i, J: j, Kind: k, A: "o", Via: via}
		switch k {
		case "byte", "id", "authorSig":
			if j < n {
				return s
			}
		case "acceptorSig":
			if j < n && r.cfg.Mode == "partial" {
				return s
			}
		case "prevId", "nonHeadPrev":
			if j < n {
				s.Other = rng.Intn(j)
				return s
			}
		case "gap":
			if j+2 <= n {
				s.Other = j + 2 + rng.Intn(n-j-1)
				return s
			}
		}
	}
	return nil
}

// randomBad: contents of a record the acceptor refuses in the state after record at - a first content
// its author may issue there followed by one that names nothing, or an invite by a non-manager
func (x *runner) randomBad(rng *rand.Rand, at int) ([]content, string, bool) {
	authors := append([]string{"o"}, x.b.Accounts...)
	a := pick(rng, authors)
	p := x.w.refProj[at-1]
	if pp := p.Perm[a]; pp != "admin" && pp != "owner" {
		if rng.Intn(3) == 0 {
			return []content{{K: "Invite", Acc: "-", P: "none", T: "req"}}, a, true
		}
		for _, b := range authors {
			if p.Perm[b] == "owner" {
				a = b
			}
		}
	}
	for try := 0; try < 8; try++ {
		c1, ok := x.candidateAt(rng, a, []string{"AccountRemove", "PermChange", "RequestAccept", "RequestDecline", "InviteRevoke"}, at)
		if ok {
			bad := pick(rng, []string{"InviteRevoke", "RequestDecline"})
			return []content{c1, {K: bad, Acc: "-", P: "-", T: "-"}}, a, true
		}
	}
	return nil, "", false
}

// freeRun: one random history of the given length on three replicas of random configuration
func freeRun(rep *vfutil.Report, rng *rand.Rand, name string, accounts []string, steps int, scratch string, tr *traceRec) {
	modes, stores := []string{"validating", "partial"}, []string{"anystore", "inmemory"}
	idents := append([]string{"o", "n"}, accounts...)
	b := &behaviour{Spec: "AclChain/free", Accounts: accounts, Cfg: map[string]replicaCfg{}, Name: name}
	for _, r := range []string{"r1", "r2", "r3"} {
		b.Cfg[r] = replicaCfg{Mode: pick(rng, modes), Storage: pick(rng, stores), Ident: pick(rng, idents)}
	}
	x := &runner{rep: rep, b: b, trace: tr, free: true}
	defer func() {
		if p := recover(); p != nil {
			if s, ok := p.(string); ok && len(s) > 8 && s[:8] == "harness:" {
				panic(p)
			}
			x.rep.Violate("panic", fmt.Sprintf("free run %s step %d: panic: %v\n%s", name, x.stepNo, p, shortStack()), x.replayObj())
		}
	}()
	x.init(scratch)
	defer x.close()
	tr.begin(x)
	for len(b.Steps) < steps && !x.stop {
		s := x.randomStep(rng)
		if s == nil {
			continue
		}
		b.Steps = append(b.Steps, *s)
		x.stepNo = len(b.Steps) - 1
		x.doStep(&b.Steps[x.stepNo])
		rep.AddSteps(1)
	}
	rep.AddReplayed(1)
}

func TestRecord(t *testing.T) {
	rep := vfutil.NewReport("C03")
	defer func() { rep.Save(!t.Failed() || rep.NumViolations() > 0) }()
	out := os.Getenv("VERIF_TRACE_OUT")
	if out == "" {
		t.Skip("VERIF_TRACE_OUT not set")
	}
	scratch := vfutil.Scratch("aclchain-rec")
	defer os.RemoveAll(scratch)
	runs := vfutil.EnvInt("VERIF_RUNS", 8)
	steps := vfutil.EnvInt("VERIF_STEPS", 60)
	traces := make([]*traceRec, runs)
	var wg sync.WaitGroup
	sem := make(chan struct{}, vfutil.EnvInt("VERIF_WORKERS", 6))
	for i := 0; i < runs; i++ {
		traces[i] = &traceRec{}
		wg.Add(1)
		go func(i int) {
			defer wg.Done()
			sem <- struct{}{}
			defer func() { <-sem }()
			rng := rand.New(rand.NewSource(vfutil.Seed()*1000 + int64(i)))
			freeRun(rep, rng, fmt.Sprintf("free%03d", i), []string{"a", "b", "c"}, steps, scratch, traces[i])
		}(i)
	}
	wg.Wait()
	tw := vfutil.NewTraceWriter(out)
	n := 0
	for _, tr := range traces {
		for _, e := range tr.events {
			tw.Emit(e)
			n++
		}
	}
	tw.Close()
	rep.SetExtra("trace_events", n)
	if len(traces) > 0 && len(traces[0].events) > 3 {
		rep.Sample(traces[0].events[:3])
	}
	if n := rep.NumViolations(); n > 0 {
		t.Errorf("%d violations", n)
	}
}
