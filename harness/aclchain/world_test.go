// Package aclchain binds spec/aclchain/AclChain.tla to the real ACL list (property C03).
//
// world_test.go: the environment of one history - accounts with real keys, the accepted log
// (real signed records), one record-building list per account, the acceptor (a fully
// validating list that refuses invalid records and signs accepted ones with the network key)
// and the translation of the model's abstract contents into real records.
package aclchain

import (
	"context"
	"crypto/rand"
	"errors"
	"fmt"

	"github.com/anyproto/any-sync/commonspace/object/accountdata"
	"github.com/anyproto/any-sync/commonspace/object/acl/aclrecordproto"
	"github.com/anyproto/any-sync/commonspace/object/acl/list"
	"github.com/anyproto/any-sync/commonspace/object/acl/recordverifier"
	"github.com/anyproto/any-sync/consensus/consensusproto"
	"github.com/anyproto/any-sync/util/cidutil"
	"github.com/anyproto/any-sync/util/crypto"
)

var ctx = context.Background()

type contextT = context.Context

// content is the model's abstract record content (AclChain.tla, operator C)
type content struct {
	K   string `json:"k"`
	Acc string `json:"acc"`
	P   string `json:"p"`
	Ref int    `json:"ref"`
	T   string `json:"t"`
}

func (c content) String() string { return fmt.Sprintf("%s(%s,%s,%d,%s)", c.K, c.Acc, c.P, c.Ref, c.T) }

type world struct {
	spaceId   string
	netKey    crypto.PrivKey
	netPub    []byte // proto-marshalled network key
	names     []string
	keys      map[string]*accountdata.AccountKeys
	nameOf    map[string]string // pubkey storage bytes -> account name
	log       []*consensusproto.RawRecordWithId
	idx       map[string]int // real record id -> model id (1-based position in the log)
	builders  map[string]list.AclList
	acceptor  list.AclList
	invKeys   map[int]crypto.PrivKey // model id of the invite record -> invite private key
	refProj   []proj                 // refProj[k-1]: projection of the acceptor after k records
	refPriv   map[string][]privView  // per identity, per prefix
	optToggle bool
}

func permOf(p string) list.AclPermissions {
	switch p {
	case "reader":
		return list.AclPermissionsReader
	case "writer":
		return list.AclPermissionsWriter
	case "admin":
		return list.AclPermissionsAdmin
	case "owner":
		return list.AclPermissionsOwner
	case "guest":
		return list.AclPermissionsGuest
	}
	return list.AclPermissionsNone
}

func permName(p list.AclPermissions) string {
	switch p {
	case list.AclPermissionsReader:
		return "reader"
	case list.AclPermissionsWriter:
		return "writer"
	case list.AclPermissionsAdmin:
		return "admin"
	case list.AclPermissionsOwner:
		return "owner"
	case list.AclPermissionsGuest:
		return "guest"
	case list.AclPermissionsNone:
		return "none"
	}
	return fmt.Sprintf("perm%d", int(p))
}

func mustNoErr(err error, what string) {
	if err != nil {
		panic(fmt.Sprintf("harness: %s: %v", what, err))
	}
}

// newWorld creates the accounts ("o" owner, the given others, "n" a node that never joins),
// the root record and the lists used to build and to accept records.
func newWorld(accounts []string) *world {
	w := &world{
		spaceId:  "space-c03",
		keys:     map[string]*accountdata.AccountKeys{},
		nameOf:   map[string]string{},
		idx:      map[string]int{},
		builders: map[string]list.AclList{},
		invKeys:  map[int]crypto.PrivKey{},
		refPriv:  map[string][]privView{},
	}
	nk, np, err := crypto.GenerateRandomEd25519KeyPair()
	mustNoErr(err, "network key")
	w.netKey = nk
	w.netPub, err = np.Marshall()
	mustNoErr(err, "network key marshal")
	w.names = append([]string{"o"}, accounts...)
	w.names = append(w.names, "n")
	for _, n := range w.names {
		k, err := accountdata.NewRandom()
		mustNoErr(err, "account keys")
		w.keys[n] = k
		w.nameOf[string(k.SignKey.GetPublic().Storage())] = n
	}
	ownerAcl, err := list.NewInMemoryDerivedAcl(w.spaceId, w.keys["o"])
	mustNoErr(err, "derived acl")
	root := ownerAcl.Root()
	w.log = []*consensusproto.RawRecordWithId{root}
	w.idx[root.Id] = 1
	for _, n := range w.names {
		w.builders[n] = w.freshList(n, "validating", w.log)
	}
	w.acceptor = w.freshList("n", "validating", w.log)
	w.recordRefs()
	return w
}

func (w *world) verifier(mode string) recordverifier.AcceptorVerifier {
	if mode == "partial" {
		return recordverifier.New(w.netKey.GetPublic())
	}
	return recordverifier.NewValidateFull()
}

func cloneRecs(recs []*consensusproto.RawRecordWithId) []*consensusproto.RawRecordWithId {
	out := make([]*consensusproto.RawRecordWithId, len(recs))
	for i, r := range recs {
		out[i] = &consensusproto.RawRecordWithId{Id: r.Id, Payload: append([]byte(nil), r.Payload...)}
	}
	return out
}

// freshList builds a list for the given identity and mode on a new in-memory storage holding recs
func (w *world) freshList(ident, mode string, recs []*consensusproto.RawRecordWithId) list.AclList {
	st, err := list.NewInMemoryStorage(recs[0].Id, cloneRecs(recs))
	mustNoErr(err, "in-memory storage")
	l, err := list.BuildAclListWithIdentity(w.keys[ident], st, w.verifier(mode))
	mustNoErr(err, "build list "+ident+"/"+mode)
	return l
}

func (w *world) head() string { return w.log[len(w.log)-1].Id }

func (w *world) realId(modelId int) string {
	if modelId >= 1 && modelId <= len(w.log) {
		return w.log[modelId-1].Id
	}
	return w.unknownId(modelId)
}

// unknownId: a well-formed record id that names nothing
func (w *world) unknownId(salt int) string {
	b := make([]byte, 32)
	_, _ = rand.Read(b)
	id, err := cidutil.NewCidFromBytes(append(b, byte(salt)))
	mustNoErr(err, "cid")
	return id
}

func (w *world) pub(name string) crypto.PubKey { return w.keys[name].SignKey.GetPublic() }

func newKeyChange() list.ReadKeyChangePayload {
	priv, _, err := crypto.GenerateRandomEd25519KeyPair()
	mustNoErr(err, "metadata key")
	return list.ReadKeyChangePayload{MetadataKey: priv, ReadKey: crypto.NewAES()}
}

var errNotBuildable = errors.New("model record has no builder mapping")
var errNoReadKey = errors.New("author holds no current read key")

// kinds whose builder wraps the current read key for somebody: the client builder dereferences
// a nil key when the author holds none (an account outside the space) - that is a misuse of the
// local builder API, not an ACL record, so the harness refuses on the builder's behalf
var needsReadKey = map[string]bool{"AccountsAdd": true, "RequestAccept": true, "ReadKeyChange": true, "AccountRemove": true, "Invite": true}

func holdsReadKey(l list.AclList) bool {
	k, err := l.AclState().CurrentReadKey()
	return err == nil && k != nil
}

// listAt: the author's own validating list at the prefix log[1..at] (the standing builder list
// when that is the whole log)
func (w *world) listAt(author string, at int) list.AclList {
	if at == len(w.log) {
		return w.builders[author]
	}
	return w.freshList(author, "validating", w.log[:at])
}

// buildRaw asks the author's own list (the client record builder, including its preflight
// validation) for the record with the given abstract contents at the current log head.
// It returns the unsigned-by-acceptor raw record and the invite keys created (by content position).
func (w *world) buildRaw(author string, cs []content) (*consensusproto.RawRecord, []crypto.PrivKey, error) {
	return w.buildRawWith(w.builders[author], author, cs)
}

// buildRawWith: the same with the author's list given explicitly (a list at an earlier prefix)
func (w *world) buildRawWith(l list.AclList, author string, cs []content) (*consensusproto.RawRecord, []crypto.PrivKey, error) {
	b := l.RecordBuilder()
	st := l.AclState()
	for _, c := range cs {
		if needsReadKey[c.K] && !holdsReadKey(l) {
			return nil, nil, errNoReadKey
		}
	}
	if len(cs) == 1 {
		c := cs[0]
		switch c.K {
		case "Invite":
			var res list.InviteResult
			var err error
			if c.T == "any" {
				res, err = b.BuildInviteAnyone(permOf(c.P))
			} else {
				res, err = b.BuildInvite()
			}
			return res.InviteRec, []crypto.PrivKey{res.InviteKey}, err
		case "InviteRevoke":
			r, err := b.BuildInviteRevoke(w.realId(c.Ref))
			return r, nil, err
		case "InviteChange":
			r, err := b.BuildInviteChange(list.InviteChangePayload{IniviteRecordId: w.realId(c.Ref), Permissions: permOf(c.P)})
			return r, nil, err
		case "RequestJoin":
			r, err := b.BuildRequestJoin(list.RequestJoinPayload{InviteKey: w.invKeys[c.Ref], Metadata: []byte("meta-" + author)})
			return r, nil, err
		case "InviteJoin":
			r, err := b.BuildInviteJoinWithoutApprove(list.InviteJoinPayload{InviteKey: w.invKeys[c.Ref], Metadata: []byte("meta-" + author)})
			return r, nil, err
		case "RequestAccept":
			r, err := b.BuildRequestAccept(list.RequestAcceptPayload{RequestRecordId: w.realId(c.Ref), Permissions: permOf(c.P)})
			return r, nil, err
		case "RequestDecline":
			r, err := b.BuildRequestDecline(w.realId(c.Ref))
			return r, nil, err
		case "RequestCancel":
			r, err := b.BuildRequestCancel(w.realId(c.Ref))
			return r, nil, err
		case "RequestRemove":
			r, err := b.BuildRequestRemove()
			return r, nil, err
		case "AccountRemove":
			r, err := b.BuildAccountRemove(list.AccountRemovePayload{Identities: []crypto.PubKey{w.pub(c.Acc)}, Change: newKeyChange()})
			return r, nil, err
		case "ReadKeyChange":
			r, err := b.BuildReadKeyChange(newKeyChange())
			return r, nil, err
		case "PermChange":
			r, err := b.BuildPermissionChange(list.PermissionChangePayload{Identity: w.pub(c.Acc), Permissions: permOf(c.P)})
			return r, nil, err
		case "AccountsAdd":
			r, err := b.BuildAccountsAdd(list.AccountsAddPayload{Additions: []list.AccountAdd{{Identity: w.pub(c.Acc), Permissions: permOf(c.P), Metadata: []byte("meta-" + c.Acc)}}})
			return r, nil, err
		case "Ownership":
			r, err := b.BuildOwnershipChange(list.OwnershipChangePayload{NewOwner: w.pub(c.Acc), OldOwnerPermissions: permOf(c.P)})
			return r, nil, err
		case "Options":
			w.optToggle = !w.optToggle
			r, err := b.BuildSpaceOptionsChange(&aclrecordproto.AclSpaceOptions{DeleteRestricted: w.optToggle})
			return r, nil, err
		}
		return nil, nil, errNotBuildable
	}
	// multi-content record: AclRecordBuilder.BuildBatchRequest
	_ = st
	var p list.BatchRequestPayload
	var inviteSlots []int
	for i, c := range cs {
		switch c.K {
		case "AccountRemove":
			p.Removals.Identities = append(p.Removals.Identities, w.pub(c.Acc))
			p.Removals.Change = newKeyChange()
		case "AccountsAdd":
			p.Additions = append(p.Additions, list.AccountAdd{Identity: w.pub(c.Acc), Permissions: permOf(c.P), Metadata: []byte("meta-" + c.Acc)})
		case "PermChange":
			p.Changes = append(p.Changes, list.PermissionChangePayload{Identity: w.pub(c.Acc), Permissions: permOf(c.P)})
		case "RequestAccept":
			p.Approvals = append(p.Approvals, list.RequestAcceptPayload{RequestRecordId: w.realId(c.Ref), Permissions: permOf(c.P)})
		case "RequestDecline":
			p.Declines = append(p.Declines, w.realId(c.Ref))
		case "InviteRevoke":
			p.InviteRevokes = append(p.InviteRevokes, w.realId(c.Ref))
		case "ReadKeyChange":
			kc := newKeyChange()
			p.ReadKeyChange = &kc
		case "InviteChange":
			p.InviteChanges = append(p.InviteChanges, list.InviteChangePayload{IniviteRecordId: w.realId(c.Ref), Permissions: permOf(c.P)})
		case "Invite":
			if c.T == "any" {
				p.NewInvites = append(p.NewInvites, permOf(c.P))
			} else {
				p.NewInvites = append(p.NewInvites, list.AclPermissionsNone)
			}
			inviteSlots = append(inviteSlots, i)
		default:
			return nil, nil, errNotBuildable
		}
	}
	res, err := b.BuildBatchRequest(p)
	if err != nil {
		return nil, nil, err
	}
	keys := make([]crypto.PrivKey, len(cs))
	for k, slot := range inviteSlots {
		if k < len(res.Invites) {
			keys[slot] = res.Invites[k]
		}
	}
	return res.Rec, keys, nil
}

// sign: the consensus node's part - acceptor identity, acceptor signature over the payload, id
func (w *world) sign(raw *consensusproto.RawRecord) *consensusproto.RawRecordWithId {
	sig, err := w.netKey.Sign(raw.Payload)
	mustNoErr(err, "acceptor signature")
	raw.AcceptorIdentity = w.netPub
	raw.AcceptorSignature = sig
	raw.AcceptorTimestamp = 1700000000 + int64(len(w.log))
	return wrap(raw)
}

func wrap(raw *consensusproto.RawRecord) *consensusproto.RawRecordWithId {
	payload, err := raw.MarshalVT()
	mustNoErr(err, "marshal raw record")
	id, err := cidutil.NewCidFromBytes(payload)
	mustNoErr(err, "cid")
	return &consensusproto.RawRecordWithId{Payload: payload, Id: id}
}

// accept: the acceptor validates the record against the whole log (ValidateRawRecord, the call
// the node-side acl service makes) and, if valid, signs and appends it; every builder follows.
func (w *world) accept(raw *consensusproto.RawRecord, inviteKeys []crypto.PrivKey, cs []content) (*consensusproto.RawRecordWithId, error) {
	if err := w.acceptor.ValidateRawRecord(raw, nil); err != nil {
		return nil, err
	}
	rec := w.sign(raw)
	id := len(w.log) + 1
	if err := w.acceptor.AddRawRecord(rec); err != nil {
		return nil, fmt.Errorf("acceptor add: %w", err)
	}
	for _, n := range w.names {
		if err := w.builders[n].AddRawRecord(rec); err != nil {
			return nil, fmt.Errorf("builder %s add: %w", n, err)
		}
	}
	w.log = append(w.log, rec)
	w.idx[rec.Id] = id
	for i, c := range cs {
		if c.K == "Invite" && i < len(inviteKeys) && inviteKeys[i] != nil {
			w.invKeys[id] = inviteKeys[i]
		}
	}
	w.recordRefs()
	return rec, nil
}

func (w *world) recordRefs() {
	w.refProj = append(w.refProj, w.project(w.acceptor))
	for _, n := range w.names {
		w.refPriv[n] = append(w.refPriv[n], private(w.builders[n], w))
	}
}

// ---------------------------------------------------------------------------------------------
// raw construction (bypassing the client builder) for records the acceptor must refuse

func decodeRaw(rec *consensusproto.RawRecordWithId) *consensusproto.RawRecord {
	raw := &consensusproto.RawRecord{}
	mustNoErr(raw.UnmarshalVT(rec.Payload), "unmarshal raw record")
	return raw
}

func decodeRecord(raw *consensusproto.RawRecord) *consensusproto.Record {
	r := &consensusproto.Record{}
	mustNoErr(r.UnmarshalVT(raw.Payload), "unmarshal record")
	return r
}

// signedBy builds RawRecord{Payload: marshal(rec), Signature: sign(key)} (no acceptor part)
func signedBy(rec *consensusproto.Record, key crypto.PrivKey) *consensusproto.RawRecord {
	payload, err := rec.MarshalVT()
	mustNoErr(err, "marshal record")
	sig, err := key.Sign(payload)
	mustNoErr(err, "sign record")
	return &consensusproto.RawRecord{Payload: payload, Signature: sig}
}

// rawFromContents: a record by author with the given protobuf contents on top of prevId
func (w *world) rawFromContents(author, prevId string, contents []*aclrecordproto.AclContentValue) *consensusproto.RawRecord {
	data, err := (&aclrecordproto.AclData{AclContent: contents}).MarshalVT()
	mustNoErr(err, "marshal acl data")
	ident, err := w.pub(author).Marshall()
	mustNoErr(err, "marshal identity")
	return signedBy(&consensusproto.Record{PrevId: prevId, Identity: ident, Data: data, Timestamp: 1700000000}, w.keys[author].SignKey)
}

// badRecord renders the model's refused records for the prefix log[1..at]: <<valid first content,
// dangling second content>> or <<invite by an account that may not manage>>; it extends record at.
func (w *world) badRecord(author string, cs []content, at int) (*consensusproto.RawRecord, error) {
	var contents []*aclrecordproto.AclContentValue
	for i, c := range cs {
		switch {
		case i == 0 && len(cs) == 2:
			raw, _, err := w.buildRawWith(w.listAt(author, at), author, []content{c})
			if err != nil {
				return nil, err
			}
			data := &aclrecordproto.AclData{}
			mustNoErr(data.UnmarshalVT(decodeRecord(raw).Data), "unmarshal acl data")
			contents = append(contents, data.AclContent...)
		case c.K == "InviteRevoke" && c.Ref == 0:
			contents = append(contents, &aclrecordproto.AclContentValue{Value: &aclrecordproto.AclContentValue_InviteRevoke{
				InviteRevoke: &aclrecordproto.AclAccountInviteRevoke{InviteRecordId: w.unknownId(1)}}})
		case c.K == "RequestDecline" && c.Ref == 0:
			contents = append(contents, &aclrecordproto.AclContentValue{Value: &aclrecordproto.AclContentValue_RequestDecline{
				RequestDecline: &aclrecordproto.AclAccountRequestDecline{RequestRecordId: w.unknownId(2)}}})
		case c.K == "Invite" && len(cs) == 1:
			_, pk, err := crypto.GenerateRandomEd25519KeyPair()
			mustNoErr(err, "invite key")
			pkb, err := pk.Marshall()
			mustNoErr(err, "invite key marshal")
			contents = append(contents, &aclrecordproto.AclContentValue{Value: &aclrecordproto.AclContentValue_Invite{
				Invite: &aclrecordproto.AclAccountInvite{InviteKey: pkb, InviteType: aclrecordproto.AclInviteType_RequestToJoin}}})
		default:
			return nil, errNotBuildable
		}
	}
	return w.rawFromContents(author, w.log[at-1].Id, contents), nil
}

// refusedAt: a fully validating list at the prefix refuses the record (what the acceptor would do there)
func (w *world) refusedAt(raw *consensusproto.RawRecord, at int) bool {
	v := w.acceptor
	if at != len(w.log) {
		v = w.freshList("n", "validating", w.log[:at])
	}
	return v.ValidateRawRecord(raw, nil) != nil
}

// ---------------------------------------------------------------------------------------------
// byte-different, semantically equal encodings of identities (another client implementation's
// protobuf encoder may emit them; every consumer compares identities after parsing)

func altEncoding(id []byte, enc string) []byte {
	switch enc {
	case "typeSpelled": // the default-valued Type field (Ed25519Public = 0) written out
		if len(id) > 0 && id[0] != 0x08 {
			return append([]byte{0x08, 0x00}, id...)
		}
	case "unknownField": // an extra field the key message does not define (field 15, varint)
		return append(append([]byte(nil), id...), 0x78, 0x01)
	}
	return id
}

// reencode rewrites every account identity inside the record built by the client builder (author,
// read-key recipients, removed / added / re-permissioned / accepted accounts, new owner, joiner)
// into the given encoding and signs the result with the author's key again.
func (w *world) reencode(raw *consensusproto.RawRecord, author, enc string) *consensusproto.RawRecord {
	if enc == "" || enc == "canonical" {
		return raw
	}
	rec := decodeRecord(raw)
	data := &aclrecordproto.AclData{}
	mustNoErr(data.UnmarshalVT(rec.Data), "unmarshal acl data")
	re := func(b []byte) []byte { return altEncoding(b, enc) }
	rkc := func(ch *aclrecordproto.AclReadKeyChange) {
		if ch == nil {
			return
		}
		for _, k := range ch.AccountKeys {
			k.Identity = re(k.Identity)
		}
	}
	for _, c := range data.AclContent {
		switch {
		case c.GetReadKeyChange() != nil:
			rkc(c.GetReadKeyChange())
		case c.GetAccountRemove() != nil:
			ar := c.GetAccountRemove()
			for i := range ar.Identities {
				ar.Identities[i] = re(ar.Identities[i])
			}
			rkc(ar.ReadKeyChange)
		case c.GetAccountsAdd() != nil:
			for _, a := range c.GetAccountsAdd().Additions {
				a.Identity = re(a.Identity)
			}
		case c.GetPermissionChange() != nil:
			c.GetPermissionChange().Identity = re(c.GetPermissionChange().Identity)
		case c.GetPermissionChanges() != nil:
			for _, ch := range c.GetPermissionChanges().Changes {
				ch.Identity = re(ch.Identity)
			}
		case c.GetRequestAccept() != nil:
			c.GetRequestAccept().Identity = re(c.GetRequestAccept().Identity)
		case c.GetOwnershipChange() != nil:
			c.GetOwnershipChange().NewOwnerIdentity = re(c.GetOwnershipChange().NewOwnerIdentity)
		case c.GetRequestJoin() != nil:
			c.GetRequestJoin().InviteIdentity = re(c.GetRequestJoin().InviteIdentity)
		case c.GetInviteJoin() != nil:
			c.GetInviteJoin().Identity = re(c.GetInviteJoin().Identity)
		}
	}
	nd, err := data.MarshalVT()
	mustNoErr(err, "marshal acl data")
	rec.Data = nd
	rec.Identity = re(rec.Identity)
	return signedBy(rec, w.keys[author].SignKey)
}
