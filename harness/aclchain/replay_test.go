package aclchain

// replay_test.go: executes behaviours of AclChain.tla (written by TLC from AclChainGen) on real
// AclLists. One harness call per specification action; after every step the property's
// predicates are evaluated on the real observations:
//
//   StateIsFunctionOfLog  the projection (and the observer's private key view) of every replica
//                         equals that of the reference list which applied the same prefix one
//                         record at a time (the acceptor / the identity's own building list)
//   ReplicasAgree         pairwise, over replicas and over the identity x mode x storage matrix
//   OnlyHeadExtends       storage is exactly the log prefix: ids, PrevId chain, orders, bytes, head
//   RejectedIsNoOp        a refused record returns an error and leaves projection, private view,
//                         record list and storage untouched
//   restart / catch-up    a list rebuilt from storage and a list caught up from RecordsAfter reach
//                         the same head and state; served bytes are the accepted bytes
//
// What the specification predicts (post-state of the log, applied counts, served ids, error class)
// is compared as well; a disagreement there is drift, not a violation.

import (
	"encoding/json"
	"errors"
	"fmt"
	"os"
	"path/filepath"
	"runtime/debug"
	"sort"
	"strings"
	"sync"
	"testing"

	"github.com/anyproto/any-sync/commonspace/object/acl/list"
	"github.com/anyproto/any-sync/consensus/consensusproto"
	"github.com/anyproto/any-sync/util/cidutil"
	"github.com/anyproto/any-sync/util/crypto"

	"verifharness/vfutil"
)

type specState struct {
	Perm    map[string]string `json:"perm"`
	Status  map[string]string `json:"status"`
	Invites []invProj         `json:"invites"`
	Reqs    []reqProj         `json:"reqs"`
	Keys    []int             `json:"keys"`
	Head    int               `json:"head"`
}

type step struct {
	Act     string     `json:"act"`
	A       string     `json:"a,omitempty"`
	Cs      []content  `json:"cs,omitempty"`
	Id      int        `json:"id,omitempty"`
	Exp     *specState `json:"exp,omitempty"`
	R       string     `json:"r,omitempty"`
	P       string     `json:"p,omitempty"`
	I       int        `json:"i,omitempty"`
	J       int        `json:"j,omitempty"`
	After   int        `json:"after,omitempty"`
	Start   int        `json:"start,omitempty"`
	Applied int        `json:"applied,omitempty"`
	Kind    string     `json:"kind,omitempty"`
	Other   int        `json:"other,omitempty"`
	Res     string     `json:"res,omitempty"`
	Via     string     `json:"via,omitempty"`
	Enc     string     `json:"enc,omitempty"` // Accept: encoding of the identities inside the record
	K       int        `json:"k,omitempty"`   // BuildTampered: place of the refusable record
	M       int        `json:"m,omitempty"`   // BuildTampered: last genuine record of the continuation
}

type behaviour struct {
	Spec     string                `json:"spec"`
	Accounts []string              `json:"accounts"`
	Cfg      map[string]replicaCfg `json:"cfg"`
	Steps    []step                `json:"steps"`
	Matrix   bool                  `json:"matrix"` // follow every accepted record on the full identity x mode x storage matrix
	Name     string                `json:"name,omitempty"`
}

type runner struct {
	rep     *vfutil.Report
	b       *behaviour
	w       *world
	reps    map[string]*replica
	matrix  []*replica
	scratch string
	stepNo  int
	stop    bool // the TLC-guided remainder was abandoned (drift or a corrupted replica)
	free    bool // random driver: the steps carry no predictions of the specification
	trace   *traceRec
}

func (x *runner) replayObj() any {
	b := *x.b
	if x.stepNo+1 < len(b.Steps) {
		b.Steps = b.Steps[:x.stepNo+1]
	}
	return b
}

func (x *runner) violate(key, format string, a ...any) {
	desc := fmt.Sprintf(format, a...)
	if x.stepNo < len(x.b.Steps) {
		s, _ := json.Marshal(x.b.Steps[x.stepNo])
		desc += fmt.Sprintf(" [behaviour %s step %d %s]", x.b.Name, x.stepNo, s)
	}
	x.rep.Violate(key, desc, x.replayObj())
}

func (x *runner) drift(format string, a ...any) {
	x.rep.DriftNote("%s step %d: %s", x.b.Name, x.stepNo, fmt.Sprintf(format, a...))
	x.stop = true
}

// role of an identity at a prefix of the log: owner / member / removed / outsider / node
func (w *world) role(ident string, prefix int) string {
	if ident == "n" {
		return "node"
	}
	p := w.refProj[prefix-1]
	switch {
	case p.Perm[ident] == "owner":
		return "owner"
	case p.Perm[ident] != "" && p.Perm[ident] != "none":
		return "member"
	case p.Status[ident] == "removed":
		return "removed"
	}
	return "outsider"
}

func (r *replica) tag() string { return r.cfg.Mode + "/" + r.cfg.Storage }

// checkReplica evaluates StateIsFunctionOfLog and OnlyHeadExtends on one replica
func (x *runner) checkReplica(r *replica) bool {
	w := x.w
	k := r.applied()
	if k < 1 || k > len(w.log) {
		x.violate("list-length/"+r.path+"/"+r.tag(), "replica %s (%s) holds %d records, the log has %d", r.name, r.cfg, k, len(w.log))
		return false
	}
	ok := true
	recs := r.acl.Records()
	for i := range recs {
		if recs[i].Id != w.log[i].Id {
			x.violate("list-order/"+r.path+"/"+r.tag(), "replica %s (%s): record %d of the list is %s, the log has %s", r.name, r.cfg, i+1, recs[i].Id, w.log[i].Id)
			return false
		}
	}
	role := w.role(r.cfg.Ident, k)
	x.rep.Case("state/" + r.path + "/" + r.tag() + "/" + role)
	if got, want := w.project(r.acl).String(), w.refProj[k-1].String(); got != want {
		x.violate("state-not-function-of-log/"+r.path+"/"+r.tag(), "replica %s (%s, %s) after %s at prefix %d: state %s, one-at-a-time reference %s", r.name, r.cfg, role, r.path, k, got, want)
		ok = false
	}
	if got, want := private(r.acl, w).String(), w.refPriv[r.cfg.Ident][k-1].String(); got != want {
		x.violate("private-keys-differ/"+r.path+"/"+r.tag()+"/"+role, "replica %s (%s, %s) after %s at prefix %d: key view %s, reference %s", r.name, r.cfg, role, r.path, k, got, want)
		ok = false
	}
	if what := x.checkStorage(r.st, k); what != "" {
		x.violate("storage-not-log-prefix/"+r.path+"/"+r.cfg.Storage+"/"+strings.SplitN(what, ":", 2)[0], "replica %s (%s) after %s at prefix %d: %s", r.name, r.cfg, r.path, k, what)
		ok = false
	}
	return ok
}

// checkStorage: the storage holds exactly log[1..k] as one chain
func (x *runner) checkStorage(st list.Storage, k int) string {
	s, err := snapStorage(st)
	if err != nil {
		return "read: " + err.Error()
	}
	if len(s.Recs) != k {
		return fmt.Sprintf("length: %d stored records for %d applied", len(s.Recs), k)
	}
	if s.Head != x.w.log[k-1].Id {
		return fmt.Sprintf("head: stored head %s, expected %s", s.Head, x.w.log[k-1].Id)
	}
	for i, sr := range s.Recs {
		want := x.w.log[i]
		prev := ""
		if i > 0 {
			prev = x.w.log[i-1].Id
		}
		ws := snapSum(want.Payload)
		switch {
		case sr.Id != want.Id:
			return fmt.Sprintf("id: position %d holds %s, expected %s", i+1, sr.Id, want.Id)
		case sr.Prev != prev:
			return fmt.Sprintf("prev: record %d has prev %q, expected %q", i+1, sr.Prev, prev)
		case sr.Order != i+1:
			return fmt.Sprintf("order: record %d has order %d", i+1, sr.Order)
		case sr.Sum != ws:
			return fmt.Sprintf("bytes: record %d differs from the accepted bytes", i+1)
		}
	}
	return ""
}

// checkRebuilt: a list built from the replica's storage has the same head and state
func (x *runner) checkRebuilt(r *replica, reopen bool) list.AclList {
	k := r.applied()
	role := x.w.role(r.cfg.Ident, k)
	x.rep.Case("rebuild/" + r.tag() + "/" + role)
	l, err := r.rebuild(reopen)
	if err != nil {
		x.violate("rebuild-fails/"+r.tag(), "replica %s (%s) at prefix %d: build from storage failed: %v", r.name, r.cfg, k, err)
		return nil
	}
	if len(l.Records()) != k || l.Head().Id != x.w.log[k-1].Id {
		x.violate("rebuilt-head-differs/"+r.tag(), "replica %s (%s): rebuilt list has %d records, head %s; live list %d records, head %s", r.name, r.cfg, len(l.Records()), l.Head().Id, k, x.w.log[k-1].Id)
		return nil
	}
	if got, want := x.w.project(l).String(), x.w.refProj[k-1].String(); got != want {
		x.violate("rebuilt-state-differs/"+r.tag(), "replica %s (%s, %s) rebuilt at prefix %d: %s, reference %s", r.name, r.cfg, role, k, got, want)
		return nil
	}
	if got, want := private(l, x.w).String(), x.w.refPriv[r.cfg.Ident][k-1].String(); got != want {
		x.violate("rebuilt-keys-differ/"+r.tag()+"/"+role, "replica %s (%s, %s) rebuilt at prefix %d: key view %s, reference %s", r.name, r.cfg, role, k, got, want)
		return nil
	}
	return l
}

// authentic: every served record is byte-for-byte an accepted record; returns the model ids
func (x *runner) authentic(p *replica, served []*consensusproto.RawRecordWithId, what string) ([]int, bool) {
	ids := make([]int, 0, len(served))
	for _, s := range served {
		i := x.w.modelId(s.Id)
		if i < 0 || !sameBytes(s.Payload, x.w.log[i-1].Payload) {
			x.violate("served-record-altered/"+p.tag(), "%s: replica %s (%s) served record %s whose bytes are not the accepted bytes", what, p.name, p.cfg, s.Id)
			return nil, false
		}
		ids = append(ids, i)
	}
	return ids, true
}

// checkCatchUp: a replica of the same identity and mode that holds log[1..from] asks server for
// RecordsAfter(its head) and must arrive at the server's head and state.
func (x *runner) checkCatchUp(server *replica, from int) {
	w := x.w
	k := server.applied()
	where := "after-nonroot"
	if from == 1 {
		where = "after-root"
	}
	x.rep.Case("catchup/" + server.tag() + "/" + where)
	served, err := server.acl.RecordsAfter(ctx, w.log[from-1].Id)
	if err != nil {
		x.violate("records-after-error/"+server.tag(), "replica %s (%s): RecordsAfter(record %d) failed: %v", server.name, server.cfg, from, err)
		return
	}
	if _, ok := x.authentic(server, served, "catch-up"); !ok {
		return
	}
	fresh := w.freshList(server.cfg.Ident, server.cfg.Mode, w.log[:from])
	if err := fresh.AddRawRecords(served); err != nil {
		x.violate("catchup-fails/"+server.cfg.Storage+"/"+where, "records served by %s (%s) after record %d of %d are refused by the requester: %v", server.name, server.cfg, from, k, err)
		return
	}
	if len(fresh.Records()) < k {
		x.violate("catchup-incomplete/"+server.cfg.Storage+"/"+where, "replica at record %d of %d asked %s (%s) for RecordsAfter(its head): %d records served, requester ends at %d of %d",
			from, k, server.name, server.cfg, len(served), len(fresh.Records()), k)
		return
	}
	if got, want := w.project(fresh).String(), w.refProj[k-1].String(); got != want {
		x.violate("caughtup-state-differs/"+server.tag(), "requester caught up from %s (%s) to prefix %d: %s, reference %s", server.name, server.cfg, k, got, want)
	}
}

func snapSum(b []byte) string { return sumOf(b) }

// ---------------------------------------------------------------------------------------------

func (x *runner) init(scratch string) {
	x.scratch = scratch
	x.w = newWorld(x.b.Accounts)
	x.reps = map[string]*replica{}
	names := make([]string, 0, len(x.b.Cfg))
	for n := range x.b.Cfg {
		names = append(names, n)
	}
	sort.Strings(names)
	for _, n := range names {
		x.reps[n] = x.w.newReplica(n, x.b.Cfg[n], scratch)
	}
	if x.b.Matrix {
		for _, id := range x.w.names {
			for _, m := range []string{"validating", "partial"} {
				for _, s := range []string{"anystore", "inmemory"} {
					x.matrix = append(x.matrix, x.w.newReplica("m-"+id+"-"+m[:1]+s[:1], replicaCfg{Mode: m, Storage: s, Ident: id}, scratch))
				}
			}
		}
	}
}

func (x *runner) close() {
	for _, r := range x.reps {
		r.close()
	}
	for _, r := range x.matrix {
		r.close()
	}
}

func (x *runner) run() {
	for i := range x.b.Steps {
		x.stepNo = i
		if x.stop {
			return
		}
		x.doStep(&x.b.Steps[i])
		x.rep.AddSteps(1)
	}
}

func (x *runner) compareSpec(exp *specState, got proj) string {
	if exp == nil {
		return ""
	}
	if exp.Head != got.Head {
		return fmt.Sprintf("head %d vs %d", exp.Head, got.Head)
	}
	for acc, st := range exp.Status {
		rs, has := got.Status[acc]
		if st == "absent" {
			if has {
				return fmt.Sprintf("account %s: spec absent, real %s/%s", acc, rs, got.Perm[acc])
			}
			continue
		}
		if !has || rs != st || got.Perm[acc] != exp.Perm[acc] {
			return fmt.Sprintf("account %s: spec %s/%s, real %s/%s", acc, st, exp.Perm[acc], rs, got.Perm[acc])
		}
	}
	for acc := range got.Status {
		if _, ok := exp.Status[acc]; !ok {
			return "account " + acc + " unknown to the spec"
		}
	}
	ei := append([]invProj{}, exp.Invites...)
	sort.Slice(ei, func(i, j int) bool { return ei[i].Id < ei[j].Id })
	if fmt.Sprint(ei) != fmt.Sprint(got.Invites) {
		return fmt.Sprintf("invites %v vs %v", ei, got.Invites)
	}
	er := append([]reqProj{}, exp.Reqs...)
	sort.Slice(er, func(i, j int) bool { return er[i].Id < er[j].Id })
	if fmt.Sprint(er) != fmt.Sprint(got.Reqs) {
		return fmt.Sprintf("requests %v vs %v", er, got.Reqs)
	}
	ek := append([]int{}, exp.Keys...)
	sort.Ints(ek)
	if fmt.Sprint(ek) != fmt.Sprint(got.Keys) {
		return fmt.Sprintf("key generations %v vs %v", ek, got.Keys)
	}
	if len(ek) > 0 && exp.Keys[len(exp.Keys)-1] != got.CurKey {
		return fmt.Sprintf("current key %d vs %d", exp.Keys[len(exp.Keys)-1], got.CurKey)
	}
	return ""
}

func (x *runner) doStep(s *step) {
	w := x.w
	switch s.Act {
	case "Accept":
		raw, keys, err := w.buildRaw(s.A, s.Cs)
		if err != nil {
			if x.free {
				x.rep.Case("refused-by-builder/" + s.Cs[0].K)
				x.trace.refused(x, s.A, s.Cs)
				return
			}
			x.drift("the client builder of %s refuses %v which the spec accepts: %v", s.A, s.Cs, err)
			return
		}
		raw = w.reencode(raw, s.A, s.Enc)
		rec, err := w.accept(raw, keys, s.Cs)
		if err != nil {
			if x.free {
				x.rep.Case("refused-by-acceptor/" + s.Cs[0].K)
				x.trace.refused(x, s.A, s.Cs)
				return
			}
			x.drift("the acceptor refuses %v by %s which the spec accepts: %v", s.Cs, s.A, err)
			return
		}
		kinds := make([]string, len(s.Cs))
		for i, c := range s.Cs {
			kinds[i] = c.K
		}
		x.rep.Case("accept/" + strings.Join(kinds, "+"))
		if s.Enc != "" && s.Enc != "canonical" {
			x.rep.Case("accept-encoding/" + s.Enc + "/" + kinds[0])
		}
		if d := x.compareSpec(s.Exp, w.refProj[len(w.log)-1]); d != "" {
			x.drift("state after accepting %v by %s: %s", s.Cs, s.A, d)
		}
		x.trace.accept(x, s, rec)
		x.followMatrix(rec)
	case "AddOne":
		r := x.reps[s.R]
		if r.applied() >= len(w.log) {
			x.drift("AddOne on %s which is at the log head", s.R)
			return
		}
		err := r.acl.AddRawRecord(w.log[r.applied()])
		r.path = "add"
		if err != nil {
			x.violate("accepted-record-refused/add/"+r.tag(), "replica %s (%s, %s) refused accepted record %d: %v", r.name, r.cfg, w.role(r.cfg.Ident, r.applied()), r.applied()+1, err)
			x.stop = true
			return
		}
		x.after(r, s)
	case "AddBatch":
		r := x.reps[s.R]
		err := r.acl.AddRawRecords(w.log[s.I-1 : s.J])
		r.path = "batch"
		if err != nil {
			x.violate("accepted-record-refused/batch/"+r.tag(), "replica %s (%s) at %d refused AddRawRecords(log[%d..%d]): %v", r.name, r.cfg, r.applied(), s.I, s.J, err)
			x.stop = true
			return
		}
		x.after(r, s)
	case "Restart":
		r := x.reps[s.R]
		before := r.observe()
		l := x.checkRebuilt(r, x.stepNo%2 == 0)
		if l == nil {
			x.stop = true
			return
		}
		r.acl = l
		r.path = "restart"
		if d := before.diff(r.observe()); d != "" {
			x.violate("restart-changes/"+r.tag()+"/"+d, "replica %s (%s): %s differs after rebuilding from storage", r.name, r.cfg, d)
		}
		x.after(r, s)
	case "MigratedRestart":
		x.migrated(x.reps[s.R], s)
	case "Bootstrap":
		r, p := x.reps[s.R], x.reps[s.P]
		recs, err := p.acl.RecordsAfter(ctx, "")
		if err != nil {
			x.violate("records-after-error/"+p.tag(), "replica %s (%s): RecordsAfter(\"\") failed: %v", p.name, p.cfg, err)
			x.stop = true
			return
		}
		if _, ok := x.authentic(p, recs, "bootstrap"); !ok {
			x.stop = true
			return
		}
		if len(recs) != p.applied() {
			x.violate("whole-log-incomplete/"+p.cfg.Storage, "replica %s (%s) holds %d records but RecordsAfter(\"\") serves %d", p.name, p.cfg, p.applied(), len(recs))
			x.stop = true
			return
		}
		st, err := list.NewInMemoryStorage(recs[0].Id, recs)
		mustNoErr(err, "in-memory storage")
		l, err := list.BuildAclListWithIdentity(w.keys[r.cfg.Ident], st, w.verifier(r.cfg.Mode))
		if err != nil {
			x.violate("bootstrap-fails/"+r.cfg.Mode, "replica %s (%s) cannot be built from the %d records served by %s (%s): %v", r.name, r.cfg, len(recs), p.name, p.cfg, err)
			x.stop = true
			return
		}
		r.st, r.acl, r.path = st, l, "bootstrap"
		x.after(r, s)
	case "CatchUp":
		r, p := x.reps[s.R], x.reps[s.P]
		where := "after-nonroot"
		if s.After == 1 {
			where = "after-root"
		}
		if s.After < 1 || s.After > r.applied() || s.After > p.applied() {
			x.drift("CatchUp after record %d is not enabled: %s holds %d, %s holds %d", s.After, r.name, r.applied(), p.name, p.applied())
			return
		}
		x.rep.Case("catchup-step/" + p.tag() + "/" + where)
		served, err := p.acl.RecordsAfter(ctx, w.realId(s.After))
		if err != nil {
			x.violate("records-after-error/"+p.tag(), "replica %s (%s): RecordsAfter(record %d) failed: %v", p.name, p.cfg, s.After, err)
			x.stop = true
			return
		}
		ids, ok := x.authentic(p, served, "catch-up")
		if !ok {
			x.stop = true
			return
		}
		before, target := r.applied(), p.applied()
		err = r.acl.AddRawRecords(served)
		r.path = "catchup"
		if err != nil {
			x.violate("catchup-fails/"+p.cfg.Storage+"/"+where, "replica %s (%s) at %d refused the records %v served by %s (%s) after record %d: %v", r.name, r.cfg, before, ids, p.name, p.cfg, s.After, err)
			x.stop = true
			return
		}
		if r.applied() < target {
			x.violate("catchup-incomplete/"+p.cfg.Storage+"/"+where, "replica %s at record %d asked %s (%s, at %d) for RecordsAfter(record %d): served %v, requester ends at %d",
				r.name, before, p.name, p.cfg, target, s.After, ids, r.applied())
			x.checkReplica(r)
			x.stop = true // the model continues from a caught-up replica
			return
		}
		// the contract of RecordsAfter: a run of the server's records that starts at or before the
		// named record (anything later would have failed above)
		if len(ids) > 0 && ids[0] > s.After {
			x.rep.DriftNote("%s step %d: %s (%s) served %v after record %d, the spec expects the run to start at or before it", x.b.Name, x.stepNo, p.name, p.cfg, ids, s.After)
		}
		s.Start = 0
		if len(ids) > 0 {
			s.Start = ids[0]
		}
		x.after(r, s)
	case "Announce":
		r, p := x.reps[s.R], x.reps[s.P]
		if s.I < 1 || s.I > p.applied()+1 {
			x.drift("Announce of records %d.. is not enabled: %s holds %d", s.I, p.name, p.applied())
			return
		}
		before, target := r.applied(), p.applied()
		shape := "connected"
		switch {
		case s.I == target+1:
			shape = "bare-head"
		case s.I > before+1:
			shape = "gap"
		}
		x.rep.Case("announce/" + shape + "/" + p.tag() + "->" + r.tag())
		synced, served, err := x.announce(p, r, s.I)
		if err != nil {
			if errors.Is(err, errServedAltered) {
				x.stop = true
				return
			}
			x.violate("announce-fails/"+shape+"/"+p.cfg.Storage, "head update with records %d..%d from %s (%s) to %s (%s, at %d): %v", s.I, target, p.name, p.cfg, r.name, r.cfg, before, err)
			x.stop = true
			return
		}
		if r.applied() < target {
			x.violate("announce-incomplete/"+shape+"/"+p.cfg.Storage, "head update with records %d..%d from %s (%s, at %d) to %s (at %d): full sync %v served %v, the receiver ends at %d",
				s.I, target, p.name, p.cfg, target, r.name, before, synced, served, r.applied())
			x.checkReplica(r)
			x.stop = true
			return
		}
		s.Start = 0
		if synced && len(served) > 0 {
			s.Start = served[0]
			if served[0] > before {
				x.rep.DriftNote("%s step %d: full sync served %v to a requester at %d, the spec expects the run to start at or before it", x.b.Name, x.stepNo, served, before)
			}
		}
		x.checkReplica(p)
		x.after(r, s)
	case "Tamper":
		x.tamper(x.reps[s.R], s)
	case "AddBatchTail":
		x.batchTail(x.reps[s.R], s)
	case "BuildTampered":
		x.buildTampered(x.reps[s.R], s)
	default:
		panic("unknown step " + s.Act)
	}
}

// after a step that changed replica r: property predicates, the spec's prediction, pairwise agreement
func (x *runner) after(r *replica, s *step) {
	x.rep.Case("step/" + s.Act + "/" + r.tag())
	if !x.checkReplica(r) {
		x.stop = true
		return
	}
	if s.Applied != 0 && r.applied() != s.Applied {
		x.drift("%s: replica %s holds %d records, the spec predicts %d", s.Act, r.name, r.applied(), s.Applied)
	}
	x.pairwise()
	x.trace.replicaStep(x, s, r)
}

// ReplicasAgree, directly: replicas holding the same records have the same projection
func (x *runner) pairwise() {
	all := make([]*replica, 0, len(x.reps)+len(x.matrix))
	for _, r := range x.reps {
		all = append(all, r)
	}
	all = append(all, x.matrix...)
	byLen := map[int]*replica{}
	projs := map[*replica]string{}
	for _, r := range all {
		projs[r] = x.w.project(r.acl).String()
	}
	sort.Slice(all, func(i, j int) bool { return all[i].name < all[j].name })
	for _, r := range all {
		k := r.applied()
		if o, ok := byLen[k]; ok {
			if projs[o] != projs[r] {
				x.violate("replicas-disagree/"+o.tag()+"-vs-"+r.tag(), "replicas %s (%s, after %s) and %s (%s, after %s) both hold %d records: %s vs %s", o.name, o.cfg, o.path, r.name, r.cfg, r.path, k, projs[o], projs[r])
			}
		} else {
			byLen[k] = r
		}
	}
}

// followMatrix: every observer of the identity x mode x storage matrix adds the accepted record;
// then each is compared with the reference, with a list rebuilt from its storage and with lists
// caught up from it via RecordsAfter (from the root and from the middle of the log)
func (x *runner) followMatrix(rec *consensusproto.RawRecordWithId) {
	k := len(x.w.log)
	for _, r := range x.matrix {
		err := r.acl.AddRawRecord(rec)
		r.path = "add"
		if err != nil {
			x.violate("accepted-record-refused/add/"+r.tag(), "observer %s (%s, %s) refused accepted record %d: %v", r.name, r.cfg, x.w.role(r.cfg.Ident, k-1), k, err)
			x.stop = true
			continue
		}
		if !x.checkReplica(r) {
			continue
		}
		x.checkRebuilt(r, false)
		x.checkCatchUp(r, 1)
		if k > 2 {
			x.checkCatchUp(r, 1+(k+x.stepNo)%(k-1))
		}
	}
	if len(x.matrix) > 0 {
		x.pairwise()
	}
}

// MigratedRestart: a copy of r's records in a database whose order index has two entries exchanged
func (x *runner) migrated(r *replica, s *step) {
	k := r.applied()
	x.rep.Case("migrated/" + r.cfg.Mode)
	dir := filepath.Join(x.scratch, fmt.Sprintf("mig-%d", replicaSeq.Add(1)))
	db, st, err := x.w.newMigratedStore(dir, x.w.log[:k], s.I, s.J)
	mustNoErr(err, "migrated storage")
	defer func() { _ = db.Close(); _ = os.RemoveAll(dir) }()
	l, err := list.BuildAclListWithIdentity(x.w.keys[r.cfg.Ident], st, x.w.verifier(r.cfg.Mode))
	if err != nil {
		x.violate("migrated-rebuild-fails/"+r.cfg.Mode, "a list cannot be built from %d records whose PrevId chain is intact but whose orders %d and %d are exchanged: %v", k, s.I, s.J, err)
		return
	}
	recs := l.Records()
	for i := range recs {
		if recs[i].Id != x.w.log[i].Id {
			x.violate("migrated-rebuild-order/"+r.cfg.Mode, "list built from a database with orders %d and %d exchanged has record %s at position %d", s.I, s.J, recs[i].Id, i+1)
			return
		}
	}
	if got, want := x.w.project(l).String(), x.w.refProj[k-1].String(); got != want || len(recs) != k {
		x.violate("migrated-rebuild-state/"+r.cfg.Mode, "list built from a database with orders %d and %d exchanged: %s, reference %s", s.I, s.J, got, want)
		return
	}
	x.trace.migrated(x, s, r)
}

// ---------------------------------------------------------------------------------------------

type variant struct {
	name string
	rec  *consensusproto.RawRecordWithId
}

func errClass(err error) string {
	switch {
	case err == nil:
		return "ok"
	case errors.Is(err, list.ErrRecordAlreadyExists):
		return "exists"
	case errors.Is(err, list.ErrInvalidSignature):
		return "signature"
	case errors.Is(err, list.ErrIncorrectCID):
		return "cid"
	case errors.Is(err, list.ErrIncorrectRecordSequence):
		return "sequence"
	case strings.Contains(err.Error(), "acceptor"):
		return "acceptor"
	}
	return "content"
}

func flip(b []byte, i int, mask byte) []byte {
	c := append([]byte(nil), b...)
	c[i] ^= mask
	return c
}

// variants renders one Tamper step of the model into concrete records made from real bytes
func (x *runner) variants(r *replica, s *step) ([]variant, error) {
	return x.variantsAt(r, s, r.applied())
}

// variantsAt: the same for a list that holds log[1..at] (the tail of a batch that ends at record at)
func (x *runner) variantsAt(r *replica, s *step, at int) ([]variant, error) {
	w := x.w
	var out []variant
	next := func() *consensusproto.RawRecordWithId { return w.log[at] }
	other := func() string {
		if s.Other == 0 {
			return w.unknownId(x.stepNo)
		}
		return w.realId(s.Other)
	}
	switch s.Kind {
	case "byte":
		base := next()
		n := len(base.Payload)
		var pos []int
		if vfutil.Thorough() || n <= 64 {
			for i := 0; i < n; i++ {
				pos = append(pos, i)
			}
		} else {
			for i := 0; i < 24; i++ {
				pos = append(pos, (i*n/24+x.stepNo*7)%n)
			}
			pos = append(pos, 0, 1, n-1)
		}
		for _, i := range pos {
			out = append(out, variant{fmt.Sprintf("flip@%d", i), &consensusproto.RawRecordWithId{Id: base.Id, Payload: flip(base.Payload, i, 1<<(uint(i)%8))}})
		}
		out = append(out, variant{"truncated", &consensusproto.RawRecordWithId{Id: base.Id, Payload: base.Payload[:n-1]}})
		out = append(out, variant{"extended", &consensusproto.RawRecordWithId{Id: base.Id, Payload: append(append([]byte(nil), base.Payload...), 0)}})
	case "id":
		base := next()
		alt, _ := cidutil.NewCidFromBytes(append([]byte("x"), base.Payload...))
		out = append(out, variant{"other-cid", &consensusproto.RawRecordWithId{Id: alt, Payload: base.Payload}})
		out = append(out, variant{"unknown-cid", &consensusproto.RawRecordWithId{Id: w.unknownId(3), Payload: base.Payload}})
		out = append(out, variant{"not-a-cid", &consensusproto.RawRecordWithId{Id: base.Id + "x", Payload: base.Payload}})
		// other spellings of the same digest: the id is a string, only the canonical one names the record
		for _, al := range idAliases(base.Id) {
			out = append(out, variant{"alias-" + al.name, &consensusproto.RawRecordWithId{Id: al.id, Payload: base.Payload}})
		}
		if at+1 < len(w.log) {
			out = append(out, variant{"later-records-id", &consensusproto.RawRecordWithId{Id: w.log[at+1].Id, Payload: base.Payload}})
		}
	case "prevId":
		raw := decodeRaw(next())
		rec := decodeRecord(raw)
		rec.PrevId = other()
		p, err := rec.MarshalVT()
		mustNoErr(err, "marshal record")
		raw.Payload = p
		out = append(out, variant{"stale-signatures", wrap(raw)})
	case "authorSig":
		raw := decodeRaw(next())
		raw.Signature = flip(raw.Signature, len(raw.Signature)/2, 4)
		out = append(out, variant{"bit-flipped", wrap(raw)})
		raw2 := decodeRaw(next())
		sig, err := w.keys["n"].SignKey.Sign(raw2.Payload)
		mustNoErr(err, "sign")
		raw2.Signature = sig
		out = append(out, variant{"signed-by-another-key", wrap(raw2)})
		raw3 := decodeRaw(next())
		raw3.Signature = nil
		out = append(out, variant{"missing", wrap(raw3)})
		if at >= 2 { // a genuine signature of another accepted record
			raw4 := decodeRaw(next())
			raw4.Signature = decodeRaw(w.log[at-1]).Signature
			out = append(out, variant{"transplanted-from-accepted-record", wrap(raw4)})
		}
	case "acceptorSig":
		raw := decodeRaw(next())
		raw.AcceptorSignature = flip(raw.AcceptorSignature, 3, 1)
		out = append(out, variant{"bit-flipped", wrap(raw)})
		raw2 := decodeRaw(next())
		k := w.keys["n"].SignKey
		raw2.AcceptorIdentity, _ = k.GetPublic().Marshall()
		raw2.AcceptorSignature, _ = k.Sign(raw2.Payload)
		out = append(out, variant{"signed-by-another-key", wrap(raw2)})
		raw3 := decodeRaw(next())
		raw3.AcceptorIdentity, raw3.AcceptorSignature = nil, nil
		out = append(out, variant{"missing", wrap(raw3)})
		raw4 := decodeRaw(next())
		author := decodeRecord(raw4)
		raw4.AcceptorIdentity = author.Identity
		raw4.AcceptorSignature = raw4.Signature
		out = append(out, variant{"author-as-acceptor", wrap(raw4)})
		if at >= 2 { // the network key's genuine signature over another accepted record, which this
			// list's verifier has already checked
			donor := decodeRaw(w.log[at-1])
			raw5 := decodeRaw(next())
			raw5.AcceptorIdentity, raw5.AcceptorSignature = donor.AcceptorIdentity, donor.AcceptorSignature
			out = append(out, variant{"transplanted-from-accepted-record", wrap(raw5)})
		}
	case "nonHeadPrev":
		raw := decodeRaw(next())
		rec := decodeRecord(raw)
		rec.PrevId = other()
		author, ok := w.nameOfIdentity(rec.Identity)
		if !ok {
			return nil, fmt.Errorf("author of record %d unknown", at+1)
		}
		out = append(out, variant{"re-signed", w.sign(signedBy(rec, w.keys[author].SignKey))})
		if at >= 1 { // the head named by another spelling of its id
			for _, al := range idAliases(w.log[at-1].Id)[:1] {
				rec2 := decodeRecord(decodeRaw(next()))
				rec2.PrevId = al.id
				out = append(out, variant{"head-alias-" + al.name, w.sign(signedBy(rec2, w.keys[author].SignKey))})
			}
		}
	case "gap", "dup":
		out = append(out, variant{"accepted-record", w.log[s.Other-1]})
	case "unaccepted":
		raw, err := w.badRecord(s.A, s.Cs, at)
		if err != nil {
			return nil, err
		}
		if !w.refusedAt(raw, at) {
			return nil, fmt.Errorf("the acceptor accepts %v by %s", s.Cs, s.A)
		}
		out = append(out, variant{"not-signed-by-acceptor", wrap(raw)})
		if at >= 2 { // the same record dressed with the acceptor signature of another accepted record
			donor := decodeRaw(w.log[at-1])
			dressed := &consensusproto.RawRecord{Payload: raw.Payload, Signature: raw.Signature,
				AcceptorIdentity: donor.AcceptorIdentity, AcceptorSignature: donor.AcceptorSignature, AcceptorTimestamp: donor.AcceptorTimestamp}
			out = append(out, variant{"acceptor-signature-transplanted", wrap(dressed)})
		}
	default:
		return nil, fmt.Errorf("unknown tamper kind %s", s.Kind)
	}
	return out, nil
}

func (w *world) nameOfIdentity(protoIdentity []byte) (string, bool) {
	pk, err := crypto.UnmarshalEd25519PublicKeyProto(protoIdentity)
	if err != nil {
		return "", false
	}
	n, ok := w.nameOf[string(pk.Storage())]
	return n, ok
}

func (x *runner) tamper(r *replica, s *step) {
	vs, err := x.variants(r, s)
	if err != nil {
		if x.free {
			return // the random driver guessed a first content its author cannot issue
		}
		x.drift("tamper %s cannot be rendered: %v", s.Kind, err)
		return
	}
	for _, v := range vs {
		x.rep.Case("tamper/" + s.Kind + "/" + strings.SplitN(v.name, "@", 2)[0] + "/" + r.tag())
		before := r.observe()
		err := r.acl.AddRawRecord(v.rec)
		after := r.observe()
		vn := strings.SplitN(v.name, "@", 2)[0]
		if err == nil {
			x.violate("refusable-record-accepted/"+s.Kind+"/"+vn+"/"+r.cfg.Mode, "replica %s (%s) at %d accepted a record it must refuse (%s, %s); head %s -> %s", r.name, r.cfg, before.Records, s.Kind, v.name, before.Head, after.Head)
			x.stop = true
			return
		}
		if d := before.diff(after); d != "" {
			x.violate("refused-record-left-traces/"+s.Kind+"/"+r.tag()+"/"+d, "replica %s (%s) refused a record (%s, %s: %v) but its %s changed: before %+v after %+v", r.name, r.cfg, s.Kind, v.name, err, d, before, after)
			x.stop = true
			return
		}
		if s.Kind != "byte" && s.Res != "" && errClass(err) != s.Res {
			x.rep.DriftNote("%s step %d: %s/%s on %s refused as %s (%v), the spec predicts %s", x.b.Name, x.stepNo, s.Kind, v.name, r.cfg, errClass(err), err, s.Res)
		}
		// the same record inside AddRawRecords
		if err2 := r.acl.AddRawRecords([]*consensusproto.RawRecordWithId{v.rec}); err2 == nil && s.Kind != "dup" {
			x.violate("refusable-record-accepted/"+s.Kind+"/"+vn+"/"+r.cfg.Mode, "replica %s (%s): AddRawRecords accepted a record AddRawRecord refused (%s, %s)", r.name, r.cfg, s.Kind, v.name)
			x.stop = true
			return
		}
		if d := before.diff(r.observe()); d != "" {
			x.violate("refused-record-left-traces/"+s.Kind+"/"+r.tag()+"/"+d, "replica %s (%s): AddRawRecords of a refused record (%s, %s) changed its %s", r.name, r.cfg, s.Kind, v.name, d)
			x.stop = true
			return
		}
	}
	x.trace.tamper(x, s, r)
}

// AddBatchTail: accepted records log[i..j] (at least one new) followed by a refusable record made
// for the state after record j, handed to AddRawRecords. The accepted records must be there
// afterwards and the tail must have left nothing: the list is compared with the one-at-a-time
// reference at prefix j and with a rebuild from its own storage. Every rendering of the tail is
// tried on a scratch copy of the replica (same identity and mode, in-memory storage); one of them
// then goes to the replica itself through the caller the behaviour names (direct, the sync
// handler's head update, the sync handler's full-sync response).
func (x *runner) batchTail(r *replica, s *step) {
	w := x.w
	if s.I < 1 || s.I > r.applied()+1 || s.J < r.applied()+1 || s.J > len(w.log) {
		x.drift("AddBatchTail(%d..%d) is not enabled: %s holds %d of %d", s.I, s.J, r.name, r.applied(), len(w.log))
		return
	}
	at := s.J
	vs, err := x.variantsAt(r, s, at)
	if err != nil {
		if x.free {
			return
		}
		x.drift("batch tail %s cannot be rendered: %v", s.Kind, err)
		return
	}
	if len(vs) > 5 { // byte flips: a sample; the single-record Tamper step sweeps them
		keep := vs[:0:0]
		for i := 0; i < 5; i++ {
			keep = append(keep, vs[(x.stepNo+i*len(vs)/5)%len(vs)])
		}
		vs = keep
	}
	via := s.Via
	if via == "" {
		via = "direct"
	}
	batchWith := func(v variant) []*consensusproto.RawRecordWithId {
		return append(cloneRecs(w.log[s.I-1:s.J]), &consensusproto.RawRecordWithId{Id: v.rec.Id, Payload: append([]byte(nil), v.rec.Payload...)})
	}
	// judge: the list after the call against the reference at prefix at
	judge := func(l list.AclList, v variant, where string) bool {
		vn := strings.SplitN(v.name, "@", 2)[0]
		n := len(l.Records())
		if n > at {
			x.violate("refusable-record-accepted/"+s.Kind+"/"+vn+"/batch-tail/"+r.cfg.Mode, "%s of %s (%s): AddRawRecords(log[%d..%d] + refusable record (%s, %s)) left %d records, head %s", where, r.name, r.cfg, s.I, s.J, s.Kind, v.name, n, l.Head().Id)
			return false
		}
		if n < at {
			x.rep.DriftNote("%s step %d: %s kept %d of the %d accepted records in front of a refused one (%s, %s)", x.b.Name, x.stepNo, where, n, at, s.Kind, v.name)
			return false
		}
		if got, want := w.project(l).String(), w.refProj[at-1].String(); got != want {
			x.violate("refused-record-left-traces/"+s.Kind+"/batch-tail/"+r.cfg.Mode+"/state", "%s of %s (%s) after AddRawRecords(log[%d..%d] + refused record (%s, %s) by %s %v): state %s, one-at-a-time reference at record %d %s",
				where, r.name, r.cfg, s.I, s.J, s.Kind, v.name, s.A, s.Cs, got, at, want)
			return false
		}
		if got, want := private(l, w).String(), w.refPriv[r.cfg.Ident][at-1].String(); got != want {
			x.violate("refused-record-left-traces/"+s.Kind+"/batch-tail/"+r.cfg.Mode+"/keys", "%s of %s (%s) after a batch with a refused tail (%s, %s): key view %s, reference %s", where, r.name, r.cfg, s.Kind, v.name, got, want)
			return false
		}
		return true
	}
	for _, v := range vs {
		x.rep.Case("batch-tail/" + s.Kind + "/" + strings.SplitN(v.name, "@", 2)[0] + "/" + r.cfg.Mode)
		scratch := w.freshList(r.cfg.Ident, r.cfg.Mode, w.log[:r.applied()])
		err := scratch.AddRawRecords(batchWith(v))
		if err == nil && len(scratch.Records()) <= at {
			x.violate("refused-tail-not-reported/"+s.Kind+"/"+r.cfg.Mode, "AddRawRecords(log[%d..%d] + refusable record (%s, %s)) returned no error", s.I, s.J, s.Kind, v.name)
		}
		if !judge(scratch, v, "scratch copy") {
			x.stop = true // the replica still takes its step below so that the recorded trace shows it
			break
		}
	}
	// the replica itself
	v := vs[x.stepNo%len(vs)]
	x.rep.Case("batch-tail-via/" + via + "/" + s.Kind + "/" + r.tag())
	recs := batchWith(v)
	switch via {
	case "direct":
		_ = r.acl.AddRawRecords(recs)
	case "headUpdate", "response":
		if err := x.hostileBatch(r, recs, via); err != nil {
			panic("harness: hostile batch: " + err.Error())
		}
	default:
		panic("harness: unknown via " + via)
	}
	r.path = "batch-tail"
	if !judge(r.acl, v, "replica") || x.stop {
		x.checkReplica(r)
		x.trace.replicaStep(x, s, r)
		x.stop = true
		return
	}
	if x.checkRebuilt(r, false) == nil {
		x.stop = true
		return
	}
	x.after(r, s)
}

var chainKinds = map[string]bool{"byte": true, "id": true, "prevId": true, "authorSig": true, "acceptorSig": true, "nonHeadPrev": true}

// BuildTampered: the records log[1..k-1], a refusable record in place k and (for the kinds made from
// record k) the genuine records k+1..m reach a list through the BUILD entry points instead of
// AddRawRecord: NewInMemoryStorage(records) + BuildAclListWithIdentity (what the joining client,
// the acl waiter and the node-side acl object do with records served by the network) and, for
// replicas on any-store, a database whose rows hold those bytes. The build must fail, or at least
// yield a list that stops before the refusable record.
func (x *runner) buildTampered(r *replica, s *step) {
	w := x.w
	at := s.K - 1
	if s.K < 1 || s.K > len(w.log)+1 || (chainKinds[s.Kind] && (s.M < s.K || s.M > len(w.log))) {
		x.drift("BuildTampered(k=%d, m=%d) is not enabled with %d records", s.K, s.M, len(w.log))
		return
	}
	vs, err := x.variantsAt(r, s, at)
	if err != nil {
		if x.free {
			return
		}
		x.drift("refusable record %s for place %d cannot be rendered: %v", s.Kind, s.K, err)
		return
	}
	if len(vs) > 6 {
		keep := vs[:0:0]
		for i := 0; i < 6; i++ {
			keep = append(keep, vs[(x.stepNo+i*len(vs)/6)%len(vs)])
		}
		vs = keep
	}
	judge := func(l list.AclList, err error, v variant, form string) {
		if err != nil {
			return
		}
		vn := strings.SplitN(v.name, "@", 2)[0]
		if n := len(l.Records()); n >= s.K {
			x.violate("refusable-record-accepted/"+s.Kind+"/"+vn+"/build-"+form+"/"+r.cfg.Mode,
				"a list (%s, %s) was built from %s records that hold a refusable record (%s, %s) in place %d of %d: %d records, head %s",
				r.cfg.Mode, r.cfg.Ident, form, s.Kind, v.name, s.K, n, n, l.Head().Id)
			x.stop = true
		}
	}
	for _, v := range vs {
		recs := cloneRecs(w.log[:at])
		recs = append(recs, &consensusproto.RawRecordWithId{Id: v.rec.Id, Payload: append([]byte(nil), v.rec.Payload...)})
		if chainKinds[s.Kind] && s.M > s.K {
			recs = append(recs, cloneRecs(w.log[s.K:s.M])...)
		}
		seen := map[string]bool{}
		for i, rc := range recs { // a transplanted id may name a record of the continuation: stop there
			if seen[rc.Id] {
				recs = recs[:i]
				break
			}
			seen[rc.Id] = true
		}
		if len(recs) < s.K {
			continue
		}
		if s.K == 1 && recs[0].Id != w.log[0].Id {
			continue // another root id is another list, not a refusable record of this one
		}
		x.rep.Case("build-tampered/served/" + s.Kind + "/" + strings.SplitN(v.name, "@", 2)[0] + "/" + r.cfg.Mode)
		st, err := list.NewInMemoryStorage(recs[0].Id, cloneRecs(recs))
		mustNoErr(err, "in-memory storage")
		l, err := list.BuildAclListWithIdentity(w.keys[r.cfg.Ident], st, w.verifier(r.cfg.Mode))
		judge(l, err, v, "served")
		if r.cfg.Storage == "anystore" && !x.stop {
			x.rep.Case("build-tampered/stored/" + s.Kind + "/" + r.cfg.Mode)
			dir := filepath.Join(x.scratch, fmt.Sprintf("tam-%d", replicaSeq.Add(1)))
			db, ast, err := w.newAnyStore(dir, recs, nil)
			mustNoErr(err, "tampered any-store storage")
			l, err := list.BuildAclListWithIdentity(w.keys[r.cfg.Ident], ast, w.verifier(r.cfg.Mode))
			judge(l, err, v, "stored")
			_ = db.Close()
			_ = os.RemoveAll(dir)
		}
		if x.stop {
			return
		}
	}
	x.trace.buildTampered(x, s, r)
}

// ---------------------------------------------------------------------------------------------

func runBehaviour(rep *vfutil.Report, b *behaviour, scratch string, tr *traceRec) {
	x := &runner{rep: rep, b: b, trace: tr}
	defer func() {
		if p := recover(); p != nil {
			if s, ok := p.(string); ok && strings.HasPrefix(s, "harness:") {
				panic(p)
			}
			// a panic inside the code under test while it handles records
			x.rep.Violate("panic", fmt.Sprintf("behaviour %s step %d: panic: %v\n%s", b.Name, x.stepNo, p, shortStack()), x.replayObj())
		}
	}()
	x.init(scratch)
	defer x.close()
	tr.begin(x)
	x.run()
	rep.AddReplayed(1)
}

// shortStack: the frames of the panicking goroutine below the runtime, for a violation report
func shortStack() string {
	lines := strings.Split(string(debug.Stack()), "\n")
	var out []string
	for i := 0; i+1 < len(lines) && len(out) < 24; i++ {
		if strings.Contains(lines[i], "any-sync") || strings.Contains(lines[i], "verifharness") {
			out = append(out, strings.TrimSpace(lines[i]), strings.TrimSpace(lines[i+1]))
			i++
		}
	}
	return strings.Join(out, "\n")
}

func assignIdents(b *behaviour, n int) {
	idents := append([]string{"o"}, b.Accounts...)
	idents = append(idents, "n")
	names := make([]string, 0, len(b.Cfg))
	for r := range b.Cfg {
		names = append(names, r)
	}
	sort.Strings(names)
	for k, r := range names {
		c := b.Cfg[r]
		if c.Ident == "" || c.Ident == "-" {
			c.Ident = idents[(n+k*(1+n/len(idents)))%len(idents)]
		}
		b.Cfg[r] = c
	}
}

func TestReplay(t *testing.T) {
	rep := vfutil.NewReport("C03")
	defer func() { rep.Save(!t.Failed() || rep.NumViolations() > 0) }()
	scratch := vfutil.Scratch("aclchain")
	defer os.RemoveAll(scratch)
	var bs []*behaviour
	if raw, ok := vfutil.ReplayFile(); ok {
		b := &behaviour{}
		if err := json.Unmarshal(raw, b); err != nil {
			t.Fatalf("replay object: %v", err)
		}
		bs = []*behaviour{b}
	} else {
		dir := os.Getenv("VERIF_BEHAVIOURS")
		if dir == "" {
			t.Skip("VERIF_BEHAVIOURS not set")
		}
		loaded, err := vfutil.LoadJSONFiles[behaviour](dir)
		if err != nil {
			t.Fatal(err)
		}
		every := vfutil.EnvInt("VERIF_MATRIX_EVERY", 4)
		for i := range loaded {
			b := &loaded[i]
			b.Name = fmt.Sprintf("b%04d", i)
			assignIdents(b, i+int(vfutil.Seed()))
			b.Matrix = every > 0 && i%every == 0
			bs = append(bs, b)
		}
		if os.Getenv("VERIF_NO_DIRECTED") == "" {
			bs = append(bs, directedBehaviours()...)
		}
	}
	workers := vfutil.EnvInt("VERIF_WORKERS", 6)
	var wg sync.WaitGroup
	ch := make(chan *behaviour)
	for i := 0; i < workers; i++ {
		wg.Add(1)
		go func() {
			defer wg.Done()
			for b := range ch {
				runBehaviour(rep, b, scratch, nil)
			}
		}()
	}
	for _, b := range bs {
		ch <- b
	}
	close(ch)
	wg.Wait()
	if len(bs) > 0 {
		rep.Sample(bs[0])
	}
	if n := rep.NumViolations(); n > 0 {
		t.Errorf("%d violations", n)
	}
}
