package aclchain

// sync_test.go: the Announce action of AclChain.tla on the real sync handler. Two real
// syncacl.SyncAcl components (each initialised through an app.App over the replica's storage,
// its account and a message-capturing sync service) exchange the messages of
// commonspace/object/acl/syncacl: head update -> HandleHeadUpdate, full-sync request ->
// HandleStreamRequest, response -> ResponseCollector / HandleResponse. Messages travel in their
// wire form (marshalled protobuf), as they would between two peers.

import (
	"context"
	"errors"
	"fmt"

	"google.golang.org/protobuf/proto"
	"storj.io/drpc"

	"github.com/anyproto/any-sync/accountservice"
	"github.com/anyproto/any-sync/app"
	"github.com/anyproto/any-sync/commonspace/object/accountdata"
	"github.com/anyproto/any-sync/commonspace/object/acl/list"
	"github.com/anyproto/any-sync/commonspace/object/acl/syncacl"
	"github.com/anyproto/any-sync/commonspace/object/acl/syncacl/response"
	"github.com/anyproto/any-sync/commonspace/spacestorage"
	"github.com/anyproto/any-sync/commonspace/spacesyncproto"
	"github.com/anyproto/any-sync/commonspace/sync"
	"github.com/anyproto/any-sync/commonspace/sync/objectsync/objectmessages"
	"github.com/anyproto/any-sync/commonspace/sync/syncdeps"
	"github.com/anyproto/any-sync/commonspace/syncstatus"
	"github.com/anyproto/any-sync/consensus/consensusproto"
	"github.com/anyproto/any-sync/net/peer"
)

// fakeSpaceStorage serves the replica's ACL storage to syncAcl.Init; nothing else is used
type fakeSpaceStorage struct {
	spacestorage.SpaceStorage
	id  string
	acl list.Storage
}

func (f *fakeSpaceStorage) Init(a *app.App) error             { return nil }
func (f *fakeSpaceStorage) Name() string                      { return spacestorage.CName }
func (f *fakeSpaceStorage) Run(ctx context.Context) error     { return nil }
func (f *fakeSpaceStorage) Close(ctx context.Context) error   { return nil }
func (f *fakeSpaceStorage) Id() string                        { return f.id }
func (f *fakeSpaceStorage) AclStorage() (list.Storage, error) { return f.acl, nil }

type fakeAccount struct{ keys *accountdata.AccountKeys }

func (f *fakeAccount) Init(a *app.App) error             { return nil }
func (f *fakeAccount) Name() string                      { return accountservice.CName }
func (f *fakeAccount) Account() *accountdata.AccountKeys { return f.keys }

// fakeSync captures what the component sends
type fakeSync struct {
	broadcasts []drpc.Message
	queued     []syncdeps.Request
}

func (f *fakeSync) Init(a *app.App) error { return nil }
func (f *fakeSync) Name() string          { return sync.CName }
func (f *fakeSync) BroadcastMessage(ctx context.Context, msg drpc.Message) error {
	f.broadcasts = append(f.broadcasts, msg)
	return nil
}
func (f *fakeSync) HandleStreamRequest(ctx context.Context, req syncdeps.Request, stream drpc.Stream) error {
	return errors.New("not used")
}
func (f *fakeSync) HandleMessage(ctx context.Context, msg drpc.Message) error { return errors.New("not used") }
func (f *fakeSync) SendRequest(ctx context.Context, rq syncdeps.Request, collector syncdeps.ResponseCollector) error {
	return errors.New("not used")
}
func (f *fakeSync) QueueRequest(ctx context.Context, rq syncdeps.Request) error {
	f.queued = append(f.queued, rq)
	return nil
}
func (f *fakeSync) CloseReceiveQueue(id string) error { return nil }

var errServedAltered = errors.New("served record altered")

type noSizes struct{}

func (noSizes) UpdateQueueSize(size uint64, msgType int, add bool) {}

type syncNode struct {
	sa  syncacl.SyncAcl
	svc *fakeSync
	app *app.App
}

// syncNode builds the real sync-acl component over the replica's storage (which rebuilds the list)
func (r *replica) syncNode() (*syncNode, error) {
	n := &syncNode{svc: &fakeSync{}, app: new(app.App)}
	n.sa = syncacl.New(r.w.verifier(r.cfg.Mode))
	n.app.Register(&fakeSpaceStorage{id: r.w.spaceId, acl: r.st}).
		Register(&fakeAccount{keys: r.w.keys[r.cfg.Ident]}).
		Register(n.svc).
		Register(n.sa)
	if err := n.app.Start(ctx); err != nil {
		return nil, err
	}
	return n, nil
}

func peerName(r *replica) string { return "peer-" + r.name }

// wireRequest: the request as the other side receives it
func wireRequest(req syncdeps.Request, from, spaceId string) (*objectmessages.Request, error) {
	pm, err := req.Proto()
	if err != nil {
		return nil, err
	}
	b, err := proto.Marshal(pm)
	if err != nil {
		return nil, err
	}
	msg := &spacesyncproto.ObjectSyncMessage{}
	if err := proto.Unmarshal(b, msg); err != nil {
		return nil, err
	}
	return objectmessages.NewByteRequest(from, spaceId, msg.ObjectId, msg.Payload), nil
}

// announce performs Announce(p, r, i): returns the ids r was served by the full sync (nil if none
// was needed) and whether a full sync happened
func (x *runner) announce(p, r *replica, i int) (synced bool, served []int, err error) {
	w := x.w
	np, err := p.syncNode()
	if err != nil {
		return false, nil, fmt.Errorf("sync component of %s: %w", p.name, err)
	}
	nr, err := r.syncNode()
	if err != nil {
		return false, nil, fmt.Errorf("sync component of %s: %w", r.name, err)
	}
	p.acl, r.acl = np.sa, nr.sa
	p.path, r.path = "restart", "announce"
	// the head update p broadcasts for the records it added (i..head), in wire form
	added := cloneRecs(w.log[i-1 : p.applied()])
	hu, err := syncacl.NewRequestFactory(w.spaceId).CreateHeadUpdate(np.sa, added)
	if err != nil {
		return false, nil, fmt.Errorf("head update: %w", err)
	}
	hu.SetPeerId(peerName(r))
	pm, err := hu.ProtoMessage()
	if err != nil {
		return false, nil, err
	}
	b, err := proto.Marshal(pm)
	if err != nil {
		return false, nil, err
	}
	in := &spacesyncproto.ObjectSyncMessage{}
	if err := proto.Unmarshal(b, in); err != nil {
		return false, nil, err
	}
	recv := &objectmessages.HeadUpdate{}
	if err := recv.SetProtoMessage(in); err != nil {
		return false, nil, err
	}
	ctxR := peer.CtxWithPeerId(ctx, peerName(p))
	ctxP := peer.CtxWithPeerId(ctx, peerName(r))
	req, err := nr.sa.HandleHeadUpdate(ctxR, syncstatus.NewNoOpSyncStatus(), recv)
	if err != nil {
		return false, nil, fmt.Errorf("HandleHeadUpdate: %w", err)
	}
	for hops := 0; req != nil && hops < 4; hops++ {
		synced = true
		wreq, err := wireRequest(req, peerName(r), w.spaceId)
		if err != nil {
			return synced, served, err
		}
		var replies []proto.Message
		next, err := np.sa.HandleStreamRequest(ctxP, wreq, noSizes{}, func(resp proto.Message) error {
			replies = append(replies, resp)
			return nil
		})
		if err != nil && !errors.Is(err, syncacl.ErrUnknownHead) {
			return synced, served, fmt.Errorf("HandleStreamRequest: %w", err)
		}
		for _, m := range replies {
			mb, err := proto.Marshal(m)
			if err != nil {
				return synced, served, err
			}
			rm := &spacesyncproto.ObjectSyncMessage{}
			if err := proto.Unmarshal(mb, rm); err != nil {
				return synced, served, err
			}
			coll := nr.sa.ResponseCollector()
			resp := coll.NewResponse()
			rr, ok := resp.(*response.Response)
			if !ok {
				return synced, served, fmt.Errorf("unexpected response type %T", resp)
			}
			if err := rr.SetProtoMessage(rm); err != nil {
				return synced, served, err
			}
			if _, ok := x.authentic(p, rr.Records, "full-sync response"); !ok {
				return synced, served, errServedAltered
			}
			for _, rec := range rr.Records {
				served = append(served, w.modelId(rec.Id))
			}
			if err := coll.CollectResponse(ctxR, peerName(p), rm.ObjectId, resp); err != nil {
				return synced, served, fmt.Errorf("HandleResponse: %w", err)
			}
		}
		req = nil
		if next != nil {
			// p does not know r's head and asks r in turn; the chain model never gets here
			return synced, served, fmt.Errorf("server %s does not know the requester's head", p.name)
		}
	}
	return synced, served, nil
}

// hostileBatch hands recs to replica r the way a peer would: as the records of a head update
// (HandleHeadUpdate) or of a full-sync response (ResponseCollector -> HandleResponse). The errors
// the handler returns are the refusal of the tail; what matters is what the list holds afterwards.
func (x *runner) hostileBatch(r *replica, recs []*consensusproto.RawRecordWithId, via string) error {
	w := x.w
	nr, err := r.syncNode()
	if err != nil {
		return fmt.Errorf("sync component of %s: %w", r.name, err)
	}
	r.acl = nr.sa
	root := w.log[0]
	head := recs[len(recs)-1].Id
	ctxR := peer.CtxWithPeerId(ctx, "peer-hostile")
	switch via {
	case "headUpdate":
		logMsg := consensusproto.WrapHeadUpdate(&consensusproto.LogHeadUpdate{Head: head, Records: recs}, root)
		payload, err := logMsg.MarshalVT()
		if err != nil {
			return err
		}
		in := &spacesyncproto.ObjectSyncMessage{SpaceId: w.spaceId, Payload: payload, ObjectId: root.Id, ObjectType: spacesyncproto.ObjectType_Acl}
		recv := &objectmessages.HeadUpdate{}
		if err := recv.SetProtoMessage(in); err != nil {
			return err
		}
		_, _ = nr.sa.HandleHeadUpdate(ctxR, syncstatus.NewNoOpSyncStatus(), recv)
	case "response":
		coll := nr.sa.ResponseCollector()
		resp := &response.Response{SpaceId: w.spaceId, ObjectId: root.Id, Head: head, Records: recs, Root: root}
		_ = coll.CollectResponse(ctxR, "peer-hostile", root.Id, resp)
	}
	return nil
}
