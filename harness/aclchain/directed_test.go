package aclchain

// directed_test.go: two fixed histories that are replayed in every run next to the behaviours TLC
// generates. They make sure that every observer role (owner, member, removed member that joins
// again, node), every record kind and the multi-content shapes occur on the full identity x mode
// x storage matrix, with lagging replicas, batches, restarts, bootstraps and catch-ups in between.

func c(k, acc, p string, ref int, t string) content {
	if acc == "" {
		acc = "-"
	}
	if p == "" {
		p = "-"
	}
	if t == "" {
		t = "-"
	}
	return content{K: k, Acc: acc, P: p, Ref: ref, T: t}
}

func acc(a string, cs ...content) step { return step{Act: "Accept", A: a, Cs: cs} }

// accE: the identities inside the record in a non-canonical encoding
func accE(enc, a string, cs ...content) step { return step{Act: "Accept", A: a, Cs: cs, Enc: enc} }

func directedBehaviours() []*behaviour {
	b1 := &behaviour{Spec: "AclChain/directed", Name: "directed1", Accounts: []string{"a", "b"}, Matrix: true,
		Cfg: map[string]replicaCfg{
			"r1": {Mode: "validating", Storage: "anystore", Ident: "b"},
			"r2": {Mode: "partial", Storage: "inmemory", Ident: "b"},
			"r3": {Mode: "partial", Storage: "anystore", Ident: "a"},
		},
		Steps: []step{
			acc("o", c("AccountsAdd", "a", "admin", 0, "")),                        // 2
			{Act: "CatchUp", R: "r2", P: "r3", After: 1},                            // server at the root
			acc("a", c("Invite", "", "none", 0, "req")),                             // 3
			acc("b", c("RequestJoin", "", "", 3, "")),                               // 4
			{Act: "AddBatch", R: "r1", I: 1, J: 4},                                  // includes the root
			{Act: "CatchUp", R: "r2", P: "r1", After: 1},                            // requester at the root
			{Act: "Tamper", R: "r3", Kind: "gap", Other: 3, A: "o"},                 // r3 still at the root
			{Act: "CatchUp", R: "r3", P: "r2", After: 1},                            // in-memory server, requester at the root
			accE("unknownField", "a", c("RequestAccept", "b", "writer", 4, "")),     // 5
			{Act: "Tamper", R: "r1", Kind: "byte", A: "o"},
			{Act: "Tamper", R: "r2", Kind: "acceptorSig", A: "o"},
			{Act: "Tamper", R: "r3", Kind: "authorSig", A: "o"},
			{Act: "Tamper", R: "r1", Kind: "nonHeadPrev", Other: 2, A: "o"},
			{Act: "Tamper", R: "r2", Kind: "prevId", Other: 0, A: "o"},
			{Act: "AddOne", R: "r1"},
			{Act: "Restart", R: "r1"},
			{Act: "Announce", P: "r1", R: "r3", I: 5},                               // r3 at 4: the record connects
			{Act: "Announce", P: "r1", R: "r2", I: 6},                               // bare head announcement, r2 at 4: full sync
			acc("o", c("AccountRemove", "b", "", 0, ""), c("Invite", "", "none", 0, "req")), // 6: b is a removed member
			{Act: "CatchUp", R: "r2", P: "r1", After: 4},
			{Act: "Announce", P: "r2", R: "r3", I: 2},                               // everything after the root, receiver knows most
			{Act: "Restart", R: "r2"},
			{Act: "MigratedRestart", R: "r3", I: 2, J: 5},
			acc("o", c("Invite", "", "writer", 0, "any")),                           // 7
			acc("b", c("InviteJoin", "", "", 7, "")),                                // 8: the removed member joins again
			accE("typeSpelled", "o", c("ReadKeyChange", "", "", 0, "")),             // 9: members listed under another encoding
			// r1 (validating, at 5) gets records 6..9 followed by a correctly signed record on record 9 whose
			// first content (revoke of invite 7) applies and whose second names nothing
			{Act: "AddBatchTail", R: "r1", I: 6, J: 9, Kind: "unaccepted", A: "o", Via: "response",
				Cs: []content{c("InviteRevoke", "", "", 7, ""), c("RequestDecline", "", "", 0, "")}},
			{Act: "BuildTampered", R: "r2", K: 4, M: 9, Kind: "byte", A: "o"},       // served records with altered bytes in place 4
			{Act: "BuildTampered", R: "r3", K: 7, M: 9, Kind: "acceptorSig", A: "o"}, // any-store rows, partial mode
			{Act: "BuildTampered", R: "r1", K: 9, M: 9, Kind: "id", A: "o"},          // other spellings of the id
			{Act: "BuildTampered", R: "r1", K: 1, M: 5, Kind: "byte", A: "o"},        // the root
			{Act: "Bootstrap", R: "r2", P: "r1"},
			accE("unknownField", "o", c("InviteRevoke", "", "", 7, ""), c("ReadKeyChange", "", "", 0, "")), // 10
			acc("b", c("RequestRemove", "", "", 0, "")),                             // 11
			{Act: "Tamper", R: "r1", Kind: "id", A: "o"},
			{Act: "AddBatch", R: "r1", I: 4, J: 11},
			{Act: "Tamper", R: "r1", Kind: "unaccepted", A: "o", Cs: []content{c("AccountRemove", "b", "", 0, ""), c("InviteRevoke", "", "", 0, "")}},
			{Act: "Tamper", R: "r1", Kind: "unaccepted", A: "b", Cs: []content{c("Invite", "", "none", 0, "req")}},
			accE("typeSpelled", "o", c("AccountRemove", "b", "", 0, "")),            // 12
			acc("o", c("Ownership", "a", "admin", 0, "")),                           // 13: a owns the space
			acc("a", c("Options", "", "", 0, "")),                                   // 14
			{Act: "CatchUp", R: "r2", P: "r1", After: 5},
			{Act: "CatchUp", R: "r3", P: "r2", After: 5},
			{Act: "AddBatch", R: "r1", I: 12, J: 14},
			{Act: "CatchUp", R: "r3", P: "r1", After: 11},
			{Act: "Restart", R: "r3"},
			{Act: "MigratedRestart", R: "r1", I: 3, J: 14},
		}}
	b2 := &behaviour{Spec: "AclChain/directed", Name: "directed2", Accounts: []string{"a", "b"}, Matrix: true,
		Cfg: map[string]replicaCfg{
			"r1": {Mode: "partial", Storage: "inmemory", Ident: "n"},
			"r2": {Mode: "validating", Storage: "inmemory", Ident: "o"},
			"r3": {Mode: "validating", Storage: "anystore", Ident: "a"},
		},
		Steps: []step{
			acc("o", c("Invite", "", "none", 0, "req")),                             // 2
			acc("a", c("RequestJoin", "", "", 2, "")),                               // 3
			acc("b", c("RequestJoin", "", "", 2, "")),                               // 4
			{Act: "Bootstrap", R: "r1", P: "r3"},                                    // from a server at the root
			{Act: "AddBatch", R: "r2", I: 2, J: 4},
			acc("o", c("RequestAccept", "a", "admin", 3, ""), c("RequestDecline", "", "", 4, "")), // 5
			acc("b", c("RequestJoin", "", "", 2, "")),                               // 6
			acc("b", c("RequestCancel", "", "", 6, "")),                             // 7
			{Act: "CatchUp", R: "r1", P: "r2", After: 1},
			{Act: "Tamper", R: "r1", Kind: "dup", Other: 2, A: "o"},
			accE("typeSpelled", "a", c("AccountsAdd", "b", "reader", 0, "")),        // 8
			acc("o", c("PermChange", "b", "writer", 0, ""), c("PermChange", "a", "writer", 0, "")), // 9
			accE("unknownField", "o", c("PermChange", "a", "admin", 0, "")),         // 10
			acc("a", c("Invite", "", "reader", 0, "any")),                           // 11
			acc("o", c("InviteChange", "", "writer", 11, "")),                       // 12
			{Act: "AddBatchTail", R: "r3", I: 1, J: 11, Kind: "unaccepted", A: "o", Via: "headUpdate",
				Cs: []content{c("InviteRevoke", "", "", 11, ""), c("InviteRevoke", "", "", 0, "")}},
			{Act: "AddBatchTail", R: "r2", I: 5, J: 8, Kind: "unaccepted", A: "a", Via: "direct",
				Cs: []content{c("AccountRemove", "b", "", 0, ""), c("RequestDecline", "", "", 0, "")}},
			{Act: "AddBatch", R: "r3", I: 1, J: 12},
			{Act: "Tamper", R: "r3", Kind: "unaccepted", A: "a", Cs: []content{c("PermChange", "b", "reader", 0, ""), c("RequestDecline", "", "", 0, "")}},
			{Act: "Restart", R: "r3"},
			acc("a", c("AccountRemove", "b", "", 0, ""), c("PermChange", "o", "", 0, "")), // refused by the builder? no: see below
		}}
	// the last step of b2 is replaced: an admin cannot change the owner, keep the history valid
	b2.Steps[len(b2.Steps)-1] = acc("a", c("AccountRemove", "b", "", 0, ""), c("InviteRevoke", "", "", 11, "")) // 13
	b2.Steps = append(b2.Steps,
		step{Act: "Announce", P: "r3", R: "r1", I: 8},  // r1 at 4: records 8..12 do not connect -> full sync from an any-store server
		step{Act: "Announce", P: "r3", R: "r1", I: 13}, // bare head announcement to a receiver that is up to date
		step{Act: "Announce", P: "r1", R: "r2", I: 13}, // gap -> full sync from an in-memory server
		step{Act: "MigratedRestart", R: "r3", I: 2, J: 3},
		step{Act: "Restart", R: "r1"},
		step{Act: "Restart", R: "r2"},
	)
	return []*behaviour{b1, b2}
}
