package aclchain

// observe_test.go: what the harness observes of a real AclList - the projection of AclState the
// property talks about, the observer's private view of the read keys, and the storage contents -
// and the replica type (identity x mode x storage) the behaviours are replayed on.

import (
	"bytes"
	"encoding/base32"
	"math/big"
	"strings"
	"crypto/sha256"
	"encoding/hex"
	"encoding/json"
	"fmt"
	"os"
	"path/filepath"
	"sort"
	"sync/atomic"

	anystore "github.com/anyproto/any-store"

	"github.com/anyproto/any-sync/commonspace/headsync/headstorage"
	"github.com/anyproto/any-sync/commonspace/object/acl/aclrecordproto"
	"github.com/anyproto/any-sync/commonspace/object/acl/list"
	"github.com/anyproto/any-sync/consensus/consensusproto"
)

type invProj struct {
	Id int    `json:"id"`
	T  string `json:"t"`
	P  string `json:"p"`
}
type reqProj struct {
	Id   int    `json:"id"`
	Acc  string `json:"acc"`
	Kind string `json:"kind"`
}

// proj is the observable projection (same shape as the model's abstract state)
type proj struct {
	Head    int               `json:"head"`
	Perm    map[string]string `json:"perm"`
	Status  map[string]string `json:"status"`
	Invites []invProj         `json:"invites"`
	Reqs    []reqProj         `json:"reqs"`
	Keys    []int             `json:"keys"`
	CurKey  int               `json:"curKey"`
	Owner   string            `json:"owner"`
}

func (p proj) String() string { b, _ := json.Marshal(p); return string(b) }

func statusName(s list.AclStatus) string {
	switch s {
	case list.StatusNone:
		return "none"
	case list.StatusJoining:
		return "joining"
	case list.StatusActive:
		return "active"
	case list.StatusRemoved:
		return "removed"
	case list.StatusDeclined:
		return "declined"
	case list.StatusRemoving:
		return "removing"
	case list.StatusCanceled:
		return "canceled"
	}
	return fmt.Sprintf("status%d", int(s))
}

func (w *world) modelId(realId string) int {
	if i, ok := w.idx[realId]; ok {
		return i
	}
	return -1
}

func (w *world) accName(storageKey []byte) string {
	if n, ok := w.nameOf[string(storageKey)]; ok {
		return n
	}
	return "?" + hex.EncodeToString(storageKey[:4])
}

func (w *world) project(l list.AclList) proj {
	st := l.AclState()
	p := proj{Head: w.modelId(l.Head().Id), Perm: map[string]string{}, Status: map[string]string{}, Invites: []invProj{}, Reqs: []reqProj{}, Keys: []int{}}
	if st.LastRecordId() != l.Head().Id {
		p.Head = -2 // list head and state head disagree
	}
	for _, a := range st.CurrentAccounts() {
		n := w.accName(a.PubKey.Storage())
		p.Perm[n] = permName(a.Permissions)
		p.Status[n] = statusName(a.Status)
	}
	for _, inv := range st.Invites() {
		t := "req"
		if inv.Type == aclrecordproto.AclInviteType_AnyoneCanJoin {
			t = "any"
		}
		p.Invites = append(p.Invites, invProj{Id: w.modelId(inv.Id), T: t, P: permName(inv.Permissions)})
	}
	sort.Slice(p.Invites, func(i, j int) bool { return p.Invites[i].Id < p.Invites[j].Id })
	joins, _ := st.JoinRecords(false)
	for _, r := range joins {
		p.Reqs = append(p.Reqs, reqProj{Id: w.modelId(r.RecordId), Acc: w.accName(r.RequestIdentity.Storage()), Kind: "join"})
	}
	for _, r := range st.RemoveRecords() {
		p.Reqs = append(p.Reqs, reqProj{Id: w.modelId(r.RecordId), Acc: w.accName(r.RequestIdentity.Storage()), Kind: "remove"})
	}
	sort.Slice(p.Reqs, func(i, j int) bool { return p.Reqs[i].Id < p.Reqs[j].Id })
	for id := range st.Keys() {
		p.Keys = append(p.Keys, w.modelId(id))
	}
	sort.Ints(p.Keys)
	p.CurKey = w.modelId(st.CurrentReadKeyId())
	if o, err := st.OwnerPubKey(); err == nil {
		p.Owner = w.accName(o.Storage())
	}
	return p
}

// privView: which read-key generations the observer itself can read (and which key that is).
// It depends on the identity, so it is compared only between replicas of the same identity.
type privView struct {
	Gens map[int]string `json:"gens"` // model id of the generation -> fingerprint of the read key ("" = not held)
	Meta map[int]bool   `json:"meta"` // metadata private key held
}

func (v privView) String() string { b, _ := json.Marshal(v); return string(b) }

func private(l list.AclList, w *world) privView {
	v := privView{Gens: map[int]string{}, Meta: map[int]bool{}}
	for id, k := range l.AclState().Keys() {
		fp := ""
		if k.ReadKey != nil {
			raw, err := k.ReadKey.Raw()
			if err == nil {
				h := sha256.Sum256(raw)
				fp = hex.EncodeToString(h[:6])
			} else {
				fp = "err"
			}
		}
		v.Gens[w.modelId(id)] = fp
		v.Meta[w.modelId(id)] = k.MetadataPrivKey != nil
	}
	return v
}

// ---------------------------------------------------------------------------------------------

type storRec struct {
	Id    string
	Prev  string
	Order int
	Sum   string
	Size  int
}
type storSnap struct {
	Head string
	Recs []storRec
}

func (s storSnap) String() string { b, _ := json.Marshal(s); return string(b) }

func snapStorage(st list.Storage) (storSnap, error) {
	var s storSnap
	h, err := st.Head(ctx)
	if err != nil {
		return s, err
	}
	s.Head = h
	// order 1 = the root in both storages; a record filed under an order < 1 would be missed here
	// and shows up as a length mismatch against the log
	err = st.GetAfterOrder(ctx, 1, func(_ctx contextT, r list.StorageRecord) (bool, error) {
		s.Recs = append(s.Recs, storRec{Id: r.Id, Prev: r.PrevId, Order: r.Order, Sum: sumOf(r.RawRecord), Size: r.ChangeSize})
		return true, nil
	})
	return s, err
}

// ---------------------------------------------------------------------------------------------

type replicaCfg struct {
	Mode    string `json:"mode"`
	Storage string `json:"storage"`
	Ident   string `json:"ident"`
}

func (c replicaCfg) String() string { return c.Mode + "/" + c.Storage + "/" + c.Ident }

type replica struct {
	name string
	cfg  replicaCfg
	w    *world
	dir  string
	db   anystore.DB
	st   list.Storage
	acl  list.AclList
	path string // how the current list came to be: add / batch / restart / bootstrap / catchup
}

func (w *world) newAnyStore(dir string, recs []*consensusproto.RawRecordWithId, order func(k int) int) (anystore.DB, list.Storage, error) {
	if err := os.MkdirAll(dir, 0o755); err != nil {
		return nil, nil, err
	}
	db, err := anystore.Open(ctx, filepath.Join(dir, "acl.db"), storeCfg())
	if err != nil {
		return nil, nil, err
	}
	hs, err := headstorage.New(ctx, db)
	if err != nil {
		return nil, nil, err
	}
	st, err := list.CreateStorage(ctx, recs[0], hs, db)
	if err != nil {
		return nil, nil, err
	}
	for k := 2; k <= len(recs); k++ {
		r := recs[k-1]
		ord := k
		if order != nil {
			ord = order(k)
		}
		err = st.AddAll(ctx, []list.StorageRecord{{RawRecord: r.Payload, PrevId: recs[k-2].Id, Id: r.Id, Order: ord, ChangeSize: len(r.Payload)}})
		if err != nil {
			return nil, nil, err
		}
	}
	return db, st, nil
}

// newMigratedStore: the records log[1..k] in a database as a migration could have left it: the
// PrevId chain and the head are intact, but the order values of records i and j are exchanged and
// the two records were also inserted in exchanged positions (the head is always inserted last).
func (w *world) newMigratedStore(dir string, recs []*consensusproto.RawRecordWithId, i, j int) (anystore.DB, list.Storage, error) {
	if err := os.MkdirAll(dir, 0o755); err != nil {
		return nil, nil, err
	}
	db, err := anystore.Open(ctx, filepath.Join(dir, "acl.db"), storeCfg())
	if err != nil {
		return nil, nil, err
	}
	hs, err := headstorage.New(ctx, db)
	if err != nil {
		return nil, nil, err
	}
	st, err := list.CreateStorage(ctx, recs[0], hs, db)
	if err != nil {
		return nil, nil, err
	}
	k := len(recs)
	ord := func(n int) int {
		switch n {
		case i:
			return j
		case j:
			return i
		}
		return n
	}
	seq := make([]int, 0, k)
	for n := 2; n <= k; n++ {
		seq = append(seq, n)
	}
	pi, pj := i, j
	if pj == k { // keep the head last
		pj = k - 1
	}
	if pi >= 2 && pj >= 2 && pi < pj {
		seq[pi-2], seq[pj-2] = seq[pj-2], seq[pi-2]
	}
	batch := make([]list.StorageRecord, 0, k)
	for _, n := range seq {
		r := recs[n-1]
		batch = append(batch, list.StorageRecord{RawRecord: r.Payload, PrevId: recs[n-2].Id, Id: r.Id, Order: ord(n), ChangeSize: len(r.Payload)})
	}
	if len(batch) > 0 {
		if err = st.AddAll(ctx, batch); err != nil {
			return nil, nil, err
		}
	}
	return db, st, nil
}

var replicaSeq atomic.Int64

// many small databases are open at once: one read connection each, no page-cache preallocation
func storeCfg() *anystore.Config {
	return &anystore.Config{ReadConnections: 1, SQLiteGlobalPageCachePreallocateSizeBytes: -1,
		SQLiteConnectionOptions: map[string]string{"synchronous": "off"}} // scratch databases: no fsync
}

func sumOf(b []byte) string {
	sum := sha256.Sum256(b)
	return hex.EncodeToString(sum[:8])
}

// newReplica: a replica holding only the root
func (w *world) newReplica(name string, cfg replicaCfg, scratch string) *replica {
	r := &replica{name: name, cfg: cfg, w: w, path: "new"}
	if cfg.Storage == "anystore" {
		r.dir = filepath.Join(scratch, fmt.Sprintf("rep-%d", replicaSeq.Add(1)))
		db, st, err := w.newAnyStore(r.dir, w.log[:1], nil)
		mustNoErr(err, "any-store storage")
		r.db, r.st = db, st
	} else {
		st, err := list.NewInMemoryStorage(w.log[0].Id, cloneRecs(w.log[:1]))
		mustNoErr(err, "in-memory storage")
		r.st = st
	}
	l, err := list.BuildAclListWithIdentity(w.keys[cfg.Ident], r.st, w.verifier(cfg.Mode))
	mustNoErr(err, "build replica")
	r.acl = l
	return r
}

func (r *replica) close() {
	if r.db != nil {
		_ = r.db.Close()
		r.db = nil
	}
	if r.dir != "" {
		_ = os.RemoveAll(r.dir)
	}
}

func (r *replica) applied() int { return len(r.acl.Records()) }

// rebuild: BuildAclListWithIdentity on the replica's storage. For any-store the storage object is
// re-created with NewStorage, and (reopen=true) the database file is closed and opened again.
func (r *replica) rebuild(reopen bool) (list.AclList, error) {
	if r.cfg.Storage == "anystore" {
		if reopen {
			if err := r.db.Close(); err != nil {
				return nil, fmt.Errorf("close db: %w", err)
			}
			db, err := anystore.Open(ctx, filepath.Join(r.dir, "acl.db"), storeCfg())
			if err != nil {
				return nil, fmt.Errorf("reopen db: %w", err)
			}
			r.db = db
		}
		hs, err := headstorage.New(ctx, r.db)
		if err != nil {
			return nil, err
		}
		st, err := list.NewStorage(ctx, r.w.log[0].Id, hs, r.db)
		if err != nil {
			return nil, err
		}
		l, err := list.BuildAclListWithIdentity(r.w.keys[r.cfg.Ident], st, r.w.verifier(r.cfg.Mode))
		if err != nil {
			return nil, err
		}
		r.st = st
		return l, nil
	}
	return list.BuildAclListWithIdentity(r.w.keys[r.cfg.Ident], r.st, r.w.verifier(r.cfg.Mode))
}

// full observation of a replica, used to decide "nothing changed"
type fullObs struct {
	Proj    string
	Priv    string
	Stor    string
	Records int
	Head    string
}

func (r *replica) observe() fullObs {
	s, err := snapStorage(r.st)
	mustNoErr(err, "storage snapshot")
	return fullObs{Proj: r.w.project(r.acl).String(), Priv: private(r.acl, r.w).String(), Stor: s.String(),
		Records: len(r.acl.Records()), Head: r.acl.Head().Id}
}

func (a fullObs) diff(b fullObs) string {
	switch {
	case a.Proj != b.Proj:
		return "state"
	case a.Priv != b.Priv:
		return "keys"
	case a.Stor != b.Stor:
		return "storage"
	case a.Records != b.Records || a.Head != b.Head:
		return "list"
	}
	return ""
}

func sameBytes(a, b []byte) bool { return bytes.Equal(a, b) }

// ---------------------------------------------------------------------------------------------
// other spellings of a record id: a CID string names a digest through a version, a content codec
// and a text encoding; the list works with the one canonical spelling (CIDv1, dag-cbor, base32).

type idAlias struct{ name, id string }

var b32 = base32.NewEncoding("abcdefghijklmnopqrstuvwxyz234567").WithPadding(base32.NoPadding)

const b58Alphabet = "123456789ABCDEFGHJKLMNPQRSTUVWXYZabcdefghijkmnopqrstuvwxyz"

func base58(b []byte) string {
	x := new(big.Int).SetBytes(b)
	mod, radix, zero := new(big.Int), big.NewInt(58), big.NewInt(0)
	var out []byte
	for x.Cmp(zero) > 0 {
		x.DivMod(x, radix, mod)
		out = append(out, b58Alphabet[mod.Int64()])
	}
	for _, c := range b {
		if c != 0 {
			break
		}
		out = append(out, b58Alphabet[0])
	}
	for i, j := 0, len(out)-1; i < j; i, j = i+1, j-1 {
		out[i], out[j] = out[j], out[i]
	}
	return string(out)
}

// idAliases: the same sha2-256 digest under the raw codec, in base58btc, as a CIDv0 and in upper-case base32
func idAliases(id string) []idAlias {
	if len(id) < 2 || id[0] != 'b' {
		return nil
	}
	raw, err := b32.DecodeString(id[1:])
	if err != nil || len(raw) != 36 || raw[0] != 0x01 {
		return nil
	}
	rawCodec := append([]byte(nil), raw...)
	rawCodec[1] = 0x55
	return []idAlias{
		{"raw-codec", "b" + b32.EncodeToString(rawCodec)},
		{"base58btc", "z" + base58(raw)},
		{"cidv0", base58(raw[2:])},
		{"base32upper", "B" + strings.ToUpper(b32.EncodeToString(raw))},
	}
}
