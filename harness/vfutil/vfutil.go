// Package vfutil is the Go side of the /verif check protocol: a harness test collects cases,
// violations (property predicates that failed on observations of the real code), drift
// (spec/code disagreement without a property failure) and samples in a Report and saves it to
// $VERIF_OUT, where the orchestrator (lib/vf.py) picks it up.
package vfutil

import (
	"encoding/json"
	"fmt"
	"math/rand"
	"os"
	"path/filepath"
	"sort"
	"strconv"
	"sync"
)

type Violation struct {
	Key    string `json:"key"`    // stable identifier of the failing input / call site / history
	Desc   string `json:"desc"`   // human readable
	Replay any    `json:"replay"` // behaviour that reproduces it (re-executed by --replay)
}

type Report struct {
	mu         sync.Mutex
	Property   string         `json:"property"`
	Cases      int            `json:"cases"`
	Distinct   int            `json:"distinct"`
	Replayed   int            `json:"replayed"` // behaviours / traces bound to the implementation
	Steps      int            `json:"steps"`
	Drift      int            `json:"drift"`
	Violations []Violation    `json:"violations"`
	Samples    []any          `json:"samples"`
	Extra      map[string]any `json:"extra"`
	Complete   bool           `json:"complete"`
	keys       map[string]struct{}
	vkeys      map[string]int
	DriftNotes []string `json:"drift_notes,omitempty"`
}

func NewReport(property string) *Report {
	return &Report{Property: property, Violations: []Violation{}, Samples: []any{}, Extra: map[string]any{}, keys: map[string]struct{}{}, vkeys: map[string]int{}}
}

// Case counts one executed case; key identifies it for the distinct count ("" = not distinct-counted).
func (r *Report) Case(key string) {
	r.mu.Lock()
	defer r.mu.Unlock()
	r.Cases++
	if key != "" {
		if _, ok := r.keys[key]; !ok {
			r.keys[key] = struct{}{}
			r.Distinct++
		}
	}
}

func (r *Report) AddSteps(n int) { r.mu.Lock(); r.Steps += n; r.mu.Unlock() }
func (r *Report) AddReplayed(n int) { r.mu.Lock(); r.Replayed += n; r.mu.Unlock() }

func (r *Report) DriftNote(format string, a ...any) {
	r.mu.Lock()
	defer r.mu.Unlock()
	r.Drift++
	if len(r.DriftNotes) < 20 {
		r.DriftNotes = append(r.DriftNotes, fmt.Sprintf(format, a...))
	}
}

// Violate records a property violation observed on the real code. At most 3 per key are kept.
func (r *Report) Violate(key, desc string, replay any) {
	r.mu.Lock()
	defer r.mu.Unlock()
	r.vkeys[key]++
	if r.vkeys[key] > 1 {
		return
	}
	r.Violations = append(r.Violations, Violation{Key: key, Desc: desc, Replay: replay})
}

func (r *Report) NumViolations() int { r.mu.Lock(); defer r.mu.Unlock(); return len(r.Violations) }

func (r *Report) Sample(s any) {
	r.mu.Lock()
	defer r.mu.Unlock()
	if len(r.Samples) < 3 {
		r.Samples = append(r.Samples, s)
	}
}

func (r *Report) SetExtra(k string, v any) { r.mu.Lock(); r.Extra[k] = v; r.mu.Unlock() }

func (r *Report) AddExtra(k string, n int) {
	r.mu.Lock()
	defer r.mu.Unlock()
	cur, _ := r.Extra[k].(int)
	r.Extra[k] = cur + n
}

// Save writes the report; complete=true says the harness ran to its end (a crash leaves no
// complete report and the orchestrator exits 2, never 1).
func (r *Report) Save(complete bool) {
	r.mu.Lock()
	defer r.mu.Unlock()
	r.Complete = complete
	counts := map[string]int{}
	for k, v := range r.vkeys {
		counts[k] = v
	}
	if len(counts) > 0 {
		r.Extra["violation_counts"] = counts
	}
	out := os.Getenv("VERIF_OUT")
	if out == "" {
		b, _ := json.MarshalIndent(r, "", " ")
		fmt.Println(string(b))
		return
	}
	b, err := json.Marshal(r)
	if err != nil {
		panic(err)
	}
	if err := os.WriteFile(out, b, 0o644); err != nil {
		panic(err)
	}
}

func Seed() int64 {
	s, err := strconv.ParseInt(os.Getenv("VERIF_SEED"), 10, 64)
	if err != nil {
		return 1
	}
	return s
}

func Rand() *rand.Rand { return rand.New(rand.NewSource(Seed())) }

func Thorough() bool { return os.Getenv("VERIF_TIER") == "thorough" }

func Tier(quick, thorough int) int {
	if Thorough() {
		return thorough
	}
	return quick
}

func EnvInt(name string, def int) int {
	if v, err := strconv.Atoi(os.Getenv(name)); err == nil {
		return v
	}
	return def
}

func VerifDir() string {
	if d := os.Getenv("VERIF_DIR"); d != "" {
		return d
	}
	return "/verif"
}

// Scratch returns a scratch directory that the orchestrator removes afterwards.
func Scratch(sub string) string {
	base := os.Getenv("VERIF_SCRATCH")
	if base == "" {
		base = os.TempDir()
	}
	d, err := os.MkdirTemp(base, sub)
	if err != nil {
		panic(err)
	}
	return d
}

// LoadJSONFiles reads every *.json in dir (sorted by name) into T.
func LoadJSONFiles[T any](dir string) ([]T, error) {
	names, err := filepath.Glob(filepath.Join(dir, "*.json"))
	if err != nil {
		return nil, err
	}
	sort.Strings(names)
	res := make([]T, 0, len(names))
	for _, n := range names {
		b, err := os.ReadFile(n)
		if err != nil {
			return nil, err
		}
		var v T
		if err := json.Unmarshal(b, &v); err != nil {
			return nil, fmt.Errorf("%s: %w", n, err)
		}
		res = append(res, v)
	}
	return res, nil
}

// ReplayFile returns the replay object of a --replay run (nil if not replaying).
func ReplayFile() (json.RawMessage, bool) {
	p := os.Getenv("VERIF_REPLAY")
	if p == "" {
		return nil, false
	}
	b, err := os.ReadFile(p)
	if err != nil {
		panic(err)
	}
	var w struct {
		Replay json.RawMessage `json:"replay"`
	}
	if err := json.Unmarshal(b, &w); err != nil {
		panic(err)
	}
	return w.Replay, true
}

// TraceWriter writes NDJSON trace events (one line per spec action).
type TraceWriter struct {
	mu sync.Mutex
	f  *os.File
	n  int
}

func NewTraceWriter(path string) *TraceWriter {
	f, err := os.Create(path)
	if err != nil {
		panic(err)
	}
	return &TraceWriter{f: f}
}

func (w *TraceWriter) Emit(ev any) {
	b, err := json.Marshal(ev)
	if err != nil {
		panic(err)
	}
	w.mu.Lock()
	defer w.mu.Unlock()
	w.f.Write(b)
	w.f.Write([]byte("\n"))
	w.n++
}

func (w *TraceWriter) Len() int { w.mu.Lock(); defer w.mu.Unlock(); return w.n }
func (w *TraceWriter) Close()   { w.f.Close() }
