// Package treeauth binds spec/treeauth/TreeAuth.tla to the real object tree + ACL (property C02).
//
// world_test.go: real keys, a real ACL built record by record with the repository's record
// builder (W = the owner of the ACL and the local replica: a writer at every record; subject S;
// never-member X), and real
// object trees over any-store storage built with the verifying change builder and the real
// validator (BuildObjectTree / BuildEmptyDataObjectTree / BuildKeyFilterableObjectTree).
package treeauth

import (
	"context"
	"crypto/rand"
	"fmt"
	"path/filepath"
	"strings"
	"sync"
	"sync/atomic"

	anystore "github.com/anyproto/any-store"

	"github.com/anyproto/any-sync/commonspace/headsync/headstorage"
	"github.com/anyproto/any-sync/commonspace/object/accountdata"
	"github.com/anyproto/any-sync/commonspace/object/acl/list"
	"github.com/anyproto/any-sync/commonspace/object/acl/list/listtest"
	"github.com/anyproto/any-sync/commonspace/object/acl/recordverifier"
	"github.com/anyproto/any-sync/commonspace/object/tree/objecttree"
	"github.com/anyproto/any-sync/commonspace/object/tree/treechangeproto"
	"github.com/anyproto/any-sync/consensus/consensusproto"
	"github.com/anyproto/any-sync/util/crypto"

	"verifharness/vfutil"
)

var bg = context.Background()

const spaceId = "verif-space"

// ---------------------------------------------------------------- keys

type keySet struct {
	W, S, X *accountdata.AccountKeys
	byRaw   map[string]string // raw public key bytes -> "W" | "S" | "X"
}

var (
	keysOnce sync.Once
	theKeys  *keySet
)

func keys() *keySet {
	keysOnce.Do(func() {
		mk := func() *accountdata.AccountKeys {
			k, err := accountdata.NewRandom()
			if err != nil {
				panic(err)
			}
			return k
		}
		theKeys = &keySet{W: mk(), S: mk(), X: mk(), byRaw: map[string]string{}}
		for n, k := range map[string]*accountdata.AccountKeys{"W": theKeys.W, "S": theKeys.S, "X": theKeys.X} {
			theKeys.byRaw[string(k.SignKey.GetPublic().Storage())] = n
		}
	})
	return theKeys
}

func (k *keySet) of(name string) *accountdata.AccountKeys {
	switch name {
	case "W":
		return k.W
	case "S":
		return k.S
	case "X":
		return k.X
	}
	panic("unknown account " + name)
}

// ---------------------------------------------------------------- ACL

// harnessBroken is raised (as a panic) when the harness itself cannot do its job; the test turns
// it into an incomplete report (exit 2), never into a violation.
type harnessBroken struct{ msg string }

func broken(format string, a ...any) { panic(harnessBroken{fmt.Sprintf(format, a...)}) }

// codePanic: the code under test panicked inside the named call. The property forbids that for
// any input, so the caller that owns the context reports it as a violation and abandons the context.
type codePanic struct {
	where string
	val   any
}

// callCode runs one call into the code under test and turns a panic of that code into a codePanic
func callCode(where string, f func()) {
	defer func() {
		if p := recover(); p != nil {
			if hb, ok := p.(harnessBroken); ok {
				panic(hb)
			}
			if cp, ok := p.(codePanic); ok {
				panic(cp)
			}
			panic(codePanic{where, p})
		}
	}()
	f()
}

// one cached ACL record: the record appended for the last event of a timeline prefix
type cachedRec struct {
	rec *consensusproto.RawRecordWithId
}

// prelude: root (created by W, who therefore holds write permission at every record of the log),
// anyone-can-join invite with writer permission, request-to-join invite. The last prelude record
// is "record 0" of the specification.
type prelude struct {
	recs      []*consensusproto.RawRecordWithId
	inviteAny crypto.PrivKey
	inviteReq crypto.PrivKey
}

var (
	aclMu      sync.Mutex
	thePrelude *prelude
	recCache   = map[string]*cachedRec{} // "addW,other,remove" -> record of the last event
)

type aclWorld struct {
	k      *keySet
	acl    list.AclList // the local replica (owner's view); the trees validate against it
	recs   []*consensusproto.RawRecordWithId
	pre    int      // index in recs of record 0
	events []string // timeline, events[i-1] = record i
	status string   // S's membership status by the harness's own bookkeeping
	truth  []string // truth[i] = S's permission after record i ("none" | "reader" | "writer")
	p      *prelude
	// a broken permission history is reported once per ACL, when it first shows
	unfaithful, heldReported bool
}

func replayAcl(k *accountdata.AccountKeys, recs []*consensusproto.RawRecordWithId) list.AclList {
	st, err := list.NewInMemoryStorage(recs[0].Id, recs)
	if err != nil {
		broken("acl storage: %v", err)
	}
	a, err := list.BuildAclListWithIdentity(k, st, recordverifier.NewValidateFull())
	if err != nil {
		broken("acl replay: %v", err)
	}
	return a
}

func getPrelude(k *keySet) *prelude {
	aclMu.Lock()
	defer aclMu.Unlock()
	if thePrelude != nil {
		return thePrelude
	}
	acl, err := list.NewInMemoryDerivedAcl(spaceId, k.W)
	if err != nil {
		broken("acl root: %v", err)
	}
	p := &prelude{recs: []*consensusproto.RawRecordWithId{acl.Root()}}
	add := func(r *consensusproto.RawRecord, err error) {
		if err != nil {
			broken("prelude build: %v", err)
		}
		w := listtest.WrapAclRecord(r)
		if err := acl.AddRawRecord(w); err != nil {
			broken("prelude add: %v", err)
		}
		p.recs = append(p.recs, w)
	}
	ia, err := acl.RecordBuilder().BuildInviteAnyone(list.AclPermissionsWriter)
	if err != nil {
		broken("invite anyone: %v", err)
	}
	p.inviteAny = ia.InviteKey
	add(ia.InviteRec, nil)
	ir, err := acl.RecordBuilder().BuildInvite()
	if err != nil {
		broken("invite: %v", err)
	}
	p.inviteReq = ir.InviteKey
	add(ir.InviteRec, nil)
	thePrelude = p
	return p
}

func newAclWorld() *aclWorld {
	k := keys()
	p := getPrelude(k)
	recs := append([]*consensusproto.RawRecordWithId{}, p.recs...)
	return &aclWorld{k: k, acl: replayAcl(k.W, recs), recs: recs, pre: len(recs) - 1, status: "none", truth: []string{"none"}, p: p}
}

func (w *aclWorld) n() int { return len(w.events) }

// recId returns the real id of specification record i; i = n+1 (or anything else) is a record
// the local replica does not hold.
func (w *aclWorld) recId(i int) string {
	if i >= 0 && i <= w.n() {
		return w.recs[w.pre+i].Id
	}
	return unknownRecordId
}

var (
	unknownRecordId = mustCid([]byte("a record nobody has appended"))
	unknownChangeId = mustCid([]byte("a change nobody holds"))
)

func mustCid(b []byte) string { return canonicalCid(b).String() }

func permOfStatus(st string) string {
	switch st {
	case "writer", "reader":
		return st
	}
	return "none"
}

func nextStatus(st, ev string) (string, bool) {
	none := st == "none" || st == "removed"
	switch ev {
	case "addW", "joinW":
		return "writer", none
	case "addR":
		return "reader", none
	case "req":
		return "pending", none
	case "accW":
		return "writer", st == "pending"
	case "promote":
		return "writer", st == "reader"
	case "demote":
		return "reader", st == "writer"
	case "remove":
		return "removed", st == "reader" || st == "writer"
	case "other":
		return st, true
	}
	return st, false
}

// buildRecord builds the real ACL record for event ev on top of the current log.
func (w *aclWorld) buildRecord(ev string) *consensusproto.RawRecordWithId {
	b := w.acl.RecordBuilder()
	sPub := w.k.S.SignKey.GetPublic()
	var (
		raw *consensusproto.RawRecord
		err error
	)
	switch ev {
	case "addW", "addR":
		perm := list.AclPermissionsWriter
		if ev == "addR" {
			perm = list.AclPermissionsReader
		}
		raw, err = b.BuildAccountsAdd(list.AccountsAddPayload{Additions: []list.AccountAdd{{Identity: sPub, Permissions: perm, Metadata: []byte("s")}}})
	case "promote", "demote":
		perm := list.AclPermissionsWriter
		if ev == "demote" {
			perm = list.AclPermissionsReader
		}
		raw, err = b.BuildPermissionChanges(list.PermissionChangesPayload{Changes: []list.PermissionChangePayload{{Identity: sPub, Permissions: perm}}})
	case "remove":
		priv, _, e := crypto.GenerateRandomEd25519KeyPair()
		if e != nil {
			broken("key: %v", e)
		}
		raw, err = b.BuildAccountRemove(list.AccountRemovePayload{Identities: []crypto.PubKey{sPub},
			Change: list.ReadKeyChangePayload{MetadataKey: priv, ReadKey: crypto.NewAES()}})
	case "other":
		var res list.InviteResult
		res, err = b.BuildInvite()
		raw = res.InviteRec
	case "joinW":
		sAcl := replayAcl(w.k.S, w.recs)
		raw, err = sAcl.RecordBuilder().BuildInviteJoinWithoutApprove(list.InviteJoinPayload{InviteKey: w.p.inviteAny, Metadata: []byte("s"), Permissions: list.AclPermissionsWriter})
	case "req":
		sAcl := replayAcl(w.k.S, w.recs)
		raw, err = sAcl.RecordBuilder().BuildRequestJoin(list.RequestJoinPayload{InviteKey: w.p.inviteReq, Metadata: []byte("s")})
	case "accW":
		var recId string
		jr, e := w.acl.AclState().JoinRecords(false)
		if e != nil {
			broken("join records: %v", e)
		}
		for _, r := range jr {
			if r.RequestIdentity.Equals(sPub) {
				recId = r.RecordId
			}
		}
		if recId == "" {
			broken("no pending join request of S to accept (timeline %v)", w.events)
		}
		raw, err = b.BuildRequestAccept(list.RequestAcceptPayload{RequestRecordId: recId, Permissions: list.AclPermissionsWriter})
	default:
		broken("unknown event %q", ev)
	}
	if err != nil {
		broken("building ACL record for %q after %v: %v", ev, w.events, err)
	}
	return listtest.WrapAclRecord(raw)
}

// peekNext returns the record that appendEvent(ev) will append (building and caching it when
// needed) without appending it: a record that exists but that the local replica does not hold yet.
func (w *aclWorld) peekNext(ev string) *cachedRec {
	key := strings.Join(append(append([]string{}, w.events...), ev), ",")
	aclMu.Lock()
	defer aclMu.Unlock()
	c := recCache[key]
	if c == nil {
		c = &cachedRec{rec: w.buildRecord(ev)}
		recCache[key] = c
	}
	return c
}

// appendEvent appends the record of ev to the local replica. Records are cached per timeline
// prefix so that every context sharing a prefix sees the same real records.
func (w *aclWorld) appendEvent(ev string) {
	ns, ok := nextStatus(w.status, ev)
	if !ok {
		broken("event %q not enabled in status %q (timeline %v)", ev, w.status, w.events)
	}
	c := w.peekNext(ev)
	w.acl.Lock()
	err := w.acl.AddRawRecord(c.rec)
	w.acl.Unlock()
	if err != nil {
		broken("real ACL rejected the record of %q after %v: %v", ev, w.events, err)
	}
	w.recs = append(w.recs, c.rec)
	w.events = append(w.events, ev)
	w.status = ns
	w.truth = append(w.truth, permOfStatus(ns))
	// the mapping event -> real record is right iff the ACL's *current* permission of S is the
	// harness's bookkeeping (this is the code's current-state answer, not the history lookup)
	cur := w.acl.AclState().Permissions(w.k.S.SignKey.GetPublic())
	if permName(cur) != permOfStatus(ns) {
		broken("after %v the ACL says S is %v, harness bookkeeping says %s", w.events, cur, permOfStatus(ns))
	}
}

// observedPerms: the ACL's own answers PermissionsAtRecord(record i, S) for i = 0..n
func (w *aclWorld) observedPerms() []string {
	res := make([]string, 0, w.n()+1)
	st := w.acl.AclState()
	for i := 0; i <= w.n(); i++ {
		p, err := st.PermissionsAtRecord(w.recId(i), w.k.S.SignKey.GetPublic())
		if err != nil {
			res = append(res, "none")
		} else {
			res = append(res, permName(p))
		}
	}
	return res
}

func permName(p list.AclPermissions) string {
	switch {
	case p.CanWrite():
		return "writer"
	case p == list.AclPermissionsReader:
		return "reader"
	}
	return "none"
}

// truthAbs: did the account write-hold at the record with absolute index abs (harness bookkeeping)
func (w *aclWorld) truthWriter(account string, abs int) bool {
	switch account {
	case "W":
		return abs >= 0
	case "S":
		return abs >= w.pre && abs-w.pre < len(w.truth) && w.truth[abs-w.pre] == "writer"
	}
	return false
}

func (w *aclWorld) absIndex(recordId string) int {
	for i, r := range w.recs {
		if r.Id == recordId {
			return i
		}
	}
	return -1
}

// ---------------------------------------------------------------- trees

type dbPool struct {
	mu  sync.Mutex
	dir string
	n   int
}

var pool = &dbPool{}

// each worker gets its own any-store database; many trees live in one database
func (p *dbPool) open() anystore.DB {
	p.mu.Lock()
	if p.dir == "" {
		p.dir = vfutil.Scratch("treeauth-db")
	}
	p.n++
	path := filepath.Join(p.dir, fmt.Sprintf("w%d.db", p.n))
	p.mu.Unlock()
	// durability across power loss is irrelevant here: no fsync per transaction
	db, err := anystore.Open(bg, path, &anystore.Config{SQLiteConnectionOptions: map[string]string{"synchronous": "off"}})
	if err != nil {
		broken("open any-store: %v", err)
	}
	return db
}

type worker struct {
	db anystore.DB
	hs headstorage.HeadStorage
}

func newWorker() *worker {
	db := pool.open()
	hs, err := headstorage.New(bg, db)
	if err != nil {
		broken("headstorage: %v", err)
	}
	return &worker{db: db, hs: hs}
}

func (w *worker) close() { _ = w.db.Close() }

var seedCounter atomic.Uint64

func uniq() []byte {
	b := make([]byte, 12)
	_, _ = rand.Read(b)
	return append(b, []byte(fmt.Sprint(seedCounter.Add(1)))...)
}

type treeWorld struct {
	wk      *worker
	aw      *aclWorld
	kind    string // signed | derived | reduced | grown
	touched bool   // something was delivered since the context was built
	filt    bool
	flavour string // full | emptydata
	root    *treechangeproto.RawTreeChangeWithId
	store   objecttree.Storage
	tree    objecttree.ObjectTree
	cb      objecttree.ChangeBuilder
	ids     map[int]string // specification id -> real id
	rev     map[string]int
	readKey crypto.SymKey
}

func (t *treeWorld) bind(model int, real string) {
	t.ids[model] = real
	t.rev[real] = model
}

func (t *treeWorld) buildTree() objecttree.ObjectTree {
	var (
		tr  objecttree.ObjectTree
		err error
	)
	callCode("BuildObjectTree", func() {
		switch {
		case t.filt && t.flavour == "emptydata":
			tr, err = objecttree.BuildEmptyDataKeyFilterableObjectTree(t.store, t.aw.acl)
		case t.filt:
			tr, err = objecttree.BuildKeyFilterableObjectTree(t.store, t.aw.acl)
		case t.flavour == "emptydata":
			tr, err = objecttree.BuildEmptyDataObjectTree(t.store, t.aw.acl)
		default:
			tr, err = objecttree.BuildObjectTree(t.store, t.aw.acl)
		}
	})
	if err != nil {
		broken("building the object tree (%s/%v/%s): %v", t.kind, t.filt, t.flavour, err)
	}
	return tr
}

// newTreeWorld creates a tree of the given flavour while the ACL is at the prelude (record 0).
func newTreeWorld(wk *worker, aw *aclWorld, kind string, filt bool, flavour string) *treeWorld {
	t := &treeWorld{wk: wk, aw: aw, kind: kind, filt: filt, flavour: flavour, ids: map[int]string{}, rev: map[string]int{}, readKey: crypto.NewAES()}
	var err error
	rootBuilder := objecttree.NewChangeBuilder(crypto.NewKeyStorage(), nil)
	if kind == "derived" {
		_, t.root, err = rootBuilder.BuildDerivedRoot(objecttree.InitialDerivedContent{SpaceId: spaceId, ChangeType: "verif", ChangePayload: uniq()})
	} else {
		_, t.root, err = rootBuilder.BuildRoot(objecttree.InitialContent{AclHeadId: aw.recId(0), PrivKey: aw.k.W.SignKey, SpaceId: spaceId,
			Seed: uniq(), ChangeType: "verif", Timestamp: 1})
	}
	if err != nil {
		broken("root: %v", err)
	}
	t.store, err = objecttree.CreateStorage(bg, t.root, wk.hs, wk.db)
	if err != nil {
		broken("create storage: %v", err)
	}
	t.store.(interface{ SetAddSeq(*atomic.Uint64) }).SetAddSeq(&atomic.Uint64{})
	t.cb = objecttree.NewChangeBuilder(crypto.NewKeyStorage(), t.root)
	t.tree = t.buildTree()
	t.bind(1, t.root.Id)
	if kind == "reduced" || kind == "grown" {
		// reduced: root <- snapshot by W citing record 0, the in-memory tree is then reduced to the
		// snapshot; grown: root <- one ordinary change by W citing record 0
		raw := t.buildChange("W", aw.recId(0), []string{t.root.Id}, t.root.Id, kind == "reduced")
		var err error
		callCode("AddRawChanges", func() {
			t.tree.Lock()
			defer t.tree.Unlock()
			_, err = t.tree.AddRawChanges(bg, objecttree.RawChangesPayload{NewHeads: []string{raw.Id}, RawChanges: []*treechangeproto.RawTreeChangeWithId{raw}})
		})
		if err != nil {
			broken("adding the first change of a %s tree: %v", kind, err)
		}
		if kind == "reduced" && t.tree.Root().Id != raw.Id {
			broken("tree was not reduced to the snapshot (root %s)", t.tree.Root().Id)
		}
		t.bind(2, raw.Id)
	}
	return t
}

// buildChange builds a real signed change with the repository's change builder.
func (t *treeWorld) buildChange(signer string, aclHead string, prev []string, snapshot string, isSnapshot bool) *treechangeproto.RawTreeChangeWithId {
	content := objecttree.BuilderContent{
		TreeHeadIds: prev, AclHeadId: aclHead, SnapshotBaseId: snapshot, IsSnapshot: isSnapshot,
		PrivKey: t.aw.k.of(signer).SignKey, Content: uniq(), Timestamp: 2, DataType: "verif",
	}
	if t.filt {
		// the filtering validator only keeps changes whose read key the replica holds
		content.ReadKeyId = t.aw.acl.AclState().CurrentReadKeyId()
		content.ReadKey = t.readKey
	} else {
		content.Unencrypted = true
	}
	_, raw, err := t.cb.Build(content)
	if err != nil {
		broken("building a change: %v", err)
	}
	return raw
}
