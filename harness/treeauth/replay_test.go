package treeauth

// replay_test.go: spec -> code. Every context TLC emitted (TreeAuthGen) is built on the real
// objects - real ACL records appended one by one, real signed parent changes delivered at the
// ACL length the behaviour says - and every candidate batch of its table is rendered to real
// bytes and delivered through AddRawChanges (or one of its variants). After each delivery the
// C02 predicates are evaluated on the real observations and the outcome is compared with the
// outcome the specification predicts.

import (
	"encoding/json"
	"errors"
	"fmt"
	"os"
	"path/filepath"
	"runtime"
	"sort"
	"strings"
	"sync"
	"sync/atomic"
	"testing"
	"time"

	anystore "github.com/anyproto/any-store"

	"github.com/anyproto/any-sync/commonspace/object/tree/objecttree"
	"github.com/anyproto/any-sync/commonspace/object/tree/treechangeproto"
	"github.com/anyproto/any-sync/commonspace/object/tree/treestorage"

	"verifharness/vfutil"
)

type step struct {
	A    string `json:"a"` // "acl" | "par"
	E    string `json:"e"`
	Au   string `json:"au"`
	Cite int    `json:"cite"`
}

type caseRec struct {
	D     desc     `json:"d"`
	B     []member `json:"b"`
	V     string   `json:"v"` // verdict the transcription of the code predicts
	P     string   `json:"p"` // verdict by the property's rule
	Att   []int    `json:"att"`
	Heads []int    `json:"heads"`
	St    []int    `json:"st"`
	Mr    int      `json:"mr"`
}

type ctxFile struct {
	Focus  string   `json:"focus"`
	Kind   string   `json:"kind"`
	Filt   bool     `json:"filt"`
	Steps  []step   `json:"steps"`
	Acl    []string `json:"acl"`
	Status []string `json:"status"`
	Pre    struct {
		Att   []int `json:"att"`
		Heads []int `json:"heads"`
		St    []int `json:"st"`
		Mr    int   `json:"mr"`
	} `json:"pre"`
	Cases []caseRec `json:"cases"`
}

func (c *ctxFile) key() string {
	var sb strings.Builder
	fmt.Fprintf(&sb, "%s/%s/%v:", c.Focus, c.Kind, c.Filt)
	for _, s := range c.Steps {
		if s.A == "acl" {
			sb.WriteString(s.E + ",")
		} else {
			fmt.Fprintf(&sb, "P(%s@%d),", s.Au, s.Cite)
		}
	}
	return sb.String()
}

// replay object of a violation: one context, one case, how it was delivered
type replayObj struct {
	Ctx     ctxFile  `json:"ctx"`
	Case    *caseRec `json:"case,omitempty"`
	Mode    string   `json:"mode"`
	Sub     int      `json:"sub"`
	Flavour string   `json:"flavour"`
	What    string   `json:"what,omitempty"`
}

var errUpdater = errors.New("updater refused")

// where the wall time of a replay goes (reported in the evidence, no oracle uses it)
var nsBuild, nsCase atomic.Int64

type runner struct {
	rep *vfutil.Report
	wk  *worker
	// the byte sweeps deliver thousands of rejected batches to one tree: no valid follow-up add
	// (which would force a new context) after each of them
	noFollowUp bool
}

// buildContext replays the build steps of a context on fresh real objects.
func (r *runner) buildContext(c *ctxFile, flavour string) (tw *treeWorld, ok bool) {
	t0 := time.Now()
	defer func() { nsBuild.Add(int64(time.Since(t0))) }()
	aw := newAclWorld()
	if f := checkFaithfulOn(aw, nil, snapshot{}); f != nil {
		// not even the prelude is answered faithfully: no valid tree can be built on this ACL
		cc := *c
		cc.Cases = nil
		r.rep.Violate(f.key, f.desc, replayObj{Ctx: cc, Flavour: flavour, What: "context"})
		return nil, false
	}
	tw = newTreeWorld(r.wk, aw, c.Kind, c.Filt, flavour)
	next := 2
	if c.Kind == "reduced" || c.Kind == "grown" {
		next = 3
	}
	for _, s := range c.Steps {
		if s.A == "acl" {
			aw.appendEvent(s.E)
			if f := tw.checkFaithful(tw.observe()); f != nil {
				cc := *c
				cc.Cases = nil
				key := f.key
				if strings.HasPrefix(key, "perm-history-unfaithful") {
					key = "perm-history-unfaithful|after=" + recordType(s.E)
				}
				r.rep.Violate(key, f.desc, replayObj{Ctx: cc, Flavour: flavour, What: "context"})
			}
			continue
		}
		// a parent: one valid-looking change on top of the current heads
		before := tw.observe()
		heads := make([]int, 0)
		for _, h := range before.heads {
			heads = append(heads, tw.rev[h])
		}
		m := member{Id: next, Kind: "ch", Au: s.Au, Named: s.Au, Cite: s.Cite, Par: heads, Snap: tw.rev[before.root], CidOk: true, SigOk: true}
		raw := tw.renderPlain(m)
		var (
			res objecttree.AddResult
			err error
		)
		callCode("AddRawChanges", func() {
			tw.tree.Lock()
			defer tw.tree.Unlock()
			res, err = tw.tree.AddRawChanges(bg, objecttree.RawChangesPayload{NewHeads: []string{raw.Id}, RawChanges: []*treechangeproto.RawTreeChangeWithId{raw}})
		})
		if err != nil || len(res.Added) != 1 {
			r.rep.DriftNote("context %s: parent by %s citing %d predicted accepted, real tree said %v (added %d)", c.key(), s.Au, s.Cite, err, len(res.Added))
			return tw, false
		}
		tw.bind(next, raw.Id)
		next++
		after := tw.observe()
		for _, f := range tw.checkHeld(after, &before) {
			cc := *c
			cc.Cases = nil
			r.rep.Violate(f.key+"|parent", f.desc, replayObj{Ctx: cc, Flavour: flavour, What: "context"})
		}
	}
	// the context the specification describes must be the context the real objects are in
	s := tw.observe()
	if got, want := tw.project(s.iter), c.Pre.Att; !eqInts(got, want) {
		r.rep.DriftNote("context %s: iteration %v, specification %v", c.key(), got, want)
		return tw, false
	}
	if got, want := tw.project(s.heads), c.Pre.Heads; !eqInts(got, want) {
		r.rep.DriftNote("context %s: heads %v, specification %v", c.key(), got, want)
		return tw, false
	}
	return tw, true
}

// recordType names the ACL record type an event of the specification is rendered to
func recordType(ev string) string {
	switch ev {
	case "addW", "addR":
		return "AccountsAdd"
	case "joinW":
		return "InviteJoin"
	case "req":
		return "RequestJoin"
	case "accW":
		return "RequestAccept"
	case "promote", "demote":
		return "PermissionChange"
	case "remove":
		return "AccountRemove"
	}
	return ev
}

func (t *treeWorld) project(ids []string) []int {
	res := make([]int, 0, len(ids))
	for _, id := range ids {
		if m, ok := t.rev[id]; ok {
			res = append(res, m)
		} else {
			res = append(res, -1)
		}
	}
	sort.Ints(res)
	return res
}

func eqInts(a, b []int) bool {
	if len(a) != len(b) {
		return false
	}
	a = append([]int{}, a...)
	b = append([]int{}, b...)
	sort.Ints(a)
	sort.Ints(b)
	for i := range a {
		if a[i] != b[i] {
			return false
		}
	}
	return true
}

// renderBatch turns the members of a case into real raw changes (the candidate mutated as its
// class says) and binds their specification ids to the real ids.
func (tw *treeWorld) renderBatch(cs *caseRec, sub int) (batch []*treechangeproto.RawTreeChangeWithId, what string, candR reading, genuine *treechangeproto.RawTreeChangeWithId) {
	what = "unchanged"
	for k, m := range cs.B {
		var raw *treechangeproto.RawTreeChangeWithId
		if k == cs.D.Pos && m.Tw != 0 {
			// the signature-less twin of the change unmarshalled just before: the previous member
			// of this batch or the change delivered last to this tree
			var genuine *treechangeproto.RawTreeChangeWithId
			for j := 0; j < k; j++ {
				if cs.B[j].Id == m.Tw {
					genuine = batch[j]
				}
			}
			if genuine == nil {
				sc, err := tw.store.Get(bg, tw.realId(m.Tw))
				if err != nil {
					broken("twin: genuine change %d not in storage: %v", m.Tw, err)
				}
				genuine = sc.RawTreeChangeWithId()
			}
			raw, what = twinOf(genuine, sub)
			candR = tw.read(raw.Id, raw.RawChange)
		} else {
			base := tw.renderPlain(m)
			raw = base
			if k == cs.D.Pos {
				genuine = base
				raw, what = tw.mutate(m, cs.D.M, sub, base)
				candR = tw.read(raw.Id, raw.RawChange)
			}
		}
		if cs.D.M != "idDup" || k != cs.D.Pos {
			tw.bind(m.Id, raw.Id)
		}
		batch = append(batch, raw)
	}
	return
}

// modes of delivery
var modes = []string{"raw", "raw", "raw", "updater-ok", "reverse", "updater-err", "raw", "reverse"}

// runCase delivers one candidate batch. It returns true when the tree may have changed (the
// context must then be rebuilt before the next case).
func (r *runner) runCase(c *ctxFile, tw *treeWorld, cs *caseRec, mode string, sub int, flavour string) (dirty bool) {
	t0 := time.Now()
	defer func() { nsCase.Add(int64(time.Since(t0))) }()
	rp := func() replayObj {
		cc := *c
		cc.Cases = nil
		return replayObj{Ctx: cc, Case: cs, Mode: mode, Sub: sub, Flavour: flavour}
	}
	// render the batch
	saved := map[int]string{}
	for k, v := range tw.ids {
		saved[k] = v
	}
	defer func() {
		// specification ids of batch members are re-used by the next case
		tw.ids = saved
		tw.rev = map[string]int{}
		for k, v := range saved {
			tw.rev[v] = k
		}
	}()
	batch, what, candR, genuine := tw.renderBatch(cs, sub)
	if cs.D.Pre && genuine != nil {
		// an earlier call: the genuine candidate arrives on its own, before its parent (the batch
		// member in front of it) is known here. Nothing may be added, nothing may change.
		pre0 := tw.observe()
		var (
			res0 objecttree.AddResult
			err0 error
		)
		callCode("AddRawChanges(child before its parent)", func() {
			tw.tree.Lock()
			defer tw.tree.Unlock()
			res0, err0 = tw.tree.AddRawChanges(bg, objecttree.RawChangesPayload{NewHeads: []string{genuine.Id}, RawChanges: []*treechangeproto.RawTreeChangeWithId{genuine}})
		})
		if d := diffNoOp(pre0, tw.observe()); d != "" || len(res0.Added) > 0 {
			r.rep.Violate("orphan-child-taken|m="+cs.D.M, fmt.Sprintf("a change whose parent is unknown was taken (err=%v, added=%d, %s changed) [context %s; batch %s]",
				err0, len(res0.Added), d, c.key(), cs.D), rp())
		}
		what += "; its genuine bytes were delivered alone, before the parent, in an earlier call"
	}
	tw.touched = true
	// the rendering must realise the class the specification talks about; a byte flip that
	// happens to leave a still-authentic change is delivered too, but only the oracles judge it
	cand := cs.B[cs.D.Pos]
	reclassified := false
	if cs.D.M != "idDup" && (candR.cidOk != cand.CidOk || (candR.cidOk && candR.authentic() != (cand.CidOk && cand.SigOk))) {
		reclassified = true
		r.rep.AddExtra("reclassified_renderings", 1)
	}
	heads := leafIds(batch, tw)
	deliver := batch
	if mode == "reverse" {
		deliver = make([]*treechangeproto.RawTreeChangeWithId, len(batch))
		for i := range batch {
			deliver[len(batch)-1-i] = batch[i]
		}
	}
	before := tw.observe()
	var (
		res objecttree.AddResult
		err error
	)
	func() {
		defer func() {
			if p := recover(); p != nil {
				if hb, ok := p.(harnessBroken); ok {
					panic(hb)
				}
				err = fmt.Errorf("panic: %v", p)
				r.rep.Violate("panic-in-AddRawChanges|m="+cs.D.M, fmt.Sprintf("AddRawChanges panicked: %v (%s; %s)", p, cs.D, what), rp())
			}
		}()
		tw.tree.Lock()
		defer tw.tree.Unlock()
		payload := objecttree.RawChangesPayload{NewHeads: heads, RawChanges: deliver}
		switch mode {
		case "updater-ok":
			res, err = tw.tree.AddRawChangesWithUpdater(bg, payload, func(objecttree.ObjectTree, objecttree.Mode) error { return nil })
		case "updater-err":
			res, err = tw.tree.AddRawChangesWithUpdater(bg, payload, func(objecttree.ObjectTree, objecttree.Mode) error { return errUpdater })
		default:
			res, err = tw.tree.AddRawChanges(bg, payload)
		}
	}()
	after := tw.observe()
	verdict := "accept"
	switch {
	case err != nil:
		verdict = "reject"
	case len(res.Added) == 0:
		verdict = "nothing"
	}
	tag := fmt.Sprintf("|m=%s|pk=%s", cs.D.M, cs.D.Pk)
	info := fmt.Sprintf(" [context %s; batch %s; candidate: %s; delivered %s; verdict %s err=%v]", c.key(), cs.D, what, mode, verdict, err)

	// ---- property predicates on the real observations
	for _, f := range tw.checkHeld(after, &before) {
		r.rep.Violate(f.key+tag, f.desc+info, rp())
	}
	if err != nil {
		if d := diffNoOp(before, after); d != "" {
			r.rep.Violate("rejected-batch-not-noop|"+d+tag, "AddRawChanges returned an error but "+d+" changed"+info, rp())
		}
	}
	// what the tree says it holds (HasChanges) is what it iterates; nothing of a rejected batch is held
	inIter := map[string]bool{}
	for _, id := range after.iter {
		inIter[id] = true
	}
	tw.tree.Lock()
	for _, raw := range batch {
		if tw.tree.HasChanges(raw.Id) && !inIter[raw.Id] {
			key := "held-but-not-iterated"
			if err != nil {
				key = "rejected-batch-not-noop|has-changes"
			}
			r.rep.Violate(key+tag, "HasChanges("+raw.Id+") is true although the change is not part of the iterated tree"+info, rp())
		}
	}
	tw.tree.Unlock()
	if strings.Contains(after.from, "<not-held>") {
		r.rep.Violate("iterated-but-not-held"+tag, "IterateRoot yields a change for which HasChanges is false"+info, rp())
	}
	// a rejected change is no foothold: a valid change built on it cannot attach either
	if err != nil && cs.D.M != "idDup" {
		child := tw.buildChange("W", tw.aw.recId(tw.aw.n()), []string{batch[cs.D.Pos].Id}, after.root, false)
		tw.tree.Lock()
		res2, err2 := tw.tree.AddRawChanges(bg, objecttree.RawChangesPayload{NewHeads: []string{child.Id}, RawChanges: []*treechangeproto.RawTreeChangeWithId{child}})
		tw.tree.Unlock()
		after2 := tw.observe()
		for _, f := range tw.checkHeld(after2, &after) {
			r.rep.Violate(f.key+"|child-of-rejected"+tag, f.desc+info, rp())
		}
		if d := diffNoOp(after, after2); d != "" || len(res2.Added) > 0 {
			r.rep.Violate("child-of-rejected-attached"+tag, fmt.Sprintf("a change whose only parent is a change of a rejected batch was taken (err=%v, added=%d, %s changed)", err2, len(res2.Added), d)+info, rp())
			after = after2
		}
		r.rep.AddExtra("child_of_rejected_probes", 1)
	}
	// life goes on after a rejected batch: the next valid change (W, newest record, on the heads) is
	// taken, becomes the only head, and the tree iterates exactly what it iterated before plus it
	if err != nil && diffNoOp(before, after) == "" && !r.noFollowUp {
		next := tw.buildChange("W", tw.aw.recId(tw.aw.n()), after.heads, after.root, false)
		var (
			res3 objecttree.AddResult
			err3 error
		)
		callCode("AddRawChanges(after a rejected batch)", func() {
			tw.tree.Lock()
			defer tw.tree.Unlock()
			res3, err3 = tw.tree.AddRawChanges(bg, objecttree.RawChangesPayload{NewHeads: []string{next.Id}, RawChanges: []*treechangeproto.RawTreeChangeWithId{next}})
		})
		after3 := tw.observe()
		for _, f := range tw.checkHeld(after3, &after) {
			r.rep.Violate(f.key+"|add-after-rejected"+tag, f.desc+info, rp())
		}
		want := append(append([]string{}, after.iter...), next.Id)
		sort.Strings(want)
		got := append([]string{}, after3.iter...)
		sort.Strings(got)
		if err3 != nil || len(res3.Added) != 1 || strings.Join(after3.heads, ",") != next.Id || strings.Join(got, ",") != strings.Join(want, ",") ||
			strings.Contains(after3.from, "<not-held>") {
			r.rep.Violate("add-after-rejected-batch"+tag, fmt.Sprintf("after the rejected batch a valid change on the heads gave err=%v added=%d heads=%d iterated=%d (expected %d)",
				err3, len(res3.Added), len(after3.heads), len(got), len(want))+info, rp())
		}
		r.rep.AddExtra("add_after_rejected_probes", 1)
		r.rep.AddSteps(1)
		return true
	}
	if f := tw.checkFaithful(after); f != nil && !strings.HasPrefix(f.key, "perm-history-unfaithful") {
		// (the history itself is checked after every ACL append while the context is built)
		r.rep.Violate(f.key, f.desc+info, rp())
	}
	// the result handed to the caller names only changes that are really held
	if err == nil {
		all := after.storedIds()
		for _, a := range res.Added {
			if _, ok := all[a.Id]; !ok {
				r.rep.Violate("added-not-persisted"+tag, "AddResult.Added names "+a.Id+" which storage does not hold"+info, rp())
			}
		}
	}

	// ---- conformance with the specification's prediction (drift only)
	wantV := cs.V
	wantAtt, wantHeads, wantSt, wantMr := cs.Att, cs.Heads, cs.St, cs.Mr
	if mode == "updater-err" {
		wantV = "reject"
		wantAtt, wantHeads, wantSt, wantMr = c.Pre.Att, c.Pre.Heads, c.Pre.St, c.Pre.Mr
	}
	if !reclassified {
		if verdict != wantV {
			r.rep.DriftNote("verdict %s, specification %s%s", verdict, wantV, info)
		} else if got := tw.project(after.iter); !eqInts(got, wantAtt) {
			r.rep.DriftNote("iteration %v, specification %v%s", got, wantAtt, info)
		} else if got := tw.project(after.heads); !eqInts(got, wantHeads) {
			r.rep.DriftNote("heads %v, specification %v%s", got, wantHeads, info)
		} else if got := tw.project(ids(after.stored)); !eqInts(got, wantSt) {
			r.rep.DriftNote("stored %v, specification %v%s", got, wantSt, info)
		} else if got := tw.rev[after.root]; got != wantMr {
			r.rep.DriftNote("in-memory root %d, specification %d%s", got, wantMr, info)
		}
	}
	r.rep.AddSteps(1)
	return diffNoOp(before, after) != ""
}

func ids(s []storedRec) []string {
	res := make([]string, 0, len(s))
	for _, r := range s {
		res = append(res, r.Id)
	}
	return res
}

// the heads the sender would announce: batch members nobody in the batch builds on
func leafIds(batch []*treechangeproto.RawTreeChangeWithId, tw *treeWorld) []string {
	used := map[string]bool{}
	for _, b := range batch {
		if _, inner, err := splitRaw(b.RawChange); err == nil && inner != nil {
			for _, p := range inner.TreeHeadIds {
				used[p] = true
			}
		}
	}
	var res []string
	for _, b := range batch {
		if !used[b.Id] {
			res = append(res, b.Id)
		}
	}
	return res
}

// validateRawTree: the same changes offered as a whole new tree (ValidateRawTree on a scratch
// store, the path a replica takes when it first downloads a tree). If it accepts, every change of
// the payload must satisfy the property's predicates.
func (r *runner) validateRawTree(c *ctxFile, tw *treeWorld, cs *caseRec, sub int, flavour string) {
	if c.Kind != "signed" || cs.D.M == "idDup" {
		// (a payload listing one id twice says nothing about which bytes the validator kept)
		return
	}
	pre := tw.observe()
	var changes []*treechangeproto.RawTreeChangeWithId
	for _, s := range pre.stored {
		if s.Id != tw.root.Id {
			changes = append(changes, &treechangeproto.RawTreeChangeWithId{Id: s.Id, RawChange: s.raw})
		}
	}
	saved := map[int]string{}
	for k, v := range tw.ids {
		saved[k] = v
	}
	batch, _, _, _ := tw.renderBatch(cs, sub)
	tw.ids = saved
	tw.rev = map[string]int{}
	for k, v := range saved {
		tw.rev[v] = k
	}
	changes = append(changes, batch...)
	heads := leafIds(changes, tw)
	dir := vfutil.Scratch("treeauth-vrt")
	defer os.RemoveAll(dir)
	db, err := anystore.Open(bg, filepath.Join(dir, "v.db"), nil)
	if err != nil {
		broken("open scratch store: %v", err)
	}
	defer db.Close()
	callCode("ValidateRawTree", func() {
		err = objecttree.ValidateRawTree(treestorage.TreeStorageCreatePayload{RootRawChange: tw.root, Changes: changes, Heads: heads}, tw.aw.acl, db)
	})
	r.rep.AddExtra("validate_raw_tree_calls", 1)
	if err != nil {
		return
	}
	r.rep.AddExtra("validate_raw_tree_accepted", 1)
	all := map[string]storedRec{tw.root.Id: {Id: tw.root.Id, raw: tw.root.RawChange}}
	for _, ch := range changes {
		all[ch.Id] = storedRec{Id: ch.Id, raw: ch.RawChange}
	}
	for _, ch := range changes {
		if f := tw.checkChange(ch.Id, all); f != nil {
			cc := *c
			cc.Cases = nil
			r.rep.Violate(f.key+"|validate-raw-tree|m="+cs.D.M, "ValidateRawTree accepted a payload although: "+f.desc,
				replayObj{Ctx: cc, Case: cs, Mode: "validate-raw-tree", Sub: sub, Flavour: flavour})
		}
	}
}

// runContext executes (a seeded sample of) the table of one context.
func (r *runner) runContext(c *ctxFile, seed int64, maxCases int) {
	flavour := "full"
	if (seed+int64(len(c.Steps))+int64(len(c.Cases)))%3 == 0 {
		flavour = "emptydata"
	}
	sort.Slice(c.Cases, func(i, j int) bool { return c.Cases[i].D.String() < c.Cases[j].D.String() })
	idx := make([]int, len(c.Cases))
	for i := range idx {
		idx[i] = i
	}
	if maxCases > 0 && len(idx) > maxCases {
		rnd := vfutil.Rand()
		rnd.Seed(seed*7919 + int64(len(c.Steps))*104729 + int64(len(c.Cases)))
		rnd.Shuffle(len(idx), func(i, j int) { idx[i], idx[j] = idx[j], idx[i] })
		idx = idx[:maxCases]
		sort.Ints(idx)
	}
	defer func() {
		if p := recover(); p != nil {
			cp, ok := p.(codePanic)
			if !ok {
				panic(p)
			}
			cc := *c
			cc.Cases = nil
			r.rep.Violate("panic-in-"+cp.where, fmt.Sprintf("the code under test panicked in %s: %v [context %s]", cp.where, cp.val, c.key()),
				replayObj{Ctx: cc, Flavour: flavour, What: "context"})
		}
	}()
	tw, ok := r.buildContext(c, flavour)
	r.rep.AddReplayed(1)
	if !ok {
		return
	}
	for n, i := range idx {
		cs := &c.Cases[i]
		if cs.D.M == "twin" && cs.D.Pos == 0 && tw.touched {
			// "unmarshalled just before" = the last delivery of the context: nothing in between
			if tw, ok = r.buildContext(c, flavour); !ok {
				return
			}
		}
		mode := modes[(int(seed)+i)%len(modes)]
		sub := int(seed)*31 + i*7
		r.rep.Case(fmt.Sprintf("%s|%s|%s|%s", c.key(), cs.D, mode, flavour))
		if n < 1 {
			r.rep.Sample(map[string]any{"context": c.key(), "batch": cs.D.String(), "mode": mode, "spec_verdict": cs.V, "property_verdict": cs.P})
		}
		// the valid follow-up add after a rejected batch costs a new context: after the last case of
		// every context and after every fifth case
		r.noFollowUp = n != len(idx)-1 && (int(seed)+i)%5 != 0
		if r.runCase(c, tw, cs, mode, sub, flavour) && n != len(idx)-1 {
			tw, ok = r.buildContext(c, flavour)
			if !ok {
				return
			}
		}
		if (int(seed)+i)%23 == 0 && !c.Filt && n != len(idx)-1 {
			r.validateRawTree(c, tw, cs, sub, flavour)
		}
	}
}

func loadContexts(dirs string) ([]*ctxFile, error) {
	var names []string
	for _, dir := range filepath.SplitList(dirs) {
		ns, err := filepath.Glob(filepath.Join(dir, "*.json"))
		if err != nil {
			return nil, err
		}
		sort.Strings(ns)
		names = append(names, ns...)
	}
	seen := map[string]bool{}
	var res []*ctxFile
	for _, n := range names {
		b, err := os.ReadFile(n)
		if err != nil {
			return nil, err
		}
		c := &ctxFile{}
		if err := json.Unmarshal(b, c); err != nil {
			return nil, fmt.Errorf("%s: %w", n, err)
		}
		// -simulate may emit the same context more than once
		k := c.key() + fmt.Sprint(len(c.Cases))
		if seen[k] {
			continue
		}
		seen[k] = true
		res = append(res, c)
	}
	return res, nil
}

func guard(t *testing.T, rep *vfutil.Report) {
	if p := recover(); p != nil {
		if cp, ok := p.(codePanic); ok {
			rep.Violate("panic-in-"+cp.where, fmt.Sprintf("the code under test panicked in %s: %v", cp.where, cp.val), nil)
			rep.Save(true)
			return
		}
		if hb, ok := p.(harnessBroken); ok {
			t.Errorf("harness broken: %s", hb.msg)
		} else {
			t.Errorf("harness panic: %v", p)
		}
		rep.Save(false)
		return
	}
	rep.Save(!t.Failed() || rep.NumViolations() > 0)
}

func TestReplay(t *testing.T) {
	rep := vfutil.NewReport("C02")
	defer guard(t, rep)
	seed := vfutil.Seed()
	if raw, ok := vfutil.ReplayFile(); ok {
		var ro replayObj
		if err := json.Unmarshal(raw, &ro); err != nil {
			t.Fatal(err)
		}
		wk := newWorker()
		defer wk.close()
		r := &runner{rep: rep, wk: wk}
		fl := ro.Flavour
		if fl == "" {
			fl = "full"
		}
		tw, ok := r.buildContext(&ro.Ctx, fl)
		rep.AddReplayed(1)
		if ok && ro.Case != nil {
			rep.Case(ro.Ctx.key() + "|" + ro.Case.D.String())
			if ro.Mode == "validate-raw-tree" {
				r.validateRawTree(&ro.Ctx, tw, ro.Case, ro.Sub, fl)
			} else {
				r.runCase(&ro.Ctx, tw, ro.Case, ro.Mode, ro.Sub, fl)
			}
		}
		return
	}
	ctxs, err := loadContexts(os.Getenv("VERIF_BEHAVIOURS"))
	if err != nil {
		t.Fatal(err)
	}
	if len(ctxs) == 0 {
		t.Fatal("no behaviours")
	}
	maxCases := vfutil.EnvInt("VERIF_MAX_CASES", 0)
	workers := vfutil.EnvInt("VERIF_WORKERS", runtime.GOMAXPROCS(0))
	if workers > len(ctxs) {
		workers = len(ctxs)
	}
	keys()
	getPrelude(keys())
	var (
		wg    sync.WaitGroup
		next  = make(chan *ctxFile)
		mu    sync.Mutex
		fatal any
	)
	for w := 0; w < workers; w++ {
		wg.Add(1)
		go func() {
			defer wg.Done()
			defer func() {
				if p := recover(); p != nil {
					mu.Lock()
					if fatal == nil {
						fatal = p
					}
					mu.Unlock()
					for range next {
					}
				}
			}()
			wk := newWorker()
			defer wk.close()
			r := &runner{rep: rep, wk: wk}
			for c := range next {
				max := maxCases
				if c.Focus == "hist" {
					max = 0 // the history focus is always run completely
				}
				r.runContext(c, seed, max)
			}
		}()
	}
	for _, c := range ctxs {
		next <- c
	}
	close(next)
	wg.Wait()
	if fatal != nil {
		panic(fatal)
	}
	rep.SetExtra("contexts", len(ctxs))
	rep.SetExtra("ms_building_contexts", int(nsBuild.Load()/1e6))
	rep.SetExtra("ms_running_cases", int(nsCase.Load()/1e6))
}
