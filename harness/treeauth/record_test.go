package treeauth

// record_test.go: code -> spec. A random driver (not guided by TLC) grows real ACLs with random
// admissible histories, delivers random batches of real signed changes (random signer, cited
// record, parents, mutation) and reopens the tree, evaluating the C02 predicates after every step
// and writing one NDJSON line per step for TreeAuthTrace.tla. The arguments of a logged delivery
// are computed from the real bytes with the crypto primitives only (read), never from what the
// driver intended.

import (
	"bytes"
	"crypto/sha256"
	"encoding/json"
	"fmt"
	"math/rand"
	"os"
	"path/filepath"
	"sort"
	"sync"
	"testing"

	"github.com/ipfs/go-cid"

	"github.com/anyproto/any-sync/commonspace/object/tree/objecttree"
	"github.com/anyproto/any-sync/commonspace/object/tree/treechangeproto"

	"verifharness/vfutil"
)

type logMember struct {
	Id    int    `json:"id"`
	Kind  string `json:"kind"`
	Au    string `json:"au"`
	Named string `json:"named"`
	Cite  int    `json:"cite"`
	Par   []int  `json:"par"`
	Snap  int    `json:"snap"`
	CidOk bool   `json:"cidOk"`
	SigOk bool   `json:"sigOk"`
	Tw    int    `json:"tw"`
	Al    bool   `json:"al"`
}

type recordRun struct {
	payloads map[[32]byte]int // hash of a signed payload -> specification id of the genuine change
	lastRaw  *treechangeproto.RawTreeChangeWithId // the raw change handed to the tree last
	rnd   *rand.Rand
	rep   *vfutil.Report
	wk    *worker
	lines []any
	tw    *treeWorld
	next  int
	label string
	plan  []string // human readable action list (replay object)
	// a change citing the record of the next ACL event before the replica holds it, re-delivered later
	futureEv  string
	futureRaw *treechangeproto.RawTreeChangeWithId
	futureId  int
}

var allEvents = []string{"addW", "addR", "joinW", "req", "accW", "promote", "demote", "remove", "other"}
var allMuts = []string{"bytes", "bytesReid", "id", "idAlias", "idAlias", "idDup", "swap", "unsigned", "twin", "twin"}

func (rr *recordRun) emit(v any) { rr.lines = append(rr.lines, v) }

func (rr *recordRun) modelOf(id string) int {
	if m, ok := rr.tw.rev[id]; ok {
		return m
	}
	return unknownModelId
}

func (rr *recordRun) projection(s snapshot) (att, heads, st []int, mr int) {
	return rr.tw.project(s.iter), rr.tw.project(s.heads), rr.tw.project(ids(s.stored)), rr.tw.rev[s.root]
}

func (rr *recordRun) violate(key, desc string) {
	rr.rep.Violate(key, desc+" [recorded run "+rr.label+"]", map[string]any{"record_run": rr.label, "plan": rr.plan})
}

func (rr *recordRun) stepAcl() {
	aw := rr.tw.aw
	var enabled []string
	for _, e := range allEvents {
		if _, ok := nextStatus(aw.status, e); ok {
			enabled = append(enabled, e)
		}
	}
	e := enabled[rr.rnd.Intn(len(enabled))]
	if rr.futureEv != "" {
		e = rr.futureEv
	}
	aw.appendEvent(e)
	rr.plan = append(rr.plan, "acl:"+e)
	rr.emit(map[string]any{"ev": "Acl", "e": e, "n": aw.n(), "perms": aw.observedPerms()})
	if f := rr.tw.checkFaithful(rr.tw.observe()); f != nil {
		key := f.key
		if len(key) > 23 && key[:23] == "perm-history-unfaithful" {
			key = "perm-history-unfaithful|after=" + recordType(e)
		}
		rr.violate(key, f.desc)
	}
	if rr.futureEv != "" {
		// the record the earlier change cited has arrived: the very same bytes are delivered again
		rr.futureEv = ""
		raw := rr.futureRaw
		if _, held := rr.tw.rev[raw.Id]; !held {
			rr.tw.bind(rr.futureId, raw.Id)
		}
		rr.deliver([]*treechangeproto.RawTreeChangeWithId{raw}, []int{rr.futureId}, []string{"re-delivery of the change that cited this record early"}, "raw")
	}
}

// stepFuture delivers a change by W citing the record of the next ACL event, which exists but has
// not reached the local replica yet
func (rr *recordRun) stepFuture() {
	tw := rr.tw
	aw := tw.aw
	var enabled []string
	for _, e := range allEvents {
		if _, ok := nextStatus(aw.status, e); ok {
			enabled = append(enabled, e)
		}
	}
	e := enabled[rr.rnd.Intn(len(enabled))]
	rec := aw.peekNext(e)
	before := tw.observe()
	raw := tw.buildChange("W", rec.rec.Id, before.heads, before.root, false)
	rr.futureEv, rr.futureRaw, rr.futureId = e, raw, rr.next
	rr.next++
	tw.bind(rr.futureId, raw.Id)
	rr.deliver([]*treechangeproto.RawTreeChangeWithId{raw}, []int{rr.futureId}, []string{"W citing the not yet received record of " + e}, "raw")
}

// stepOrphan: a valid child arrives before its parent (it cannot attach), then the parent arrives
// together with a copy of the child that has the same id but altered bytes
func (rr *recordRun) stepOrphan() {
	tw := rr.tw
	aw := tw.aw
	before := tw.observe()
	parent := tw.buildChange("W", aw.recId(aw.n()), before.heads, before.root, false)
	child := tw.buildChange("W", aw.recId(aw.n()), []string{parent.Id}, before.root, false)
	pid, cid := rr.next, rr.next+1
	rr.next += 2
	tw.bind(pid, parent.Id)
	tw.bind(cid, child.Id)
	rr.deliver([]*treechangeproto.RawTreeChangeWithId{child}, []int{cid}, []string{"valid child of a parent not delivered yet"}, "raw")
	tw.bind(pid, parent.Id)
	tw.bind(cid, child.Id)
	forged, what := tw.mutate(member{Id: cid, Au: "W", Named: "W", Cite: aw.n()}, "bytes", rr.rnd.Intn(600), child)
	rr.deliver([]*treechangeproto.RawTreeChangeWithId{parent, forged}, []int{pid, cid}, []string{"the parent", "same id as the child delivered before, " + what}, "raw")
}

// stepLocal: a change created locally (AddContent) with the key of S, W or X
func (rr *recordRun) stepLocal() {
	tw := rr.tw
	aw := tw.aw
	au := []string{"S", "S", "W", "X"}[rr.rnd.Intn(4)]
	before := tw.observe()
	var (
		res objecttree.AddResult
		err error
	)
	callCode("AddContent", func() {
		tw.tree.Lock()
		defer tw.tree.Unlock()
		res, err = tw.tree.AddContent(bg, objecttree.SignableChangeContent{Data: uniq(), Key: aw.k.of(au).SignKey, ShouldBeEncrypted: tw.filt, Timestamp: 3, DataType: "verif"})
	})
	rr.lastRaw = nil
	after := tw.observe()
	rr.plan = append(rr.plan, "local:"+au)
	model := rr.next
	rr.next++
	verdict := "reject"
	if err == nil && len(res.Added) == 1 {
		verdict = "accept"
		tw.bind(model, res.Added[0].Id)
	}
	info := fmt.Sprintf(" [AddContent with the key of %s: %s, err=%v; timeline %v]", au, verdict, err, aw.events)
	for _, f := range tw.checkHeld(after, &before) {
		rr.violate(f.key+"|local", f.desc+info)
	}
	if err != nil {
		if d := diffNoOp(before, after); d != "" {
			rr.violate("rejected-batch-not-noop|"+d+"|local", "AddContent returned an error but "+d+" changed"+info)
		}
	}
	// in the vocabulary of the specification: one plain change by au citing the newest record on the heads
	par := tw.project(before.heads)
	lm := logMember{Id: model, Kind: "ch", Au: au, Named: au, Cite: aw.n(), Par: par, Snap: tw.rev[before.root], CidOk: true, SigOk: true}
	att, heads, st, mr := rr.projection(after)
	rr.emit(map[string]any{"ev": "Deliver", "batch": []logMember{lm}, "mode": "raw", "v": verdict, "att": att, "heads": heads, "st": st, "mr": mr})
	rr.rep.AddSteps(1)
}

// describe computes the specification-level description of a raw change from its bytes
func (rr *recordRun) describe(model int, raw *treechangeproto.RawTreeChangeWithId) logMember {
	tw := rr.tw
	rd := tw.read(raw.Id, raw.RawChange)
	m := logMember{Id: model, Kind: "ch", Au: "X", Named: "X", Cite: tw.aw.n() + 1, Par: []int{}, Snap: unknownModelId, CidOk: rd.cidOk, SigOk: rd.sigOk}
	// another spelling of the right digest?
	if !rd.cidOk {
		if c, err := cid.Decode(raw.Id); err == nil && bytes.Equal(c.Hash(), canonicalCid(raw.RawChange).Hash()) {
			m.Al = true
		}
	}
	if !rd.parsed {
		// unreadable bytes: never authentic, whatever else they say
		m.SigOk = false
		return m
	}
	switch rd.account {
	case "S", "W":
		m.Au, m.Named = rd.account, rd.account
	}
	// the signed payload of a change handed out earlier, without a signature of its own
	if outer, _, err := splitRaw(raw.RawChange); err == nil && outer != nil && len(outer.Signature) == 0 {
		if g, ok := rr.payloads[sha256.Sum256(outer.Payload)]; ok && g != model {
			m.Tw = g
		}
	}
	if abs := tw.aw.absIndex(rd.aclHead); abs >= tw.aw.pre {
		m.Cite = abs - tw.aw.pre
	}
	for _, p := range rd.prev {
		m.Par = append(m.Par, rr.modelOf(p))
	}
	sort.Ints(m.Par)
	m.Snap = rr.modelOf(rd.snapshot)
	return m
}

func (rr *recordRun) stepDeliver() {
	tw := rr.tw
	aw := tw.aw
	rnd := rr.rnd
	before := tw.observe()
	size := 1 + rnd.Intn(3)
	var (
		batch  []*treechangeproto.RawTreeChangeWithId
		models []int
		descr  []string
	)
	saved := map[int]string{}
	for k, v := range tw.ids {
		saved[k] = v
	}
	for k := 0; k < size; k++ {
		au := []string{"S", "S", "W", "W", "X"}[rnd.Intn(5)]
		cite := rnd.Intn(aw.n() + 2)
		if rnd.Intn(3) == 0 {
			cite = aw.n()
		}
		var par []string
		snap := before.root
		switch p := rnd.Intn(20); {
		case k > 0 && p < 9:
			par = []string{batch[k-1].Id}
		case p < 13:
			par = append(par, before.heads...)
		case p < 15:
			par = []string{before.iter[rnd.Intn(len(before.iter))]}
		case p < 16:
			par = []string{before.root}
		case p < 17:
			par = append(append(par, before.heads...), before.root)
		case p < 18:
			par = []string{unknownChangeId}
		case p < 19 && tw.kind == "reduced" && before.root != tw.root.Id:
			par = []string{tw.root.Id}
			snap = tw.root.Id
		default:
			par = append(par, before.heads...)
		}
		sort.Strings(par)
		par = dedup(par)
		raw := tw.buildChange(au, aw.recId(cite), par, snap, false)
		model := rr.next
		rr.next++
		what := "plain"
		if rnd.Intn(5) == 0 {
			mc := allMuts[rnd.Intn(len(allMuts))]
			mm := member{Id: model, Au: au, Named: []string{"S", "W"}[rnd.Intn(2)], Cite: cite}
			if mc == "idDup" {
				mm.Id = tw.rev[before.iter[rnd.Intn(len(before.iter))]]
			}
			if mc == "twin" {
				// the twin of what the builder unmarshals just before: the previous member of this
				// batch, or the change handed to the tree last
				genuine := rr.lastRaw
				if k > 0 {
					genuine = batch[k-1]
				}
				if genuine != nil && genuine.Id != tw.root.Id {
					if _, _, err := splitRaw(genuine.RawChange); err == nil {
						raw, what = twinOf(genuine, rnd.Intn(2))
					}
				}
			} else {
				raw, what = tw.mutate(mm, mc, rnd.Intn(4000), raw)
			}
			what = mc + ": " + what
		}
		if _, held := tw.rev[raw.Id]; !held {
			tw.bind(model, raw.Id)
		} else {
			model = tw.rev[raw.Id]
		}
		batch = append(batch, raw)
		models = append(models, model)
		descr = append(descr, fmt.Sprintf("%s@%d %s", au, cite, what))
	}
	_ = saved
	rr.deliver(batch, models, descr, modes[rnd.Intn(len(modes))])
}

// deliver hands a batch of real raw changes to the tree, evaluates the oracles and logs the step
func (rr *recordRun) deliver(batch []*treechangeproto.RawTreeChangeWithId, models []int, descr []string, mode string) {
	tw := rr.tw
	aw := tw.aw
	before := tw.observe()
	deliver := append([]*treechangeproto.RawTreeChangeWithId{}, batch...)
	order := append([]int{}, models...)
	if mode == "reverse" {
		for i, j := 0, len(deliver)-1; i < j; i, j = i+1, j-1 {
			deliver[i], deliver[j] = deliver[j], deliver[i]
			order[i], order[j] = order[j], order[i]
		}
	}
	// remember the signed payloads handed out (a later signature-less copy is a "twin")
	for i, raw := range deliver {
		if outer, _, err := splitRaw(raw.RawChange); err == nil && outer != nil && len(outer.Signature) > 0 {
			if _, known := rr.payloads[sha256.Sum256(outer.Payload)]; !known {
				rr.payloads[sha256.Sum256(outer.Payload)] = order[i]
			}
		}
	}
	logged := make([]logMember, 0, len(deliver))
	for i, raw := range deliver {
		logged = append(logged, rr.describe(order[i], raw))
	}
	rr.lastRaw = deliver[len(deliver)-1]
	rr.plan = append(rr.plan, fmt.Sprintf("deliver(%s):%v", mode, descr))
	var (
		res objecttree.AddResult
		err error
	)
	func() {
		defer func() {
			if p := recover(); p != nil {
				if hb, ok := p.(harnessBroken); ok {
					panic(hb)
				}
				panic(codePanic{"AddRawChanges", fmt.Sprintf("%v (batch %v)", p, descr)})
			}
		}()
		tw.tree.Lock()
		defer tw.tree.Unlock()
		payload := objecttree.RawChangesPayload{NewHeads: leafIds(batch, tw), RawChanges: deliver}
		switch mode {
		case "updater-ok":
			res, err = tw.tree.AddRawChangesWithUpdater(bg, payload, func(objecttree.ObjectTree, objecttree.Mode) error { return nil })
		case "updater-err":
			res, err = tw.tree.AddRawChangesWithUpdater(bg, payload, func(objecttree.ObjectTree, objecttree.Mode) error { return errUpdater })
		default:
			res, err = tw.tree.AddRawChanges(bg, payload)
		}
	}()
	after := tw.observe()
	verdict := "accept"
	switch {
	case err != nil:
		verdict = "reject"
	case len(res.Added) == 0:
		verdict = "nothing"
	}
	info := fmt.Sprintf(" [batch %v delivered %s: %s, err=%v; timeline %v]", descr, mode, verdict, err, aw.events)
	for _, f := range tw.checkHeld(after, &before) {
		rr.violate(f.key+"|recorded", f.desc+info)
	}
	if err != nil {
		if d := diffNoOp(before, after); d != "" {
			rr.violate("rejected-batch-not-noop|"+d+"|recorded", "AddRawChanges returned an error but "+d+" changed"+info)
		}
	}
	att, heads, st, mr := rr.projection(after)
	lm := mode
	if mode == "reverse" || mode == "updater-ok" {
		lm = "raw"
	}
	rr.emit(map[string]any{"ev": "Deliver", "batch": logged, "mode": lm, "v": verdict, "att": att, "heads": heads, "st": st, "mr": mr})
	// forget the ids of changes the tree did not take
	held := map[string]bool{}
	for _, id := range after.iter {
		held[id] = true
	}
	for _, r := range after.stored {
		held[r.Id] = true
	}
	for m, id := range tw.ids {
		if !held[id] && (rr.futureRaw == nil || id != rr.futureRaw.Id || rr.futureEv == "") {
			delete(tw.ids, m)
			delete(tw.rev, id)
		}
	}
	rr.rep.AddSteps(1)
}

func dedup(s []string) []string {
	var res []string
	for i, x := range s {
		if i == 0 || x != s[i-1] {
			res = append(res, x)
		}
	}
	return res
}

// reopen: a second tree object built from the same storage against the same ACL
func (rr *recordRun) stepReopen() {
	tw := rr.tw
	var (
		tr  objecttree.ObjectTree
		err error
	)
	callCode("BuildObjectTree(reopen)", func() {
		switch {
		case tw.filt && tw.flavour == "emptydata":
			tr, err = objecttree.BuildEmptyDataKeyFilterableObjectTree(tw.store, tw.aw.acl)
		case tw.filt:
			tr, err = objecttree.BuildKeyFilterableObjectTree(tw.store, tw.aw.acl)
		case tw.flavour == "emptydata":
			tr, err = objecttree.BuildEmptyDataObjectTree(tw.store, tw.aw.acl)
		default:
			tr, err = objecttree.BuildObjectTree(tw.store, tw.aw.acl)
		}
	})
	rr.lastRaw = nil
	rr.plan = append(rr.plan, "reopen")
	if err != nil {
		rr.violate("stored-tree-does-not-reopen", fmt.Sprintf("a tree the code accepted change by change cannot be built again from its own storage: %v (timeline %v)", err, tw.aw.events))
		rr.emit(map[string]any{"ev": "Reopen", "ok": false, "att": []int{}, "heads": []int{}, "mr": 1})
		return
	}
	tw.tree = tr
	s := tw.observe()
	for _, f := range tw.checkHeld(s, nil) {
		rr.violate(f.key+"|reopened", f.desc)
	}
	att, heads, _, mr := rr.projection(s)
	rr.emit(map[string]any{"ev": "Reopen", "ok": true, "att": att, "heads": heads, "mr": mr})
}

func (rr *recordRun) run(steps int) {
	defer func() {
		if p := recover(); p != nil {
			cp, ok := p.(codePanic)
			if !ok {
				panic(p)
			}
			// the run ends here; what was logged so far is still validated
			rr.violate("panic-in-"+cp.where, fmt.Sprintf("the code under test panicked in %s: %v", cp.where, cp.val))
		}
	}()
	rr.payloads = map[[32]byte]int{}
	kind := []string{"signed", "signed", "derived", "reduced", "grown"}[rr.rnd.Intn(5)]
	filt := rr.rnd.Intn(4) == 0
	flavour := []string{"full", "emptydata"}[rr.rnd.Intn(2)]
	aw := newAclWorld()
	if f := checkFaithfulOn(aw, nil, snapshot{}); f != nil {
		rr.violate(f.key, f.desc)
		return
	}
	rr.tw = newTreeWorld(rr.wk, aw, kind, filt, flavour)
	rr.next = 3
	rr.plan = append(rr.plan, fmt.Sprintf("init:%s/%v/%s", kind, filt, flavour))
	rr.emit(map[string]any{"ev": "Init", "kind": kind, "filt": filt, "run": rr.label})
	for i := 0; i < steps; i++ {
		switch p := rr.rnd.Intn(24); {
		case p < 7 && aw.n() < 8:
			rr.stepAcl()
		case p < 18:
			rr.stepDeliver()
		case p < 20 && kind != "derived":
			rr.stepLocal()
		case p < 22 && rr.futureEv == "" && aw.n() < 8:
			rr.stepFuture()
		case p < 23:
			rr.stepOrphan()
		default:
			// the filtering trees re-filter on reopen (a different path, not part of this model)
			if !filt && kind != "reduced" {
				rr.stepReopen()
			}
		}
	}
}

func TestRecord(t *testing.T) {
	rep := vfutil.NewReport("C02")
	defer guard(t, rep)
	seed := vfutil.Seed()
	runs := vfutil.EnvInt("VERIF_RUNS", 40)
	steps := vfutil.EnvInt("VERIF_STEPS", 14)
	first, last := 0, runs
	if raw, ok := vfutil.ReplayFile(); ok {
		var ro struct {
			RecordRun string `json:"record_run"`
		}
		_ = json.Unmarshal(raw, &ro)
		var s int64
		var r int
		if _, err := fmt.Sscanf(ro.RecordRun, "seed=%d/run=%d", &s, &r); err != nil {
			t.Fatalf("not a recorded-run replay: %s", raw)
		}
		seed, first, last = s, r, r+1
	}
	path := os.Getenv("VERIF_TRACE_OUT")
	if path == "" {
		path = filepath.Join(t.TempDir(), "trace.ndjson")
	}
	keys()
	getPrelude(keys())
	type out struct{ lines []any }
	results := make([]out, last)
	var (
		wg    sync.WaitGroup
		mu    sync.Mutex
		fatal any
		jobs  = make(chan int)
	)
	workers := vfutil.EnvInt("VERIF_WORKERS", 8)
	for w := 0; w < workers; w++ {
		wg.Add(1)
		go func() {
			defer wg.Done()
			defer func() {
				if p := recover(); p != nil {
					mu.Lock()
					if fatal == nil {
						fatal = p
					}
					mu.Unlock()
					for range jobs {
					}
				}
			}()
			wk := newWorker()
			defer wk.close()
			for i := range jobs {
				rr := &recordRun{rnd: rand.New(rand.NewSource(seed*1000003 + int64(i))), rep: rep, wk: wk, label: fmt.Sprintf("seed=%d/run=%d", seed, i)}
				rr.run(steps)
				results[i] = out{rr.lines}
				rep.Case(fmt.Sprint(rr.plan))
				rep.AddReplayed(1)
				if i == first {
					rep.Sample(map[string]any{"recorded_run": rr.label, "plan": rr.plan})
				}
			}
		}()
	}
	for i := first; i < last; i++ {
		jobs <- i
	}
	close(jobs)
	wg.Wait()
	if fatal != nil {
		panic(fatal)
	}
	w := vfutil.NewTraceWriter(path)
	n := 0
	for _, o := range results {
		for _, l := range o.lines {
			w.Emit(l)
			n++
		}
	}
	w.Close()
	rep.SetExtra("trace_events", n)
}
