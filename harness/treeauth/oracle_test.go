package treeauth

// oracle_test.go: observation of the real tree (Heads, IterateRoot, Storage) and the property
// predicates of C02 evaluated on those observations. Nothing here consults the specification:
// authenticity is re-computed from the stored bytes with the crypto primitives, authorisation
// from the harness's own bookkeeping of the ACL history (which event was appended when).

import (
	"bytes"
	"context"
	"crypto/sha256"
	"fmt"
	"sort"
	"strings"

	"github.com/anyproto/any-sync/commonspace/object/tree/objecttree"
)

type storedRec struct {
	Id      string
	Order   string
	Prev    string
	Snap    string
	Counter int
	Hash    [32]byte
	raw     []byte
}

type snapshot struct {
	heads   []string // ObjectTree.Heads()
	iter    []string // ids in IterateRoot order
	from    string   // IterateFrom(id) for every iterated id
	root    string   // in-memory root
	stored  []storedRec
	sheads  []string // Storage.Heads()
	scommon string   // Storage.CommonSnapshot()
}

func (t *treeWorld) observe() snapshot {
	var s snapshot
	tr := t.tree
	var err error
	callCode("IterateRoot", func() {
		tr.Lock()
		defer tr.Unlock()
		s.heads = append([]string{}, tr.Heads()...)
		s.root = tr.Root().Id
		err = tr.IterateRoot(nil, func(c *objecttree.Change) bool {
			s.iter = append(s.iter, c.Id)
			return true
		})
		var sb strings.Builder
		for _, id := range s.iter {
			sb.WriteString(id[len(id)-6:] + ":")
			if !tr.HasChanges(id) {
				// iteration reaches something the tree does not hold (IterateFrom would start at nil)
				sb.WriteString("<not-held>;")
				continue
			}
			e := tr.IterateFrom(id, nil, func(c *objecttree.Change) bool {
				sb.WriteString(c.Id[len(c.Id)-6:] + ",")
				return true
			})
			if e != nil {
				sb.WriteString("err")
			}
			sb.WriteString(";")
		}
		s.from = sb.String()
	})
	if err != nil {
		broken("IterateRoot: %v", err)
	}
	err = t.store.GetAfterOrder(bg, "", func(ctx context.Context, c objecttree.StorageChange) (bool, error) {
		s.stored = append(s.stored, storedRec{Id: c.Id, Order: c.OrderId, Prev: strings.Join(c.PrevIds, ","), Snap: c.SnapshotId,
			Counter: c.SnapshotCounter, Hash: sha256.Sum256(c.RawChange), raw: append([]byte{}, c.RawChange...)})
		return true, nil
	})
	if err != nil {
		broken("GetAfterOrder: %v", err)
	}
	s.sheads, err = t.store.Heads(bg)
	if err != nil {
		broken("storage heads: %v", err)
	}
	s.scommon, err = t.store.CommonSnapshot(bg)
	if err != nil {
		broken("storage common snapshot: %v", err)
	}
	sort.Strings(s.heads)
	sort.Strings(s.sheads)
	return s
}

func (s snapshot) storedIds() map[string]storedRec {
	m := map[string]storedRec{}
	for _, r := range s.stored {
		m[r.Id] = r
	}
	return m
}

// diffNoOp: which observable differs between two snapshots ("" = identical, byte for byte)
func diffNoOp(a, b snapshot) string {
	if strings.Join(a.heads, ",") != strings.Join(b.heads, ",") {
		return "heads"
	}
	if strings.Join(a.iter, ",") != strings.Join(b.iter, ",") || a.root != b.root {
		return "iteration"
	}
	if a.from != b.from {
		return "iterate-from"
	}
	if len(a.stored) != len(b.stored) {
		return "storage"
	}
	for i := range a.stored {
		x, y := a.stored[i], b.stored[i]
		if x.Id != y.Id || x.Order != y.Order || x.Prev != y.Prev || x.Snap != y.Snap || x.Counter != y.Counter || x.Hash != y.Hash || !bytes.Equal(x.raw, y.raw) {
			return "storage"
		}
	}
	if strings.Join(a.sheads, ",") != strings.Join(b.sheads, ",") || a.scommon != b.scommon {
		return "storage-heads"
	}
	return ""
}

type finding struct{ key, desc string }

// checkChange evaluates the C02 predicates on one change the tree holds (in memory and / or on
// disk), reading its bytes from storage. all = every stored record by id.
func (t *treeWorld) checkChange(id string, all map[string]storedRec) *finding {
	rec, ok := all[id]
	if !ok {
		return &finding{"attached-not-persisted", fmt.Sprintf("change %s is iterated but storage does not hold it", id)}
	}
	r := t.read(id, rec.raw)
	if !r.cidOk {
		return &finding{"unauthentic-cid", fmt.Sprintf("change %s is held but its id is not the content hash of its stored bytes", id)}
	}
	if !r.parsed {
		return &finding{"unauthentic-unparsable", fmt.Sprintf("change %s is held but its bytes do not parse", id)}
	}
	if r.isRoot && r.derived {
		return nil // the unsigned deterministic root of a derived tree
	}
	if !r.sigOk {
		return &finding{"unauthentic-signature", fmt.Sprintf("change %s is held but its signature does not verify under the identity it names (%s)", id, r.account)}
	}
	abs := t.aw.absIndex(r.aclHead)
	if abs < 0 {
		return &finding{"unauthorised-unknown-record", fmt.Sprintf("change %s is held but cites ACL record %s which the local ACL does not hold", id, r.aclHead)}
	}
	if !t.aw.truthWriter(r.account, abs) {
		return &finding{"unauthorised-not-writer", fmt.Sprintf("change %s by %s is held but %s had no write permission at the cited record %d (timeline %v)",
			id, r.account, r.account, abs-t.aw.pre, t.aw.events)}
	}
	if r.isRoot {
		return nil
	}
	for _, p := range r.prev {
		prec, ok := all[p]
		if !ok {
			return &finding{"parent-not-persisted", fmt.Sprintf("change %s is held but its parent %s is not in storage", id, p)}
		}
		pr := t.read(p, prec.raw)
		if pr.isRoot && pr.derived {
			continue
		}
		if pabs := t.aw.absIndex(pr.aclHead); pabs > abs {
			return &finding{"unauthorised-older-than-parent", fmt.Sprintf("change %s cites record %d, older than record %d cited by its parent %s",
				id, abs-t.aw.pre, pabs-t.aw.pre, p)}
		}
	}
	return nil
}

// checkHeld runs checkChange on every change iterated or stored (new = only those not in before)
func (t *treeWorld) checkHeld(after snapshot, before *snapshot) []finding {
	var res []finding
	all := after.storedIds()
	old := map[string]bool{}
	if before != nil {
		for _, id := range before.iter {
			old[id] = true
		}
		for _, r := range before.stored {
			old[r.Id] = true
		}
	}
	seen := map[string]bool{}
	ids := append([]string{}, after.iter...)
	for _, r := range after.stored {
		ids = append(ids, r.Id)
	}
	for _, id := range ids {
		if seen[id] || old[id] {
			continue
		}
		seen[id] = true
		if f := t.checkChange(id, all); f != nil {
			res = append(res, *f)
		}
	}
	return res
}

// checkFaithful: the ACL's own answer to "could the identity write at the cited record" for every
// change the tree holds must still be yes, whatever was appended to the ACL since (the validator
// re-asks this question on every rebuild / reopen), and for S it must equal the true history.
func (t *treeWorld) checkFaithful(s snapshot) *finding {
	return checkFaithfulOn(t.aw, t, s)
}

// checkFaithfulOn: t may be nil (no tree yet: only the ACL's answers are checked)
func checkFaithfulOn(aw *aclWorld, t *treeWorld, s snapshot) *finding {
	st := aw.acl.AclState()
	sPub := aw.k.S.SignKey.GetPublic()
	for i := 0; i <= aw.n() && !aw.unfaithful; i++ {
		p, err := st.PermissionsAtRecord(aw.recId(i), sPub)
		got := "none"
		if err == nil {
			got = permName(p)
		}
		if got != aw.truth[i] {
			aw.unfaithful = true // reported once, at the record after which the answer changed
			return &finding{"perm-history-unfaithful|" + aw.wipePattern(i),
				fmt.Sprintf("PermissionsAtRecord(record %d, S) = %s but S was %s at that record (timeline %v)", i, got, aw.truth[i], aw.events)}
		}
	}
	// W has been a writer since record 0
	for i := 0; i <= aw.n() && !aw.unfaithful; i++ {
		p, err := st.PermissionsAtRecord(aw.recId(i), aw.k.W.SignKey.GetPublic())
		if err != nil || !p.CanWrite() {
			aw.unfaithful = true
			return &finding{"perm-history-unfaithful|W",
				fmt.Sprintf("PermissionsAtRecord(record %d, W) = %v/%v but W has been a writer since record 0 (timeline %v)", i, p, err, aw.events)}
		}
	}
	if t == nil {
		return nil
	}
	all := s.storedIds()
	for _, rec := range s.stored {
		r := t.read(rec.Id, rec.raw)
		if !r.parsed || (r.isRoot && r.derived) || r.account == "?" || r.account == "" {
			continue
		}
		p, err := st.PermissionsAtRecord(r.aclHead, aw.k.of(r.account).SignKey.GetPublic())
		if err != nil || !p.CanWrite() {
			if aw.truthWriter(r.account, aw.absIndex(r.aclHead)) && !aw.heldReported {
				aw.heldReported = true
				return &finding{"held-change-no-longer-authorised",
					fmt.Sprintf("change %s by %s citing record %d is in the tree, %s was a writer there, but PermissionsAtRecord now says %v/%v (timeline %v)",
						rec.Id, r.account, aw.absIndex(r.aclHead)-aw.pre, r.account, p, err, aw.events)}
			}
		}
		_ = all
	}
	return nil
}

// wipePattern classifies the history around record i for violation keys: the events after i
// (e.g. "remove,addW") - stable across seeds, distinct for distinct histories
func (w *aclWorld) wipePattern(i int) string {
	if i < 0 || i > w.n() {
		return "?"
	}
	var later []string
	for _, e := range w.events[i:] {
		if e != "other" {
			later = append(later, e)
		}
	}
	return "later=" + strings.Join(later, ",")
}
