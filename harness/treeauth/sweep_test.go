package treeauth

// sweep_test.go: the byte-level half of C02. The mutation classes "bytes" (stored bytes altered,
// id kept) and "bytesReid" (bytes altered, id re-computed) of the specification are expanded over
// the real bytes of the candidate: every byte offset x two bit masks in the thorough tier, a
// seeded sample of offsets in the quick tier - for candidates delivered alone and at every
// position of a batch of valid changes, on signed, derived and reduced trees.

import (
	"fmt"
	"os"
	"sort"
	"testing"

	"verifharness/vfutil"
)

func TestSweep(t *testing.T) {
	rep := vfutil.NewReport("C02")
	defer guard(t, rep)
	if _, ok := vfutil.ReplayFile(); ok {
		return
	}
	seed := vfutil.Seed()
	ctxs, err := loadContexts(os.Getenv("VERIF_BEHAVIOURS"))
	if err != nil {
		t.Fatal(err)
	}
	maxCtx := vfutil.EnvInt("VERIF_SWEEP_CONTEXTS", 4)
	perCase := vfutil.EnvInt("VERIF_SWEEP_OFFSETS", 60) // 0 = every offset
	// contexts of the byte focus, one per (kind, filt, batch shape), deterministic order
	sort.Slice(ctxs, func(i, j int) bool { return ctxs[i].key() < ctxs[j].key() })
	wk := newWorker()
	defer wk.close()
	r := &runner{rep: rep, wk: wk, noFollowUp: true}
	seen := map[string]bool{}
	used := 0
	for _, c := range ctxs {
		if c.Focus != "bytes" || used >= maxCtx {
			continue
		}
		// The swept candidate is a change that is valid in every other respect (signed by W, citing
		// the newest record, built on the heads), so that only the altered bytes can be the reason
		// for rejecting it: alone and at every position of a chain of valid changes by W.
		n := len(c.Acl)
		base := 0
		for _, id := range c.Pre.St {
			if id > base {
				base = id
			}
		}
		var tw *treeWorld
		for _, m := range []string{"bytes", "bytesReid"} {
			for nf := 0; nf <= 2; nf++ {
				for pos := 0; pos <= nf; pos++ {
					shape := fmt.Sprintf("%s/%s/%d%d", c.Kind, m, nf, pos)
					if c.Filt || seen[shape] {
						continue
					}
					seen[shape] = true
					cs := &caseRec{D: desc{Nf: nf, Pos: pos, After: "child", Fc: n, Au: "W", Cite: n, Pk: "heads", M: m}, V: "reject", P: "reject",
						Att: c.Pre.Att, Heads: c.Pre.Heads, St: c.Pre.St, Mr: c.Pre.Mr}
					for k := 0; k <= nf; k++ {
						mb := member{Id: base + 1 + k, Kind: "ch", Au: "W", Named: "W", Cite: n, Par: c.Pre.Heads, Snap: c.Pre.Mr, CidOk: true, SigOk: true}
						if k > 0 {
							mb.Par = []int{base + k}
						}
						if k == pos {
							mb.CidOk, mb.SigOk = m == "bytesReid", false
						}
						cs.B = append(cs.B, mb)
					}
					if tw == nil {
						var ok bool
						tw, ok = r.buildContext(c, "full")
						rep.AddReplayed(1)
						if !ok {
							break
						}
						used++
					}
					// size of the candidate's bytes (all ids have the same length, so a stand-in with
					// already known parents has the same size)
					probe := cs.B[pos]
					probe.Par = make([]int, len(cs.B[pos].Par))
					for i := range probe.Par {
						probe.Par[i] = 1
					}
					probe.Snap = 1
					size := len(tw.renderPlain(probe).RawChange)
					var subs []int
					if m == "bytes" {
						for off := 0; off < size; off++ {
							subs = append(subs, 2*off, 2*off+1)
						}
					} else {
						for off := 0; off < size; off++ {
							subs = append(subs, 3*(2*off)+1, 3*(2*off+1)+1)
						}
						subs = append(subs, 0, 3, 6, 9) // the four "field altered without re-signing" variants
					}
					if perCase > 0 && len(subs) > perCase {
						rnd := vfutil.Rand()
						rnd.Seed(seed*31 + int64(len(shape)) + int64(size) + int64(nf*7+pos))
						rnd.Shuffle(len(subs), func(i, j int) { subs[i], subs[j] = subs[j], subs[i] })
						subs = subs[:perCase]
					}
					for _, sub := range subs {
						rep.Case(fmt.Sprintf("sweep|%s|sub=%d", shape, sub))
						if r.runCase(c, tw, cs, "raw", sub, "full") {
							var ok bool
							tw, ok = r.buildContext(c, "full")
							if !ok {
								break
							}
						}
					}
					rep.AddExtra("sweep_deliveries", len(subs))
					rep.AddExtra("sweep_candidates", 1)
				}
			}
		}
	}
	rep.SetExtra("sweep_contexts", used)
}
