package treeauth

// render_test.go: turning the specification's abstract change records into real bytes, applying
// the mutation classes to the real bytes, and the harness's own (code-independent) reading of a
// raw change: does the id re-compute, does the signature verify under the identity it names,
// which record does it cite, which parents does it name.

import (
	"fmt"
	"strings"

	"github.com/ipfs/go-cid"
	"github.com/multiformats/go-multibase"
	mh "github.com/multiformats/go-multihash"

	"github.com/anyproto/any-sync/commonspace/object/tree/treechangeproto"
	"github.com/anyproto/any-sync/util/crypto"
)

// canonicalCid: the one textual id of some bytes (CIDv1, dag-cbor, sha2-256, base32 lower case),
// computed with the CID libraries directly - the oracles must not ask the code under test
// (util/cidutil) whether an id is right.
func canonicalCid(raw []byte) cid.Cid {
	h, err := mh.Sum(raw, mh.SHA2_256, -1)
	if err != nil {
		panic(err)
	}
	return cid.NewCidV1(cid.DagCBOR, h)
}

// aliasId: another spelling of the id of the same bytes - same digest, byte-different string
func aliasId(raw []byte, sub int) (string, string) {
	c := canonicalCid(raw)
	enc := func(b multibase.Encoding) string {
		s, err := c.StringOfBase(b)
		if err != nil {
			panic(err)
		}
		return s
	}
	switch sub % 6 {
	case 0:
		return enc(multibase.Base32Upper), "base32upper spelling of the id"
	case 1:
		return enc(multibase.Base58BTC), "base58btc spelling of the id"
	case 2:
		return enc(multibase.Base16), "base16 spelling of the id"
	case 3:
		return enc(multibase.Base64url), "base64url spelling of the id"
	case 4:
		return cid.NewCidV1(cid.Raw, c.Hash()).String(), "same digest under the raw codec"
	default:
		return cid.NewCidV0(c.Hash()).String(), "same digest as CIDv0"
	}
}

// a change record of the specification (TreeAuthGen.Member)
type member struct {
	Id    int    `json:"id"`
	Kind  string `json:"kind"`
	Au    string `json:"au"`
	Named string `json:"named"`
	Cite  int    `json:"cite"`
	Par   []int  `json:"par"`
	Snap  int    `json:"snap"`
	CidOk bool   `json:"cidOk"`
	SigOk bool   `json:"sigOk"`
	Tw    int    `json:"tw"` // != 0: carries the signed payload of change Tw, without a signature field
	Al    bool   `json:"al"` // the id is another spelling of the hash of the bytes
}

// batch descriptor of the specification (TreeAuth.Descs)
type desc struct {
	Nf    int    `json:"nf"`
	Pos   int    `json:"pos"`
	After string `json:"after"`
	Fa    string `json:"fa"`
	Pre   bool   `json:"pre"`
	Fc    int    `json:"fc"`
	Au    string `json:"au"`
	Cite  int    `json:"cite"`
	Pk    string `json:"pk"`
	M     string `json:"m"`
}

func (d desc) String() string {
	return fmt.Sprintf("nf=%d pos=%d after=%s fa=%s fc=%d au=%s cite=%d pk=%s m=%s pre=%v", d.Nf, d.Pos, d.After, d.Fa, d.Fc, d.Au, d.Cite, d.Pk, d.M, d.Pre)
}

const unknownModelId = 99

func (t *treeWorld) realId(model int) string {
	if model == unknownModelId {
		return unknownChangeId
	}
	id, ok := t.ids[model]
	if !ok {
		broken("no real id for specification id %d", model)
	}
	return id
}

// renderPlain builds the un-mutated real change for a specification record: signed by c.Au,
// citing record c.Cite, naming the parents / snapshot by their real ids.
func (t *treeWorld) renderPlain(c member) *treechangeproto.RawTreeChangeWithId {
	prev := make([]string, 0, len(c.Par))
	for _, p := range c.Par {
		prev = append(prev, t.realId(p))
	}
	return t.buildChange(c.Au, t.aw.recId(c.Cite), prev, t.realId(c.Snap), false)
}

// twinOf builds the signature-less twin of a genuine raw change: exactly the same signed payload
// bytes, the signature field absent on the wire (sub even) or present but empty (sub odd), the id
// re-computed from the new bytes.
func twinOf(genuine *treechangeproto.RawTreeChangeWithId, sub int) (*treechangeproto.RawTreeChangeWithId, string) {
	outer := &treechangeproto.RawTreeChange{}
	if err := outer.UnmarshalVT(genuine.RawChange); err != nil {
		broken("twin: %v", err)
	}
	b := joinRaw(outer.Payload, nil)
	what := "signed payload of " + genuine.Id + " with the signature field absent"
	if sub%2 == 1 {
		b = append(b, 0x12, 0x00)
		what = "signed payload of " + genuine.Id + " with an empty signature field"
	}
	return &treechangeproto.RawTreeChangeWithId{RawChange: b, Id: reid(b)}, what + ", id recomputed"
}

func reid(raw []byte) string { return canonicalCid(raw).String() }

func splitRaw(raw []byte) (*treechangeproto.RawTreeChange, *treechangeproto.TreeChange, error) {
	outer := &treechangeproto.RawTreeChange{}
	if err := outer.UnmarshalVT(raw); err != nil {
		return nil, nil, err
	}
	inner := &treechangeproto.TreeChange{}
	if err := inner.UnmarshalVT(outer.Payload); err != nil {
		return outer, nil, err
	}
	return outer, inner, nil
}

func joinRaw(payload, sig []byte) []byte {
	b, err := (&treechangeproto.RawTreeChange{Payload: payload, Signature: sig}).MarshalVT()
	if err != nil {
		panic(err)
	}
	return b
}

// mutate applies mutation class m (sub-variant chosen by sub) to the real bytes of the candidate.
// It returns the raw change to deliver and a description of what exactly was done.
func (t *treeWorld) mutate(c member, m string, sub int, base *treechangeproto.RawTreeChangeWithId) (*treechangeproto.RawTreeChangeWithId, string) {
	cp := func() []byte { return append([]byte{}, base.RawChange...) }
	flip := func(sub int) ([]byte, string) {
		b := cp()
		off := (sub / 2) % len(b)
		mask := byte(0x01)
		if sub%2 == 1 {
			mask = 0x80
		}
		b[off] ^= mask
		return b, fmt.Sprintf("bit %#x of byte %d/%d flipped", mask, off, len(b))
	}
	switch m {
	case "none":
		return base, "unchanged"
	case "bytes":
		b, what := flip(sub)
		return &treechangeproto.RawTreeChangeWithId{RawChange: b, Id: base.Id}, what + ", id kept"
	case "bytesReid":
		if sub%3 != 0 {
			b, what := flip(sub / 3)
			return &treechangeproto.RawTreeChangeWithId{RawChange: b, Id: reid(b)}, what + ", id recomputed"
		}
		// a field of the signed payload altered without re-signing
		outer, inner, err := splitRaw(base.RawChange)
		if err != nil {
			broken("split: %v", err)
		}
		var what string
		switch (sub / 3) % 4 {
		case 0:
			inner.AclHeadId = t.aw.recId(0)
			if inner.AclHeadId == t.aw.recId(c.Cite) {
				inner.AclHeadId = unknownRecordId
			}
			what = "AclHeadId replaced"
		case 1:
			inner.TreeHeadIds = []string{t.root.Id, unknownChangeId}
			what = "TreeHeadIds replaced"
		case 2:
			inner.Timestamp++
			what = "Timestamp altered"
		default:
			inner.ChangesData = append(append([]byte{}, inner.ChangesData...), 'x')
			what = "ChangesData extended"
		}
		p, _ := inner.MarshalVT()
		b := joinRaw(p, outer.Signature)
		return &treechangeproto.RawTreeChangeWithId{RawChange: b, Id: reid(b)}, what + " without re-signing, id recomputed"
	case "id":
		switch sub % 4 {
		case 0:
			return &treechangeproto.RawTreeChangeWithId{RawChange: cp(), Id: reid(uniq())}, "id of other bytes"
		case 1:
			return &treechangeproto.RawTreeChangeWithId{RawChange: cp(), Id: "not-a-cid"}, "garbage id"
		case 2:
			id := []byte(base.Id)
			if id[len(id)-1] == 'a' {
				id[len(id)-1] = 'b'
			} else {
				id[len(id)-1] = 'a'
			}
			return &treechangeproto.RawTreeChangeWithId{RawChange: cp(), Id: string(id)}, "last id character altered"
		default:
			return &treechangeproto.RawTreeChangeWithId{RawChange: cp(), Id: strings.ToUpper(base.Id)}, "id upper-cased"
		}
	case "idAlias":
		id, what := aliasId(base.RawChange, sub)
		return &treechangeproto.RawTreeChangeWithId{RawChange: cp(), Id: id}, what
	case "idDup":
		return &treechangeproto.RawTreeChangeWithId{RawChange: cp(), Id: t.realId(c.Id)}, "id of a change the tree already holds"
	case "swap":
		outer, inner, err := splitRaw(base.RawChange)
		if err != nil {
			broken("split: %v", err)
		}
		ident, err := t.aw.k.of(c.Named).SignKey.GetPublic().Marshall()
		if err != nil {
			broken("marshal key: %v", err)
		}
		inner.Identity = ident
		p, _ := inner.MarshalVT()
		sig := outer.Signature
		what := "identity replaced by " + c.Named + "'s, old signature kept"
		if sub%2 == 1 {
			sig, err = t.aw.k.of(c.Au).SignKey.Sign(p)
			if err != nil {
				broken("sign: %v", err)
			}
			what = "identity replaced by " + c.Named + "'s, payload signed with " + c.Au + "'s key"
		}
		b := joinRaw(p, sig)
		return &treechangeproto.RawTreeChangeWithId{RawChange: b, Id: reid(b)}, what
	case "unsigned":
		outer, _, err := splitRaw(base.RawChange)
		if err != nil {
			broken("split: %v", err)
		}
		payload := outer.Payload
		what := "signature stripped"
		if sub%2 == 1 {
			payload, _ = (&treechangeproto.RootChange{SpaceId: spaceId, ChangeType: "verif", IsDerived: true, ChangePayload: uniq()}).MarshalVT()
			what = "payload replaced by an unsigned derived-root payload"
		}
		b := joinRaw(payload, nil)
		return &treechangeproto.RawTreeChangeWithId{RawChange: b, Id: reid(b)}, what + ", id recomputed"
	}
	broken("unknown mutation class %q", m)
	return nil, ""
}

// ---------------------------------------------------------------- independent reading of a raw change

type reading struct {
	cidOk    bool
	parsed   bool
	isRoot   bool
	derived  bool
	sigOk    bool
	account  string // "W" | "S" | "X" | "?" (unknown key) | "" (none)
	aclHead  string
	prev     []string
	snapshot string
}

// read interprets raw bytes with the protobuf types and crypto primitives only (no tree code).
func (t *treeWorld) read(id string, raw []byte) reading {
	r := reading{cidOk: canonicalCid(raw).String() == id}
	outer := &treechangeproto.RawTreeChange{}
	if err := outer.UnmarshalVT(raw); err != nil {
		return r
	}
	var identity []byte
	if id == t.root.Id {
		rc := &treechangeproto.RootChange{}
		if err := rc.UnmarshalVT(outer.Payload); err != nil {
			return r
		}
		r.isRoot, r.derived, r.aclHead, identity = true, rc.IsDerived, rc.AclHeadId, rc.Identity
	} else {
		tc := &treechangeproto.TreeChange{}
		if err := tc.UnmarshalVT(outer.Payload); err != nil {
			return r
		}
		r.aclHead, r.prev, r.snapshot, identity = tc.AclHeadId, tc.TreeHeadIds, tc.SnapshotBaseId, tc.Identity
	}
	r.parsed = true
	if r.derived {
		return r
	}
	pk, err := crypto.NewKeyStorage().PubKeyFromProto(identity)
	if err != nil {
		return r
	}
	r.account = "?"
	if n, ok := t.aw.k.byRaw[string(pk.Storage())]; ok {
		r.account = n
	}
	ok, err := pk.Verify(outer.Payload, outer.Signature)
	r.sigOk = err == nil && ok
	return r
}

func (r reading) authentic() bool {
	return r.cidOk && r.parsed && (r.sigOk || (r.isRoot && r.derived))
}
