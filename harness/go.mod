module verifharness

go 1.25.7

require github.com/anyproto/any-sync v0.0.0

require (
	github.com/gobwas/glob v0.2.3 // indirect
	go.uber.org/multierr v1.11.0 // indirect
	go.uber.org/zap v1.28.0 // indirect
	golang.org/x/exp v0.0.0-20260718201538-764159d718ef // indirect
)

replace github.com/anyproto/any-sync => /repo
