package treeorder

// random_test.go - C06, code -> spec direction: random honest histories on real trees (several
// writer trees that add on their heads, snapshot and exchange arbitrary batches; several observer
// trees that receive the resulting universe in random order, batching and duplication).  Every
// step is checked by the Go oracles and logged as one NDJSON event that TreeOrderTrace.tla
// validates (the step must be a step of TreeOrder.tla, all invariants are evaluated on the
// recorded states).

import (
	"fmt"
	"math/rand"
	"os"
	"sort"
	"strings"
	"testing"

	"github.com/anyproto/any-sync/commonspace/object/tree/objecttree"
	"github.com/anyproto/any-sync/commonspace/object/tree/treechangeproto"

	"verifharness/vfutil"
)

type randParams struct {
	Writers   int     `json:"writers"`
	Observers int     `json:"observers"`
	Changes   int     `json:"changes"`
	PSnap     float64 `json:"pSnap"`
	PSync     float64 `json:"pSync"`
	PNoPath   float64 `json:"pNoPath"`
	PDup      float64 `json:"pDup"`
	PReject   float64 `json:"pReject"` // a delivery is first attempted with one change the validator refuses
	History   int     `json:"history"` // history trees per observer at the end
	Signed    bool    `json:"signed"`  // random load runs: signed trees, own changes through AddContent
}

type traceState struct {
	Store []int  `json:"store"`
	Iter  []int  `json:"iter"`
	Root  int    `json:"root"`
	Heads []int  `json:"heads"`
	Mode  string `json:"mode"`
}

type traceEvent struct {
	Ev     string      `json:"ev"`
	R      string      `json:"r,omitempty"`
	Id     int         `json:"id,omitempty"`
	Prev   []int       `json:"prev"`
	Snap   int         `json:"snap"`
	IsSnap bool        `json:"isSnap"`
	Batch  []int       `json:"batch"`
	Bad    int         `json:"bad"`
	Heads  []int       `json:"heads"`
	Path   []int       `json:"path"`
	St     *traceState `json:"st,omitempty"`
	HRoot  int         `json:"hroot"`
	HIter  []int       `json:"hiter"`
	Seed   int64       `json:"seed,omitempty"`
	Params *randParams `json:"params,omitempty"`
}

type randCase struct {
	e      *env
	rep    *vfutil.Report
	prefix string
	reps   map[string]*replica
	last   map[string]*observation
	uni    map[int]uniCh
	robj   replayObj
	events []traceEvent
	log    []string
	nViol  int
	rng    *rand.Rand
	p      randParams
}

func (c *randCase) idOf(k int) string { return fmt.Sprintf("%s%02d", c.prefix, k) }
func (c *randCase) num(id string) int {
	var k int
	fmt.Sscanf(strings.TrimPrefix(id, c.prefix), "%d", &k)
	return k
}
func (c *randCase) nums(ids []string) []int {
	r := make([]int, len(ids))
	for i, x := range ids {
		r[i] = c.num(x)
	}
	return r
}
func (c *randCase) rawOf(k int) *treechangeproto.RawTreeChangeWithId {
	u := c.uni[k]
	return c.e.raw(chSpec{Id: c.idOf(k), Prev: intsToIds(c.idOf, u.Prev), Snap: c.idOf(u.Snap), IsSnap: u.IsSnap})
}

func (c *randCase) viol(key, desc string) {
	c.nViol++
	tail := c.log
	if len(tail) > 14 {
		tail = tail[len(tail)-14:]
	}
	c.rep.Violate(key, strings.ReplaceAll(desc, c.prefix, "")+" [history: ... "+strings.Join(tail, " ")+"]", c.robj)
}

func (c *randCase) stateOf(o *observation) *traceState {
	return &traceState{Store: c.nums(o.Store), Iter: c.nums(o.Iter), Root: c.num(o.Root), Heads: c.nums(o.Heads), Mode: o.Mode}
}

// after runs the oracles after a step of replica `name` and logs the event.
func (c *randCase) after(name string, ev traceEvent, res objecttree.AddResult, isReopen bool) bool {
	return c.afterKind(name, ev, res, isReopen, false)
}

func (c *randCase) afterKind(name string, ev traceEvent, res objecttree.AddResult, isReopen, isReject bool) bool {
	r := c.reps[name]
	o, err := observe(r)
	if err != nil {
		c.e.t.Fatalf("observe: %v", err)
	}
	if isReopen {
		lv := c.last[name]
		o.Mode = lv.Mode
		if !eqSeq(lv.Iter, o.Iter) || lv.Root != o.Root || !eqSeq(lv.Heads, o.Heads) {
			c.viol("reopen-differs-from-live", fmt.Sprintf("live tree: root %s heads %v presents %v; reopened: root %s heads %v presents %v",
				lv.Root, lv.Heads, lv.Iter, o.Root, o.Heads, o.Iter))
		}
	} else if isReject {
		o.Mode = c.last[name].Mode
	} else {
		o.Mode = modeName(res.Mode)
	}
	for _, v := range checkObservation(c.idOf(0), o) {
		c.viol(v.key, v.desc)
	}
	for _, v := range checkStep(c.last[name], o, !isReopen && !isReject) {
		c.viol(v.key, v.desc)
	}
	c.last[name] = o
	for _, v := range checkArrival(c.last) {
		c.viol(v.key, v.desc)
	}
	ev.R = name
	ev.St = c.stateOf(o)
	c.events = append(c.events, ev)
	c.rep.AddSteps(1)
	return c.nViol == 0
}

func (c *randCase) guarded(what string, f func() error) bool {
	err, pnc, hng := runGuarded(f)
	switch {
	case hng:
		c.viol("hang-in-"+what, "call did not return")
	case pnc != nil:
		c.viol("panic-in-"+what, fmt.Sprintf("panic: %v", pnc))
	case err != nil:
		c.viol("error-in-"+what, fmt.Sprintf("honest input refused: %v", err))
	default:
		return true
	}
	return false
}

func (c *randCase) deliver(dst, src string, batch []int, withPath bool) bool {
	s := c.reps[src]
	heads, path := s.heads(), []string{}
	if withPath {
		path = s.snapshotPath()
	}
	raws := make([]*treechangeproto.RawTreeChangeWithId, len(batch))
	for i, k := range batch {
		raws[i] = c.rawOf(k)
	}
	// transient refusal first: the same payload with one change the receiver's validator refuses
	// (a copy citing an acl record the receiver does not know); if that change attaches the whole
	// payload is rolled back (event Reject), otherwise it is an ordinary delivery
	if c.p.PReject > 0 && c.rng.Float64() < c.p.PReject {
		have := setOf(c.last[dst].Store)
		var cand []int
		for _, k := range batch {
			if !have[c.idOf(k)] {
				cand = append(cand, k)
			}
		}
		if len(cand) > 0 {
			bad := cand[c.rng.Intn(len(cand))]
			braws := make([]*treechangeproto.RawTreeChangeWithId, len(batch))
			for i, k := range batch {
				braws[i] = raws[i]
				if k == bad {
					u := c.uni[k]
					braws[i] = c.e.raw(chSpec{Id: c.idOf(k), Prev: intsToIds(c.idOf, u.Prev), Snap: c.idOf(u.Snap), IsSnap: u.IsSnap, AclHead: unknownAclHead})
				}
			}
			var (
				res  objecttree.AddResult
				aerr error
			)
			_, pnc, hng := runGuarded(func() error {
				res, aerr = c.reps[dst].addRaw(heads, path, braws...)
				return nil
			})
			if hng || pnc != nil {
				c.viol("hang-or-panic-in-rejected-Deliver", fmt.Sprintf("panic=%v hang=%v", pnc, hng))
				return false
			}
			if aerr != nil {
				c.log = append(c.log, fmt.Sprintf("%s.DeliverRejected(%v bad=%d heads=%v path=%v)", dst, batch, bad, c.nums(heads), c.nums(path)))
				if !c.afterKind(dst, traceEvent{Ev: "Reject", Batch: batch, Bad: bad, Heads: c.nums(heads), Path: c.nums(path)}, res, false, true) {
					return false
				}
				c.rep.AddExtra("rejected_deliveries", 1)
			} else {
				// the refused copy did not attach (parents missing): an ordinary delivery of the rest
				c.log = append(c.log, fmt.Sprintf("%s.Deliver(%v heads=%v path=%v)", dst, batch, c.nums(heads), c.nums(path)))
				if !c.after(dst, traceEvent{Ev: "Deliver", Batch: batch, Heads: c.nums(heads), Path: c.nums(path)}, res, false) {
					return false
				}
			}
		}
	}
	c.log = append(c.log, fmt.Sprintf("%s.Deliver(%v heads=%v path=%v)", dst, batch, c.nums(heads), c.nums(path)))
	var res objecttree.AddResult
	if !c.guarded("Deliver", func() error {
		var err error
		res, err = c.reps[dst].addRaw(heads, path, raws...)
		return err
	}) {
		return false
	}
	return c.after(dst, traceEvent{Ev: "Deliver", Batch: batch, Heads: c.nums(heads), Path: c.nums(path)}, res, false)
}

func runRandomOrderCase(e *env, rep *vfutil.Report, rng *rand.Rand, seed int64, p randParams, tw *vfutil.TraceWriter) {
	useMockBuilder()
	c := &randCase{e: e, rep: rep, prefix: e.nextPrefix(), reps: map[string]*replica{}, last: map[string]*observation{},
		uni: map[int]uniCh{0: {Id: 0, Snap: 0, IsSnap: true}}, robj: replayObj{Kind: "random-order", Seed: seed, Params: p}, rng: rng, p: p}
	root := e.rootRaw(c.idOf(0), 0)
	var writers, observers, all []string
	for i := 0; i < p.Writers; i++ {
		writers = append(writers, fmt.Sprintf("w%d", i))
	}
	for i := 0; i < p.Observers; i++ {
		observers = append(observers, fmt.Sprintf("o%d", i))
	}
	all = append(append(all, writers...), observers...)
	for i, n := range all {
		r, err := e.newReplica(i, root, mockBuild)
		if err != nil {
			e.t.Fatalf("replica: %v", err)
		}
		c.reps[n] = r
		o, _ := observe(r)
		o.Mode = "Nothing"
		c.last[n] = o
	}
	defer func() {
		for _, r := range c.reps {
			r.tree.Close()
		}
	}()
	c.events = append(c.events, traceEvent{Ev: "Reset", Seed: seed, Params: &p})
	pool := rng.Perm(p.Changes)
	created := 0
	storedNums := func(n string) []int {
		st, _ := c.reps[n].stored()
		return c.nums(ids(st))
	}
	randBatch := func(from []int, all bool) []int {
		var b []int
		for _, k := range from {
			if k != 0 && (all || rng.Intn(3) > 0) {
				b = append(b, k)
			}
		}
		rng.Shuffle(len(b), func(i, j int) { b[i], b[j] = b[j], b[i] })
		if len(b) > 0 && rng.Float64() < p.PDup {
			b = append(b, b[rng.Intn(len(b))])
			rng.Shuffle(len(b), func(i, j int) { b[i], b[j] = b[j], b[i] })
		}
		return b
	}
	// phase 1: writers build the universe
	for created < p.Changes && c.nViol == 0 {
		w := writers[rng.Intn(len(writers))]
		if rng.Float64() < p.PSync && len(writers) > 1 {
			v := writers[rng.Intn(len(writers))]
			if v == w {
				continue
			}
			b := randBatch(storedNums(v), rng.Intn(2) == 0)
			if len(b) == 0 {
				continue
			}
			if !c.deliver(w, v, b, rng.Float64() >= p.PNoPath) {
				break
			}
			continue
		}
		k := pool[created] + 1
		created++
		r := c.reps[w]
		u := uniCh{Id: k, Prev: c.nums(r.heads()), Snap: c.num(r.rootId()), IsSnap: rng.Float64() < p.PSnap}
		c.uni[k] = u
		c.log = append(c.log, fmt.Sprintf("%s.Add(%d prev=%v snapBase=%d snapshot=%v)", w, k, u.Prev, u.Snap, u.IsSnap))
		var res objecttree.AddResult
		if !c.guarded("Add", func() error {
			var err error
			res, err = r.addRaw([]string{c.idOf(k)}, r.snapshotPath(), c.rawOf(k))
			return err
		}) {
			break
		}
		if !c.after(w, traceEvent{Ev: "Add", Id: k, Prev: u.Prev, Snap: u.Snap, IsSnap: u.IsSnap}, res, false) {
			break
		}
	}
	// phase 2: observers (and writers) receive what the writers hold, in pieces
	for round := 0; round < 12*len(all) && c.nViol == 0; round++ {
		dst := all[rng.Intn(len(all))]
		src := writers[rng.Intn(len(writers))]
		if dst == src {
			continue
		}
		have := setOf(c.last[dst].Store)
		var missing, held []int
		for _, k := range storedNums(src) {
			if k == 0 {
				continue
			}
			if have[c.idOf(k)] {
				held = append(held, k)
			} else {
				missing = append(missing, k)
			}
		}
		if len(missing) == 0 {
			continue
		}
		b := randBatch(missing, rng.Intn(3) == 0)
		if rng.Intn(2) == 0 {
			// head-update style: one change whose parents the receiver already holds (so the trees
			// pass through many multi-head states, one change at a time)
			var ready []int
			for _, k := range missing {
				ok := true
				for _, q := range c.uni[k].Prev {
					ok = ok && have[c.idOf(q)]
				}
				if ok {
					ready = append(ready, k)
				}
			}
			if len(ready) > 0 {
				b = []int{ready[rng.Intn(len(ready))]}
			}
		}
		if rng.Intn(4) == 0 && len(held) > 0 && len(b) > 1 { // some changes the receiver already has
			b = append(b, held[rng.Intn(len(held))])
			rng.Shuffle(len(b), func(i, j int) { b[i], b[j] = b[j], b[i] })
		}
		if len(b) == 0 {
			continue
		}
		if !c.deliver(dst, src, b, rng.Float64() >= p.PNoPath) {
			break
		}
		if rng.Intn(5) == 0 {
			c.log = append(c.log, dst+".Reopen")
			if !c.guarded("Reopen", c.reps[dst].reopen) {
				break
			}
			if !c.after(dst, traceEvent{Ev: "Reopen"}, objecttree.AddResult{}, true) {
				break
			}
		}
	}
	// phase 3: history trees on random head sets
	for _, n := range all {
		if c.nViol > 0 {
			break
		}
		o := c.last[n]
		for h := 0; h < p.History && len(o.Store) > 1; h++ {
			var hs []string
			for len(hs) == 0 {
				for _, id := range o.Store {
					if rng.Intn(len(o.Store)) < 2 {
						hs = append(hs, id)
					}
				}
				if len(hs) > 3 {
					hs = hs[:3]
				}
			}
			sort.Strings(hs)
			// IncludeBeforeId=false with one head h = the tree just before h (heads = parents of h).
			// (h = root is excluded: BuildHistoryTree(Heads=[root], IncludeBeforeId=false) never
			// returns - commonSnapshot of no snapshots loops; observed, outside C06.)
			include, ask := true, hs
			if len(hs) == 1 && hs[0] != c.idOf(0) && rng.Intn(2) == 0 {
				include = false
				hs = sortedCopy(o.dag.prev[hs[0]])
			}
			c.log = append(c.log, fmt.Sprintf("%s.History(%v include=%v)", n, c.nums(ask), include))
			res, pnc, hng := buildHistory(c.reps[n], ask, include, false)
			if hng {
				c.viol("hang-in-history-tree", fmt.Sprintf("BuildHistoryTree(Heads=%v) did not return", hs))
				continue
			}
			if pnc != nil {
				c.viol("panic-in-history-tree", fmt.Sprintf("BuildHistoryTree(Heads=%v): %v", hs, pnc))
				continue
			}
			for _, v := range checkHistory(o, hs, res) {
				c.viol(v.key, v.desc)
			}
			if res.Err == "" {
				c.events = append(c.events, traceEvent{Ev: "History", R: n, Heads: c.nums(hs), HRoot: c.num(res.Root), HIter: c.nums(res.Iter)})
			}
		}
	}
	if tw != nil && c.nViol == 0 {
		nz := func(x []int) []int {
			if x == nil {
				return []int{}
			}
			return x
		}
		for _, ev := range c.events {
			ev.Prev, ev.Batch, ev.Heads, ev.Path, ev.HIter = nz(ev.Prev), nz(ev.Batch), nz(ev.Heads), nz(ev.Path), nz(ev.HIter)
			tw.Emit(ev)
		}
	}
}

func TestRandomOrder(t *testing.T) {
	rep := vfutil.NewReport(os.Getenv("VERIF_PROPERTY"))
	defer func() {
		if r := recover(); r != nil {
			rep.Save(false)
			panic(r)
		}
	}()
	runs := vfutil.EnvInt("VERIF_RUNS", 60)
	maxChanges := vfutil.EnvInt("VERIF_MAX_CHANGES", 14)
	traceRuns := vfutil.EnvInt("VERIF_TRACE_RUNS", runs)
	var tw *vfutil.TraceWriter
	if p := os.Getenv("VERIF_TRACE_OUT"); p != "" {
		tw = vfutil.NewTraceWriter(p)
		defer tw.Close()
	}
	e := newEnv(t, 7)
	base := vfutil.Seed()
	for i := 0; i < runs; i++ {
		seed := base*1000003 + int64(i)
		prng := rand.New(rand.NewSource(seed ^ 0x5eed)) // parameters; the case itself is a function of (seed, params)
		p := randParams{Writers: 2 + prng.Intn(2), Observers: 3 + prng.Intn(2), Changes: 6 + prng.Intn(maxChanges-5),
			PSnap: []float64{0.1, 0.2, 0.35}[prng.Intn(3)], PSync: 0.3, PNoPath: 0.2, PDup: 0.2, PReject: 0.5, History: 3}
		ctw := tw
		if i >= traceRuns { // later runs: Go oracles only
			ctw = nil
		}
		runRandomOrderCase(e, rep, rand.New(rand.NewSource(seed)), seed, p, ctw)
		rep.Case(fmt.Sprintf("w%d-o%d-c%d-s%.2f", p.Writers, p.Observers, p.Changes, p.PSnap))
		rep.AddReplayed(1)
		if i < 2 {
			rep.Sample(map[string]any{"random-order": p, "seed": seed})
		}
	}
	if tw != nil {
		rep.SetExtra("trace_events", tw.Len())
	}
	rep.Save(true)
	if rep.NumViolations() > 0 {
		t.Fail()
	}
}
