package treeorder

// load_test.go - property C09: full-sync responses.
//
//   TestLoadReplay : behaviours emitted by TreeLoadGen.tla - the steps that build two real sync trees
//                    plus, for the state reached, the response plan the specification predicts for
//                    every (responder, requester) pair and limit and for a requester without the tree.
//                    The real loader (ChangesAfterCommonSnapshotLoader + NextBatch) is run for every
//                    entry with the requester's real heads and snapshot path; change sizes are real
//                    byte sizes (model size x unit) and the limit is the model limit x unit.  The C09
//                    predicates are evaluated on the real batches; for selected entries the batches
//                    are applied to a clone of the requester through the real HandleResponse (or to a
//                    tree built like ValidateRawTreeDefault does for a peer without the tree), and the
//                    same request is served through HandleStreamRequest -> send().
//   TestRandomLoad : random larger honest histories, random pairs, byte limits chosen just below / at /
//                    above every cumulative boundary of the real sizes.

import (
	"context"
	"fmt"
	"math/rand"
	"os"
	"sort"
	"strings"
	"testing"

	"google.golang.org/protobuf/proto"

	"github.com/anyproto/any-sync/commonspace/object/tree/objecttree"
	"github.com/anyproto/any-sync/commonspace/object/tree/synctree/response"
	"github.com/anyproto/any-sync/commonspace/object/tree/treechangeproto"
	"github.com/anyproto/any-sync/commonspace/sync/objectsync/objectmessages"
	"github.com/anyproto/any-sync/protobuf"

	"verifharness/vfutil"
)

const unit = 256 // bytes per model size unit on the direct loader path

type batchExp struct {
	Ids   []int `json:"ids"`
	Heads []int `json:"heads"`
	Size  int   `json:"size"`
}

type loadExp struct {
	Resp    string     `json:"resp"`
	Req     string     `json:"req"`
	Limit   int        `json:"limit"`
	Heads   []int      `json:"heads"`
	Path    []int      `json:"path"`
	Batches []batchExp `json:"batches"`
}

type loadBehaviour struct {
	behaviour
	Loads []loadExp `json:"loads"`
}

// loadCase is the replay object of a C09 violation: the behaviour and the entry that failed
type loadCase struct {
	Behaviour *loadBehaviour `json:"behaviour"`
	Entry     int            `json:"entry"`
	Unit      int            `json:"unit"`
	Handler   bool           `json:"handler"`
	Signed    bool           `json:"signed"`
}

const signedUnit = 512 // bytes per model size unit on signed trees (a signed change has > 300 bytes of envelope)

type realBatch struct {
	Ids   []string
	Heads []string
	Path  []string
	Size  int
	Raws  []*treechangeproto.RawTreeChangeWithId
	Root  *treechangeproto.RawTreeChangeWithId
}

// runLoader = what HandleStreamRequest does with the producer: batches until the first empty one
func runLoader(resp *replica, theirPath, theirHeads []string, limit int) (bs []realBatch, err error) {
	resp.tree.Lock()
	it, err := resp.tree.ChangesAfterCommonSnapshotLoader(theirPath, theirHeads)
	resp.tree.Unlock()
	if err != nil {
		return nil, err
	}
	// every batch carries at least one change and no change is sent twice: more batches than
	// stored changes means the iterator does not make progress
	st, err := resp.stored()
	if err != nil {
		return nil, err
	}
	for n := 0; n <= len(st)+1; n++ {
		b, err := it.NextBatch(limit)
		if err != nil {
			return bs, err
		}
		if len(b.Batch) == 0 {
			return bs, nil
		}
		rb := realBatch{Heads: sortedCopy(b.Heads), Path: append([]string(nil), b.SnapshotPath...), Raws: b.Batch, Root: b.Root}
		for _, c := range b.Batch {
			rb.Ids = append(rb.Ids, c.Id)
			rb.Size += len(c.RawChange)
		}
		bs = append(bs, rb)
	}
	return bs, errNoProgress
}

// runHandler serves the requester's full-sync request through the real stream handler
func runHandler(resp, req *replica, theirPath, theirHeads []string) (bs []realBatch, err error) {
	r := objectmessages.NewByteRequest("requester", spaceId, resp.treeId, nil)
	full := treechangeproto.WrapFullRequest(&treechangeproto.TreeFullSyncRequest{Heads: theirHeads, SnapshotPath: theirPath}, nil)
	if r.Bytes, err = full.MarshalVT(); err != nil {
		return nil, err
	}
	st, err := resp.stored()
	if err != nil {
		return nil, err
	}
	_, err = resp.sync.HandleStreamRequest(resp.e.ctx, r, nopUpdater{}, func(m proto.Message) error {
		if len(bs) > len(st)+1 {
			return errNoProgress
		}
		pm, ok := m.(protobuf.Message)
		if !ok {
			return fmt.Errorf("unexpected message type %T", m)
		}
		rs := &response.Response{}
		if err := rs.SetProtoMessage(pm); err != nil {
			return err
		}
		rb := realBatch{Heads: sortedCopy(rs.Heads), Path: rs.SnapshotPath, Raws: rs.Changes, Root: rs.Root}
		for _, c := range rs.Changes {
			rb.Ids = append(rb.Ids, c.Id)
			rb.Size += len(c.RawChange)
		}
		bs = append(bs, rb)
		return nil
	})
	// an answer without changes (heads equal / requester ahead) is one empty response
	if len(bs) == 1 && len(bs[0].Ids) == 0 {
		bs = nil
	}
	return bs, err
}

var errNoProgress = fmt.Errorf("more batches than stored changes: the load iterator does not make progress")

type nopUpdater struct{}

func (nopUpdater) UpdateQueueSize(size uint64, msgType int, add bool) {}

// checkBatches evaluates the C09 predicates on real batches. respObs / reqObs = what the two
// trees store (reqObs nil = requester without the tree).
func checkBatches(respObs, reqObs *observation, reqHeads []string, bs []realBatch, limit int, sizes map[string]int) []verdict {
	var vs []verdict
	add := func(k, f string, a ...any) { vs = append(vs, verdict{k, fmt.Sprintf(f, a...)}) }
	d := respObs.dag
	respSet := setOf(respObs.Store)
	reqSet := map[string]bool{}
	if reqObs != nil {
		reqSet = setOf(reqObs.Store)
	}
	var all []string
	for _, b := range bs {
		all = append(all, b.Ids...)
	}
	sent := setOf(all)
	if len(sent) != len(all) {
		add("load-change-sent-twice", "stream %v repeats a change", all)
	}
	for _, id := range all {
		if !respSet[id] {
			add("load-unknown-change", "sent change %s is not stored by the responder", id)
			return vs
		}
	}
	for _, id := range respObs.Store {
		if !reqSet[id] && !sent[id] {
			add("load-incomplete", "responder holds %s, requester lacks it, but the batches %v do not contain it", id, batchIds(bs))
			break
		}
	}
	// nothing at or below a requester head the responder knows is sent again
	var known []string
	for _, h := range reqHeads {
		if respSet[h] {
			known = append(known, h)
		}
	}
	if below := d.ancEq(known...); len(known) > 0 {
		for _, id := range all {
			if below[id] {
				add("load-known-ancestor-sent", "%s is at or below the requester head(s) %v which the responder holds, but is sent again (stream %v)", id, known, batchIds(bs))
				break
			}
		}
	}
	pos := map[string]int{}
	for i, id := range all {
		pos[id] = i
	}
	for i, id := range all {
		for _, p := range d.prev[id] {
			if reqSet[p] {
				continue
			}
			if j, ok := pos[p]; !ok || j > i {
				add("load-not-causal", "%s is sent before its parent %s which the requester does not have (stream %v)", id, p, batchIds(bs))
			}
		}
	}
	reqBelow := map[string]bool{}
	if reqObs != nil {
		reqBelow = d.ancEq(reqHeads...)
	}
	sofar := map[string]bool{}
	for k, b := range bs {
		// the size of a batch is what is actually sent: the raw bytes of its changes (never storage metadata)
		sz := 0
		for _, raw := range b.Raws {
			sz += len(raw.RawChange)
		}
		for _, id := range b.Ids {
			sofar[id] = true
		}
		if len(b.Ids) != 1 && sz > limit {
			add("load-batch-over-limit", "batch %d %v has %d bytes, limit %d", k+1, b.Ids, sz, limit)
		}
		hs := setOf(b.Heads)
		brings := false
		for _, id := range b.Ids {
			if !reqSet[id] {
				brings = true
			}
			covered := false
			for _, h := range b.Heads {
				if d.has(h) && d.ancEq(h)[id] {
					covered = true
				}
			}
			if !covered {
				add("load-heads-do-not-cover-batch", "batch %d %v announces heads %v: %s is not at or below any of them", k+1, b.Ids, b.Heads, id)
			}
		}
		allKnown := true
		for _, h := range b.Heads {
			if !respSet[h] {
				add("load-head-not-held", "batch %d announces head %s which the responder does not store", k+1, h)
				continue
			}
			if !sofar[h] && !reqBelow[h] {
				add("load-head-not-sent", "batch %d announces head %s which has not been sent and is not at or below a requester head", k+1, h)
			}
			anc := d.ancEq(h)
			for g := range hs {
				if g != h && anc[g] {
					add("load-heads-related", "batch %d announces heads %v: %s is an ancestor of %s", k+1, b.Heads, g, h)
				}
			}
			if !reqSet[h] {
				allKnown = false
			}
		}
		if brings && allKnown && reqObs != nil {
			add("load-heads-all-known", "batch %d %v brings new changes but announces only heads %v the requester already has", k+1, b.Ids, b.Heads)
		}
	}
	return vs
}

func loadFailKey(err error) string {
	if err == errNoProgress || (err != nil && strings.Contains(err.Error(), errNoProgress.Error())) {
		return "load-no-progress"
	}
	return "load-failed"
}

func batchIds(bs []realBatch) [][]string {
	r := make([][]string, len(bs))
	for i, b := range bs {
		r[i] = b.Ids
	}
	return r
}

// ---------------------------------------------------------------------------------------------

type loadRunner struct {
	freshBuild buildFunc // builder of a peer without the tree
	approx     bool      // sizes are targets (random runs read the real sizes back from storage)
	e          *env
	rep        *vfutil.Report
	idOf       func(int) string
	pretty     func(string) string
	uni        map[int]uniCh
	unit       int
	root       *treechangeproto.RawTreeChangeWithId
	nViol      int
	robj       replayObj
	what       string
}

func (lr *loadRunner) rawOf(k int) *treechangeproto.RawTreeChangeWithId {
	c := lr.uni[k]
	return lr.e.raw(chSpec{Id: lr.idOf(k), Prev: intsToIds(lr.idOf, c.Prev), Snap: lr.idOf(c.Snap), IsSnap: c.IsSnap, Size: c.Size * lr.unit, Approx: lr.approx})
}

func (lr *loadRunner) viol(key, desc string) {
	lr.nViol++
	lr.rep.Violate(key, lr.pretty(desc)+" ["+lr.what+"]", lr.robj)
}

// build replays the steps of one replica (all its inputs are in the step records) on database db
func (lr *loadRunner) build(b *behaviour, name string, db int) *replica {
	r, err := lr.e.newSyncReplica(db, lr.root, objecttree.BuildTestableTree)
	if err != nil {
		lr.e.t.Fatalf("replica: %v", err)
	}
	for _, s := range b.Steps {
		if s.R != name {
			continue
		}
		var err error
		switch s.Act {
		case "Add":
			_, err = r.addRaw([]string{lr.idOf(s.Id)}, r.snapshotPath(), lr.rawOf(s.Id))
		case "Deliver":
			raws := make([]*treechangeproto.RawTreeChangeWithId, len(s.Batch))
			for j, k := range s.Batch {
				raws[j] = lr.rawOf(k)
			}
			_, err = r.addRaw(intsToIds(lr.idOf, s.Heads), intsToIds(lr.idOf, s.Path), raws...)
		case "Reopen": // a reopened tree equals the live one (C06); sync trees are not reopened here
		}
		if err != nil {
			lr.e.t.Fatalf("building %s: step %s failed: %v", name, s.Act, err)
		}
	}
	return r
}

// apply feeds the batches to the requester through the real HandleResponse and checks that every
// batch is held afterwards
func (lr *loadRunner) apply(req *replica, bs []realBatch, what string) {
	for k, b := range bs {
		rs := &response.Response{SpaceId: spaceId, ObjectId: req.treeId, Heads: b.Heads, SnapshotPath: b.Path, Changes: b.Raws, Root: b.Root}
		err, pnc, hng := runGuarded(func() error { return req.sync.HandleResponse(lr.e.ctx, "responder", req.treeId, rs) })
		if hng || pnc != nil || err != nil {
			lr.viol("load-apply-failed", fmt.Sprintf("%s: applying batch %d %v (heads %v): err=%v panic=%v hang=%v", what, k+1, b.Ids, b.Heads, err, pnc, hng))
			return
		}
		o, oerr := observe(req)
		if oerr != nil {
			lr.e.t.Fatalf("observe: %v", oerr)
		}
		have := setOf(o.Store)
		for _, id := range b.Ids {
			if !have[id] {
				lr.viol("load-batch-not-attached", fmt.Sprintf("%s: after applying batch %d %v (heads %v, path %v) the requester does not hold %s; it stores %v", what, k+1, b.Ids, b.Heads, b.Path, id, o.Store))
				return
			}
		}
		for _, v := range checkObservation(req.treeId, o) {
			lr.viol("load-requester-"+v.key, what+": "+v.desc)
		}
	}
}

// applyFresh = objecttree.ValidateRawTreeDefault + responsecollector for a peer without the tree:
// storage with deferred creation, first batch must yield exactly the announced heads, no snapshot path
func (lr *loadRunner) applyFresh(db int, bs []realBatch, respStore []string, what string) {
	fb := lr.freshBuild
	if fb == nil {
		fb = objecttree.BuildEmptyDataTestableTree
	}
	r, err := lr.e.newDeferredReplica(db, lr.root, fb)
	if err != nil {
		lr.e.t.Fatalf("fresh replica: %v", err)
	}
	defer r.tree.Close()
	for k, b := range bs {
		var res objecttree.AddResult
		err, pnc, hng := runGuarded(func() error {
			var e2 error
			res, e2 = r.addRaw(b.Heads, nil, b.Raws...)
			return e2
		})
		if hng || pnc != nil || err != nil {
			lr.viol("load-fresh-apply-failed", fmt.Sprintf("%s: peer without the tree, batch %d %v: err=%v panic=%v hang=%v", what, k+1, b.Ids, err, pnc, hng))
			return
		}
		if k == 0 && !eqSeq(sortedCopy(res.Heads), b.Heads) {
			lr.viol("load-fresh-heads-mismatch", fmt.Sprintf("%s: peer without the tree: first batch %v announces heads %v but yields heads %v", what, b.Ids, b.Heads, res.Heads))
			return
		}
		if k == 0 {
			continue // deferred storage is created by the first write; checked after the next batches
		}
		st, serr := r.stored()
		if serr != nil {
			lr.e.t.Fatalf("stored: %v", serr)
		}
		have := setOf(ids(st))
		for _, id := range b.Ids {
			if !have[id] {
				lr.viol("load-fresh-batch-not-attached", fmt.Sprintf("%s: peer without the tree: after batch %d %v (heads %v) it does not hold %s; it stores %v", what, k+1, b.Ids, b.Heads, id, ids(st)))
				return
			}
		}
	}
	if len(bs) > 0 {
		st, _ := r.stored()
		if !eqSeq(ids(st), respStore) {
			lr.viol("load-fresh-tree-differs", fmt.Sprintf("%s: peer without the tree ends with %v, responder stores %v", what, ids(st), respStore))
		}
	}
}

func describeLoad(b *behaviour, l loadExp) string {
	return fmt.Sprintf("%s | responder %s requester %s heads=%v path=%v limit=%d", describeSteps(b, len(b.Steps)), l.Resp, l.Req, l.Heads, l.Path, l.Limit)
}

// runLoadBehaviour: all entries of one behaviour; `only` >= 0 restricts to one entry (replay).
func runLoadBehaviour(e *env, rep *vfutil.Report, lb *loadBehaviour, only int, applyEvery int, handlerEvery int, counter *int) {
	runLoadBehaviourOn(e, rep, lb, only, applyEvery, handlerEvery, counter, false)
}

// signedLoadSetup executes the behaviour on real signed trees: every Add is the replica's own
// AddContent (so the responder's storage rows of its own changes are written by AddContent), with
// the payload chosen so that the raw change has exactly model size x signedUnit bytes and its content
// id the rank the model chose.  Returns false if no such id was found (harness limit).
func (lr *loadRunner) signedLoadSetup(b *behaviour, reps map[string]*replica, real map[int]string, raws map[int]*treechangeproto.RawTreeChangeWithId) bool {
	e := lr.e
	for _, s := range b.Steps {
		r := reps[s.R]
		switch s.Act {
		case "Add":
			target := lr.uni[s.Id].Size * lr.unit
			fits := func(id string) bool {
				for k, other := range real {
					if k != 0 && (id < other) != (s.Id < k) {
						return false
					}
				}
				return true
			}
			mk := func(n, dataLen int) objecttree.SignableChangeContent {
				data := make([]byte, dataLen)
				copy(data, fmt.Sprintf("%016d", n))
				return objecttree.SignableChangeContent{Data: data, Key: e.keys.SignKey, IsSnapshot: s.IsSnap, Timestamp: 1700000000 + int64(s.Id), DataType: "verif"}
			}
			r.tree.Lock()
			dataLen, done := target-340, false
			if dataLen < 16 {
				dataLen = 16
			}
			for n := 0; n < 20000 && !done; n++ {
				c := mk(n, dataLen)
				raw, err := r.tree.PrepareChange(c)
				if err != nil {
					r.tree.Unlock()
					e.t.Fatalf("signed load: prepare: %v", err)
				}
				if d := target - len(raw.RawChange); d != 0 {
					dataLen += d
					if dataLen < 16 {
						r.tree.Unlock()
						e.t.Fatalf("signed load: a signed change cannot be as small as %d bytes", target)
					}
					continue
				}
				if !fits(raw.Id) {
					continue
				}
				res, err := r.tree.AddContent(e.ctx, c)
				if err != nil || len(res.Added) != 1 || res.Added[0].Id != raw.Id {
					r.tree.Unlock()
					e.t.Fatalf("signed load: AddContent: %v", err)
				}
				real[s.Id] = raw.Id
				raws[s.Id] = &treechangeproto.RawTreeChangeWithId{RawChange: append([]byte(nil), res.Added[0].RawChange...), Id: raw.Id}
				done = true
			}
			r.tree.Unlock()
			if !done {
				return false
			}
		case "Deliver":
			rs := make([]*treechangeproto.RawTreeChangeWithId, len(s.Batch))
			for j, k := range s.Batch {
				rs[j] = raws[k]
			}
			if _, err := r.addRaw(intsToIds(lr.idOf, s.Heads), intsToIds(lr.idOf, s.Path), rs...); err != nil {
				e.t.Fatalf("signed load: deliver failed: %v", err)
			}
		}
	}
	return true
}

func runLoadBehaviourOn(e *env, rep *vfutil.Report, lb *loadBehaviour, only int, applyEvery int, handlerEvery int, counter *int, signed bool) {
	lr := &loadRunner{e: e, rep: rep, unit: unit, uni: map[int]uniCh{}}
	for _, c := range lb.Universe {
		lr.uni[c.Id] = c
	}
	b := &lb.behaviour
	reps := map[string]*replica{}
	obs := map[string]*observation{}
	sizes := map[string]int{}
	var cloneOf func(name string, db int) *replica
	unit := unit
	if signed {
		useRealBuilder()
		unit = signedUnit
		lr.unit = unit
		real := map[int]string{}
		raws := map[int]*treechangeproto.RawTreeChangeWithId{}
		seedBytes := []byte(e.nextPrefix())
		var root *treechangeproto.RawTreeChangeWithId
		pad, target := 0, lr.uni[0].Size*unit
		for i := 0; i < 16; i++ {
			var err error
			root, err = objecttree.CreateObjectTreeRoot(objecttree.ObjectTreeCreatePayload{PrivKey: e.keys.SignKey, ChangeType: "verif", SpaceId: spaceId,
				Seed: seedBytes, Timestamp: 1700000000, ChangePayload: make([]byte, pad)}, e.acl)
			if err != nil {
				e.t.Fatalf("signed root: %v", err)
			}
			if len(root.RawChange) == target {
				break
			}
			pad += target - len(root.RawChange)
			if pad < 0 {
				e.t.Fatalf("signed root cannot be as small as %d bytes", target)
			}
		}
		if len(root.RawChange) != target {
			rep.AddExtra("signed_behaviours_abandoned", 1)
			return
		}
		lr.root = root
		real[0] = root.Id
		lr.idOf = func(k int) string { return real[k] }
		lr.pretty = func(x string) string {
			for k, id := range real {
				x = strings.ReplaceAll(x, id, fmt.Sprintf("%02d", k))
			}
			return x
		}
		lr.freshBuild = objecttree.BuildEmptyDataObjectTree
		for i, name := range b.Replicas {
			r, err := e.newSyncReplica(i, root, objecttree.BuildObjectTree)
			if err != nil {
				e.t.Fatalf("replica: %v", err)
			}
			reps[name] = r
		}
		if !lr.signedLoadSetup(b, reps, real, raws) {
			for _, r := range reps {
				r.tree.Close()
			}
			rep.AddExtra("signed_behaviours_abandoned", 1)
			return
		}
		cloneOf = func(name string, db int) *replica {
			r, err := e.newSyncReplica(db, root, objecttree.BuildObjectTree)
			if err != nil {
				e.t.Fatalf("clone: %v", err)
			}
			for _, s := range b.Steps {
				if s.R != name {
					continue
				}
				var err error
				switch s.Act {
				case "Add":
					_, err = r.addRaw([]string{real[s.Id]}, r.snapshotPath(), raws[s.Id])
				case "Deliver":
					rs := make([]*treechangeproto.RawTreeChangeWithId, len(s.Batch))
					for j, k := range s.Batch {
						rs[j] = raws[k]
					}
					_, err = r.addRaw(intsToIds(lr.idOf, s.Heads), intsToIds(lr.idOf, s.Path), rs...)
				}
				if err != nil {
					e.t.Fatalf("clone of %s: %v", name, err)
				}
			}
			return r
		}
		rep.AddExtra("signed_load_behaviours", 1)
	} else {
		useMockBuilder()
		prefix := e.nextPrefix()
		lr.idOf = func(k int) string { return fmt.Sprintf("%s%02d", prefix, k) }
		lr.pretty = func(x string) string { return strings.ReplaceAll(x, prefix, "") }
		lr.root = e.rootRaw(lr.idOf(0), lr.uni[0].Size*unit)
		for i, name := range b.Replicas {
			reps[name] = lr.build(b, name, i)
		}
		cloneOf = func(name string, db int) *replica { return lr.build(b, name, db) }
	}
	for _, name := range b.Replicas {
		o, err := observe(reps[name])
		if err != nil {
			e.t.Fatalf("observe: %v", err)
		}
		obs[name] = o
		st, _ := reps[name].stored()
		for _, c := range st {
			sizes[c.Id] = c.Size
		}
	}
	defer func() {
		for _, r := range reps {
			r.tree.Close()
		}
	}()
	nextDB := len(b.Replicas)
	drifted := false
	for li, l := range lb.Loads {
		if only >= 0 && li != only {
			continue
		}
		*counter++
		lr.what = describeLoad(b, l)
		lr.robj = replayObj{Kind: "load", Load: &loadCase{Behaviour: lb, Entry: li, Unit: unit, Signed: signed}}
		if signed {
			lr.what = "signed trees, own changes through AddContent: " + lr.what
		}
		resp := reps[l.Resp]
		var (
			reqObs           *observation
			theirHeads, path []string
		)
		if l.Req != "fresh" {
			reqObs = obs[l.Req]
			theirHeads, path = reps[l.Req].heads(), reps[l.Req].snapshotPath()
			if !drifted && (!eqSeq(theirHeads, intsToIds(lr.idOf, l.Heads)) || !eqSeq(path, intsToIds(lr.idOf, l.Path))) {
				rep.DriftNote("requester heads/path: spec %v %v real %v %v [%s]", l.Heads, l.Path, lr.pretty(fmt.Sprint(theirHeads)), lr.pretty(fmt.Sprint(path)), lr.what)
				drifted = true
			}
		}
		limit := l.Limit * unit
		var bs []realBatch
		err, pnc, hng := runGuarded(func() error {
			var e2 error
			bs, e2 = runLoader(resp, path, theirHeads, limit)
			return e2
		})
		if hng || pnc != nil || err != nil {
			lr.viol(loadFailKey(err), fmt.Sprintf("loader: err=%v panic=%v hang=%v; batches so far %v", err, pnc, hng, batchIds(bs)))
			continue
		}
		before := lr.nViol
		for _, v := range checkBatches(obs[l.Resp], reqObs, theirHeads, bs, limit, sizes) {
			lr.viol(v.key, v.desc)
		}
		if l.Req == "fresh" {
			if all := flatten(bs); !eqSeq(all, obs[l.Resp].Store) {
				lr.viol("load-empty-heads-not-all", fmt.Sprintf("empty-heads request returns %v, responder stores %v", all, obs[l.Resp].Store))
			}
		}
		// prediction vs. real batches
		if lr.nViol == before && !drifted && l.Batches != nil {
			if d := diffPlan(l.Batches, bs, lr.idOf); d != "" {
				rep.DriftNote("plan: %s [%s]", lr.pretty(d), lr.what)
				drifted = true
			}
		}
		rep.AddSteps(1)
		// application on the requester side
		if lr.nViol == before && len(bs) > 0 && (only >= 0 || (applyEvery > 0 && *counter%applyEvery == 0)) {
			if l.Req == "fresh" {
				lr.applyFresh(nextDB, bs, obs[l.Resp].Store, "loader")
			} else {
				clone := cloneOf(l.Req, nextDB)
				lr.apply(clone, bs, "loader")
				clone.tree.Close()
			}
			nextDB++
			rep.AddExtra("applied_plans", 1)
		}
	}
	// the same entries served through the real stream handler (fixed 1 MiB batch limit: the byte
	// unit is chosen so that the model limit corresponds to it)
	if handlerEvery > 0 && only < 0 && !signed {
		for li, l := range lb.Loads {
			if l.Limit < 2 {
				continue
			}
			handlerSeen++
			if handlerSeen%handlerEvery == 0 {
				runHandlerEntry(e, rep, lb, li)
			}
		}
	}
}

const handlerLimit = 1024 * 1024 // synctree.batchSize

var handlerSeen int // eligible entries seen so far (every handlerEvery-th is served through the handler)

// runHandlerEntry builds responder and requester with a byte unit that maps the entry's model limit
// to the handler's fixed limit, serves the requester's real full-sync request through
// HandleStreamRequest -> send(), evaluates the predicates on the messages sent and applies them to
// the requester through HandleResponse.
func runHandlerEntry(e *env, rep *vfutil.Report, lb *loadBehaviour, li int) {
	useMockBuilder()
	l := lb.Loads[li]
	u := (handlerLimit + l.Limit - 1) / l.Limit
	prefix := e.nextPrefix()
	lr := &loadRunner{e: e, rep: rep, unit: u, uni: map[int]uniCh{}}
	lr.idOf = func(k int) string { return fmt.Sprintf("%s%02d", prefix, k) }
	lr.pretty = func(x string) string { return strings.ReplaceAll(x, prefix, "") }
	for _, c := range lb.Universe {
		lr.uni[c.Id] = c
	}
	lr.root = e.rootRaw(lr.idOf(0), lr.uni[0].Size*u)
	b := &lb.behaviour
	lr.what = "stream handler: " + describeLoad(b, l)
	lr.robj = replayObj{Kind: "load", Load: &loadCase{Behaviour: lb, Entry: li, Unit: u, Handler: true}}
	resp := lr.build(b, l.Resp, 0)
	defer resp.tree.Close()
	respObs, err := observe(resp)
	if err != nil {
		e.t.Fatalf("observe: %v", err)
	}
	sizes := map[string]int{}
	st, _ := resp.stored()
	for _, c := range st {
		sizes[c.Id] = c.Size
	}
	var (
		req              *replica
		reqObs           *observation
		theirHeads, path []string
	)
	if l.Req != "fresh" {
		req = lr.build(b, l.Req, 1)
		defer req.tree.Close()
		if reqObs, err = observe(req); err != nil {
			e.t.Fatalf("observe: %v", err)
		}
		theirHeads, path = req.heads(), req.snapshotPath()
	}
	var bs []realBatch
	herr, pnc, hng := runGuarded(func() error {
		var e2 error
		bs, e2 = runHandler(resp, req, path, theirHeads)
		return e2
	})
	if hng || pnc != nil || herr != nil {
		lr.viol("handler-"+loadFailKey(herr), fmt.Sprintf("HandleStreamRequest: err=%v panic=%v hang=%v; batches so far %v", herr, pnc, hng, batchIds(bs)))
		return
	}
	before := lr.nViol
	for _, v := range checkBatches(respObs, reqObs, theirHeads, bs, handlerLimit, sizes) {
		lr.viol(v.key, v.desc)
	}
	if l.Req == "fresh" {
		if all := flatten(bs); !eqSeq(all, respObs.Store) {
			lr.viol("load-empty-heads-not-all", fmt.Sprintf("empty-heads request returns %v, responder stores %v", all, respObs.Store))
		}
	}
	if lr.nViol == before && l.Batches != nil {
		if d := diffPlan(l.Batches, bs, lr.idOf); d != "" {
			rep.DriftNote("handler plan: %s [%s]", lr.pretty(d), lr.what)
		}
	}
	if lr.nViol == before && len(bs) > 0 {
		if l.Req == "fresh" {
			lr.applyFresh(2, bs, respObs.Store, "stream handler")
		} else {
			lr.apply(req, bs, "stream handler")
		}
	}
	rep.AddExtra("handler_entries", 1)
	rep.AddSteps(1)
}

func flatten(bs []realBatch) []string {
	var all []string
	for _, b := range bs {
		all = append(all, b.Ids...)
	}
	return all
}

func diffPlan(exp []batchExp, bs []realBatch, idOf func(int) string) string {
	if len(exp) != len(bs) {
		return fmt.Sprintf("spec %d batches %v, real %d batches %v", len(exp), exp, len(bs), batchIds(bs))
	}
	for i := range exp {
		if !eqSeq(intsToIds(idOf, exp[i].Ids), bs[i].Ids) {
			return fmt.Sprintf("batch %d: spec %v real %v", i+1, exp[i].Ids, bs[i].Ids)
		}
		if !eqSeq(intsToIds(idOf, exp[i].Heads), bs[i].Heads) {
			return fmt.Sprintf("batch %d heads: spec %v real %v", i+1, exp[i].Heads, bs[i].Heads)
		}
	}
	return ""
}

func runLoadCase(e *env, rep *vfutil.Report, lc *loadCase, ro replayObj) {
	if lc.Handler {
		runHandlerEntry(e, rep, lc.Behaviour, lc.Entry)
		return
	}
	n := 0
	runLoadBehaviourOn(e, rep, lc.Behaviour, lc.Entry, 1, 0, &n, lc.Signed)
}

func TestLoadReplay(t *testing.T) {
	rep := vfutil.NewReport(os.Getenv("VERIF_PROPERTY"))
	defer func() {
		if r := recover(); r != nil {
			rep.Save(false)
			panic(r)
		}
	}()
	e := newEnv(t, 3)
	dir := os.Getenv("VERIF_BEHAVIOURS")
	behs, err := vfutil.LoadJSONFiles[loadBehaviour](dir)
	if err != nil || len(behs) == 0 {
		t.Fatalf("no behaviours in %q: %v", dir, err)
	}
	applyEvery := vfutil.EnvInt("VERIF_APPLY_EVERY", 5)
	n := 0
	// directed regression inputs (hand-written behaviours without predictions): always applied
	if directed, derr := vfutil.LoadJSONFiles[loadBehaviour]("testdata"); derr == nil {
		for i := range directed {
			runLoadBehaviour(e, rep, &directed[i], -1, 1, vfutil.EnvInt("VERIF_HANDLER_EVERY", 0), &n)
			rep.Case("directed:" + behaviourKey(&directed[i].behaviour))
			rep.AddReplayed(1)
		}
	}
	for i := range behs {
		lb := &behs[i]
		runLoadBehaviour(e, rep, lb, -1, applyEvery, vfutil.EnvInt("VERIF_HANDLER_EVERY", 0), &n)
		if se := vfutil.EnvInt("VERIF_SIGNED_EVERY", 0); se > 0 && i%se == 0 {
			// the same behaviour on signed trees whose own changes are written by the real AddContent
			runLoadBehaviourOn(e, rep, lb, -1, applyEvery, 0, &n, true)
			rep.Case("signed:" + behaviourKey(&lb.behaviour))
		}
		rep.Case(behaviourKey(&lb.behaviour))
		rep.AddReplayed(1)
		if i < 2 && len(lb.Loads) > 0 {
			rep.Sample(map[string]any{"behaviour": describeSteps(&lb.behaviour, len(lb.Steps)), "load": lb.Loads[len(lb.Loads)/2]})
		}
	}
	rep.SetExtra("load_entries", n)
	rep.Save(true)
	if rep.NumViolations() > 0 {
		t.Fail()
	}
}

// ---------------------------------------------------------------------------------------------
// random larger histories

func runRandomLoadCase(e *env, rep *vfutil.Report, rng *rand.Rand, seed int64, p randParams) {
	// Signed: real signed trees; every writer authors its changes with the real AddContent (so the
	// responder's storage rows for them are written by AddContent, not by AddRawChanges), content ids.
	// Otherwise chosen-id trees whose own additions are fed as raw changes.
	lr := &loadRunner{e: e, rep: rep, unit: 1, approx: true, uni: map[int]uniCh{0: {Id: 0, Snap: 0, IsSnap: true, Size: 200 + rng.Intn(100)}}}
	lr.robj = replayObj{Kind: "random-load", Seed: seed, Params: p}
	real := map[int]string{}                               // label -> real id
	label := map[string]int{}                              // real id -> label
	raws := map[int]*treechangeproto.RawTreeChangeWithId{} // signed: the raw change AddContent produced
	build := buildFunc(objecttree.BuildTestableTree)
	if p.Signed {
		useRealBuilder()
		root, err := objecttree.CreateObjectTreeRoot(objecttree.ObjectTreeCreatePayload{
			PrivKey: e.keys.SignKey, ChangeType: "verif", SpaceId: spaceId,
			Seed: []byte(e.nextPrefix()), Timestamp: 1700000000, ChangePayload: make([]byte, rng.Intn(200)),
		}, e.acl)
		if err != nil {
			e.t.Fatalf("signed root: %v", err)
		}
		lr.root = root
		real[0], label[root.Id] = root.Id, 0
		build = objecttree.BuildObjectTree
		lr.freshBuild = objecttree.BuildEmptyDataObjectTree
		lr.idOf = func(k int) string { return real[k] }
		lr.pretty = func(x string) string {
			for k, id := range real {
				x = strings.ReplaceAll(x, id, fmt.Sprintf("%02d", k))
			}
			return x
		}
	} else {
		useMockBuilder()
		prefix := e.nextPrefix()
		lr.idOf = func(k int) string { return fmt.Sprintf("%s%02d", prefix, k) }
		lr.pretty = func(x string) string { return strings.ReplaceAll(x, prefix, "") }
		lr.root = e.rootRawSized(lr.idOf(0), lr.uni[0].Size, true)
	}
	num := func(id string) int {
		if p.Signed {
			return label[id]
		}
		var k int
		fmt.Sscanf(id[strings.LastIndex(id, ".")+1:], "%d", &k)
		return k
	}
	nums := func(ids []string) []int {
		r := make([]int, len(ids))
		for i, x := range ids {
			r[i] = num(x)
		}
		return r
	}
	rawOf := func(k int) *treechangeproto.RawTreeChangeWithId {
		if p.Signed {
			return raws[k]
		}
		return lr.rawOf(k)
	}
	var names []string
	reps := map[string]*replica{}
	// the inputs every replica received, to clone it
	type input struct {
		heads, path []string
		batch       []int
	}
	inputs := map[string][]input{}
	for i := 0; i < p.Writers; i++ {
		n := fmt.Sprintf("w%d", i)
		names = append(names, n)
		r, err := e.newSyncReplica(i, lr.root, build)
		if err != nil {
			e.t.Fatalf("replica: %v", err)
		}
		reps[n] = r
	}
	defer func() {
		for _, r := range reps {
			r.tree.Close()
		}
	}()
	var log []string
	feed := func(n string, in input) error {
		rs := make([]*treechangeproto.RawTreeChangeWithId, len(in.batch))
		for i, k := range in.batch {
			rs[i] = rawOf(k)
		}
		_, err := reps[n].addRaw(in.heads, in.path, rs...)
		return err
	}
	pool := rng.Perm(p.Changes)
	created := 0
	for created < p.Changes {
		w := names[rng.Intn(len(names))]
		if rng.Float64() < p.PSync {
			v := names[rng.Intn(len(names))]
			if v == w {
				continue
			}
			st, _ := reps[v].stored()
			var b []int
			all := rng.Intn(2) == 0
			for _, c := range st {
				if k := num(c.Id); k != 0 && (all || rng.Intn(3) > 0) {
					b = append(b, k)
				}
			}
			if len(b) == 0 {
				continue
			}
			rng.Shuffle(len(b), func(i, j int) { b[i], b[j] = b[j], b[i] })
			in := input{heads: reps[v].heads(), path: reps[v].snapshotPath(), batch: b}
			log = append(log, fmt.Sprintf("%s.Deliver(%v heads=%v path=%v)", w, b, nums(in.heads), nums(in.path)))
			if err := feed(w, in); err != nil {
				e.t.Fatalf("random load: deliver failed: %v", err)
			}
			inputs[w] = append(inputs[w], in)
			continue
		}
		k := pool[created] + 1
		created++
		r := reps[w]
		u := uniCh{Id: k, Prev: nums(r.heads()), Snap: num(r.rootId()), IsSnap: rng.Float64() < p.PSnap, Size: 150 + rng.Intn(400)}
		lr.uni[k] = u
		path := r.snapshotPath()
		if p.Signed {
			// the writer authors the change itself: the real AddContent
			data := make([]byte, 1+rng.Intn(400))
			rng.Read(data)
			r.tree.Lock()
			res, err := r.tree.AddContent(e.ctx, objecttree.SignableChangeContent{Data: data, Key: e.keys.SignKey, IsSnapshot: u.IsSnap,
				Timestamp: 1700000000 + int64(k), DataType: "verif"})
			r.tree.Unlock()
			if err != nil || len(res.Added) != 1 {
				e.t.Fatalf("random load: AddContent failed: %v (%d added)", err, len(res.Added))
			}
			id := res.Added[0].Id
			real[k], label[id] = id, k
			raws[k] = &treechangeproto.RawTreeChangeWithId{RawChange: append([]byte(nil), res.Added[0].RawChange...), Id: id}
			log = append(log, fmt.Sprintf("%s.AddContent(%d prev=%v snapBase=%d snapshot=%v data=%dB raw=%dB)", w, k, u.Prev, u.Snap, u.IsSnap, len(data), len(raws[k].RawChange)))
			inputs[w] = append(inputs[w], input{heads: []string{id}, path: path, batch: []int{k}})
			continue
		}
		in := input{heads: []string{lr.idOf(k)}, path: path, batch: []int{k}}
		log = append(log, fmt.Sprintf("%s.Add(%d prev=%v snapBase=%d snapshot=%v)", w, k, u.Prev, u.Snap, u.IsSnap))
		if err := feed(w, in); err != nil {
			e.t.Fatalf("random load: add failed: %v", err)
		}
		inputs[w] = append(inputs[w], in)
	}
	history := strings.Join(log, " ")
	obs := map[string]*observation{}
	sizes := map[string]int{}
	for _, n := range names {
		o, err := observe(reps[n])
		if err != nil {
			e.t.Fatalf("observe: %v", err)
		}
		obs[n] = o
		st, _ := reps[n].stored()
		for _, c := range st {
			sizes[c.Id] = c.Size
		}
	}
	nextDB := len(names)
	for _, rn := range names {
		// requesters: every other replica, and a peer without the tree
		reqs := append([]string{"fresh"}, names...)
		for _, qn := range reqs {
			if qn == rn {
				continue
			}
			var (
				reqObs           *observation
				theirHeads, path []string
			)
			if qn != "fresh" {
				reqObs = obs[qn]
				theirHeads, path = reps[qn].heads(), reps[qn].snapshotPath()
			}
			// the full stream, to place the limits at its cumulative boundaries
			full, err := runLoader(reps[rn], path, theirHeads, 1<<30)
			if err != nil {
				lr.what = history
				lr.viol("load-failed", fmt.Sprintf("loader (responder %s requester %s): %v", rn, qn, err))
				continue
			}
			var limits []int
			cum := 0
			for _, id := range flatten(full) {
				cum += sizes[id]
				limits = append(limits, cum-1, cum, cum+1)
			}
			limits = append(limits, 1, cum+1000)
			rng.Shuffle(len(limits), func(i, j int) { limits[i], limits[j] = limits[j], limits[i] })
			if len(limits) > 6 {
				limits = limits[:6]
			}
			sort.Ints(limits)
			for li, limit := range limits {
				if limit < 1 {
					continue
				}
				lr.what = fmt.Sprintf("%s | responder %s requester %s heads=%v path=%v limit=%d bytes", history, rn, qn, nums(theirHeads), nums(path), limit)
				var bs []realBatch
				err, pnc, hng := runGuarded(func() error {
					var e2 error
					bs, e2 = runLoader(reps[rn], path, theirHeads, limit)
					return e2
				})
				if hng || pnc != nil || err != nil {
					lr.viol(loadFailKey(err), fmt.Sprintf("loader: err=%v panic=%v hang=%v; batches so far %v", err, pnc, hng, batchIds(bs)))
					continue
				}
				before := lr.nViol
				for _, v := range checkBatches(obs[rn], reqObs, theirHeads, bs, limit, sizes) {
					lr.viol(v.key, v.desc)
				}
				if qn == "fresh" {
					if all := flatten(bs); !eqSeq(all, obs[rn].Store) {
						lr.viol("load-empty-heads-not-all", fmt.Sprintf("empty-heads request returns %v, responder stores %v", all, obs[rn].Store))
					}
				}
				rep.AddSteps(1)
				if lr.nViol != before || len(bs) == 0 || li%2 == 1 {
					continue
				}
				if qn == "fresh" {
					lr.applyFresh(nextDB, bs, obs[rn].Store, "loader")
				} else {
					clone, err := e.newSyncReplica(nextDB, lr.root, build)
					if err != nil {
						e.t.Fatalf("clone: %v", err)
					}
					keep := reps[qn]
					reps[qn] = clone
					for _, in := range inputs[qn] {
						if err := feed(qn, in); err != nil {
							e.t.Fatalf("clone feed: %v", err)
						}
					}
					reps[qn] = keep
					lr.apply(clone, bs, "loader")
					clone.tree.Close()
				}
				nextDB++
				rep.AddExtra("applied_plans", 1)
			}
		}
	}
}

func TestRandomLoad(t *testing.T) {
	rep := vfutil.NewReport(os.Getenv("VERIF_PROPERTY"))
	defer func() {
		if r := recover(); r != nil {
			rep.Save(false)
			panic(r)
		}
	}()
	runs := vfutil.EnvInt("VERIF_RUNS", 30)
	maxChanges := vfutil.EnvInt("VERIF_MAX_CHANGES", 16)
	e := newEnv(t, 3)
	base := vfutil.Seed()
	for i := 0; i < runs; i++ {
		seed := base*7000003 + int64(i)
		prng := rand.New(rand.NewSource(seed ^ 0x5eed))
		p := randParams{Writers: 2 + prng.Intn(2), Changes: 5 + prng.Intn(maxChanges-4), PSnap: []float64{0.1, 0.25, 0.4}[prng.Intn(3)], PSync: 0.3,
			Signed: i%2 == 1} // every second run: signed trees, writers author through the real AddContent
		runRandomLoadCase(e, rep, rand.New(rand.NewSource(seed)), seed, p)
		if p.Signed {
			rep.AddExtra("signed_runs", 1)
		}
		rep.Case(fmt.Sprintf("w%d-c%d-s%.2f-signed=%v", p.Writers, p.Changes, p.PSnap, p.Signed))
		rep.AddReplayed(1)
		if i < 2 {
			rep.Sample(map[string]any{"random-load": p, "seed": seed})
		}
	}
	rep.Save(true)
	if rep.NumViolations() > 0 {
		t.Fail()
	}
}

var _ = context.Background
