package treeorder

// order_test.go - property C06.
//
//   TestReplay   : every behaviour TLC emitted from TreeOrderGen.tla (universe DAG, Add / Deliver /
//                  Reopen steps with the predicted stored order, presented order, root, heads, mode
//                  and history trees) is executed on real object trees with chosen ids, and - for
//                  behaviours without chosen-id needs - on the signed path with mined ids.  After
//                  every step the C06 predicates are evaluated on what the real tree shows
//                  (violations) and the projection is compared with the prediction (drift).
//   TestRandomOrder : random larger DAGs delivered to several observers in random order / batching;
//                  same oracles; the runs are also written as an NDJSON trace for TreeOrderTrace.tla.

import (
	"encoding/json"
	"fmt"
	"math/rand"
	"os"
	"sort"
	"strings"
	"testing"

	"github.com/anyproto/any-sync/commonspace/object/tree/objecttree"
	"github.com/anyproto/any-sync/commonspace/object/tree/treechangeproto"

	"verifharness/vfutil"
)

type uniCh struct {
	Id     int   `json:"id"`
	Prev   []int `json:"prev"`
	Snap   int   `json:"snap"`
	IsSnap bool  `json:"isSnap"`
	Size   int   `json:"size"`
}

type histExp struct {
	Heads []int `json:"heads"`
	Root  int   `json:"root"`
	Iter  []int `json:"iter"`
}

type expState struct {
	Store []int  `json:"store"`
	Iter  []int  `json:"iter"`
	Root  int    `json:"root"`
	Heads []int  `json:"heads"`
	Mode  string `json:"mode"`
}

type finalExp struct {
	R    string    `json:"r"`
	Hist []histExp `json:"hist"`
}

type step struct {
	Act    string   `json:"act"`
	R      string   `json:"r"`
	Src    string   `json:"src,omitempty"`
	Id     int      `json:"id,omitempty"`
	IsSnap bool     `json:"isSnap,omitempty"`
	Size   int      `json:"size,omitempty"`
	Prev   []int    `json:"prev,omitempty"`
	Base   int      `json:"base,omitempty"`
	Batch  []int    `json:"batch,omitempty"`
	Heads  []int    `json:"heads,omitempty"`
	Path   []int    `json:"path,omitempty"`
	Bad    int      `json:"bad,omitempty"`
	Exp    expState `json:"exp"`
}

type behaviour struct {
	Spec     string     `json:"spec"`
	Fix      bool       `json:"fix"`
	Replicas []string   `json:"replicas"`
	Ids      []int      `json:"ids"`
	Universe []uniCh    `json:"universe"`
	Steps    []step     `json:"steps"`
	Final    []finalExp `json:"final"`
}

type replayObj struct {
	Kind      string     `json:"kind"` // "behaviour" | "random-order" | "load" | "random-load"
	Signed    bool       `json:"signed,omitempty"`
	Behaviour *behaviour `json:"behaviour,omitempty"`
	Seed      int64      `json:"seed,omitempty"`
	Case      int        `json:"case,omitempty"`
	Params    any        `json:"params,omitempty"`
	Load      *loadCase  `json:"load,omitempty"`
}

// ---------------------------------------------------------------------------------------------
// observation of one replica and the C06 predicates on it

type observation struct {
	Store  []string
	Orders map[string]string
	Iter   []string
	Heads  []string
	Root   string
	Mode   string
	Mem    map[string]string // order ids the in-memory tree holds for the changes it presents
	AddSeq map[string]uint64 // add sequence of every stored change (0 = the root row)
	Views  []addSeqView      // the incremental views for every sequence number seen (sampled when there are many)
	dag    *dag
}

type addSeqView struct {
	N       uint64
	Storage []string // Storage.GetAfterAddSeq(N)
	Tree    []string // ObjectTree.IterateAfterAddSeq(N)
	Err     string
}

func observe(r *replica) (*observation, error) {
	st, err := r.stored()
	if err != nil {
		return nil, err
	}
	o := &observation{Store: ids(st), Orders: map[string]string{}, Iter: r.iter(), Heads: r.heads(), Root: r.rootId(), dag: dagOf(st)}
	for _, c := range st {
		o.Orders[c.Id] = c.OrderId
	}
	// incremental views: for every n in {0} + the add sequence numbers of the stored changes
	o.AddSeq = map[string]uint64{}
	seen := map[uint64]bool{0: true}
	ns := []uint64{0}
	for _, c := range st {
		o.AddSeq[c.Id] = c.AddSeq
		if !seen[c.AddSeq] {
			seen[c.AddSeq] = true
			ns = append(ns, c.AddSeq)
		}
	}
	sort.Slice(ns, func(i, j int) bool { return ns[i] < ns[j] })
	if len(ns) > 9 { // long histories: the first, the last four and a spread of the others
		keep := append([]uint64{}, ns[0])
		for i := 1; i < len(ns)-4; i += (len(ns) - 5 + 3) / 4 {
			keep = append(keep, ns[i])
		}
		ns = append(keep, ns[len(ns)-4:]...)
	}
	for _, n := range ns {
		v := addSeqView{N: n}
		var verr error
		v.Storage, v.Tree, verr = r.addSeqViews(n)
		if verr != nil {
			v.Err = verr.Error()
		}
		o.Views = append(o.Views, v)
	}
	o.Mem = map[string]string{}
	r.tree.Lock()
	for _, id := range o.Iter {
		if ch, err := r.tree.GetChange(id); err == nil {
			o.Mem[id] = ch.OrderId
		}
	}
	r.tree.Unlock()
	return o, nil
}

type verdict struct{ key, desc string }

// checkObservation evaluates the state predicates of C06 on a real observation.
func checkObservation(treeId string, o *observation) []verdict {
	var vs []verdict
	add := func(k, f string, a ...any) { vs = append(vs, verdict{k, fmt.Sprintf(f, a...)}) }
	// stored order ids strictly increasing (GetAfterOrder sorts by them)
	prev := ""
	for i, id := range o.Store {
		if i > 0 && !(o.Orders[id] > prev) {
			add("order-ids-not-increasing", "order id %q of %s is not above %q", o.Orders[id], id, prev)
		}
		prev = o.Orders[id]
	}
	// every incremental view (changes added after sequence number n) is the stored = canonical order
	// restricted to what the view contains
	for _, v := range o.Views {
		if v.Err != "" {
			add("addseq-view-error", "GetAfterAddSeq / IterateAfterAddSeq(%d): %s", v.N, v.Err)
			continue
		}
		var want []string
		for _, id := range o.Store {
			if o.AddSeq[id] > v.N {
				want = append(want, id)
			}
		}
		if !eqSeq(want, v.Storage) {
			add("addseq-view-not-restriction", "Storage.GetAfterAddSeq(%d) presents %v; the stored order restricted to the changes added after %d is %v", v.N, v.Storage, v.N, want)
			break
		}
		if !eqSeq(want, v.Tree) {
			add("addseq-view-not-restriction", "ObjectTree.IterateAfterAddSeq(%d) presents %v; the stored order restricted to the changes added after %d is %v", v.N, v.Tree, v.N, want)
			break
		}
	}
	// the tree works with the order ids that are stored (an id is assigned once)
	for _, id := range o.Iter {
		if m, ok := o.Mem[id]; ok && m != o.Orders[id] {
			add("order-id-renumbered-in-memory", "change %s is stored with order id %q, the tree holds %q", id, o.Orders[id], m)
			break
		}
	}
	if len(o.Store) == 0 || o.Store[0] != treeId {
		add("store-root-not-first", "stored sequence %v does not start with the root %s", o.Store, treeId)
		return vs
	}
	// stored order = canonical order of the stored DAG, recomputed independently
	canon := o.dag.canon(treeId, nil)
	if !eqSeq(canon, o.Store) {
		add("store-order-not-canonical", "stored order %v, canonical order of the stored set %v", o.Store, canon)
	}
	if why, ok := o.dag.causal(o.Store); !ok {
		add("store-order-not-causal", "stored order %v: %s", o.Store, why)
	}
	// presented order = full order restricted to what the tree contains, starts at its root, causal
	in := setOf(o.Iter)
	if len(in) != len(o.Iter) {
		add("iter-duplicates", "presented sequence %v repeats a change", o.Iter)
	}
	if len(o.Iter) == 0 || o.Iter[0] != o.Root {
		add("iter-root-not-first", "presented sequence %v does not start with the tree root %s", o.Iter, o.Root)
	}
	for _, id := range o.Iter {
		if !o.dag.has(id) {
			add("iter-not-stored", "presented change %s is not stored", id)
			return vs
		}
	}
	if r := restrict(canon, in); !eqSeq(r, o.Iter) {
		add("iter-not-canonical-restricted", "presented %v, canonical order restricted to these changes %v", o.Iter, r)
	}
	if r := restrict(o.Store, in); !eqSeq(r, o.Iter) {
		add("iter-differs-from-store-order", "presented %v, stored order restricted to these changes %v", o.Iter, r)
	}
	if why, ok := o.dag.causal(o.Iter); !ok {
		add("iter-not-causal", "presented order %v: %s", o.Iter, why)
	}
	// the tree presents everything stored at or above its root
	want := restrict(canon, o.dag.descEq(o.Root))
	if !eqSeq(want, o.Iter) {
		add("iter-incomplete", "tree with root %s presents %v, stored descendants of the root %v", o.Root, o.Iter, want)
	}
	return vs
}

// checkStep evaluates the step predicates: Append => prefix; order ids never renumbered.
func checkStep(before, after *observation, isAdd bool) []verdict {
	var vs []verdict
	if isAdd && after.Mode == "Append" && !isPrefix(before.Iter, after.Iter) {
		vs = append(vs, verdict{"append-not-prefix", fmt.Sprintf("mode Append but previously presented %v is not a prefix of %v", before.Iter, after.Iter)})
	}
	for id, o := range before.Orders {
		if n, ok := after.Orders[id]; ok && n != o {
			vs = append(vs, verdict{"order-id-renumbered", fmt.Sprintf("stored change %s had order id %q, now %q", id, o, n)})
			break
		}
	}
	return vs
}

// checkArrival: replicas holding the same set store it in the same order and present consistent orders.
func checkArrival(obs map[string]*observation) []verdict {
	var vs []verdict
	names := make([]string, 0, len(obs))
	for n := range obs {
		names = append(names, n)
	}
	sort.Strings(names)
	for i := 0; i < len(names); i++ {
		for j := i + 1; j < len(names); j++ {
			a, b := obs[names[i]], obs[names[j]]
			if !eqSeq(sortedCopy(a.Store), sortedCopy(b.Store)) {
				continue
			}
			if !eqSeq(a.Store, b.Store) {
				vs = append(vs, verdict{"arrival-dependent-store-order", fmt.Sprintf("same set, %s stores %v, %s stores %v", names[i], a.Store, names[j], b.Store)})
			}
			if x, y := restrict(a.Iter, setOf(b.Iter)), restrict(b.Iter, setOf(a.Iter)); !eqSeq(x, y) {
				vs = append(vs, verdict{"arrival-dependent-iteration", fmt.Sprintf("same set, %s presents %v, %s presents %v", names[i], a.Iter, names[j], b.Iter)})
			}
		}
	}
	return vs
}

// ---------------------------------------------------------------------------------------------
// history trees

type histResult struct {
	Root string
	Iter []string
	Err  string
}

func buildHistory(r *replica, heads []string, includeBefore bool, signed bool) (res histResult, panicked any, hung bool) {
	err, p, h := runGuarded(func() error {
		params := objecttree.HistoryTreeParams{Storage: r.st, AclList: r.acl, Heads: heads, IncludeBeforeId: includeBefore}
		var (
			ht  objecttree.HistoryTree
			err error
		)
		if signed {
			ht, err = objecttree.BuildHistoryTree(params)
		} else {
			ht, err = objecttree.BuildNonVerifiableHistoryTree(params)
		}
		if err != nil {
			return err
		}
		res.Root = ht.Root().Id
		return ht.IterateRoot(nil, func(c *objecttree.Change) bool { res.Iter = append(res.Iter, c.Id); return true })
	})
	if err != nil {
		res.Err = err.Error()
	}
	return res, p, h
}

// checkHistory: a history tree for heads H presents the stored order restricted to its content,
// and its content is everything at or below H that is not below its root.
func checkHistory(o *observation, heads []string, h histResult) []verdict {
	var vs []verdict
	if h.Err != "" {
		return []verdict{{"history-tree-error", fmt.Sprintf("history tree for heads %v: %s", heads, h.Err)}}
	}
	in := setOf(h.Iter)
	if r := restrict(o.Store, in); !eqSeq(r, h.Iter) || len(in) != len(h.Iter) {
		vs = append(vs, verdict{"history-tree-order", fmt.Sprintf("history tree for heads %v presents %v, stored order restricted %v", heads, h.Iter, r)})
	}
	below := o.dag.ancEq(heads...)
	rootAnc := o.dag.ancEq(h.Root)
	delete(rootAnc, h.Root)
	var want []string
	for _, id := range o.Store {
		if below[id] && !rootAnc[id] {
			want = append(want, id)
		}
	}
	if !eqSeq(want, h.Iter) {
		vs = append(vs, verdict{"history-tree-incomplete", fmt.Sprintf("history tree for heads %v has root %s and presents %v; the changes at or below the heads that are not below that root are %v", heads, h.Root, h.Iter, want)})
	}
	return vs
}

// ---------------------------------------------------------------------------------------------
// replay of one behaviour

type runner struct {
	e      *env
	rep    *vfutil.Report
	signed bool
}

func intsToIds(f func(int) string, xs []int) []string {
	r := make([]string, len(xs))
	for i, x := range xs {
		r[i] = f(x)
	}
	return r
}

func (rn *runner) runBehaviour(b *behaviour, robj replayObj) (nViol int) {
	e := rn.e
	uni := map[int]uniCh{}
	for _, c := range b.Universe {
		uni[c.Id] = c
	}
	var (
		idOf   func(k int) string
		rawOf  func(k int) *treechangeproto.RawTreeChangeWithId
		root   *treechangeproto.RawTreeChangeWithId
		build  buildFunc
		pretty func(string) string
		// signed path: real ids and raw changes as they are created
		realId = map[int]string{}
		raws   = map[int]*treechangeproto.RawTreeChangeWithId{}
	)
	if rn.signed {
		useRealBuilder()
		var err error
		root, err = objecttree.CreateObjectTreeRoot(objecttree.ObjectTreeCreatePayload{
			PrivKey: e.keys.SignKey, ChangeType: "verif", SpaceId: "spaceId",
			Seed: []byte(e.nextPrefix()), Timestamp: 1700000000,
		}, e.acl)
		if err != nil {
			e.t.Fatalf("signed root: %v", err)
		}
		realId[0] = root.Id
		idOf = func(k int) string { return realId[k] }
		rawOf = func(k int) *treechangeproto.RawTreeChangeWithId { return raws[k] }
		build = nil // per replica: a content validator that can refuse one change
		pretty = func(x string) string {
			for k, id := range realId {
				x = strings.ReplaceAll(x, id, fmt.Sprintf("%02d", k))
			}
			return x
		}
	} else {
		useMockBuilder()
		prefix := e.nextPrefix()
		idOf = func(k int) string { return fmt.Sprintf("%s%02d", prefix, k) }
		rawOf = func(k int) *treechangeproto.RawTreeChangeWithId {
			c := uni[k]
			return e.raw(chSpec{Id: idOf(k), Prev: intsToIds(idOf, c.Prev), Snap: idOf(c.Snap), IsSnap: c.IsSnap})
		}
		root = e.rootRaw(idOf(0), 0)
		build = mockBuild
		pretty = func(x string) string { return strings.ReplaceAll(x, prefix, "") }
	}
	reps := map[string]*replica{}
	for i, name := range b.Replicas {
		bf, bad := build, new(string)
		if rn.signed {
			bf = rejectingBuild(bad)
		}
		r, err := e.newReplica(i, root, bf)
		if err != nil {
			e.t.Fatalf("replica: %v", err)
		}
		r.reject = bad
		reps[name] = r
	}
	defer func() {
		for _, r := range reps {
			r.tree.Close()
		}
	}()
	viol := func(key, desc string, at int) {
		nViol++
		if rn.signed {
			key = "signed-" + key
		}
		rn.rep.Violate(key, fmt.Sprintf("%s [step %d of %s]", pretty(desc), at+1, describeSteps(b, at)), robj)
	}
	last := map[string]*observation{}
	for name, r := range reps {
		o, err := observe(r)
		if err != nil {
			e.t.Fatalf("observe: %v", err)
		}
		o.Mode = "Nothing"
		last[name] = o
	}
	drifted := false
	for i, s := range b.Steps {
		r := reps[s.R]
		var (
			res objecttree.AddResult
			err error
			pnc any
			hng bool
		)
		if s.Act == "Pad" || s.Act == "Done" {
			continue
		}
		switch s.Act {
		case "Add":
			if rn.signed {
				err, pnc, hng = runGuarded(func() error {
					var e2 error
					res, e2 = rn.signedAdd(r, s, realId, raws)
					return e2
				})
				if err == nil && pnc == nil && !hng {
					// the writer built the change on its own heads and root: must be what the model says
					if d := rn.checkSignedChange(r, s, realId); d != "" {
						rn.rep.DriftNote("signed Add: %s [%s]", pretty(d), describeSteps(b, i))
						drifted = true
					}
				}
			} else {
				// on chosen-id trees the writer's own addition is fed as a raw change on its heads
				// (AddContent computes content ids; the signed replay uses the real AddContent)
				err, pnc, hng = runGuarded(func() error {
					var e2 error
					res, e2 = r.addRaw([]string{idOf(s.Id)}, r.snapshotPath(), rawOf(s.Id))
					return e2
				})
			}
		case "Deliver":
			raws := make([]*treechangeproto.RawTreeChangeWithId, len(s.Batch))
			for j, k := range s.Batch {
				raws[j] = rawOf(k)
			}
			err, pnc, hng = runGuarded(func() error {
				var e2 error
				res, e2 = r.addRaw(intsToIds(idOf, s.Heads), intsToIds(idOf, s.Path), raws...)
				return e2
			})
		case "Reject":
			// the same payload, but the receiver's validator refuses the change `bad` after attaching
			// it: chosen ids - a copy citing an acl record the receiver does not know; signed path -
			// the tree's content validator
			raws := make([]*treechangeproto.RawTreeChangeWithId, len(s.Batch))
			for j, k := range s.Batch {
				raws[j] = rawOf(k)
				if k == s.Bad && !rn.signed {
					c := uni[k]
					raws[j] = e.raw(chSpec{Id: idOf(k), Prev: intsToIds(idOf, c.Prev), Snap: idOf(c.Snap), IsSnap: c.IsSnap, AclHead: unknownAclHead})
				}
			}
			if rn.signed {
				*r.reject = idOf(s.Bad)
			}
			err, pnc, hng = runGuarded(func() error {
				_, e2 := r.addRaw(intsToIds(idOf, s.Heads), intsToIds(idOf, s.Path), raws...)
				return e2
			})
			*r.reject = ""
			if err == nil && pnc == nil && !hng {
				if !drifted {
					rn.rep.DriftNote("step %d: the specification says the payload is refused (change %d attaches and fails validation), the tree accepted it [%s]", i+1, s.Bad, describeSteps(b, i))
					drifted = true
				}
			}
			err = nil
			rn.rep.AddExtra("rejected_deliveries", 1)
		case "Reopen":
			err, pnc, hng = runGuarded(r.reopen)
		default:
			e.t.Fatalf("unknown action %q", s.Act)
		}
		if hng {
			viol("hang-in-"+s.Act, "call did not return", i)
			return
		}
		if pnc != nil {
			viol("panic-in-"+s.Act, fmt.Sprintf("panic: %v", pnc), i)
			return
		}
		if err == errNoRank {
			rn.rep.AddExtra("signed_behaviours_abandoned_no_rank", 1)
			return
		}
		if err != nil {
			viol("error-in-"+s.Act, fmt.Sprintf("honest input refused: %v", err), i)
			return
		}
		o, oerr := observe(r)
		if oerr != nil {
			e.t.Fatalf("observe: %v", oerr)
		}
		if s.Act == "Reject" {
			o.Mode = last[s.R].Mode
		} else if s.Act == "Reopen" {
			o.Mode = last[s.R].Mode
			// reopened = live
			lv := last[s.R]
			if !eqSeq(lv.Iter, o.Iter) || lv.Root != o.Root || !eqSeq(lv.Heads, o.Heads) {
				viol("reopen-differs-from-live", fmt.Sprintf("live tree: root %s heads %v presents %v; reopened: root %s heads %v presents %v",
					lv.Root, lv.Heads, lv.Iter, o.Root, o.Heads, o.Iter), i)
			}
		} else {
			o.Mode = modeName(res.Mode)
		}
		for _, v := range checkObservation(idOf(0), o) {
			viol(v.key, v.desc, i)
		}
		for _, v := range checkStep(last[s.R], o, s.Act == "Add" || s.Act == "Deliver") {
			viol(v.key, v.desc, i)
		}
		last[s.R] = o
		for _, v := range checkArrival(last) {
			viol(v.key, v.desc, i)
		}
		// prediction vs. observation (drift, never a violation by itself)
		if !drifted && nViol == 0 {
			if d := diffExp(s.Exp, o, idOf); d != "" {
				rn.rep.DriftNote("step %d %s: %s [%s]", i+1, s.Act, pretty(d), describeSteps(b, i))
				drifted = true
			}
		}
		rn.rep.AddSteps(1)
	}
	// history trees the specification predicts for the final state of every replica
	for _, f := range b.Final {
		r, o, i := reps[f.R], last[f.R], len(b.Steps)-1
		for _, he := range f.Hist {
			hs := intsToIds(idOf, he.Heads)
			if held := setOf(o.Store); drifted {
				// after drift the predicted heads need not exist in the real tree
				ok := true
				for _, h := range hs {
					ok = ok && held[h]
				}
				if !ok {
					continue
				}
			}
			h, p, hung := buildHistory(r, hs, true, rn.signed)
			if hung {
				viol("hang-in-history-tree", fmt.Sprintf("BuildHistoryTree(Heads=%v) did not return", hs), i)
				continue
			}
			if p != nil {
				viol("panic-in-history-tree", fmt.Sprintf("BuildHistoryTree(Heads=%v): %v", hs, p), i)
				continue
			}
			hv := checkHistory(o, hs, h)
			for _, v := range hv {
				viol(v.key, v.desc, i)
			}
			if len(hv) == 0 && !drifted && (h.Root != idOf(he.Root) || !eqSeq(h.Iter, intsToIds(idOf, he.Iter))) {
				rn.rep.DriftNote("history tree of %s for heads %v: spec root %d iter %v, real root %s iter %v [%s]", f.R, he.Heads, he.Root, he.Iter,
					pretty(h.Root), pretty(fmt.Sprint(h.Iter)), describeSteps(b, i))
				drifted = true
			}
			rn.rep.AddExtra("history_trees", 1)
		}
	}
	return
}

// signedAdd performs the writer's AddContent on a real signed tree.  The content id must have the
// rank the model chose among the ids created so far: the payload is varied until it does (the
// change is only prepared, not added, while searching).
func (rn *runner) signedAdd(r *replica, s step, realId map[int]string, raws map[int]*treechangeproto.RawTreeChangeWithId) (objecttree.AddResult, error) {
	e := rn.e
	fits := func(id string) bool {
		for k, other := range realId {
			if k == 0 {
				continue
			}
			if (id < other) != (s.Id < k) {
				return false
			}
		}
		return true
	}
	r.tree.Lock()
	defer r.tree.Unlock()
	for n := 0; n < 20000; n++ {
		content := objecttree.SignableChangeContent{
			Data: []byte(fmt.Sprintf("verif-%d-%d", s.Id, n)), Key: e.keys.SignKey, IsSnapshot: s.IsSnap,
			ShouldBeEncrypted: false, Timestamp: 1700000000 + int64(s.Id), DataType: "verif",
		}
		raw, err := r.tree.PrepareChange(content)
		if err != nil {
			return objecttree.AddResult{}, fmt.Errorf("prepare: %w", err)
		}
		if !fits(raw.Id) {
			continue
		}
		res, err := r.tree.AddContent(e.ctx, content)
		if err != nil {
			return res, err
		}
		if len(res.Added) != 1 || res.Added[0].Id != raw.Id {
			return res, fmt.Errorf("AddContent produced %v, prepared %s", res.Added, raw.Id)
		}
		realId[s.Id] = raw.Id
		raws[s.Id] = &treechangeproto.RawTreeChangeWithId{RawChange: append([]byte(nil), res.Added[0].RawChange...), Id: raw.Id}
		return res, nil
	}
	return objecttree.AddResult{}, errNoRank
}

// errNoRank: the content ids created so far leave no reachable gap for the rank the model chose
// (two mined ids can be arbitrarily close). A limit of the harness, never a verdict.
var errNoRank = fmt.Errorf("no content id with the wanted rank found")

func (rn *runner) checkSignedChange(r *replica, s step, realId map[int]string) string {
	st, err := r.st.Get(rn.e.ctx, realId[s.Id])
	if err != nil {
		return "added change not stored: " + err.Error()
	}
	idOf := func(k int) string { return realId[k] }
	if w := sortedCopy(intsToIds(idOf, s.Prev)); !eqSeq(w, sortedCopy(st.PrevIds)) {
		return fmt.Sprintf("parents: spec %v real %v", w, st.PrevIds)
	}
	if st.SnapshotId != realId[s.Base] {
		return fmt.Sprintf("snapshot base: spec %s real %s", realId[s.Base], st.SnapshotId)
	}
	return ""
}

func diffExp(x expState, o *observation, idOf func(int) string) string {
	var d []string
	if w := intsToIds(idOf, x.Store); !eqSeq(w, o.Store) {
		d = append(d, fmt.Sprintf("store: spec %v real %v", w, o.Store))
	}
	if w := intsToIds(idOf, x.Iter); !eqSeq(w, o.Iter) {
		d = append(d, fmt.Sprintf("iter: spec %v real %v", w, o.Iter))
	}
	if w := idOf(x.Root); w != o.Root {
		d = append(d, fmt.Sprintf("root: spec %v real %v", w, o.Root))
	}
	if w := intsToIds(idOf, x.Heads); !eqSeq(w, o.Heads) {
		d = append(d, fmt.Sprintf("heads: spec %v real %v", w, o.Heads))
	}
	if x.Mode != o.Mode {
		d = append(d, fmt.Sprintf("mode: spec %s real %s", x.Mode, o.Mode))
	}
	return strings.Join(d, "; ")
}

func describeSteps(b *behaviour, upto int) string {
	var sb strings.Builder
	for i := 0; i <= upto && i < len(b.Steps); i++ {
		s := b.Steps[i]
		switch s.Act {
		case "Add":
			fmt.Fprintf(&sb, "%s.Add(%d prev=%v snapBase=%d snapshot=%v) ", s.R, s.Id, s.Prev, s.Base, s.IsSnap)
		case "Deliver":
			fmt.Fprintf(&sb, "%s.Deliver(%v heads=%v path=%v) ", s.R, s.Batch, s.Heads, s.Path)
		case "Reject":
			fmt.Fprintf(&sb, "%s.DeliverRejected(%v bad=%d heads=%v path=%v) ", s.R, s.Batch, s.Bad, s.Heads, s.Path)
		default:
			fmt.Fprintf(&sb, "%s.%s ", s.R, s.Act)
		}
	}
	return strings.TrimSpace(sb.String())
}

func behaviourKey(b *behaviour) string {
	var sb strings.Builder
	for _, c := range b.Universe {
		fmt.Fprintf(&sb, "%d<%v^%d%v#%d;", c.Id, c.Prev, c.Snap, c.IsSnap, c.Size)
	}
	for _, s := range b.Steps {
		fmt.Fprintf(&sb, "%s.%s%d%v%v%d|", s.R, s.Act, s.Id, s.Batch, s.Path, s.Bad)
	}
	return sb.String()
}

func TestReplay(t *testing.T) {
	rep := vfutil.NewReport(os.Getenv("VERIF_PROPERTY"))
	defer func() {
		if r := recover(); r != nil {
			rep.Save(false)
			panic(r)
		}
	}()
	e := newEnv(t, 2)
	rn := &runner{e: e, rep: rep}
	if raw, ok := vfutil.ReplayFile(); ok {
		var ro replayObj
		if err := json.Unmarshal(raw, &ro); err != nil {
			t.Fatalf("replay object: %v", err)
		}
		runReplayObject(t, e, rep, ro)
		rep.Save(true)
		if rep.NumViolations() > 0 {
			t.Fail()
		}
		return
	}
	dir := os.Getenv("VERIF_BEHAVIOURS")
	behs, err := vfutil.LoadJSONFiles[behaviour](dir)
	if err != nil || len(behs) == 0 {
		t.Fatalf("no behaviours in %q: %v", dir, err)
	}
	signedEvery := vfutil.EnvInt("VERIF_SIGNED_EVERY", 0)
	for i := range behs {
		b := &behs[i]
		rn.signed = false
		rn.runBehaviour(b, replayObj{Kind: "behaviour", Behaviour: b})
		rep.Case(behaviourKey(b))
		rep.AddReplayed(1)
		if i < 3 {
			rep.Sample(map[string]any{"behaviour": describeSteps(b, len(b.Steps)), "universe": b.Universe})
		}
		if signedEvery > 0 && i%signedEvery == 0 {
			rn.signed = true
			rn.runBehaviour(b, replayObj{Kind: "behaviour", Signed: true, Behaviour: b})
			rep.Case("signed:" + behaviourKey(b))
			rep.AddExtra("signed_behaviours", 1)
		}
	}
	rep.Save(true)
	if rep.NumViolations() > 0 {
		t.Fail()
	}
}

func runReplayObject(t *testing.T, e *env, rep *vfutil.Report, ro replayObj) {
	switch ro.Kind {
	case "behaviour":
		rn := &runner{e: e, rep: rep, signed: ro.Signed}
		rn.runBehaviour(ro.Behaviour, ro)
		rep.Case("replay")
		rep.AddReplayed(1)
	case "random-order":
		var p randParams
		b, _ := json.Marshal(ro.Params)
		_ = json.Unmarshal(b, &p)
		runRandomOrderCase(e, rep, rand.New(rand.NewSource(ro.Seed)), ro.Seed, p, nil)
		rep.Case("replay")
		rep.AddReplayed(1)
	case "load":
		runLoadCase(e, rep, ro.Load, ro)
		rep.Case("replay")
		rep.AddReplayed(1)
	case "random-load":
		var p randParams
		b, _ := json.Marshal(ro.Params)
		_ = json.Unmarshal(b, &p)
		runRandomLoadCase(e, rep, rand.New(rand.NewSource(ro.Seed)), ro.Seed, p)
		rep.Case("replay")
		rep.AddReplayed(1)
	default:
		t.Fatalf("unknown replay kind %q", ro.Kind)
	}
}
