// Package treeorder binds spec/treeorder (ObjTree.tla, TreeOrder.tla, TreeLoad.tla) to the real
// object tree of any-sync (properties C06 and C09).
//
// common_test.go: construction of real trees on any-store storage with chosen ids (the
// MockChangeCreator recipe: unsigned raw changes, non-verifying change builder, but with a real
// identity so that history trees can be built through the exported API), observation helpers and
// the independent oracles (canonical order recomputed from the stored DAG).
package treeorder

import (
	"context"
	"fmt"
	"os"
	"path/filepath"
	"sort"
	"strings"
	"sync/atomic"
	"testing"
	"time"

	anystore "github.com/anyproto/any-store"

	"github.com/anyproto/any-sync/commonspace/headsync/headstorage"
	"github.com/anyproto/any-sync/commonspace/object/accountdata"
	"github.com/anyproto/any-sync/commonspace/object/acl/list"
	"github.com/anyproto/any-sync/commonspace/object/tree/objecttree"
	"github.com/anyproto/any-sync/commonspace/object/tree/synctree"
	"github.com/anyproto/any-sync/commonspace/object/tree/treechangeproto"
	"github.com/anyproto/any-sync/commonspace/object/tree/treestorage"
	"github.com/anyproto/any-sync/commonspace/spacestorage"
	"github.com/anyproto/any-sync/commonspace/sync/objectsync/objectmessages"
	"github.com/anyproto/any-sync/commonspace/sync/syncdeps"
	"github.com/anyproto/any-sync/commonspace/syncstatus"
	"github.com/anyproto/any-sync/util/crypto"
)

// ---------------------------------------------------------------------------------------------
// environment: one ACL, a pool of any-store databases (replica i of a case lives in database i, so
// replicas of one tree can exchange raw changes with identical ids), the production index on the
// changes collection (unique (tree, order id)).

type env struct {
	t        testing.TB
	ctx      context.Context
	keys     *accountdata.AccountKeys
	acl      list.AclList
	aclHead  string
	identity []byte
	dbs      []*dbSlot
	caseNo   int
	dir      string
}

type dbSlot struct {
	db     anystore.DB
	hs     headstorage.HeadStorage
	addSeq atomic.Uint64
}

// nvBuilder = objecttree.nonVerifiableChangeBuilder (unexported there): ids are not checked
// against the content, signatures are not verified.
type nvBuilder struct{ objecttree.ChangeBuilder }

func (b nvBuilder) Unmarshall(raw *treechangeproto.RawTreeChangeWithId, verify bool) (*objecttree.Change, error) {
	return b.ChangeBuilder.Unmarshall(raw, false)
}

func newEnv(t testing.TB, nDB int) *env {
	ctx := context.Background()
	keys, err := accountdata.NewRandom()
	if err != nil {
		t.Fatal(err)
	}
	acl, err := list.NewInMemoryDerivedAcl("spaceId", keys)
	if err != nil {
		t.Fatal(err)
	}
	ident, err := keys.SignKey.GetPublic().Marshall()
	if err != nil {
		t.Fatal(err)
	}
	base := os.Getenv("VERIF_SCRATCH")
	if base == "" {
		base = os.TempDir()
	}
	dir, err := os.MkdirTemp(base, "treeorder-db-")
	if err != nil {
		t.Fatal(err)
	}
	e := &env{t: t, ctx: ctx, keys: keys, acl: acl, aclHead: acl.Head().Id, identity: ident, dir: dir}
	for i := 0; i < nDB; i++ {
		e.addDB()
	}
	t.Cleanup(func() {
		for _, s := range e.dbs {
			s.db.Close()
		}
		os.RemoveAll(dir)
	})
	return e
}

func (e *env) addDB() *dbSlot {
	// durability is irrelevant here (crash consistency is property C10): no fsync per commit
	cfg := &anystore.Config{ReadConnections: 2, SQLiteConnectionOptions: map[string]string{"synchronous": "off"}}
	if os.Getenv("VERIF_DB_SYNC") != "" {
		cfg = nil
	}
	db, err := anystore.Open(e.ctx, filepath.Join(e.dir, fmt.Sprintf("r%d.db", len(e.dbs))), cfg)
	if err != nil {
		e.t.Fatal(err)
	}
	coll, err := db.Collection(e.ctx, objecttree.CollName)
	if err != nil {
		e.t.Fatal(err)
	}
	// the index spacestorage creates: order ids are unique per tree
	if err = coll.EnsureIndex(e.ctx, anystore.IndexInfo{Fields: []string{objecttree.TreeKey, objecttree.OrderKey}, Unique: true}); err != nil {
		e.t.Fatal(err)
	}
	hs, err := headstorage.New(e.ctx, db)
	if err != nil {
		e.t.Fatal(err)
	}
	s := &dbSlot{db: db, hs: hs}
	e.dbs = append(e.dbs, s)
	return s
}

func (e *env) slot(i int) *dbSlot {
	for len(e.dbs) <= i {
		e.addDB()
	}
	return e.dbs[i]
}

// nextPrefix returns a fresh id prefix; all ids of a case share it, so that string order of the
// real ids = numeric order of the model ids.
func (e *env) nextPrefix() string {
	e.caseNo++
	return fmt.Sprintf("k%07d.", e.caseNo)
}

func useMockBuilder() {
	objecttree.StorageChangeBuilder = func(keys crypto.KeyStorage, root *treechangeproto.RawTreeChangeWithId) objecttree.ChangeBuilder {
		return nvBuilder{objecttree.NewChangeBuilder(keys, root)}
	}
}

func useRealBuilder() { objecttree.StorageChangeBuilder = objecttree.NewChangeBuilder }

// ---------------------------------------------------------------------------------------------
// raw changes with chosen ids

type chSpec struct {
	Id     string
	Prev   []string
	Snap   string
	IsSnap bool
	Size   int  // wanted raw size in bytes, 0 = whatever it is
	Approx bool // Size is a target (some exact sizes are unreachable: varint length prefixes)
	// AclHead overrides the acl record the change cites ("" = the acl head). A change citing a record
	// the receiver's acl does not contain is attached and then refused by the tree validator.
	AclHead string
}

func (e *env) rootRaw(id string, size int) *treechangeproto.RawTreeChangeWithId {
	return e.rootRawSized(id, size, false)
}

func (e *env) rootRawSized(id string, size int, approx bool) *treechangeproto.RawTreeChangeWithId {
	mk := func(pad int) []byte {
		rc := &treechangeproto.RootChange{AclHeadId: e.aclHead, Identity: e.identity, ChangeType: "verif"}
		if pad > 0 {
			rc.ChangePayload = make([]byte, pad)
		}
		p, _ := rc.MarshalVT()
		raw := &treechangeproto.RawTreeChange{Payload: p}
		b, _ := raw.MarshalVT()
		return b
	}
	return &treechangeproto.RawTreeChangeWithId{RawChange: sized(mk, size, approx), Id: id}
}

func (e *env) raw(c chSpec) *treechangeproto.RawTreeChangeWithId {
	prev := append([]string(nil), c.Prev...)
	sort.Strings(prev)
	aclHead := e.aclHead
	if c.AclHead != "" {
		aclHead = c.AclHead
	}
	mk := func(pad int) []byte {
		tc := &treechangeproto.TreeChange{
			TreeHeadIds:    prev,
			AclHeadId:      aclHead,
			SnapshotBaseId: c.Snap,
			IsSnapshot:     c.IsSnap,
			DataType:       "verif",
			Identity:       e.identity,
		}
		if pad > 0 {
			tc.ChangesData = make([]byte, pad)
		}
		p, _ := tc.MarshalVT()
		raw := &treechangeproto.RawTreeChange{Payload: p}
		b, _ := raw.MarshalVT()
		return b
	}
	return &treechangeproto.RawTreeChangeWithId{RawChange: sized(mk, c.Size, c.Approx), Id: c.Id}
}

// sized pads the payload until the marshalled change has exactly `size` bytes (0 = no padding).
func sized(mk func(pad int) []byte, size int, approx bool) []byte {
	b := mk(0)
	if size == 0 {
		return b
	}
	if len(b) > size {
		panic(fmt.Sprintf("change cannot be made as small as %d bytes (minimum %d)", size, len(b)))
	}
	pad := size - len(b)
	for i := 0; i < 12; i++ {
		b = mk(pad)
		if len(b) == size {
			return b
		}
		pad += size - len(b)
		if pad < 1 {
			pad = 1
		}
	}
	if approx {
		return b
	}
	panic(fmt.Sprintf("cannot reach size %d (got %d)", size, len(b)))
}

// ---------------------------------------------------------------------------------------------
// replicas

type buildFunc func(objecttree.Storage, list.AclList) (objecttree.ObjectTree, error)

type replica struct {
	e      *env
	slot   *dbSlot
	treeId string
	st     objecttree.Storage
	tree   objecttree.ObjectTree
	build  buildFunc
	acl    list.AclList
	sync   synctree.SyncTree // set for replicas built as real sync trees (C09 handler path)
	client *fakeClient
	reject *string // signed path: id the tree's content validator refuses ("" = none)
}

// unknownAclHead is cited by the corrupted copy of a change in a rejected delivery (chosen-id path)
const unknownAclHead = "bafyreiverifunknownaclrecordxxxxxxxxxxxxxxxxxxxxxxxxxxxxxxxx"

// mockBuild = chosen ids (non-verifying change builder) with the real tree validator.
var mockBuild buildFunc = objecttree.BuildMigratableObjectTree

// rejectingBuild = the signed tree whose content validator refuses the change *bad points to.
func rejectingBuild(bad *string) buildFunc {
	return objecttree.BuildObjectTreeWithContentValidator(func(ch *objecttree.Change, _ list.AclList) error {
		if *bad != "" && ch.Id == *bad {
			return fmt.Errorf("verif: change %s refused by the content validator", ch.Id)
		}
		return nil
	})
}

// miniSpace is the part of a space storage PutSyncTree needs: head storage + tree storage creation.
type miniSpace struct {
	spacestorage.SpaceStorage
	slot *dbSlot
}

func (m *miniSpace) HeadStorage() headstorage.HeadStorage { return m.slot.hs }
func (m *miniSpace) CreateTreeStorage(ctx context.Context, payload treestorage.TreeStorageCreatePayload) (objecttree.Storage, error) {
	st, err := objecttree.CreateStorage(ctx, payload.RootRawChange, m.slot.hs, m.slot.db)
	if err != nil {
		return nil, err
	}
	setAddSeq(st, &m.slot.addSeq)
	return st, nil
}

// fakeClient is the sync client of a harness sync tree: the real request factory, nothing is sent.
type fakeClient struct {
	synctree.RequestFactory
	queued     []syncdeps.Request
	broadcasts int
}

func (c *fakeClient) Broadcast(ctx context.Context, headUpdate *objectmessages.HeadUpdate) error {
	c.broadcasts++
	return nil
}
func (c *fakeClient) SendTreeRequest(ctx context.Context, req syncdeps.Request, collector syncdeps.ResponseCollector) error {
	return nil
}
func (c *fakeClient) QueueRequest(ctx context.Context, req syncdeps.Request) error {
	c.queued = append(c.queued, req)
	return nil
}

const spaceId = "spaceId"

// newSyncReplica builds a real SyncTree (synctree.PutSyncTree) on database `db`.
func (e *env) newSyncReplica(db int, root *treechangeproto.RawTreeChangeWithId, build buildFunc) (*replica, error) {
	s := e.slot(db)
	cl := &fakeClient{RequestFactory: synctree.NewRequestFactory(spaceId)}
	t, err := synctree.PutSyncTree(e.ctx, treestorage.TreeStorageCreatePayload{RootRawChange: root, Heads: []string{root.Id}}, synctree.BuildDeps{
		SpaceId:         spaceId,
		SyncClient:      cl,
		AclList:         e.acl,
		SpaceStorage:    &miniSpace{slot: s},
		SyncStatus:      syncstatus.NewNoOpSyncStatus(),
		BuildObjectTree: objecttree.BuildObjectTreeFunc(build),
		OnClose:         func(string) {},
	})
	if err != nil {
		return nil, fmt.Errorf("put sync tree: %w", err)
	}
	return &replica{e: e, slot: s, treeId: root.Id, st: t.Storage(), tree: t, build: build, acl: e.acl, sync: t, client: cl}, nil
}

func setAddSeq(st objecttree.Storage, seq *atomic.Uint64) {
	if s, ok := st.(interface{ SetAddSeq(*atomic.Uint64) }); ok {
		s.SetAddSeq(seq)
	}
}

// newReplica creates the storage of a tree from its root in database `db` and builds the tree.
func (e *env) newReplica(db int, root *treechangeproto.RawTreeChangeWithId, build buildFunc) (*replica, error) {
	s := e.slot(db)
	st, err := objecttree.CreateStorage(e.ctx, root, s.hs, s.db)
	if err != nil {
		return nil, fmt.Errorf("create storage: %w", err)
	}
	setAddSeq(st, &s.addSeq)
	r := &replica{e: e, slot: s, treeId: root.Id, st: st, build: build, acl: e.acl}
	r.tree, err = build(st, e.acl)
	if err != nil {
		return nil, fmt.Errorf("build tree: %w", err)
	}
	return r, nil
}

// newDeferredReplica is the tree a peer builds while fetching an object it does not have
// (objecttree.ValidateRawTreeDefault): storage with deferred creation.
func (e *env) newDeferredReplica(db int, root *treechangeproto.RawTreeChangeWithId, build buildFunc) (*replica, error) {
	s := e.slot(db)
	st, err := objecttree.CreateStorageWithDeferredCreation(e.ctx, root, s.hs, s.db)
	if err != nil {
		return nil, fmt.Errorf("create deferred storage: %w", err)
	}
	setAddSeq(st, &s.addSeq)
	r := &replica{e: e, slot: s, treeId: root.Id, st: st, build: build, acl: e.acl}
	r.tree, err = build(st, e.acl)
	if err != nil {
		return nil, fmt.Errorf("build tree: %w", err)
	}
	return r, nil
}

// reopen = close the tree and build it again from the same storage.
func (r *replica) reopen() error {
	st, err := objecttree.NewStorage(r.e.ctx, r.treeId, r.slot.hs, r.slot.db)
	if err != nil {
		return fmt.Errorf("open storage: %w", err)
	}
	setAddSeq(st, &r.slot.addSeq)
	tr, err := r.build(st, r.acl)
	if err != nil {
		return fmt.Errorf("rebuild tree: %w", err)
	}
	r.st, r.tree = st, tr
	return nil
}

func (r *replica) addRaw(heads []string, path []string, raws ...*treechangeproto.RawTreeChangeWithId) (objecttree.AddResult, error) {
	r.tree.Lock()
	defer r.tree.Unlock()
	return r.tree.AddRawChanges(r.e.ctx, objecttree.RawChangesPayload{NewHeads: heads, RawChanges: raws, SnapshotPath: path})
}

func (r *replica) iter() []string {
	var ids []string
	r.tree.Lock()
	defer r.tree.Unlock()
	_ = r.tree.IterateRoot(nil, func(c *objecttree.Change) bool { ids = append(ids, c.Id); return true })
	return ids
}

func (r *replica) iterFrom(id string) []string {
	var ids []string
	r.tree.Lock()
	defer r.tree.Unlock()
	_ = r.tree.IterateFrom(id, nil, func(c *objecttree.Change) bool { ids = append(ids, c.Id); return true })
	return ids
}

func (r *replica) heads() []string {
	r.tree.Lock()
	defer r.tree.Unlock()
	return sortedCopy(r.tree.Heads())
}

func (r *replica) rootId() string {
	r.tree.Lock()
	defer r.tree.Unlock()
	return r.tree.Root().Id
}

func (r *replica) snapshotPath() []string {
	r.tree.Lock()
	defer r.tree.Unlock()
	p, err := r.tree.SnapshotPath()
	if err != nil {
		return nil
	}
	return append([]string(nil), p...)
}

type storedCh struct {
	Id      string
	OrderId string
	Prev    []string
	Snap    string
	Size    int
	Raw     []byte
	AddSeq  uint64
}

func (r *replica) stored() ([]storedCh, error) {
	var res []storedCh
	err := r.st.GetAfterOrder(r.e.ctx, "", func(ctx context.Context, c objecttree.StorageChange) (bool, error) {
		res = append(res, storedCh{Id: c.Id, OrderId: c.OrderId, Prev: append([]string(nil), c.PrevIds...), Snap: c.SnapshotId,
			Size: len(c.RawChange), Raw: append([]byte(nil), c.RawChange...), AddSeq: c.AddSeq})
		return true, nil
	})
	return res, err
}

// addSeqViews returns, for the sequence number n, the ids Storage.GetAfterAddSeq(n) and
// ObjectTree.IterateAfterAddSeq(n) present (the incremental views of consumers that remember the
// last add sequence they processed).
func (r *replica) addSeqViews(n uint64) (fromStorage, fromTree []string, err error) {
	err = r.st.GetAfterAddSeq(r.e.ctx, n, func(ctx context.Context, c objecttree.StorageChange) (bool, error) {
		fromStorage = append(fromStorage, c.Id)
		return true, nil
	})
	if err != nil {
		return nil, nil, err
	}
	r.tree.Lock()
	defer r.tree.Unlock()
	err = r.tree.IterateAfterAddSeq(r.e.ctx, n, nil, func(c *objecttree.Change) bool {
		fromTree = append(fromTree, c.Id)
		return true
	})
	return fromStorage, fromTree, err
}

func (r *replica) storedHeads() []string {
	h, err := r.st.Heads(r.e.ctx)
	if err != nil {
		return nil
	}
	return sortedCopy(h)
}

// ---------------------------------------------------------------------------------------------
// the independent oracle: a DAG taken from what is stored (ids, parents) and the canonical order
// recomputed on it.

type dag struct {
	prev map[string][]string
	next map[string][]string
}

func dagOf(st []storedCh) *dag {
	d := &dag{prev: map[string][]string{}, next: map[string][]string{}}
	for _, c := range st {
		d.prev[c.Id] = c.Prev
	}
	for _, c := range st {
		for _, p := range c.Prev {
			d.next[p] = append(d.next[p], c.Id)
		}
	}
	for k := range d.next {
		sort.Strings(d.next[k])
	}
	return d
}

func (d *dag) has(id string) bool { _, ok := d.prev[id]; return ok }

// canon = reverse post-order of a depth-first walk from root over the changes in `in`
// (nil = all), children visited in descending id order (so that smaller ids come first).
func (d *dag) canon(root string, in map[string]bool) []string {
	var post []string
	vis := map[string]bool{}
	var walk func(c string)
	walk = func(c string) {
		if vis[c] {
			return
		}
		vis[c] = true
		kids := d.next[c]
		for i := len(kids) - 1; i >= 0; i-- {
			if in == nil || in[kids[i]] {
				walk(kids[i])
			}
		}
		post = append(post, c)
	}
	walk(root)
	for i, j := 0, len(post)-1; i < j; i, j = i+1, j-1 {
		post[i], post[j] = post[j], post[i]
	}
	return post
}

func (d *dag) ancEq(ids ...string) map[string]bool {
	res := map[string]bool{}
	stack := append([]string(nil), ids...)
	for len(stack) > 0 {
		c := stack[len(stack)-1]
		stack = stack[:len(stack)-1]
		if res[c] || !d.has(c) {
			continue
		}
		res[c] = true
		stack = append(stack, d.prev[c]...)
	}
	return res
}

func (d *dag) descEq(root string) map[string]bool {
	res := map[string]bool{}
	stack := []string{root}
	for len(stack) > 0 {
		c := stack[len(stack)-1]
		stack = stack[:len(stack)-1]
		if res[c] {
			continue
		}
		res[c] = true
		stack = append(stack, d.next[c]...)
	}
	return res
}

func (d *dag) headsOf(set map[string]bool) []string {
	var hs []string
	for c := range set {
		max := true
		for _, n := range d.next[c] {
			if set[n] {
				max = false
				break
			}
		}
		if max {
			hs = append(hs, c)
		}
	}
	sort.Strings(hs)
	return hs
}

// linear extension: every change after all its parents that are in the sequence
func (d *dag) causal(seq []string) (string, bool) {
	pos := map[string]int{}
	for i, c := range seq {
		pos[c] = i
	}
	for i, c := range seq {
		for _, p := range d.prev[c] {
			if j, ok := pos[p]; ok && j > i {
				return fmt.Sprintf("%s precedes its parent %s", c, p), false
			}
		}
	}
	return "", true
}

// ---------------------------------------------------------------------------------------------
// small helpers

func sortedCopy(s []string) []string {
	c := append([]string(nil), s...)
	sort.Strings(c)
	return c
}

func setOf(s []string) map[string]bool {
	m := map[string]bool{}
	for _, x := range s {
		m[x] = true
	}
	return m
}

func restrict(seq []string, in map[string]bool) []string {
	var r []string
	for _, x := range seq {
		if in[x] {
			r = append(r, x)
		}
	}
	return r
}

func eqSeq(a, b []string) bool {
	if len(a) != len(b) {
		return false
	}
	for i := range a {
		if a[i] != b[i] {
			return false
		}
	}
	return true
}

func isPrefix(a, b []string) bool { return len(a) <= len(b) && eqSeq(a, b[:len(a)]) }

func ids(st []storedCh) []string {
	r := make([]string, len(st))
	for i, c := range st {
		r[i] = c.Id
	}
	return r
}

func modeName(m objecttree.Mode) string {
	switch m {
	case objecttree.Append:
		return "Append"
	case objecttree.Rebuild:
		return "Rebuild"
	case objecttree.Nothing:
		return "Nothing"
	}
	return fmt.Sprintf("Mode(%d)", int(m))
}

func strip(prefix string, s []string) []string {
	r := make([]string, len(s))
	for i, x := range s {
		r[i] = strings.TrimPrefix(x, prefix)
	}
	return r
}

// runGuarded runs f under recover and a watchdog: a panic or a hang inside the code under test is
// reported to the caller (it is never a wall-clock oracle: the watchdog is far above any run time).
func runGuarded(f func() error) (err error, panicked any, hung bool) {
	done := make(chan struct{})
	go func() {
		defer close(done)
		defer func() {
			if p := recover(); p != nil {
				panicked = p
			}
		}()
		err = f()
	}()
	select {
	case <-done:
		return err, panicked, false
	case <-time.After(60 * time.Second):
		return nil, nil, true
	}
}
